#!/bin/bash
# muteval.sh <worktree> <seeddir> <prop> [tier]  — confirm a seeded change (suite passes, demo fails with / passes without), then run our check on the patched scratch tree.
wt=$1; sd=$(readlink -f $2); prop=$3; tier=${4:-quick}
cd $wt || exit 2
git checkout -q -- . ; git clean -fdq internal cmd
pkgdir=$(python3 -c "import json;print(json.load(open('$sd/meta.json'))['demo_package_dir'])")
tname=$(grep -oE 'func (Test[A-Za-z0-9_]+)' $sd/demo_test.go | head -1 | awk '{print $2}')
cp $sd/demo_test.go $pkgdir/zz_demo_test.go
echo "--- demo without patch (expect PASS)"; go test -vet=off -count=1 -run "^$tname\$" ./$pkgdir 2>&1 | tail -3
rm $pkgdir/zz_demo_test.go
git apply $sd/patch.diff || { echo "PATCH DOES NOT APPLY"; exit 2; }
echo "--- suite with patch (expect all ok)"; go build ./... && go test -vet=off -count=1 ./cmd/... ./internal/... 2>&1 | grep -v 'no test files' | grep -v '^ok' ; echo "suite-exit=${PIPESTATUS[0]}"
cp $sd/demo_test.go $pkgdir/zz_demo_test.go
echo "--- demo with patch (expect FAIL)"; go test -vet=off -count=1 -run "^$tname\$" ./$pkgdir 2>&1 | tail -4
rm $pkgdir/zz_demo_test.go
echo "--- our check on the patched tree ($prop $tier)"
cd /verif && VERIF_REPO=$wt timeout 3600 ./vcheck $prop $tier 2>&1 | grep -E 'VIOLATION|INCONCLUSIVE|^C[0-9]+ |ENGINE|FAILED|  harness' | cut -c1-300 | head -40
cd $wt && git checkout -q -- . 
