package main

import (
	"fmt"
	"go/types"
	"path/filepath"
	"regexp"
	"sort"
	"strconv"
	"strings"
	"time"

	"github.com/bmatcuk/doublestar/v4"
	"go.lsp.dev/uri"
	"golang.org/x/tools/go/ssa"
)

const zz = repoModule + "/internal/zzverif."

// ---------- virtual file system ----------

type vfile struct {
	content *Str
	size    int64 // -1: len(content)
}

type VFS struct {
	files map[string]*vfile
	home  string
	cwd   string
	env   map[string]string
}

func newVFS() *VFS {
	return &VFS{files: map[string]*vfile{}, home: "/home/u", cwd: "/w", env: map[string]string{}}
}

func (v *VFS) sortedPaths() []string {
	var ps []string
	for p := range v.files {
		ps = append(ps, p)
	}
	sort.Strings(ps)
	return ps
}

func (v *VFS) isDir(path string) bool {
	pre := strings.TrimSuffix(path, "/") + "/"
	for p := range v.files {
		if strings.HasPrefix(p, pre) {
			return true
		}
	}
	return path == "/"
}

func (ex *Exec) fileInfo(name string, size int64, dir bool) IfaceV {
	pk := ex.prog.byPath[repoModule+"/internal/zzverif"]
	if pk == nil {
		panic(unsupported("zzverif package not loaded (FakeFileInfo)"))
	}
	t := pk.Members["FakeFileInfo"].Type()
	return IfaceV{t: t, v: StructV{ex.strC(name), ex.ts.BVConst(uint64(size), 64), ex.mkBool(dir)}}
}

func (ex *Exec) renderTyped(t types.Type, v Value, env *Env) string {
	if tt, ok := v.(*Term); ok && tt.S.K == KBV {
		if b := basicOf(t); b != nil && isSigned(b) {
			u, _ := ex.ts.Eval(tt, env)
			return fmt.Sprint(sext(u, tt.S.W))
		}
	}
	return ex.renderUnder(v, env)
}

func init() {
	// ---------------- zzverif API ----------------
	reg(zz+"Byte", func(ex *Exec, _ *frame, _ *ssa.Function, a []Value) Value {
		name := ex.concStr(a[0], "name")
		v := ex.ts.Var(name, BV(8))
		ex.declInput(name, v, "byte")
		return v
	})
	reg(zz+"ByteIn", func(ex *Exec, _ *frame, _ *ssa.Function, a []Value) Value {
		name := ex.concStr(a[0], "name")
		allowed := ex.concStr(a[1], "allowed")
		v := ex.ts.Var(name, BV(8))
		ex.declInput(name, v, "byte")
		// membership as ranges
		var d dom
		for i := 0; i < len(allowed); i++ {
			d.set(uint64(allowed[i]))
		}
		ts := ex.ts
		c := ts.False
		for lo := 0; lo < 256; lo++ {
			if !d.has(uint64(lo)) {
				continue
			}
			hi := lo
			for hi+1 < 256 && d.has(uint64(hi+1)) {
				hi++
			}
			if lo == hi {
				c = ts.Or(c, ts.Eq(v, ex.byteC(byte(lo))))
			} else {
				c = ts.Or(c, ts.And(ts.BVCmp(OpULe, ex.byteC(byte(lo)), v), ts.BVCmp(OpULe, v, ex.byteC(byte(hi)))))
			}
			lo = hi
		}
		if d.count() == 1 {
			for x := 0; x < 256; x++ {
				if d.has(uint64(x)) {
					return ex.byteC(byte(x))
				}
			}
		}
		ex.assumeInput(c)
		return v
	})
	reg(zz+"Bool", func(ex *Exec, _ *frame, _ *ssa.Function, a []Value) Value {
		name := ex.concStr(a[0], "name")
		v := ex.ts.Var(name, SBool)
		ex.declInput(name, v, "bool")
		return v
	})
	reg(zz+"Int", func(ex *Exec, _ *frame, _ *ssa.Function, a []Value) Value {
		name := ex.concStr(a[0], "name")
		lo, hi := ex.concretizeInt(a[1], "lo"), ex.concretizeInt(a[2], "hi")
		v := ex.ts.Var(name, BV(64))
		ex.declInput(name, v, "int")
		ts := ex.ts
		ex.assumeInput(ts.And(ts.BVCmp(OpSLe, ts.BVConst(uint64(lo), 64), v), ts.BVCmp(OpSLe, v, ts.BVConst(uint64(hi), 64))))
		return v
	})
	reg(zz+"Uint32", func(ex *Exec, _ *frame, _ *ssa.Function, a []Value) Value {
		name := ex.concStr(a[0], "name")
		v := ex.ts.Var(name, BV(32))
		ex.declInput(name, v, "uint32")
		return v
	})
	reg(zz+"Choice", func(ex *Exec, _ *frame, _ *ssa.Function, a []Value) Value {
		name := ex.concStr(a[0], "name")
		n := int(ex.concretizeInt(a[1], "n"))
		return ex.i64(ex.Choice(name, n))
	})
	reg(zz+"Assume", func(ex *Exec, _ *frame, _ *ssa.Function, a []Value) Value {
		ex.Assume(term(a[0]))
		return nil
	})
	reg(zz+"Assert", func(ex *Exec, _ *frame, _ *ssa.Function, a []Value) Value {
		ex.Assert(term(a[0]), ex.concStr(a[1], "msg"))
		return nil
	})
	reg(zz+"Reach", func(ex *Exec, _ *frame, _ *ssa.Function, a []Value) Value {
		ex.reached = append(ex.reached, ex.concStr(a[0], "label"))
		return nil
	})
	reg(zz+"Observe", func(ex *Exec, _ *frame, _ *ssa.Function, a []Value) Value {
		name := ex.concStr(a[0], "name")
		iv := a[1].(IfaceV)
		ex.observes = append(ex.observes, obsRec{name: name, v: iv.v, t: iv.t})
		return nil
	})
	reg(zz+"Known", func(ex *Exec, _ *frame, _ *ssa.Function, a []Value) Value {
		return ex.mkBool(knownClass(ex.run.cfg.Known, ex.concStr(a[0], "class")))
	})
	reg(zz+"Engine", func(ex *Exec, _ *frame, _ *ssa.Function, a []Value) Value { return ex.ts.True })
	reg(zz+"PendingTasks", func(ex *Exec, _ *frame, _ *ssa.Function, a []Value) Value {
		n := 0
		for _, t := range ex.tasks {
			if !t.done {
				n++
			}
		}
		return ex.i64(n)
	})
	reg(zz+"RunTask", func(ex *Exec, fr *frame, _ *ssa.Function, a []Value) Value {
		k := int(ex.concretizeInt(a[0], "task index"))
		n := 0
		for _, t := range ex.tasks {
			if t.done {
				continue
			}
			if n == k {
				t.done = true
				ex.call(nil, t.fn, t.args)
				return nil
			}
			n++
		}
		panic(pathAbort{"infeasible", "RunTask: no such pending task"})
	})
	reg(zz+"MapOrderNondet", func(ex *Exec, _ *frame, _ *ssa.Function, a []Value) Value {
		ex.mapOrderNondet = term(a[0]).C != 0
		return nil
	})
	reg(zz+"Root", func(ex *Exec, _ *frame, _ *ssa.Function, a []Value) Value { return ex.strC("/w") })
	reg(zz+"Home", func(ex *Exec, _ *frame, _ *ssa.Function, a []Value) Value { return ex.strC(ex.vfs.home) })
	reg(zz+"WriteFile", func(ex *Exec, _ *frame, _ *ssa.Function, a []Value) Value {
		ex.vfs.files[ex.concStr(a[0], "path")] = &vfile{content: str(a[1]), size: -1}
		return nil
	})
	reg(zz+"WriteFileSized", func(ex *Exec, _ *frame, _ *ssa.Function, a []Value) Value {
		ex.vfs.files[ex.concStr(a[0], "path")] = &vfile{content: str(a[1]), size: ex.concretizeInt(a[2], "size")}
		return nil
	})
	reg(zz+"RemoveFile", func(ex *Exec, _ *frame, _ *ssa.Function, a []Value) Value {
		delete(ex.vfs.files, ex.concStr(a[0], "path"))
		return nil
	})
	reg(zz+"SetNow", func(ex *Exec, _ *frame, _ *ssa.Function, a []Value) Value {
		ex.nowUnix = ex.concretizeInt(a[0], "now")
		return nil
	})

	// ---------------- os / filepath / glob on the VFS ----------------
	reg("os.Stat", func(ex *Exec, _ *frame, _ *ssa.Function, a []Value) Value {
		ex.used("os.Stat -> virtual file system")
		p := filepath.Clean(ex.concStr(a[0], "os.Stat path")) // the OS resolves "." and ".." segments
		if f, ok := ex.vfs.files[p]; ok {
			sz := f.size
			if sz < 0 {
				sz = int64(f.content.Len())
			}
			return TupleV{ex.fileInfo(pathBase(p), sz, false), IfaceV{}}
		}
		if ex.vfs.isDir(p) {
			return TupleV{ex.fileInfo(pathBase(p), 4096, true), IfaceV{}}
		}
		return TupleV{IfaceV{}, ex.mkError("stat " + p + ": no such file or directory")}
	})
	reg("os.ReadFile", func(ex *Exec, _ *frame, _ *ssa.Function, a []Value) Value {
		ex.used("os.ReadFile -> virtual file system")
		p := filepath.Clean(ex.concStr(a[0], "os.ReadFile path"))
		if f, ok := ex.vfs.files[p]; ok {
			bs := ex.strBytes(f.content)
			out := make([]Value, len(bs))
			for i, b := range bs {
				out[i] = b
			}
			return TupleV{SliceV{out}, IfaceV{}}
		}
		return TupleV{SliceV{}, ex.mkError("open " + p + ": no such file or directory")}
	})
	reg("os.Getenv", func(ex *Exec, _ *frame, _ *ssa.Function, a []Value) Value {
		ex.used("os.Getenv -> harness environment")
		return ex.strC(ex.vfs.env[ex.concStr(a[0], "Getenv")])
	})
	reg("os.UserHomeDir", func(ex *Exec, _ *frame, _ *ssa.Function, a []Value) Value {
		ex.used("os.UserHomeDir -> /home/u")
		return TupleV{ex.strC(ex.vfs.home), IfaceV{}}
	})
	reg("path/filepath.Abs", func(ex *Exec, _ *frame, _ *ssa.Function, a []Value) Value {
		p := ex.concStr(a[0], "filepath.Abs")
		if !strings.HasPrefix(p, "/") {
			p = ex.vfs.cwd + "/" + p
		}
		return TupleV{ex.strC(pathClean(p)), IfaceV{}}
	})
	reg("path/filepath.Walk", func(ex *Exec, fr *frame, _ *ssa.Function, a []Value) Value {
		ex.used("filepath.Walk -> virtual file system (lexical order)")
		root := pathClean(ex.concStr(a[0], "Walk root"))
		fn := a[1]
		// directories and files in lexical order
		seen := map[string]bool{}
		var all []string
		add := func(p string) {
			if !seen[p] {
				seen[p] = true
				all = append(all, p)
			}
		}
		pre := strings.TrimSuffix(root, "/") + "/"
		hasAny := false
		for _, p := range ex.vfs.sortedPaths() {
			if p == root || strings.HasPrefix(p, pre) {
				hasAny = true
				// add intermediate dirs
				rel := strings.TrimPrefix(p, pre)
				parts := strings.Split(rel, "/")
				cur := root
				for i := 0; i < len(parts)-1; i++ {
					cur = cur + "/" + parts[i]
					add(cur)
				}
				if p != root {
					add(p)
				}
			}
		}
		if !hasAny {
			r := ex.call(fr, fn, []Value{ex.strC(root), IfaceV{}, ex.mkError("lstat " + root + ": no such file or directory")})
			return r
		}
		sort.Strings(all)
		all = append([]string{root}, all...)
		skipPrefix := ""
		for _, p := range all {
			if skipPrefix != "" && strings.HasPrefix(p, skipPrefix) {
				continue
			}
			var info IfaceV
			if f, ok := ex.vfs.files[p]; ok {
				sz := f.size
				if sz < 0 {
					sz = int64(f.content.Len())
				}
				info = ex.fileInfo(pathBase(p), sz, false)
			} else {
				info = ex.fileInfo(pathBase(p), 4096, true)
			}
			r := ex.call(fr, fn, []Value{ex.strC(p), info, IfaceV{}})
			if iv, ok := r.(IfaceV); ok && iv.t != nil {
				// SkipDir / SkipAll handling: compare against filepath.SkipDir
				if ex.isErrVar(iv, "io/fs", "SkipDir") {
					if _, isFile := ex.vfs.files[p]; isFile {
						return IfaceV{}
					}
					skipPrefix = p + "/"
					continue
				}
				if ex.isErrVar(iv, "io/fs", "SkipAll") {
					return IfaceV{}
				}
				return iv
			}
		}
		return IfaceV{}
	})
	reg("github.com/bmatcuk/doublestar/v4.FilepathGlob", func(ex *Exec, _ *frame, _ *ssa.Function, a []Value) Value {
		ex.used("doublestar.FilepathGlob -> real doublestar.Match over the virtual file list")
		pat := ex.concStr(a[0], "glob pattern")
		if !doublestar.ValidatePattern(pat) {
			return TupleV{SliceV{}, ex.mkError("syntax error in pattern")}
		}
		var out []string
		seen := map[string]bool{}
		for _, p := range ex.vfs.sortedPaths() {
			// files and their parent directories
			cands := []string{p}
			for d := pathDir(p); d != "/" && d != "."; d = pathDir(d) {
				cands = append(cands, d)
			}
			for _, c := range cands {
				if seen[c] {
					continue
				}
				seen[c] = true
				if ok, _ := doublestar.Match(pat, c); ok {
					out = append(out, c)
				}
			}
		}
		sort.Strings(out)
		if out == nil {
			return TupleV{SliceV{}, IfaceV{}}
		}
		return TupleV{ex.sliceOfStrings(out), IfaceV{}}
	})
	reg("github.com/bmatcuk/doublestar/v4.Match", func(ex *Exec, _ *frame, _ *ssa.Function, a []Value) Value {
		ok, err := doublestar.Match(ex.concStr(a[0], "pattern"), ex.concStr(a[1], "name"))
		if err != nil {
			return TupleV{ex.ts.False, ex.mkError(err.Error())}
		}
		return TupleV{ex.mkBool(ok), IfaceV{}}
	})

	// ---------------- go.lsp.dev/uri ----------------
	reg("go.lsp.dev/uri.File", func(ex *Exec, _ *frame, _ *ssa.Function, a []Value) Value {
		return ex.strC(string(uri.File(ex.concStr(a[0], "uri.File"))))
	})
	reg("go.lsp.dev/uri.New", func(ex *Exec, _ *frame, _ *ssa.Function, a []Value) Value {
		return ex.strC(string(uri.New(ex.concStr(a[0], "uri.New"))))
	})
	reg("(go.lsp.dev/uri.URI).Filename", func(ex *Exec, _ *frame, _ *ssa.Function, a []Value) Value {
		s := ex.concStr(a[0], "URI.Filename")
		var out string
		func() {
			defer func() {
				if r := recover(); r != nil {
					panic(goPanic{msg: fmt.Sprint("panic: ", r)})
				}
			}()
			out = uri.URI(s).Filename()
		}()
		return ex.strC(out)
	})

	// ---------------- regexp ----------------
	reg("regexp.MustCompile", func(ex *Exec, _ *frame, _ *ssa.Function, a []Value) Value {
		re := regexp.MustCompile(ex.concStr(a[0], "regexp"))
		p := new(Value)
		*p = NativeV{re}
		return p
	})
	reg("(*regexp.Regexp).MatchString", func(ex *Exec, _ *frame, _ *ssa.Function, a []Value) Value {
		re := (*a[0].(*Value)).(NativeV).v.(*regexp.Regexp)
		return ex.mkBool(re.MatchString(ex.concStr(a[1], "regexp input")))
	})
	reg("(*regexp.Regexp).FindString", func(ex *Exec, _ *frame, _ *ssa.Function, a []Value) Value {
		re := (*a[0].(*Value)).(NativeV).v.(*regexp.Regexp)
		return ex.strC(re.FindString(ex.concStr(a[1], "regexp input")))
	})
	reg("(*regexp.Regexp).FindStringSubmatch", func(ex *Exec, _ *frame, _ *ssa.Function, a []Value) Value {
		re := (*a[0].(*Value)).(NativeV).v.(*regexp.Regexp)
		m := re.FindStringSubmatch(ex.concStr(a[1], "regexp input"))
		if m == nil {
			return SliceV{}
		}
		return ex.sliceOfStrings(m)
	})

	// ---------------- time ----------------
	toTime := func(v Value) time.Time {
		if n, ok := v.(NativeV); ok {
			return n.v.(time.Time)
		}
		return time.Time{}
	}
	reg("time.Now", func(ex *Exec, _ *frame, _ *ssa.Function, a []Value) Value {
		ex.used("time.Now -> fixed instant chosen by the harness")
		return NativeV{time.Unix(ex.nowUnix, 0).UTC()}
	})
	reg("time.Parse", func(ex *Exec, _ *frame, _ *ssa.Function, a []Value) Value {
		t, err := time.Parse(ex.concStr(a[0], "layout"), ex.concStr(a[1], "time value"))
		if err != nil {
			return TupleV{NativeV{time.Time{}}, ex.mkError(err.Error())}
		}
		return TupleV{NativeV{t}, IfaceV{}}
	})
	reg("time.Date", func(ex *Exec, _ *frame, _ *ssa.Function, a []Value) Value {
		n := func(i int) int { return int(ex.concretizeInt(a[i], "time.Date arg")) }
		return NativeV{time.Date(n(0), time.Month(n(1)), n(2), n(3), n(4), n(5), n(6), time.UTC)}
	})
	reg("(time.Time).AddDate", func(ex *Exec, _ *frame, _ *ssa.Function, a []Value) Value {
		n := func(i int) int { return int(ex.concretizeInt(a[i], "AddDate arg")) }
		return NativeV{toTime(a[0]).AddDate(n(1), n(2), n(3))}
	})
	reg("(time.Time).Format", func(ex *Exec, _ *frame, _ *ssa.Function, a []Value) Value {
		return ex.strC(toTime(a[0]).Format(ex.concStr(a[1], "layout")))
	})
	reg("(time.Time).Year", func(ex *Exec, _ *frame, _ *ssa.Function, a []Value) Value { return ex.i64(toTime(a[0]).Year()) })
	reg("(time.Time).Month", func(ex *Exec, _ *frame, _ *ssa.Function, a []Value) Value {
		return ex.i64(int(toTime(a[0]).Month()))
	})
	reg("(time.Time).Day", func(ex *Exec, _ *frame, _ *ssa.Function, a []Value) Value { return ex.i64(toTime(a[0]).Day()) })
	reg("(time.Time).Weekday", func(ex *Exec, _ *frame, _ *ssa.Function, a []Value) Value {
		return ex.i64(int(toTime(a[0]).Weekday()))
	})
	reg("(time.Time).IsZero", func(ex *Exec, _ *frame, _ *ssa.Function, a []Value) Value {
		return ex.mkBool(toTime(a[0]).IsZero())
	})
	reg("(time.Time).Before", func(ex *Exec, _ *frame, _ *ssa.Function, a []Value) Value {
		return ex.mkBool(toTime(a[0]).Before(toTime(a[1])))
	})
	reg("(time.Time).After", func(ex *Exec, _ *frame, _ *ssa.Function, a []Value) Value {
		return ex.mkBool(toTime(a[0]).After(toTime(a[1])))
	})
	reg("(time.Time).Equal", func(ex *Exec, _ *frame, _ *ssa.Function, a []Value) Value {
		return ex.mkBool(toTime(a[0]).Equal(toTime(a[1])))
	})
	reg("(time.Time).Unix", func(ex *Exec, _ *frame, _ *ssa.Function, a []Value) Value {
		return ex.i64(int(toTime(a[0]).Unix()))
	})
	reg("(time.Duration).String", func(ex *Exec, _ *frame, _ *ssa.Function, a []Value) Value {
		t := term(a[0])
		if !t.IsConst() {
			panic(unsupported("Duration.String symbolic"))
		}
		return ex.strC(time.Duration(sext(t.C, 64)).String())
	})

	// ---------------- context ----------------
	reg("context.WithTimeout", func(ex *Exec, _ *frame, _ *ssa.Function, a []Value) Value {
		ex.used("context.WithTimeout -> parent context, no-op cancel")
		return TupleV{a[0], &FuncV{native: func(ex *Exec, args []Value) Value { return nil }}}
	})
	reg("context.WithCancel", func(ex *Exec, _ *frame, _ *ssa.Function, a []Value) Value {
		ex.used("context.WithCancel -> parent context, no-op cancel")
		return TupleV{a[0], &FuncV{native: func(ex *Exec, args []Value) Value { return nil }}}
	})

	// ---------------- os/exec (cli client) ----------------
	reg("(*"+repoModule+"/internal/cli.Client).checkAvailable", func(ex *Exec, _ *frame, _ *ssa.Function, a []Value) Value {
		ex.used("cli.(*Client).checkAvailable -> false (no hledger binary)")
		return ex.ts.False
	})

	// ---------------- sync ----------------
	nop := func(ex *Exec, _ *frame, _ *ssa.Function, a []Value) Value { return nil }
	for _, n := range []string{"(*sync.RWMutex).RLock", "(*sync.RWMutex).RUnlock", "(*sync.WaitGroup).Add", "(*sync.WaitGroup).Done", "(*sync.WaitGroup).Wait"} {
		reg(n, nop)
	}
	// Exclusive locks are counters per mutex object (tasks run to completion, so a lock is never
	// held across tasks; what the count gives is TryLock = "is this mutex held right now").
	lockKey := func(v Value) any {
		if p, ok := v.(*Value); ok {
			return p
		}
		return v
	}
	lock := func(ex *Exec, _ *frame, _ *ssa.Function, a []Value) Value {
		if ex.locks == nil {
			ex.locks = map[any]int{}
		}
		if ex.locks[lockKey(a[0])] > 0 {
			// the mutex is held by a task that is suspended below this one (a task run nested inside
			// a client call): this execution would block until that task resumes, which a nested
			// run cannot do. The schedule is not realisable by nesting: the path is cut.
			panic(pathAbort{"assume", ""})
		}
		ex.locks[lockKey(a[0])]++
		return nil
	}
	unlock := func(ex *Exec, _ *frame, _ *ssa.Function, a []Value) Value {
		if ex.locks != nil && ex.locks[lockKey(a[0])] > 0 {
			ex.locks[lockKey(a[0])]--
		}
		return nil
	}
	reg("(*sync.Mutex).Lock", lock)
	reg("(*sync.RWMutex).Lock", lock)
	reg("(*sync.Mutex).Unlock", unlock)
	reg("(*sync.RWMutex).Unlock", unlock)
	reg("(*sync.Mutex).TryLock", func(ex *Exec, _ *frame, _ *ssa.Function, a []Value) Value {
		if ex.locks == nil {
			ex.locks = map[any]int{}
		}
		if ex.locks[lockKey(a[0])] > 0 {
			return ex.ts.False
		}
		ex.locks[lockKey(a[0])]++
		return ex.ts.True
	})
	reg("(*sync.Once).Do", func(ex *Exec, fr *frame, _ *ssa.Function, a []Value) Value {
		p := a[0].(*Value)
		if ex.onceDone == nil {
			ex.onceDone = map[*Value]bool{}
		}
		if !ex.onceDone[p] {
			ex.onceDone[p] = true
			ex.call(fr, a[1], nil)
		}
		return nil
	})
	smap := func(ex *Exec, recv Value) *MapV {
		p := recv.(*Value)
		if p == nil {
			ex.goPanicStr("nil *sync.Map")
		}
		st := (*p).(StructV)
		if m, ok := st[0].(*MapV); ok && m != nil {
			return m
		}
		m := ex.newMap(types.NewInterfaceType(nil, nil), types.NewInterfaceType(nil, nil))
		st[0] = m
		return m
	}
	reg("(*sync.Map).Load", func(ex *Exec, _ *frame, _ *ssa.Function, a []Value) Value {
		if e := ex.mapFind(smap(ex, a[0]), a[1]); e != nil {
			return TupleV{e.v, ex.ts.True}
		}
		return TupleV{IfaceV{}, ex.ts.False}
	})
	reg("(*sync.Map).Store", func(ex *Exec, _ *frame, _ *ssa.Function, a []Value) Value {
		ex.mapSet(smap(ex, a[0]), a[1], a[2])
		return nil
	})
	reg("(*sync.Map).Delete", func(ex *Exec, _ *frame, _ *ssa.Function, a []Value) Value {
		ex.mapDelete(smap(ex, a[0]), a[1])
		return nil
	})
	reg("(*sync.Map).LoadOrStore", func(ex *Exec, _ *frame, _ *ssa.Function, a []Value) Value {
		m := smap(ex, a[0])
		if e := ex.mapFind(m, a[1]); e != nil {
			return TupleV{e.v, ex.ts.True}
		}
		ex.mapSet(m, a[1], a[2])
		return TupleV{a[2], ex.ts.False}
	})
	reg("(*sync.Map).LoadAndDelete", func(ex *Exec, _ *frame, _ *ssa.Function, a []Value) Value {
		m := smap(ex, a[0])
		if e := ex.mapFind(m, a[1]); e != nil {
			v := e.v
			ex.mapDelete(m, a[1])
			return TupleV{v, ex.ts.True}
		}
		return TupleV{IfaceV{}, ex.ts.False}
	})
	reg("(*sync.Map).Clear", func(ex *Exec, _ *frame, _ *ssa.Function, a []Value) Value {
		m := smap(ex, a[0])
		for _, e := range m.live() {
			ex.mapDelete(m, e.k)
		}
		return nil
	})
	reg("(*sync.Map).Range", func(ex *Exec, fr *frame, _ *ssa.Function, a []Value) Value {
		m := smap(ex, a[0])
		ents := m.live()
		if len(ents) >= 2 && ex.mapOrderNondet {
			ents = ex.permute(ents)
		}
		for _, e := range ents {
			if e.deleted {
				continue
			}
			r := ex.call(fr, a[1], []Value{e.k, e.v})
			if !ex.Branch(term(r)) {
				break
			}
		}
		return nil
	})
	// sync/atomic typed values: value is the last field of the struct
	lastField := func(ex *Exec, recv Value) *Value {
		p := recv.(*Value)
		if p == nil {
			ex.goPanicStr("nil atomic receiver")
		}
		st := (*p).(StructV)
		return &st[len(st)-1]
	}
	for _, tn := range []string{"Int32", "Int64", "Uint32", "Uint64", "Bool", "Value", "Pointer", "Uintptr"} {
		pre := "(*sync/atomic." + tn + ")."
		isBool := tn == "Bool"
		reg(pre+"Load", func(ex *Exec, _ *frame, fn *ssa.Function, a []Value) Value {
			v := *lastField(ex, a[0])
			if isBool {
				return ex.ts.Not(ex.ts.Eq(term(v), ex.ts.BVConst(0, 32)))
			}
			if tn == "Pointer" {
				if v == nil {
					return (*Value)(nil)
				}
			}
			return v
		})
		reg(pre+"Store", func(ex *Exec, _ *frame, fn *ssa.Function, a []Value) Value {
			if isBool {
				*lastField(ex, a[0]) = ex.ts.Ite(term(a[1]), ex.ts.BVConst(1, 32), ex.ts.BVConst(0, 32))
				return nil
			}
			*lastField(ex, a[0]) = a[1]
			return nil
		})
		reg(pre+"Swap", func(ex *Exec, _ *frame, fn *ssa.Function, a []Value) Value {
			p := lastField(ex, a[0])
			old := *p
			if isBool {
				*p = ex.ts.Ite(term(a[1]), ex.ts.BVConst(1, 32), ex.ts.BVConst(0, 32))
				return ex.ts.Not(ex.ts.Eq(term(old), ex.ts.BVConst(0, 32)))
			}
			*p = a[1]
			return old
		})
		reg(pre+"Add", func(ex *Exec, _ *frame, fn *ssa.Function, a []Value) Value {
			p := lastField(ex, a[0])
			n := ex.ts.BVBin(OpAdd, term(*p), term(a[1]))
			*p = n
			return n
		})
		reg(pre+"CompareAndSwap", func(ex *Exec, _ *frame, fn *ssa.Function, a []Value) Value {
			p := lastField(ex, a[0])
			if isBool {
				cur := ex.ts.Not(ex.ts.Eq(term(*p), ex.ts.BVConst(0, 32)))
				if ex.Branch(ex.ts.Eq(cur, term(a[1]))) {
					*p = ex.ts.Ite(term(a[2]), ex.ts.BVConst(1, 32), ex.ts.BVConst(0, 32))
					return ex.ts.True
				}
				return ex.ts.False
			}
			if ex.Branch(ex.eqNilAware(nil, *p, a[1])) {
				*p = a[2]
				return ex.ts.True
			}
			return ex.ts.False
		})
	}
	for _, tn := range []string{"Int32", "Int64", "Uint32", "Uint64", "Uintptr"} {
		reg("sync/atomic.Load"+tn, func(ex *Exec, _ *frame, fn *ssa.Function, a []Value) Value { return *(a[0].(*Value)) })
		reg("sync/atomic.Store"+tn, func(ex *Exec, _ *frame, fn *ssa.Function, a []Value) Value {
			*(a[0].(*Value)) = a[1]
			return nil
		})
		reg("sync/atomic.Add"+tn, func(ex *Exec, _ *frame, fn *ssa.Function, a []Value) Value {
			p := a[0].(*Value)
			n := ex.ts.BVBin(OpAdd, term(*p), term(a[1]))
			*p = n
			return n
		})
		reg("sync/atomic.CompareAndSwap"+tn, func(ex *Exec, _ *frame, fn *ssa.Function, a []Value) Value {
			p := a[0].(*Value)
			if ex.Branch(ex.ts.Eq(term(*p), term(a[1]))) {
				*p = a[2]
				return ex.ts.True
			}
			return ex.ts.False
		})
	}

	// ---------------- sort support ----------------
	reg("internal/reflectlite.Swapper", func(ex *Exec, _ *frame, _ *ssa.Function, a []Value) Value {
		iv := a[0].(IfaceV)
		sl := iv.v.(SliceV)
		return &FuncV{native: func(ex *Exec, args []Value) Value {
			i := ex.index(args[0], len(sl.a))
			j := ex.index(args[1], len(sl.a))
			sl.a[i], sl.a[j] = sl.a[j], sl.a[i]
			return nil
		}}
	})
	reg("internal/reflectlite.ValueOf", func(ex *Exec, _ *frame, _ *ssa.Function, a []Value) Value {
		// only used by sort.Slice for Len(): keep the interface value
		return StructV{a[0]}
	})
	reg("(internal/reflectlite.Value).Len", func(ex *Exec, _ *frame, _ *ssa.Function, a []Value) Value {
		iv := a[0].(StructV)[0].(IfaceV)
		return ex.i64(len(iv.v.(SliceV).a))
	})
	reg("math/bits.Len", func(ex *Exec, _ *frame, _ *ssa.Function, a []Value) Value {
		t := term(a[0])
		if !t.IsConst() {
			panic(unsupported("bits.Len symbolic"))
		}
		n := 0
		for x := t.C; x != 0; x >>= 1 {
			n++
		}
		return ex.i64(n)
	})
}

func (ex *Exec) isErrVar(iv IfaceV, pkg, name string) bool {
	pk := ex.prog.byPath[pkg]
	if pk == nil {
		return false
	}
	g, ok := pk.Members[name].(*ssa.Global)
	if !ok {
		return false
	}
	gp := ex.globalAddr(g)
	gv, ok := (*gp).(IfaceV)
	if !ok || gv.t == nil {
		return false
	}
	a, ok1 := iv.v.(*Value)
	b, ok2 := gv.v.(*Value)
	return ok1 && ok2 && a == b
}

func (ex *Exec) declInput(name string, v *Term, kind string) {
	for _, in := range ex.inputs {
		if in.name == name {
			panic(pathAbort{"engine-error", "input declared twice on one path: " + name})
		}
	}
	ex.inputs = append(ex.inputs, inputRec{name: name, t: v, kind: kind})
}

// assumeInput constrains a freshly declared input (never cuts a feasible path entirely
// unless the constraint is unsatisfiable).
func (ex *Exec) assumeInput(c *Term) {
	if c.IsConst() {
		if c.C == 0 {
			panic(pathAbort{"infeasible", "empty input domain"})
		}
		return
	}
	ex.assume(c, true)
}

func pathBase(p string) string {
	if i := strings.LastIndex(p, "/"); i >= 0 {
		return p[i+1:]
	}
	return p
}
func pathDir(p string) string {
	if i := strings.LastIndex(p, "/"); i > 0 {
		return p[:i]
	} else if i == 0 {
		return "/"
	}
	return "."
}
func pathClean(p string) string {
	parts := strings.Split(p, "/")
	var out []string
	for _, x := range parts {
		switch x {
		case "", ".":
		case "..":
			if len(out) > 0 {
				out = out[:len(out)-1]
			}
		default:
			out = append(out, x)
		}
	}
	if strings.HasPrefix(p, "/") {
		return "/" + strings.Join(out, "/")
	}
	if len(out) == 0 {
		return "."
	}
	return strings.Join(out, "/")
}

var _ = strconv.Itoa

// knownClass: exact match, or a listed pattern ending in '*' (triage runs only; known_findings.json lists exact names).
func knownClass(known map[string]bool, cls string) bool {
	if known[cls] {
		return true
	}
	for k := range known {
		if n := len(k); n > 0 && k[n-1] == '*' && len(cls) >= n-1 && cls[:n-1] == k[:n-1] {
			return true
		}
	}
	return false
}
