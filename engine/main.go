package main

import (
	"encoding/json"
	"flag"
	"fmt"
	"os"
	"sort"
	"strconv"
	"strings"
	"time"

	"golang.org/x/tools/go/ssa"
)

type FuncCov struct {
	Name    string `json:"name"`
	Blocks  int    `json:"blocks"`
	Covered int    `json:"covered"`
}

type Output struct {
	Harness         string         `json:"harness"`
	Paths           int64          `json:"paths"`
	Nontrivial      int64          `json:"paths_with_symbolic_decisions"`
	Decisions       int64          `json:"symbolic_decisions"`
	Steps           int64          `json:"instructions"`
	Status          map[string]int `json:"status"`
	AssertsTotal    int64          `json:"assert_queries"`
	AssertsProved   int64          `json:"assert_unsat"`
	AssumeCuts      int64          `json:"assume_cuts"`
	Violations      []Violation    `json:"violations"`
	ViolationCounts map[string]int `json:"violation_counts"`
	Samples         []Sample       `json:"samples"`
	Reach           map[string]int `json:"reach"`
	Unsupported     map[string]int `json:"unsupported"`
	Budget          map[string]int `json:"unwind_exceeded"`
	EngineErrors    []string       `json:"engine_errors"`
	Truncated       bool           `json:"truncated"`
	UnknownFeas     int64          `json:"unknown_feasibility"`
	BigExp          int            `json:"bigexp"`
	Solver          struct {
		Kind    string  `json:"kind"`
		Queries int     `json:"queries"`
		Sat     int     `json:"sat"`
		Unsat   int     `json:"unsat"`
		Unknown int     `json:"unknown"`
		Errors  int     `json:"errors"`
		TimeS   float64 `json:"time_s"`
	} `json:"solver"`
	Functions []FuncCov      `json:"functions_encoded"`
	Stubs     map[string]int `json:"stubs"`
	WallS     float64        `json:"wall_s"`
	LoadS     float64        `json:"load_s"`
	Config    map[string]any `json:"config"`
}

func main() {
	dir := flag.String("dir", "/repo", "module directory")
	overlay := flag.String("overlay", "", "overlay JSON (go build -overlay format)")
	pkgs := flag.String("pkgs", "", "comma separated package patterns to load")
	harness := flag.String("harness", "", "qualified harness function pkgpath.Name")
	workers := flag.Int("workers", 16, "")
	budget := flag.Int("budget", 3000000, "instruction budget per path")
	maxPaths := flag.Int("max-paths", 0, "stop after this many paths (0 = no limit)")
	maxSplit := flag.Int("max-split", 64, "max values in a case split")
	maxPermute := flag.Int("max-permute", 3, "max map entries permuted in nondeterministic-order mode")
	timeoutMs := flag.Int("timeout-ms", 10000, "per-query solver timeout")
	samples := flag.Int("samples", 50, "number of path samples (witness inputs) to emit")
	seed := flag.Int64("seed", 0, "")
	solver := flag.String("solver", "z3-new", "z3 | z3-new | cvc5")
	maxViol := flag.Int("max-violations", 5, "violations kept per distinct message")
	deadline := flag.Duration("deadline", 0, "wall-clock limit for exploration")
	out := flag.String("out", "", "result JSON file")
	replay := flag.String("replay", "", "comma separated decision list: run exactly one path")
	verbose := flag.Bool("v", false, "")
	smtlog := flag.String("smtlog", "", "prefix for SMT-LIB logs")
	tags := flag.String("tags", "verif", "build tags")
	maxExp := flag.Int("max-exp", 4096, "cost proxy: largest power-of-ten exponent big.Int.Exp may be asked for")
	exact := flag.Bool("exact-render", false, "render symbolic big.Int with digit witnesses")
	maxDigits := flag.Int("max-digits", 14, "digit bound for exact rendering")
	knownF := flag.String("known", "", "comma separated known-finding classes that harnesses may assume away")
	flag.Parse()

	t0 := time.Now()
	prog, err := LoadProgram(*dir, *overlay, strings.Split(*pkgs, ","), *tags)
	if err != nil {
		fmt.Fprintln(os.Stderr, "load:", err)
		os.Exit(2)
	}
	loadS := time.Since(t0).Seconds()
	fn := prog.FindFunc(*harness)
	if fn == nil {
		fmt.Fprintln(os.Stderr, "harness not found:", *harness)
		os.Exit(2)
	}
	cfg := Config{Harness: *harness, Workers: *workers, Budget: *budget, MaxPaths: *maxPaths, MaxSplit: *maxSplit,
		MaxPermute: *maxPermute, TimeoutMs: *timeoutMs, Samples: *samples, Seed: *seed, Solver: *solver, MaxViol: *maxViol,
		SmtLog: *smtlog, Verbose: *verbose, MaxExp: *maxExp, ExactRender: *exact, MaxDigits: *maxDigits, Known: map[string]bool{}}
	for _, k := range strings.Split(*knownF, ",") {
		if k != "" {
			cfg.Known[k] = true
		}
	}
	if *deadline > 0 {
		cfg.Deadline = time.Now().Add(*deadline)
	}
	if *replay != "" {
		cfg.Replay = []uint64{}
		for _, s := range strings.Split(*replay, ",") {
			if s == "" {
				continue
			}
			v, _ := strconv.ParseUint(s, 10, 64)
			cfg.Replay = append(cfg.Replay, v)
		}
		cfg.Workers = 1
	}
	run := NewRun(prog, fn, cfg)
	t1 := time.Now()
	run.Explore()
	wall := time.Since(t1).Seconds()

	var o Output
	o.Harness = *harness
	o.Paths = run.paths.Load()
	o.Nontrivial = run.nontrivial.Load()
	o.Decisions = run.decisionsN.Load()
	o.Steps = run.stepsTotal.Load()
	o.Status = run.status
	o.AssertsTotal = run.assertsTotal.Load()
	o.AssertsProved = run.assertsProved.Load()
	o.AssumeCuts = run.assumeCuts.Load()
	o.Violations = run.violations
	o.ViolationCounts = run.violCount
	o.Samples = run.samples
	o.Reach = run.reachCount
	o.Unsupported = run.unsupported
	o.Budget = run.budgetMsgs
	o.EngineErrors = run.engineErrors
	o.Truncated = run.truncated
	o.UnknownFeas = run.unknownFeas.Load()
	o.BigExp = run.bigExp
	o.Solver.Kind = *solver
	o.Solver.Queries = run.solverStats.queries
	o.Solver.Sat = run.solverStats.sat
	o.Solver.Unsat = run.solverStats.unsat
	o.Solver.Unknown = run.solverStats.unknown
	o.Solver.Errors = run.solverStats.errors
	o.Solver.TimeS = run.solverStats.time.Seconds()
	o.Stubs = run.stubs
	o.WallS = wall
	o.LoadS = loadS
	o.Config = map[string]any{"workers": cfg.Workers, "budget": cfg.Budget, "max_split": cfg.MaxSplit, "timeout_ms": cfg.TimeoutMs,
		"max_paths": cfg.MaxPaths, "seed": cfg.Seed, "max_exp": cfg.MaxExp, "exact_render": cfg.ExactRender}
	for fn, blks := range run.funcs {
		if fn.Pkg == nil || !prog.isRepoPkg(fn.Pkg.Pkg.Path()) {
			if fn.Pkg != nil || fn.Origin() == nil || fn.Origin().Pkg == nil || !prog.isRepoPkg(fn.Origin().Pkg.Pkg.Path()) {
				continue
			}
		}
		name := fn.String()
		if isHarnessFn(prog, fn) {
			continue
		}
		o.Functions = append(o.Functions, FuncCov{Name: name, Blocks: len(fn.Blocks), Covered: len(blks)})
	}
	sort.Slice(o.Functions, func(i, j int) bool { return o.Functions[i].Name < o.Functions[j].Name })
	data, _ := json.MarshalIndent(&o, "", " ")
	if *out != "" {
		os.WriteFile(*out, data, 0o644)
	} else {
		os.Stdout.Write(data)
	}
	fmt.Fprintf(os.Stderr, "gosymex: %s paths=%d status=%v asserts=%d/%d violations=%d solver{q=%d unk=%d %.1fs} wall=%.1fs load=%.1fs\n",
		*harness, o.Paths, o.Status, o.AssertsProved, o.AssertsTotal, len(o.Violations), o.Solver.Queries, o.Solver.Unknown, o.Solver.TimeS, wall, loadS)
}

func isHarnessFn(p *Prog, fn *ssa.Function) bool {
	pos := fn.Pos()
	if !pos.IsValid() {
		if fn.Parent() != nil {
			return isHarnessFn(p, fn.Parent())
		}
		return false
	}
	f := p.prog.Fset.Position(pos).Filename
	return strings.Contains(f, "zz_verif") || strings.Contains(f, "/zzverif/")
}
