package main

// One long-lived SMT solver process per worker; assertion stack mirrors the
// path condition (push per entry). Declarations are global so that popping
// does not lose them.

import (
	"bufio"
	"fmt"
	"io"
	"math/big"
	"os/exec"
	"strings"
	"time"
)

type Result int

const (
	Unsat Result = iota
	Sat
	Unknown
)

func (r Result) String() string { return [...]string{"unsat", "sat", "unknown"}[r] }

type Solver struct {
	cmd     *exec.Cmd
	in      io.WriteCloser
	out     *bufio.Reader
	defined map[int32]bool
	stack   []*Term // asserted terms, one push level each
	nDefs   int
	// stats
	Queries   int
	NSat      int
	NUnsat    int
	NUnknown  int
	Time      time.Duration
	timeoutMs int
	logw      io.Writer
	kind      string
	Errors    int
}

func NewSolver(kind string, timeoutMs int, logw io.Writer) (*Solver, error) {
	s := &Solver{timeoutMs: timeoutMs, logw: logw, kind: kind}
	if err := s.start(); err != nil {
		return nil, err
	}
	return s, nil
}

func (s *Solver) start() error {
	var cmd *exec.Cmd
	switch s.kind {
	case "z3", "":
		cmd = exec.Command("z3", "-in", "-smt2")
	case "z3-new":
		cmd = exec.Command("z3-new", "-in", "-smt2")
	case "cvc5":
		cmd = exec.Command("cvc5", "--incremental", "--lang=smt2", "--produce-models", fmt.Sprintf("--tlimit-per=%d", s.timeoutMs))
	default:
		return fmt.Errorf("unknown solver %q", s.kind)
	}
	in, err := cmd.StdinPipe()
	if err != nil {
		return err
	}
	out, err := cmd.StdoutPipe()
	if err != nil {
		return err
	}
	cmd.Stderr = nil
	if err := cmd.Start(); err != nil {
		return err
	}
	s.cmd, s.in, s.out = cmd, in, bufio.NewReaderSize(out, 1<<16)
	s.defined = map[int32]bool{}
	s.stack = nil
	s.nDefs = 0
	s.send("(set-option :global-declarations true)")
	if s.kind == "cvc5" {
		s.send("(set-logic ALL)")
	} else {
		s.send(fmt.Sprintf("(set-option :timeout %d)", s.timeoutMs))
	}
	return nil
}

func (s *Solver) Close() {
	if s.cmd != nil {
		s.in.Close()
		s.cmd.Process.Kill()
		s.cmd.Wait()
		s.cmd = nil
	}
}

func (s *Solver) restart() {
	s.Close()
	if err := s.start(); err != nil {
		panic(err)
	}
}

func (s *Solver) send(line string) {
	if s.logw != nil {
		fmt.Fprintln(s.logw, line)
	}
	io.WriteString(s.in, line)
	io.WriteString(s.in, "\n")
}

func (s *Solver) define(t *Term) {
	if t.Op == OpConst || s.defined[t.ID] {
		return
	}
	// iterative post-order
	type fr struct {
		t *Term
		i int
	}
	st := []fr{{t, 0}}
	for len(st) > 0 {
		f := &st[len(st)-1]
		if f.t.Op == OpConst || s.defined[f.t.ID] {
			st = st[:len(st)-1]
			continue
		}
		if f.i < int(f.t.N) {
			a := f.t.A[f.i]
			f.i++
			if a.Op != OpConst && !s.defined[a.ID] {
				st = append(st, fr{a, 0})
			}
			continue
		}
		x := f.t
		if x.Op == OpVar {
			s.send(fmt.Sprintf("(declare-const %s %s)", smtName(x), x.S))
		} else {
			s.send(fmt.Sprintf("(define-fun %s () %s %s)", smtName(x), x.S, body(x)))
		}
		s.defined[x.ID] = true
		s.nDefs++
		st = st[:len(st)-1]
	}
}

// Sync makes the solver's assertion stack equal to pc.
func (s *Solver) Sync(pc []*Term) {
	if s.nDefs > 200000 {
		s.restart()
	}
	k := 0
	for k < len(s.stack) && k < len(pc) && s.stack[k] == pc[k] {
		k++
	}
	if n := len(s.stack) - k; n > 0 {
		s.send(fmt.Sprintf("(pop %d)", n))
		s.stack = s.stack[:k]
	}
	for ; k < len(pc); k++ {
		s.define(pc[k])
		s.send("(push 1)")
		s.send("(assert " + ref(pc[k]) + ")")
		s.stack = append(s.stack, pc[k])
	}
}

func (s *Solver) readLine() string {
	line, err := s.out.ReadString('\n')
	if err != nil {
		return "(error \"solver died: " + err.Error() + "\")"
	}
	return strings.TrimSpace(line)
}

func (s *Solver) checkSat() Result {
	start := time.Now()
	s.send("(check-sat)")
	var r Result
	for {
		line := s.readLine()
		if line == "" {
			continue
		}
		switch {
		case line == "sat":
			r = Sat
			s.NSat++
		case line == "unsat":
			r = Unsat
			s.NUnsat++
		case line == "unknown" || strings.HasPrefix(line, "timeout"):
			r = Unknown
			s.NUnknown++
		case strings.HasPrefix(line, "(error"):
			s.Errors++
			r = Unknown
			s.NUnknown++
			if strings.Contains(line, "solver died") {
				s.restart()
			}
		default:
			// warnings etc.
			continue
		}
		break
	}
	s.Queries++
	s.Time += time.Since(start)
	return r
}

// Check decides pc ∧ extra (extra may be nil).
func (s *Solver) Check(pc []*Term, extra *Term) Result {
	s.Sync(pc)
	if extra == nil {
		return s.checkSat()
	}
	s.define(extra)
	s.send("(push 1)")
	s.send("(assert " + ref(extra) + ")")
	r := s.checkSat()
	s.send("(pop 1)")
	return r
}

// CheckModel decides pc ∧ extra and, if sat, returns values for vars.
func (s *Solver) CheckModel(pc []*Term, extra *Term, vars []*Term) (Result, *Env) {
	s.Sync(pc)
	for _, v := range vars {
		s.define(v)
	}
	s.send("(push 1)")
	if extra != nil {
		s.define(extra)
		s.send("(assert " + ref(extra) + ")")
	}
	r := s.checkSat()
	var env *Env
	if r == Sat {
		env = &Env{bv: map[*Term]uint64{}, big: map[*Term]*big.Int{}}
		if len(vars) > 0 {
			var sb strings.Builder
			sb.WriteString("(get-value (")
			for _, v := range vars {
				sb.WriteString(smtName(v))
				sb.WriteByte(' ')
			}
			sb.WriteString("))")
			s.send(sb.String())
			txt := s.readSexp()
			vals := parseGetValue(txt)
			if len(vals) != len(vars) {
				s.Errors++
				r = Unknown
			} else {
				for i, v := range vars {
					switch v.S.K {
					case KInt:
						env.big[v] = vals[i].bi
					default:
						env.bv[v] = vals[i].u
					}
				}
			}
		}
	}
	s.send("(pop 1)")
	return r, env
}

func (s *Solver) readSexp() string {
	var sb strings.Builder
	depth := 0
	started := false
	for {
		b, err := s.out.ReadByte()
		if err != nil {
			return sb.String()
		}
		if !started {
			if b == '(' {
				started = true
			} else {
				continue
			}
		}
		sb.WriteByte(b)
		if b == '|' {
			// quoted symbol
			for {
				c, err := s.out.ReadByte()
				if err != nil {
					return sb.String()
				}
				sb.WriteByte(c)
				if c == '|' {
					break
				}
			}
			continue
		}
		if b == '(' {
			depth++
		} else if b == ')' {
			depth--
			if depth == 0 {
				return sb.String()
			}
		}
	}
}

type smtVal struct {
	u  uint64
	bi *big.Int
}

// parseGetValue parses "((name val) (name val) ...)" into values in order.
func parseGetValue(txt string) []smtVal {
	toks := tokenize(txt)
	var vals []smtVal
	// expect ( ( name val ) ... )
	i := 0
	if i >= len(toks) || toks[i] != "(" {
		return nil
	}
	i++
	for i < len(toks) && toks[i] == "(" {
		i++ // (
		i++ // name
		v, ni := parseVal(toks, i)
		i = ni
		vals = append(vals, v)
		if i < len(toks) && toks[i] == ")" {
			i++
		}
	}
	return vals
}

func parseVal(toks []string, i int) (smtVal, int) {
	t := toks[i]
	switch {
	case t == "true":
		return smtVal{u: 1, bi: big.NewInt(1)}, i + 1
	case t == "false":
		return smtVal{u: 0, bi: big.NewInt(0)}, i + 1
	case strings.HasPrefix(t, "#x"):
		var u uint64
		fmt.Sscanf(t[2:], "%x", &u)
		return smtVal{u: u}, i + 1
	case strings.HasPrefix(t, "#b"):
		var u uint64
		for _, c := range t[2:] {
			u = u<<1 | uint64(c-'0')
		}
		return smtVal{u: u}, i + 1
	case t == "(":
		// (- N) or (_ bvN w)
		if toks[i+1] == "-" {
			v, ni := parseVal(toks, i+2)
			v.bi = new(big.Int).Neg(v.bi)
			return v, ni + 1
		}
		if toks[i+1] == "_" {
			var u uint64
			fmt.Sscanf(toks[i+2], "bv%d", &u)
			return smtVal{u: u}, i + 5
		}
		// skip unknown
		d := 0
		for ; i < len(toks); i++ {
			if toks[i] == "(" {
				d++
			} else if toks[i] == ")" {
				d--
				if d == 0 {
					return smtVal{bi: new(big.Int)}, i + 1
				}
			}
		}
		return smtVal{bi: new(big.Int)}, i
	default:
		bi, ok := new(big.Int).SetString(t, 10)
		if !ok {
			bi = new(big.Int)
		}
		return smtVal{bi: bi, u: bi.Uint64()}, i + 1
	}
}

func tokenize(s string) []string {
	var toks []string
	i := 0
	for i < len(s) {
		c := s[i]
		switch {
		case c == ' ' || c == '\n' || c == '\t' || c == '\r':
			i++
		case c == '(' || c == ')':
			toks = append(toks, string(c))
			i++
		case c == '|':
			j := i + 1
			for j < len(s) && s[j] != '|' {
				j++
			}
			toks = append(toks, s[i:j+1])
			i = j + 1
		default:
			j := i
			for j < len(s) && !strings.ContainsRune(" \n\t\r()", rune(s[j])) {
				j++
			}
			toks = append(toks, s[i:j])
			i = j
		}
	}
	return toks
}
