package main

// Terms: hash-consed SMT terms with constant folding. One TermStore per worker
// (no locking). Sorts: Bool, BitVec(w) with w<=64, Int (mathematical).

import (
	"fmt"
	"math/big"
	"strings"
)

type Kind uint8

const (
	KBool Kind = iota
	KBV
	KInt
)

type Sort struct {
	K Kind
	W uint8
}

var SBool = Sort{KBool, 0}
var SInt = Sort{KInt, 0}

func BV(w int) Sort { return Sort{KBV, uint8(w)} }

func (s Sort) String() string {
	switch s.K {
	case KBool:
		return "Bool"
	case KInt:
		return "Int"
	}
	return fmt.Sprintf("(_ BitVec %d)", s.W)
}

type Op uint8

const (
	OpConst Op = iota
	OpVar
	OpNot
	OpAnd
	OpOr
	OpIte
	OpEq
	OpAdd
	OpSub
	OpMul
	OpUDiv
	OpSDiv
	OpURem
	OpSRem
	OpBAnd
	OpBOr
	OpBXor
	OpShl
	OpLShr
	OpAShr
	OpBNot
	OpNeg
	OpULt
	OpULe
	OpSLt
	OpSLe
	OpZExt
	OpSExt
	OpExtract // x = lo; result width = sort.W
	OpIAdd
	OpISub
	OpIMul
	OpINeg
	OpILt
	OpILe
	OpUBV2Int // unsigned bv -> int
	OpSBV2Int // signed bv -> int
	OpInt2BV
)

var opNames = map[Op]string{
	OpNot: "not", OpAnd: "and", OpOr: "or", OpIte: "ite", OpEq: "=",
	OpAdd: "bvadd", OpSub: "bvsub", OpMul: "bvmul", OpUDiv: "bvudiv", OpSDiv: "bvsdiv",
	OpURem: "bvurem", OpSRem: "bvsrem", OpBAnd: "bvand", OpBOr: "bvor", OpBXor: "bvxor",
	OpShl: "bvshl", OpLShr: "bvlshr", OpAShr: "bvashr", OpBNot: "bvnot", OpNeg: "bvneg",
	OpULt: "bvult", OpULe: "bvule", OpSLt: "bvslt", OpSLe: "bvsle",
	OpIAdd: "+", OpISub: "-", OpIMul: "*", OpINeg: "-", OpILt: "<", OpILe: "<=",
}

type Term struct {
	Op   Op
	S    Sort
	A    [3]*Term
	N    uint8  // number of args
	C    uint64 // const value (BV/Bool) or extract lo
	BI   *big.Int
	Name string
	ID   int32
	// free-variable summary: NV = 0,1,2(many); V1 = the single variable if NV==1
	NV uint8
	V1 *Term
	sz int32 // dag size estimate (saturating)
	Opq bool // mentions an opaque variable
}

func (t *Term) IsConst() bool { return t.Op == OpConst }

type termKey struct {
	op      Op
	s       Sort
	a, b, c int32
	cv      uint64
}

type TermStore struct {
	tab    map[termKey]*Term
	bigtab map[string]*Term
	vars   map[string]*Term
	all    []*Term
	True   *Term
	False  *Term
}

func NewTermStore() *TermStore {
	ts := &TermStore{tab: map[termKey]*Term{}, bigtab: map[string]*Term{}, vars: map[string]*Term{}}
	ts.True = ts.mk(&Term{Op: OpConst, S: SBool, C: 1})
	ts.False = ts.mk(&Term{Op: OpConst, S: SBool, C: 0})
	return ts
}

func (ts *TermStore) mk(t *Term) *Term {
	k := termKey{op: t.Op, s: t.S, cv: t.C, a: -1, b: -1, c: -1}
	if t.N > 0 {
		k.a = t.A[0].ID
	}
	if t.N > 1 {
		k.b = t.A[1].ID
	}
	if t.N > 2 {
		k.c = t.A[2].ID
	}
	if t.Op == OpConst && t.S.K == KInt {
		key := t.BI.String()
		if x, ok := ts.bigtab[key]; ok {
			return x
		}
		t.ID = int32(len(ts.all))
		ts.all = append(ts.all, t)
		ts.bigtab[key] = t
		return t
	}
	if t.Op == OpVar {
		panic("mk var")
	}
	if x, ok := ts.tab[k]; ok {
		return x
	}
	t.ID = int32(len(ts.all))
	ts.all = append(ts.all, t)
	// var summary
	var v1 *Term
	nv := uint8(0)
	sz := int32(1)
	for i := 0; i < int(t.N); i++ {
		a := t.A[i]
		sz += a.sz
		if a.Opq {
			t.Opq = true
		}
		if a.NV == 0 {
			continue
		}
		if a.NV >= 2 {
			nv = 2
			continue
		}
		if nv == 0 {
			nv = 1
			v1 = a.V1
		} else if nv == 1 && v1 != a.V1 {
			nv = 2
		}
	}
	if sz > 1<<28 {
		sz = 1 << 28
	}
	t.NV, t.V1, t.sz = nv, v1, sz
	if nv != 1 {
		t.V1 = nil
	}
	ts.tab[k] = t
	return t
}

func (ts *TermStore) Var(name string, s Sort) *Term {
	if v, ok := ts.vars[name]; ok {
		if v.S != s {
			panic("var redeclared with different sort: " + name)
		}
		return v
	}
	t := &Term{Op: OpVar, S: s, Name: name}
	t.ID = int32(len(ts.all))
	ts.all = append(ts.all, t)
	t.NV, t.V1, t.sz = 1, t, 1
	t.Opq = strings.HasPrefix(name, "!opaque")
	ts.vars[name] = t
	return t
}

func mask(w uint8) uint64 {
	if w >= 64 {
		return ^uint64(0)
	}
	return (uint64(1) << w) - 1
}

func sext(v uint64, w uint8) int64 {
	if w >= 64 {
		return int64(v)
	}
	sh := 64 - uint(w)
	return int64(v<<sh) >> sh
}

func (ts *TermStore) Bool(b bool) *Term {
	if b {
		return ts.True
	}
	return ts.False
}

func (ts *TermStore) BVConst(v uint64, w int) *Term {
	return ts.mk(&Term{Op: OpConst, S: BV(w), C: v & mask(uint8(w))})
}

func (ts *TermStore) IntConst(v *big.Int) *Term {
	return ts.mk(&Term{Op: OpConst, S: SInt, BI: new(big.Int).Set(v)})
}
func (ts *TermStore) IntConst64(v int64) *Term { return ts.IntConst(big.NewInt(v)) }

func (ts *TermStore) Not(a *Term) *Term {
	if a.IsConst() {
		return ts.Bool(a.C == 0)
	}
	if a.Op == OpNot {
		return a.A[0]
	}
	return ts.mk(&Term{Op: OpNot, S: SBool, A: [3]*Term{a}, N: 1})
}

func (ts *TermStore) And(a, b *Term) *Term {
	if a.IsConst() {
		if a.C == 0 {
			return ts.False
		}
		return b
	}
	if b.IsConst() {
		if b.C == 0 {
			return ts.False
		}
		return a
	}
	if a == b {
		return a
	}
	return ts.mk(&Term{Op: OpAnd, S: SBool, A: [3]*Term{a, b}, N: 2})
}

func (ts *TermStore) Or(a, b *Term) *Term {
	if a.IsConst() {
		if a.C != 0 {
			return ts.True
		}
		return b
	}
	if b.IsConst() {
		if b.C != 0 {
			return ts.True
		}
		return a
	}
	if a == b {
		return a
	}
	return ts.mk(&Term{Op: OpOr, S: SBool, A: [3]*Term{a, b}, N: 2})
}

func (ts *TermStore) Ite(c, a, b *Term) *Term {
	if c.IsConst() {
		if c.C != 0 {
			return a
		}
		return b
	}
	if a == b {
		return a
	}
	if a.S != b.S {
		panic(fmt.Sprintf("ite sort mismatch %v %v", a.S, b.S))
	}
	if a.S.K == KBool && a.IsConst() && b.IsConst() {
		if a.C != 0 {
			return c
		}
		return ts.Not(c)
	}
	return ts.mk(&Term{Op: OpIte, S: a.S, A: [3]*Term{c, a, b}, N: 3})
}

func (ts *TermStore) Eq(a, b *Term) *Term {
	if a.S != b.S {
		panic(fmt.Sprintf("eq sort mismatch %v %v", a.S, b.S))
	}
	if a == b {
		return ts.True
	}
	if a.IsConst() && b.IsConst() {
		if a.S.K == KInt {
			return ts.Bool(a.BI.Cmp(b.BI) == 0)
		}
		return ts.Bool(a.C == b.C)
	}
	if a.S.K == KBool {
		if a.IsConst() {
			a, b = b, a
		}
		if b.IsConst() {
			if b.C != 0 {
				return a
			}
			return ts.Not(a)
		}
	}
	if a.ID > b.ID {
		a, b = b, a
	}
	// zext(x) == const where const does not fit: false; where fits: x == const'
	if b.IsConst() && a.Op == OpZExt {
		a, b = b, a
	}
	if a.IsConst() && b.Op == OpZExt {
		in := b.A[0]
		if a.C > mask(in.S.W) {
			return ts.False
		}
		return ts.Eq(in, ts.BVConst(a.C, int(in.S.W)))
	}
	return ts.mk(&Term{Op: OpEq, S: SBool, A: [3]*Term{a, b}, N: 2})
}

func bvFold(op Op, w uint8, x, y uint64) (uint64, bool) {
	m := mask(w)
	switch op {
	case OpAdd:
		return (x + y) & m, true
	case OpSub:
		return (x - y) & m, true
	case OpMul:
		return (x * y) & m, true
	case OpUDiv:
		if y == 0 {
			return m, true
		}
		return x / y, true
	case OpURem:
		if y == 0 {
			return x, true
		}
		return x % y, true
	case OpSDiv:
		sx, sy := sext(x, w), sext(y, w)
		if sy == 0 {
			if sx < 0 {
				return 1, true
			}
			return m, true
		}
		if sy == -1 {
			return uint64(-sx) & m, true
		}
		return uint64(sx/sy) & m, true
	case OpSRem:
		sx, sy := sext(x, w), sext(y, w)
		if sy == 0 {
			return x, true
		}
		if sy == -1 {
			return 0, true
		}
		return uint64(sx%sy) & m, true
	case OpBAnd:
		return x & y, true
	case OpBOr:
		return x | y, true
	case OpBXor:
		return x ^ y, true
	case OpShl:
		if y >= uint64(w) {
			return 0, true
		}
		return (x << y) & m, true
	case OpLShr:
		if y >= uint64(w) {
			return 0, true
		}
		return x >> y, true
	case OpAShr:
		sx := sext(x, w)
		if y >= uint64(w) {
			y = uint64(w) - 1
		}
		return uint64(sx>>y) & m, true
	}
	return 0, false
}

func (ts *TermStore) BVBin(op Op, a, b *Term) *Term {
	if a.S != b.S || a.S.K != KBV {
		panic(fmt.Sprintf("bvbin %v sort mismatch %v %v", opNames[op], a.S, b.S))
	}
	w := a.S.W
	if a.IsConst() && b.IsConst() {
		v, ok := bvFold(op, w, a.C, b.C)
		if ok {
			return ts.BVConst(v, int(w))
		}
	}
	switch op {
	case OpAdd:
		if a.IsConst() && a.C == 0 {
			return b
		}
		if b.IsConst() && b.C == 0 {
			return a
		}
	case OpSub:
		if b.IsConst() && b.C == 0 {
			return a
		}
		if a == b {
			return ts.BVConst(0, int(w))
		}
	case OpMul:
		if a.IsConst() && a.C == 1 {
			return b
		}
		if b.IsConst() && b.C == 1 {
			return a
		}
		if (a.IsConst() && a.C == 0) || (b.IsConst() && b.C == 0) {
			return ts.BVConst(0, int(w))
		}
	case OpBAnd:
		if a.IsConst() && a.C == 0 || b.IsConst() && b.C == 0 {
			return ts.BVConst(0, int(w))
		}
		if a.IsConst() && a.C == mask(w) {
			return b
		}
		if b.IsConst() && b.C == mask(w) {
			return a
		}
		if a == b {
			return a
		}
	case OpBOr, OpBXor:
		if a.IsConst() && a.C == 0 {
			return b
		}
		if b.IsConst() && b.C == 0 {
			return a
		}
	case OpShl, OpLShr, OpAShr:
		if b.IsConst() && b.C == 0 {
			return a
		}
	}
	if (op == OpAdd || op == OpMul || op == OpBAnd || op == OpBOr || op == OpBXor) && a.ID > b.ID {
		a, b = b, a
	}
	return ts.mk(&Term{Op: op, S: a.S, A: [3]*Term{a, b}, N: 2})
}

func (ts *TermStore) BVUn(op Op, a *Term) *Term {
	w := a.S.W
	if a.IsConst() {
		switch op {
		case OpBNot:
			return ts.BVConst(^a.C, int(w))
		case OpNeg:
			return ts.BVConst(-a.C, int(w))
		}
	}
	return ts.mk(&Term{Op: op, S: a.S, A: [3]*Term{a}, N: 1})
}

func (ts *TermStore) BVCmp(op Op, a, b *Term) *Term {
	if a.S != b.S || a.S.K != KBV {
		panic(fmt.Sprintf("bvcmp sort mismatch %v %v", a.S, b.S))
	}
	w := a.S.W
	if a.IsConst() && b.IsConst() {
		switch op {
		case OpULt:
			return ts.Bool(a.C < b.C)
		case OpULe:
			return ts.Bool(a.C <= b.C)
		case OpSLt:
			return ts.Bool(sext(a.C, w) < sext(b.C, w))
		case OpSLe:
			return ts.Bool(sext(a.C, w) <= sext(b.C, w))
		}
	}
	if a == b {
		return ts.Bool(op == OpULe || op == OpSLe)
	}
	return ts.mk(&Term{Op: op, S: SBool, A: [3]*Term{a, b}, N: 2})
}

func (ts *TermStore) ZExt(a *Term, w int) *Term {
	if int(a.S.W) == w {
		return a
	}
	if int(a.S.W) > w {
		return ts.Extract(a, 0, w)
	}
	if a.IsConst() {
		return ts.BVConst(a.C, w)
	}
	if a.Op == OpZExt {
		return ts.ZExt(a.A[0], w)
	}
	return ts.mk(&Term{Op: OpZExt, S: BV(w), A: [3]*Term{a}, N: 1})
}

func (ts *TermStore) SExt(a *Term, w int) *Term {
	if int(a.S.W) == w {
		return a
	}
	if int(a.S.W) > w {
		return ts.Extract(a, 0, w)
	}
	if a.IsConst() {
		return ts.BVConst(uint64(sext(a.C, a.S.W)), w)
	}
	if a.Op == OpZExt { // sign bit is zero
		return ts.ZExt(a.A[0], w)
	}
	return ts.mk(&Term{Op: OpSExt, S: BV(w), A: [3]*Term{a}, N: 1})
}

// Extract bits [lo, lo+w)
func (ts *TermStore) Extract(a *Term, lo, w int) *Term {
	if lo == 0 && int(a.S.W) == w {
		return a
	}
	if a.IsConst() {
		return ts.BVConst(a.C>>uint(lo), w)
	}
	if (a.Op == OpZExt || a.Op == OpSExt) && lo == 0 && w <= int(a.A[0].S.W) {
		return ts.Extract(a.A[0], 0, w)
	}
	if a.Op == OpZExt && lo == 0 && w > int(a.A[0].S.W) {
		return ts.ZExt(a.A[0], w)
	}
	return ts.mk(&Term{Op: OpExtract, S: BV(w), A: [3]*Term{a}, N: 1, C: uint64(lo)})
}

// Int ops
func (ts *TermStore) IntBin(op Op, a, b *Term) *Term {
	if a.S.K != KInt || b.S.K != KInt {
		panic("intbin sort")
	}
	if a.IsConst() && b.IsConst() {
		r := new(big.Int)
		switch op {
		case OpIAdd:
			r.Add(a.BI, b.BI)
		case OpISub:
			r.Sub(a.BI, b.BI)
		case OpIMul:
			r.Mul(a.BI, b.BI)
		}
		return ts.IntConst(r)
	}
	switch op {
	case OpIAdd:
		if a.IsConst() && a.BI.Sign() == 0 {
			return b
		}
		if b.IsConst() && b.BI.Sign() == 0 {
			return a
		}
	case OpISub:
		if b.IsConst() && b.BI.Sign() == 0 {
			return a
		}
	case OpIMul:
		if a.IsConst() && a.BI.Sign() == 0 || b.IsConst() && b.BI.Sign() == 0 {
			return ts.IntConst64(0)
		}
		if a.IsConst() && a.BI.IsInt64() && a.BI.Int64() == 1 {
			return b
		}
		if b.IsConst() && b.BI.IsInt64() && b.BI.Int64() == 1 {
			return a
		}
	}
	return ts.mk(&Term{Op: op, S: SInt, A: [3]*Term{a, b}, N: 2})
}

func (ts *TermStore) INeg(a *Term) *Term {
	if a.IsConst() {
		return ts.IntConst(new(big.Int).Neg(a.BI))
	}
	if a.Op == OpINeg {
		return a.A[0]
	}
	return ts.mk(&Term{Op: OpINeg, S: SInt, A: [3]*Term{a}, N: 1})
}

func (ts *TermStore) ICmp(op Op, a, b *Term) *Term {
	if a.IsConst() && b.IsConst() {
		c := a.BI.Cmp(b.BI)
		if op == OpILt {
			return ts.Bool(c < 0)
		}
		return ts.Bool(c <= 0)
	}
	return ts.mk(&Term{Op: op, S: SBool, A: [3]*Term{a, b}, N: 2})
}

func (ts *TermStore) BV2Int(a *Term, signed bool) *Term {
	if a.IsConst() {
		if signed {
			return ts.IntConst64(sext(a.C, a.S.W))
		}
		return ts.IntConst(new(big.Int).SetUint64(a.C))
	}
	op := OpUBV2Int
	if signed {
		op = OpSBV2Int
	}
	return ts.mk(&Term{Op: op, S: SInt, A: [3]*Term{a}, N: 1})
}

func (ts *TermStore) Int2BV(a *Term, w int) *Term {
	if a.IsConst() {
		m := new(big.Int).And(a.BI, new(big.Int).SetUint64(mask(uint8(w))))
		// big.Int And on negative numbers uses two's complement semantics
		return ts.BVConst(m.Uint64(), w)
	}
	if (a.Op == OpUBV2Int || a.Op == OpSBV2Int) && int(a.A[0].S.W) == w {
		return a.A[0]
	}
	return ts.mk(&Term{Op: OpInt2BV, S: BV(w), A: [3]*Term{a}, N: 1})
}

// ---------- evaluation under an assignment ----------

type Env struct {
	bv  map[*Term]uint64
	big map[*Term]*big.Int
}

type evaluator struct {
	env  *Env
	memo map[*Term]uint64
	bmem map[*Term]*big.Int
}

func (ts *TermStore) Eval(t *Term, env *Env) (uint64, *big.Int) {
	e := &evaluator{env: env, memo: map[*Term]uint64{}, bmem: map[*Term]*big.Int{}}
	if t.S.K == KInt {
		return 0, e.evalInt(t)
	}
	return e.eval(t), nil
}

func (e *evaluator) eval(t *Term) uint64 {
	if t.Op == OpConst {
		return t.C
	}
	if t.Op == OpVar {
		return e.env.bv[t]
	}
	if v, ok := e.memo[t]; ok {
		return v
	}
	var r uint64
	switch t.Op {
	case OpNot:
		r = e.eval(t.A[0]) ^ 1
	case OpAnd:
		r = e.eval(t.A[0]) & e.eval(t.A[1])
	case OpOr:
		r = e.eval(t.A[0]) | e.eval(t.A[1])
	case OpIte:
		if e.eval(t.A[0]) != 0 {
			if t.S.K == KInt {
				panic("ite int in eval")
			}
			r = e.eval(t.A[1])
		} else {
			r = e.eval(t.A[2])
		}
	case OpEq:
		if t.A[0].S.K == KInt {
			if e.evalInt(t.A[0]).Cmp(e.evalInt(t.A[1])) == 0 {
				r = 1
			}
		} else if e.eval(t.A[0]) == e.eval(t.A[1]) {
			r = 1
		}
	case OpULt, OpULe, OpSLt, OpSLe:
		a, b := e.eval(t.A[0]), e.eval(t.A[1])
		w := t.A[0].S.W
		var c bool
		switch t.Op {
		case OpULt:
			c = a < b
		case OpULe:
			c = a <= b
		case OpSLt:
			c = sext(a, w) < sext(b, w)
		case OpSLe:
			c = sext(a, w) <= sext(b, w)
		}
		if c {
			r = 1
		}
	case OpILt, OpILe:
		c := e.evalInt(t.A[0]).Cmp(e.evalInt(t.A[1]))
		if (t.Op == OpILt && c < 0) || (t.Op == OpILe && c <= 0) {
			r = 1
		}
	case OpZExt:
		r = e.eval(t.A[0])
	case OpSExt:
		r = uint64(sext(e.eval(t.A[0]), t.A[0].S.W)) & mask(t.S.W)
	case OpExtract:
		r = (e.eval(t.A[0]) >> t.C) & mask(t.S.W)
	case OpBNot:
		r = ^e.eval(t.A[0]) & mask(t.S.W)
	case OpNeg:
		r = -e.eval(t.A[0]) & mask(t.S.W)
	case OpInt2BV:
		v := e.evalInt(t.A[0])
		m := new(big.Int).And(v, new(big.Int).SetUint64(mask(t.S.W)))
		r = m.Uint64()
	default:
		v, ok := bvFold(t.Op, t.S.W, e.eval(t.A[0]), e.eval(t.A[1]))
		if !ok {
			panic(fmt.Sprintf("eval: op %d", t.Op))
		}
		r = v
	}
	e.memo[t] = r
	return r
}

func (e *evaluator) evalInt(t *Term) *big.Int {
	if t.Op == OpConst {
		return t.BI
	}
	if t.Op == OpVar {
		if v, ok := e.env.big[t]; ok {
			return v
		}
		return new(big.Int)
	}
	if v, ok := e.bmem[t]; ok {
		return v
	}
	r := new(big.Int)
	switch t.Op {
	case OpIAdd:
		r.Add(e.evalInt(t.A[0]), e.evalInt(t.A[1]))
	case OpISub:
		r.Sub(e.evalInt(t.A[0]), e.evalInt(t.A[1]))
	case OpIMul:
		r.Mul(e.evalInt(t.A[0]), e.evalInt(t.A[1]))
	case OpINeg:
		r.Neg(e.evalInt(t.A[0]))
	case OpUBV2Int:
		r.SetUint64(e.eval(t.A[0]))
	case OpSBV2Int:
		r.SetInt64(sext(e.eval(t.A[0]), t.A[0].S.W))
	case OpIte:
		if e.eval(t.A[0]) != 0 {
			r = e.evalInt(t.A[1])
		} else {
			r = e.evalInt(t.A[2])
		}
	default:
		panic(fmt.Sprintf("evalInt: op %d", t.Op))
	}
	e.bmem[t] = r
	return r
}

// ---------- SMT-LIB printing ----------

func constSMT(t *Term) string {
	switch t.S.K {
	case KBool:
		if t.C != 0 {
			return "true"
		}
		return "false"
	case KInt:
		if t.BI.Sign() < 0 {
			return "(- " + new(big.Int).Neg(t.BI).String() + ")"
		}
		return t.BI.String()
	}
	if t.S.W%4 == 0 {
		return fmt.Sprintf("#x%0*x", int(t.S.W)/4, t.C)
	}
	return fmt.Sprintf("#b%0*b", int(t.S.W), t.C)
}

func smtName(t *Term) string {
	if t.Op == OpVar {
		return "|" + t.Name + "|"
	}
	return fmt.Sprintf("t%d", t.ID)
}

// ref returns how a term is referenced inside another term's definition.
func ref(t *Term) string {
	if t.Op == OpConst {
		return constSMT(t)
	}
	return smtName(t)
}

// body returns the SMT-LIB expression for a non-const, non-var term in terms of refs.
func body(t *Term) string {
	switch t.Op {
	case OpZExt:
		return fmt.Sprintf("((_ zero_extend %d) %s)", int(t.S.W)-int(t.A[0].S.W), ref(t.A[0]))
	case OpSExt:
		return fmt.Sprintf("((_ sign_extend %d) %s)", int(t.S.W)-int(t.A[0].S.W), ref(t.A[0]))
	case OpExtract:
		return fmt.Sprintf("((_ extract %d %d) %s)", int(t.C)+int(t.S.W)-1, t.C, ref(t.A[0]))
	case OpUBV2Int:
		return fmt.Sprintf("(bv2nat %s)", ref(t.A[0]))
	case OpSBV2Int:
		w := t.A[0].S.W
		x := ref(t.A[0])
		p := new(big.Int).Lsh(big.NewInt(1), uint(w))
		return fmt.Sprintf("(ite (bvslt %s %s) (- (bv2nat %s) %s) (bv2nat %s))", x, constSMT(&Term{Op: OpConst, S: t.A[0].S, C: 0}), x, p.String(), x)
	case OpInt2BV:
		return fmt.Sprintf("((_ int2bv %d) %s)", t.S.W, ref(t.A[0]))
	}
	var sb strings.Builder
	sb.WriteByte('(')
	sb.WriteString(opNames[t.Op])
	for i := 0; i < int(t.N); i++ {
		sb.WriteByte(' ')
		sb.WriteString(ref(t.A[i]))
	}
	sb.WriteByte(')')
	return sb.String()
}
