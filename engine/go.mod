module gosymex

go 1.24

require golang.org/x/tools v0.29.0

require (
	golang.org/x/mod v0.22.0 // indirect
	golang.org/x/sync v0.10.0 // indirect
)

require (
	github.com/bmatcuk/doublestar/v4 v4.9.2
	go.lsp.dev/uri v0.3.0
)
