package main

// Model added for C06 (arbitrary bytes): shopspring/decimal's rescale computes
// math.Abs(float64(exp) - float64(d.exp)); the engine has no symbolic floats. An exponent that
// was read from symbolic exponent digits (the bytes "1E" followed by a symbolic digit) is
// therefore case-split over its feasible values here (bounded by -max-split), and the
// library's own code then runs on concrete exponents. Concrete exponents pass straight through.

import "golang.org/x/tools/go/ssa"

func init() {
	reg("(github.com/shopspring/decimal.Decimal).rescale", func(ex *Exec, fr *frame, fn *ssa.Function, a []Value) Value {
		b := append([]Value(nil), a...)
		if st, ok := b[0].(StructV); ok && len(st) == 2 {
			if e, ok := st[1].(*Term); ok && e != nil && !e.IsConst() {
				c := ex.Concretize(e, "decimal exponent")
				ex.used("decimal.rescale with a symbolic exponent -> case split over its feasible values")
				b[0] = StructV{st[0], ex.ts.BVConst(c, int(e.S.W))}
			}
		}
		if e, ok := b[1].(*Term); ok && e != nil && !e.IsConst() {
			c := ex.Concretize(e, "decimal exponent")
			ex.used("decimal.rescale with a symbolic exponent -> case split over its feasible values")
			b[1] = ex.ts.BVConst(c, int(e.S.W))
		}
		return ex.callSSA(fr, fn, b, nil)
	})
}
