package main

// Digit-string models of github.com/shopspring/decimal (v1.4.0) for decimals that were read
// from a (partly) symbolic digit string: NewFromString, Round and the unexported string
// renderer. The generic route (SSA of the library over big.Int terms) is correct but renders
// through fresh witness digits and bv2nat, which the solvers handle poorly; here the value
// keeps its digit bytes, so that rounding and rendering are byte-level operations on the
// input digits (no witnesses, no division) and re-reading a rendered number yields a linear
// Int term over the same bytes.
//
// Every model falls back to the library's own SSA whenever the value is concrete, was not
// produced by the NewFromString model (arithmetic results), or the call is outside the
// modelled shape (exponent notation, negative places, positive exponent). The models follow
// the library source: Round = half away from zero decided by the first dropped digit;
// string = big.Int.String of |value| split at the exponent, "-" only for a non-zero
// negative value, optional trimming of trailing fraction zeros.

import (
	"sync"

	"golang.org/x/tools/go/ssa"
)

// digitNum: the Int term it is attached to equals (neg ? -1 : 1) * value of the decimal digit string.
type digitNum struct {
	neg    bool
	digits []*Term // ASCII digit bytes ('0'..'9' on the current path), most significant first, len >= 1
}

var digitNums sync.Map // *Term (Int) -> *digitNum

func (ex *Exec) fmtDigitSum(digits []*Term) *Term {
	ts := ex.ts
	acc := ts.IntConst64(0)
	ten := ts.IntConst64(10)
	for _, b := range digits {
		acc = ts.IntBin(OpIAdd, ts.IntBin(OpIMul, ten, acc), ex.digitInt(b))
	}
	return acc
}

// fmtMkDecimal builds a decimal.Decimal value {value *big.Int, exp int32} for the digit number.
func (ex *Exec) fmtMkDecimal(dn *digitNum, exp int) Value {
	mag := ex.fmtDigitSum(dn.digits)
	val := mag
	if dn.neg {
		val = ex.ts.INeg(mag)
	}
	if !val.IsConst() {
		digitNums.Store(val, dn)
	}
	p := new(Value)
	*p = StructV{ex.ts.False, BigVal{val}}
	return StructV{p, ex.ts.BVConst(uint64(uint32(int32(exp))), 32)}
}

// fmtDecimalParts extracts (digit number, exponent) of a Decimal receiver; ok=false when the
// value is not a tracked digit number.
func (ex *Exec) fmtDecimalParts(v Value) (*digitNum, int, bool) {
	st, ok := v.(StructV)
	if !ok || len(st) != 2 {
		return nil, 0, false
	}
	p, ok := st[0].(*Value)
	if !ok || p == nil {
		return nil, 0, false
	}
	bs, ok := (*p).(StructV)
	if !ok || len(bs) != 2 {
		return nil, 0, false
	}
	bv, ok := bs[1].(BigVal)
	if !ok || bv.t.IsConst() {
		return nil, 0, false
	}
	e, ok := st[1].(*Term)
	if !ok || !e.IsConst() {
		return nil, 0, false
	}
	dn, ok := digitNums.Load(bv.t)
	if !ok {
		return nil, 0, false
	}
	return dn.(*digitNum), int(int32(uint32(e.C))), true
}

func (ex *Exec) fmtIsZeroByte(b *Term) bool {
	return ex.Branch(ex.ts.Eq(b, ex.byteC('0')))
}

func init() {
	reg("github.com/shopspring/decimal.NewFromString", func(ex *Exec, fr *frame, fn *ssa.Function, a []Value) Value {
		s := str(a[0])
		if s.conc || s.Len() == 0 {
			return ex.callSSA(fr, fn, a, nil)
		}
		ts := ex.ts
		n := s.Len()
		i := 0
		neg := false
		b0 := ex.strAt(s, 0)
		if ex.Branch(ts.Eq(b0, ex.byteC('-'))) {
			neg = true
			i = 1
		} else if ex.Branch(ts.Eq(b0, ex.byteC('+'))) {
			i = 1
		}
		var digits []*Term
		point := -1
		for ; i < n; i++ {
			b := ex.strAt(s, i)
			isD := ts.And(ts.BVCmp(OpULe, ex.byteC('0'), b), ts.BVCmp(OpULe, b, ex.byteC('9')))
			if ex.Branch(isD) {
				digits = append(digits, b)
				continue
			}
			if ex.Branch(ts.Eq(b, ex.byteC('.'))) && point < 0 {
				point = len(digits)
				continue
			}
			// exponent notation, a second point, a misplaced sign, junk: the library itself decides
			return ex.callSSA(fr, fn, a, nil)
		}
		if len(digits) == 0 {
			return ex.callSSA(fr, fn, a, nil)
		}
		ex.used("decimal.NewFromString on symbolic digits -> digit-string model (value = linear Int term over the digit bytes)")
		exp := 0
		if point >= 0 {
			exp = -(len(digits) - point)
		}
		d := ex.fmtMkDecimal(&digitNum{neg: neg, digits: digits}, exp)
		return TupleV{d, IfaceV{}}
	})

	reg("(github.com/shopspring/decimal.Decimal).Round", func(ex *Exec, fr *frame, fn *ssa.Function, a []Value) Value {
		dn, exp, ok := ex.fmtDecimalParts(a[0])
		pl, isT := a[1].(*Term)
		if !ok || !isT || !pl.IsConst() || exp > 0 {
			return ex.callSSA(fr, fn, a, nil)
		}
		places := int(int32(uint32(pl.C)))
		if places < 0 {
			return ex.callSSA(fr, fn, a, nil)
		}
		if exp == -places {
			return a[0]
		}
		ex.used("decimal.Round on a digit-string decimal -> digit-level rounding (half away from zero)")
		if places > -exp {
			digits := append([]*Term{}, dn.digits...)
			for k := 0; k < places+exp; k++ {
				digits = append(digits, ex.byteC('0'))
			}
			return ex.fmtMkDecimal(&digitNum{neg: dn.neg, digits: digits}, -places)
		}
		k := -exp - places // digits to drop, >= 1
		digits := append([]*Term{}, dn.digits...)
		for len(digits) < k+1 {
			digits = append([]*Term{ex.byteC('0')}, digits...)
		}
		n := len(digits)
		kept := append([]*Term{}, digits[:n-k]...)
		first := digits[n-k]
		if ex.Branch(ex.ts.BVCmp(OpULe, ex.byteC('5'), first)) {
			// increment the kept magnitude
			j := len(kept) - 1
			for ; j >= 0; j-- {
				if ex.Branch(ex.ts.Eq(kept[j], ex.byteC('9'))) {
					kept[j] = ex.byteC('0')
					continue
				}
				kept[j] = ex.ts.BVBin(OpAdd, kept[j], ex.byteC(1))
				break
			}
			if j < 0 {
				kept = append([]*Term{ex.byteC('1')}, kept...)
			}
		}
		return ex.fmtMkDecimal(&digitNum{neg: dn.neg, digits: kept}, -places)
	})

	reg("(github.com/shopspring/decimal.Decimal).string", func(ex *Exec, fr *frame, fn *ssa.Function, a []Value) Value {
		dn, exp, ok := ex.fmtDecimalParts(a[0])
		trimT, isT := a[1].(*Term)
		if !ok || !isT || !trimT.IsConst() || exp > 0 {
			return ex.callSSA(fr, fn, a, nil)
		}
		ex.used("decimal.String/StringFixed on a digit-string decimal -> digit-level rendering")
		trim := trimT.C != 0
		digits := append([]*Term{}, dn.digits...)
		for len(digits) < -exp+1 {
			digits = append([]*Term{ex.byteC('0')}, digits...)
		}
		n := len(digits)
		intPart := digits[:n+exp]
		frac := digits[n+exp:]
		// big.Int.String drops leading zeros (at least one digit stays)
		allZero := true
		lead := 0
		for lead < len(intPart)-1 {
			if !ex.fmtIsZeroByte(intPart[lead]) {
				allZero = false
				break
			}
			lead++
		}
		intPart = intPart[lead:]
		if trim {
			j := len(frac)
			for j > 0 && ex.fmtIsZeroByte(frac[j-1]) {
				j--
			}
			frac = frac[:j]
		}
		var out []*Term
		if dn.neg {
			// "-" only if the value is non-zero
			nonZero := !allZero
			if !nonZero {
				for _, b := range digits[lead:] {
					if !ex.fmtIsZeroByte(b) {
						nonZero = true
						break
					}
				}
			}
			if nonZero {
				out = append(out, ex.byteC('-'))
			}
		}
		out = append(out, intPart...)
		if len(frac) > 0 {
			out = append(out, ex.byteC('.'))
			out = append(out, frac...)
		}
		return ex.strB(out)
	})
}
