package main

// SSA interpreter with symbolic scalars. One Exec per path run.

import (
	"os"
	"fmt"
	"go/constant"
	"go/token"
	"go/types"
	"math"
	"math/big"
	"strings"

	"golang.org/x/tools/go/ssa"
)

type pathAbort struct {
	kind string // "assume", "unsupported", "budget", "infeasible"
	msg  string
}

func unsupported(msg string) pathAbort { return pathAbort{"unsupported", msg} }

// goPanic is a panic of the interpreted program.
type goPanic struct {
	v   Value
	msg string
}

type deferred struct {
	fn   Value
	args []Value
	tail *deferred
	pos  token.Pos
}

type frame struct {
	ex        *Exec
	caller    *frame
	fn        *ssa.Function
	block     *ssa.BasicBlock
	prevBlock *ssa.BasicBlock
	env       map[ssa.Value]Value
	locals    []Value
	defers    *deferred
	result    Value
	panicking bool
	panic     any
	sp        int
	recovered bool
}

type task struct {
	fn   Value
	args []Value
	done bool
}

func (fr *frame) get(key ssa.Value) Value {
	switch key := key.(type) {
	case nil:
		return nil
	case *ssa.Function:
		return &FuncV{fn: key}
	case *ssa.Builtin:
		return &FuncV{builtin: key}
	case *ssa.Const:
		return fr.ex.constValue(key)
	case *ssa.Global:
		return fr.ex.globalAddr(key)
	}
	if r, ok := fr.env[key]; ok {
		return r
	}
	panic(fmt.Sprintf("get: no value for %T: %v in %s", key, key.Name(), fr.fn))
}

func (ex *Exec) constValue(c *ssa.Const) Value {
	t := c.Type()
	if c.Value == nil {
		if _, ok := t.Underlying().(*types.Basic); ok && t.Underlying().(*types.Basic).Kind() == types.UntypedNil {
			return nil
		}
		return ex.zero(t)
	}
	if tp, ok := t.(*types.TypeParam); ok {
		_ = tp
		panic(unsupported("const of type param"))
	}
	if b, ok := t.Underlying().(*types.Basic); ok {
		switch {
		case b.Info()&types.IsBoolean != 0:
			return ex.ts.Bool(constant.BoolVal(c.Value))
		case b.Info()&types.IsInteger != 0:
			w := ex.intWidth(b)
			if isSigned(b) {
				return ex.ts.BVConst(uint64(c.Int64()), w)
			}
			return ex.ts.BVConst(c.Uint64(), w)
		case b.Info()&types.IsFloat != 0:
			return c.Float64()
		case b.Info()&types.IsString != 0:
			if c.Value.Kind() == constant.String {
				return ex.strC(constant.StringVal(c.Value))
			}
			return ex.strC(string(rune(c.Int64())))
		case b.Info()&types.IsComplex != 0:
			return &Poison{"complex const"}
		}
	}
	panic(fmt.Sprintf("constValue: %v", c))
}

func (ex *Exec) globalAddr(g *ssa.Global) *Value {
	if p, ok := ex.globals[g]; ok {
		return p
	}
	if g.Pkg != nil {
		ex.ensureInit(g.Pkg)
		if p, ok := ex.globals[g]; ok {
			return p
		}
	}
	p := new(Value)
	*p = ex.zero(mustDeref(g.Type()))
	ex.globals[g] = p
	return p
}

func mustDeref(t types.Type) types.Type {
	if p, ok := t.Underlying().(*types.Pointer); ok {
		return p.Elem()
	}
	panic("mustDeref: " + t.String())
}

// initSkip: functions only used to build constant tables that the encoded code never
// reads (trigonometric / logarithm tables of shopspring/decimal); skipped during init.
var initSkip = map[string]bool{
	"github.com/shopspring/decimal.NewFromFloat":            true,
	"github.com/shopspring/decimal.newConstApproximation": true,
}

// ensureInit runs pkg's initializer once per path (lazily), in tolerant mode for
// packages outside the repository.
func (ex *Exec) ensureInit(pkg *ssa.Package) {
	if ex.initDone[pkg] {
		return
	}
	ex.initDone[pkg] = true
	// allocate all globals
	for _, m := range pkg.Members {
		if g, ok := m.(*ssa.Global); ok {
			if _, ok := ex.globals[g]; !ok {
				p := new(Value)
				*p = ex.zero(mustDeref(g.Type()))
				ex.globals[g] = p
			}
		}
	}
	path := pkg.Pkg.Path()
	if !ex.prog.initAllowed(path) {
		for _, m := range pkg.Members {
			if g, ok := m.(*ssa.Global); ok {
				if g.Name() == "init$guard" {
					continue
				}
				*ex.globals[g] = ex.poisonFor(mustDeref(g.Type()), "global of uninitialised package "+path)
			}
		}
		return
	}
	init := pkg.Func("init")
	if init == nil || init.Blocks == nil {
		return
	}
	saveTol := ex.tolerant
	ex.tolerant = !ex.prog.isRepoPkg(path)
	saveInInit := ex.inInit
	ex.inInit = true
	defer func() { ex.tolerant = saveTol; ex.inInit = saveInInit }()
	ex.callSSA(nil, init, nil, nil)
}

// poisonFor keeps zero values for scalar-ish types that are harmless and
// poisons the rest.
func (ex *Exec) poisonFor(t types.Type, why string) Value {
	switch t.Underlying().(type) {
	case *types.Basic:
		return ex.zero(t)
	}
	return &Poison{why}
}

// ---------- running ----------

func (ex *Exec) step() {
	ex.steps++
	if ex.profile != nil && len(ex.stack) > 0 {
		ex.profile[ex.stack[len(ex.stack)-1]]++
	}
	if ex.steps > ex.budget {
		panic(pathAbort{"budget", fmt.Sprintf("instruction budget %d exceeded", ex.budget)})
	}
}

func (ex *Exec) callSSA(caller *frame, fn *ssa.Function, args []Value, env []Value) Value {
	if fn.Blocks == nil {
		panic(unsupported("no body: " + fn.String()))
	}
	if len(ex.stack) > 400 {
		panic(pathAbort{"budget", "call depth exceeded in " + fn.String()})
	}
	ex.stack = append(ex.stack, fn)
	ex.touch(fn)
	fr := &frame{ex: ex, caller: caller, fn: fn, env: make(map[ssa.Value]Value, 16), sp: len(ex.stack)}
	fr.block = fn.Blocks[0]
	for i, p := range fn.Params {
		fr.env[p] = args[i]
	}
	for i, fv := range fn.FreeVars {
		fr.env[fv] = env[i]
	}
	for _, l := range fn.Locals {
		p := new(Value)
		fr.env[l] = p
		_ = p
	}
	for fr.block != nil {
		ex.runFrame(fr)
	}
	ex.stack = ex.stack[:fr.sp-1]
	if fr.recovered && fr.fn.Recover == nil {
		return ex.zero(fn.Signature.Results())
	}
	return fr.result
}

func (ex *Exec) runFrame(fr *frame) {
	defer func() {
		if fr.block == nil {
			return // normal return
		}
		r := recover()
		if r == nil {
			return
		}
		gp, ok := r.(goPanic)
		if !ok {
			panic(r) // engine-level abort passes through
		}
		fr.panicking = true
		fr.panic = gp
		ex.stack = ex.stack[:fr.sp]
		ex.runDefers(fr)
		// recovered
		fr.recovered = true
		fr.block = fr.fn.Recover
	}()
	for {
		blk := fr.block
		ex.touchBlock(fr.fn, blk)
	instrs:
		for _, instr := range blk.Instrs {
			if _, isPhi := instr.(*ssa.Phi); isPhi {
				continue
			}
			ex.step()
			if ex.tolerant {
				switch ex.visitTolerant(fr, instr) {
				case kReturn:
					return
				case kJump:
					break instrs
				}
				continue
			}
			switch ex.visitInstr(fr, instr) {
			case kReturn:
				return
			case kJump:
				break instrs
			}
		}
	}
}

func (ex *Exec) visitTolerant(fr *frame, instr ssa.Instruction) (k continuation) {
	defer func() {
		if r := recover(); r != nil {
			if pa, ok := r.(pathAbort); ok && pa.kind != "unsupported" {
				panic(r)
			}
			// poison the result and continue
			if v, ok := instr.(ssa.Value); ok {
				fr.env[v] = &Poison{fmt.Sprintf("init: %v", r)}
			}
			switch instr.(type) {
			case *ssa.If, *ssa.Jump, *ssa.Return, *ssa.Panic:
				panic(r)
			}
			k = kNext
		}
	}()
	return ex.visitInstr(fr, instr)
}

func (ex *Exec) runDefers(fr *frame) {
	for d := fr.defers; d != nil; d = d.tail {
		ex.runDefer(fr, d)
	}
	fr.defers = nil
	if fr.panicking {
		panic(fr.panic)
	}
}

func (ex *Exec) runDefer(fr *frame, d *deferred) {
	ok := false
	defer func() {
		if !ok {
			r := recover()
			if gp, isGo := r.(goPanic); isGo {
				fr.panicking = true
				fr.panic = gp
			} else {
				panic(r)
			}
		}
	}()
	ex.call(fr, d.fn, d.args)
	ok = true
}

type continuation int

const (
	kNext continuation = iota
	kReturn
	kJump
)

func (ex *Exec) goPanicStr(msg string) {
	// runtime error: value is an error interface; we carry the message.
	panic(goPanic{v: IfaceV{t: ex.prog.runtimeErrType, v: ex.strC(msg)}, msg: "runtime error: " + msg})
}

// storeInto writes v into the cell p IN PLACE: a struct or array already held by the cell
// keeps its identity, so that field / element addresses taken before the store stay valid
// (go/ssa emits `t1 = &t0.f; *t0 = T{}; *t1 = x` for a partial composite literal).
func storeInto(p *Value, v Value) {
	switch nv := v.(type) {
	case StructV:
		if old, ok := (*p).(StructV); ok && len(old) == len(nv) {
			for i := range nv {
				storeInto(&old[i], nv[i])
			}
			return
		}
	case ArrayV:
		if old, ok := (*p).(ArrayV); ok && len(old) == len(nv) {
			for i := range nv {
				storeInto(&old[i], nv[i])
			}
			return
		}
	}
	*p = copyVal(v)
}

var traceInstr = os.Getenv("GOSYMEX_TRACE") != ""

func (ex *Exec) visitInstr(fr *frame, instr ssa.Instruction) continuation {
	if traceInstr {
		defer func() {
			if v, ok := instr.(ssa.Value); ok {
				fmt.Fprintf(os.Stderr, "TRACE %s: %s = %s  -> %v\n", fr.fn.Name(), v.Name(), instr, fr.env[v])
			} else {
				fmt.Fprintf(os.Stderr, "TRACE %s: %s\n", fr.fn.Name(), instr)
			}
		}()
	}
	switch instr := instr.(type) {
	case *ssa.DebugRef:
	case *ssa.UnOp:
		fr.env[instr] = ex.unop(instr, fr.get(instr.X))
	case *ssa.BinOp:
		fr.env[instr] = ex.binop(instr.Op, instr.X.Type(), fr.get(instr.X), fr.get(instr.Y))
	case *ssa.Call:
		fn, args := ex.prepareCall(fr, &instr.Call)
		fr.env[instr] = ex.call(fr, fn, args)
	case *ssa.ChangeInterface:
		fr.env[instr] = fr.get(instr.X)
	case *ssa.ChangeType:
		fr.env[instr] = fr.get(instr.X)
	case *ssa.Convert:
		fr.env[instr] = ex.conv(instr.Type(), instr.X.Type(), fr.get(instr.X))
	case *ssa.MultiConvert:
		fr.env[instr] = ex.conv(instr.Type(), instr.X.Type(), fr.get(instr.X))
	case *ssa.SliceToArrayPointer:
		x := fr.get(instr.X).(SliceV)
		n := int(mustDeref(instr.Type()).Underlying().(*types.Array).Len())
		if len(x.a) < n {
			ex.goPanicStr("cannot convert slice to array pointer: length too small")
		}
		if x.a == nil {
			fr.env[instr] = (*Value)(nil)
		} else {
			// Note: loses aliasing with the slice's backing store for writes beyond; rare.
			p := new(Value)
			*p = ArrayV(x.a[:n:n])
			fr.env[instr] = p
		}
	case *ssa.MakeInterface:
		fr.env[instr] = IfaceV{t: instr.X.Type(), v: fr.get(instr.X)}
	case *ssa.Extract:
		fr.env[instr] = fr.get(instr.Tuple).(TupleV)[instr.Index]
	case *ssa.Slice:
		fr.env[instr] = ex.slice(instr, fr.get(instr.X), fr.get(instr.Low), fr.get(instr.High), fr.get(instr.Max))
	case *ssa.Return:
		switch len(instr.Results) {
		case 0:
		case 1:
			fr.result = fr.get(instr.Results[0])
		default:
			res := make(TupleV, len(instr.Results))
			for i, r := range instr.Results {
				res[i] = fr.get(r)
			}
			fr.result = res
		}
		fr.block = nil
		return kReturn
	case *ssa.RunDefers:
		ex.runDefers(fr)
	case *ssa.Panic:
		v := fr.get(instr.X)
		panic(goPanic{v: v, msg: ex.describePanic(v)})
	case *ssa.Store:
		p, ok := fr.get(instr.Addr).(*Value)
		if !ok {
			ex.usePoison(fr.get(instr.Addr))
		}
		if p == nil {
			ex.goPanicStr("invalid memory address or nil pointer dereference")
		}
		storeInto(p, fr.get(instr.Val))
	case *ssa.If:
		c, ok := fr.get(instr.Cond).(*Term)
		if !ok {
			ex.usePoison(fr.get(instr.Cond))
		}
		succ := 1
		if ex.Branch(c) {
			succ = 0
		}
		fr.prevBlock, fr.block = fr.block, fr.block.Succs[succ]
		ex.enterBlock(fr)
		return kJump
	case *ssa.Jump:
		fr.prevBlock, fr.block = fr.block, fr.block.Succs[0]
		ex.enterBlock(fr)
		return kJump
	case *ssa.Defer:
		fn, args := ex.prepareCall(fr, &instr.Call)
		fr.defers = &deferred{fn: fn, args: args, tail: fr.defers, pos: instr.Pos()}
	case *ssa.Go:
		fn, args := ex.prepareCall(fr, &instr.Call)
		ex.tasks = append(ex.tasks, &task{fn: fn, args: args})
	case *ssa.Alloc:
		var addr *Value
		if instr.Heap {
			addr = new(Value)
			fr.env[instr] = addr
		} else {
			addr = fr.env[instr].(*Value)
		}
		*addr = ex.zero(mustDeref(instr.Type()))
	case *ssa.MakeSlice:
		n := int(ex.concretizeInt(fr.get(instr.Len), "make len"))
		c := int(ex.concretizeInt(fr.get(instr.Cap), "make cap"))
		if n < 0 || c < n {
			ex.goPanicStr("makeslice: len out of range")
		}
		if c > 1<<22 {
			panic(unsupported("makeslice: huge capacity"))
		}
		s := make([]Value, c)
		te := instr.Type().Underlying().(*types.Slice).Elem()
		z := ex.zero(te)
		for i := range s {
			if i == 0 {
				s[i] = z
			} else {
				s[i] = copyVal(z)
			}
		}
		fr.env[instr] = SliceV{s[:n]}
	case *ssa.MakeMap:
		mt := instr.Type().Underlying().(*types.Map)
		fr.env[instr] = ex.newMap(mt.Key(), mt.Elem())
	case *ssa.Range:
		fr.env[instr] = ex.rangeIter(fr.get(instr.X))
	case *ssa.Next:
		fr.env[instr] = ex.iterNext(fr.get(instr.Iter).(*IterV), instr)
	case *ssa.FieldAddr:
		p, ok := fr.get(instr.X).(*Value)
		if !ok {
			ex.usePoison(fr.get(instr.X))
		}
		if p == nil {
			ex.goPanicStr("invalid memory address or nil pointer dereference")
		}
		s, ok := (*p).(StructV)
		if !ok {
			ex.usePoison(*p)
		}
		fr.env[instr] = &s[instr.Field]
	case *ssa.Field:
		s, ok := fr.get(instr.X).(StructV)
		if !ok {
			ex.usePoison(fr.get(instr.X))
		}
		fr.env[instr] = s[instr.Field]
	case *ssa.IndexAddr:
		x := fr.get(instr.X)
		switch x := x.(type) {
		case SliceV:
			i := ex.index(fr.get(instr.Index), len(x.a))
			fr.env[instr] = &x.a[i]
		case *Value:
			if x == nil {
				ex.goPanicStr("invalid memory address or nil pointer dereference")
			}
			arr, ok := (*x).(ArrayV)
			if !ok {
				ex.usePoison(*x)
			}
			i := ex.index(fr.get(instr.Index), len(arr))
			fr.env[instr] = &arr[i]
		default:
			ex.usePoison(x)
		}
	case *ssa.Index:
		x := fr.get(instr.X)
		switch x := x.(type) {
		case ArrayV:
			i := ex.index(fr.get(instr.Index), len(x))
			fr.env[instr] = x[i]
		case *Str:
			i := ex.index(fr.get(instr.Index), x.Len())
			fr.env[instr] = ex.strAt(x, i)
		default:
			ex.usePoison(x)
		}
	case *ssa.Lookup:
		fr.env[instr] = ex.lookup(instr, fr.get(instr.X), fr.get(instr.Index))
	case *ssa.MapUpdate:
		m, ok := fr.get(instr.Map).(*MapV)
		if !ok {
			ex.usePoison(fr.get(instr.Map))
		}
		ex.mapSet(m, fr.get(instr.Key), copyVal(fr.get(instr.Value)))
	case *ssa.TypeAssert:
		x, ok := fr.get(instr.X).(IfaceV)
		if !ok {
			ex.usePoison(fr.get(instr.X))
		}
		fr.env[instr] = ex.typeAssert(instr, x)
	case *ssa.MakeClosure:
		var bindings []Value
		for _, b := range instr.Bindings {
			bindings = append(bindings, fr.get(b))
		}
		fr.env[instr] = &FuncV{fn: instr.Fn.(*ssa.Function), env: bindings}
	case *ssa.Phi:
		panic("unreachable: phi")
	default:
		panic(unsupported(fmt.Sprintf("instruction %T", instr)))
	}
	return kNext
}

// enterBlock evaluates phi nodes of the new block (parallel assignment).
func (ex *Exec) enterBlock(fr *frame) {
	blk := fr.block
	if len(blk.Instrs) == 0 {
		return
	}
	if _, ok := blk.Instrs[0].(*ssa.Phi); !ok {
		return
	}
	var idx int
	for i, p := range blk.Preds {
		if p == fr.prevBlock {
			idx = i
			break
		}
	}
	var phis []*ssa.Phi
	var vals []Value
	for _, in := range blk.Instrs {
		phi, ok := in.(*ssa.Phi)
		if !ok {
			break
		}
		phis = append(phis, phi)
		vals = append(vals, fr.get(phi.Edges[idx]))
	}
	for i, phi := range phis {
		fr.env[phi] = vals[i]
	}
}

func (ex *Exec) usePoison(v Value) {
	if p, ok := v.(*Poison); ok {
		panic(unsupported("use of poison value: " + p.why))
	}
	panic(unsupported(fmt.Sprintf("unexpected value kind %T", v)))
}

func (ex *Exec) describePanic(v Value) string {
	if i, ok := v.(IfaceV); ok {
		if s, ok := i.v.(*Str); ok {
			return "panic: " + s.String()
		}
		if i.t != nil {
			return "panic: value of type " + i.t.String()
		}
	}
	return "panic"
}

// index checks 0 <= i < n, forking/panicking as Go does, and returns a concrete index.
func (ex *Exec) index(iv Value, n int) int {
	it, ok := iv.(*Term)
	if !ok {
		ex.usePoison(iv)
	}
	if it.IsConst() {
		i := sext(it.C, it.S.W)
		if i < 0 || i >= int64(n) {
			ex.goPanicStr(fmt.Sprintf("index out of range [%d] with length %d", i, n))
		}
		return int(i)
	}
	// symbolic: in-range check (unsigned compare covers negatives for signed ints)
	inr := ex.ts.BVCmp(OpULt, it, ex.ts.BVConst(uint64(n), int(it.S.W)))
	if !ex.Branch(inr) {
		ex.goPanicStr(fmt.Sprintf("index out of range [symbolic] with length %d", n))
	}
	return int(ex.Concretize(it, "index"))
}

func (ex *Exec) concretizeInt(v Value, what string) int64 {
	t, ok := v.(*Term)
	if !ok {
		if v == nil {
			return 0
		}
		ex.usePoison(v)
	}
	if t.IsConst() {
		return sext(t.C, t.S.W)
	}
	return sext(ex.Concretize(t, what), t.S.W)
}

func (ex *Exec) slice(instr *ssa.Slice, x, lo, hi, max Value) Value {
	var length, capa int
	switch x := x.(type) {
	case *Str:
		length = x.Len()
		capa = length
	case SliceV:
		length = len(x.a)
		capa = cap(x.a)
	case *Value:
		if x == nil {
			ex.goPanicStr("slice of nil array pointer")
		}
		arr := (*x).(ArrayV)
		length = len(arr)
		capa = length
	default:
		ex.usePoison(x)
	}
	l := 0
	if lo != nil {
		l = int(ex.sliceBound(lo, capa, "slice low"))
	}
	h := length
	if hi != nil {
		h = int(ex.sliceBound(hi, capa, "slice high"))
	}
	m := capa
	if max != nil {
		m = int(ex.sliceBound(max, capa, "slice max"))
	}
	if _, isStr := x.(*Str); isStr {
		if h > length {
			ex.goPanicStr(fmt.Sprintf("slice bounds out of range [:%d] with length %d", h, length))
		}
	}
	if l < 0 || l > h || h > m || m > capa {
		ex.goPanicStr(fmt.Sprintf("slice bounds out of range [%d:%d:%d] with capacity %d", l, h, m, capa))
	}
	switch x := x.(type) {
	case *Str:
		return ex.strSlice(x, l, h)
	case SliceV:
		if x.a == nil {
			return SliceV{}
		}
		return SliceV{x.a[l:h:m]}
	case *Value:
		arr := (*x).(ArrayV)
		return SliceV{[]Value(arr)[l:h:m]}
	}
	panic("unreachable")
}

// sliceBound concretizes a slice bound; values outside [0,capa] are represented
// by a single out-of-range representative (capa+1 or -1).
func (ex *Exec) sliceBound(v Value, capa int, what string) int64 {
	t, ok := v.(*Term)
	if !ok {
		ex.usePoison(v)
	}
	if t.IsConst() {
		return sext(t.C, t.S.W)
	}
	inr := ex.ts.BVCmp(OpULe, t, ex.ts.BVConst(uint64(capa), int(t.S.W)))
	if !ex.Branch(inr) {
		return int64(capa) + 1
	}
	return int64(ex.Concretize(t, what))
}

func (ex *Exec) lookup(instr *ssa.Lookup, x, idx Value) Value {
	m, ok := x.(*MapV)
	if !ok {
		if s, isStr := x.(*Str); isStr { // string indexing never uses Lookup, but be safe
			i := ex.index(idx, s.Len())
			return ex.strAt(s, i)
		}
		ex.usePoison(x)
	}
	var v Value
	e := ex.mapFind(m, idx)
	found := e != nil
	if found {
		v = copyVal(e.v)
	} else {
		v = ex.zero(instr.X.Type().Underlying().(*types.Map).Elem())
	}
	if instr.CommaOk {
		return TupleV{v, ex.ts.Bool(found)}
	}
	return v
}

func (ex *Exec) rangeIter(x Value) *IterV {
	switch x := x.(type) {
	case *MapV:
		ents := x.live()
		if len(ents) >= 2 && ex.mapOrderNondet {
			ents = ex.permute(ents)
		}
		return &IterV{m: x, ents: ents}
	case *Str:
		return &IterV{s: x}
	}
	ex.usePoison(x)
	return nil
}

func (ex *Exec) iterNext(it *IterV, instr *ssa.Next) Value {
	if it.s != nil || instr.IsString {
		if it.s == nil || it.i >= it.s.Len() {
			return TupleV{ex.ts.False, ex.ts.BVConst(0, 64), ex.ts.BVConst(0, 32)}
		}
		r, size := ex.decodeRune(it.s, it.i)
		i := it.i
		it.i += size
		return TupleV{ex.ts.True, ex.ts.BVConst(uint64(i), 64), r}
	}
	for it.i < len(it.ents) {
		e := it.ents[it.i]
		it.i++
		if e.deleted {
			continue
		}
		return TupleV{ex.ts.True, e.k, copyVal(e.v)}
	}
	mt := instr.Iter.(*ssa.Range).X.Type().Underlying().(*types.Map)
	return TupleV{ex.ts.False, ex.zero(mt.Key()), ex.zero(mt.Elem())}
}

func (ex *Exec) typeAssert(instr *ssa.TypeAssert, x IfaceV) Value {
	var ok bool
	var v Value
	if it, isIface := instr.AssertedType.Underlying().(*types.Interface); isIface {
		v = x
		if x.t != nil {
			ok = types.Implements(x.t, it) || it.NumMethods() == 0
			if !ok {
				// pointer receiver method sets are handled by types.Implements on x.t itself
				ok = ex.implements(x.t, it)
			}
		}
	} else {
		if x.t != nil && types.Identical(x.t, instr.AssertedType) {
			ok = true
			v = copyVal(x.v)
		}
	}
	if !ok {
		if instr.CommaOk {
			return TupleV{ex.zero(instr.AssertedType), ex.ts.False}
		}
		ts := "nil"
		if x.t != nil {
			ts = x.t.String()
		}
		panic(goPanic{msg: fmt.Sprintf("interface conversion: interface is %s, not %s", ts, instr.AssertedType)})
	}
	if instr.CommaOk {
		return TupleV{v, ex.ts.True}
	}
	return v
}

func (ex *Exec) implements(t types.Type, it *types.Interface) bool {
	ms := ex.prog.prog.MethodSets.MethodSet(t)
	for i := 0; i < it.NumMethods(); i++ {
		m := it.Method(i)
		if ms.Lookup(m.Pkg(), m.Name()) == nil {
			return false
		}
	}
	return true
}

// ---------- calls ----------

func (ex *Exec) prepareCall(fr *frame, call *ssa.CallCommon) (fn Value, args []Value) {
	v := fr.get(call.Value)
	if call.Method == nil {
		fn = v
	} else {
		recv, ok := v.(IfaceV)
		if !ok {
			ex.usePoison(v)
		}
		if recv.t == nil {
			ex.goPanicStr("invalid memory address or nil pointer dereference (method call on nil interface: " + call.Method.Name() + ")")
		}
		f := ex.prog.lookupMethod(recv.t, call.Method)
		if f == nil {
			panic(unsupported(fmt.Sprintf("method %s not found on %s", call.Method.Name(), recv.t)))
		}
		fn = &FuncV{fn: f}
		args = append(args, recv.v)
	}
	for _, a := range call.Args {
		args = append(args, fr.get(a))
	}
	return
}

func (ex *Exec) call(caller *frame, fn Value, args []Value) Value {
	f, ok := fn.(*FuncV)
	if !ok {
		ex.usePoison(fn)
	}
	if f == nil {
		ex.goPanicStr("invalid memory address or nil pointer dereference (nil func call)")
	}
	if f.native != nil {
		return f.native(ex, args)
	}
	if f.builtin != nil {
		return ex.callBuiltin(caller, f.builtin, args)
	}
	return ex.callFn(caller, f.fn, args, f.env)
}

func (ex *Exec) callFn(caller *frame, fn *ssa.Function, args []Value, env []Value) Value {
	if fn.Synthetic == "package initializer" && fn.Pkg != nil {
		// lazy: a package is initialised when one of its globals is first touched
		return nil
	}
	if ex.inInit && ex.tolerant && initSkip[fn.String()] {
		return &Poison{"skipped in package initialisation: " + fn.String()}
	}
	if in := ex.prog.intrinsic(fn); in != nil {
		ex.step()
		return in(ex, caller, fn, args)
	}
	if fn.Blocks == nil {
		panic(unsupported("external function without model: " + fn.String()))
	}
	return ex.callSSA(caller, fn, args, env)
}

func (ex *Exec) callBuiltin(caller *frame, b *ssa.Builtin, args []Value) Value {
	switch b.Name() {
	case "append":
		if len(args) == 1 {
			return args[0]
		}
		dst := args[0].(SliceV)
		switch src := args[1].(type) {
		case *Str:
			bs := ex.strBytes(src)
			out := dst.a
			for _, t := range bs {
				out = append(out, Value(t))
			}
			if out == nil && len(bs) == 0 {
				return SliceV{}
			}
			return SliceV{out}
		case SliceV:
			if len(src.a) == 0 {
				return dst
			}
			out := dst.a
			for _, v := range src.a {
				out = append(out, copyVal(v))
			}
			return SliceV{out}
		default:
			ex.usePoison(src)
		}
	case "copy":
		dst := args[0].(SliceV)
		n := 0
		switch src := args[1].(type) {
		case *Str:
			bs := ex.strBytes(src)
			for n < len(dst.a) && n < len(bs) {
				dst.a[n] = bs[n]
				n++
			}
		case SliceV:
			// handle overlap like memmove
			tmp := make([]Value, len(src.a))
			copy(tmp, src.a)
			for n < len(dst.a) && n < len(tmp) {
				dst.a[n] = copyVal(tmp[n])
				n++
			}
		}
		return ex.ts.BVConst(uint64(n), 64)
	case "close":
		panic(unsupported("close(chan)"))
	case "delete":
		m, ok := args[0].(*MapV)
		if !ok {
			ex.usePoison(args[0])
		}
		ex.mapDelete(m, args[1])
		return nil
	case "print", "println":
		return nil
	case "len":
		switch x := args[0].(type) {
		case *Str:
			return ex.ts.BVConst(uint64(x.Len()), 64)
		case SliceV:
			return ex.ts.BVConst(uint64(len(x.a)), 64)
		case ArrayV:
			return ex.ts.BVConst(uint64(len(x)), 64)
		case *Value:
			return ex.ts.BVConst(uint64(len((*x).(ArrayV))), 64)
		case *MapV:
			if x == nil {
				return ex.ts.BVConst(0, 64)
			}
			return ex.ts.BVConst(uint64(x.n), 64)
		default:
			ex.usePoison(x)
		}
	case "cap":
		switch x := args[0].(type) {
		case SliceV:
			return ex.ts.BVConst(uint64(cap(x.a)), 64)
		case ArrayV:
			return ex.ts.BVConst(uint64(len(x)), 64)
		case *Value:
			return ex.ts.BVConst(uint64(len((*x).(ArrayV))), 64)
		default:
			ex.usePoison(x)
		}
	case "min", "max":
		isMax := b.Name() == "max"
		acc := args[0]
		for _, a := range args[1:] {
			acc = ex.minmax(b, isMax, acc, a)
		}
		return acc
	case "panic":
		panic(goPanic{v: args[0], msg: ex.describePanic(args[0])})
	case "recover":
		return ex.doRecover(caller)
	case "ssa:wrapnilchk":
		recv := args[0]
		if p, ok := recv.(*Value); ok && p == nil {
			ex.goPanicStr("value method called using nil pointer")
		}
		return recv
	case "clear":
		switch x := args[0].(type) {
		case *MapV:
			if x != nil {
				x.entries = nil
				x.index = map[string]int{}
				x.n = 0
				x.symKeys = false
			}
		case SliceV:
			panic(unsupported("clear(slice)"))
		}
		return nil
	}
	panic(unsupported("builtin " + b.Name()))
}

func (ex *Exec) minmax(b *ssa.Builtin, isMax bool, x, y Value) Value {
	switch x := x.(type) {
	case *Term:
		yt := y.(*Term)
		sig := b.Type().(*types.Signature)
		bt := sig.Params().At(0).Type().Underlying().(*types.Basic)
		op := OpULt
		if isSigned(bt) {
			op = OpSLt
		}
		lt := ex.ts.BVCmp(op, x, yt)
		if isMax {
			return ex.ts.Ite(lt, yt, x)
		}
		return ex.ts.Ite(lt, x, yt)
	case float64:
		yf := y.(float64)
		if isMax {
			return math.Max(x, yf)
		}
		return math.Min(x, yf)
	case *Str:
		ys := y.(*Str)
		lt := ex.Branch(ex.strLess(x, ys))
		if lt != isMax {
			return x
		}
		return ys
	}
	panic(unsupported("min/max operand"))
}

func (ex *Exec) doRecover(caller *frame) Value {
	// recover() is called from a deferred function: caller is the deferred
	// function's frame; the panicking frame is its caller.
	if caller != nil && caller.caller != nil && caller.caller.panicking {
		fr := caller.caller
		fr.panicking = false
		gp := fr.panic.(goPanic)
		if gp.v == nil {
			return IfaceV{t: types.Typ[types.String], v: ex.strC(gp.msg)}
		}
		if iv, ok := gp.v.(IfaceV); ok {
			return iv
		}
		return IfaceV{t: types.Typ[types.String], v: ex.strC(gp.msg)}
	}
	return IfaceV{}
}

// ---------- unary / binary ops / conversions ----------

func (ex *Exec) unop(instr *ssa.UnOp, x Value) Value {
	switch instr.Op {
	case token.MUL: // load
		p, ok := x.(*Value)
		if !ok {
			ex.usePoison(x)
		}
		if p == nil {
			ex.goPanicStr("invalid memory address or nil pointer dereference")
		}
		v := copyVal(*p)
		if po, isP := v.(*Poison); isP && !ex.tolerant {
			panic(unsupported("load of poison: " + po.why))
		}
		return v
	case token.ARROW:
		panic(unsupported("channel receive"))
	case token.SUB:
		switch x := x.(type) {
		case *Term:
			return ex.ts.BVUn(OpNeg, x)
		case float64:
			return -x
		}
	case token.NOT:
		if t, ok := x.(*Term); ok {
			return ex.ts.Not(t)
		}
	case token.XOR:
		if t, ok := x.(*Term); ok {
			return ex.ts.BVUn(OpBNot, t)
		}
	}
	ex.usePoison(x)
	return nil
}

func basicOf(t types.Type) *types.Basic {
	b, _ := t.Underlying().(*types.Basic)
	return b
}

func (ex *Exec) binop(op token.Token, t types.Type, x, y Value) Value {
	switch xv := x.(type) {
	case *Term:
		yv, ok := y.(*Term)
		if !ok {
			ex.usePoison(y)
		}
		if xv.S.K == KBool {
			switch op {
			case token.EQL:
				return ex.ts.Eq(xv, yv)
			case token.NEQ:
				return ex.ts.Not(ex.ts.Eq(xv, yv))
			case token.AND, token.LAND:
				return ex.ts.And(xv, yv)
			case token.OR, token.LOR:
				return ex.ts.Or(xv, yv)
			}
			panic(unsupported("bool binop " + op.String()))
		}
		b := basicOf(t)
		signed := b == nil || isSigned(b)
		switch op {
		case token.ADD:
			return ex.ts.BVBin(OpAdd, xv, yv)
		case token.SUB:
			return ex.ts.BVBin(OpSub, xv, yv)
		case token.MUL:
			return ex.ts.BVBin(OpMul, xv, yv)
		case token.QUO, token.REM:
			if yv.IsConst() {
				if yv.C == 0 {
					ex.goPanicStr("integer divide by zero")
				}
			} else if ex.Branch(ex.ts.Eq(yv, ex.ts.BVConst(0, int(yv.S.W)))) {
				ex.goPanicStr("integer divide by zero")
			}
			var o Op
			switch {
			case op == token.QUO && signed:
				o = OpSDiv
			case op == token.QUO:
				o = OpUDiv
			case signed:
				o = OpSRem
			default:
				o = OpURem
			}
			return ex.ts.BVBin(o, xv, yv)
		case token.AND:
			return ex.ts.BVBin(OpBAnd, xv, yv)
		case token.OR:
			return ex.ts.BVBin(OpBOr, xv, yv)
		case token.XOR:
			return ex.ts.BVBin(OpBXor, xv, yv)
		case token.AND_NOT:
			return ex.ts.BVBin(OpBAnd, xv, ex.ts.BVUn(OpBNot, yv))
		case token.SHL, token.SHR:
			// shift count may have a different width; Go semantics: count >= width gives 0 (or sign fill)
			w := int(xv.S.W)
			var cnt *Term
			if int(yv.S.W) == w {
				cnt = yv
			} else if int(yv.S.W) < w {
				cnt = ex.ts.ZExt(yv, w)
			} else {
				// saturate
				big := ex.ts.BVCmp(OpULt, ex.ts.BVConst(uint64(w), int(yv.S.W)), yv)
				cnt = ex.ts.Ite(big, ex.ts.BVConst(uint64(w), w), ex.ts.Extract(yv, 0, w))
			}
			if op == token.SHL {
				return ex.ts.BVBin(OpShl, xv, cnt)
			}
			if signed {
				return ex.ts.BVBin(OpAShr, xv, cnt)
			}
			return ex.ts.BVBin(OpLShr, xv, cnt)
		case token.EQL:
			return ex.ts.Eq(xv, yv)
		case token.NEQ:
			return ex.ts.Not(ex.ts.Eq(xv, yv))
		case token.LSS:
			if signed {
				return ex.ts.BVCmp(OpSLt, xv, yv)
			}
			return ex.ts.BVCmp(OpULt, xv, yv)
		case token.LEQ:
			if signed {
				return ex.ts.BVCmp(OpSLe, xv, yv)
			}
			return ex.ts.BVCmp(OpULe, xv, yv)
		case token.GTR:
			if signed {
				return ex.ts.BVCmp(OpSLt, yv, xv)
			}
			return ex.ts.BVCmp(OpULt, yv, xv)
		case token.GEQ:
			if signed {
				return ex.ts.BVCmp(OpSLe, yv, xv)
			}
			return ex.ts.BVCmp(OpULe, yv, xv)
		}
	case float64:
		yv, ok := y.(float64)
		if !ok {
			ex.usePoison(y)
		}
		is32 := basicOf(t) != nil && basicOf(t).Kind() == types.Float32
		r32 := func(f float64) Value {
			if is32 {
				return float64(float32(f))
			}
			return f
		}
		switch op {
		case token.ADD:
			return r32(xv + yv)
		case token.SUB:
			return r32(xv - yv)
		case token.MUL:
			return r32(xv * yv)
		case token.QUO:
			return r32(xv / yv)
		case token.EQL:
			return ex.ts.Bool(xv == yv)
		case token.NEQ:
			return ex.ts.Bool(xv != yv)
		case token.LSS:
			return ex.ts.Bool(xv < yv)
		case token.LEQ:
			return ex.ts.Bool(xv <= yv)
		case token.GTR:
			return ex.ts.Bool(xv > yv)
		case token.GEQ:
			return ex.ts.Bool(xv >= yv)
		}
	case *Str:
		yv, ok := y.(*Str)
		if !ok {
			ex.usePoison(y)
		}
		switch op {
		case token.ADD:
			return ex.strConcat(xv, yv)
		case token.EQL:
			return ex.strEq(xv, yv)
		case token.NEQ:
			return ex.ts.Not(ex.strEq(xv, yv))
		case token.LSS:
			return ex.strLess(xv, yv)
		case token.GTR:
			return ex.strLess(yv, xv)
		case token.LEQ:
			return ex.ts.Not(ex.strLess(yv, xv))
		case token.GEQ:
			return ex.ts.Not(ex.strLess(xv, yv))
		}
	case *Poison:
		ex.usePoison(x)
	}
	switch op {
	case token.EQL:
		return ex.eqNilAware(t, x, y)
	case token.NEQ:
		return ex.ts.Not(ex.eqNilAware(t, x, y))
	}
	panic(unsupported(fmt.Sprintf("binop %s on %T", op, x)))
}

// eqNilAware compares reference-like values where one side may be the untyped
// nil constant (Go nil interface value in our representation).
func (ex *Exec) eqNilAware(t types.Type, x, y Value) *Term {
	if _, ok := x.(*Poison); ok {
		ex.usePoison(x)
	}
	if _, ok := y.(*Poison); ok {
		ex.usePoison(y)
	}
	if x == nil || y == nil {
		o := x
		if x == nil {
			o = y
		}
		return ex.ts.Bool(isNilValue(o))
	}
	return ex.equals(t, x, y)
}

func isNilValue(v Value) bool {
	switch v := v.(type) {
	case nil:
		return true
	case *Value:
		return v == nil
	case *MapV:
		return v == nil
	case *FuncV:
		return v == nil
	case SliceV:
		return v.a == nil
	case IfaceV:
		return v.t == nil
	}
	return false
}

func (ex *Exec) conv(dst, src types.Type, x Value) Value {
	ud, us := dst.Underlying(), src.Underlying()
	if tp, ok := ud.(*types.Interface); ok && tp != nil {
		// conversion involving type parameters should not occur after instantiation
		_ = tp
	}
	switch us := us.(type) {
	case *types.Pointer:
		// *T to unsafe.Pointer or another pointer type
		return x
	case *types.Slice:
		// []byte / []rune -> string
		if db, ok := ud.(*types.Basic); ok && db.Info()&types.IsString != 0 {
			sl, ok := x.(SliceV)
			if !ok {
				ex.usePoison(x)
			}
			eb := us.Elem().Underlying().(*types.Basic)
			if eb.Kind() == types.Uint8 {
				bs := make([]*Term, len(sl.a))
				for i, v := range sl.a {
					bs[i] = v.(*Term)
				}
				return ex.strB(bs)
			}
			// []rune
			var out []*Term
			for _, v := range sl.a {
				out = append(out, ex.encodeRune(v.(*Term))...)
			}
			return ex.strB(out)
		}
		return x
	case *types.Basic:
		switch {
		case us.Info()&types.IsString != 0:
			s, ok := x.(*Str)
			if !ok {
				ex.usePoison(x)
			}
			if ds, ok := ud.(*types.Slice); ok {
				eb := ds.Elem().Underlying().(*types.Basic)
				if eb.Kind() == types.Uint8 {
					bs := ex.strBytes(s)
					out := make([]Value, len(bs))
					for i, b := range bs {
						out[i] = b
					}
					return SliceV{out}
				}
				// []rune
				out := []Value{}
				for i := 0; i < s.Len(); {
					r, size := ex.decodeRune(s, i)
					out = append(out, r)
					i += size
				}
				return SliceV{out}
			}
			return x
		case us.Kind() == types.UnsafePointer:
			return x
		case us.Info()&types.IsInteger != 0:
			t, ok := x.(*Term)
			if !ok {
				ex.usePoison(x)
			}
			db, ok := ud.(*types.Basic)
			if !ok {
				break
			}
			switch {
			case db.Info()&types.IsInteger != 0:
				w := ex.intWidth(db)
				sw := int(t.S.W)
				if w <= sw {
					return ex.ts.Extract(t, 0, w)
				}
				if isSigned(us) {
					return ex.ts.SExt(t, w)
				}
				return ex.ts.ZExt(t, w)
			case db.Info()&types.IsFloat != 0:
				if !t.IsConst() {
					panic(unsupported("symbolic int to float conversion"))
				}
				var f float64
				if isSigned(us) {
					f = float64(sext(t.C, t.S.W))
				} else {
					f = float64(t.C)
				}
				if db.Kind() == types.Float32 {
					f = float64(float32(f))
				}
				return f
			case db.Info()&types.IsString != 0:
				// string(rune)
				r := t
				if int(r.S.W) != 32 {
					if isSigned(us) {
						r = ex.ts.SExt(r, 64)
					} else {
						r = ex.ts.ZExt(r, 64)
					}
					// out of range -> RuneError handled by encodeRune on 32 bits after clamp
					if r.IsConst() {
						v := sext(r.C, 64)
						if v < 0 || v > 0x10FFFF {
							v = 0xFFFD
						}
						r = ex.ts.BVConst(uint64(v), 32)
					} else {
						r = ex.ts.Extract(r, 0, 32)
					}
				}
				return ex.strB(ex.encodeRune(r))
			case db.Kind() == types.UnsafePointer:
				panic(unsupported("uintptr to unsafe.Pointer"))
			}
		case us.Info()&types.IsFloat != 0:
			f, ok := x.(float64)
			if !ok {
				ex.usePoison(x)
			}
			db, ok := ud.(*types.Basic)
			if !ok {
				break
			}
			switch {
			case db.Info()&types.IsFloat != 0:
				if db.Kind() == types.Float32 {
					return float64(float32(f))
				}
				return f
			case db.Info()&types.IsInteger != 0:
				w := ex.intWidth(db)
				if isSigned(db) {
					return ex.ts.BVConst(uint64(int64(f)), w)
				}
				return ex.ts.BVConst(uint64(f), w)
			}
		case us.Info()&types.IsBoolean != 0:
			return x
		}
	case *types.Struct, *types.Array, *types.Map, *types.Signature, *types.Interface, *types.Chan:
		return x
	}
	panic(unsupported(fmt.Sprintf("conversion %s -> %s", src, dst)))
}

// ---------- UTF-8 helpers on symbolic strings ----------

// decodeRune decodes one rune at s[i:], forking on byte classes. Returns rune term (BV32) and size.
func (ex *Exec) decodeRune(s *Str, i int) (*Term, int) {
	n := s.Len() - i
	if n <= 0 {
		return ex.ts.BVConst(0xFFFD, 32), 0
	}
	ts := ex.ts
	b0 := ex.strAt(s, i)
	c8 := func(v uint64) *Term { return ts.BVConst(v, 8) }
	rerr := ts.BVConst(0xFFFD, 32)
	if ex.Branch(ts.BVCmp(OpULt, b0, c8(0x80))) {
		return ts.ZExt(b0, 32), 1
	}
	if ex.Branch(ts.BVCmp(OpULt, b0, c8(0xC2))) {
		return rerr, 1
	}
	cont := func(b *Term, lo, hi uint64) bool {
		return ex.Branch(ts.And(ts.BVCmp(OpULe, c8(lo), b), ts.BVCmp(OpULe, b, c8(hi))))
	}
	z := func(b *Term, m uint64) *Term { return ts.ZExt(ts.BVBin(OpBAnd, b, c8(m)), 32) }
	shl := func(t *Term, k uint64) *Term { return ts.BVBin(OpShl, t, ts.BVConst(k, 32)) }
	or := func(a, b *Term) *Term { return ts.BVBin(OpBOr, a, b) }
	if ex.Branch(ts.BVCmp(OpULt, b0, c8(0xE0))) {
		// 2 bytes
		if n < 2 {
			return rerr, 1
		}
		b1 := ex.strAt(s, i+1)
		if !cont(b1, 0x80, 0xBF) {
			return rerr, 1
		}
		return or(shl(z(b0, 0x1F), 6), z(b1, 0x3F)), 2
	}
	if ex.Branch(ts.BVCmp(OpULt, b0, c8(0xF0))) {
		// 3 bytes: E0: A0..BF; ED: 80..9F; else 80..BF
		if n < 2 {
			return rerr, 1
		}
		b1 := ex.strAt(s, i+1)
		lo, hi := uint64(0x80), uint64(0xBF)
		if ex.Branch(ts.Eq(b0, c8(0xE0))) {
			lo = 0xA0
		} else if ex.Branch(ts.Eq(b0, c8(0xED))) {
			hi = 0x9F
		}
		if !cont(b1, lo, hi) {
			return rerr, 1
		}
		if n < 3 {
			return rerr, 1
		}
		b2 := ex.strAt(s, i+2)
		if !cont(b2, 0x80, 0xBF) {
			return rerr, 1
		}
		return or(or(shl(z(b0, 0x0F), 12), shl(z(b1, 0x3F), 6)), z(b2, 0x3F)), 3
	}
	if ex.Branch(ts.BVCmp(OpULt, b0, c8(0xF5))) {
		if n < 2 {
			return rerr, 1
		}
		b1 := ex.strAt(s, i+1)
		lo, hi := uint64(0x80), uint64(0xBF)
		if ex.Branch(ts.Eq(b0, c8(0xF0))) {
			lo = 0x90
		} else if ex.Branch(ts.Eq(b0, c8(0xF4))) {
			hi = 0x8F
		}
		if !cont(b1, lo, hi) {
			return rerr, 1
		}
		if n < 3 {
			return rerr, 1
		}
		b2 := ex.strAt(s, i+2)
		if !cont(b2, 0x80, 0xBF) {
			return rerr, 1
		}
		if n < 4 {
			return rerr, 1
		}
		b3 := ex.strAt(s, i+3)
		if !cont(b3, 0x80, 0xBF) {
			return rerr, 1
		}
		return or(or(or(shl(z(b0, 0x07), 18), shl(z(b1, 0x3F), 12)), shl(z(b2, 0x3F), 6)), z(b3, 0x3F)), 4
	}
	return rerr, 1
}

// encodeRune returns the UTF-8 bytes of rune r (BV32), forking on its size class.
func (ex *Exec) encodeRune(r *Term) []*Term {
	ts := ex.ts
	if r.S.W != 32 {
		r = ts.SExt(r, 32)
	}
	c := func(v uint64) *Term { return ts.BVConst(v, 32) }
	b := func(t *Term) *Term { return ts.Extract(t, 0, 8) }
	shr := func(t *Term, k uint64) *Term { return ts.BVBin(OpLShr, t, c(k)) }
	and := func(t *Term, m uint64) *Term { return ts.BVBin(OpBAnd, t, c(m)) }
	or := func(t *Term, m uint64) *Term { return ts.BVBin(OpBOr, t, c(m)) }
	if ex.Branch(ts.BVCmp(OpULt, r, c(0x80))) {
		return []*Term{b(r)}
	}
	if ex.Branch(ts.BVCmp(OpULt, r, c(0x800))) {
		return []*Term{b(or(shr(r, 6), 0xC0)), b(or(and(r, 0x3F), 0x80))}
	}
	// surrogates and > MaxRune -> RuneError
	bad := ts.Or(ts.BVCmp(OpULt, c(0x10FFFF), r), ts.And(ts.BVCmp(OpULe, c(0xD800), r), ts.BVCmp(OpULe, r, c(0xDFFF))))
	if ex.Branch(bad) {
		return []*Term{ts.BVConst(0xEF, 8), ts.BVConst(0xBF, 8), ts.BVConst(0xBD, 8)}
	}
	if ex.Branch(ts.BVCmp(OpULt, r, c(0x10000))) {
		return []*Term{b(or(shr(r, 12), 0xE0)), b(or(and(shr(r, 6), 0x3F), 0x80)), b(or(and(r, 0x3F), 0x80))}
	}
	return []*Term{b(or(shr(r, 18), 0xF0)), b(or(and(shr(r, 12), 0x3F), 0x80)), b(or(and(shr(r, 6), 0x3F), 0x80)), b(or(and(r, 0x3F), 0x80))}
}

// ---------- misc helpers ----------

func (ex *Exec) mkInt(v int64) *Term   { return ex.ts.BVConst(uint64(v), 64) }
func (ex *Exec) mkBool(b bool) *Term   { return ex.ts.Bool(b) }
func (ex *Exec) mkInt32(v int64) *Term { return ex.ts.BVConst(uint64(v), 32) }

func (ex *Exec) concStr(v Value, what string) string {
	s, ok := v.(*Str)
	if !ok {
		ex.usePoison(v)
	}
	if s.conc {
		return s.s
	}
	// concretize each byte
	bs := make([]byte, s.Len())
	for i, t := range s.b {
		bs[i] = byte(ex.Concretize(t, what))
	}
	return string(bs)
}

func (ex *Exec) sliceOfStrings(ss []string) SliceV {
	out := make([]Value, len(ss))
	for i, s := range ss {
		out[i] = ex.strC(s)
	}
	return SliceV{out}
}

func fnName(fn *ssa.Function) string {
	s := fn.String()
	return strings.TrimPrefix(s, "command-line-arguments.")
}

var _ = big.NewInt
