package main

import (
	"go/types"

	"golang.org/x/tools/go/ssa"
)

// reflect.DeepEqual on engine values: like == where == is defined, and element-wise on slices,
// maps with concrete keys and pointed-to values (cycles are not expected in the code under
// test; a depth limit turns one into `unsupported`). Functions are equal only if both nil.
func (ex *Exec) deepEqual(x, y Value, depth int) *Term {
	ts := ex.ts
	if depth > 40 {
		panic(unsupported("reflect.DeepEqual: nesting too deep (cyclic value?)"))
	}
	switch a := x.(type) {
	case IfaceV:
		b, ok := y.(IfaceV)
		if !ok {
			return ts.False
		}
		if a.t == nil || b.t == nil {
			return ts.Bool(a.t == nil && b.t == nil)
		}
		if !types.Identical(a.t, b.t) {
			return ts.False
		}
		return ex.deepEqual(a.v, b.v, depth+1)
	case SliceV:
		b, ok := y.(SliceV)
		if !ok {
			return ts.False
		}
		if (a.a == nil) != (b.a == nil) || len(a.a) != len(b.a) {
			return ts.False
		}
		r := ts.True
		for i := range a.a {
			r = ts.And(r, ex.deepEqual(a.a[i], b.a[i], depth+1))
			if r == ts.False {
				return r
			}
		}
		return r
	case StructV:
		b, ok := y.(StructV)
		if !ok || len(a) != len(b) {
			return ts.False
		}
		r := ts.True
		for i := range a {
			r = ts.And(r, ex.deepEqual(a[i], b[i], depth+1))
			if r == ts.False {
				return r
			}
		}
		return r
	case ArrayV:
		b, ok := y.(ArrayV)
		if !ok || len(a) != len(b) {
			return ts.False
		}
		r := ts.True
		for i := range a {
			r = ts.And(r, ex.deepEqual(a[i], b[i], depth+1))
			if r == ts.False {
				return r
			}
		}
		return r
	case *MapV:
		b, ok := y.(*MapV)
		if !ok {
			return ts.False
		}
		if a == b {
			return ts.True
		}
		if a == nil || b == nil {
			return ts.False
		}
		if a.symKeys || b.symKeys {
			panic(unsupported("reflect.DeepEqual: map with symbolic keys"))
		}
		la, lb := a.live(), b.live()
		if len(la) != len(lb) {
			return ts.False
		}
		r := ts.True
		for _, e := range la {
			f := ex.mapFind(b, e.k)
			if f == nil {
				return ts.False
			}
			r = ts.And(r, ex.deepEqual(e.v, f.v, depth+1))
			if r == ts.False {
				return r
			}
		}
		return r
	case *Value:
		b, ok := y.(*Value)
		if !ok {
			return ts.False
		}
		if a == b {
			return ts.True
		}
		if a == nil || b == nil {
			return ts.False
		}
		return ex.deepEqual(*a, *b, depth+1)
	case *FuncV:
		b, _ := y.(*FuncV)
		return ts.Bool(a == nil && b == nil)
	}
	return ex.equals(nil, x, y)
}

func init() {
	reg("reflect.DeepEqual", func(ex *Exec, _ *frame, _ *ssa.Function, a []Value) Value {
		return ex.deepEqual(a[0], a[1], 0)
	})
}
