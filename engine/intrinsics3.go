package main

// fmt and math/big models.

import (
	"encoding/json"
	"fmt"
	"go/types"
	"math/big"
	"reflect"
	"sort"
	"strconv"
	"strings"

	"golang.org/x/tools/go/ssa"
)

// ---------- fmt ----------

func (ex *Exec) methodOf(t types.Type, name string) *ssa.Function {
	ms := ex.prog.prog.MethodSets.MethodSet(t)
	for i := 0; i < ms.Len(); i++ {
		sel := ms.At(i)
		if sel.Obj().Name() == name {
			// check signature: func() string
			sig := sel.Type().(*types.Signature)
			if sig.Params().Len() == 0 && sig.Results().Len() == 1 {
				if b, ok := sig.Results().At(0).Type().Underlying().(*types.Basic); ok && b.Kind() == types.String {
					return ex.prog.prog.MethodValue(sel)
				}
			}
		}
	}
	return nil
}

// fmtString renders an argument the way %v / %s would, using Error()/String() methods.
func (ex *Exec) fmtArgString(fr *frame, arg Value, verb byte) (*Str, bool) {
	iv, ok := arg.(IfaceV)
	if !ok {
		ex.usePoison(arg)
	}
	if iv.t == nil {
		if verb == 's' {
			return ex.strC("%!s(<nil>)"), true
		}
		return ex.strC("<nil>"), true
	}
	if verb == 'v' || verb == 's' || verb == 'q' {
		if m := ex.methodOf(iv.t, "Error"); m != nil {
			if p, isPtr := iv.v.(*Value); isPtr && p == nil {
				return ex.strC("<nil>"), true
			}
			return str(ex.callFn(fr, m, []Value{iv.v}, nil)), true
		}
		if m := ex.methodOf(iv.t, "String"); m != nil {
			if p, isPtr := iv.v.(*Value); isPtr && p == nil {
				return ex.strC("<nil>"), true
			}
			return str(ex.callFn(fr, m, []Value{iv.v}, nil)), true
		}
	}
	switch v := iv.v.(type) {
	case *Str:
		return v, true
	}
	return nil, false
}

func (ex *Exec) toNative(iv IfaceV) (any, bool) {
	switch v := iv.v.(type) {
	case *Term:
		if !v.IsConst() {
			return nil, false
		}
		if v.S.K == KBool {
			return v.C != 0, true
		}
		b := basicOf(iv.t)
		if b != nil && !isSigned(b) {
			switch v.S.W {
			case 8:
				return uint8(v.C), true
			case 16:
				return uint16(v.C), true
			case 32:
				return uint32(v.C), true
			}
			return v.C, true
		}
		s := sext(v.C, v.S.W)
		switch v.S.W {
		case 8:
			return int8(s), true
		case 16:
			return int16(s), true
		case 32:
			return int32(s), true
		}
		return s, true
	case float64:
		return v, true
	case *Str:
		if v.conc {
			return v.s, true
		}
	}
	return nil, false
}

func (ex *Exec) sprintf(fr *frame, format string, args []Value) *Str {
	out := ex.emptyStr
	argi := 0
	i := 0
	lit := func(s string) { out = ex.strConcat(out, ex.strC(s)) }
	for i < len(format) {
		j := strings.IndexByte(format[i:], '%')
		if j < 0 {
			lit(format[i:])
			break
		}
		lit(format[i : i+j])
		i += j
		// parse verb
		k := i + 1
		for k < len(format) && strings.IndexByte("+-# 0123456789.*", format[k]) >= 0 {
			if format[k] == '*' {
				panic(unsupported("fmt: * width"))
			}
			k++
		}
		if k >= len(format) {
			lit("%!(NOVERB)")
			break
		}
		verb := format[k]
		spec := format[i : k+1]
		flags := format[i+1 : k]
		i = k + 1
		if verb == '%' {
			lit("%")
			continue
		}
		if argi >= len(args) {
			lit("%!" + string(verb) + "(MISSING)")
			continue
		}
		arg := args[argi]
		argi++
		iv, ok := arg.(IfaceV)
		if !ok {
			ex.usePoison(arg)
		}
		if verb == 'w' {
			verb = 'v'
			spec = "%" + flags + "v"
		}
		// strings through methods
		if verb == 'v' || verb == 's' || verb == 'q' {
			if s, ok := ex.fmtArgString(fr, arg, verb); ok {
				if s.conc {
					sp := spec
					if verb == 'v' {
						sp = "%" + flags + "s"
					}
					lit(fmt.Sprintf(sp, s.s))
				} else {
					if flags != "" || verb == 'q' {
						panic(unsupported("fmt: symbolic string with flags/quote " + spec))
					}
					out = ex.strConcat(out, s)
				}
				continue
			}
		}
		if n, ok := ex.toNative(iv); ok {
			lit(fmt.Sprintf(spec, n))
			continue
		}
		// symbolic integer with %d / %v
		if t, ok := iv.v.(*Term); ok && t.S.K == KBV && (verb == 'd' || verb == 'v') && flags == "" {
			b := basicOf(iv.t)
			out = ex.strConcat(out, ex.formatSymInt(t, b == nil || isSigned(b)))
			continue
		}
		if t, ok := iv.v.(*Term); ok && t.S.K == KBool && (verb == 't' || verb == 'v') {
			if ex.Branch(t) {
				lit("true")
			} else {
				lit("false")
			}
			continue
		}
		// composite %v: slices of simple things
		if sl, ok := iv.v.(SliceV); ok && verb == 'v' {
			st, _ := iv.t.Underlying().(*types.Slice)
			lit("[")
			for x, e := range sl.a {
				if x > 0 {
					lit(" ")
				}
				var et types.Type
				if st != nil {
					et = st.Elem()
				}
				ei, isI := e.(IfaceV)
				if !isI {
					ei = IfaceV{t: et, v: e}
				}
				out = ex.strConcat(out, ex.sprintf(fr, "%v", []Value{ei}))
			}
			lit("]")
			continue
		}
		panic(unsupported(fmt.Sprintf("fmt: verb %s with argument %T of type %v", spec, iv.v, iv.t)))
	}
	if argi < len(args) {
		lit("%!(EXTRA ...)")
	}
	return out
}

func (ex *Exec) sprint(fr *frame, args []Value, ln bool) *Str {
	out := ex.emptyStr
	prevStr := true
	for i, a := range args {
		iv := a.(IfaceV)
		_, isStr := iv.v.(*Str)
		if ln && i > 0 {
			out = ex.strConcat(out, ex.strC(" "))
		} else if !ln && i > 0 && !isStr && !prevStr {
			out = ex.strConcat(out, ex.strC(" "))
		}
		out = ex.strConcat(out, ex.sprintf(fr, "%v", []Value{a}))
		prevStr = isStr
	}
	if ln {
		out = ex.strConcat(out, ex.strC("\n"))
	}
	return out
}

func (ex *Exec) writeTo(fr *frame, w Value, s *Str) {
	iv := w.(IfaceV)
	if iv.t == nil {
		ex.goPanicStr("nil io.Writer")
	}
	// fast path: *strings.Builder
	if iv.t.String() == "*strings.Builder" {
		in := intrinsics["(*strings.Builder).WriteString"]
		in(ex, fr, nil, []Value{iv.v, s})
		return
	}
	ms := ex.prog.prog.MethodSets.MethodSet(iv.t)
	for i := 0; i < ms.Len(); i++ {
		if ms.At(i).Obj().Name() == "Write" {
			f := ex.prog.prog.MethodValue(ms.At(i))
			bs := ex.strBytes(s)
			sl := make([]Value, len(bs))
			for k, b := range bs {
				sl[k] = b
			}
			ex.callFn(fr, f, []Value{iv.v, SliceV{sl}}, nil)
			return
		}
	}
	panic(unsupported("fmt.Fprintf to writer of type " + iv.t.String()))
}

func init() {
	reg("fmt.Sprintf", func(ex *Exec, fr *frame, _ *ssa.Function, a []Value) Value {
		return ex.sprintf(fr, ex.concStr(a[0], "format"), a[1].(SliceV).a)
	})
	reg("fmt.Sprint", func(ex *Exec, fr *frame, _ *ssa.Function, a []Value) Value {
		return ex.sprint(fr, a[0].(SliceV).a, false)
	})
	reg("fmt.Sprintln", func(ex *Exec, fr *frame, _ *ssa.Function, a []Value) Value {
		return ex.sprint(fr, a[0].(SliceV).a, true)
	})
	reg("fmt.Errorf", func(ex *Exec, fr *frame, _ *ssa.Function, a []Value) Value {
		format := ex.concStr(a[0], "format")
		args := a[1].(SliceV).a
		msg := ex.sprintf(fr, format, args)
		if wi := strings.Index(format, "%w"); wi >= 0 && strings.Count(format, "%w") == 1 {
			// find which arg
			n := 0
			for i := 0; i < wi; i++ {
				if format[i] == '%' {
					if i+1 < len(format) && format[i+1] == '%' {
						i++
						continue
					}
					n++
				}
			}
			if n < len(args) {
				if e, ok := args[n].(IfaceV); ok && e.t != nil && ex.methodOf(e.t, "Error") != nil {
					pk := ex.prog.byPath["fmt"]
					t := pk.Members["wrapError"].Type()
					p := new(Value)
					*p = StructV{msg, e}
					return IfaceV{t: types.NewPointer(t), v: p}
				}
			}
		}
		return ex.mkErrorStr(msg)
	})
	reg("fmt.Fprintf", func(ex *Exec, fr *frame, _ *ssa.Function, a []Value) Value {
		s := ex.sprintf(fr, ex.concStr(a[1], "format"), a[2].(SliceV).a)
		ex.writeTo(fr, a[0], s)
		return TupleV{ex.i64(s.Len()), IfaceV{}}
	})
	reg("fmt.Fprint", func(ex *Exec, fr *frame, _ *ssa.Function, a []Value) Value {
		s := ex.sprint(fr, a[1].(SliceV).a, false)
		ex.writeTo(fr, a[0], s)
		return TupleV{ex.i64(s.Len()), IfaceV{}}
	})
	reg("fmt.Fprintln", func(ex *Exec, fr *frame, _ *ssa.Function, a []Value) Value {
		s := ex.sprint(fr, a[1].(SliceV).a, true)
		ex.writeTo(fr, a[0], s)
		return TupleV{ex.i64(s.Len()), IfaceV{}}
	})
	for _, n := range []string{"fmt.Println", "fmt.Printf", "fmt.Print"} {
		reg(n, func(ex *Exec, fr *frame, _ *ssa.Function, a []Value) Value { return TupleV{ex.i64(0), IfaceV{}} })
	}

	// ---------------- math/big.Int ----------------
	// A big.Int struct {neg bool; abs nat}: slot 1 holds BigVal{Int term}; the zero value (nil slice) is 0.
	bget := func(ex *Exec, v Value) *Term {
		p, ok := v.(*Value)
		if !ok {
			ex.usePoison(v)
		}
		if p == nil {
			ex.goPanicStr("nil *big.Int")
		}
		st, ok := (*p).(StructV)
		if !ok {
			ex.usePoison(*p)
		}
		if b, ok := st[1].(BigVal); ok {
			return b.t
		}
		return ex.ts.IntConst64(0)
	}
	bset := func(ex *Exec, v Value, t *Term) Value {
		p := v.(*Value)
		if p == nil {
			ex.goPanicStr("nil *big.Int")
		}
		st := (*p).(StructV)
		st[1] = BigVal{t}
		return v
	}
	bnew := func(ex *Exec, t *Term) Value {
		p := new(Value)
		*p = StructV{ex.ts.False, BigVal{t}}
		return p
	}
	ts := func(ex *Exec) *TermStore { return ex.ts }
	reg("math/big.NewInt", func(ex *Exec, _ *frame, _ *ssa.Function, a []Value) Value {
		if sh, ok := ex.intShadow[term(a[0])]; ok {
			return bnew(ex, sh)
		}
		return bnew(ex, ts(ex).BV2Int(term(a[0]), true))
	})
	reg("(*math/big.Int).Set", func(ex *Exec, _ *frame, _ *ssa.Function, a []Value) Value {
		return bset(ex, a[0], bget(ex, a[1]))
	})
	reg("(*math/big.Int).SetInt64", func(ex *Exec, _ *frame, _ *ssa.Function, a []Value) Value {
		if sh, ok := ex.intShadow[term(a[1])]; ok {
			return bset(ex, a[0], sh)
		}
		return bset(ex, a[0], ts(ex).BV2Int(term(a[1]), true))
	})
	reg("(*math/big.Int).SetUint64", func(ex *Exec, _ *frame, _ *ssa.Function, a []Value) Value {
		return bset(ex, a[0], ts(ex).BV2Int(term(a[1]), false))
	})
	reg("(*math/big.Int).SetString", func(ex *Exec, _ *frame, _ *ssa.Function, a []Value) Value {
		s := str(a[1])
		base := int(ex.concretizeInt(a[2], "base"))
		if s.conc {
			v, ok := new(big.Int).SetString(s.s, base)
			if !ok {
				return TupleV{(*Value)(nil), ex.ts.False}
			}
			return TupleV{bset(ex, a[0], ex.ts.IntConst(v)), ex.ts.True}
		}
		if base != 10 {
			panic(unsupported("big.Int.SetString symbolic base != 10"))
		}
		t, ok := ex.parseBigDigits(s)
		if !ok {
			return TupleV{(*Value)(nil), ex.ts.False}
		}
		return TupleV{bset(ex, a[0], t), ex.ts.True}
	})
	bin := func(op Op) intrinsicFn {
		return func(ex *Exec, _ *frame, _ *ssa.Function, a []Value) Value {
			x, y := bget(ex, a[1]), bget(ex, a[2])
			if op == OpIMul && !x.IsConst() && !y.IsConst() {
				ex.used("big.Int.Mul of two symbolic values (non-linear Int term)")
			}
			return bset(ex, a[0], ex.ts.IntBin(op, x, y))
		}
	}
	reg("(*math/big.Int).Add", bin(OpIAdd))
	reg("(*math/big.Int).Sub", bin(OpISub))
	reg("(*math/big.Int).Mul", bin(OpIMul))
	reg("(*math/big.Int).Neg", func(ex *Exec, _ *frame, _ *ssa.Function, a []Value) Value {
		return bset(ex, a[0], ex.ts.INeg(bget(ex, a[1])))
	})
	iabs := func(ex *Exec, x *Term) *Term {
		if x.IsConst() {
			return ex.ts.IntConst(new(big.Int).Abs(x.BI))
		}
		return ex.ts.Ite(ex.ts.ICmp(OpILt, x, ex.ts.IntConst64(0)), ex.ts.INeg(x), x)
	}
	reg("(*math/big.Int).Abs", func(ex *Exec, _ *frame, _ *ssa.Function, a []Value) Value {
		return bset(ex, a[0], iabs(ex, bget(ex, a[1])))
	})
	icmp := func(ex *Exec, x, y *Term) *Term {
		t := ex.ts
		return t.Ite(t.ICmp(OpILt, x, y), t.BVConst(^uint64(0), 64), t.Ite(t.Eq(x, y), t.BVConst(0, 64), t.BVConst(1, 64)))
	}
	reg("(*math/big.Int).Cmp", func(ex *Exec, _ *frame, _ *ssa.Function, a []Value) Value {
		return icmp(ex, bget(ex, a[0]), bget(ex, a[1]))
	})
	reg("(*math/big.Int).CmpAbs", func(ex *Exec, _ *frame, _ *ssa.Function, a []Value) Value {
		return icmp(ex, iabs(ex, bget(ex, a[0])), iabs(ex, bget(ex, a[1])))
	})
	reg("(*math/big.Int).Sign", func(ex *Exec, _ *frame, _ *ssa.Function, a []Value) Value {
		return icmp(ex, bget(ex, a[0]), ex.ts.IntConst64(0))
	})
	reg("(*math/big.Int).IsInt64", func(ex *Exec, _ *frame, _ *ssa.Function, a []Value) Value {
		x := bget(ex, a[0])
		t := ex.ts
		lo := t.IntConst(new(big.Int).SetInt64(-1 << 63))
		hi := t.IntConst(new(big.Int).SetInt64(1<<63 - 1))
		return t.And(t.ICmp(OpILe, lo, x), t.ICmp(OpILe, x, hi))
	})
	reg("(*math/big.Int).Int64", func(ex *Exec, _ *frame, _ *ssa.Function, a []Value) Value {
		return ex.ts.Int2BV(bget(ex, a[0]), 64)
	})
	reg("(*math/big.Int).Uint64", func(ex *Exec, _ *frame, _ *ssa.Function, a []Value) Value {
		return ex.ts.Int2BV(bget(ex, a[0]), 64)
	})
	reg("(*math/big.Int).BitLen", func(ex *Exec, _ *frame, _ *ssa.Function, a []Value) Value {
		x := bget(ex, a[0])
		if !x.IsConst() {
			panic(unsupported("big.Int.BitLen symbolic"))
		}
		return ex.i64(x.BI.BitLen())
	})
	reg("(*math/big.Int).Exp", func(ex *Exec, _ *frame, _ *ssa.Function, a []Value) Value {
		x, y := bget(ex, a[1]), bget(ex, a[2])
		if p, ok := a[3].(*Value); ok && p != nil {
			panic(unsupported("big.Int.Exp with modulus"))
		}
		if !x.IsConst() || !y.IsConst() {
			panic(unsupported("big.Int.Exp symbolic"))
		}
		if y.BI.BitLen() > 20 || (y.BI.Sign() > 0 && y.BI.Int64() > int64(ex.run.cfg.MaxExp)) {
			ex.run.noteBigExp(y.BI)
			panic(pathAbort{"bigexp", "big.Int.Exp exponent " + y.BI.String() + " exceeds cost proxy bound"})
		}
		return bset(ex, a[0], ex.ts.IntConst(new(big.Int).Exp(x.BI, y.BI, nil)))
	})
	// truncated division (Quo/Rem/QuoRem) and Euclidean (Div/Mod/DivMod)
	divmod := func(ex *Exec, x, y *Term, euclid bool) (*Term, *Term) {
		t := ex.ts
		if y.IsConst() && y.BI.Sign() == 0 {
			panic(goPanic{msg: "division by zero"})
		}
		if x.IsConst() && y.IsConst() {
			q, r := new(big.Int), new(big.Int)
			if euclid {
				q.DivMod(x.BI, y.BI, r)
			} else {
				q.QuoRem(x.BI, y.BI, r)
			}
			return t.IntConst(q), t.IntConst(r)
		}
		if !y.IsConst() {
			panic(unsupported("big.Int division by symbolic divisor"))
		}
		q := ex.freshAux("q", SInt)
		r := ex.freshAux("r", SInt)
		ay := t.IntConst(new(big.Int).Abs(y.BI))
		zero := t.IntConst64(0)
		ex.assume(t.Eq(x, t.IntBin(OpIAdd, t.IntBin(OpIMul, y, q), r)), true)
		if euclid {
			ex.assume(t.And(t.ICmp(OpILe, zero, r), t.ICmp(OpILt, r, ay)), true)
		} else {
			// |r| < |y| and r has the sign of x (or is zero)
			pos := t.And(t.ICmp(OpILe, zero, x), t.And(t.ICmp(OpILe, zero, r), t.ICmp(OpILt, r, ay)))
			neg := t.And(t.ICmp(OpILt, x, zero), t.And(t.ICmp(OpILe, r, zero), t.ICmp(OpILt, t.INeg(ay), r)))
			ex.assume(t.Or(pos, neg), true)
		}
		return q, r
	}
	reg("(*math/big.Int).Quo", func(ex *Exec, _ *frame, _ *ssa.Function, a []Value) Value {
		q, _ := divmod(ex, bget(ex, a[1]), bget(ex, a[2]), false)
		return bset(ex, a[0], q)
	})
	reg("(*math/big.Int).Rem", func(ex *Exec, _ *frame, _ *ssa.Function, a []Value) Value {
		_, r := divmod(ex, bget(ex, a[1]), bget(ex, a[2]), false)
		return bset(ex, a[0], r)
	})
	reg("(*math/big.Int).QuoRem", func(ex *Exec, _ *frame, _ *ssa.Function, a []Value) Value {
		q, r := divmod(ex, bget(ex, a[1]), bget(ex, a[2]), false)
		bset(ex, a[3], r)
		return TupleV{bset(ex, a[0], q), a[3]}
	})
	reg("(*math/big.Int).Div", func(ex *Exec, _ *frame, _ *ssa.Function, a []Value) Value {
		q, _ := divmod(ex, bget(ex, a[1]), bget(ex, a[2]), true)
		return bset(ex, a[0], q)
	})
	reg("(*math/big.Int).Mod", func(ex *Exec, _ *frame, _ *ssa.Function, a []Value) Value {
		_, r := divmod(ex, bget(ex, a[1]), bget(ex, a[2]), true)
		return bset(ex, a[0], r)
	})
	reg("(*math/big.Int).DivMod", func(ex *Exec, _ *frame, _ *ssa.Function, a []Value) Value {
		q, r := divmod(ex, bget(ex, a[1]), bget(ex, a[2]), true)
		bset(ex, a[3], r)
		return TupleV{bset(ex, a[0], q), a[3]}
	})
	reg("(*math/big.Int).String", func(ex *Exec, _ *frame, _ *ssa.Function, a []Value) Value {
		if p, ok := a[0].(*Value); ok && p == nil {
			return ex.strC("<nil>")
		}
		x := bget(ex, a[0])
		if x.IsConst() {
			return ex.strC(x.BI.String())
		}
		return ex.bigString(x)
	})
	reg("(*math/big.Int).Text", func(ex *Exec, _ *frame, _ *ssa.Function, a []Value) Value {
		x := bget(ex, a[0])
		base := int(ex.concretizeInt(a[1], "base"))
		if x.IsConst() {
			return ex.strC(x.BI.Text(base))
		}
		if base != 10 {
			panic(unsupported("big.Int.Text symbolic base != 10"))
		}
		return ex.bigString(x)
	})
	reg("(*math/big.Int).Float64", func(ex *Exec, _ *frame, _ *ssa.Function, a []Value) Value {
		x := bget(ex, a[0])
		if !x.IsConst() {
			panic(unsupported("big.Int.Float64 symbolic"))
		}
		f, acc := x.BI.Float64()
		return TupleV{f, ex.ts.BVConst(uint64(int8(acc)), 8)}
	})
}

func (r *Run) noteBigExp(e *big.Int) {
	r.resMu.Lock()
	r.bigExp++
	r.resMu.Unlock()
}

// parseBigDigits: [+-]?digits+ over possibly symbolic bytes -> Int term. ok=false if syntax error.
func (ex *Exec) parseBigDigits(s *Str) (*Term, bool) {
	ts := ex.ts
	n := s.Len()
	if n == 0 {
		return nil, false
	}
	i := 0
	neg := false
	b0 := ex.strAt(s, 0)
	if ex.Branch(ts.Eq(b0, ex.byteC('-'))) {
		neg = true
		i = 1
	} else if ex.Branch(ts.Eq(b0, ex.byteC('+'))) {
		i = 1
	}
	if i >= n {
		return nil, false
	}
	acc := ts.IntConst64(0)
	ten := ts.IntConst64(10)
	for ; i < n; i++ {
		b := ex.strAt(s, i)
		isD := ts.And(ts.BVCmp(OpULe, ex.byteC('0'), b), ts.BVCmp(OpULe, b, ex.byteC('9')))
		if !ex.Branch(isD) {
			if ex.Branch(ts.Eq(b, ex.byteC('_'))) {
				panic(unsupported("big.Int.SetString with underscore"))
			}
			return nil, false
		}
		acc = ts.IntBin(OpIAdd, ts.IntBin(OpIMul, ten, acc), ex.digitInt(b))
	}
	if neg {
		acc = ts.INeg(acc)
	}
	return acc, true
}

// bigString renders a symbolic Int: by default an opaque token (see DESIGN §2.5);
// with digit witnesses when the run asks for exact rendering.
func (ex *Exec) bigString(x *Term) *Str {
	ts := ex.ts
	if !ex.run.cfg.ExactRender {
		ex.used("big.Int.String of a symbolic value -> opaque 1-byte token (content never inspected by encoded code; inspection aborts the path)")
		v := ex.freshAux("opaque", BV(8))
		ex.opaque[v] = true
		return &Str{b: []*Term{v}}
	}
	zero := ts.IntConst64(0)
	neg := false
	mag := x
	if ex.Branch(ts.ICmp(OpILt, x, zero)) {
		neg = true
		mag = ts.INeg(x)
	}
	nd := 1
	pow := big.NewInt(10)
	for nd <= ex.run.cfg.MaxDigits {
		if ex.Branch(ts.ICmp(OpILt, mag, ts.IntConst(pow))) {
			break
		}
		nd++
		pow = new(big.Int).Mul(pow, big.NewInt(10))
	}
	if nd > ex.run.cfg.MaxDigits {
		panic(unsupported("rendering symbolic Int with more than MaxDigits digits"))
	}
	sum := zero
	digits := make([]*Term, nd)
	p := big.NewInt(1)
	for i := 0; i < nd; i++ {
		d, b := ex.witnessDigit()
		digits[nd-1-i] = b
		sum = ts.IntBin(OpIAdd, sum, ts.IntBin(OpIMul, ts.IntConst(p), d))
		p = new(big.Int).Mul(p, big.NewInt(10))
	}
	if nd > 1 {
		ex.assume(ts.Not(ts.Eq(digits[0], ex.byteC('0'))), true)
	}
	ex.assume(ts.Eq(sum, mag), true)
	var bs []*Term
	if neg {
		bs = append(bs, ex.byteC('-'))
	}
	return ex.strB(append(bs, digits...))
}

// ---------- encoding/json.Unmarshal: native bridge (concrete input) ----------

func init() {
	reg("encoding/json.Unmarshal", func(ex *Exec, _ *frame, fn *ssa.Function, a []Value) Value {
		ex.used("encoding/json.Unmarshal -> native decoder on concrete bytes + reflective fill")
		raw := ex.concStr(ex.bytesToStr(a[0]), "json input")
		iv := a[1].(IfaceV)
		pt, ok := iv.t.Underlying().(*types.Pointer)
		if !ok {
			return ex.mkError("json: Unmarshal(non-pointer)")
		}
		var nat any
		dec := json.NewDecoder(strings.NewReader(raw))
		dec.UseNumber()
		if err := dec.Decode(&nat); err != nil {
			return ex.mkError(err.Error())
		}
		p := iv.v.(*Value)
		v, err := ex.jsonFill(pt.Elem(), nat, *p)
		if err != "" {
			return ex.mkError(err)
		}
		*p = v
		return IfaceV{}
	})
}

func jsonFieldName(f *types.Var, tag string) (string, bool) {
	st := reflect.StructTag(tag)
	j, ok := st.Lookup("json")
	if ok {
		name := strings.Split(j, ",")[0]
		if name == "-" {
			return "", false
		}
		if name != "" {
			return name, true
		}
	}
	return f.Name(), f.Exported()
}

func (ex *Exec) jsonFill(t types.Type, nat any, cur Value) (Value, string) {
	if nat == nil {
		return cur, ""
	}
	switch u := t.Underlying().(type) {
	case *types.Struct:
		m, ok := nat.(map[string]any)
		if !ok {
			return cur, "json: cannot unmarshal non-object into struct " + t.String()
		}
		st := cur.(StructV)
		for i := 0; i < u.NumFields(); i++ {
			f := u.Field(i)
			if f.Embedded() {
				if _, isStruct := f.Type().Underlying().(*types.Struct); isStruct {
					v, err := ex.jsonFill(f.Type(), nat, st[i])
					if err != "" {
						return cur, err
					}
					st[i] = v
					continue
				}
			}
			name, ok := jsonFieldName(f, u.Tag(i))
			if !ok {
				continue
			}
			var val any
			found := false
			for k, x := range m {
				if k == name {
					val, found = x, true
					break
				}
			}
			if !found {
				for k, x := range m {
					if strings.EqualFold(k, name) {
						val, found = x, true
						break
					}
				}
			}
			if !found {
				continue
			}
			v, err := ex.jsonFill(f.Type(), val, st[i])
			if err != "" {
				return cur, err
			}
			st[i] = v
		}
		return st, ""
	case *types.Basic:
		switch {
		case u.Info()&types.IsString != 0:
			s, ok := nat.(string)
			if !ok {
				return cur, "json: cannot unmarshal non-string into string"
			}
			return ex.strC(s), ""
		case u.Info()&types.IsBoolean != 0:
			b, ok := nat.(bool)
			if !ok {
				return cur, "json: cannot unmarshal non-bool into bool"
			}
			return ex.mkBool(b), ""
		case u.Info()&types.IsInteger != 0:
			n, ok := nat.(json.Number)
			if !ok {
				return cur, "json: cannot unmarshal non-number into integer"
			}
			w := ex.intWidth(u)
			if isSigned(u) {
				i, err := strconv.ParseInt(string(n), 10, w)
				if err != nil {
					return cur, "json: cannot unmarshal number " + string(n) + " into Go value of type " + t.String()
				}
				return ex.ts.BVConst(uint64(i), w), ""
			}
			i, err := strconv.ParseUint(string(n), 10, w)
			if err != nil {
				return cur, "json: cannot unmarshal number " + string(n) + " into Go value of type " + t.String()
			}
			return ex.ts.BVConst(i, w), ""
		case u.Info()&types.IsFloat != 0:
			n, ok := nat.(json.Number)
			if !ok {
				return cur, "json: cannot unmarshal non-number into float"
			}
			f, _ := n.Float64()
			return f, ""
		}
	case *types.Pointer:
		p := new(Value)
		*p = ex.zero(u.Elem())
		v, err := ex.jsonFill(u.Elem(), nat, *p)
		if err != "" {
			return cur, err
		}
		*p = v
		return p, ""
	case *types.Slice:
		arr, ok := nat.([]any)
		if !ok {
			return cur, "json: cannot unmarshal non-array into slice"
		}
		out := make([]Value, len(arr))
		for i, x := range arr {
			v, err := ex.jsonFill(u.Elem(), x, ex.zero(u.Elem()))
			if err != "" {
				return cur, err
			}
			out[i] = v
		}
		return SliceV{out}, ""
	case *types.Interface:
		return ex.jsonAny(nat), ""
	case *types.Map:
		m, ok := nat.(map[string]any)
		if !ok {
			return cur, "json: cannot unmarshal non-object into map"
		}
		mv := ex.newMap(u.Key(), u.Elem())
		keys := make([]string, 0, len(m))
		for k := range m {
			keys = append(keys, k)
		}
		sort.Strings(keys)
		for _, k := range keys {
			v, err := ex.jsonFill(u.Elem(), m[k], ex.zero(u.Elem()))
			if err != "" {
				return cur, err
			}
			ex.mapSet(mv, ex.strC(k), v)
		}
		return mv, ""
	}
	panic(unsupported("json.Unmarshal into " + t.String()))
}

// jsonAny converts a decoded JSON value into the Go value json.Unmarshal would store in an interface{}.
func (ex *Exec) jsonAny(nat any) Value {
	anyT := types.NewInterfaceType(nil, nil)
	switch x := nat.(type) {
	case nil:
		return IfaceV{}
	case bool:
		return IfaceV{t: types.Typ[types.Bool], v: ex.mkBool(x)}
	case string:
		return IfaceV{t: types.Typ[types.String], v: ex.strC(x)}
	case json.Number:
		f, _ := x.Float64()
		return IfaceV{t: types.Typ[types.Float64], v: f}
	case []any:
		out := make([]Value, len(x))
		for i, e := range x {
			out[i] = ex.jsonAny(e)
		}
		return IfaceV{t: types.NewSlice(anyT), v: SliceV{out}}
	case map[string]any:
		mv := ex.newMap(types.Typ[types.String], anyT)
		keys := make([]string, 0, len(x))
		for k := range x {
			keys = append(keys, k)
		}
		sort.Strings(keys)
		for _, k := range keys {
			ex.mapSet(mv, ex.strC(k), ex.jsonAny(x[k]))
		}
		return IfaceV{t: types.NewMap(types.Typ[types.String], anyT), v: mv}
	}
	panic(unsupported("jsonAny"))
}

// ---------- shopspring/decimal rendering of symbolic values ----------

func init() {
	decSym := func(ex *Exec, recv Value) bool {
		st, ok := recv.(StructV)
		if !ok || len(st) < 1 {
			return false
		}
		p, ok := st[0].(*Value)
		if !ok || p == nil {
			return false
		}
		bs, ok := (*p).(StructV)
		if !ok || len(bs) < 2 {
			return false
		}
		b, ok := bs[1].(BigVal)
		return ok && !b.t.IsConst()
	}
	opaqueOr := func(name string) intrinsicFn {
		return func(ex *Exec, fr *frame, fn *ssa.Function, a []Value) Value {
			if !decSym(ex, a[0]) || ex.run.cfg.ExactRender {
				return ex.callSSA(fr, fn, a, nil)
			}
			ex.used(name + " of a symbolic decimal -> opaque token (content never inspected by encoded code; inspection aborts the path)")
			v := ex.freshAux("opaque", BV(8))
			return &Str{b: []*Term{v}}
		}
	}
	for _, n := range []string{"String", "StringFixed", "StringFixedBank", "StringFixedCash"} {
		reg("(github.com/shopspring/decimal.Decimal)."+n, opaqueOr("decimal.Decimal."+n))
	}
}
