package main

// Path exploration by re-execution: a path is a list of decisions; workers replay a
// prefix and continue, pushing unexplored alternatives to a shared worklist.

import (
	"fmt"
	"go/types"
	"math/big"
	"math/bits"
	"os"
	"runtime/debug"
	"sort"
	"strings"
	"sync"
	"sync/atomic"
	"time"

	"golang.org/x/tools/go/ssa"
)

type dom [4]uint64

func (d *dom) has(v uint64) bool { return d[v>>6]&(1<<(v&63)) != 0 }
func (d *dom) set(v uint64)      { d[v>>6] |= 1 << (v & 63) }
func (d *dom) empty() bool       { return d[0]|d[1]|d[2]|d[3] == 0 }
func (d *dom) count() int {
	return bits.OnesCount64(d[0]) + bits.OnesCount64(d[1]) + bits.OnesCount64(d[2]) + bits.OnesCount64(d[3])
}
func (d *dom) and(o *dom) dom    { return dom{d[0] & o[0], d[1] & o[1], d[2] & o[2], d[3] & o[3]} }
func (d *dom) andNot(o *dom) dom { return dom{d[0] &^ o[0], d[1] &^ o[1], d[2] &^ o[2], d[3] &^ o[3]} }
func fullDom(w uint8) dom {
	var d dom
	n := uint64(1) << w
	if w == 0 {
		n = 2
	}
	for v := uint64(0); v < n; v++ {
		d.set(v)
	}
	return d
}

type Worker struct {
	id     int
	ts     *TermStore
	solver *Solver
	truth  map[*Term]*dom
	vars   map[*Term][]*Term
	byteCs [256]*Term
	run    *Run
}

type inputRec struct {
	name string
	t    *Term // nil for Choice
	kind string
	val  uint64 // for choices
}

type obsRec struct {
	name string
	v    Value
	t    types.Type
}

type Violation struct {
	Kind      string            `json:"kind"` // assert | panic | unwind
	Msg       string            `json:"msg"`
	Inputs    map[string]string `json:"inputs"`
	Decisions []uint64          `json:"decisions"`
	Where     string            `json:"where,omitempty"`
}

type Sample struct {
	Inputs   map[string]string `json:"inputs"`
	Observes map[string]string `json:"observes,omitempty"`
	Reached  []string          `json:"reached,omitempty"`
	Status   string            `json:"status"`
	NDec     int               `json:"decisions"`
}

type Exec struct {
	w    *Worker
	ts   *TermStore
	prog *Prog
	run  *Run

	globals  map[*ssa.Global]*Value
	initDone map[*ssa.Package]bool
	tolerant bool
	inInit   bool
	depth    int

	pc      []*Term
	domains map[*Term]*dom
	model   *Env

	prefix    []uint64
	decisions []uint64
	nSym      int // symbolic (two-sided or multi-way) decisions on this path

	steps  int
	budget int

	tasks          []*task
	mapOrderNondet bool
	inputs         []inputRec
	observes       []obsRec
	reached        []string
	assumeCuts     int
	uncertain      bool // some feasibility answer was unknown

	byteConsts *[256]*Term
	emptyStr   *Str

	funcsTouched map[*ssa.Function]map[int]bool

	vfs       *VFS
	nowUnix   int64
	onceDone  map[*Value]bool
	auxN      int
	profile   map[*ssa.Function]int
	stack     []*ssa.Function
	opaque    map[*Term]bool
	locks     map[any]int // exclusive locks currently held (per mutex object)
	pendingModelT, pendingModelF *Env
	entangled map[*Term]bool
	intShadow map[*Term]*Term
}

func (ex *Exec) touch(fn *ssa.Function) {
	if ex.funcsTouched[fn] == nil {
		ex.funcsTouched[fn] = map[int]bool{}
	}
}
func (ex *Exec) touchBlock(fn *ssa.Function, b *ssa.BasicBlock) {
	m := ex.funcsTouched[fn]
	if m == nil {
		m = map[int]bool{}
		ex.funcsTouched[fn] = m
	}
	m[b.Index] = true
}

// ---------- domains ----------

func smallVar(v *Term) bool {
	return v != nil && (v.S.K == KBool || (v.S.K == KBV && v.S.W <= 8))
}

func (ex *Exec) domainOf(v *Term) *dom {
	if d, ok := ex.domains[v]; ok {
		return d
	}
	d := fullDom(v.S.W)
	ex.domains[v] = &d
	return &d
}

// varsOf returns the variables of a term (memoised per worker).
func (w *Worker) varsOf(t *Term) []*Term {
	if t.Op == OpVar {
		return []*Term{t}
	}
	if t.NV == 0 {
		return nil
	}
	if t.NV == 1 {
		return []*Term{t.V1}
	}
	if vs, ok := w.vars[t]; ok {
		return vs
	}
	seen := map[*Term]bool{}
	var out []*Term
	for i := 0; i < int(t.N); i++ {
		for _, v := range w.varsOf(t.A[i]) {
			if !seen[v] {
				seen[v] = true
				out = append(out, v)
			}
		}
	}
	w.vars[t] = out
	return out
}

// truthSet returns the set of values of c's single small variable that make c true.
func (w *Worker) truthSet(c *Term) *dom {
	if d, ok := w.truth[c]; ok {
		return d
	}
	v := c.V1
	var d dom
	n := uint64(1) << v.S.W
	if v.S.K == KBool {
		n = 2
	}
	env := &Env{bv: map[*Term]uint64{}}
	for x := uint64(0); x < n; x++ {
		env.bv[v] = x
		r, _ := w.ts.Eval(c, env)
		if r != 0 {
			d.set(x)
		}
	}
	w.truth[c] = &d
	return &d
}

// feasible reports whether c can be true / false under the current path condition.
func (ex *Exec) feasible(c *Term) (canT, canF bool) {
	if c.NV == 1 && smallVar(c.V1) && c.sz < 4000 {
		d := ex.domainOf(c.V1)
		t := ex.w.truthSet(c)
		a := d.and(t)
		b := d.andNot(t)
		// The domain is exact only for variables that occur in no multi-variable literal of
		// the path condition; otherwise "infeasible" is still sound but "feasible" is not.
		if a.empty() || b.empty() || !ex.entangled[c.V1] {
			return !a.empty(), !b.empty()
		}
	}
	// use cached model for one side
	known := -1
	if ex.model != nil {
		if ex.evalBool(c, ex.model) {
			known = 1
		} else {
			known = 0
		}
	}
	vars := ex.inputTerms()
	if known != 1 {
		r, env := ex.w.solver.CheckModel(ex.pc, c, vars)
		switch r {
		case Sat:
			canT = true
			if known == -1 {
				ex.pendingModelT = env
			}
		case Unknown:
			canT = true
			ex.uncertain = true
			ex.run.unknownFeas.Add(1)
		}
	} else {
		canT = true
	}
	if known != 0 {
		if !canT {
			// PC is satisfiable (invariant), so ¬c must be feasible
			canF = true
		} else {
			r, env := ex.w.solver.CheckModel(ex.pc, ex.ts.Not(c), vars)
			switch r {
			case Sat:
				canF = true
				ex.pendingModelF = env
			case Unknown:
				canF = true
				ex.uncertain = true
				ex.run.unknownFeas.Add(1)
			}
		}
	} else {
		canF = true
	}
	return
}

func (ex *Exec) evalBool(c *Term, env *Env) bool {
	r, _ := ex.ts.Eval(c, env)
	return r != 0
}

func (ex *Exec) inputTerms() []*Term {
	var vs []*Term
	for _, in := range ex.inputs {
		if in.t != nil {
			vs = append(vs, in.t)
		}
	}
	return vs
}

// assume adds literal (c == val) to the path condition.
func (ex *Exec) assume(c *Term, val bool) {
	lit := c
	if !val {
		lit = ex.ts.Not(c)
	}
	if lit.IsConst() {
		if lit.C == 0 {
			panic(pathAbort{"infeasible", "assumed false"})
		}
		return
	}
	// split conjunctions so that single-variable conjuncts narrow the byte domains
	if lit.Op == OpAnd {
		ex.assume(lit.A[0], true)
		ex.assume(lit.A[1], true)
		return
	}
	if lit.Op == OpNot && lit.A[0].Op == OpOr {
		ex.assume(lit.A[0].A[0], false)
		ex.assume(lit.A[0].A[1], false)
		return
	}
	if lit.Op == OpNot {
		c, val = lit.A[0], false
	} else {
		c, val = lit, true
	}
	if c.NV == 1 && smallVar(c.V1) && c.sz < 4000 {
		d := ex.domainOf(c.V1)
		t := ex.w.truthSet(c)
		var nd dom
		if val {
			nd = d.and(t)
		} else {
			nd = d.andNot(t)
		}
		if nd == *d {
			return // implied
		}
		ex.domains[c.V1] = &nd
	}
	ex.pc = append(ex.pc, lit)
	if lit.NV >= 2 {
		for _, v := range ex.w.varsOf(lit) {
			ex.entangled[v] = true
		}
	}
	if ex.model != nil && !ex.evalBool(lit, ex.model) {
		ex.model = nil
	}
}

// Branch decides a symbolic condition, forking if both sides are feasible.
func (ex *Exec) Branch(c *Term) bool {
	if c.IsConst() {
		return c.C != 0
	}
	if c.S.K != KBool {
		panic("Branch on non-bool")
	}
	if c.Opq {
		panic(unsupported("control flow depends on an opaque rendered value"))
	}
	i := len(ex.decisions)
	if i < len(ex.prefix) {
		out := ex.prefix[i]
		ex.decisions = append(ex.decisions, out)
		if out >= 2 { // forced markers: 2 = forced false, 3 = forced true
			return out == 3
		}
		ex.nSym++
		ex.assume(c, out == 1)
		return out == 1
	}
	ex.pendingModelT, ex.pendingModelF = nil, nil
	canT, canF := ex.feasible(c)
	switch {
	case canT && canF:
		ex.nSym++
		alt := make([]uint64, i+1)
		copy(alt, ex.decisions)
		alt[i] = 0
		ex.run.push(alt)
		ex.decisions = append(ex.decisions, 1)
		ex.assume(c, true)
		if ex.model == nil && ex.pendingModelT != nil {
			ex.model = ex.pendingModelT
		}
		return true
	case canT:
		ex.decisions = append(ex.decisions, 3)
		return true
	case canF:
		ex.decisions = append(ex.decisions, 2)
		return false
	}
	panic(pathAbort{"infeasible", "both sides infeasible"})
}

// Concretize forks over the feasible values of t (bounded) and returns one.
func (ex *Exec) Concretize(t *Term, what string) uint64 {
	if t.IsConst() {
		return t.C
	}
	if t.Opq {
		panic(unsupported("case split on an opaque rendered value"))
	}
	i := len(ex.decisions)
	if i < len(ex.prefix) {
		v := ex.prefix[i] - 4
		ex.decisions = append(ex.decisions, ex.prefix[i])
		ex.nSym++
		ex.assume(ex.ts.Eq(t, ex.ts.BVConst(v, int(t.S.W))), true)
		return v
	}
	vals := ex.feasibleValues(t, ex.run.cfg.MaxSplit, what)
	if len(vals) == 0 {
		panic(pathAbort{"infeasible", "no feasible value for " + what})
	}
	for _, v := range vals[1:] {
		alt := make([]uint64, i+1)
		copy(alt, ex.decisions)
		alt[i] = v + 4
		ex.run.push(alt)
	}
	ex.decisions = append(ex.decisions, vals[0]+4)
	if len(vals) > 1 {
		ex.nSym++
	}
	ex.assume(ex.ts.Eq(t, ex.ts.BVConst(vals[0], int(t.S.W))), true)
	return vals[0]
}

func (ex *Exec) feasibleValues(t *Term, limit int, what string) []uint64 {
	if t.NV == 1 && smallVar(t.V1) && t.S.K == KBV {
		d := ex.domainOf(t.V1)
		seen := map[uint64]bool{}
		var vals []uint64
		env := &Env{bv: map[*Term]uint64{}}
		n := uint64(1) << t.V1.S.W
		if t.V1.S.K == KBool {
			n = 2
		}
		for x := uint64(0); x < n; x++ {
			if !d.has(x) {
				continue
			}
			env.bv[t.V1] = x
			r, _ := ex.ts.Eval(t, env)
			if !seen[r] {
				seen[r] = true
				vals = append(vals, r)
			}
		}
		if len(vals) > limit {
			panic(unsupported(fmt.Sprintf("case split on %s has %d values (> %d)", what, len(vals), limit)))
		}
		return vals
	}
	var vals []uint64
	cond := ex.ts.True
	for {
		r, env := ex.w.solver.CheckModel(ex.pc, cond, ex.inputTerms())
		if r == Unknown {
			ex.uncertain = true
			panic(unsupported("solver unknown while enumerating values of " + what))
		}
		if r == Unsat {
			break
		}
		v, _ := ex.ts.Eval(t, env)
		vals = append(vals, v)
		if len(vals) > limit {
			panic(unsupported(fmt.Sprintf("case split on %s exceeds %d values", what, limit)))
		}
		cond = ex.ts.And(cond, ex.ts.Not(ex.ts.Eq(t, ex.ts.BVConst(v, int(t.S.W)))))
	}
	sort.Slice(vals, func(i, j int) bool { return vals[i] < vals[j] })
	return vals
}

// Choice is an unconstrained n-way fork.
func (ex *Exec) Choice(name string, n int) int {
	if n <= 0 {
		panic(pathAbort{"infeasible", "Choice with n<=0"})
	}
	i := len(ex.decisions)
	var v uint64
	if i < len(ex.prefix) {
		v = ex.prefix[i] - 4
		ex.decisions = append(ex.decisions, ex.prefix[i])
	} else {
		for k := n - 1; k >= 1; k-- {
			alt := make([]uint64, i+1)
			copy(alt, ex.decisions)
			alt[i] = uint64(k) + 4
			ex.run.push(alt)
		}
		ex.decisions = append(ex.decisions, 4)
		v = 0
	}
	if n > 1 {
		ex.nSym++
	}
	ex.inputs = append(ex.inputs, inputRec{name: name, kind: "choice", val: v})
	return int(v)
}

// permute forks over all orders of entries (used in map-order-nondeterministic mode).
func (ex *Exec) permute(ents []*mapEntry) []*mapEntry {
	n := len(ents)
	if n > ex.run.cfg.MaxPermute {
		return ents
	}
	rest := append([]*mapEntry(nil), ents...)
	var out []*mapEntry
	for len(rest) > 1 {
		k := ex.Choice(fmt.Sprintf("maporder#%d", len(ex.decisions)), len(rest))
		out = append(out, rest[k])
		rest = append(rest[:k:k], rest[k+1:]...)
	}
	return append(out, rest...)
}

// ---------- run / worklist ----------

type Config struct {
	Harness   string
	Workers   int
	Budget    int
	MaxPaths  int
	MaxSplit  int
	MaxPermute int
	TimeoutMs int
	Samples   int
	Seed      int64
	Solver    string
	MaxViol   int
	Deadline  time.Time
	SmtLog    string
	Replay    []uint64
	Verbose   bool
	MaxExp    int
	ExactRender bool
	MaxDigits int
	Known     map[string]bool
}

type Run struct {
	cfg  Config
	prog *Prog
	fn   *ssa.Function

	mu       sync.Mutex
	cond     *sync.Cond
	work     [][]uint64
	active   int
	stopped  bool

	paths       atomic.Int64
	nontrivial  atomic.Int64
	decisionsN  atomic.Int64
	unknownFeas atomic.Int64
	stepsTotal  atomic.Int64
	profiled    atomic.Bool

	resMu        sync.Mutex
	status       map[string]int
	violations   []Violation
	violCount    map[string]int
	samples      []Sample
	reachCount   map[string]int
	unsupported  map[string]int
	budgetMsgs   map[string]int
	assertsProved atomic.Int64
	assertsTotal  atomic.Int64
	assumeCuts    atomic.Int64
	funcs        map[*ssa.Function]map[int]bool
	stubMu       sync.Mutex
	stubs        map[string]int
	bigExp       int
	engineErrors []string
	truncated    bool
	solverStats  struct {
		queries, sat, unsat, unknown, errors int
		time                                 time.Duration
	}
}

func (r *Run) push(p []uint64) {
	r.mu.Lock()
	r.work = append(r.work, p)
	r.mu.Unlock()
	r.cond.Signal()
}

func (r *Run) pop() ([]uint64, bool) {
	r.mu.Lock()
	defer r.mu.Unlock()
	for {
		if r.stopped {
			return nil, false
		}
		if n := len(r.work); n > 0 {
			p := r.work[n-1]
			r.work = r.work[:n-1]
			r.active++
			return p, true
		}
		if r.active == 0 {
			r.stopped = true
			r.cond.Broadcast()
			return nil, false
		}
		r.cond.Wait()
	}
}

func (r *Run) done() {
	r.mu.Lock()
	r.active--
	if r.active == 0 && len(r.work) == 0 {
		r.stopped = true
		r.cond.Broadcast()
	}
	r.mu.Unlock()
}

func (r *Run) stop(trunc bool) {
	r.mu.Lock()
	r.stopped = true
	if trunc && len(r.work) > 0 {
		r.truncated = true
	}
	r.cond.Broadcast()
	r.mu.Unlock()
}

func NewRun(prog *Prog, fn *ssa.Function, cfg Config) *Run {
	r := &Run{cfg: cfg, prog: prog, fn: fn, status: map[string]int{}, violCount: map[string]int{},
		reachCount: map[string]int{}, unsupported: map[string]int{}, budgetMsgs: map[string]int{}, funcs: map[*ssa.Function]map[int]bool{}}
	r.cond = sync.NewCond(&r.mu)
	return r
}

func (r *Run) Explore() {
	if r.cfg.Replay != nil {
		r.work = [][]uint64{r.cfg.Replay}
	} else {
		r.work = [][]uint64{{}}
	}
	var wg sync.WaitGroup
	for i := 0; i < r.cfg.Workers; i++ {
		wg.Add(1)
		go func(id int) {
			defer wg.Done()
			w := r.newWorker(id)
			defer w.solver.Close()
			for {
				p, ok := r.pop()
				if !ok {
					break
				}
				w.runPath(p)
				r.done()
				if n := r.paths.Load(); r.cfg.MaxPaths > 0 && n >= int64(r.cfg.MaxPaths) {
					r.stop(true)
				}
				if !r.cfg.Deadline.IsZero() && time.Now().After(r.cfg.Deadline) {
					r.stop(true)
				}
				if r.cfg.Replay != nil {
					r.stop(false)
				}
			}
			r.resMu.Lock()
			s := w.solver
			r.solverStats.queries += s.Queries
			r.solverStats.sat += s.NSat
			r.solverStats.unsat += s.NUnsat
			r.solverStats.unknown += s.NUnknown
			r.solverStats.errors += s.Errors
			r.solverStats.time += s.Time
			r.resMu.Unlock()
		}(i)
	}
	wg.Wait()
}

func (r *Run) newWorker(id int) *Worker {
	ts := NewTermStore()
	var logw *os.File
	if r.cfg.SmtLog != "" {
		logw, _ = os.Create(fmt.Sprintf("%s.%d.smt2", r.cfg.SmtLog, id))
	}
	var s *Solver
	var err error
	if logw != nil {
		s, err = NewSolver(r.cfg.Solver, r.cfg.TimeoutMs, logw)
	} else {
		s, err = NewSolver(r.cfg.Solver, r.cfg.TimeoutMs, nil)
	}
	if err != nil {
		panic(err)
	}
	w := &Worker{id: id, ts: ts, solver: s, truth: map[*Term]*dom{}, vars: map[*Term][]*Term{}, run: r}
	for i := 0; i < 256; i++ {
		w.byteCs[i] = ts.BVConst(uint64(i), 8)
	}
	return w
}

func (w *Worker) newExec(prefix []uint64) *Exec {
	ex := &Exec{w: w, ts: w.ts, prog: w.run.prog, run: w.run,
		globals: map[*ssa.Global]*Value{}, initDone: map[*ssa.Package]bool{},
		domains: map[*Term]*dom{}, prefix: prefix, budget: w.run.cfg.Budget,
		byteConsts: &w.byteCs, emptyStr: &Str{conc: true}, funcsTouched: map[*ssa.Function]map[int]bool{},
		nowUnix: 1700000000, opaque: map[*Term]bool{}, entangled: map[*Term]bool{}, intShadow: map[*Term]*Term{}}
	ex.vfs = newVFS()
	return ex
}

func (w *Worker) runPath(prefix []uint64) {
	r := w.run
	ex := w.newExec(prefix)
	if r.cfg.Verbose {
		ex.profile = map[*ssa.Function]int{}
		defer func() {
			if ex.steps < 50000 || !r.profiled.CompareAndSwap(false, true) {
				return
			}
			type kv struct {
				f *ssa.Function
				n int
			}
			var l []kv
			for f, n := range ex.profile {
				l = append(l, kv{f, n})
			}
			sort.Slice(l, func(i, j int) bool { return l[i].n > l[j].n })
			for i := 0; i < len(l) && i < 25; i++ {
				fmt.Fprintf(os.Stderr, "  profile %8d %s\n", l[i].n, l[i].f)
			}
		}()
	}
	status := "ok"
	var msg string
	func() {
		defer func() {
			if e := recover(); e != nil {
				where := ""
				for i := len(ex.stack) - 1; i >= 0 && i >= len(ex.stack)-6; i-- {
					where += " < " + ex.stack[i].String()
				}
				defer func() {
					if status == "unsupported" || status == "engine-error" {
						msg += " @" + where
					}
				}()
				switch e := e.(type) {
				case pathAbort:
					status = e.kind
					msg = e.msg
				case goPanic:
					status = "panic"
					msg = e.msg
				default:
					status = "engine-error"
					msg = fmt.Sprintf("%v", e)
					if r.cfg.Verbose {
						fmt.Fprintf(os.Stderr, "%v\n%s\n", e, debug.Stack())
					}
				}
			}
		}()
		ex.callFn(nil, r.fn, nil, nil)
	}()
	r.paths.Add(1)
	if ex.nSym > 0 {
		r.nontrivial.Add(1)
	}
	r.decisionsN.Add(int64(ex.nSym))
	r.stepsTotal.Add(int64(ex.steps))
	r.assumeCuts.Add(int64(ex.assumeCuts))

	if status == "panic" {
		// a reachable panic of the interpreted program: report with a model
		ex.reportViolation("panic", msg)
	}
	if status == "budget" {
		ex.reportViolation("unwind", msg)
	}
	if status == "bigexp" {
		ex.reportViolation("cost", msg)
	}
	r.resMu.Lock()
	r.status[status]++
	switch status {
	case "unsupported":
		r.unsupported[msg]++
	case "budget":
		r.budgetMsgs[msg]++
	case "engine-error":
		if len(r.engineErrors) < 5 {
			r.engineErrors = append(r.engineErrors, msg)
		}
	}
	for _, l := range ex.reached {
		r.reachCount[l]++
	}
	if status == "ok" || status == "panic" {
		for fn, blks := range ex.funcsTouched {
			m := r.funcs[fn]
			if m == nil {
				m = map[int]bool{}
				r.funcs[fn] = m
			}
			for b := range blks {
				m[b] = true
			}
		}
	}
	wantSample := status == "ok" && len(r.samples) < r.cfg.Samples
	r.resMu.Unlock()
	if wantSample {
		if s, ok := ex.makeSample(status); ok {
			r.resMu.Lock()
			if len(r.samples) < r.cfg.Samples {
				r.samples = append(r.samples, s)
			}
			r.resMu.Unlock()
		}
	}
	if r.cfg.Verbose {
		fmt.Fprintf(os.Stderr, "[w%d] path %d: %s %s (steps %d, decisions %d, pc %d)\n", w.id, r.paths.Load(), status, firstLine(msg), ex.steps, len(ex.decisions), len(ex.pc))
	}
}

func firstLine(s string) string {
	if i := strings.IndexByte(s, '\n'); i >= 0 {
		return s[:i]
	}
	return s
}

// getModel returns a model of the current path condition (plus extra).
func (ex *Exec) getModel(extra *Term) (Result, *Env) {
	if extra == nil && ex.model != nil {
		return Sat, ex.model
	}
	return ex.w.solver.CheckModel(ex.pc, extra, ex.inputTerms())
}

func (ex *Exec) inputsUnder(env *Env) map[string]string {
	m := map[string]string{}
	for _, in := range ex.inputs {
		if in.t == nil {
			m[in.name] = fmt.Sprint(in.val)
			continue
		}
		if in.t.S.K == KInt {
			v := env.big[in.t]
			if v == nil {
				v = new(big.Int)
			}
			m[in.name] = v.String()
		} else {
			m[in.name] = fmt.Sprint(env.bv[in.t])
		}
	}
	return m
}

func (ex *Exec) reportViolation(kind, msg string) {
	r := ex.run
	res, env := ex.getModel(nil)
	if res == Unsat {
		return // path was only kept because of an unknown answer
	}
	if res == Unknown {
		r.resMu.Lock()
		r.status["violation-unknown"]++
		r.resMu.Unlock()
		return
	}
	ex.recordViolation(kind, msg, env)
}

func (ex *Exec) recordViolation(kind, msg string, env *Env) {
	r := ex.run
	r.resMu.Lock()
	defer r.resMu.Unlock()
	key := kind + ":" + firstLine(msg)
	r.violCount[key]++
	if r.violCount[key] > r.cfg.MaxViol {
		return
	}
	r.violations = append(r.violations, Violation{Kind: kind, Msg: firstLine(msg), Inputs: ex.inputsUnder(env),
		Decisions: append([]uint64(nil), ex.decisions...)})
}

// Assert discharges cond under the path condition with the solver.
func (ex *Exec) Assert(cond *Term, msg string) {
	r := ex.run
	r.assertsTotal.Add(1)
	if cond.IsConst() {
		if cond.C != 0 {
			r.assertsProved.Add(1)
			return
		}
		res, env := ex.getModel(nil)
		if res == Sat {
			ex.recordViolation("assert", msg, env)
		} else if res == Unsat {
			if ex.uncertain {
				panic(pathAbort{"infeasible", "path kept after an unknown feasibility answer turned out infeasible"})
			}
			// must not happen: the executor only follows feasible branches
			panic(pathAbort{"engine-error", "reached an assertion on an infeasible path (path condition unsat)"})
		} else if res == Unknown {
			r.resMu.Lock()
			r.status["assert-unknown"]++
			r.resMu.Unlock()
		}
		panic(pathAbort{"assert-failed", msg})
	}
	if cond.Opq {
		panic(unsupported("assertion depends on an opaque rendered value"))
	}
	neg := ex.ts.Not(cond)
	var res Result
	var env *Env
	if neg.NV == 1 && smallVar(neg.V1) && neg.sz < 4000 {
		// still discharged by the solver (design: assertions always go to the solver)
		res, env = ex.w.solver.CheckModel(ex.pc, neg, ex.inputTerms())
	} else {
		res, env = ex.w.solver.CheckModel(ex.pc, neg, ex.inputTerms())
	}
	switch res {
	case Unsat:
		r.assertsProved.Add(1)
		return
	case Sat:
		ex.recordViolation("assert", msg, env)
	case Unknown:
		r.resMu.Lock()
		r.status["assert-unknown"]++
		r.resMu.Unlock()
	}
	// continue on the side where the assertion holds, if any
	canT, _ := ex.feasible(cond)
	if !canT {
		panic(pathAbort{"assert-failed", msg})
	}
	ex.assume(cond, true)
}

func (ex *Exec) Assume(cond *Term) {
	if cond.IsConst() {
		if cond.C == 0 {
			ex.assumeCuts++
			panic(pathAbort{"assume", ""})
		}
		return
	}
	// Assume is a branch whose false side is cut.
	if !ex.Branch(cond) {
		ex.assumeCuts++
		panic(pathAbort{"assume", ""})
	}
}

func (ex *Exec) makeSample(status string) (Sample, bool) {
	res, env := ex.getModel(nil)
	if res != Sat {
		return Sample{}, false
	}
	s := Sample{Inputs: ex.inputsUnder(env), Status: status, NDec: ex.nSym, Reached: ex.reached}
	if len(ex.observes) > 0 {
		s.Observes = map[string]string{}
		for _, o := range ex.observes {
			s.Observes[o.name] = ex.renderTyped(o.t, o.v, env)
		}
	}
	return s, true
}

// renderUnder renders a value as text with symbolic parts evaluated under env.
func (ex *Exec) renderUnder(v Value, env *Env) string {
	switch v := v.(type) {
	case *Term:
		if v.S.K == KInt {
			_, b := ex.ts.Eval(v, env)
			return b.String()
		}
		u, _ := ex.ts.Eval(v, env)
		if v.S.K == KBool {
			if u != 0 {
				return "true"
			}
			return "false"
		}
		return fmt.Sprint(u)
	case *Str:
		bs := make([]byte, v.Len())
		for i := range bs {
			u, _ := ex.ts.Eval(ex.strAt(v, i), env)
			bs[i] = byte(u)
		}
		return fmt.Sprintf("%q", string(bs))
	case IfaceV:
		if v.t == nil {
			return "nil"
		}
		return ex.renderUnder(v.v, env)
	case SliceV:
		var sb strings.Builder
		sb.WriteString("[")
		for i, e := range v.a {
			if i > 0 {
				sb.WriteString(" ")
			}
			sb.WriteString(ex.renderUnder(e, env))
		}
		sb.WriteString("]")
		return sb.String()
	case StructV:
		var sb strings.Builder
		sb.WriteString("{")
		for i, e := range v {
			if i > 0 {
				sb.WriteString(" ")
			}
			sb.WriteString(ex.renderUnder(e, env))
		}
		sb.WriteString("}")
		return sb.String()
	case float64:
		return fmt.Sprint(v)
	}
	return fmt.Sprintf("<%T>", v)
}
