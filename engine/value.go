package main

import (
	"fmt"
	"go/types"
	"strings"

	"golang.org/x/tools/go/ssa"
)

// Value is one of:
//   *Term      bool and all integer kinds (Bool / BitVec sorts)
//   float64    floating point (concrete only)
//   *Str       string (concrete length; bytes concrete or symbolic)
//   *Value     pointer (Go pointer to a slot)
//   StructV, ArrayV, SliceV, *MapV, IfaceV, *FuncV, TupleV, *IterV
//   BigVal     payload of a math/big.Int (SMT Int term), lives in slot 1 of the big.Int struct
//   *Poison    value that could not be computed (tolerant init)
//   NativeV    opaque native Go object (regexp, time.Time...)
type Value = any

type StructV []Value
type ArrayV []Value
type TupleV []Value
type SliceV struct{ a []Value }

type IfaceV struct {
	t types.Type
	v Value
}

type FuncV struct {
	fn      *ssa.Function
	env     []Value
	builtin *ssa.Builtin
	native  func(ex *Exec, args []Value) Value
}

type BigVal struct{ t *Term }

type NativeV struct{ v any }

type Poison struct{ why string }

type Str struct {
	conc bool
	s    string  // valid if conc
	b    []*Term // valid if !conc (BV8 terms)
}

type mapEntry struct {
	k, v    Value
	deleted bool
}

type MapV struct {
	kt, vt  types.Type
	entries []*mapEntry
	index   map[string]int // concrete-key index
	n       int
	symKeys bool
}

type IterV struct {
	m    *MapV
	ents []*mapEntry
	s    *Str
	i    int
}

// ---------- strings ----------

func (ex *Exec) strC(s string) *Str { return &Str{conc: true, s: s} }

func (ex *Exec) strB(b []*Term) *Str {
	for _, t := range b {
		if !t.IsConst() {
			return &Str{b: b}
		}
	}
	bs := make([]byte, len(b))
	for i, t := range b {
		bs[i] = byte(t.C)
	}
	return &Str{conc: true, s: string(bs)}
}

func (s *Str) Len() int {
	if s.conc {
		return len(s.s)
	}
	return len(s.b)
}

func (ex *Exec) byteC(b byte) *Term { return ex.byteConsts[b] }

func (ex *Exec) strAt(s *Str, i int) *Term {
	if s.conc {
		return ex.byteConsts[s.s[i]]
	}
	return s.b[i]
}

func (ex *Exec) strBytes(s *Str) []*Term {
	if !s.conc {
		return s.b
	}
	r := make([]*Term, len(s.s))
	for i := 0; i < len(s.s); i++ {
		r[i] = ex.byteConsts[s.s[i]]
	}
	return r
}

func (ex *Exec) strSlice(s *Str, i, j int) *Str {
	if s.conc {
		return &Str{conc: true, s: s.s[i:j]}
	}
	return ex.strB(s.b[i:j])
}

func (ex *Exec) strConcat(a, b *Str) *Str {
	if a.conc && b.conc {
		return &Str{conc: true, s: a.s + b.s}
	}
	if a.Len() == 0 {
		return b
	}
	if b.Len() == 0 {
		return a
	}
	r := make([]*Term, 0, a.Len()+b.Len())
	r = append(r, ex.strBytes(a)...)
	r = append(r, ex.strBytes(b)...)
	return &Str{b: r}
}

// strEq returns the Bool term for a == b.
func (ex *Exec) strEq(a, b *Str) *Term {
	if a.Len() != b.Len() {
		return ex.ts.False
	}
	if a.conc && b.conc {
		return ex.ts.Bool(a.s == b.s)
	}
	r := ex.ts.True
	for i := 0; i < a.Len(); i++ {
		r = ex.ts.And(r, ex.ts.Eq(ex.strAt(a, i), ex.strAt(b, i)))
		if r == ex.ts.False {
			return r
		}
	}
	return r
}

// strLess returns the Bool term for a < b (bytewise lexicographic).
func (ex *Exec) strLess(a, b *Str) *Term {
	if a.conc && b.conc {
		return ex.ts.Bool(a.s < b.s)
	}
	n := a.Len()
	if b.Len() < n {
		n = b.Len()
	}
	// from the end: res = (len(a) < len(b)) at position n
	res := ex.ts.Bool(a.Len() < b.Len())
	for i := n - 1; i >= 0; i-- {
		x, y := ex.strAt(a, i), ex.strAt(b, i)
		res = ex.ts.Ite(ex.ts.BVCmp(OpULt, x, y), ex.ts.True, ex.ts.Ite(ex.ts.Eq(x, y), res, ex.ts.False))
	}
	return res
}

func (s *Str) String() string {
	if s.conc {
		return fmt.Sprintf("%q", s.s)
	}
	var sb strings.Builder
	sb.WriteString("sym\"")
	for _, t := range s.b {
		if t.IsConst() {
			c := byte(t.C)
			if c >= 0x20 && c < 0x7f {
				sb.WriteByte(c)
			} else {
				fmt.Fprintf(&sb, "\\x%02x", c)
			}
		} else {
			sb.WriteString("?")
		}
	}
	sb.WriteString("\"")
	return sb.String()
}

// ---------- zero values, copying ----------

func (ex *Exec) zero(t types.Type) Value {
	switch t := t.(type) {
	case *types.Basic:
		switch {
		case t.Kind() == types.UntypedNil:
			panic("untyped nil has no zero value")
		case t.Info()&types.IsBoolean != 0:
			return ex.ts.False
		case t.Info()&types.IsInteger != 0:
			return ex.ts.BVConst(0, ex.intWidth(t))
		case t.Info()&types.IsFloat != 0:
			return float64(0)
		case t.Info()&types.IsString != 0:
			return ex.emptyStr
		case t.Kind() == types.UnsafePointer:
			return (*Value)(nil)
		case t.Info()&types.IsComplex != 0:
			return &Poison{"complex"}
		}
	case *types.Pointer:
		return (*Value)(nil)
	case *types.Array:
		a := make(ArrayV, t.Len())
		for i := range a {
			a[i] = ex.zero(t.Elem())
		}
		return a
	case *types.Named:
		return ex.zero(t.Underlying())
	case *types.Alias:
		return ex.zero(types.Unalias(t))
	case *types.Interface:
		return IfaceV{}
	case *types.Slice:
		return SliceV{}
	case *types.Struct:
		s := make(StructV, t.NumFields())
		for i := range s {
			s[i] = ex.zero(t.Field(i).Type())
		}
		return s
	case *types.Tuple:
		if t.Len() == 1 {
			return ex.zero(t.At(0).Type())
		}
		s := make(TupleV, t.Len())
		for i := range s {
			s[i] = ex.zero(t.At(i).Type())
		}
		return s
	case *types.Chan:
		return &Poison{"chan"}
	case *types.Map:
		return (*MapV)(nil)
	case *types.Signature:
		return (*FuncV)(nil)
	case *types.TypeParam:
		panic("zero of type param")
	}
	panic(fmt.Sprintf("zero: unexpected type %T %v", t, t))
}

func (ex *Exec) intWidth(t *types.Basic) int {
	switch t.Kind() {
	case types.Int8, types.Uint8:
		return 8
	case types.Int16, types.Uint16:
		return 16
	case types.Int32, types.Uint32:
		return 32
	case types.Int, types.Uint, types.Int64, types.Uint64, types.Uintptr, types.UntypedInt, types.UntypedRune:
		return 64
	}
	if t.Kind() == types.UntypedRune {
		return 32
	}
	panic("intWidth: " + t.String())
}

func isSigned(t *types.Basic) bool {
	return t.Info()&types.IsUnsigned == 0
}

// copyVal returns a copy of a value that has value semantics (struct, array).
func copyVal(v Value) Value {
	switch v := v.(type) {
	case StructV:
		a := make(StructV, len(v))
		for i := range v {
			a[i] = copyVal(v[i])
		}
		return a
	case ArrayV:
		a := make(ArrayV, len(v))
		for i := range v {
			a[i] = copyVal(v[i])
		}
		return a
	}
	return v
}

// ---------- maps ----------

// keyString returns a canonical string for a fully concrete key, or ok=false.
func (ex *Exec) keyString(k Value) (string, bool) {
	switch k := k.(type) {
	case *Term:
		if !k.IsConst() {
			return "", false
		}
		return fmt.Sprintf("i%d", k.C), true
	case *Str:
		if !k.conc {
			return "", false
		}
		return "s" + k.s, true
	case float64:
		return fmt.Sprintf("f%v", k), true
	case *Value:
		return fmt.Sprintf("p%p", k), true
	case IfaceV:
		if k.t == nil {
			return "n", true
		}
		s, ok := ex.keyString(k.v)
		return "I" + k.t.String() + "|" + s, ok
	case StructV:
		var sb strings.Builder
		sb.WriteString("{")
		for _, f := range k {
			s, ok := ex.keyString(f)
			if !ok {
				return "", false
			}
			fmt.Fprintf(&sb, "%d:%s,", len(s), s)
		}
		return sb.String(), true
	case ArrayV:
		var sb strings.Builder
		sb.WriteString("[")
		for _, f := range k {
			s, ok := ex.keyString(f)
			if !ok {
				return "", false
			}
			fmt.Fprintf(&sb, "%d:%s,", len(s), s)
		}
		return sb.String(), true
	case *MapV, *FuncV:
		return fmt.Sprintf("p%p", k), true
	}
	panic(unsupported(fmt.Sprintf("map key of kind %T", k)))
}

func (ex *Exec) newMap(kt, vt types.Type) *MapV {
	return &MapV{kt: kt, vt: vt, index: map[string]int{}}
}

// mapFind returns the entry for key k (forking on symbolic key equality).
func (ex *Exec) mapFind(m *MapV, k Value) *mapEntry {
	if m == nil {
		return nil
	}
	ks, conc := ex.keyString(k)
	if conc && !m.symKeys {
		if i, ok := m.index[ks]; ok {
			return m.entries[i]
		}
		return nil
	}
	// linear scan with symbolic equality
	for _, e := range m.entries {
		if e.deleted {
			continue
		}
		eq := ex.equals(m.kt, e.k, k)
		if ex.Branch(eq) {
			return e
		}
	}
	return nil
}

func (ex *Exec) mapSet(m *MapV, k, v Value) {
	if m == nil {
		ex.goPanicStr("assignment to entry in nil map")
	}
	if e := ex.mapFind(m, k); e != nil {
		e.v = v
		return
	}
	ks, conc := ex.keyString(k)
	e := &mapEntry{k: k, v: v}
	m.entries = append(m.entries, e)
	m.n++
	if conc {
		m.index[ks] = len(m.entries) - 1
	} else {
		m.symKeys = true
	}
}

func (ex *Exec) mapDelete(m *MapV, k Value) {
	if m == nil {
		return
	}
	e := ex.mapFind(m, k)
	if e == nil {
		return
	}
	e.deleted = true
	m.n--
	if ks, conc := ex.keyString(e.k); conc {
		delete(m.index, ks)
	}
	// compact occasionally
	if len(m.entries) > 32 && m.n*2 < len(m.entries) {
		var ne []*mapEntry
		for _, x := range m.entries {
			if !x.deleted {
				ne = append(ne, x)
			}
		}
		m.entries = ne
		m.index = map[string]int{}
		for i, x := range ne {
			if ks, conc := ex.keyString(x.k); conc {
				m.index[ks] = i
			}
		}
	}
}

func (m *MapV) live() []*mapEntry {
	if m == nil {
		return nil
	}
	r := make([]*mapEntry, 0, m.n)
	for _, e := range m.entries {
		if !e.deleted {
			r = append(r, e)
		}
	}
	return r
}

// ---------- equality ----------

// equals builds the Bool term for x == y at static type t.
func (ex *Exec) equals(t types.Type, x, y Value) *Term {
	switch x := x.(type) {
	case *Term:
		yt, ok := y.(*Term)
		if !ok {
			panic(unsupported("equals: mixed kinds"))
		}
		return ex.ts.Eq(x, yt)
	case float64:
		return ex.ts.Bool(x == y.(float64))
	case *Str:
		return ex.strEq(x, y.(*Str))
	case *Value:
		return ex.ts.Bool(x == y.(*Value))
	case *MapV:
		return ex.ts.Bool(x == y.(*MapV))
	case *FuncV:
		yf := y.(*FuncV)
		return ex.ts.Bool(x == yf)
	case SliceV:
		// only comparison with nil is legal
		return ex.ts.Bool(x.a == nil && y.(SliceV).a == nil)
	case IfaceV:
		yi := y.(IfaceV)
		if x.t == nil || yi.t == nil {
			return ex.ts.Bool(x.t == nil && yi.t == nil)
		}
		if !types.Identical(x.t, yi.t) {
			return ex.ts.False
		}
		return ex.equals(x.t, x.v, yi.v)
	case StructV:
		ys := y.(StructV)
		r := ex.ts.True
		for i := range x {
			r = ex.ts.And(r, ex.equals(nil, x[i], ys[i]))
			if r == ex.ts.False {
				return r
			}
		}
		return r
	case ArrayV:
		ys := y.(ArrayV)
		r := ex.ts.True
		for i := range x {
			r = ex.ts.And(r, ex.equals(nil, x[i], ys[i]))
			if r == ex.ts.False {
				return r
			}
		}
		return r
	case NativeV:
		return ex.ts.Bool(x.v == y.(NativeV).v)
	case nil:
		return ex.ts.Bool(y == nil)
	}
	panic(unsupported(fmt.Sprintf("equals on %T", x)))
}
