package main

import (
	"encoding/json"
	"fmt"
	"go/types"
	"os"
	"path/filepath"
	"strings"
	"sync"

	"golang.org/x/tools/go/packages"
	"golang.org/x/tools/go/ssa"
	"golang.org/x/tools/go/ssa/ssautil"
)

const repoModule = "github.com/juev/hledger-lsp"

type intrinsicFn func(ex *Exec, caller *frame, fn *ssa.Function, args []Value) Value

type Prog struct {
	prog           *ssa.Program
	pkgs           []*ssa.Package
	byPath         map[string]*ssa.Package
	runtimeErrType types.Type
	intrCache      sync.Map // *ssa.Function -> intrinsicFn (or nil marker)
	methCache      sync.Map
}

type overlayFile struct {
	Replace map[string]string `json:"Replace"`
}

// LoadProgram loads the packages matching patterns in dir with the overlay
// (go build -overlay JSON format) and builds SSA for the whole closure.
func LoadProgram(dir string, overlayJSON string, patterns []string, tags string) (*Prog, error) {
	cfg := &packages.Config{
		Mode: packages.NeedName | packages.NeedFiles | packages.NeedCompiledGoFiles | packages.NeedImports |
			packages.NeedDeps | packages.NeedTypes | packages.NeedSyntax | packages.NeedTypesInfo | packages.NeedTypesSizes | packages.NeedModule,
		Dir:   dir,
		Tests: false,
		Env:   os.Environ(),
	}
	if tags != "" {
		cfg.BuildFlags = []string{"-tags=" + tags}
	}
	if overlayJSON != "" {
		data, err := os.ReadFile(overlayJSON)
		if err != nil {
			return nil, err
		}
		var ov overlayFile
		if err := json.Unmarshal(data, &ov); err != nil {
			return nil, err
		}
		cfg.Overlay = map[string][]byte{}
		for virt, real := range ov.Replace {
			b, err := os.ReadFile(real)
			if err != nil {
				return nil, err
			}
			cfg.Overlay[virt] = b
		}
	}
	initial, err := packages.Load(cfg, patterns...)
	if err != nil {
		return nil, err
	}
	nerr := 0
	packages.Visit(initial, nil, func(p *packages.Package) {
		for _, e := range p.Errors {
			fmt.Fprintf(os.Stderr, "load error: %s: %v\n", p.PkgPath, e)
			nerr++
		}
	})
	if nerr > 0 {
		return nil, fmt.Errorf("%d package load errors", nerr)
	}
	prog, pkgs := ssautil.AllPackages(initial, ssa.InstantiateGenerics|ssa.SanityCheckFunctions&0)
	prog.Build()
	p := &Prog{prog: prog, byPath: map[string]*ssa.Package{}}
	for _, pk := range prog.AllPackages() {
		p.byPath[pk.Pkg.Path()] = pk
	}
	for _, pk := range pkgs {
		if pk != nil {
			p.pkgs = append(p.pkgs, pk)
		}
	}
	if rt := p.byPath["runtime"]; rt != nil {
		if m := rt.Members["errorString"]; m != nil {
			p.runtimeErrType = m.Type()
		}
	}
	if p.runtimeErrType == nil {
		p.runtimeErrType = types.Typ[types.String]
	}
	return p, nil
}

func (p *Prog) isRepoPkg(path string) bool {
	return path == repoModule || strings.HasPrefix(path, repoModule+"/")
}

var initAllowList = map[string]bool{
	"unicode/utf8": true, "strings": true, "sort": true, "slices": true, "maps": true, "cmp": true,
	"errors": true, "github.com/shopspring/decimal": true, "strconv": true, "math/bits": true,
	"io": true, "unicode/utf16": true,
	"bytes": true, "math": true, "context": true, "io/fs": true, "os": true, "path/filepath": true, "path": true,
	"go.lsp.dev/protocol": true, "go.lsp.dev/uri": true, "encoding/json": false,
}

func (p *Prog) initAllowed(path string) bool {
	if p.isRepoPkg(path) {
		return true
	}
	return initAllowList[path]
}

func (p *Prog) lookupMethod(t types.Type, m *types.Func) *ssa.Function {
	type key struct {
		t types.Type
		m *types.Func
	}
	k := key{t, m}
	if f, ok := p.methCache.Load(k); ok {
		return f.(*ssa.Function)
	}
	f := p.prog.LookupMethod(t, m.Pkg(), m.Name())
	p.methCache.Store(k, f)
	return f
}

// FindFunc finds a package-level function by "pkgpath.Name".
func (p *Prog) FindFunc(qual string) *ssa.Function {
	i := strings.LastIndex(qual, ".")
	if i < 0 {
		return nil
	}
	pk := p.byPath[qual[:i]]
	if pk == nil {
		return nil
	}
	return pk.Func(qual[i+1:])
}

func (p *Prog) intrinsic(fn *ssa.Function) intrinsicFn {
	if v, ok := p.intrCache.Load(fn); ok {
		if v == nil {
			return nil
		}
		f, _ := v.(intrinsicFn)
		return f
	}
	name := fn.String()
	if fn.Origin() != nil {
		name = fn.Origin().String()
	}
	f, ok := intrinsics[name]
	if !ok {
		// method of instantiated generic types, e.g. (*sync/atomic.Pointer[T]).Load
		if fn.Signature.Recv() != nil {
			f, ok = intrinsics[genericMethodName(fn)]
		}
	}
	if !ok {
		p.intrCache.Store(fn, (intrinsicFn)(nil))
		return nil
	}
	p.intrCache.Store(fn, f)
	return f
}

func genericMethodName(fn *ssa.Function) string {
	s := fn.String()
	// strip type arguments "[...]" from receiver
	if i := strings.Index(s, "["); i >= 0 {
		if j := strings.LastIndex(s, "]"); j > i {
			return s[:i] + s[j+1:]
		}
	}
	return s
}

func relRepo(path string) string {
	if r, err := filepath.Rel("/repo", path); err == nil {
		return r
	}
	return path
}
