package main

// Models of external functions. Each is part of the trusted base and is listed
// in the evidence (stubs) when used.

import (
	"fmt"
	"go/types"
	"math"
	"path/filepath"
	"strconv"
	"strings"
	"unicode"
	"unicode/utf8"

	"golang.org/x/tools/go/ssa"
)

var intrinsics = map[string]intrinsicFn{}

func reg(name string, f intrinsicFn) { intrinsics[name] = f }

func (ex *Exec) used(name string) {
	ex.run.noteStub(name)
}

func (r *Run) noteStub(name string) {
	r.stubMu.Lock()
	if r.stubs == nil {
		r.stubs = map[string]int{}
	}
	r.stubs[name]++
	r.stubMu.Unlock()
}

func str(v Value) *Str {
	s, ok := v.(*Str)
	if !ok {
		panic(unsupported(fmt.Sprintf("expected string, got %T", v)))
	}
	return s
}

func term(v Value) *Term {
	t, ok := v.(*Term)
	if !ok {
		panic(unsupported(fmt.Sprintf("expected scalar, got %T", v)))
	}
	return t
}

func (ex *Exec) i64(v int) *Term { return ex.ts.BVConst(uint64(int64(v)), 64) }

// bytesEqAt: term for s[i:i+len(sub)] == sub
func (ex *Exec) bytesEqAt(s *Str, i int, sub *Str) *Term {
	n := sub.Len()
	if i+n > s.Len() {
		return ex.ts.False
	}
	return ex.strEq(ex.strSlice(s, i, i+n), sub)
}

func (ex *Exec) strIndex(s, sub *Str) int {
	if s.conc && sub.conc {
		return strings.Index(s.s, sub.s)
	}
	n := sub.Len()
	for i := 0; i+n <= s.Len(); i++ {
		if ex.Branch(ex.bytesEqAt(s, i, sub)) {
			return i
		}
	}
	return -1
}

func (ex *Exec) strLastIndex(s, sub *Str) int {
	if s.conc && sub.conc {
		return strings.LastIndex(s.s, sub.s)
	}
	n := sub.Len()
	for i := s.Len() - n; i >= 0; i-- {
		if ex.Branch(ex.bytesEqAt(s, i, sub)) {
			return i
		}
	}
	return -1
}

// byteInSet: term for "b is one of chars" (chars ASCII concrete)
func (ex *Exec) byteInSet(b *Term, chars string) *Term {
	r := ex.ts.False
	for i := 0; i < len(chars); i++ {
		r = ex.ts.Or(r, ex.ts.Eq(b, ex.byteC(chars[i])))
	}
	return r
}

func isASCII(s string) bool {
	for i := 0; i < len(s); i++ {
		if s[i] >= 0x80 {
			return false
		}
	}
	return true
}

func (ex *Exec) isSpaceByteTerm(b *Term) *Term {
	return ex.byteInSet(b, " \t\n\v\f\r")
}

// spaceAt decides whether a (possibly multi-byte) white space rune starts at s[i]; returns size (0 = not space)
func (ex *Exec) spaceAt(s *Str, i int) int {
	b := ex.strAt(s, i)
	if ex.Branch(ex.ts.BVCmp(OpULt, b, ex.byteC(0x80))) {
		if ex.Branch(ex.isSpaceByteTerm(b)) {
			return 1
		}
		return 0
	}
	r, size := ex.decodeRune(s, i)
	if r.IsConst() {
		if unicode.IsSpace(rune(r.C)) {
			return size
		}
		return 0
	}
	if ex.Branch(ex.runeInTable(r, unicode.White_Space)) {
		return size
	}
	return 0
}

func (ex *Exec) spaceBefore(s *Str, end int) int {
	// is there a space rune ending at s[:end]? return its size
	b := ex.strAt(s, end-1)
	if ex.Branch(ex.ts.BVCmp(OpULt, b, ex.byteC(0x80))) {
		if ex.Branch(ex.isSpaceByteTerm(b)) {
			return 1
		}
		return 0
	}
	// find rune start: up to 4 bytes back
	for k := 1; k <= 4 && end-k >= 0; k++ {
		c := ex.strAt(s, end-k)
		isCont := ex.ts.Eq(ex.ts.BVBin(OpBAnd, c, ex.byteC(0xC0)), ex.byteC(0x80))
		if !ex.Branch(isCont) {
			r, size := ex.decodeRune(s, end-k)
			if size != k {
				return 0
			}
			if r.IsConst() {
				if unicode.IsSpace(rune(r.C)) {
					return size
				}
				return 0
			}
			if ex.Branch(ex.runeInTable(r, unicode.White_Space)) {
				return size
			}
			return 0
		}
	}
	return 0
}

func (ex *Exec) trimSpace(s *Str) *Str {
	if s.conc {
		return ex.strC(strings.TrimSpace(s.s))
	}
	lo, hi := 0, s.Len()
	for lo < hi {
		n := ex.spaceAt(s, lo)
		if n == 0 {
			break
		}
		lo += n
	}
	for hi > lo {
		n := ex.spaceBefore(s, hi)
		if n == 0 {
			break
		}
		hi -= n
	}
	return ex.strSlice(s, lo, hi)
}

// runeInTable builds the Bool term for membership of rune r (BV32) in a range table.
func (ex *Exec) runeInTable(r *Term, tab *unicode.RangeTable) *Term {
	ts := ex.ts
	res := ts.False
	c := func(v uint32) *Term { return ts.BVConst(uint64(v), 32) }
	add := func(lo, hi, stride uint32) {
		in := ts.And(ts.BVCmp(OpULe, c(lo), r), ts.BVCmp(OpULe, r, c(hi)))
		if stride > 1 {
			in = ts.And(in, ts.Eq(ts.BVBin(OpURem, ts.BVBin(OpSub, r, c(lo)), c(stride)), c(0)))
		}
		res = ts.Or(res, in)
	}
	for _, x := range tab.R16 {
		add(uint32(x.Lo), uint32(x.Hi), uint32(x.Stride))
	}
	for _, x := range tab.R32 {
		add(x.Lo, x.Hi, x.Stride)
	}
	return res
}

func (ex *Exec) runePred(r *Term, tab *unicode.RangeTable, native func(rune) bool) *Term {
	if r.IsConst() {
		return ex.ts.Bool(native(rune(int32(r.C))))
	}
	ts := ex.ts
	if ex.Branch(ts.BVCmp(OpULt, r, ts.BVConst(0x80, 32))) {
		// ASCII: exact predicate as a disjunction of ranges computed from the real function
		res := ts.False
		for lo := 0; lo < 128; lo++ {
			if !native(rune(lo)) {
				continue
			}
			hi := lo
			for hi+1 < 128 && native(rune(hi+1)) {
				hi++
			}
			if lo == hi {
				res = ts.Or(res, ts.Eq(r, ts.BVConst(uint64(lo), 32)))
			} else {
				res = ts.Or(res, ts.And(ts.BVCmp(OpULe, ts.BVConst(uint64(lo), 32), r), ts.BVCmp(OpULe, r, ts.BVConst(uint64(hi), 32))))
			}
			lo = hi
		}
		return res
	}
	return ex.runeInTable(r, tab)
}

func init() {
	// ---------------- strings ----------------
	reg("strings.Index", func(ex *Exec, _ *frame, _ *ssa.Function, a []Value) Value {
		return ex.i64(ex.strIndex(str(a[0]), str(a[1])))
	})
	reg("strings.Contains", func(ex *Exec, _ *frame, _ *ssa.Function, a []Value) Value {
		return ex.mkBool(ex.strIndex(str(a[0]), str(a[1])) >= 0)
	})
	reg("strings.LastIndex", func(ex *Exec, _ *frame, _ *ssa.Function, a []Value) Value {
		return ex.i64(ex.strLastIndex(str(a[0]), str(a[1])))
	})
	reg("strings.IndexByte", func(ex *Exec, _ *frame, _ *ssa.Function, a []Value) Value {
		s, c := str(a[0]), term(a[1])
		for i := 0; i < s.Len(); i++ {
			if ex.Branch(ex.ts.Eq(ex.strAt(s, i), c)) {
				return ex.i64(i)
			}
		}
		return ex.i64(-1)
	})
	reg("strings.LastIndexByte", func(ex *Exec, _ *frame, _ *ssa.Function, a []Value) Value {
		s, c := str(a[0]), term(a[1])
		for i := s.Len() - 1; i >= 0; i-- {
			if ex.Branch(ex.ts.Eq(ex.strAt(s, i), c)) {
				return ex.i64(i)
			}
		}
		return ex.i64(-1)
	})
	reg("strings.IndexRune", func(ex *Exec, _ *frame, _ *ssa.Function, a []Value) Value {
		s, r := str(a[0]), term(a[1])
		if !r.IsConst() {
			panic(unsupported("strings.IndexRune with symbolic rune"))
		}
		if !utf8.ValidRune(rune(int32(r.C))) {
			panic(unsupported("strings.IndexRune invalid rune"))
		}
		return ex.i64(ex.strIndex(s, ex.strC(string(rune(int32(r.C))))))
	})
	reg("strings.ContainsRune", func(ex *Exec, _ *frame, _ *ssa.Function, a []Value) Value {
		s, r := str(a[0]), term(a[1])
		if !r.IsConst() {
			panic(unsupported("strings.ContainsRune with symbolic rune"))
		}
		return ex.mkBool(ex.strIndex(s, ex.strC(string(rune(int32(r.C))))) >= 0)
	})
	indexAny := func(ex *Exec, s *Str, chars string, last bool) int {
		if !isASCII(chars) {
			if s.conc {
				if last {
					return strings.LastIndexAny(s.s, chars)
				}
				return strings.IndexAny(s.s, chars)
			}
			// A valid non-ASCII character occurs as a rune exactly where its UTF-8 encoding occurs
			// as a byte sequence (its lead byte is never a continuation byte, so no preceding -
			// valid or invalid - sequence can swallow it): IndexAny is the least Index over the set.
			if last || strings.ContainsRune(chars, utf8.RuneError) || !utf8.ValidString(chars) {
				panic(unsupported("LastIndexAny / IndexAny with U+FFFD or invalid UTF-8 in the set on a symbolic string"))
			}
			best := -1
			for _, r := range chars {
				if i := ex.strIndex(s, ex.strC(string(r))); i >= 0 && (best < 0 || i < best) {
					best = i
				}
			}
			return best
		}
		if s.conc {
			if last {
				return strings.LastIndexAny(s.s, chars)
			}
			return strings.IndexAny(s.s, chars)
		}
		if last {
			for i := s.Len() - 1; i >= 0; i-- {
				if ex.Branch(ex.byteInSet(ex.strAt(s, i), chars)) {
					return i
				}
			}
			return -1
		}
		for i := 0; i < s.Len(); i++ {
			if ex.Branch(ex.byteInSet(ex.strAt(s, i), chars)) {
				return i
			}
		}
		return -1
	}
	reg("strings.IndexAny", func(ex *Exec, _ *frame, _ *ssa.Function, a []Value) Value {
		return ex.i64(indexAny(ex, str(a[0]), ex.concStr(a[1], "IndexAny chars"), false))
	})
	reg("strings.LastIndexAny", func(ex *Exec, _ *frame, _ *ssa.Function, a []Value) Value {
		return ex.i64(indexAny(ex, str(a[0]), ex.concStr(a[1], "LastIndexAny chars"), true))
	})
	reg("strings.ContainsAny", func(ex *Exec, _ *frame, _ *ssa.Function, a []Value) Value {
		return ex.mkBool(indexAny(ex, str(a[0]), ex.concStr(a[1], "ContainsAny chars"), false) >= 0)
	})
	reg("strings.HasPrefix", func(ex *Exec, _ *frame, _ *ssa.Function, a []Value) Value {
		s, p := str(a[0]), str(a[1])
		if s.Len() < p.Len() {
			return ex.ts.False
		}
		return ex.strEq(ex.strSlice(s, 0, p.Len()), p)
	})
	reg("strings.HasSuffix", func(ex *Exec, _ *frame, _ *ssa.Function, a []Value) Value {
		s, p := str(a[0]), str(a[1])
		if s.Len() < p.Len() {
			return ex.ts.False
		}
		return ex.strEq(ex.strSlice(s, s.Len()-p.Len(), s.Len()), p)
	})
	reg("strings.Count", func(ex *Exec, _ *frame, _ *ssa.Function, a []Value) Value {
		s, sub := str(a[0]), str(a[1])
		if s.conc && sub.conc {
			return ex.i64(strings.Count(s.s, sub.s))
		}
		if sub.Len() == 0 {
			// utf8.RuneCountInString(s) + 1
			n := 0
			for i := 0; i < s.Len(); {
				_, size := ex.decodeRune(s, i)
				i += size
				n++
			}
			return ex.i64(n + 1)
		}
		n := 0
		for i := 0; i+sub.Len() <= s.Len(); {
			if ex.Branch(ex.bytesEqAt(s, i, sub)) {
				n++
				i += sub.Len()
			} else {
				i++
			}
		}
		return ex.i64(n)
	})
	reg("strings.TrimSpace", func(ex *Exec, _ *frame, _ *ssa.Function, a []Value) Value {
		return ex.trimSpace(str(a[0]))
	})
	trimSet := func(ex *Exec, s *Str, cut string, left, right bool) *Str {
		if s.conc {
			switch {
			case left && right:
				return ex.strC(strings.Trim(s.s, cut))
			case left:
				return ex.strC(strings.TrimLeft(s.s, cut))
			default:
				return ex.strC(strings.TrimRight(s.s, cut))
			}
		}
		if !isASCII(cut) {
			panic(unsupported("Trim with non-ASCII cutset on symbolic string"))
		}
		lo, hi := 0, s.Len()
		if left {
			for lo < hi && ex.Branch(ex.byteInSet(ex.strAt(s, lo), cut)) {
				lo++
			}
		}
		if right {
			for hi > lo && ex.Branch(ex.byteInSet(ex.strAt(s, hi-1), cut)) {
				hi--
			}
		}
		return ex.strSlice(s, lo, hi)
	}
	reg("strings.TrimLeft", func(ex *Exec, _ *frame, _ *ssa.Function, a []Value) Value {
		return trimSet(ex, str(a[0]), ex.concStr(a[1], "cutset"), true, false)
	})
	reg("strings.TrimRight", func(ex *Exec, _ *frame, _ *ssa.Function, a []Value) Value {
		return trimSet(ex, str(a[0]), ex.concStr(a[1], "cutset"), false, true)
	})
	reg("strings.Trim", func(ex *Exec, _ *frame, _ *ssa.Function, a []Value) Value {
		return trimSet(ex, str(a[0]), ex.concStr(a[1], "cutset"), true, true)
	})
	reg("strings.TrimPrefix", func(ex *Exec, _ *frame, _ *ssa.Function, a []Value) Value {
		s, p := str(a[0]), str(a[1])
		if s.Len() >= p.Len() && ex.Branch(ex.strEq(ex.strSlice(s, 0, p.Len()), p)) {
			return ex.strSlice(s, p.Len(), s.Len())
		}
		return s
	})
	reg("strings.TrimSuffix", func(ex *Exec, _ *frame, _ *ssa.Function, a []Value) Value {
		s, p := str(a[0]), str(a[1])
		if s.Len() >= p.Len() && ex.Branch(ex.strEq(ex.strSlice(s, s.Len()-p.Len(), s.Len()), p)) {
			return ex.strSlice(s, 0, s.Len()-p.Len())
		}
		return s
	})
	reg("strings.CutPrefix", func(ex *Exec, _ *frame, _ *ssa.Function, a []Value) Value {
		s, p := str(a[0]), str(a[1])
		if s.Len() >= p.Len() && ex.Branch(ex.strEq(ex.strSlice(s, 0, p.Len()), p)) {
			return TupleV{ex.strSlice(s, p.Len(), s.Len()), ex.ts.True}
		}
		return TupleV{s, ex.ts.False}
	})
	reg("strings.CutSuffix", func(ex *Exec, _ *frame, _ *ssa.Function, a []Value) Value {
		s, p := str(a[0]), str(a[1])
		if s.Len() >= p.Len() && ex.Branch(ex.strEq(ex.strSlice(s, s.Len()-p.Len(), s.Len()), p)) {
			return TupleV{ex.strSlice(s, 0, s.Len()-p.Len()), ex.ts.True}
		}
		return TupleV{s, ex.ts.False}
	})
	reg("strings.Cut", func(ex *Exec, _ *frame, _ *ssa.Function, a []Value) Value {
		s, sep := str(a[0]), str(a[1])
		if i := ex.strIndex(s, sep); i >= 0 {
			return TupleV{ex.strSlice(s, 0, i), ex.strSlice(s, i+sep.Len(), s.Len()), ex.ts.True}
		}
		return TupleV{s, ex.emptyStr, ex.ts.False}
	})
	split := func(ex *Exec, s, sep *Str, n int) SliceV {
		if n == 0 {
			return SliceV{}
		}
		if sep.Len() == 0 {
			// explode into runes
			var out []Value
			for i := 0; i < s.Len(); {
				if n > 0 && len(out) == n-1 {
					out = append(out, ex.strSlice(s, i, s.Len()))
					i = s.Len()
					break
				}
				_, size := ex.decodeRune(s, i)
				out = append(out, ex.strSlice(s, i, i+size))
				i += size
			}
			if out == nil {
				out = []Value{}
			}
			return SliceV{out}
		}
		out := []Value{}
		start := 0
		for i := 0; i+sep.Len() <= s.Len(); {
			if n > 0 && len(out) == n-1 {
				break
			}
			if ex.Branch(ex.bytesEqAt(s, i, sep)) {
				out = append(out, ex.strSlice(s, start, i))
				i += sep.Len()
				start = i
			} else {
				i++
			}
		}
		out = append(out, ex.strSlice(s, start, s.Len()))
		return SliceV{out}
	}
	reg("strings.Split", func(ex *Exec, _ *frame, _ *ssa.Function, a []Value) Value {
		return split(ex, str(a[0]), str(a[1]), -1)
	})
	reg("strings.SplitN", func(ex *Exec, _ *frame, _ *ssa.Function, a []Value) Value {
		return split(ex, str(a[0]), str(a[1]), int(ex.concretizeInt(a[2], "SplitN n")))
	})
	reg("strings.Fields", func(ex *Exec, _ *frame, _ *ssa.Function, a []Value) Value {
		s := str(a[0])
		if s.conc {
			return ex.sliceOfStrings(strings.Fields(s.s))
		}
		out := []Value{}
		start := -1
		for i := 0; i < s.Len(); {
			n := ex.spaceAt(s, i)
			if n > 0 {
				if start >= 0 {
					out = append(out, ex.strSlice(s, start, i))
					start = -1
				}
				i += n
				continue
			}
			if start < 0 {
				start = i
			}
			_, size := ex.decodeRune(s, i)
			i += size
		}
		if start >= 0 {
			out = append(out, ex.strSlice(s, start, s.Len()))
		}
		return SliceV{out}
	})
	reg("strings.Join", func(ex *Exec, _ *frame, _ *ssa.Function, a []Value) Value {
		elems, sep := a[0].(SliceV), str(a[1])
		r := ex.emptyStr
		for i, e := range elems.a {
			if i > 0 {
				r = ex.strConcat(r, sep)
			}
			r = ex.strConcat(r, str(e))
		}
		return r
	})
	reg("strings.Repeat", func(ex *Exec, _ *frame, _ *ssa.Function, a []Value) Value {
		s := str(a[0])
		n := ex.concretizeInt(a[1], "Repeat count")
		if n < 0 {
			panic(goPanic{msg: "strings: negative Repeat count"})
		}
		if n*int64(s.Len()) > 1<<20 {
			panic(unsupported("strings.Repeat: result too large"))
		}
		r := ex.emptyStr
		for i := int64(0); i < n; i++ {
			r = ex.strConcat(r, s)
		}
		return r
	})
	reg("strings.ReplaceAll", func(ex *Exec, _ *frame, _ *ssa.Function, a []Value) Value {
		s, old, nw := str(a[0]), str(a[1]), str(a[2])
		if s.conc && old.conc && nw.conc {
			return ex.strC(strings.ReplaceAll(s.s, old.s, nw.s))
		}
		if old.Len() == 0 {
			panic(unsupported("ReplaceAll with empty old on symbolic string"))
		}
		r := ex.emptyStr
		start := 0
		for i := 0; i+old.Len() <= s.Len(); {
			if ex.Branch(ex.bytesEqAt(s, i, old)) {
				r = ex.strConcat(ex.strConcat(r, ex.strSlice(s, start, i)), nw)
				i += old.Len()
				start = i
			} else {
				i++
			}
		}
		return ex.strConcat(r, ex.strSlice(s, start, s.Len()))
	})
	caseMap := func(lower bool) intrinsicFn {
		return func(ex *Exec, _ *frame, _ *ssa.Function, a []Value) Value {
			s := str(a[0])
			if s.conc {
				if lower {
					return ex.strC(strings.ToLower(s.s))
				}
				return ex.strC(strings.ToUpper(s.s))
			}
			ts := ex.ts
			var out []*Term
			for i := 0; i < s.Len(); {
				b := ex.strAt(s, i)
				if ex.Branch(ts.BVCmp(OpULt, b, ex.byteC(0x80))) {
					if lower {
						isU := ts.And(ts.BVCmp(OpULe, ex.byteC('A'), b), ts.BVCmp(OpULe, b, ex.byteC('Z')))
						out = append(out, ts.Ite(isU, ts.BVBin(OpAdd, b, ex.byteC(32)), b))
					} else {
						isL := ts.And(ts.BVCmp(OpULe, ex.byteC('a'), b), ts.BVCmp(OpULe, b, ex.byteC('z')))
						out = append(out, ts.Ite(isL, ts.BVBin(OpSub, b, ex.byteC(32)), b))
					}
					i++
					continue
				}
				r, size := ex.decodeRune(s, i)
				if !r.IsConst() {
					panic(unsupported("case mapping of symbolic non-ASCII rune"))
				}
				var m rune
				if r.C == 0xFFFD && size == 1 {
					m = 0xFFFD
				} else if lower {
					m = unicode.ToLower(rune(r.C))
				} else {
					m = unicode.ToUpper(rune(r.C))
				}
				out = append(out, ex.strBytes(ex.strC(string(m)))...)
				i += size
			}
			return ex.strB(out)
		}
	}
	reg("strings.ToLower", caseMap(true))
	reg("strings.ToUpper", caseMap(false))
	reg("strings.EqualFold", func(ex *Exec, _ *frame, _ *ssa.Function, a []Value) Value {
		s, t := str(a[0]), str(a[1])
		if s.conc && t.conc {
			return ex.mkBool(strings.EqualFold(s.s, t.s))
		}
		// Decompose both strings into runes: a symbolic byte is case-split to ASCII (anything
		// else is unsupported), concrete non-ASCII bytes are decoded as Go does. Folding is then
		// decided rune by rune; an ASCII letter equals a non-ASCII rune only through the simple
		// fold orbit (k/K/U+212A, s/S/U+017F).
		type elem struct {
			b *Term // ASCII byte (symbolic or concrete), nil for a wide rune
			r rune
		}
		split := func(x *Str) []elem {
			var out []elem
			n := x.Len()
			for i := 0; i < n; {
				bt := ex.strAt(x, i)
				if !bt.IsConst() {
					if !ex.Branch(ex.ts.BVCmp(OpULt, bt, ex.byteC(0x80))) {
						panic(unsupported("EqualFold non-ASCII symbolic"))
					}
					out = append(out, elem{b: bt})
					i++
					continue
				}
				if bt.C < 0x80 {
					out = append(out, elem{b: bt})
					i++
					continue
				}
				var buf []byte
				for j := i; j < n && j < i+4; j++ {
					bj := ex.strAt(x, j)
					if !bj.IsConst() {
						if !ex.Branch(ex.ts.BVCmp(OpULt, bj, ex.byteC(0x80))) {
							panic(unsupported("EqualFold non-ASCII symbolic"))
						}
						break
					}
					buf = append(buf, byte(bj.C))
				}
				r, size := utf8.DecodeRune(buf)
				out = append(out, elem{r: r})
				i += size
			}
			return out
		}
		es, et := split(s), split(t)
		if len(es) != len(et) {
			return ex.ts.False
		}
		ts := ex.ts
		lowerT := func(b *Term) *Term {
			isU := ts.And(ts.BVCmp(OpULe, ex.byteC('A'), b), ts.BVCmp(OpULe, b, ex.byteC('Z')))
			return ts.Ite(isU, ts.BVBin(OpAdd, b, ex.byteC(32)), b)
		}
		asciiOrbit := func(r rune) (byte, bool) {
			for c := unicode.SimpleFold(r); c != r; c = unicode.SimpleFold(c) {
				if c < 0x80 {
					return byte(unicode.ToLower(c)), true
				}
			}
			return 0, false
		}
		res := ts.True
		for i := range es {
			x, y := es[i], et[i]
			switch {
			case x.b != nil && y.b != nil:
				res = ts.And(res, ts.Eq(lowerT(x.b), lowerT(y.b)))
			case x.b == nil && y.b == nil:
				if !strings.EqualFold(string(x.r), string(y.r)) {
					return ts.False
				}
			default:
				bt, r := x.b, y.r
				if bt == nil {
					bt, r = y.b, x.r
				}
				c, ok := asciiOrbit(r)
				if !ok {
					return ts.False
				}
				res = ts.And(res, ts.Eq(lowerT(bt), ex.byteC(c)))
			}
		}
		return res
	})
	reg("strings.Compare", func(ex *Exec, _ *frame, _ *ssa.Function, a []Value) Value {
		s, t := str(a[0]), str(a[1])
		if ex.Branch(ex.strEq(s, t)) {
			return ex.i64(0)
		}
		if ex.Branch(ex.strLess(s, t)) {
			return ex.i64(-1)
		}
		return ex.i64(1)
	})
	reg("cmp.Compare", func(ex *Exec, _ *frame, fn *ssa.Function, a []Value) Value {
		switch x := a[0].(type) {
		case *Str:
			t := str(a[1])
			if ex.Branch(ex.strLess(x, t)) {
				return ex.i64(-1)
			}
			if ex.Branch(ex.strEq(x, t)) {
				return ex.i64(0)
			}
			return ex.i64(1)
		case *Term:
			y := term(a[1])
			b := basicOf(fn.Signature.Params().At(0).Type())
			op := OpULt
			if b == nil || isSigned(b) {
				op = OpSLt
			}
			ts := ex.ts
			return ts.Ite(ts.BVCmp(op, x, y), ts.BVConst(^uint64(0), 64), ts.Ite(ts.Eq(x, y), ts.BVConst(0, 64), ts.BVConst(1, 64)))
		case float64:
			y := a[1].(float64)
			switch {
			case x < y:
				return ex.i64(-1)
			case x > y:
				return ex.i64(1)
			}
			return ex.i64(0)
		}
		panic(unsupported("cmp.Compare operand"))
	})

	// ---------------- strings.Builder ----------------
	bufOf := func(ex *Exec, recv Value) *Value {
		p := recv.(*Value)
		if p == nil {
			ex.goPanicStr("nil *strings.Builder")
		}
		st := (*p).(StructV)
		return &st[1]
	}
	appendBytes := func(ex *Exec, recv Value, bs []*Term) {
		bp := bufOf(ex, recv)
		sl := (*bp).(SliceV)
		out := sl.a
		for _, b := range bs {
			out = append(out, Value(b))
		}
		if out == nil {
			out = []Value{}
		}
		*bp = SliceV{out}
	}
	reg("(*strings.Builder).Grow", func(ex *Exec, _ *frame, _ *ssa.Function, a []Value) Value { return nil })
	reg("(*strings.Builder).Reset", func(ex *Exec, _ *frame, _ *ssa.Function, a []Value) Value {
		*bufOf(ex, a[0]) = SliceV{}
		return nil
	})
	reg("(*strings.Builder).Len", func(ex *Exec, _ *frame, _ *ssa.Function, a []Value) Value {
		return ex.i64(len((*bufOf(ex, a[0])).(SliceV).a))
	})
	reg("(*strings.Builder).Cap", func(ex *Exec, _ *frame, _ *ssa.Function, a []Value) Value {
		return ex.i64(cap((*bufOf(ex, a[0])).(SliceV).a))
	})
	reg("(*strings.Builder).String", func(ex *Exec, _ *frame, _ *ssa.Function, a []Value) Value {
		sl := (*bufOf(ex, a[0])).(SliceV)
		bs := make([]*Term, len(sl.a))
		for i, v := range sl.a {
			bs[i] = v.(*Term)
		}
		return ex.strB(bs)
	})
	reg("(*strings.Builder).WriteString", func(ex *Exec, _ *frame, _ *ssa.Function, a []Value) Value {
		s := str(a[1])
		appendBytes(ex, a[0], ex.strBytes(s))
		return TupleV{ex.i64(s.Len()), IfaceV{}}
	})
	reg("(*strings.Builder).WriteByte", func(ex *Exec, _ *frame, _ *ssa.Function, a []Value) Value {
		appendBytes(ex, a[0], []*Term{term(a[1])})
		return IfaceV{}
	})
	reg("(*strings.Builder).WriteRune", func(ex *Exec, _ *frame, _ *ssa.Function, a []Value) Value {
		bs := ex.encodeRune(term(a[1]))
		appendBytes(ex, a[0], bs)
		return TupleV{ex.i64(len(bs)), IfaceV{}}
	})
	reg("(*strings.Builder).Write", func(ex *Exec, _ *frame, _ *ssa.Function, a []Value) Value {
		sl := a[1].(SliceV)
		bs := make([]*Term, len(sl.a))
		for i, v := range sl.a {
			bs[i] = v.(*Term)
		}
		appendBytes(ex, a[0], bs)
		return TupleV{ex.i64(len(bs)), IfaceV{}}
	})

	// ---------------- unicode / utf8 ----------------
	pred := func(tab *unicode.RangeTable, native func(rune) bool) intrinsicFn {
		return func(ex *Exec, _ *frame, _ *ssa.Function, a []Value) Value {
			return ex.runePred(term(a[0]), tab, native)
		}
	}
	reg("unicode.IsLetter", pred(unicode.Letter, unicode.IsLetter))
	reg("unicode.IsDigit", pred(unicode.Digit, unicode.IsDigit))
	reg("unicode.IsNumber", pred(unicode.Number, unicode.IsNumber))
	reg("unicode.IsUpper", pred(unicode.Upper, unicode.IsUpper))
	reg("unicode.IsLower", pred(unicode.Lower, unicode.IsLower))
	reg("unicode.IsSpace", pred(unicode.White_Space, unicode.IsSpace))
	reg("unicode.IsPunct", pred(unicode.Punct, unicode.IsPunct))
	reg("unicode.IsSymbol", pred(unicode.Symbol, unicode.IsSymbol))
	runeMap := func(native func(rune) rune, lower bool) intrinsicFn {
		return func(ex *Exec, _ *frame, _ *ssa.Function, a []Value) Value {
			r := term(a[0])
			if r.IsConst() {
				return ex.ts.BVConst(uint64(native(rune(int32(r.C)))), 32)
			}
			ts := ex.ts
			c := func(v uint64) *Term { return ts.BVConst(v, 32) }
			if !ex.Branch(ts.BVCmp(OpULt, r, c(0x80))) {
				v := ex.Concretize(r, "unicode case mapping of non-ASCII rune")
				return ts.BVConst(uint64(native(rune(int32(v)))), 32)
			}
			if lower {
				isU := ts.And(ts.BVCmp(OpULe, c('A'), r), ts.BVCmp(OpULe, r, c('Z')))
				return ts.Ite(isU, ts.BVBin(OpAdd, r, c(32)), r)
			}
			isL := ts.And(ts.BVCmp(OpULe, c('a'), r), ts.BVCmp(OpULe, r, c('z')))
			return ts.Ite(isL, ts.BVBin(OpSub, r, c(32)), r)
		}
	}
	reg("unicode.ToLower", runeMap(unicode.ToLower, true))
	reg("unicode.ToUpper", runeMap(unicode.ToUpper, false))

	reg("unicode/utf8.DecodeRuneInString", func(ex *Exec, _ *frame, _ *ssa.Function, a []Value) Value {
		s := str(a[0])
		r, size := ex.decodeRune(s, 0)
		return TupleV{r, ex.i64(size)}
	})
	reg("unicode/utf8.DecodeRune", func(ex *Exec, _ *frame, _ *ssa.Function, a []Value) Value {
		s := ex.bytesToStr(a[0])
		r, size := ex.decodeRune(s, 0)
		return TupleV{r, ex.i64(size)}
	})
	decodeLast := func(ex *Exec, s *Str) Value {
		n := s.Len()
		if n == 0 {
			return TupleV{ex.ts.BVConst(0xFFFD, 32), ex.i64(0)}
		}
		// find start of last rune like the real implementation
		ts := ex.ts
		last := ex.strAt(s, n-1)
		if ex.Branch(ts.BVCmp(OpULt, last, ex.byteC(0x80))) {
			return TupleV{ts.ZExt(last, 32), ex.i64(1)}
		}
		lim := n - 4
		if lim < 0 {
			lim = 0
		}
		start := n - 1
		for start--; start >= lim; start-- {
			c := ex.strAt(s, start)
			isCont := ts.Eq(ts.BVBin(OpBAnd, c, ex.byteC(0xC0)), ex.byteC(0x80))
			if !ex.Branch(isCont) {
				break
			}
		}
		if start < lim {
			start = lim
		}
		r, size := ex.decodeRune(s, start)
		if start+size != n {
			return TupleV{ts.BVConst(0xFFFD, 32), ex.i64(1)}
		}
		return TupleV{r, ex.i64(size)}
	}
	reg("unicode/utf8.DecodeLastRuneInString", func(ex *Exec, _ *frame, _ *ssa.Function, a []Value) Value {
		return decodeLast(ex, str(a[0]))
	})
	reg("unicode/utf8.DecodeLastRune", func(ex *Exec, _ *frame, _ *ssa.Function, a []Value) Value {
		return decodeLast(ex, ex.bytesToStr(a[0]))
	})
	reg("unicode/utf8.RuneCountInString", func(ex *Exec, _ *frame, _ *ssa.Function, a []Value) Value {
		s := str(a[0])
		if s.conc {
			return ex.i64(utf8.RuneCountInString(s.s))
		}
		n := 0
		for i := 0; i < s.Len(); {
			_, size := ex.decodeRune(s, i)
			i += size
			n++
		}
		return ex.i64(n)
	})
	reg("unicode/utf8.RuneCount", func(ex *Exec, _ *frame, _ *ssa.Function, a []Value) Value {
		s := ex.bytesToStr(a[0])
		n := 0
		for i := 0; i < s.Len(); {
			_, size := ex.decodeRune(s, i)
			i += size
			n++
		}
		return ex.i64(n)
	})
	reg("unicode/utf8.ValidString", func(ex *Exec, _ *frame, _ *ssa.Function, a []Value) Value {
		s := str(a[0])
		if s.conc {
			return ex.mkBool(utf8.ValidString(s.s))
		}
		for i := 0; i < s.Len(); {
			r, size := ex.decodeRune(s, i)
			if size == 1 && r.IsConst() && r.C == 0xFFFD {
				return ex.ts.False
			}
			i += size
		}
		return ex.ts.True
	})
	reg("unicode/utf8.RuneLen", func(ex *Exec, _ *frame, _ *ssa.Function, a []Value) Value {
		r := term(a[0])
		ts := ex.ts
		c := func(v uint64) *Term { return ts.BVConst(v, 32) }
		n := func(v int64) *Term { return ts.BVConst(uint64(v), 64) }
		sur := ts.And(ts.BVCmp(OpULe, c(0xD800), r), ts.BVCmp(OpULe, r, c(0xDFFF)))
		return ts.Ite(ts.BVCmp(OpSLt, r, c(0)), n(-1),
			ts.Ite(ts.BVCmp(OpULt, r, c(0x80)), n(1),
				ts.Ite(ts.BVCmp(OpULt, r, c(0x800)), n(2),
					ts.Ite(sur, n(-1),
						ts.Ite(ts.BVCmp(OpULt, r, c(0x10000)), n(3),
							ts.Ite(ts.BVCmp(OpULe, r, c(0x10FFFF)), n(4), n(-1)))))))
	})
	reg("unicode/utf8.AppendRune", func(ex *Exec, _ *frame, _ *ssa.Function, a []Value) Value {
		sl := a[0].(SliceV)
		out := sl.a
		for _, b := range ex.encodeRune(term(a[1])) {
			out = append(out, Value(b))
		}
		return SliceV{out}
	})
	reg("unicode/utf8.EncodeRune", func(ex *Exec, _ *frame, _ *ssa.Function, a []Value) Value {
		sl := a[0].(SliceV)
		bs := ex.encodeRune(term(a[1]))
		if len(sl.a) < len(bs) {
			ex.goPanicStr("index out of range (EncodeRune)")
		}
		for i, b := range bs {
			sl.a[i] = b
		}
		return ex.i64(len(bs))
	})

	// ---------------- strconv ----------------
	reg("strconv.Itoa", func(ex *Exec, _ *frame, _ *ssa.Function, a []Value) Value {
		t := term(a[0])
		if t.IsConst() {
			return ex.strC(strconv.FormatInt(sext(t.C, 64), 10))
		}
		return ex.formatSymInt(t, true)
	})
	reg("strconv.FormatInt", func(ex *Exec, _ *frame, _ *ssa.Function, a []Value) Value {
		t := term(a[0])
		base := int(ex.concretizeInt(a[1], "base"))
		if t.IsConst() {
			return ex.strC(strconv.FormatInt(sext(t.C, 64), base))
		}
		if base != 10 {
			panic(unsupported("FormatInt symbolic non-decimal"))
		}
		return ex.formatSymInt(t, true)
	})
	reg("strconv.FormatUint", func(ex *Exec, _ *frame, _ *ssa.Function, a []Value) Value {
		t := term(a[0])
		base := int(ex.concretizeInt(a[1], "base"))
		if t.IsConst() {
			return ex.strC(strconv.FormatUint(t.C, base))
		}
		if base != 10 {
			panic(unsupported("FormatUint symbolic non-decimal"))
		}
		return ex.formatSymInt(t, false)
	})
	reg("strconv.Quote", func(ex *Exec, _ *frame, _ *ssa.Function, a []Value) Value {
		return ex.strC(strconv.Quote(ex.concStr(a[0], "strconv.Quote")))
	})
	reg("strconv.Atoi", func(ex *Exec, _ *frame, fn *ssa.Function, a []Value) Value {
		v, err := ex.parseInt(str(a[0]), 10, 0, "Atoi")
		return TupleV{v, err}
	})
	reg("strconv.ParseInt", func(ex *Exec, _ *frame, fn *ssa.Function, a []Value) Value {
		base := int(ex.concretizeInt(a[1], "base"))
		bits := int(ex.concretizeInt(a[2], "bitSize"))
		v, err := ex.parseInt(str(a[0]), base, bits, "ParseInt")
		return TupleV{v, err}
	})
	reg("strconv.ParseFloat", func(ex *Exec, _ *frame, fn *ssa.Function, a []Value) Value {
		s := ex.concStr(a[0], "ParseFloat")
		bits := int(ex.concretizeInt(a[1], "bitSize"))
		f, err := strconv.ParseFloat(s, bits)
		if err != nil {
			return TupleV{f, ex.mkError("strconv.ParseFloat: parsing " + strconv.Quote(s) + ": " + err.(*strconv.NumError).Err.Error())}
		}
		return TupleV{f, IfaceV{}}
	})
	reg("strconv.ParseBool", func(ex *Exec, _ *frame, fn *ssa.Function, a []Value) Value {
		s := ex.concStr(a[0], "ParseBool")
		b, err := strconv.ParseBool(s)
		if err != nil {
			return TupleV{ex.ts.False, ex.mkError(err.Error())}
		}
		return TupleV{ex.mkBool(b), IfaceV{}}
	})

	// ---------------- math ----------------
	m1 := func(f func(float64) float64) intrinsicFn {
		return func(ex *Exec, _ *frame, _ *ssa.Function, a []Value) Value { return f(a[0].(float64)) }
	}
	reg("math.Floor", m1(math.Floor))
	reg("math.Ceil", m1(math.Ceil))
	reg("math.Trunc", m1(math.Trunc))
	reg("math.Abs", m1(math.Abs))
	reg("math.Sqrt", m1(math.Sqrt))
	reg("math.Log10", m1(math.Log10))
	reg("math.IsNaN", func(ex *Exec, _ *frame, _ *ssa.Function, a []Value) Value {
		return ex.mkBool(math.IsNaN(a[0].(float64)))
	})
	reg("math.IsInf", func(ex *Exec, _ *frame, _ *ssa.Function, a []Value) Value {
		return ex.mkBool(math.IsInf(a[0].(float64), int(ex.concretizeInt(a[1], "sign"))))
	})
	reg("math.Float64bits", func(ex *Exec, _ *frame, _ *ssa.Function, a []Value) Value {
		return ex.ts.BVConst(math.Float64bits(a[0].(float64)), 64)
	})
	reg("math.Float64frombits", func(ex *Exec, _ *frame, _ *ssa.Function, a []Value) Value {
		t := term(a[0])
		if !t.IsConst() {
			panic(unsupported("Float64frombits symbolic"))
		}
		return math.Float64frombits(t.C)
	})
	reg("math.Pow", func(ex *Exec, _ *frame, _ *ssa.Function, a []Value) Value {
		return math.Pow(a[0].(float64), a[1].(float64))
	})
	reg("math.Mod", func(ex *Exec, _ *frame, _ *ssa.Function, a []Value) Value {
		return math.Mod(a[0].(float64), a[1].(float64))
	})

	// ---------------- path/filepath (native bridge, concrete args) ----------------
	fp1 := func(f func(string) string, name string) intrinsicFn {
		return func(ex *Exec, _ *frame, _ *ssa.Function, a []Value) Value {
			return ex.strC(f(ex.concStr(a[0], name)))
		}
	}
	reg("path/filepath.Clean", fp1(filepath.Clean, "filepath.Clean"))
	reg("path/filepath.Dir", fp1(filepath.Dir, "filepath.Dir"))
	reg("path/filepath.Base", fp1(filepath.Base, "filepath.Base"))
	reg("path/filepath.Ext", fp1(filepath.Ext, "filepath.Ext"))
	reg("path/filepath.ToSlash", fp1(filepath.ToSlash, "filepath.ToSlash"))
	reg("path/filepath.FromSlash", fp1(filepath.FromSlash, "filepath.FromSlash"))
	reg("path/filepath.IsAbs", func(ex *Exec, _ *frame, _ *ssa.Function, a []Value) Value {
		return ex.mkBool(filepath.IsAbs(ex.concStr(a[0], "filepath.IsAbs")))
	})
	reg("path/filepath.Join", func(ex *Exec, _ *frame, _ *ssa.Function, a []Value) Value {
		var parts []string
		for _, e := range a[0].(SliceV).a {
			parts = append(parts, ex.concStr(e, "filepath.Join"))
		}
		return ex.strC(filepath.Join(parts...))
	})
	reg("path/filepath.Rel", func(ex *Exec, _ *frame, _ *ssa.Function, a []Value) Value {
		r, err := filepath.Rel(ex.concStr(a[0], "Rel"), ex.concStr(a[1], "Rel"))
		if err != nil {
			return TupleV{ex.emptyStr, ex.mkError(err.Error())}
		}
		return TupleV{ex.strC(r), IfaceV{}}
	})
	reg("path/filepath.Match", func(ex *Exec, _ *frame, _ *ssa.Function, a []Value) Value {
		ok, err := filepath.Match(ex.concStr(a[0], "Match"), ex.concStr(a[1], "Match"))
		if err != nil {
			return TupleV{ex.ts.False, ex.mkError(err.Error())}
		}
		return TupleV{ex.mkBool(ok), IfaceV{}}
	})

	// ---------------- errors ----------------
	reg("errors.New", func(ex *Exec, _ *frame, _ *ssa.Function, a []Value) Value {
		return ex.mkErrorStr(str(a[0]))
	})
}

// bytesToStr views a []byte slice value as a string.
func (ex *Exec) bytesToStr(v Value) *Str {
	sl, ok := v.(SliceV)
	if !ok {
		ex.usePoison(v)
	}
	bs := make([]*Term, len(sl.a))
	for i, x := range sl.a {
		bs[i] = x.(*Term)
	}
	return ex.strB(bs)
}

// mkError builds an *errors.errorString value wrapped as error.
func (ex *Exec) mkError(msg string) IfaceV { return ex.mkErrorStr(ex.strC(msg)) }

func (ex *Exec) mkErrorStr(s *Str) IfaceV {
	pk := ex.prog.byPath["errors"]
	if pk == nil {
		panic(unsupported("errors package not loaded"))
	}
	t := pk.Members["errorString"].Type()
	p := new(Value)
	*p = StructV{s}
	return IfaceV{t: types.NewPointer(t), v: p}
}

// parseInt models strconv.ParseInt/Atoi for base 10 on possibly symbolic digits.
func (ex *Exec) parseInt(s *Str, base, bitSize int, fnName string) (*Term, IfaceV) {
	if s.conc {
		var v int64
		var err error
		if fnName == "Atoi" {
			var i int
			i, err = strconv.Atoi(s.s)
			v = int64(i)
		} else {
			v, err = strconv.ParseInt(s.s, base, bitSize)
		}
		if err != nil {
			return ex.i64(int(v)), ex.mkError(err.Error())
		}
		return ex.i64(int(v)), IfaceV{}
	}
	if base != 10 && base != 0 {
		panic(unsupported("ParseInt symbolic with base != 10"))
	}
	ts := ex.ts
	n := s.Len()
	synErr := func() (*Term, IfaceV) {
		return ex.i64(0), ex.mkError("strconv." + fnName + ": parsing <symbolic>: invalid syntax")
	}
	if n == 0 {
		return synErr()
	}
	i := 0
	neg := false
	b0 := ex.strAt(s, 0)
	if ex.Branch(ts.Eq(b0, ex.byteC('-'))) {
		neg = true
		i = 1
	} else if ex.Branch(ts.Eq(b0, ex.byteC('+'))) {
		i = 1
	}
	if i >= n {
		return synErr()
	}
	if n-i > 18 {
		panic(unsupported("ParseInt symbolic with more than 18 digits"))
	}
	acc := ts.BVConst(0, 64)
	accI := ts.IntConst64(0)
	ten := ts.IntConst64(10)
	for ; i < n; i++ {
		b := ex.strAt(s, i)
		isD := ts.And(ts.BVCmp(OpULe, ex.byteC('0'), b), ts.BVCmp(OpULe, b, ex.byteC('9')))
		if !ex.Branch(isD) {
			if base == 0 {
				panic(unsupported("ParseInt base 0 with non-digit"))
			}
			return synErr()
		}
		d := ts.ZExt(ts.BVBin(OpSub, b, ex.byteC('0')), 64)
		acc = ts.BVBin(OpAdd, ts.BVBin(OpMul, acc, ts.BVConst(10, 64)), d)
		accI = ts.IntBin(OpIAdd, ts.IntBin(OpIMul, ten, accI), ex.digitInt(b))
	}
	if neg {
		acc = ts.BVUn(OpNeg, acc)
		accI = ts.INeg(accI)
	}
	if !acc.IsConst() {
		// the same value in the Int theory (<= 18 digits: no wrap-around), used by big.NewInt
		ex.intShadow[acc] = accI
	}
	if bitSize != 0 && bitSize != 64 {
		lim := int64(1) << (bitSize - 1)
		inr := ts.And(ts.BVCmp(OpSLe, ts.BVConst(uint64(-lim), 64), acc), ts.BVCmp(OpSLt, acc, ts.BVConst(uint64(lim), 64)))
		if !ex.Branch(inr) {
			return ex.i64(0), ex.mkError("strconv." + fnName + ": parsing <symbolic>: value out of range")
		}
	}
	return acc, IfaceV{}
}

// digitInt returns the Int term for the decimal digit byte b (b is known to be '0'..'9'):
// an ite chain over the ten values, which solvers handle far better than bv2nat.
func (ex *Exec) digitInt(b *Term) *Term {
	ts := ex.ts
	if b.IsConst() {
		return ts.IntConst64(int64(b.C) - '0')
	}
	r := ts.IntConst64(9)
	for v := 8; v >= 0; v-- {
		r = ts.Ite(ts.Eq(b, ex.byteC(byte('0'+v))), ts.IntConst64(int64(v)), r)
	}
	return r
}

// witnessDigit creates a fresh decimal digit: returns its Int value term and its ASCII byte term.
func (ex *Exec) witnessDigit() (*Term, *Term) {
	ts := ex.ts
	d := ex.freshAux("digit", SInt)
	ex.assume(ts.And(ts.ICmp(OpILe, ts.IntConst64(0), d), ts.ICmp(OpILe, d, ts.IntConst64(9))), true)
	b := ex.byteC('9')
	for v := 8; v >= 0; v-- {
		b = ts.Ite(ts.Eq(d, ts.IntConst64(int64(v))), ex.byteC(byte('0'+v)), b)
	}
	return d, b
}

// formatSymInt renders a symbolic integer in decimal: forks on the digit count and
// introduces one witness variable per digit (Σ dᵢ·10ⁱ = |v|).
func (ex *Exec) formatSymInt(t *Term, signed bool) *Str {
	ts := ex.ts
	w := int(t.S.W)
	neg := false
	mag := t
	if signed {
		if ex.Branch(ts.BVCmp(OpSLt, t, ts.BVConst(0, w))) {
			neg = true
			mag = ts.BVUn(OpNeg, t)
		}
	}
	// number of digits
	nd := 1
	pow := uint64(10)
	for nd < 20 {
		if pow == 0 {
			break
		}
		if ex.Branch(ts.BVCmp(OpULt, mag, ts.BVConst(pow, w))) {
			break
		}
		nd++
		if pow > math.MaxUint64/10 {
			pow = 0
		} else {
			pow *= 10
		}
	}
	if nd > 12 {
		panic(unsupported("formatting symbolic integer with more than 12 digits"))
	}
	// witness digits, in the Int theory to avoid bit-vector multiplication
	magI := ts.BV2Int(mag, false)
	if sh, ok := ex.intShadow[mag]; ok {
		magI = sh
	}
	sum := ts.IntConst64(0)
	digits := make([]*Term, nd)
	p := int64(1)
	for i := 0; i < nd; i++ {
		d, b := ex.witnessDigit()
		digits[nd-1-i] = b
		sum = ts.IntBin(OpIAdd, sum, ts.IntBin(OpIMul, ts.IntConst64(p), d))
		p *= 10
	}
	if nd > 1 {
		ex.assume(ts.Not(ts.Eq(digits[0], ex.byteC('0'))), true)
	}
	ex.assume(ts.Eq(sum, magI), true)
	var bs []*Term
	if neg {
		bs = append(bs, ex.byteC('-'))
	}
	bs = append(bs, digits...)
	return ex.strB(bs)
}

// freshAux creates an auxiliary (witness) variable; it is existential: its
// defining constraint must determine it uniquely.
func (ex *Exec) freshAux(kind string, s Sort) *Term {
	ex.auxN++
	name := fmt.Sprintf("!%s%d", kind, ex.auxN)
	v := ex.ts.Var(name, s)
	ex.inputs = append(ex.inputs, inputRec{name: name, t: v, kind: "aux"})
	return v
}
