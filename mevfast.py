#!/usr/bin/env python3
"""mevfast.py [ids...] - for every seeded change, apply it to the scratch worktree /tmp/mev and run only the quick
harnesses named in its meta.detected_by, with the property's known classes; a seed counts as caught when one of them
reports a violation or a panic. Appends one line per seed to .work/mev/FAST. The full property check on a seed is
mevall.sh; this is the quick regression pass over all seeds after harness changes."""
import json, os, re, subprocess, sys, time
sys.path.insert(0, '/verif')
import vconf

KF = json.load(open('/verif/known_findings.json'))['findings']
byfn = {}
for prop, c in vconf.CHECKS.items():
    for h in c['harnesses']:
        q = h.get('quick', {})
        if q.get('skip'):
            continue
        byfn[q.get('fn', h['fn'])] = (prop, h['pkg'], [str(a) for a in q.get('args', [])], h.get('extra', []))
ids = sys.argv[1:] or sorted(os.listdir('/verif/seeded'))
head = subprocess.check_output(['git', '-C', '/repo', 'rev-parse', 'HEAD']).decode().strip()
if not os.path.isdir('/tmp/mev'):
    subprocess.check_call(['git', '-C', '/repo', 'worktree', 'add', '-q', '--detach', '/tmp/mev', 'HEAD'])
os.makedirs('/verif/.work/mev', exist_ok=True)
out = open('/verif/.work/mev/FAST', 'a')
for sid in ids:
    m = json.load(open(f'/verif/seeded/{sid}/meta.json'))
    base = m.get('applies_to') or head
    fns = [f for f in re.findall(r'Verif[A-Za-z0-9]+', m.get('detected_by', '')) if f in byfn]
    sh = (f"cd /tmp/mev && git checkout -q -- . && git clean -fdq internal cmd && git checkout -q --detach {base} "
          f"&& git apply /verif/seeded/{sid}/patch.diff")
    if subprocess.call(sh, shell=True) != 0:
        out.write(f"{sid} PATCH-DOES-NOT-APPLY\n")
        out.flush()
        continue
    res, caught = [], False
    for fn in fns:
        prop, pkg, args, extra = byfn[fn]
        known = ','.join(f['class'] for f in KF if f['property'] == prop)
        e = dict(os.environ, VERIF_REPO='/tmp/mev', KNOWN=known, EXTRA=','.join(extra))
        t0 = time.time()
        p = subprocess.run(['timeout', '900', './run1.sh', pkg, fn] + args, cwd='/verif', env=e, capture_output=True, text=True)
        txt = p.stdout + p.stderr
        mm = re.search(r"^status (\{.*?\})", txt, re.M)
        if not mm:
            res.append(f"{fn}:DID-NOT-RUN")
            continue
        st = mm.group(1)
        nv = re.search(r"violations=(\d+)", txt)
        bad = ('assert-failed' in st) or ("'panic'" in st) or (nv is not None and int(nv.group(1)) > 0)
        res.append(f"{fn}:{'VIOLATION' if bad else 'clean'}({time.time()-t0:.0f}s)")
        if bad:
            caught = True
            break
    what = ' '.join(res) if res else 'no-harness-named: ' + m.get('detected_by', '')[:90]
    out.write(f"{sid} base={base[:7]} {'CAUGHT' if caught else 'NOT-CAUGHT'} {what}\n")
    out.flush()
    subprocess.call("cd /tmp/mev && git checkout -q -- .", shell=True)
out.write("DONE\n")
out.close()
