#!/usr/bin/env python3
"""Regenerates the seeded-changes table of DESIGN.md (between the table header and the next blank line) from seeded/*/meta.json."""
import json, glob, re
rows = []
for m in sorted(glob.glob('/verif/seeded/*/meta.json')):
    d = json.load(open(m))
    title = d.get('title', '').replace('|', '/')
    first = 'missed' if d.get('initially_missed') else 'caught'
    rows.append(f"| {d['id']} | {d.get('round', 1)} | {title} ({', '.join(d.get('files', []))[:80]}) | {first} | {d.get('detected_by', '')} |")
p = '/verif/DESIGN.md'
s = open(p).read()
head = "| id | round | change | first run | now caught by |\n|---|---|---|---|---|\n"
i = s.index(head) + len(head)
j = s.index("\n\n", i)
s = s[:i] + "\n".join(rows) + s[j:]
open(p, 'w').write(s)
print(len(rows), "rows")
