//go:build verif

package parser

import (
	"github.com/juev/hledger-lsp/internal/ast"
	"github.com/juev/hledger-lsp/internal/zzverif"
)

func init() {
	zzverif.Register("VerifC03Directive", VerifC03Directive)
	zzverif.Register("VerifC03DirectiveDeep", VerifC03DirectiveDeep)
	zzverif.Register("VerifC03DirectiveK0", VerifC03DirectiveK0)
	zzverif.Register("VerifC03DirectiveK1", VerifC03DirectiveK1)
	zzverif.Register("VerifC03DirectiveK2", VerifC03DirectiveK2)
	zzverif.Register("VerifC03DirectiveK3", VerifC03DirectiveK3)
	zzverif.Register("VerifC03DirectiveK4", VerifC03DirectiveK4)
	zzverif.Register("VerifC03DirectiveK5", VerifC03DirectiveK5)
	zzverif.Register("VerifC03DirectiveD0", VerifC03DirectiveD0)
	zzverif.Register("VerifC03DirectiveD1", VerifC03DirectiveD1)
	zzverif.Register("VerifC03DirectiveD2", VerifC03DirectiveD2)
	zzverif.Register("VerifC03DirectiveD3", VerifC03DirectiveD3)
	zzverif.Register("VerifC03DirectiveD5", VerifC03DirectiveD5)
}

// directive := "account" SP acct [ GAP ";" comment ] EOL { IND subdirective EOL }
//            | "commodity" SP ( symL number | number SP symR | symR ) EOL [ IND "format" SP … EOL ]
//            | "include" SP path EOL
//            | "P" SP date SP commodity-symbol SP amount EOL
//            | ( "Y" | "year" ) SP YYYY EOL
//            | "D" SP ( symL number | number SP symR ) EOL
// The directive is followed by a fixed transaction header "2024-01-15 x", so that a directive
// that swallows or leaks a line shows up.

type c03DirCfg struct {
	nSeg, nChar int
	nSym        int
	nText       int // sub-directive value
	nPath       int // include path
	acctSplit   bool
	nCmnt       int
	cmnts       []int
	shapes      []c03NumShape // number samples in commodity / D / format
	pShapes     []c03NumShape // numbers of a P directive
	pForms      []int
	pDates      []int // date shapes of a P directive
	pFocus      int   // 2: quick (symbol kinds and price forms separately); 3: the product
	comForms    int   // 4: quick commodity forms 0..3
	gapN        int
	indN        int
	crlf        int
	wideFirst   int
	wideRest    int
}

type c03FmtSample struct {
	text string // the sample as written
	sym  string
}

// c03MkSample: symL number | number SP symR   (kind 0 / 1), quoted symbols only when quoted is set
func c03MkSample(name string, cfg c03DirCfg, quoted bool) c03FmtSample {
	num := c03MkNumber(name+".n", cfg.shapes[zzverif.Choice(name+".shape", len(cfg.shapes))])
	if zzverif.Choice(name+".side", 2) == 0 {
		ks := []int{0, 1, 2, 5}
		if quoted {
			ks = append(ks, 3)
		}
		s := c03MkSym(name+".sym", ks[zzverif.Choice(name+".symkind", len(ks))], cfg.nSym)
		return c03FmtSample{s.text + num.text, s.sym}
	}
	ks := []int{0, 1, 2, 4, 5}
	if quoted {
		ks = append(ks, 3)
	}
	s := c03MkSym(name+".sym", ks[zzverif.Choice(name+".symkind", len(ks))], cfg.nSym)
	return c03FmtSample{num.text + " " + s.text, s.sym}
}

func c03Indent(name string, n int) string {
	if n <= 1 {
		return "  "
	}
	if k := zzverif.Choice(name, n); k == 8 {
		return "\t"
	} else {
		return c03Spaces(k + 1)
	}
}

// include path: letters, digits and / . _ - ~ * blank; neither starts nor ends with a blank
func c03Path(name string, n int) string {
	in := zzverif.Letters + zzverif.Digit + "/._-~* "
	edge := zzverif.Letters + zzverif.Digit + "/._-~*"
	return c03Leaf(name, n, edge, in, edge, edge, 0, 0)
}

func verifC03Directive(cfg c03DirCfg, kind int) {
	var cx c03Ctx
	eol := "\n"
	if cfg.crlf == 2 || (cfg.crlf == 1 && zzverif.Choice("eol", 2) == 1) {
		eol = "\r\n"
	}
	if cx.knownCRLF(eol) {
		return
	}
	tail := "2024-01-15 x" + eol
	const msgErr = "C03 directive: a G directive produced a syntax error"
	const msgShape = "C03 directive: one directive and the following transaction expected, nothing else"
	checkTail := func(j *ast.Journal, errs []ParseError, nDir, nInc int) {
		zzverif.Observe("nerrs", len(errs))
		zzverif.Assert(len(errs) == 0, cx.msg(msgErr))
		zzverif.Assert(len(j.Directives) == nDir && len(j.Includes) == nInc && len(j.Comments) == 0 && len(j.Transactions) == 1, cx.msg(msgShape))
		zzverif.Assert(j.Transactions[0].Description == "x" && len(j.Transactions[0].Postings) == 0, cx.msg(msgShape))
	}

	switch kind {
	case 0: // account
		subN, plain := 3, false
		if cfg.acctSplit {
			// thorough tier: the name, the comment and the sub-directive are varied separately
			switch zzverif.Choice("acct.focus", 3) {
			case 0: // the name
				cfg.cmnts, cfg.nCmnt, cfg.gapN, subN = []int{-1, 0}, 1, 1, 1
			case 1: // the comment; no sub-directive or a one-character one
				plain, cfg.nText, cfg.indN = true, 1, 1
			default: // the sub-directive
				plain, cfg.cmnts, cfg.nCmnt, cfg.gapN = true, []int{-1, 0}, 1, 1
			}
		}
		var acct string
		if plain {
			acct = c03PlainAcct("acct")
		} else {
			acct = c03MkAcct("acct", cfg.nSeg, cfg.nChar, cfg.wideFirst, cfg.wideRest)
		}
		text := "account "
		acctOff := len(text)
		text += acct
		var cm c03Comment
		wantCm := ""
		if k := cfg.cmnts[zzverif.Choice("cmnt", len(cfg.cmnts))]; k >= 0 {
			cm = c03MkComment("cm", k, cfg.nCmnt)
			text += c03Spaces(2+zzverif.Choice("gap", cfg.gapN)) + ";" + cm.text
			wantCm = cm.text
		}
		text += eol
		subKey, subVal, hasSub := "", "", false
		if k := zzverif.Choice("sub", subN); k > 0 {
			subKey = []string{"note", "type"}[k-1]
			// value of the sub-directive: `desc` text without ':' (G leaves account sub-directives open)
			edge := zzverif.Printable(";|: ")
			subVal = c03Leaf("subval", 1+zzverif.Choice("subval.len", cfg.nText), edge, zzverif.Printable(";|:"), edge, edge, 0, 0)
			hasSub = true
			text += c03Indent("ind", cfg.indN) + subKey + " " + subVal + eol
		}
		text += tail
		if cx.knownAcct(text, acctOff, acct, true) {
			return
		}
		j, errs := Parse(text)
		zzverif.Observe("text", text)
		checkTail(j, errs, 1, 0)
		d, ok := j.Directives[0].(ast.AccountDirective)
		zzverif.Assert(ok, cx.msg("C03 directive: account directive expected"))
		zzverif.Assert(d.Account.Name == acct && d.Comment == wantCm, cx.msg("C03 directive: account directive differs from the derivation"))
		zzverif.Assert(c03TagsEqual(d.Tags, cm.tags), cx.msg("C03 directive: tags of the account directive differ from the derivation"))
		if hasSub {
			v, has := d.Subdirs[subKey]
			zzverif.Assert(len(d.Subdirs) == 1 && has && v == subVal, cx.msg("C03 directive: sub-directive of account differs from the derivation"))
		} else {
			zzverif.Assert(len(d.Subdirs) == 0, cx.msg("C03 directive: sub-directive of account differs from the derivation"))
		}
		zzverif.Reach("C03.directive.account")

	case 1: // commodity
		text := "commodity "
		symOff := len(text)
		wantSym, wantFmt := "", ""
		simple := cfg
		simple.shapes, simple.nSym = cfg.shapes[:1], 1
		// 0: inline sample, every variant   1: simple inline sample + format sub-directive, every variant
		// 2: bare symbol of every kind      3: bare symbol + simple format sub-directive
		// (the deep tier takes the full product: form 4 / 5)
		form := zzverif.Choice("form", cfg.comForms)
		fmtCfg, hasFmt := cfg, false
		var bare c03Sym
		switch form {
		case 0, 1, 4:
			sc := cfg
			if form == 1 {
				sc = simple
			}
			s := c03MkSample("s", sc, false)
			text += s.text
			wantSym, wantFmt = s.sym, s.text
			symOff = -1
			hasFmt = form == 1 || (form == 4 && zzverif.Choice("fmt", 2) == 1)
		default:
			s := c03MkSym("sym", zzverif.Choice("symkind", 6), cfg.nSym)
			bare = s
			text += s.text
			wantSym = s.sym
			hasFmt = form == 3 || (form == 5 && zzverif.Choice("fmt", 2) == 1)
			if form == 3 {
				fmtCfg = simple
			}
		}
		text += eol
		fmtOff := -1
		if hasFmt {
			f := c03MkSample("f", fmtCfg, true)
			ind := cfg.indN
			if form != 3 && cfg.acctSplit {
				ind = 1 // thorough tier: every indentation only in front of the simple format sample
			}
			text += c03Indent("ind", ind)
			fmtOff = len(text)
			text += "format " + f.text + eol
			wantFmt = f.text
		}
		text += tail
		if symOff >= 0 && cx.knownSymbol(text, symOff, bare) {
			return
		}
		// the sub-directive line must come out as one Text token ("format <sample>")
		if fmtOff >= 0 && cx.knownColonAhead(text, fmtOff) {
			return
		}
		j, errs := Parse(text)
		zzverif.Observe("text", text)
		checkTail(j, errs, 1, 0)
		d, ok := j.Directives[0].(ast.CommodityDirective)
		zzverif.Assert(ok, cx.msg("C03 directive: commodity directive expected"))
		zzverif.Observe("format", d.Format)
		zzverif.Assert(d.Commodity.Symbol == wantSym, cx.msg("C03 directive: commodity symbol differs from the derivation"))
		zzverif.Assert(d.Format == wantFmt, cx.msg("C03 directive: commodity format differs from the sample written"))
		zzverif.Reach("C03.directive.commodity")

	case 2: // include
		path := c03Path("path", 1+zzverif.Choice("path.len", cfg.nPath))
		text := "include " + path + eol + tail
		j, errs := Parse(text)
		zzverif.Observe("text", text)
		checkTail(j, errs, 0, 1)
		// class c03-include-path-blank-lost: the path contains a blank (input) and the extracted
		// path differs: parseIncludeDirective glues the values of the lexer's tokens together
		// without the blanks between them ("include 2024 x.journal" -> "2024x.journal")
		blank := false
		for i := 0; i < len(path); i++ {
			blank = blank || path[i] == ' '
		}
		if blank && j.Includes[0].Path != path && cx.knownClass("c03-include-path-blank-lost") {
			return
		}
		zzverif.Assert(j.Includes[0].Path == path, cx.msg("C03 directive: include path differs from the path written"))
		zzverif.Reach("C03.directive.include")

	case 3: // P
		d := c03MkDate("d", cfg.pDates[zzverif.Choice("d.shape", len(cfg.pDates))])
		var sym c03Sym
		var a c03Amount
		pf := 2
		if cfg.pFocus < 3 {
			pf = zzverif.Choice("pfocus", cfg.pFocus)
		}
		switch pf {
		case 0: // every kind of priced symbol, simple price
			sym = c03MkSym("sym", zzverif.Choice("symkind", 6), cfg.nSym)
			a = c03PickAmount("a", []int{0, 3, 11}, []int{0, 2}, 1, cfg.pShapes[:1])
		case 1: // every form of the price, the priced symbol is a code
			sym = c03MkSym("sym", 2, 1)
			a = c03PickAmount("a", cfg.pForms, []int{0, 1, 2, 3, 4}, cfg.nSym, cfg.pShapes)
		default: // deep tier: the product
			sym = c03MkSym("sym", zzverif.Choice("symkind", 6), cfg.nSym)
			a = c03PickAmount("a", cfg.pForms, []int{0, 1, 2, 3, 4}, cfg.nSym, cfg.pShapes)
		}
		text := "P " + d.text + " "
		symOff := len(text)
		text += sym.text + " "
		amtOff := len(text)
		text += a.text + eol + tail
		if cx.knownSymbol(text, symOff, sym) {
			return
		}
		if cx.knownAmounts(text, 0, []c03AmtRef{{a, amtOff}}) {
			return
		}
		j, errs := Parse(text)
		zzverif.Observe("text", text)
		checkTail(j, errs, 1, 0)
		pd, ok2 := j.Directives[0].(ast.PriceDirective)
		zzverif.Assert(ok2, cx.msg("C03 directive: P directive expected"))
		zzverif.Assert(c03DateOf(pd.Date) == d.v() && pd.Commodity.Symbol == sym.sym, cx.msg("C03 directive: P date or commodity differs from the derivation"))
		zzverif.Assert(c03AmtOf(&pd.Price) == a.v, cx.msg("C03 directive: P price differs from the derivation"))
		zzverif.Assert(c03QtyEqual(&pd.Price, a.canon), cx.msg("C03 directive: P price quantity differs from the exact value written"))
		zzverif.Reach("C03.directive.price")

	case 4: // Y | year
		y := zzverif.Digits("y", 4)
		zzverif.Assume(y != "0000") // year 0 does not exist
		text := []string{"Y", "year"}[zzverif.Choice("kw", 2)] + " " + y + eol + tail
		j, errs := Parse(text)
		zzverif.Observe("text", text)
		checkTail(j, errs, 1, 0)
		yd, ok := j.Directives[0].(ast.YearDirective)
		zzverif.Assert(ok && yd.Year == c03Num(y), cx.msg("C03 directive: year directive differs from the derivation"))
		zzverif.Reach("C03.directive.year")

	default: // D
		s := c03MkSample("s", cfg, false)
		text := "D " + s.text + eol + tail
		j, errs := Parse(text)
		zzverif.Observe("text", text)
		checkTail(j, errs, 1, 0)
		dd, ok := j.Directives[0].(ast.DefaultCommodityDirective)
		zzverif.Assert(ok, cx.msg("C03 directive: D directive expected"))
		zzverif.Observe("format", dd.Format)
		zzverif.Assert(dd.Symbol == s.sym && dd.Format == s.text, cx.msg("C03 directive: D directive differs from the derivation"))
		zzverif.Reach("C03.directive.default")
	}
}

var c03FmtShapes = []c03NumShape{
	{groups: []int{4}, mark: ".", flen: 2},
	{groups: []int{1, 3}, gsep: ",", mark: ".", flen: 2},
	{groups: []int{1, 3}, gsep: ".", mark: ",", flen: 2},
	{groups: []int{1, 3}, gsep: " ", mark: ",", flen: 2},
	{groups: []int{1}},
}

func c03DirQuick() c03DirCfg {
	return c03DirCfg{nSeg: 2, nChar: 1, nSym: 2, nText: 2, nPath: 3, nCmnt: 1, cmnts: []int{-1, 0, 1}, shapes: c03FmtShapes, pShapes: c03SimpleShapes,
		pForms: []int{0, 1, 3, 5, 7, 11, 13}, pDates: []int{3, 4, 9}, pFocus: 2, comForms: 4, gapN: 1, indN: 1, wideFirst: 3, wideRest: 1}
}

func VerifC03Directive() {
	kind := zzverif.Choice("kind", 7)
	if kind == 6 { // CRLF for every kind, small leaves
		verifC03Directive(c03DirCRLF(), zzverif.Choice("crlf.kind", 6))
		return
	}
	verifC03Directive(c03DirQuick(), kind)
}

// (a separate function: assigning a struct literal to an existing variable inside a branch
// loses the slice fields under the executor)
func c03DirCRLF() c03DirCfg {
	return c03DirCfg{nSeg: 2, nChar: 1, nSym: 1, nText: 1, nPath: 1, nCmnt: 1, cmnts: []int{-1, 0}, shapes: c03FmtShapes[:2], pShapes: c03SimpleShapes[:1],
		pForms: []int{0, 3, 11}, pDates: []int{3}, pFocus: 2, comForms: 4, gapN: 1, indN: 1, crlf: 2}
}

// single kinds (development and narrowing down)
func VerifC03DirectiveK0() { verifC03Directive(c03DirQuick(), 0) }
func VerifC03DirectiveK1() { verifC03Directive(c03DirQuick(), 1) }
func VerifC03DirectiveK2() { verifC03Directive(c03DirQuick(), 2) }
func VerifC03DirectiveK3() { verifC03Directive(c03DirQuick(), 3) }
func VerifC03DirectiveK4() { verifC03Directive(c03DirQuick(), 4) }
func VerifC03DirectiveK5() { verifC03Directive(c03DirQuick(), 5) }

// thorough tier: every kind with larger leaves, every indentation, long number notations; the
// P directive keeps symbol kinds and price forms separate (their product is out of reach)
func c03DirDeep() c03DirCfg {
	return c03DirCfg{nSeg: 2, nChar: 2, acctSplit: true, nSym: 2, nText: 4, nPath: 5, nCmnt: 2, cmnts: []int{-1, 0, 1, 3}, shapes: c03NumShapes(false), pShapes: c03NumShapes(false),
		pForms: c03AllForms, pDates: []int{3, 10}, pFocus: 2, comForms: 4, gapN: 2, indN: 9, wideFirst: 7, wideRest: 1}
}

func VerifC03DirectiveDeep() {
	kind := zzverif.Choice("kind", 7)
	if kind == 6 {
		verifC03Directive(c03DirCRLF(), zzverif.Choice("crlf.kind", 6))
		return
	}
	verifC03Directive(c03DirDeep(), kind)
}

func VerifC03DirectiveD0() { verifC03Directive(c03DirDeep(), 0) }
func VerifC03DirectiveD1() { verifC03Directive(c03DirDeep(), 1) }
func VerifC03DirectiveD2() { verifC03Directive(c03DirDeep(), 2) }
func VerifC03DirectiveD3() { verifC03Directive(c03DirDeep(), 3) }
func VerifC03DirectiveD5() { verifC03Directive(c03DirDeep(), 5) }
