//go:build verif

package parser

import (
	"github.com/juev/hledger-lsp/internal/ast"
	"github.com/juev/hledger-lsp/internal/zzverif"
)

func init() {
	zzverif.Register("VerifC07Bytes", VerifC07Bytes)
	zzverif.Register("VerifC07Bytes2", VerifC07Bytes2)
	zzverif.Register("VerifC07Lines", VerifC07Lines)
	zzverif.Register("VerifC07Deep", VerifC07Deep)
	zzverif.Register("VerifC07Deep2", VerifC07Deep2)
	zzverif.Register("VerifC07LinesDeep", VerifC07LinesDeep)
	zzverif.Register("VerifC07SpecialDeep", VerifC07SpecialDeep)
}

// C07: a journal J of three entries (fixed G shapes); one entry e is damaged; every other
// entry must be extracted with identical content, at positions shifted by exactly the lines
// (and bytes) inserted or removed, and every syntax error must lie on a line of damaged e.
//
// The lines of damaged e are an opaque region: whatever they parse into is not examined
// (an inserted newline followed by a digit starts a new transaction by design). Entries are
// attributed by the line they start on: before the region / inside / after it.

// ---------- the fixed G shapes ----------

var c07Shapes = []string{
	// 0: transaction, 2 postings, header comment with tag, cost, assertion, comment line
	"2024-01-15 * (c1) shop | note ; k: v\n  a:food  $1.50 @ 2 EUR\n  ; t: c\n  a:cash  = $9\n",
	// 1: account with comment, tag and sub-directive
	"account a:cash  ; type: A\n  note main\n",
	// 2: commodity with format
	"commodity EUR\n  format 1.000,00 EUR\n",
	// 3: P
	"P 2024-01-16 EUR $1.10\n",
	// 4: include
	"include o.journal\n",
	// 5: transaction, 3 postings: secondary date, pending, virtual postings, quoted commodity, strict assertion
	"2024-01-17=2024-01-18 ! pay\n  (v:x)  -1 \"a b\"\n  [w:y]  2.5 USD == 3 USD ; n:\n  z:q\n",
	// 6 (c07NbTx): a shorter transaction, only used as a neighbour in the quick tier
	"2024-01-15 * (c1) shop ; k: v\n  a:food  $1.50\n  a:cash  = $9\n",
	// 7 (c07NbTx2): a still shorter one, with a quoted commodity (a quote that an unbalanced quote
	// earlier in the file could pair with)
	"2024-01-16 pay\n  a:b  1 \"U S\"\n  c:d\n",
	// 8 (c07HeadOnly): a transaction without postings: its header line is directly followed by
	// the next entry
	"2024-01-19 memo\n",
}

const (
	c07NbTx     = 6
	c07NbTx2    = 7
	c07HeadOnly = 8
)

// ---------- rendering of extracted entries with shifted positions ----------

type c07Shift struct {
	dl, do int
	// maskEndFrom > 0: the End of an entry's own range is rendered as "E" when it lies on a line
	// >= maskEndFrom (used only under the known-finding class c07-prev-end-after-leading-punct)
	maskEndFrom int
}

// erng renders the range of a whole entry (transaction / directive).
func (s c07Shift) erng(r ast.Range) string {
	if s.maskEndFrom > 0 && r.End.Line >= s.maskEndFrom {
		return "[" + s.posz(r.Start) + "-E]"
	}
	return s.rng(r)
}

func (s c07Shift) pos(p ast.Position) string {
	return zzverif.Itoa(p.Line-s.dl) + ":" + zzverif.Itoa(p.Column) + ":" + zzverif.Itoa(p.Offset-s.do)
}

// rng: a zero range stays zero (several ranges are left unset by the parser)
func (s c07Shift) rng(r ast.Range) string {
	return "[" + s.posz(r.Start) + "-" + s.posz(r.End) + "]"
}

func (s c07Shift) posz(p ast.Position) string {
	if p.Line == 0 && p.Column == 0 && p.Offset == 0 {
		return "0"
	}
	return s.pos(p)
}

func c07B(b bool) string {
	if b {
		return "t"
	}
	return "f"
}

func (s c07Shift) tags(ts []ast.Tag) string {
	out := "tags{"
	for _, t := range ts {
		out += t.Name + "=" + t.Value + s.rng(t.Range) + ","
	}
	return out + "}"
}

func (s c07Shift) comments(cs []ast.Comment) string {
	out := "comments{"
	for _, c := range cs {
		out += c.Text + s.rng(c.Range) + s.tags(c.Tags) + ","
	}
	return out + "}"
}

func (s c07Shift) date(d ast.Date) string {
	return zzverif.Itoa(d.Year) + "/" + zzverif.Itoa(d.Month) + "/" + zzverif.Itoa(d.Day) + s.rng(d.Range)
}

func (s c07Shift) amount(a *ast.Amount) string {
	if a == nil {
		return "nil"
	}
	return "amt{" + a.Quantity.String() + "|" + a.RawQuantity + "|" + a.Commodity.Symbol + "|" + zzverif.Itoa(int(a.Commodity.Position)) +
		s.rng(a.Commodity.Range) + "|" + c07B(a.SignBeforeCommodity) + s.rng(a.Range) + "}"
}

func (s c07Shift) posting(p ast.Posting) string {
	out := "posting{" + zzverif.Itoa(int(p.Status)) + "|" + zzverif.Itoa(int(p.Virtual)) + "|" + p.Account.Name + s.rng(p.Account.Range) + "|" + s.amount(p.Amount)
	if p.Cost != nil {
		out += "|cost{" + c07B(p.Cost.IsTotal) + s.amount(&p.Cost.Amount) + s.rng(p.Cost.Range) + "}"
	}
	if p.BalanceAssertion != nil {
		b := p.BalanceAssertion
		out += "|assert{" + c07B(b.IsStrict) + c07B(b.IsInclusive) + s.amount(&b.Amount) + s.rng(b.Range) + "}"
	}
	return out + "|" + p.Comment + s.tags(p.Tags) + s.rng(p.Range) + "}"
}

func (s c07Shift) tx(t ast.Transaction) string {
	out := "tx{" + s.date(t.Date)
	if t.Date2 != nil {
		out += "=" + s.date(*t.Date2)
	}
	out += "|" + zzverif.Itoa(int(t.Status)) + "|" + t.Code + "|" + t.Description + "|" + t.Payee + "|" + t.Note + "|"
	for _, p := range t.Postings {
		out += s.posting(p)
	}
	return out + s.tags(t.Tags) + s.comments(t.Comments) + s.erng(t.Range) + "}"
}

func c07Subdirs(m map[string]string) string {
	out := "sub" + zzverif.Itoa(len(m)) + "{"
	for _, k := range []string{"note", "format", "type", "alias"} {
		if v, ok := m[k]; ok {
			out += k + "=" + v + ","
		}
	}
	return out + "}"
}

func (s c07Shift) dir(d ast.Directive) string {
	switch d := d.(type) {
	case ast.AccountDirective:
		return "account{" + d.Account.Name + s.rng(d.Account.Range) + "|" + d.Comment + s.tags(d.Tags) + c07Subdirs(d.Subdirs) + s.erng(d.Range) + "}"
	case ast.CommodityDirective:
		return "commodity{" + d.Commodity.Symbol + s.rng(d.Commodity.Range) + "|" + d.Format + "|" + d.Note + c07Subdirs(d.Subdirs) + s.erng(d.Range) + "}"
	case ast.PriceDirective:
		return "P{" + s.date(d.Date) + "|" + d.Commodity.Symbol + s.rng(d.Commodity.Range) + "|" + s.amount(&d.Price) + s.rng(d.Range) + "}"
	case ast.YearDirective:
		return "Y{" + zzverif.Itoa(d.Year) + s.rng(d.Range) + "}"
	case ast.DefaultCommodityDirective:
		return "D{" + d.Symbol + "|" + d.Format + s.rng(d.Range) + "}"
	case ast.Include:
		return "include{" + d.Path + s.rng(d.Range) + "}"
	}
	return "?"
}

// c07Side renders every entry of j that starts on a line in [lo, hi] (in j's own line
// numbers), with positions shifted back by sh.
func c07Side(j *ast.Journal, lo, hi int, sh c07Shift) string {
	out := ""
	for _, t := range j.Transactions {
		if l := t.Range.Start.Line; l >= lo && l <= hi {
			out += sh.tx(t)
		}
	}
	out += "#"
	for _, d := range j.Directives {
		if l := d.GetRange().Start.Line; l >= lo && l <= hi {
			out += sh.dir(d)
		}
	}
	out += "#"
	for _, d := range j.Includes {
		if l := d.Range.Start.Line; l >= lo && l <= hi {
			out += sh.dir(d)
		}
	}
	out += "#"
	for _, c := range j.Comments {
		if l := c.Range.Start.Line; l >= lo && l <= hi {
			out += c.Text + sh.rng(c.Range) + sh.tags(c.Tags)
		}
	}
	return out
}

// ---------- damage ----------

func c07Lines(s string) []string { // lines including their terminator
	var out []string
	start := 0
	for i := 0; i < len(s); i++ {
		if s[i] == '\n' {
			out = append(out, s[start:i+1])
			start = i + 1
		}
	}
	if start < len(s) {
		out = append(out, s[start:])
	}
	return out
}

func c07Join(ls []string) string {
	s := ""
	for _, l := range ls {
		s += l
	}
	return s
}

func c07SymBytes(name string, m int) string {
	b := make([]byte, m)
	for i := range b {
		b[i] = zzverif.Byte(name + zzverif.Itoa(i))
	}
	return string(b)
}

const c07Specials = "\"()[]@=|;*"

// damage kinds
const (
	c07Overwrite = iota // m symbolic bytes replace the bytes at o..o+m-1
	c07Insert           // m symbolic bytes inserted at o
	c07Special          // one of " ( ) [ ] @ = | ; * inserted at o
	c07Truncate         // the rest of the line from offset o on is cut (terminator kept)
	c07DelLine          // line li removed
	c07DupLine          // line li duplicated
	c07SwapLines        // lines li and li+1 exchanged
)

// c07Damage applies damage to entry text e (which ends with its line terminator; the final
// terminator is never touched). hasPrev: an entry precedes e.
func c07Damage(e string, kind, m int, hasPrev bool) string {
	n := len(e)
	switch kind {
	case c07Overwrite:
		o := zzverif.Choice("o", n-m) // o+m <= n-1
		return e[:o] + c07SymBytes("b", m) + e[o+m:]
	case c07Insert:
		o := zzverif.Choice("o", n) // 0..n-1: before the final terminator at the latest
		return e[:o] + c07SymBytes("b", m) + e[o:]
	case c07Special:
		o := zzverif.Choice("o", n)
		c := zzverif.Choice("c", len(c07Specials))
		return e[:o] + c07Specials[c:c+1] + e[o:]
	case c07Truncate:
		o := zzverif.Choice("o", n-1)
		zzverif.Assume(e[o] != '\n') // something is cut
		end := o
		for e[end] != '\n' {
			end++
		}
		return e[:o] + e[end:]
	}
	ls := c07Lines(e)
	switch kind {
	case c07DelLine:
		// removing the first line hands the entry's indented lines to the preceding entry by
		// design; it is only done when nothing precedes or nothing indented follows
		li := zzverif.Choice("li", len(ls))
		zzverif.Assume(li > 0 || !hasPrev || len(ls) == 1)
		return c07Join(ls[:li]) + c07Join(ls[li+1:])
	case c07DupLine:
		li := zzverif.Choice("li", len(ls))
		return c07Join(ls[:li+1]) + c07Join(ls[li:])
	default: // swap li, li+1
		zzverif.Assume(len(ls) >= 2)
		li := zzverif.Choice("li", len(ls)-1)
		zzverif.Assume(li > 0 || !hasPrev) // an indented line first would belong to the preceding entry
		out := c07Join(ls[:li]) + ls[li+1] + ls[li] + c07Join(ls[li+2:])
		return out
	}
}

// c07LatePunctAt: s starts with a character for which the lexer builds the token after it has
// consumed the character (lexer.go makeToken):  | ) [ ]  and '(' when a ':' follows before the
// next ')' or the line end.
func c07LatePunctAt(s string) bool {
	if len(s) == 0 {
		return false
	}
	switch s[0] {
	case '|', ')', '[', ']':
		return true
	case '(':
		for i := 1; i < len(s); i++ {
			if s[i] == ')' || s[i] == '\n' {
				return false
			}
			if s[i] == ':' {
				return true
			}
		}
	}
	return false
}

func c07CountNL(s string) int {
	n := 0
	for i := 0; i < len(s); i++ {
		if s[i] == '\n' {
			n++
		}
	}
	return n
}

// c07J is one experiment: the entries of the journal and the index of the damaged one.
type c07J struct {
	ent []string
	// endsAtNext[i]: the parser sets the Range.End of entry i (transaction, account and commodity
	// directive) to the position of the first token after the entry
	endsAtNext []bool
	idx        int
}

func c07Of(idx int, shapes ...int) c07J {
	j := c07J{idx: idx}
	for _, k := range shapes {
		j.ent = append(j.ent, c07Shapes[k])
		j.endsAtNext = append(j.endsAtNext, k == 0 || k == 1 || k == 2 || k == 5 || k == c07NbTx || k == c07NbTx2 || k == c07HeadOnly)
	}
	return j
}

// verifC07 runs one containment experiment: entry j.idx of the journal is damaged.
func verifC07(j c07J, kind, m int) {
	idx := j.idx
	before, after := "", ""
	for i := 0; i < idx; i++ {
		before += j.ent[i]
	}
	for i := idx + 1; i < len(j.ent); i++ {
		after += j.ent[i]
	}
	e := j.ent[idx]
	dmg := c07Damage(e, kind, m, idx > 0)
	if idx > 0 && len(dmg) > 0 {
		// a first line that starts with white space is, by design, a continuation of the
		// preceding entry: outside the claim
		c := dmg[0]
		zzverif.Assume(c != ' ' && c != '\t' && c != '\r')
	}
	intact := before + e + after
	damaged := before + dmg + after

	first := 1 + c07CountNL(before) // first line of e
	nl, nlD := c07CountNL(e), c07CountNL(dmg)
	last := first + nlD - 1 // last line of the damaged region (first-1 when the entry vanished)
	sh := c07Shift{dl: nlD - nl, do: len(dmg) - len(e)}

	ref, refErrs := Parse(intact)
	zzverif.Assert(len(refErrs) == 0, "C07 harness: the intact journal must parse without errors")
	got, errs := Parse(damaged)
	zzverif.Observe("damaged", damaged)
	zzverif.Observe("nerrs", len(errs))

	for _, pe := range errs {
		zzverif.Assert(pe.Pos.Line >= first && pe.Pos.Line <= last, "C07: a syntax error is reported outside the damaged entry")
	}
	wantBefore := c07Side(ref, 1, first-1, c07Shift{})
	gotBefore := c07Side(got, 1, first-1, c07Shift{})
	if gotBefore != wantBefore && idx > 0 && j.endsAtNext[idx-1] && c07LatePunctAt(dmg) {
		// class c07-prev-end-after-leading-punct (input: the entry before the damaged one is a
		// transaction / account / commodity directive, and the damaged entry now starts with one of
		// | ) [ ] or a '(' that is followed by ':' before the next ')'). The lexer gives these
		// one-character tokens the position AFTER the character, and the preceding entry's
		// Range.End is the position of the token that follows it: its End moves one column.
		// Only that End is left out; content and every other position are still compared.
		if zzverif.Known("c07-prev-end-after-leading-punct") {
			zzverif.Reach("kf:c07-prev-end-after-leading-punct")
			m := c07Shift{maskEndFrom: first}
			zzverif.Assert(c07Side(got, 1, first-1, m) == c07Side(ref, 1, first-1, m), "C07: an entry before the damaged one is extracted differently")
		} else {
			zzverif.Assert(false, "C07: an entry before the damaged one is extracted differently [c07-prev-end-after-leading-punct]")
		}
	} else {
		zzverif.Assert(gotBefore == wantBefore, "C07: an entry before the damaged one is extracted differently")
	}
	const far = 1 << 30
	wantAfter := c07Side(ref, first+nl, far, c07Shift{})
	gotAfter := c07Side(got, last+1, far, sh)
	zzverif.Assert(gotAfter == wantAfter, "C07: an entry after the damaged one is extracted differently")
	zzverif.Reach("C07.contain.end")
}

// c07Light: the journals of the quick tier. Every shape is damaged between a transaction and a
// directive with sub-directives (both orders), as first entry of the file (a transaction
// follows) and as last entry (a commodity directive with format precedes). The neighbours are
// short: the cost of a path is the two parses.
func c07Light(shapes int) c07J {
	ctx := zzverif.Choice("ctx", 7)
	switch ctx {
	case 6: // a transaction whose last line ends in an account name (no amount), directly followed by a P directive
		return c07Of(1, 2, c07NbTx2, 3)
	case 4: // a header-only transaction directly followed by a P directive
		return c07Of(1, c07NbTx2, c07HeadOnly, 3)
	case 5: // ... by a commodity directive with a format sub-directive
		return c07Of(1, c07NbTx2, c07HeadOnly, 2)
	}
	e := zzverif.Choice("e.kind", shapes)
	switch ctx {
	case 0:
		return c07Of(1, c07NbTx, e, 1)
	case 1:
		return c07Of(1, 1, e, c07NbTx2)
	case 2:
		return c07Of(0, e, c07NbTx)
	default:
		return c07Of(1, 2, e)
	}
}

// c07Rich: three entries, the neighbours are the full shapes 0 / 1 / 2 / 4.
func c07Rich(shapes int) c07J {
	e := zzverif.Choice("e.kind", shapes)
	switch zzverif.Choice("ctx", 4) {
	case 0:
		return c07Of(1, 0, e, 1)
	case 1:
		return c07Of(1, 1, e, 0)
	case 2:
		return c07Of(0, e, 0, 4)
	default:
		return c07Of(2, 4, 2, e)
	}
}

// c07Full: three entries, every shape at every place, every place damaged.
func c07Full(shapes int) c07J {
	idx := zzverif.Choice("idx", 3)
	var k [3]int
	for i := range k {
		k[i] = zzverif.Choice("k"+zzverif.Itoa(i), shapes)
	}
	return c07Of(idx, k[0], k[1], k[2])
}

var (
	c07ByteDamages = []int{c07Overwrite, c07Insert, c07Special}
	c07LineDamages = []int{c07Truncate, c07DelLine, c07DupLine, c07SwapLines}
)

// quick tier
func VerifC07Bytes() { // one arbitrary byte overwritten / inserted, one special character inserted, at every offset
	verifC07(c07Light(5), c07ByteDamages[zzverif.Choice("dmg", 3)], 1)
}

func VerifC07Bytes2() { // two arbitrary bytes overwritten / inserted at every offset of a P directive (commodity directive before, transaction after)
	verifC07(c07Of(1, 2, 3, c07NbTx2), c07ByteDamages[zzverif.Choice("dmg", 2)], 2)
}

func VerifC07Lines() { // truncation at every offset, deleted / duplicated / exchanged lines
	verifC07(c07Rich(6), c07LineDamages[zzverif.Choice("dmg", 4)], 0)
}

// thorough tier
func VerifC07Deep() { // as Bytes, all six shapes, full-size neighbours
	verifC07(c07Rich(6), c07ByteDamages[zzverif.Choice("dmg", 3)], 1)
}

func VerifC07Deep2() { // two arbitrary bytes at every offset of every directive shape and of a short transaction
	e := []int{1, 2, 3, 4, c07NbTx2}[zzverif.Choice("e.kind", 5)]
	j := c07Of(1, 2, e, c07NbTx2)
	if e == c07NbTx2 {
		j = c07Of(1, 2, e, 1)
	}
	verifC07(j, c07ByteDamages[zzverif.Choice("dmg", 2)], 2)
}

func VerifC07LinesDeep() { // line damages with every shape at every place
	verifC07(c07Full(6), c07LineDamages[zzverif.Choice("dmg", 4)], 0)
}

func VerifC07SpecialDeep() { // one special character inserted at every offset, every shape between every pair of neighbours
	k0, e, k2 := zzverif.Choice("k0", 6), zzverif.Choice("e.kind", 6), zzverif.Choice("k2", 6)
	verifC07(c07Of(1, k0, e, k2), c07Special, 1)
}
