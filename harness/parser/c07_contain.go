//go:build verif

package parser

import (
	"github.com/juev/hledger-lsp/internal/ast"
	"github.com/juev/hledger-lsp/internal/zzverif"
)

func init() {
	zzverif.Register("VerifC07Bytes", VerifC07Bytes)
	zzverif.Register("VerifC07Bytes2", VerifC07Bytes2)
	zzverif.Register("VerifC07Lines", VerifC07Lines)
	zzverif.Register("VerifC07Deep", VerifC07Deep)
	zzverif.Register("VerifC07Deep2", VerifC07Deep2)
}

// C07: a journal J of three entries (fixed G shapes); one entry e is damaged; every other
// entry must be extracted with identical content, at positions shifted by exactly the lines
// (and bytes) inserted or removed, and every syntax error must lie on a line of damaged e.
//
// The lines of damaged e are an opaque region: whatever they parse into is not examined
// (an inserted newline followed by a digit starts a new transaction by design). Entries are
// attributed by the line they start on: before the region / inside / after it.

// ---------- the fixed G shapes ----------

var c07Shapes = []string{
	// 0: transaction, 2 postings, header comment with tag, cost, assertion, comment line
	"2024-01-15 * (c1) shop | note ; k: v\n  a:food  $1.50 @ 2 EUR\n  ; t: c\n  a:cash  = $9\n",
	// 1: account with comment, tag and sub-directive
	"account a:cash  ; type: A\n  note main\n",
	// 2: commodity with format
	"commodity EUR\n  format 1.000,00 EUR\n",
	// 3: P
	"P 2024-01-16 EUR $1.10\n",
	// 4: include
	"include o.journal\n",
	// 5: transaction, 3 postings: secondary date, pending, virtual postings, quoted commodity, strict assertion
	"2024-01-17=2024-01-18 ! pay\n  (v:x)  -1 \"a b\"\n  [w:y]  2.5 USD == 3 USD ; n:\n  z:q\n",
}

// ---------- rendering of extracted entries with shifted positions ----------

type c07Shift struct{ dl, do int }

func (s c07Shift) pos(p ast.Position) string {
	return zzverif.Itoa(p.Line-s.dl) + ":" + zzverif.Itoa(p.Column) + ":" + zzverif.Itoa(p.Offset-s.do)
}

// rng: a zero range stays zero (several ranges are left unset by the parser)
func (s c07Shift) rng(r ast.Range) string {
	return "[" + s.posz(r.Start) + "-" + s.posz(r.End) + "]"
}

func (s c07Shift) posz(p ast.Position) string {
	if p.Line == 0 && p.Column == 0 && p.Offset == 0 {
		return "0"
	}
	return s.pos(p)
}

func c07B(b bool) string {
	if b {
		return "t"
	}
	return "f"
}

func (s c07Shift) tags(ts []ast.Tag) string {
	out := "tags{"
	for _, t := range ts {
		out += t.Name + "=" + t.Value + s.rng(t.Range) + ","
	}
	return out + "}"
}

func (s c07Shift) comments(cs []ast.Comment) string {
	out := "comments{"
	for _, c := range cs {
		out += c.Text + s.rng(c.Range) + s.tags(c.Tags) + ","
	}
	return out + "}"
}

func (s c07Shift) date(d ast.Date) string {
	return zzverif.Itoa(d.Year) + "/" + zzverif.Itoa(d.Month) + "/" + zzverif.Itoa(d.Day) + s.rng(d.Range)
}

func (s c07Shift) amount(a *ast.Amount) string {
	if a == nil {
		return "nil"
	}
	return "amt{" + a.Quantity.String() + "|" + a.RawQuantity + "|" + a.Commodity.Symbol + "|" + zzverif.Itoa(int(a.Commodity.Position)) +
		s.rng(a.Commodity.Range) + "|" + c07B(a.SignBeforeCommodity) + s.rng(a.Range) + "}"
}

func (s c07Shift) posting(p ast.Posting) string {
	out := "posting{" + zzverif.Itoa(int(p.Status)) + "|" + zzverif.Itoa(int(p.Virtual)) + "|" + p.Account.Name + s.rng(p.Account.Range) + "|" + s.amount(p.Amount)
	if p.Cost != nil {
		out += "|cost{" + c07B(p.Cost.IsTotal) + s.amount(&p.Cost.Amount) + s.rng(p.Cost.Range) + "}"
	}
	if p.BalanceAssertion != nil {
		b := p.BalanceAssertion
		out += "|assert{" + c07B(b.IsStrict) + c07B(b.IsInclusive) + s.amount(&b.Amount) + s.rng(b.Range) + "}"
	}
	return out + "|" + p.Comment + s.tags(p.Tags) + s.rng(p.Range) + "}"
}

func (s c07Shift) tx(t ast.Transaction) string {
	out := "tx{" + s.date(t.Date)
	if t.Date2 != nil {
		out += "=" + s.date(*t.Date2)
	}
	out += "|" + zzverif.Itoa(int(t.Status)) + "|" + t.Code + "|" + t.Description + "|" + t.Payee + "|" + t.Note + "|"
	for _, p := range t.Postings {
		out += s.posting(p)
	}
	return out + s.tags(t.Tags) + s.comments(t.Comments) + s.rng(t.Range) + "}"
}

func c07Subdirs(m map[string]string) string {
	out := "sub" + zzverif.Itoa(len(m)) + "{"
	for _, k := range []string{"note", "format", "type", "alias"} {
		if v, ok := m[k]; ok {
			out += k + "=" + v + ","
		}
	}
	return out + "}"
}

func (s c07Shift) dir(d ast.Directive) string {
	switch d := d.(type) {
	case ast.AccountDirective:
		return "account{" + d.Account.Name + s.rng(d.Account.Range) + "|" + d.Comment + s.tags(d.Tags) + c07Subdirs(d.Subdirs) + s.rng(d.Range) + "}"
	case ast.CommodityDirective:
		return "commodity{" + d.Commodity.Symbol + s.rng(d.Commodity.Range) + "|" + d.Format + "|" + d.Note + c07Subdirs(d.Subdirs) + s.rng(d.Range) + "}"
	case ast.PriceDirective:
		return "P{" + s.date(d.Date) + "|" + d.Commodity.Symbol + s.rng(d.Commodity.Range) + "|" + s.amount(&d.Price) + s.rng(d.Range) + "}"
	case ast.YearDirective:
		return "Y{" + zzverif.Itoa(d.Year) + s.rng(d.Range) + "}"
	case ast.DefaultCommodityDirective:
		return "D{" + d.Symbol + "|" + d.Format + s.rng(d.Range) + "}"
	case ast.Include:
		return "include{" + d.Path + s.rng(d.Range) + "}"
	}
	return "?"
}

// c07Side renders every entry of j that starts on a line in [lo, hi] (in j's own line
// numbers), with positions shifted back by sh.
func c07Side(j *ast.Journal, lo, hi int, sh c07Shift) string {
	out := ""
	for _, t := range j.Transactions {
		if l := t.Range.Start.Line; l >= lo && l <= hi {
			out += sh.tx(t)
		}
	}
	out += "#"
	for _, d := range j.Directives {
		if l := d.GetRange().Start.Line; l >= lo && l <= hi {
			out += sh.dir(d)
		}
	}
	out += "#"
	for _, d := range j.Includes {
		if l := d.Range.Start.Line; l >= lo && l <= hi {
			out += sh.dir(d)
		}
	}
	out += "#"
	for _, c := range j.Comments {
		if l := c.Range.Start.Line; l >= lo && l <= hi {
			out += c.Text + sh.rng(c.Range) + sh.tags(c.Tags)
		}
	}
	return out
}

// ---------- damage ----------

func c07Lines(s string) []string { // lines including their terminator
	var out []string
	start := 0
	for i := 0; i < len(s); i++ {
		if s[i] == '\n' {
			out = append(out, s[start:i+1])
			start = i + 1
		}
	}
	if start < len(s) {
		out = append(out, s[start:])
	}
	return out
}

func c07Join(ls []string) string {
	s := ""
	for _, l := range ls {
		s += l
	}
	return s
}

func c07SymBytes(name string, m int) string {
	b := make([]byte, m)
	for i := range b {
		b[i] = zzverif.Byte(name + zzverif.Itoa(i))
	}
	return string(b)
}

const c07Specials = "\"()[]@=|;*"

// damage kinds
const (
	c07Overwrite = iota // m symbolic bytes replace the bytes at o..o+m-1
	c07Insert           // m symbolic bytes inserted at o
	c07Special          // one of " ( ) [ ] @ = | ; * inserted at o
	c07Truncate         // the rest of the line from offset o on is cut (terminator kept)
	c07DelLine          // line li removed
	c07DupLine          // line li duplicated
	c07SwapLines        // lines li and li+1 exchanged
)

// c07Damage applies damage to entry text e (which ends with its line terminator; the final
// terminator is never touched). hasPrev: an entry precedes e.
func c07Damage(e string, kind, m int, hasPrev bool) string {
	n := len(e)
	switch kind {
	case c07Overwrite:
		o := zzverif.Choice("o", n-m) // o+m <= n-1
		return e[:o] + c07SymBytes("b", m) + e[o+m:]
	case c07Insert:
		o := zzverif.Choice("o", n) // 0..n-1: before the final terminator at the latest
		return e[:o] + c07SymBytes("b", m) + e[o:]
	case c07Special:
		o := zzverif.Choice("o", n)
		c := zzverif.Choice("c", len(c07Specials))
		return e[:o] + c07Specials[c:c+1] + e[o:]
	case c07Truncate:
		o := zzverif.Choice("o", n-1)
		zzverif.Assume(e[o] != '\n') // something is cut
		end := o
		for e[end] != '\n' {
			end++
		}
		return e[:o] + e[end:]
	}
	ls := c07Lines(e)
	switch kind {
	case c07DelLine:
		// removing the first line hands the entry's indented lines to the preceding entry by
		// design; it is only done when nothing precedes or nothing indented follows
		li := zzverif.Choice("li", len(ls))
		zzverif.Assume(li > 0 || !hasPrev || len(ls) == 1)
		return c07Join(ls[:li]) + c07Join(ls[li+1:])
	case c07DupLine:
		li := zzverif.Choice("li", len(ls))
		return c07Join(ls[:li+1]) + c07Join(ls[li:])
	default: // swap li, li+1
		zzverif.Assume(len(ls) >= 2)
		li := zzverif.Choice("li", len(ls)-1)
		zzverif.Assume(li > 0 || !hasPrev) // an indented line first would belong to the preceding entry
		out := c07Join(ls[:li]) + ls[li+1] + ls[li] + c07Join(ls[li+2:])
		return out
	}
}

func c07CountNL(s string) int {
	n := 0
	for i := 0; i < len(s); i++ {
		if s[i] == '\n' {
			n++
		}
	}
	return n
}

// verifC07 runs one containment experiment: entries k0 k1 k2 (indices into c07Shapes), entry
// idx damaged.
func verifC07(k [3]int, idx, kind, m int) {
	var ent [3]string
	for i := range ent {
		ent[i] = c07Shapes[k[i]]
	}
	before, after := "", ""
	for i := 0; i < idx; i++ {
		before += ent[i]
	}
	for i := idx + 1; i < 3; i++ {
		after += ent[i]
	}
	e := ent[idx]
	dmg := c07Damage(e, kind, m, idx > 0)
	if idx > 0 && len(dmg) > 0 {
		// a first line that starts with white space is, by design, a continuation of the
		// preceding entry: outside the claim
		c := dmg[0]
		zzverif.Assume(c != ' ' && c != '\t' && c != '\r')
	}
	intact := before + e + after
	damaged := before + dmg + after

	first := 1 + c07CountNL(before) // first line of e
	nl, nlD := c07CountNL(e), c07CountNL(dmg)
	last := first + nlD - 1 // last line of the damaged region (first-1 when the entry vanished)
	sh := c07Shift{dl: nlD - nl, do: len(dmg) - len(e)}

	ref, refErrs := Parse(intact)
	zzverif.Assert(len(refErrs) == 0, "C07 harness: the intact journal must parse without errors")
	got, errs := Parse(damaged)
	zzverif.Observe("damaged", damaged)
	zzverif.Observe("nerrs", len(errs))

	for _, pe := range errs {
		zzverif.Assert(pe.Pos.Line >= first && pe.Pos.Line <= last, "C07: a syntax error is reported outside the damaged entry")
	}
	wantBefore := c07Side(ref, 1, first-1, c07Shift{})
	gotBefore := c07Side(got, 1, first-1, c07Shift{})
	zzverif.Assert(gotBefore == wantBefore, "C07: an entry before the damaged one is extracted differently")
	const far = 1 << 30
	wantAfter := c07Side(ref, first+nl, far, c07Shift{})
	gotAfter := c07Side(got, last+1, far, sh)
	zzverif.Assert(gotAfter == wantAfter, "C07: an entry after the damaged one is extracted differently")
	zzverif.Reach("C07.contain.end")
}

// c07Config: the journals examined. Every shape is damaged with a transaction or a directive
// with sub-directives before / after it, as first and as last entry of the file.
func c07Config(shapes int, full bool) (k [3]int, idx int) {
	e := zzverif.Choice("e.kind", shapes)
	if full {
		idx = zzverif.Choice("idx", 3)
		for i := 0; i < 3; i++ {
			if i != idx {
				k[i] = zzverif.Choice("k"+zzverif.Itoa(i), shapes)
			}
		}
		k[idx] = e
		return
	}
	switch zzverif.Choice("ctx", 4) {
	case 0:
		return [3]int{0, e, 1}, 1
	case 1:
		return [3]int{1, e, 0}, 1
	case 2:
		return [3]int{e, 0, 4}, 0
	default:
		return [3]int{4, 2, e}, 2
	}
}

// quick tier
func VerifC07Bytes() { // one arbitrary byte overwritten / inserted, one special character inserted
	k, idx := c07Config(5, false)
	verifC07(k, idx, []int{c07Overwrite, c07Insert, c07Special}[zzverif.Choice("dmg", 3)], 1)
}

func VerifC07Bytes2() { // two arbitrary bytes overwritten / inserted
	k, idx := c07Config(5, false)
	verifC07(k, idx, []int{c07Overwrite, c07Insert}[zzverif.Choice("dmg", 2)], 2)
}

func VerifC07Lines() { // truncation, deleted / duplicated / exchanged lines
	k, idx := c07Config(6, true)
	verifC07(k, idx, []int{c07Truncate, c07DelLine, c07DupLine, c07SwapLines}[zzverif.Choice("dmg", 4)], 0)
}

// thorough tier
func VerifC07Deep() {
	k, idx := c07Config(6, true)
	verifC07(k, idx, []int{c07Overwrite, c07Insert, c07Special}[zzverif.Choice("dmg", 3)], 1)
}

func VerifC07Deep2() {
	k, idx := c07Config(6, false)
	verifC07(k, idx, []int{c07Overwrite, c07Insert}[zzverif.Choice("dmg", 2)], 2)
}

func VerifC07Probe() { verifC07([3]int{0, 3, 1}, 1, c07Overwrite, 1) }
func VerifC07Probe2() { verifC07([3]int{0, 3, 1}, 1, c07Overwrite, 2) }
