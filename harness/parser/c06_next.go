//go:build verif

package parser

import (
	"github.com/juev/hledger-lsp/internal/zzverif"
)

func init() {
	zzverif.Register("VerifC06Next", VerifC06Next)
	zzverif.Register("VerifC06NextLong", VerifC06NextLong)
	zzverif.Register("VerifC06NextDate", VerifC06NextDate)
}

// c06Bytes returns n unconstrained bytes (alphabet `any` of DESIGN §4.1: 0x00..0xFF, so
// invalid UTF-8, control characters and NUL are included).
func c06Bytes(name string, n int) string {
	b := make([]byte, n)
	for i := range b {
		b[i] = zzverif.Byte(name + zzverif.Itoa(i))
	}
	return string(b)
}

// c06NextStep is the inductive step of "tokenisation always makes progress": from an
// ARBITRARY lexer state (pos = p, any column, any atStart — not only reachable states) over
// an arbitrary input of p+n bytes, one call of Next() returns a token that lies inside the
// input, does not start before the old position, does not end before it starts, and either
// is EOF exactly at the end of the input or moves the position strictly forward.
func c06NextStep(p, n int, input string) {
	lx := &Lexer{input: input, pos: p, line: 1, atStart: zzverif.Bool("atStart")}
	// column: the interesting distinction is column==1 (line start scanning) vs anything else
	if zzverif.Bool("col1") {
		lx.column = 1
	} else {
		lx.column = 2 + zzverif.Int("col", 0, 1000)
	}
	old := lx.pos
	tok := lx.Next()
	zzverif.Assert(tok.Pos.Offset >= old, "token starts before the old position (overlap)")
	zzverif.Assert(tok.End.Offset >= tok.Pos.Offset, "token ends before it starts")
	zzverif.Assert(tok.End.Offset <= len(input) && tok.Pos.Offset <= len(input), "token outside the input")
	zzverif.Assert(lx.pos <= len(input), "lexer position outside the input")
	// the next token starts at or after lx.pos (first assertion, next step), so non-overlap of
	// consecutive tokens is End <= lx.pos
	zzverif.Assert(tok.End.Offset <= lx.pos, "token ends beyond the lexer position (would overlap the next token)")
	if tok.Type == TokenEOF {
		zzverif.Assert(lx.pos == len(input) && tok.Pos.Offset == len(input), "EOF before the end of the input")
	} else {
		zzverif.Assert(lx.pos > old, "no progress: a non-EOF token was returned without consuming input")
	}
	_ = p + n
	// probes compared between the engine's path and the native replay of its model
	zzverif.Observe("type", int(tok.Type))
	zzverif.Observe("end", tok.End.Offset)
	zzverif.Observe("pos", lx.pos)
	zzverif.Reach("C06.next.end")
}

func verifC06Next(maxP, maxN int) {
	p := zzverif.Choice("p", maxP+1)
	n := zzverif.Choice("n", maxN+1)
	c06NextStep(p, n, c06Bytes("b", p+n))
}

// VerifC06Next: quick bound p <= 2, n <= 3 arbitrary bytes.
func VerifC06Next() { verifC06Next(2, 3) }

// VerifC06NextLong: thorough bound p <= 2, n <= 4 (about 10^6 paths; n <= 5 is ~15x that).
func VerifC06NextLong() { verifC06Next(2, 4) }

// VerifC06NextDate: the only scanner with a window longer than the byte bounds above is
// looksLikeDate (8..10 bytes: dddd S d[d] S). The window is entered with a date-shaped
// prefix whose digits and separators are symbolic, followed by arbitrary bytes.
func VerifC06NextDate() {
	p := zzverif.Choice("p", 2)
	pre := c06Bytes("b", p)
	d := zzverif.Digits("y", 4) + string([]byte{zzverif.ByteIn("s1", "-/. x")}) + zzverif.Digits("m", 1)
	rest := c06Bytes("r", 1+zzverif.Choice("n", 4))
	c06NextStep(p, len(d)+len(rest), pre+d+rest)
}
