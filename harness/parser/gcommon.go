//go:build verif

package parser

import (
	"unicode"
	"unicode/utf8"

	"github.com/shopspring/decimal"

	"github.com/juev/hledger-lsp/internal/ast"
	"github.com/juev/hledger-lsp/internal/zzverif"
)

// ---------------------------------------------------------------------------------------
// Shared pieces of the C03 harnesses: leaves of grammar G (DESIGN §4.1/§4.2), the number
// notations of §4.3, comments with tags, and the input predicates of the known-finding classes.
// ---------------------------------------------------------------------------------------

// Non-ASCII representatives (DESIGN §4.1). Index 0..: é ж € 日 — 😀 𝒜
var c03Wide = []string{"é", "€", "😀", "ж", "日", "—", "𝒜"}

// c03Slot is one character slot: ASCII symbolic inside the given set, or one of the first
// nWide non-ASCII representatives.
func c03Slot(name, ascii string, nWide int) string {
	if nWide > 0 {
		k := zzverif.Choice(name+".w", 1+nWide)
		if k > 0 {
			return c03Wide[k-1]
		}
	}
	return string([]byte{zzverif.ByteIn(name, ascii)})
}

// c03Leaf builds a text leaf of n slots. first/last are the alphabets of the first and last
// slot (a one-slot leaf uses their intersection via `single`), mid of the interior slots.
// Only the first slot gets non-ASCII alternatives beyond wideRest representatives.
func c03Leaf(name string, n int, first, mid, last, single string, wideFirst, wideRest int) string {
	if n == 1 {
		return c03Slot(name+".0", single, wideFirst)
	}
	s := c03Slot(name+".0", first, wideFirst)
	for i := 1; i < n-1; i++ {
		s += c03Slot(name+"."+zzverif.Itoa(i), mid, wideRest)
	}
	return s + c03Slot(name+"."+zzverif.Itoa(n-1), last, wideRest)
}

func c03Spaces(n int) string { return "        "[:n] }

// `desc` alphabet: 0x20..0x7E minus ';' '|'; a text neither starts nor ends with a space and
// does not start with ( * ! =
func c03DescText(name string, n, wideFirst, wideRest int) string {
	if wideFirst < 0 { // plain: lower-case letters only (used where the description is not the subject)
		return zzverif.Text(name, zzverif.Lower, n)
	}
	mid := zzverif.Printable(";|")
	first := zzverif.Printable(";| (*!=")
	last := zzverif.Printable(";| ")
	return c03Leaf(name, n, first, mid, last, first, wideFirst, wideRest)
}

// c03TokenAt runs the real lexer over text and returns the token that covers byte offset
// off: the first token that ends after off (the single-character tokens "(" ")" "[" "]" "|"
// carry the position after the character). ok is false when that token started before off
// (an earlier leaf swallowed it) or there is none.
func c03TokenAt(text string, off int) (Token, bool) {
	lx := NewLexer(text)
	for {
		t := lx.Next()
		if t.Type == TokenEOF {
			return t, false
		}
		if t.End.Offset > off {
			return t, t.Pos.Offset >= off
		}
	}
}

func c03TokAt(text string, off int) int {
	t, ok := c03TokenAt(text, off)
	if !ok {
		return -1
	}
	return int(t.Type)
}

// c03Ctx carries the cause suffix that is appended to assertion messages, so that
// violations are grouped by known-finding class (messages stay fixed strings).
type c03Ctx struct{ cause string }

func (c *c03Ctx) msg(m string) string { return m + c.cause }

// knownClass: the input lies in class cls. It returns true when cls is a listed known finding
// (the caller then leaves the input out); otherwise the assertions run as usual and only
// their messages name the class.
func (c *c03Ctx) knownClass(cls string) bool {
	if zzverif.Known(cls) {
		zzverif.Reach("kf:" + cls)
		return true
	}
	if c.cause == "" {
		c.cause = " [" + cls + "]"
	}
	return false
}

// ---------------------------------------------------------------------------------------
// Known-finding classes of C03. Every class is the CONJUNCTION of
//   (a) an input predicate: a function of the document text / the derivation only, and
//   (b) the observation that the real lexer does not return the expected token for the leaf.
// An input outside (a) on which the lexer misbehaves belongs to no class: the assertions run
// and report it. An input inside (a) on which the lexer behaves is asserted as usual.
// ---------------------------------------------------------------------------------------

func c03IsDigit(b byte) bool  { return b >= '0' && b <= '9' }
func c03IsUpper(b byte) bool  { return b >= 'A' && b <= 'Z' }
func c03IsLetter(b byte) bool { return (b >= 'a' && b <= 'z') || (b >= 'A' && b <= 'Z') }

// c03LetterAt: the character at off is a letter (ASCII or not).
func c03LetterAt(text string, off int) bool {
	if off >= len(text) {
		return false
	}
	if b := text[off]; b < 0x80 {
		return c03IsLetter(b)
	}
	r, _ := utf8.DecodeRuneInString(text[off:])
	return unicode.IsLetter(r)
}

// c03CurrencyAt: the character at off is one of the currency signs $ € £ ¥ ₽ ₴.
func c03CurrencyAt(text string, off int) bool {
	if off >= len(text) {
		return false
	}
	if b := text[off]; b < 0x80 {
		return b == '$'
	}
	r, _ := utf8.DecodeRuneInString(text[off:])
	return r == '€' || r == '£' || r == '¥' || r == '₽' || r == '₴'
}

// c03ColonAhead: a ':' occurs at or after off, before the next  ; @ = ( ) [ ]  tab, CR, line
// end or run of two blanks (the look-ahead of lexer.go looksLikeAccount).
func c03ColonAhead(text string, off int) bool {
	for i := off; i < len(text); i++ {
		switch text[i] {
		case ':':
			return true
		case ' ':
			if i+1 < len(text) && text[i+1] == ' ' {
				return false
			}
		case '\t', '\n', '\r', ';', '@', '=', '(', ')', '[', ']':
			return false
		}
	}
	return false
}

// c03PrevIsDigit: the last non-blank character before off is a digit.
func c03PrevIsDigit(text string, off int) bool {
	p := off - 1
	for p >= 0 && text[p] == ' ' {
		p--
	}
	return p >= 0 && c03IsDigit(text[p])
}

// c03DigitOrSignedDigitAt: a digit, or a sign directly followed by a digit, stands at off.
func c03DigitOrSignedDigitAt(text string, off int) bool {
	if off >= len(text) {
		return false
	}
	if c03IsDigit(text[off]) {
		return true
	}
	return (text[off] == '-' || text[off] == '+') && off+1 < len(text) && c03IsDigit(text[off+1])
}

// c03UpperWordAt: the word at off reads like a commodity code — its leading run of ASCII
// letters and digits consists of upper-case letters and digits only; or, when the word does
// not directly follow a number, its leading upper-case letters are directly followed by a
// digit or a signed digit (lexer.go scanCommodityOrText).
func c03UpperWordAt(text string, off int) bool {
	if off >= len(text) || !c03IsUpper(text[off]) {
		return false
	}
	i := off
	for i < len(text) && c03IsUpper(text[i]) {
		i++
	}
	// text[off:i] upper-case letters; what follows?
	if i < len(text) && c03IsLetter(text[i]) {
		return false // a lower-case letter inside the leading letters
	}
	if !c03PrevIsDigit(text, off) && c03DigitOrSignedDigitAt(text, i) {
		return true
	}
	for i < len(text) && (c03IsLetter(text[i]) || c03IsDigit(text[i])) {
		if !c03IsUpper(text[i]) && !c03IsDigit(text[i]) {
			return false
		}
		i++
	}
	return true
}

// c03SignedAt: a sign at off that is directly followed by a digit, a currency sign, or
// letters that are directly followed by a digit or a signed digit (lexer.go scanInLine '-' '+').
func c03SignedAt(text string, off int) bool {
	if off+1 >= len(text) || (text[off] != '-' && text[off] != '+') {
		return false
	}
	if c03IsDigit(text[off+1]) || c03CurrencyAt(text, off+1) {
		return true
	}
	i := off + 1
	for i < len(text) && c03IsLetter(text[i]) {
		i++
	}
	return i > off+1 && c03DigitOrSignedDigitAt(text, i)
}

// c03TextLeafClass is the input predicate of the classes of a free-text leaf (description,
// payee, note) that starts at off: the lexer's in-line scanner decides the token kind from
// the first character(s) of the leaf, whatever the line context.
func c03TextLeafClass(text string, off int) string {
	b := text[off]
	switch {
	case c03IsDigit(b):
		return "c03-desc-starts-with-digit"
	case b == ')' || b == '[' || b == ']' || b == '@':
		return "c03-desc-starts-with-bracket-or-at"
	case b == '"' || c03CurrencyAt(text, off):
		return "c03-desc-starts-with-currency-or-quote"
	case b == '-' || b == '+':
		if c03SignedAt(text, off) {
			return "c03-desc-starts-with-sign"
		}
	case c03LetterAt(text, off):
		if c03ColonAhead(text, off) {
			return "c03-colon-ahead-lexed-as-account"
		}
		if c03UpperWordAt(text, off) {
			return "c03-desc-upper-case-word"
		}
	}
	return ""
}

// knownText: the free-text leaf at off must come out of the lexer as a Text token.
func (c *c03Ctx) knownText(text string, off int) bool {
	if c03TokAt(text, off) == int(TokenText) {
		return false
	}
	if cls := c03TextLeafClass(text, off); cls != "" {
		return c.knownClass(cls)
	}
	return false
}

// knownCode: "(code)" at off must come out as a Code token; a code that contains ':' is taken
// for the opening parenthesis of a virtual account (lexer.go looksLikeVirtualAccount).
func (c *c03Ctx) knownCode(text string, off int, code string) bool {
	if c03TokAt(text, off) == int(TokenCode) {
		return false
	}
	for i := 0; i < len(code); i++ {
		if code[i] == ':' {
			return c.knownClass("c03-code-contains-colon")
		}
	}
	return false
}

// knownColonAhead: a word at off (commodity symbol, sub-directive keyword) that starts with a
// letter comes out as an Account token because a ':' follows later on the line.
func (c *c03Ctx) knownColonAhead(text string, off int) bool {
	if c03TokAt(text, off) == int(TokenAccount) && c03LetterAt(text, off) && c03ColonAhead(text, off) {
		return c.knownClass("c03-colon-ahead-lexed-as-account")
	}
	return false
}

// knownAcct: the account name acct at off. In a posting it must come out as one Account token;
// the account directive also takes a Text token that holds the whole name. The lexer only
// starts an account name at a letter.
func (c *c03Ctx) knownAcct(text string, off int, acct string, directive bool) bool {
	t, ok := c03TokenAt(text, off)
	good := ok && t.Type == TokenAccount
	if directive {
		good = ok && (t.Type == TokenAccount || t.Type == TokenText) && len(t.Value) == len(acct)
	}
	if good {
		return false
	}
	if !c03LetterAt(text, off) {
		return c.knownClass("c03-acct-starts-with-non-letter")
	}
	return false
}

// knownSymbol: the commodity symbol sym written at off must come out as one Commodity token
// (a symbol that starts with a lower-case letter: Text token) that holds exactly the symbol.
func (c *c03Ctx) knownSymbol(text string, off int, sym c03Sym) bool {
	t, ok := c03TokenAt(text, off)
	lower := sym.text[0] >= 'a' && sym.text[0] <= 'z'
	if ok && (t.Type == TokenCommodity || (t.Type == TokenText && lower)) && len(t.Value) == len(sym.sym) {
		return false
	}
	if c.knownColonAhead(text, off) {
		return true
	}
	end := off + len(sym.text)
	if ok && t.Type == TokenCommodity && c03IsUpper(sym.text[0]) && end < len(text) && c03IsDigit(text[end]) && c03PrevIsDigit(text, off) {
		// CODE directly followed by its number, directly after something that ends in a digit:
		// the digits are taken into the symbol
		return c.knownClass("c03-code-number-after-digit")
	}
	if ok && t.Type == TokenText && lower {
		// a lower-case symbol is scanned as free text up to the next ';' '|' or line end
		for i := end; i < len(text) && text[i] != '\n' && text[i] != ';' && text[i] != '|'; i++ {
			if text[i] != ' ' && text[i] != '\r' {
				return c.knownClass("c03-lower-symbol-not-last")
			}
		}
	}
	return false
}

// knownCRLF: CRLF line ends are one class of their own (the lexer does not know '\r'); its
// predicate is the input alone: the document is written with CRLF line ends.
func (c *c03Ctx) knownCRLF(eol string) bool {
	if eol != "\r\n" {
		return false
	}
	if zzverif.Known("c03-crlf") {
		zzverif.Reach("kf:c03-crlf")
		return true
	}
	c.cause = " [c03-crlf]"
	return false
}

func c03EOL(name string, both bool) string {
	if both && zzverif.Choice(name, 2) == 1 {
		return "\r\n"
	}
	return "\n"
}

// ---------------------------------------------------------------------------------------
// dates
// ---------------------------------------------------------------------------------------

type c03Date struct {
	text    string
	y, m, d int
}

func c03Num(s string) int {
	v := 0
	for i := 0; i < len(s); i++ {
		v = v*10 + int(s[i]-'0')
	}
	return v
}

// c03MkDate: YYYY sep M[M] sep D[D]; shape = sepIdx*4 + (mlen-1)*2 + (dlen-1), 12 shapes.
func c03MkDate(name string, shape int) c03Date {
	sep := "-/."[shape/4 : shape/4+1]
	ml, dl := 1+(shape/2)%2, 1+shape%2
	y, m, d := zzverif.Digits(name+".y", 4), zzverif.Digits(name+".m", ml), zzverif.Digits(name+".d", dl)
	return c03Date{text: y + sep + m + sep + d, y: c03Num(y), m: c03Num(m), d: c03Num(d)}
}

type c03DateV struct{ Y, M, D int }

func c03DateOf(d ast.Date) c03DateV { return c03DateV{d.Year, d.Month, d.Day} }
func (d c03Date) v() c03DateV       { return c03DateV{d.y, d.m, d.d} }

// ---------------------------------------------------------------------------------------
// comments with tags:  comment := part { "," part }
// ---------------------------------------------------------------------------------------

type c03Tag struct{ Name, Value string }

type c03Comment struct {
	text string
	tags []c03Tag
}

// c03MkComment: shape selects the parts. The text is what follows the ';'.
//
//	0: free text (no ':' no ',')            1: " name:value"
//	2: "name: value, free"                  3: " free, name:"          4: "n1:v1, n2: v2"
//	5: "" (empty comment)
const c03CommentShapes = 6

func c03FreePart(name string, n int) string {
	return zzverif.Text(name, zzverif.Printable(":,"), n)
}

func c03TagName(name string, n int) string {
	return zzverif.Text(name, zzverif.Letters+zzverif.Digit+"-_", n)
}

// tag value: free text without ',' that neither starts nor ends with a blank
func c03TagValue(name string, n int) string {
	in := zzverif.Printable(",")
	edge := zzverif.Printable(", ")
	return c03Leaf(name, n, edge, in, edge, edge, 0, 0)
}

func c03MkComment(name string, shape, n int) c03Comment {
	switch shape {
	case 0:
		return c03Comment{text: c03FreePart(name+".f", n)}
	case 1:
		k, v := c03TagName(name+".k", n), c03TagValue(name+".v", n)
		return c03Comment{text: " " + k + ":" + v, tags: []c03Tag{{k, v}}}
	case 2:
		k, v := c03TagName(name+".k", n), c03TagValue(name+".v", n)
		return c03Comment{text: k + ": " + v + "," + c03FreePart(name+".f", n), tags: []c03Tag{{k, v}}}
	case 3:
		k := c03TagName(name+".k", n)
		return c03Comment{text: " " + c03FreePart(name+".f", n) + ", " + k + ":", tags: []c03Tag{{k, ""}}}
	case 4:
		k1, v1 := c03TagName(name+".k1", n), c03TagValue(name+".v1", n)
		k2, v2 := c03TagName(name+".k2", n), c03TagValue(name+".v2", n)
		return c03Comment{text: k1 + ":" + v1 + ", " + k2 + ": " + v2, tags: []c03Tag{{k1, v1}, {k2, v2}}}
	default:
		return c03Comment{}
	}
}

// c03TagsEqual compares extracted tags with the derivation (name and value, in order).
func c03TagsEqual(got []ast.Tag, want []c03Tag) bool {
	if len(got) != len(want) {
		return false
	}
	g, w := "", ""
	for i := range want {
		// one string term per side: lengths are concrete, '\x00' cannot occur in a leaf
		g += got[i].Name + "\x00" + got[i].Value + "\x00"
		w += want[i].Name + "\x00" + want[i].Value + "\x00"
	}
	return g == w
}

// ---------------------------------------------------------------------------------------
// numbers (DESIGN §4.3)
// ---------------------------------------------------------------------------------------

type c03NumShape struct {
	groups []int  // digit groups of the integer part; one group = ungrouped
	gsep   string // group separator: "," "." " "
	mark   string // decimal mark "." or "," ("" = none)
	flen   int    // fraction digits; 0 with a mark = trailing mark
	exp    string // exponent part as written, concrete: "", "E3", "E+2", "E-12" (10^e is not linear in e)
}

type c03Number struct {
	text  string // as written, unsigned
	canon string // the same value as  digits [ "." digits ] [ "E" [sign] digits ]
	// exp3: one mark, an exponent, and exactly three characters between the mark and the end
	// (fraction digits + exponent part), e.g. 1.5E3 — the shape behind class c03-exp-three-after-mark
	exp3   bool
	ipZero bool // the integer part is all zeros (symbolic)
}

// c03MkNumber builds the number with symbolic digits. Shapes that §4.3 excludes as ambiguous
// (exactly one mark followed by exactly three digits and no other mark) are only generated
// with an all-zero integer part.
func c03MkNumber(name string, sh c03NumShape) c03Number {
	ip, text := "", ""
	for gi, g := range sh.groups {
		d := zzverif.Digits(name+".i"+zzverif.Itoa(gi), g)
		if gi > 0 {
			text += sh.gsep
		}
		text += d
		ip += d
	}
	marks := 0
	if sh.mark != "" {
		marks++
	}
	if len(sh.groups) > 1 && sh.gsep != " " {
		marks += len(sh.groups) - 1
	}
	canon := ip
	if sh.mark != "" {
		f := zzverif.Digits(name+".f", sh.flen)
		text += sh.mark + f
		if sh.flen > 0 {
			canon += "." + f
		}
		if marks == 1 && sh.flen == 3 {
			zzverif.Assume(ip == c03Zeros(len(ip)))
		}
	}
	text += sh.exp
	canon += sh.exp
	exp3 := sh.exp != "" && marks == 1 && sh.flen+len(sh.exp) == 3
	return c03Number{text: text, canon: canon, exp3: exp3, ipZero: ip == c03Zeros(len(ip))}
}

func c03Zeros(n int) string {
	s := ""
	for i := 0; i < n; i++ {
		s += "0"
	}
	return s
}

func c03NumShapes(deep bool) []c03NumShape {
	one, two := []int{1}, []int{2}
	sh := []c03NumShape{
		{groups: one}, {groups: two},
		{groups: one, mark: ".", flen: 1}, {groups: two, mark: ".", flen: 2}, {groups: one, mark: ".", flen: 3},
		{groups: one, mark: ",", flen: 1}, {groups: two, mark: ",", flen: 2}, {groups: one, mark: ",", flen: 3},
		{groups: one, mark: "."}, {groups: two, mark: ","},
		{groups: []int{1, 3}, gsep: ",", mark: ".", flen: 2}, {groups: []int{2, 3}, gsep: ",", mark: ".", flen: 3},
		{groups: []int{1, 3}, gsep: ".", mark: ",", flen: 2}, {groups: []int{3, 3}, gsep: ".", mark: ",", flen: 3},
		{groups: []int{1, 3}, gsep: " ", mark: ".", flen: 1}, {groups: []int{2, 3}, gsep: " ", mark: ",", flen: 2}, {groups: []int{1, 3}, gsep: " "},
		{groups: []int{1, 3, 3}, gsep: ","}, {groups: []int{2, 3, 3}, gsep: "."},
		{groups: one, exp: "E3"}, {groups: one, mark: ".", flen: 1, exp: "E2"}, {groups: one, mark: ".", flen: 1, exp: "E+1"}, {groups: two, mark: ".", flen: 2, exp: "E-12"},
	}
	if deep {
		sh = append(sh,
			c03NumShape{groups: []int{7}}, c03NumShape{groups: []int{4}, mark: ".", flen: 12}, c03NumShape{groups: []int{3}, mark: ",", flen: 6},
			c03NumShape{groups: []int{3}, mark: ".", flen: 3}, c03NumShape{groups: []int{2}, mark: ",", flen: 3},
			c03NumShape{groups: []int{3, 3}, gsep: ",", mark: ".", flen: 1}, c03NumShape{groups: []int{1, 3, 3}, gsep: ",", mark: ".", flen: 4},
			c03NumShape{groups: []int{1, 3, 3}, gsep: ".", mark: ",", flen: 2}, c03NumShape{groups: []int{1, 3, 3}, gsep: " ", mark: ".", flen: 3},
			c03NumShape{groups: []int{3, 3}, gsep: ",", mark: "."}, c03NumShape{groups: []int{2, 3}, gsep: ".", mark: ","},
			c03NumShape{groups: []int{3}, exp: "E10"}, c03NumShape{groups: []int{1}, mark: ".", flen: 3, exp: "E0"},
			c03NumShape{groups: []int{2}, mark: ".", flen: 4, exp: "E-5"}, c03NumShape{groups: []int{1}, mark: ".", flen: 2, exp: "E+07"},
			c03NumShape{groups: []int{1}, mark: ".", flen: 1, exp: "E12"}, c03NumShape{groups: []int{2}, mark: ".", flen: 2, exp: "E3"},
		)
	}
	return sh
}

// ---------------------------------------------------------------------------------------
// commodity symbols and amounts
// ---------------------------------------------------------------------------------------

type c03Sym struct {
	text string // as written (with quotes)
	sym  string // the symbol
}

// symbol kinds: 0 "$"  1 "€"  2 CODE  3 quoted  4 lowername (right side only)  5 other currency signs
func c03MkSym(name string, kind, n int) c03Sym {
	switch kind {
	case 0:
		return c03Sym{"$", "$"}
	case 1:
		return c03Sym{"€", "€"}
	case 2:
		s := zzverif.Text(name+".code", zzverif.Upper, 1+zzverif.Choice(name+".len", n))
		return c03Sym{s, s}
	case 3:
		q := zzverif.Text(name+".q", zzverif.Printable(";|\""), 1+zzverif.Choice(name+".len", n))
		return c03Sym{"\"" + q + "\"", q}
	case 4:
		s := zzverif.Text(name+".low", zzverif.Lower, 1+zzverif.Choice(name+".len", n))
		return c03Sym{s, s}
	default:
		s := []string{"£", "¥", "₽", "₴"}[zzverif.Choice(name+".cur", 4)]
		return c03Sym{s, s}
	}
}

type c03AmtV struct {
	Has        bool
	Raw, Sym   string
	Pos        ast.CommodityPosition
	SignBefore bool
}

type c03Amount struct {
	num    c03Number
	sym    c03Sym
	form   int
	text   string
	v      c03AmtV
	canon  string // exact value, signed
	symOff int    // offset of the symbol inside text (-1: none)
	numOff int    // offset of the number (or of the sign directly before it)
}

// amount forms:
//
//	no symbol: 0 N   1 -N   2 +N
//	left:      3 SN  4 S N  5 -SN  6 +SN  7 S-N  8 S+N  9 -S N
//	right:     10 NS  11 N S  12 -NS  13 -N S  14 +N S
const c03AmountForms = 15

func c03FormSide(form int) int { // 0 none, 1 left, 2 right
	switch {
	case form <= 2:
		return 0
	case form <= 9:
		return 1
	}
	return 2
}

func c03MkAmount(form int, num c03Number, sym c03Sym) c03Amount {
	n, s := num.text, sym.text
	a := c03Amount{symOff: -1, num: num, sym: sym, form: form}
	neg := false
	switch form {
	case 0:
		a.text = n
	case 1:
		a.text, neg = "-"+n, true
	case 2:
		a.text = "+" + n
	case 3:
		a.text, a.symOff, a.numOff = s+n, 0, len(s)
	case 4:
		a.text, a.symOff, a.numOff = s+" "+n, 0, len(s)+1
	case 5:
		a.text, a.symOff, a.numOff, neg, a.v.SignBefore = "-"+s+n, 1, 1+len(s), true, true
	case 6:
		a.text, a.symOff, a.numOff, a.v.SignBefore = "+"+s+n, 1, 1+len(s), true
	case 7:
		a.text, a.symOff, a.numOff, neg = s+"-"+n, 0, len(s), true
	case 8:
		a.text, a.symOff, a.numOff = s+"+"+n, 0, len(s)
	case 9:
		a.text, a.symOff, a.numOff, neg, a.v.SignBefore = "-"+s+" "+n, 1, 2+len(s), true, true
	case 10:
		a.text, a.symOff = n+s, len(n)
	case 11:
		a.text, a.symOff = n+" "+s, len(n)+1
	case 12:
		a.text, a.symOff, neg = "-"+n+s, 1+len(n), true
	case 13:
		a.text, a.symOff, neg = "-"+n+" "+s, 2+len(n), true
	default:
		a.text, a.symOff = "+"+n+" "+s, 2+len(n)
	}
	a.v.Has = true
	a.v.Raw, a.canon = n, num.canon
	if neg {
		a.v.Raw, a.canon = "-"+n, "-"+num.canon
	}
	switch c03FormSide(form) {
	case 1:
		a.v.Sym, a.v.Pos = sym.sym, ast.CommodityLeft
	case 2:
		a.v.Sym, a.v.Pos = sym.sym, ast.CommodityRight
	}
	return a
}

func c03AmtOf(a *ast.Amount) c03AmtV {
	if a == nil {
		return c03AmtV{}
	}
	return c03AmtV{Has: true, Raw: a.RawQuantity, Sym: a.Commodity.Symbol, Pos: a.Commodity.Position, SignBefore: a.SignBeforeCommodity}
}

// c03QtyEqual: the extracted quantity equals the exact value of the derivation.
func c03QtyEqual(got *ast.Amount, canon string) bool {
	if got == nil {
		return false
	}
	w, err := decimal.NewFromString(canon)
	if err != nil {
		return false
	}
	return w.Equal(got.Quantity)
}

// ---------------------------------------------------------------------------------------
// account names: acct := seg ( ":" seg )+
// ---------------------------------------------------------------------------------------

// `seg` alphabet: 0x21..0x7E minus ; @ = ( ) [ ] :  — single blanks only inside a segment.
// The very first character of an account additionally excludes '*' and '!' (hledger itself
// reads them as a posting status there).
func c03Seg(name string, n int, firstOfAcct bool, wideFirst, wideRest int) string {
	edge := zzverif.Printable(" ;@=()[]:")
	first := edge
	wf := wideRest
	if firstOfAcct {
		first = zzverif.Printable(" ;@=()[]:*!")
		wf = wideFirst
	}
	s := c03Slot(name+".0", first, wf)
	for i := 1; i < n; i++ {
		al := edge
		if i%2 == 1 && i < n-1 {
			al = zzverif.Printable(";@=()[]:") // an interior blank, never two in a row
		}
		s += c03Slot(name+"."+zzverif.Itoa(i), al, wideRest)
	}
	return s
}

func c03MkAcct(name string, nSeg, nChar int, wideFirst, wideRest int) string {
	segs := 2 + zzverif.Choice(name+".segs", nSeg-1)
	s := ""
	for i := 0; i < segs; i++ {
		if i > 0 {
			s += ":"
		}
		sn := name + ".s" + zzverif.Itoa(i)
		// lengths 1..nChar, plus one more shape: two plain characters around a single blank
		k := zzverif.Choice(sn+".len", nChar+1)
		if k == nChar {
			plain := zzverif.Lower + zzverif.Digit
			s += zzverif.Text(sn+".l", plain, 1) + " " + zzverif.Text(sn+".r", plain, 1)
		} else {
			s += c03Seg(sn, 1+k, i == 0, wideFirst, wideRest)
		}
	}
	return s
}

// plain account: lower-case letters, two segments (where the account is not the subject)
func c03PlainAcct(name string) string {
	return zzverif.Text(name+".a", zzverif.Lower, 1) + ":" + zzverif.Text(name+".b", zzverif.Lower, 1)
}
