//go:build verif

package parser

import (
	"github.com/juev/hledger-lsp/internal/ast"
	"github.com/juev/hledger-lsp/internal/zzverif"
)

func init() {
	zzverif.Register("VerifC03Posting", VerifC03Posting)
	zzverif.Register("VerifC03PostingDeep", VerifC03PostingDeep)
	zzverif.Register("VerifC03PostingF0", VerifC03PostingF0)
	zzverif.Register("VerifC03PostingF1", VerifC03PostingF1)
	zzverif.Register("VerifC03PostingF2", VerifC03PostingF2)
	zzverif.Register("VerifC03PostingF3", VerifC03PostingF3)
	zzverif.Register("VerifC03PostingF4", VerifC03PostingF4)
	zzverif.Register("VerifC03PostingF5", VerifC03PostingF5)
	zzverif.Register("VerifC03PostingF6", VerifC03PostingF6)
	zzverif.Register("VerifC03PostingF7", VerifC03PostingF7)
	zzverif.Register("VerifC03PostingF8", VerifC03PostingF8)
	zzverif.Register("VerifC03PostingD0", VerifC03PostingD0)
	zzverif.Register("VerifC03PostingD1", VerifC03PostingD1)
	zzverif.Register("VerifC03PostingD2", VerifC03PostingD2)
	zzverif.Register("VerifC03PostingD3", VerifC03PostingD3)
	zzverif.Register("VerifC03PostingD4", VerifC03PostingD4)
	zzverif.Register("VerifC03PostingD5", VerifC03PostingD5)
	zzverif.Register("VerifC03PostingD6", VerifC03PostingD6)
	zzverif.Register("VerifC03PostingD7", VerifC03PostingD7)
	zzverif.Register("VerifC03PostingD8", VerifC03PostingD8)
}

// posting := IND [ status SP ] acct-part [ GAP amount [ WS cost ] [ WS assertion ] ]
//            [ WS? ";" comment ] EOL
// The line is the first posting of a transaction "YYYY-MM-DD x"; a second, fixed posting
// follows, so that a posting line that is cut short shows up as a lost posting.

type c03PostV struct {
	Status              ast.Status
	Virtual             ast.VirtualType
	Account             string
	Amt, Cost, Assert   c03AmtV
	HasCost, IsTotal    bool
	HasAssert, IsStrict bool
	Comment             string
	NPost               int
	Acct1               string
}

type c03PostCfg struct {
	indN      int  // 1: two blanks; 9: 1..8 blanks or a tab
	statusN   int  // 1: none; 3: none * !
	virtN     int  // 1: ordinary; 3: ordinary, ( ), [ ]
	svSplit   bool // a status only with an ordinary account (status x virtual is not a product)
	freeAcct  bool
	nSeg      int // at most nSeg segments (>= 2)
	nChar     int // at most nChar characters per segment
	gapN      int // GAP is 2..1+gapN blanks
	amt       int // 0: never an amount; 1: optional; 2: always
	forms     []int
	syms      []int // symbol kinds offered (lowername only on the right)
	nSym      int
	shapes    []c03NumShape
	costN     int   // 1: none; 3: none @ @@
	assertN   int   // 1: none; 3: none = ==
	costForms []int // amount forms, symbols, shapes of the cost amount
	costSyms  []int
	assForms  []int // ... of the assertion amount
	assSyms   []int
	subShapes []c03NumShape
	cmnts     []int
	cmntBare  bool // a comment only directly after the account
	nCmnt     int
	wsN       int
	cmntWS    int // blanks before ';': 0: one less than WS; n: 0..n-1 chosen
	crlf      int
	wideFirst int
	wideRest  int
}

type c03AmtRef struct {
	a   c03Amount
	off int // offset of the amount in the document
}

func c03PickAmount(name string, forms, syms []int, nSym int, shapes []c03NumShape) c03Amount {
	form := forms[zzverif.Choice(name+".form", len(forms))]
	var sym c03Sym
	if side := c03FormSide(form); side != 0 {
		var ks []int
		for _, k := range syms {
			if k != 4 || side == 2 {
				ks = append(ks, k)
			}
		}
		sym = c03MkSym(name+".sym", ks[zzverif.Choice(name+".symkind", len(ks))], nSym)
	}
	num := c03MkNumber(name+".n", shapes[zzverif.Choice(name+".shape", len(shapes))])
	return c03MkAmount(form, num, sym)
}

// c03PostLine builds one posting line (without EOL) and its expected view.
func c03PostLine(name string, cfg c03PostCfg) (line string, want c03PostV, acctOff int, amts []c03AmtRef, cm c03Comment) {
	w1 := c03Spaces(1 + zzverif.Choice(name+"ws", cfg.wsN))
	line = "  "
	if cfg.indN > 1 {
		if k := zzverif.Choice(name+"ind", cfg.indN); k == 8 {
			line = "\t"
		} else {
			line = c03Spaces(k + 1)
		}
	}
	st := zzverif.Choice(name+"status", cfg.statusN)
	switch st {
	case 1:
		line += "* "
		want.Status = ast.StatusCleared
	case 2:
		line += "! "
		want.Status = ast.StatusPending
	}
	virtN := cfg.virtN
	if cfg.svSplit && st != 0 {
		virtN = 1
	}
	var acct string
	if cfg.freeAcct {
		acct = c03MkAcct(name+"acct", cfg.nSeg, cfg.nChar, cfg.wideFirst, cfg.wideRest)
	} else {
		acct = c03PlainAcct(name + "acct")
	}
	want.Account = acct
	switch zzverif.Choice(name+"virt", virtN) {
	case 0:
		acctOff = len(line)
		line += acct
	case 1:
		acctOff = len(line) + 1
		line += "(" + acct + ")"
		want.Virtual = ast.VirtualUnbalanced
	case 2:
		acctOff = len(line) + 1
		line += "[" + acct + "]"
		want.Virtual = ast.VirtualBalanced
	}
	if cfg.amt == 2 || (cfg.amt == 1 && zzverif.Choice(name+"amt", 2) == 1) {
		a := c03PickAmount(name+"a", cfg.forms, cfg.syms, cfg.nSym, cfg.shapes)
		line += c03Spaces(2 + zzverif.Choice(name+"gap", cfg.gapN))
		amts = append(amts, c03AmtRef{a, len(line)})
		line += a.text
		want.Amt = a.v
		if k := zzverif.Choice(name+"cost", cfg.costN); k > 0 {
			c := c03PickAmount(name+"c", cfg.costForms, cfg.costSyms, cfg.nSym, cfg.subShapes)
			line += w1 + []string{"@", "@@"}[k-1] + w1
			amts = append(amts, c03AmtRef{c, len(line)})
			line += c.text
			want.HasCost, want.IsTotal, want.Cost = true, k == 2, c.v
		} else {
			amts = append(amts, c03AmtRef{})
		}
		if k := zzverif.Choice(name+"assert", cfg.assertN); k > 0 {
			b := c03PickAmount(name+"b", cfg.assForms, cfg.assSyms, cfg.nSym, cfg.subShapes)
			line += w1 + []string{"=", "=="}[k-1] + w1
			amts = append(amts, c03AmtRef{b, len(line)})
			line += b.text
			want.HasAssert, want.IsStrict, want.Assert = true, k == 2, b.v
		} else {
			amts = append(amts, c03AmtRef{})
		}
	}
	if cfg.cmntBare && len(amts) > 0 {
		return
	}
	if k := cfg.cmnts[zzverif.Choice(name+"cmnt", len(cfg.cmnts))]; k >= 0 {
		cm = c03MkComment(name+"cm", k, cfg.nCmnt)
		if cfg.cmntWS > 0 {
			line += c03Spaces(zzverif.Choice(name+"ws.cmnt", cfg.cmntWS))
		} else {
			line += w1[1:]
		}
		line += ";" + cm.text
		want.Comment = cm.text
	}
	return
}

func c03PostOf(p ast.Posting) c03PostV {
	g := c03PostV{Status: p.Status, Virtual: p.Virtual, Account: p.Account.Name, Amt: c03AmtOf(p.Amount), Comment: p.Comment}
	if p.Cost != nil {
		g.HasCost, g.IsTotal, g.Cost = true, p.Cost.IsTotal, c03AmtOf(&p.Cost.Amount)
	}
	if p.BalanceAssertion != nil {
		g.HasAssert, g.IsStrict, g.Assert = true, p.BalanceAssertion.IsStrict, c03AmtOf(&p.BalanceAssertion.Amount)
	}
	return g
}

func verifC03Posting(cfg c03PostCfg) {
	var cx c03Ctx
	eol := "\n"
	if cfg.crlf == 2 || (cfg.crlf == 1 && zzverif.Choice("eol", 2) == 1) {
		eol = "\r\n"
	}
	if cx.knownCRLF(eol) {
		return
	}
	line, want, acctOff, amts, cm := c03PostLine("", cfg)
	head := "2024-01-15 x" + eol
	text := head + line + eol + "  c:d" + eol
	want.NPost, want.Acct1 = 2, "c:d"

	if cx.knownAcct(text, len(head)+acctOff, want.Account, false) {
		return
	}
	if cx.knownAmounts(text, len(head), amts) {
		return
	}

	j, errs := Parse(text)
	zzverif.Observe("text", text)
	zzverif.Observe("nerrs", len(errs))
	zzverif.Assert(len(errs) == 0, cx.msg("C03 posting: a G posting line produced a syntax error"))
	zzverif.Assert(len(j.Transactions) == 1 && len(j.Directives) == 0 && len(j.Includes) == 0 && len(j.Comments) == 0,
		cx.msg("C03 posting: one transaction expected, nothing else"))
	tx := j.Transactions[0]
	zzverif.Assert(len(tx.Postings) >= 1, cx.msg("C03 posting: the posting is missing"))
	p := tx.Postings[0]
	got := c03PostOf(p)
	got.NPost = len(tx.Postings)
	if len(tx.Postings) > 1 {
		got.Acct1 = tx.Postings[1].Account.Name
	}
	zzverif.Assert(got == want, cx.msg("C03 posting: extracted posting differs from the derivation"))
	if len(amts) > 0 {
		zzverif.Assert(c03QtyEqual(p.Amount, amts[0].a.canon), cx.msg("C03 posting: quantity differs from the exact value written"))
		if want.HasCost {
			zzverif.Assert(c03QtyEqual(&p.Cost.Amount, amts[1].a.canon), cx.msg("C03 posting: cost quantity differs from the exact value written"))
		}
		if want.HasAssert {
			zzverif.Assert(c03QtyEqual(&p.BalanceAssertion.Amount, amts[2].a.canon), cx.msg("C03 posting: assertion quantity differs from the exact value written"))
		}
	}
	zzverif.Assert(c03TagsEqual(p.Tags, cm.tags), cx.msg("C03 posting: tags of the posting comment differ from the derivation"))
	zzverif.Reach("C03.posting.end")
}

// knownAmounts: the classes of the sign, the symbol and the number of an amount.
func (c *c03Ctx) knownAmounts(text string, base int, amts []c03AmtRef) bool {
	for _, r := range amts {
		a := r.a
		if a.text == "" {
			continue
		}
		start := base + r.off
		if (a.text[0] == '-' || a.text[0] == '+') && c03TokAt(text, start) != int(TokenSign) {
			// a sign in front of a left symbol is only taken for a sign when the symbol is a
			// currency sign or letters directly followed by the number (lexer.go scanInLine,
			// nextIsCurrencySymbol / nextIsLetterCommodity): not before a quoted symbol, not
			// before a code that is separated from its number by a blank
			if a.symOff == 1 && (a.sym.text[0] == '"' || (c03IsLetter(a.sym.text[0]) && a.numOff > a.symOff+len(a.sym.text))) {
				if c.knownClass("c03-sign-before-quoted-or-spaced-symbol") {
					return true
				}
			}
		}
		if a.symOff >= 0 && c.knownSymbol(text, start+a.symOff, a.sym) {
			return true
		}
		if a.num.exp3 && !a.num.ipZero {
			if c.knownClass("c03-exp-three-after-mark") {
				return true
			}
		}
	}
	return false
}

var (
	c03SimpleShapes = []c03NumShape{{groups: []int{1}}, {groups: []int{2}, mark: ".", flen: 2}}
	c03AllForms     = []int{0, 1, 2, 3, 4, 5, 6, 7, 8, 9, 10, 11, 12, 13, 14}
	c03AllSyms      = []int{0, 1, 2, 3, 4, 5}
)

const c03PostingFocuses = 9

func c03PostingFocus(f int) c03PostCfg {
	noC := []int{-1}
	one := c03SimpleShapes[:1]
	switch f {
	case 0: // account names, virtual postings, status; followed by EOL, a number, a code joined to a number, a comment
		return c03PostCfg{indN: 1, statusN: 3, virtN: 3, svSplit: true, freeAcct: true, nSeg: 2, nChar: 2, gapN: 1, amt: 1, forms: []int{0, 3}, syms: []int{2},
			nSym: 1, shapes: one, costN: 1, assertN: 1, cmnts: []int{-1, 0}, cmntBare: true, nCmnt: 1, wsN: 2, wideFirst: 3, wideRest: 1}
	case 1: // every number notation, signed and unsigned, bare / left symbol / right symbol
		return c03PostCfg{indN: 1, statusN: 1, virtN: 1, gapN: 1, amt: 2, forms: []int{0, 1, 2, 3, 7, 11, 13}, syms: []int{0, 2},
			nSym: 1, shapes: c03NumShapes(false), costN: 1, assertN: 1, cmnts: noC, wsN: 1}
	case 2: // every amount form with every symbol kind
		return c03PostCfg{indN: 1, statusN: 1, virtN: 1, gapN: 3, amt: 2, forms: c03AllForms, syms: c03AllSyms,
			nSym: 2, shapes: c03SimpleShapes, costN: 1, assertN: 1, cmnts: []int{-1, 0}, nCmnt: 1, wsN: 1, cmntWS: 2}
	case 3: // cost: every form of the cost amount; the assertion is absent or simple
		return c03PostCfg{indN: 1, statusN: 1, virtN: 1, gapN: 1, amt: 2, forms: []int{0, 3, 11}, syms: []int{2},
			nSym: 1, shapes: one, costN: 3, assertN: 3, costForms: []int{0, 1, 3, 5, 7, 11, 13}, costSyms: []int{0, 2, 3, 4},
			assForms: []int{0, 11}, assSyms: []int{2}, subShapes: one, cmnts: []int{-1, 0}, nCmnt: 1, wsN: 2}
	case 4: // assertion: every form of the asserted amount; the cost is absent or simple
		return c03PostCfg{indN: 1, statusN: 1, virtN: 1, gapN: 1, amt: 2, forms: []int{0, 3, 11}, syms: []int{2},
			nSym: 1, shapes: one, costN: 3, assertN: 3, assForms: []int{0, 1, 3, 5, 7, 11, 13}, assSyms: []int{0, 2, 3, 4},
			costForms: []int{0, 11}, costSyms: []int{2}, subShapes: one, cmnts: []int{-1, 0}, nCmnt: 1, wsN: 2}
	case 5: // comment with tags after every kind of last token
		return c03PostCfg{indN: 1, statusN: 1, virtN: 2, gapN: 1, amt: 1, forms: []int{0, 3, 11}, syms: []int{2, 4},
			nSym: 1, shapes: one, costN: 1, assertN: 1, cmnts: c03AllCmnts[1:], nCmnt: 1, wsN: 1, cmntWS: 3}
	case 6: // indentation x status x virtual kind (a status mark in front of a parenthesised account)
		return c03PostCfg{indN: 9, statusN: 3, virtN: 3, gapN: 1, amt: 1, forms: []int{0}, shapes: one, costN: 1, assertN: 1, cmnts: noC, wsN: 1}
	case 7: // number notations inside cost and assertion
		return c03PostCfg{indN: 1, statusN: 1, virtN: 1, gapN: 1, amt: 2, forms: []int{0}, shapes: one, costN: 2, assertN: 2,
			costForms: []int{3, 13}, costSyms: []int{0, 2}, assForms: []int{1, 11}, assSyms: []int{0, 2}, nSym: 1, subShapes: c03NumShapes(false), cmnts: noC, wsN: 1}
	default: // CRLF after every kind of last token
		return c03PostCfg{indN: 1, statusN: 1, virtN: 3, gapN: 1, amt: 1, forms: []int{0, 3, 10, 11}, syms: []int{0, 2, 3, 4},
			nSym: 1, shapes: one, costN: 2, assertN: 2, costForms: []int{0, 11}, costSyms: []int{2}, assForms: []int{0, 11}, assSyms: []int{2}, subShapes: one,
			cmnts: []int{-1, 0, 1}, nCmnt: 1, wsN: 1, crlf: 2}
	}
}

func VerifC03Posting() { verifC03Posting(c03PostingFocus(zzverif.Choice("focus", c03PostingFocuses))) }

// single focuses (development and narrowing down)
func VerifC03PostingF0() { verifC03Posting(c03PostingFocus(0)) }
func VerifC03PostingF1() { verifC03Posting(c03PostingFocus(1)) }
func VerifC03PostingF2() { verifC03Posting(c03PostingFocus(2)) }
func VerifC03PostingF3() { verifC03Posting(c03PostingFocus(3)) }
func VerifC03PostingF4() { verifC03Posting(c03PostingFocus(4)) }
func VerifC03PostingF5() { verifC03Posting(c03PostingFocus(5)) }
func VerifC03PostingF6() { verifC03Posting(c03PostingFocus(6)) }
func VerifC03PostingF7() { verifC03Posting(c03PostingFocus(7)) }
func VerifC03PostingF8() { verifC03Posting(c03PostingFocus(8)) }

// thorough tier: the same focuses with larger bounds (the product of all parts is out of reach)
func c03PostingDeepFocus(f int) c03PostCfg {
	noC := []int{-1}
	one := c03SimpleShapes[:1]
	switch f {
	case 0: // account names: up to 3 segments of one character (or "x y"), every status, every virtual kind, all representatives
		return c03PostCfg{indN: 1, statusN: 3, virtN: 3, svSplit: true, freeAcct: true, nSeg: 3, nChar: 1, gapN: 1, amt: 1, forms: []int{0, 3}, syms: []int{2},
			nSym: 1, shapes: one, costN: 1, assertN: 1, cmnts: []int{-1, 0}, cmntBare: true, nCmnt: 1, wsN: 1, wideFirst: 7, wideRest: 1}
	case 1: // account names: 2 segments of up to 3 characters
		return c03PostCfg{indN: 1, statusN: 2, virtN: 2, svSplit: true, freeAcct: true, nSeg: 2, nChar: 3, gapN: 1, amt: 1, forms: []int{0, 3}, syms: []int{2},
			nSym: 1, shapes: one, costN: 1, assertN: 1, cmnts: []int{-1, 0}, cmntBare: true, nCmnt: 1, wsN: 1, wideFirst: 3, wideRest: 1}
	case 2: // every number notation (long ones included) in every amount form
		return c03PostCfg{indN: 1, statusN: 1, virtN: 1, gapN: 1, amt: 2, forms: c03AllForms, syms: []int{0, 2, 3},
			nSym: 1, shapes: c03NumShapes(true), costN: 1, assertN: 1, cmnts: noC, wsN: 1}
	case 3: // every amount form with every symbol kind, symbols up to 4 characters, every gap
		return c03PostCfg{indN: 1, statusN: 1, virtN: 3, gapN: 3, amt: 2, forms: c03AllForms, syms: c03AllSyms,
			nSym: 4, shapes: c03SimpleShapes, costN: 1, assertN: 1, cmnts: []int{-1, 0}, nCmnt: 1, wsN: 1, cmntWS: 3}
	case 4: // cost: every form and symbol kind of the cost amount; the assertion is absent or simple
		return c03PostCfg{indN: 1, statusN: 1, virtN: 1, gapN: 1, amt: 2, forms: []int{0, 3, 11}, syms: []int{2, 4},
			nSym: 2, shapes: one, costN: 3, assertN: 3, costForms: c03AllForms, costSyms: c03AllSyms,
			assForms: []int{0, 3, 11}, assSyms: []int{2}, subShapes: one, cmnts: []int{-1, 0}, nCmnt: 1, wsN: 2}
	case 5: // assertion: every form and symbol kind of the asserted amount; the cost is absent or simple
		return c03PostCfg{indN: 1, statusN: 1, virtN: 1, gapN: 1, amt: 2, forms: []int{0, 3, 11}, syms: []int{2, 4},
			nSym: 2, shapes: one, costN: 3, assertN: 3, assForms: c03AllForms, assSyms: c03AllSyms,
			costForms: []int{0, 3, 11}, costSyms: []int{2}, subShapes: one, cmnts: []int{-1, 0}, nCmnt: 1, wsN: 2}
	case 6: // comment with tags (leaves up to 2 characters) after an account, a number, a code, a lower-case symbol, an assertion
		return c03PostCfg{indN: 1, statusN: 1, virtN: 2, gapN: 1, amt: 1, forms: []int{0, 11}, syms: []int{2, 4},
			nSym: 1, shapes: one, costN: 1, assertN: 2, assForms: []int{0, 11}, assSyms: []int{2}, subShapes: one,
			cmnts: c03AllCmnts[1:], nCmnt: 2, wsN: 1, cmntWS: 3}
	case 7: // indentation x status x virtual kind
		return c03PostCfg{indN: 9, statusN: 3, virtN: 3, gapN: 3, amt: 1, forms: []int{0, 3, 11}, syms: []int{0, 2}, nSym: 1, shapes: one, costN: 1, assertN: 1, cmnts: []int{-1, 0}, nCmnt: 1, wsN: 1, cmntWS: 2}
	case 8: // every number notation inside cost and assertion
		return c03PostCfg{indN: 1, statusN: 1, virtN: 1, gapN: 1, amt: 2, forms: []int{0}, shapes: one, costN: 2, assertN: 2,
			costForms: []int{0, 3, 13}, costSyms: []int{0, 2}, assForms: []int{1, 4, 11}, assSyms: []int{0, 2}, nSym: 1, subShapes: c03NumShapes(false), cmnts: noC, wsN: 1}
	default: // CRLF after every kind of last token
		return c03PostingFocus(8)
	}
}

const c03PostingDeepFocuses = 10

func VerifC03PostingDeep() {
	verifC03Posting(c03PostingDeepFocus(zzverif.Choice("focus", c03PostingDeepFocuses)))
}

func VerifC03PostingD0() { verifC03Posting(c03PostingDeepFocus(0)) }
func VerifC03PostingD1() { verifC03Posting(c03PostingDeepFocus(1)) }
func VerifC03PostingD2() { verifC03Posting(c03PostingDeepFocus(2)) }
func VerifC03PostingD3() { verifC03Posting(c03PostingDeepFocus(3)) }
func VerifC03PostingD4() { verifC03Posting(c03PostingDeepFocus(4)) }
func VerifC03PostingD5() { verifC03Posting(c03PostingDeepFocus(5)) }
func VerifC03PostingD6() { verifC03Posting(c03PostingDeepFocus(6)) }
func VerifC03PostingD7() { verifC03Posting(c03PostingDeepFocus(7)) }
func VerifC03PostingD8() { verifC03Posting(c03PostingDeepFocus(8)) }
