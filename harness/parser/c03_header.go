//go:build verif

package parser

import (
	"github.com/juev/hledger-lsp/internal/ast"
	"github.com/juev/hledger-lsp/internal/zzverif"
)

func init() {
	zzverif.Register("VerifC03Header", VerifC03Header)
	zzverif.Register("VerifC03HeaderDeep", VerifC03HeaderDeep)
	zzverif.Register("VerifC03HeaderF0", VerifC03HeaderF0)
	zzverif.Register("VerifC03HeaderF1", VerifC03HeaderF1)
	zzverif.Register("VerifC03HeaderF2", VerifC03HeaderF2)
	zzverif.Register("VerifC03HeaderF3", VerifC03HeaderF3)
	zzverif.Register("VerifC03HeaderF4", VerifC03HeaderF4)
	zzverif.Register("VerifC03HeaderD0", VerifC03HeaderD0)
	zzverif.Register("VerifC03HeaderD1", VerifC03HeaderD1)
	zzverif.Register("VerifC03HeaderD2", VerifC03HeaderD2)
	zzverif.Register("VerifC03HeaderD3", VerifC03HeaderD3)
	zzverif.Register("VerifC03HeaderD4", VerifC03HeaderD4)
	zzverif.Register("VerifC03HeaderD5", VerifC03HeaderD5)
}

// transaction := date [ "=" date ] [ WS status ] [ WS "(" code ")" ] [ WS description ]
//                [ WS? ";" comment ] EOL
// followed here by two fixed posting lines, so that a header that is cut short shows up as
// lost postings / "unexpected token: Indent".

type c03HdrV struct {
	Date, Date2                   c03DateV
	HasDate2                      bool
	Status                        ast.Status
	Code, Desc, Payee, Note, Cmnt string
	NCmnt, NPost                  int
	Acct0, Acct1                  string
}

type c03HdrCfg struct {
	dateMode  int   // 0: YYYY-MM-DD only, no secondary date; 1: 12 shapes x {none, same shape, other separator}; 2: 12 x (none + 12); 3: YYYY-MM-DD x {none, same shape}
	statusN   int   // 1: no status; 3: none, *, !
	nCode     int   // longest code (0: no code)
	plainCode bool  // code characters are lower-case letters and digits only
	descKinds int   // 1: none; 2: none | description; 4: none | description | payee-note (payee leaf free) | payee-note (note leaf free)
	fullPN    bool  // payee and note both free leaves (otherwise the other one is lower-case letters and ':')
	nText     int   // longest description / payee / note leaf
	cmnts     []int // allowed trailing comments: -1 none, else a shape of c03MkComment
	nCmnt     int   // leaf size inside comments
	wsN       int   // WS is 1..wsN blanks
	eachWS    bool  // every WS chosen independently (otherwise one width for the whole line)
	crlf      int   // 0: LF; 1: LF and CRLF; 2: CRLF only
	wideFirst int   // non-ASCII representatives offered for the first slot of a text leaf
	wideRest  int   // ... for the other slots
}

func verifC03Header(cfg c03HdrCfg) {
	var cx c03Ctx
	eol := "\n"
	if cfg.crlf == 2 || (cfg.crlf == 1 && zzverif.Choice("eol", 2) == 1) {
		eol = "\r\n"
	}
	if cx.knownCRLF(eol) {
		return
	}
	var want c03HdrV
	w1 := c03Spaces(1 + zzverif.Choice("ws", cfg.wsN))
	ws := func(name string) string {
		if cfg.eachWS {
			return c03Spaces(1 + zzverif.Choice(name, cfg.wsN))
		}
		return w1
	}

	// dates
	var d1, d2 c03Date
	hasD2 := false
	switch cfg.dateMode {
	case 0:
		d1 = c03MkDate("d1", 3)
	case 1:
		sh := zzverif.Choice("d1.shape", 12)
		d1 = c03MkDate("d1", sh)
		switch zzverif.Choice("d2", 3) {
		case 1:
			d2, hasD2 = c03MkDate("d2", sh), true
		case 2:
			d2, hasD2 = c03MkDate("d2", (sh+5)%12), true
		}
	case 3:
		d1 = c03MkDate("d1", 3)
		if zzverif.Choice("d2", 2) == 1 {
			d2, hasD2 = c03MkDate("d2", 3), true
		}
	default:
		d1 = c03MkDate("d1", zzverif.Choice("d1.shape", 12))
		if k := zzverif.Choice("d2", 13); k > 0 {
			d2, hasD2 = c03MkDate("d2", k-1), true
		}
	}
	text := d1.text
	want.Date = d1.v()
	if hasD2 {
		text += "=" + d2.text
		want.HasDate2, want.Date2 = true, d2.v()
	}

	// status
	switch zzverif.Choice("status", cfg.statusN) {
	case 1:
		text += ws("ws.st") + "*"
		want.Status = ast.StatusCleared
	case 2:
		text += ws("ws.st") + "!"
		want.Status = ast.StatusPending
	}

	// code
	codeOff := -1
	if nc := zzverif.Choice("code", 1+cfg.nCode); nc > 0 {
		alpha := zzverif.Printable(")")
		if cfg.plainCode {
			alpha = zzverif.Lower + zzverif.Digit
		}
		code := zzverif.Text("code", alpha, nc)
		text += ws("ws.code")
		codeOff = len(text)
		text += "(" + code + ")"
		want.Code = code
	}

	// description | payee | note
	descOff, noteOff := -1, -1
	dk := zzverif.Choice("desc", cfg.descKinds)
	switch dk {
	case 1:
		d := c03DescText("desc", 1+zzverif.Choice("desc.len", cfg.nText), cfg.wideFirst, cfg.wideRest)
		text += ws("ws.desc")
		descOff = len(text)
		text += d
		want.Desc = d
	case 2, 3:
		// payee | note: in the quick tier one of the two leaves is free, the other one is a
		// lower-case word that may contain ':' (so that a look-ahead from the payee can hit it)
		var p, n string
		if cfg.fullPN || dk == 2 {
			p = c03DescText("payee", 1+zzverif.Choice("payee.len", cfg.nText), cfg.wideFirst, cfg.wideRest)
		} else {
			p = zzverif.Text("payee", zzverif.Lower, 1) + zzverif.Text("payee2", zzverif.Lower+":", 1) + zzverif.Text("payee3", zzverif.Lower, 1)
		}
		if cfg.fullPN || dk == 3 {
			n = c03DescText("note", 1+zzverif.Choice("note.len", cfg.nText), cfg.wideFirst, cfg.wideRest)
		} else {
			n = zzverif.Text("note", zzverif.Lower, 1) + zzverif.Text("note2", zzverif.Lower+":", 1) + zzverif.Text("note3", zzverif.Lower, 1)
		}
		text += ws("ws.desc")
		descOff = len(text)
		text += p + " | "
		noteOff = len(text)
		text += n
		want.Payee, want.Note, want.Desc = p, n, p+" | "+n
	}

	// trailing comment
	var cm c03Comment
	if k := cfg.cmnts[zzverif.Choice("cmnt", len(cfg.cmnts))]; k >= 0 {
		cm = c03MkComment("cm", k, cfg.nCmnt)
		text += c03Spaces(zzverif.Choice("ws.cmnt", cfg.wsN)) + ";" + cm.text
		want.NCmnt, want.Cmnt = 1, cm.text
	}
	text += eol + "  a:b  1" + eol + "  c:d" + eol
	want.NPost, want.Acct0, want.Acct1 = 2, "a:b", "c:d"

	// known-finding classes: input predicate of the leaf && the real lexer mis-lexes it
	if codeOff >= 0 && cx.knownCode(text, codeOff, want.Code) {
		return
	}
	if descOff >= 0 && cx.knownText(text, descOff) {
		return
	}
	if noteOff >= 0 && cx.knownText(text, noteOff) {
		return
	}

	j, errs := Parse(text)
	zzverif.Observe("text", text)
	zzverif.Observe("nerrs", len(errs))
	zzverif.Assert(len(errs) == 0, cx.msg("C03 header: a G transaction produced a syntax error"))
	zzverif.Assert(len(j.Transactions) == 1 && len(j.Directives) == 0 && len(j.Includes) == 0 && len(j.Comments) == 0,
		cx.msg("C03 header: one transaction expected, nothing else"))
	tx := j.Transactions[0]
	var got c03HdrV
	got.Date = c03DateOf(tx.Date)
	if tx.Date2 != nil {
		got.HasDate2, got.Date2 = true, c03DateOf(*tx.Date2)
	}
	got.Status, got.Code, got.Desc, got.Payee, got.Note = tx.Status, tx.Code, tx.Description, tx.Payee, tx.Note
	got.NCmnt = len(tx.Comments)
	if len(tx.Comments) > 0 {
		got.Cmnt = tx.Comments[0].Text
	}
	got.NPost = len(tx.Postings)
	if len(tx.Postings) > 0 {
		got.Acct0 = tx.Postings[0].Account.Name
	}
	if len(tx.Postings) > 1 {
		got.Acct1 = tx.Postings[1].Account.Name
	}
	zzverif.Assert(got == want, cx.msg("C03 header: extracted header differs from the derivation"))
	if want.NCmnt == 1 {
		zzverif.Assert(c03TagsEqual(tx.Comments[0].Tags, cm.tags), cx.msg("C03 header: tags of the header comment differ from the derivation"))
	}
	zzverif.Reach("C03.header.end")
}

var c03AllCmnts = []int{-1, 0, 1, 2, 3, 4, 5}

// quick tier: six focuses, each varies one part of the line fully and keeps the others small
const c03HeaderFocuses = 6

func c03HeaderFocus(f int) c03HdrCfg {
	switch f {
	case 0: // dates
		return c03HdrCfg{dateMode: 1, statusN: 1, descKinds: 2, nText: 1, cmnts: []int{-1, 0}, nCmnt: 1, wsN: 1}
	case 1: // description, payee | note after every kind of predecessor
		return c03HdrCfg{statusN: 3, nCode: 1, plainCode: true, descKinds: 4, nText: 2, cmnts: []int{-1, 0}, nCmnt: 1, wsN: 2, wideFirst: 3}
	case 2: // trailing comment and tags
		return c03HdrCfg{statusN: 1, descKinds: 2, nText: 1, cmnts: c03AllCmnts, nCmnt: 2, wsN: 3, wideFirst: -1}
	case 3: // CRLF after every kind of last token
		return c03HdrCfg{statusN: 3, nCode: 1, descKinds: 4, nText: 1, cmnts: []int{-1, 0, 1}, nCmnt: 1, wsN: 1, crlf: 2}
	case 5: // every optional part present or absent independently of the others (secondary date x status x code x description x comment)
		return c03HdrCfg{dateMode: 3, statusN: 3, nCode: 1, plainCode: true, descKinds: 4, nText: 1, cmnts: []int{-1, 0}, nCmnt: 1, wsN: 2, wideFirst: -1}
	default: // code
		return c03HdrCfg{statusN: 2, nCode: 3, descKinds: 2, nText: 1, cmnts: []int{-1}, wsN: 2, wideFirst: -1}
	}
}

func VerifC03Header()   { verifC03Header(c03HeaderFocus(zzverif.Choice("focus", c03HeaderFocuses))) }
func VerifC03HeaderF0() { verifC03Header(c03HeaderFocus(0)) }
func VerifC03HeaderF1() { verifC03Header(c03HeaderFocus(1)) }
func VerifC03HeaderF2() { verifC03Header(c03HeaderFocus(2)) }
func VerifC03HeaderF3() { verifC03Header(c03HeaderFocus(3)) }
func VerifC03HeaderF4() { verifC03Header(c03HeaderFocus(4)) }

// thorough tier: the same focuses with larger bounds (the full product of all parts is out of
// reach: every part multiplies the number of lexer paths of the others)
func c03HeaderDeepFocus(f int) c03HdrCfg {
	switch f {
	case 0: // dates: every shape with every shape of secondary date, every status, each WS independent
		return c03HdrCfg{dateMode: 2, statusN: 3, descKinds: 2, nText: 1, cmnts: []int{-1, 0}, nCmnt: 1, wsN: 2, eachWS: true, wideFirst: -1}
	case 1: // description of up to 3 characters, payee | note, all non-ASCII representatives first, é later
		return c03HdrCfg{statusN: 3, nCode: 1, plainCode: true, descKinds: 4, nText: 3, cmnts: []int{-1, 0}, nCmnt: 1, wsN: 2, wideFirst: 7, wideRest: 1}
	case 2: // trailing comment and tags after every kind of predecessor
		return c03HdrCfg{statusN: 3, nCode: 1, plainCode: true, descKinds: 2, nText: 1, cmnts: c03AllCmnts, nCmnt: 2, wsN: 3, wideFirst: -1}
	case 3: // payee and note both free, up to 2 characters each
		return c03HdrCfg{statusN: 2, descKinds: 3, fullPN: true, nText: 2, cmnts: []int{-1, 0}, nCmnt: 1, wsN: 1, wideFirst: 3}
	case 4: // CRLF after every kind of last token
		return c03HdrCfg{statusN: 3, nCode: 1, descKinds: 4, nText: 2, cmnts: []int{-1, 0, 1}, nCmnt: 1, wsN: 1, crlf: 2}
	default: // code of up to 6 characters before a description
		return c03HdrCfg{statusN: 3, nCode: 6, descKinds: 2, nText: 1, cmnts: []int{-1, 0}, nCmnt: 1, wsN: 2, wideFirst: -1}
	}
}

const c03HeaderDeepFocuses = 6

func VerifC03HeaderDeep() {
	verifC03Header(c03HeaderDeepFocus(zzverif.Choice("focus", c03HeaderDeepFocuses)))
}

func VerifC03HeaderDeepF(f int) { verifC03Header(c03HeaderDeepFocus(f)) }
func VerifC03HeaderD0()         { VerifC03HeaderDeepF(0) }
func VerifC03HeaderD1()         { VerifC03HeaderDeepF(1) }
func VerifC03HeaderD2()         { VerifC03HeaderDeepF(2) }
func VerifC03HeaderD3()         { VerifC03HeaderDeepF(3) }
func VerifC03HeaderD4()         { VerifC03HeaderDeepF(4) }
func VerifC03HeaderD5()         { VerifC03HeaderDeepF(5) }
