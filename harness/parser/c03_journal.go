//go:build verif

package parser

import (
	"github.com/juev/hledger-lsp/internal/ast"
	"github.com/juev/hledger-lsp/internal/zzverif"
)

func init() {
	zzverif.Register("VerifC03Journal", VerifC03Journal)
	zzverif.Register("VerifC03JournalDeep", VerifC03JournalDeep)
}

// journal := { entry | blank | linecomment }
// Two entries of any kind, optional blank lines and comment lines before / between / after
// them, LF or CRLF. Leaves are short plain words with symbolic content: what is examined is
// how lines and entries follow each other, not the spelling of a single line (that is the
// subject of the Header / Posting / Directive harnesses).

// c03Entry is one entry of the derivation together with its expected extraction.
type c03Entry struct {
	lines []string
	kind  int // 0 transaction, 1 account, 2 commodity, 3 include, 4 P, 5 Y, 6 D
	// transaction
	date          c03Date
	status        ast.Status
	desc, hdrCmnt string
	posts         []c03PostV
	lineTag       c03Tag // tag written on an indented comment line ("" name: none)
	// directives
	acct, subVal, sym, format, path string
	price                           c03Amount
	year                            int
}

const c03EntryKinds = 8

func c03MkEntry(name string, k int) c03Entry {
	low := func(n string, l int) string { return zzverif.Text(name+n, zzverif.Lower, l) }
	switch k {
	case 0, 1: // transaction; 1: with an indented comment line carrying a tag, status and header comment
		e := c03Entry{kind: 0}
		e.date = c03MkDate(name+"d", 3)
		e.desc = low("desc", 2)
		hdr := e.date.text
		if k == 1 {
			hdr += " *"
			e.status = ast.StatusCleared
		}
		hdr += " " + e.desc
		if k == 1 {
			e.hdrCmnt = " " + low("hc", 1)
			hdr += " ;" + e.hdrCmnt
		}
		a1, a2 := c03PlainAcct(name+"a1"), c03PlainAcct(name+"a2")
		num := c03MkNumber(name+"n", c03NumShape{groups: []int{1}, mark: ".", flen: 2})
		code := zzverif.Text(name+"sym", zzverif.Upper, 3)
		amt := c03MkAmount(11, num, c03Sym{code, code})
		e.lines = []string{hdr, "    " + a1 + "  " + amt.text}
		p1 := c03PostV{Account: a1, Amt: amt.v}
		if k == 1 {
			e.lineTag = c03Tag{low("tk", 1), low("tv", 1)}
			e.lines = append(e.lines, "    ; "+e.lineTag.Name+": "+e.lineTag.Value)
		}
		e.lines = append(e.lines, "    "+a2)
		e.posts = []c03PostV{p1, {Account: a2}}
		return e
	case 2: // account with a sub-directive
		e := c03Entry{kind: 1, acct: c03PlainAcct(name + "acct"), subVal: low("sv", 2)}
		e.lines = []string{"account " + e.acct, "  note " + e.subVal}
		return e
	case 3: // commodity with format
		code := zzverif.Text(name+"sym", zzverif.Upper, 3)
		num := c03MkNumber(name+"n", c03NumShape{groups: []int{1, 3}, gsep: ",", mark: ".", flen: 2})
		e := c03Entry{kind: 2, sym: code, format: num.text + " " + code}
		e.lines = []string{"commodity " + code, "  format " + e.format}
		return e
	case 4: // include
		e := c03Entry{kind: 3, path: low("p", 2) + ".journal"}
		e.lines = []string{"include " + e.path}
		return e
	case 5: // P
		e := c03Entry{kind: 4, date: c03MkDate(name+"d", 3), sym: zzverif.Text(name+"sym", zzverif.Upper, 3)}
		num := c03MkNumber(name+"n", c03NumShape{groups: []int{1}, mark: ".", flen: 2})
		e.price = c03MkAmount(3, num, c03Sym{"$", "$"})
		e.lines = []string{"P " + e.date.text + " " + e.sym + " " + e.price.text}
		return e
	case 6: // Y
		y := "2" + zzverif.Digits(name+"y", 3)
		e := c03Entry{kind: 5, year: c03Num(y)}
		e.lines = []string{"Y " + y}
		return e
	default: // D
		num := c03MkNumber(name+"n", c03NumShape{groups: []int{1, 3}, gsep: ",", mark: ".", flen: 2})
		e := c03Entry{kind: 6, sym: "$", format: "$" + num.text}
		e.lines = []string{"D " + e.format}
		return e
	}
}

type c03JrnCfg struct {
	kinds    int // entry kinds offered
	fillers  int // filler choices per gap: 1 none; 2 +blank; 3 +comment line; 4 +blank and comment line; 5 +comment, blank
	crlf     int
	firstFillers int // filler choices before the first entry (0: nothing there)
}

// c03Filler: the lines between entries; returns the lines and the top-level comments in them.
func c03Filler(name string, n int) (lines []string, cms []c03Comment) {
	mk := func() c03Comment { return c03MkComment(name+"cm", zzverif.Choice(name+"cm.shape", 2), 1) } // free text or " name:value"
	switch zzverif.Choice(name, n) {
	case 1:
		return []string{""}, nil
	case 2:
		c := mk()
		return []string{";" + c.text}, []c03Comment{c}
	case 3:
		c := mk()
		return []string{"", ";" + c.text}, []c03Comment{c}
	case 4:
		c := mk()
		return []string{";" + c.text, ""}, []c03Comment{c}
	}
	return nil, nil
}

func verifC03Journal(cfg c03JrnCfg) {
	var cx c03Ctx
	eol := "\n"
	if cfg.crlf == 2 || (cfg.crlf == 1 && zzverif.Choice("eol", 2) == 1) {
		eol = "\r\n"
	}
	if cx.knownCRLF(eol) {
		return
	}
	var lines []string
	var cms []c03Comment
	if cfg.firstFillers > 0 {
		l, c := c03Filler("g0", cfg.firstFillers)
		lines, cms = append(lines, l...), append(cms, c...)
	}
	e1 := c03MkEntry("e1", zzverif.Choice("e1.kind", cfg.kinds))
	lines = append(lines, e1.lines...)
	l, c := c03Filler("g1", cfg.fillers)
	lines, cms = append(lines, l...), append(cms, c...)
	e2 := c03MkEntry("e2", zzverif.Choice("e2.kind", cfg.kinds))
	lines = append(lines, e2.lines...)
	l, c = c03Filler("g2", cfg.fillers)
	lines, cms = append(lines, l...), append(cms, c...)
	text := ""
	for _, ln := range lines {
		text += ln + eol
	}

	j, errs := Parse(text)
	zzverif.Observe("text", text)
	zzverif.Observe("nerrs", len(errs))
	zzverif.Assert(len(errs) == 0, cx.msg("C03 journal: a G journal produced a syntax error"))

	// top-level comment lines
	zzverif.Assert(len(j.Comments) == len(cms), cx.msg("C03 journal: number of top-level comments differs from the derivation"))
	for i, cm := range cms {
		zzverif.Assert(j.Comments[i].Text == cm.text && c03TagsEqual(j.Comments[i].Tags, cm.tags), cx.msg("C03 journal: a top-level comment differs from the derivation"))
	}

	// entries, in order per AST list
	nTx, nDir, nInc := 0, 0, 0
	for _, e := range []c03Entry{e1, e2} {
		switch e.kind {
		case 0:
			zzverif.Assert(len(j.Transactions) > nTx, cx.msg("C03 journal: a transaction is missing"))
			tx := j.Transactions[nTx]
			nTx++
			okHdr := c03DateOf(tx.Date) == e.date.v() && tx.Date2 == nil && tx.Status == e.status && tx.Code == "" && tx.Description == e.desc
			zzverif.Assert(okHdr, cx.msg("C03 journal: transaction header differs from the derivation"))
			// an indented comment line of the transaction may be recorded as a further comment of it
			extra := 0
			if e.lineTag.Name != "" {
				extra = 1
			}
			if e.hdrCmnt != "" {
				zzverif.Assert(len(tx.Comments) >= 1 && len(tx.Comments) <= 1+extra && tx.Comments[0].Text == e.hdrCmnt, cx.msg("C03 journal: header comment differs from the derivation"))
			} else {
				zzverif.Assert(len(tx.Comments) <= extra, cx.msg("C03 journal: header comment differs from the derivation"))
			}
			zzverif.Assert(len(tx.Postings) == len(e.posts), cx.msg("C03 journal: number of postings differs from the derivation"))
			for i, want := range e.posts {
				got := c03PostOf(tx.Postings[i])
				// a posting may carry the comment line that follows it; that is examined below
				got.Comment = ""
				zzverif.Assert(got == want, cx.msg("C03 journal: a posting differs from the derivation"))
			}
			if e.lineTag.Name != "" {
				// the tag written on an indented comment line must be found somewhere in the transaction
				found := c03HasTag(tx.Tags, e.lineTag)
				for _, c := range tx.Comments {
					found = found || c03HasTag(c.Tags, e.lineTag)
				}
				for _, p := range tx.Postings {
					found = found || c03HasTag(p.Tags, e.lineTag)
				}
				// class: the transaction has an indented comment line that carries a tag (input) and
				// the tag is found nowhere in the extracted transaction (parsePosting discards the
				// comment line). Only this assertion is left out.
				if found || !cx.knownClass("c03-indented-comment-tag-dropped") {
					zzverif.Assert(found, cx.msg("C03 journal: the tag of an indented comment line is not extracted"))
				}
			}
		case 3:
			zzverif.Assert(len(j.Includes) > nInc, cx.msg("C03 journal: an include is missing"))
			zzverif.Assert(j.Includes[nInc].Path == e.path, cx.msg("C03 journal: include path differs from the derivation"))
			nInc++
		default:
			zzverif.Assert(len(j.Directives) > nDir, cx.msg("C03 journal: a directive is missing"))
			ok := false
			switch d := j.Directives[nDir].(type) {
			case ast.AccountDirective:
				v, has := d.Subdirs["note"]
				ok = e.kind == 1 && d.Account.Name == e.acct && d.Comment == "" && len(d.Subdirs) == 1 && has && v == e.subVal
			case ast.CommodityDirective:
				ok = e.kind == 2 && d.Commodity.Symbol == e.sym && d.Format == e.format
			case ast.PriceDirective:
				ok = e.kind == 4 && c03DateOf(d.Date) == e.date.v() && d.Commodity.Symbol == e.sym && c03AmtOf(&d.Price) == e.price.v && c03QtyEqual(&d.Price, e.price.canon)
			case ast.YearDirective:
				ok = e.kind == 5 && d.Year == e.year
			case ast.DefaultCommodityDirective:
				ok = e.kind == 6 && d.Symbol == e.sym && d.Format == e.format
			}
			nDir++
			zzverif.Assert(ok, cx.msg("C03 journal: a directive differs from the derivation"))
		}
	}
	zzverif.Assert(len(j.Transactions) == nTx && len(j.Directives) == nDir && len(j.Includes) == nInc, cx.msg("C03 journal: more entries extracted than written"))
	zzverif.Reach("C03.journal.end")
}

func c03HasTag(tags []ast.Tag, t c03Tag) bool {
	for _, g := range tags {
		if g.Name == t.Name && g.Value == t.Value {
			return true
		}
	}
	return false
}

func VerifC03Journal() {
	verifC03Journal(c03JrnCfg{kinds: c03EntryKinds, fillers: 4, crlf: 1})
}

func VerifC03JournalDeep() {
	verifC03Journal(c03JrnCfg{kinds: c03EntryKinds, fillers: 5, crlf: 1, firstFillers: 2})
}
