//go:build verif

package server

import (
	"context"

	"github.com/juev/hledger-lsp/internal/zzverif"
	"go.lsp.dev/protocol"
)

// (vi) go to definition. The handler walks the journals of the include tree, a map keyed by
// path: a name declared in two files, and a name that is only used and whose earliest use
// carries the same date in two files, have two candidate answers; the answer has to be the
// same whatever order the map is visited in.

func init() {
	zzverif.Register("VerifC15Definition", VerifC15Definition)
}

func VerifC15Definition() {
	ctx := context.Background()
	buffer := c15MainDisk + "\n2024-01-04 Alpha\n    x:a  4 USD\n    x:u  -4 GBP\n"
	// x:a and USD are declared in both files; x:u, GBP and the payee are only used, first on
	// the same day in both files
	fileA := "account x:a\ncommodity USD\n\n2024-01-02 Alpha\n    x:u  2 GBP\n    x:a  -2 GBP\n"
	fileB := "account x:a\ncommodity USD\n\n2024-01-02 Alpha\n    x:u  1 GBP\n    x:a  -1 GBP\n"
	s, uri := c15Workspace(fileA, fileB, buffer)
	which := zzverif.Choice("request", 5)
	p := [][2]int{{8, 5}, {8, 12}, {9, 5}, {9, 13}, {7, 12}}[which]
	run := func() []string {
		locs, err := s.Definition(ctx, &protocol.DefinitionParams{TextDocumentPositionParams: protocol.TextDocumentPositionParams{
			TextDocument: protocol.TextDocumentIdentifier{URI: uri}, Position: protocol.Position{Line: uint32(p[0]), Character: uint32(p[1])}}})
		zzverif.Assert(err == nil, "Definition fails")
		out := []string{}
		for _, l := range locs {
			out = append(out, c15Rel(l.URI)+"|"+c15Range(l.Range))
		}
		return out
	}
	first := true
	c15Twice(run, func(ref, got []string) {
		if first {
			first = false
			zzverif.Assert(len(ref) > 0, "harness: the request has a non-empty answer")
			zzverif.Observe("answer", ref)
		}
		zzverif.Assert(c15SameList(ref, got), "definition depends on map iteration order")
	})
	zzverif.Reach("C15.definition.end")
}
