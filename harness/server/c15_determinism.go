//go:build verif

package server

import (
	"context"
	"sort"

	"go.lsp.dev/protocol"

	"github.com/juev/hledger-lsp/internal/zzverif"
)

// C15: responses are a function of workspace state. Every harness runs the request once with
// the executor's reference map order and once with every `range` over a map / sync.Map.Range
// taking an independently chosen order (zzverif.MapOrderNondet, maps of 2..3 entries) and
// asserts that the two responses are identical. "Every order equals the reference order" is,
// by transitivity of equality, the same statement as "any two orders agree". Natively the
// runtime chooses the orders itself: the request is repeated 300 times and every response
// must equal the first one.

func init() {
	zzverif.Register("VerifC15WsSymbols", VerifC15WsSymbols)
	zzverif.Register("VerifC15Rank", VerifC15Rank)
	zzverif.Register("VerifC15Completion", VerifC15Completion)
	zzverif.Register("VerifC15CompletionAll", VerifC15CompletionAll)
	zzverif.Register("VerifC15Builders", VerifC15Builders)
}

const c15Reps = 300

// c15Twice runs f once in reference order and once (engine) / 299 times (native) in free
// order, handing every further result together with the first one to cmp.
func c15Twice(f func() []string, cmp func(ref, got []string)) {
	ref := f()
	if zzverif.Engine() {
		zzverif.MapOrderNondet(true)
		got := f()
		zzverif.MapOrderNondet(false)
		cmp(ref, got)
		return
	}
	for i := 1; i < c15Reps; i++ {
		cmp(ref, f())
	}
}

func c15SameList(a, b []string) bool {
	if len(a) != len(b) {
		return false
	}
	for i := range a {
		if a[i] != b[i] {
			return false
		}
	}
	return true
}

func c15Sorted(a []string) []string {
	out := append([]string(nil), a...)
	sort.Strings(out)
	return out
}

func c15Pos(p protocol.Position) string {
	return zzverif.Itoa(int(p.Line)) + ":" + zzverif.Itoa(int(p.Character))
}

func c15Range(r protocol.Range) string { return c15Pos(r.Start) + "-" + c15Pos(r.End) }

func c15URI(name string) protocol.DocumentURI {
	return protocol.DocumentURI("file://" + zzverif.Root() + "/" + name)
}

// c15Rel strips the (run-specific) root directory from a URI.
func c15Rel(u protocol.DocumentURI) string {
	s := string(u)
	p := "file://" + zzverif.Root() + "/"
	if len(s) >= len(p) && s[:len(p)] == p {
		return s[len(p):]
	}
	return s
}

// ---------------------------------------------------------------------------------------
// (iii) workspace symbols across two open documents
// ---------------------------------------------------------------------------------------

func VerifC15WsSymbols() {
	ctx := context.Background()
	// the second document's payee is "Sho" + a symbolic letter: whether the two documents
	// share the payee name is left to the solver
	last := string([]byte{zzverif.ByteIn("payee.last", "pq")})
	docA := "account ex:food\ncommodity USD\n\n2024-01-05 Shop\n    ex:food  5 USD\n    as:cash\n"
	docB := "account as:cash\n\n2024-01-06 Sho" + last + "\n    ex:food  7 USD\n    as:cash\n"
	ndocs := 2 + zzverif.Choice("third", 2)
	open := func() *Server {
		s := NewServer()
		_ = s.DidOpen(ctx, &protocol.DidOpenTextDocumentParams{TextDocument: protocol.TextDocumentItem{URI: c15URI("a.journal"), Text: docA}})
		_ = s.DidOpen(ctx, &protocol.DidOpenTextDocumentParams{TextDocument: protocol.TextDocumentItem{URI: c15URI("b.journal"), Text: docB}})
		if ndocs == 3 {
			_ = s.DidOpen(ctx, &protocol.DidOpenTextDocumentParams{TextDocument: protocol.TextDocumentItem{URI: c15URI("c.journal"), Text: "2024-01-07 Cafe\n    ex:food  1 USD\n    as:cash\n"}})
		}
		return s
	}
	s := open()
	query := []string{"", "sho", "as:", "zzz"}[zzverif.Choice("query", 4)]
	run := func() []string {
		if !zzverif.Engine() {
			// natively sync.Map.Range keeps one order per map instance: every repetition asks a
			// fresh server that was given the same documents
			s = open()
		}
		syms, err := s.WorkspaceSymbol(ctx, &protocol.WorkspaceSymbolParams{Query: query})
		zzverif.Assert(err == nil, "WorkspaceSymbol fails")
		out := make([]string, 0, len(syms))
		for _, sy := range syms {
			out = append(out, sy.Name+"|"+zzverif.Itoa(int(sy.Kind))+"|"+c15Rel(sy.Location.URI)+"|"+c15Range(sy.Location.Range))
		}
		return out
	}
	c15Twice(run, func(ref, got []string) {
		same := c15SameList(ref, got)
		// class: the symbols of each document are unchanged and in the same relative order, only
		// the order of the documents (sync.Map.Range order) differs
		if !same && zzverif.Known("c15-wssymbol-document-order") && c15SameList(c15Sorted(ref), c15Sorted(got)) && c15PerDocOrderKept(ref, got) {
			zzverif.Reach("kf:c15-wssymbol-document-order")
			return
		}
		zzverif.Assert(same, "workspace symbols depend on map iteration order")
	})
	zzverif.Reach("C15.wssymbols.end")
}

// c15PerDocOrderKept: restricted to any single document the two lists are the same sequence.
func c15PerDocOrderKept(ref, got []string) bool {
	for _, doc := range []string{"a.journal", "b.journal", "c.journal"} {
		if !c15SameList(c15OfDoc(ref, doc), c15OfDoc(got, doc)) {
			return false
		}
	}
	return true
}

func c15OfDoc(l []string, doc string) []string {
	var out []string
	for _, e := range l {
		// rendering: name|kind|doc|range
		n := 0
		start := 0
		for i := 0; i < len(e); i++ {
			if e[i] == '|' {
				n++
				if n == 2 {
					start = i + 1
				}
				if n == 3 && e[start:i] == doc {
					out = append(out, e)
				}
			}
		}
	}
	return out
}

// ---------------------------------------------------------------------------------------
// (ii-b) ranking: the pipeline behind the collected names, for every order in which the
// collectors may hand the names over, with symbolic usage counts
// ---------------------------------------------------------------------------------------

func c15RenderItems(items []protocol.CompletionItem) []string {
	out := make([]string, 0, len(items))
	for _, it := range items {
		te := ""
		if it.TextEdit != nil {
			te = c15Range(it.TextEdit.Range) + "=" + it.TextEdit.NewText
		}
		out = append(out, it.Label+"|"+it.SortText+"|"+it.FilterText+"|"+it.Detail+"|"+it.InsertText+"|"+zzverif.Itoa(int(it.Kind))+"|"+te)
	}
	return out
}

func VerifC15Rank() {
	// names that differ in more than case, or in case only (a case-insensitive tie-break is
	// not a total order on the second set)
	labels := [][]string{{"ex:food", "ex:fuel", "as:food"}, {"ex:Food", "ex:food", "Ex:food"}}[zzverif.Choice("names", 2)]
	n := 2 + zzverif.Choice("n", 2)
	labels = labels[:n]
	counts := map[string]int{}
	for i, l := range labels {
		counts[l] = zzverif.Int("count"+zzverif.Itoa(i), 0, 9)
	}
	query := []string{"", "f", "ex:f"}[zzverif.Choice("query", 3)]
	fuzzy := zzverif.Bool("fuzzy")
	// the order in which the collectors deliver the names (any permutation)
	perm := make([]string, 0, n)
	rest := append([]string(nil), labels...)
	for len(rest) > 1 {
		k := zzverif.Choice("order"+zzverif.Itoa(len(rest)), len(rest))
		perm = append(perm, rest[k])
		rest = append(rest[:k:k], rest[k+1:]...)
	}
	perm = append(perm, rest...)
	rank := func(names []string) ([]string, []scoredItem) {
		items := make([]protocol.CompletionItem, 0, len(names))
		for _, l := range names {
			items = append(items, protocol.CompletionItem{Label: l, Kind: protocol.CompletionItemKindVariable, Detail: formatDetailWithCount("Account", l, counts, true)})
		}
		scored := filterAndScoreFuzzyMatch(items, query, fuzzy)
		keep := append([]scoredItem(nil), scored...)
		return c15RenderItems(rankCompletionItemsByScore(scored, counts, query)), keep
	}
	ref, _ := rank(labels)
	got, scored := rank(perm)
	same := c15SameList(ref, got)
	if !same && zzverif.Known("c15-completion-tie-order") && c15OnlyTiesPermuted(ref, got, scored, counts) {
		zzverif.Reach("kf:c15-completion-tie-order")
	} else {
		zzverif.Assert(same, "ranked completion list depends on the order in which names were collected")
	}
	zzverif.Reach("C15.rank.end")
}

func c15Label(rendered string) string {
	for i := 0; i < len(rendered); i++ {
		if rendered[i] == '|' {
			return rendered[:i]
		}
	}
	return rendered
}

// c15OnlyTiesPermuted: same labels overall, and at every position the two lists hold items
// of equal (score, usage count) - i.e. only items the comparator cannot tell apart moved.
func c15OnlyTiesPermuted(ref, got []string, scored []scoredItem, counts map[string]int) bool {
	if len(ref) != len(got) {
		return false
	}
	score := map[string]int{}
	for _, s := range scored {
		score[s.item.Label] = s.score
	}
	la, lb := make([]string, len(ref)), make([]string, len(got))
	for i := range ref {
		la[i], lb[i] = c15Label(ref[i]), c15Label(got[i])
	}
	if !c15SameList(c15Sorted(la), c15Sorted(lb)) {
		return false
	}
	for i := range la {
		if score[la[i]] != score[lb[i]] {
			return false
		}
		if counts != nil && counts[la[i]] != counts[lb[i]] {
			return false
		}
	}
	return true
}

// ---------------------------------------------------------------------------------------
// shared workspace for (ii-c) and (v): root + two included files sharing names
// ---------------------------------------------------------------------------------------

// Every file uses one account per transaction side twice, one commodity and one tag, so that
// the per-file maps have a single entry and only the maps keyed by file / by workspace-wide
// name are iterated in several orders.
const (
	c15MainDisk = "include a.journal\ninclude b.journal\n\n2024-01-01 Root  ; tr:1\n    r:r  1 CHF\n    r:r  -1 CHF\n"
	c15FileA    = "account x:a\ncommodity USD\n\n2024-01-02 Alpha  ; ta:1\n    x:a  2 USD\n    x:a  -2 USD\n"
	c15FileB    = "account x:b\ncommodity EUR\n\n2024-01-03 Beta  ; tb:1\n    x:b  3 EUR\n    x:b  -3 EUR\n"
)

func c15Workspace(fileA, fileB, mainBuffer string) (*Server, protocol.DocumentURI) {
	ctx := context.Background()
	root := zzverif.Root()
	zzverif.WriteFile(root+"/main.journal", c15MainDisk)
	zzverif.WriteFile(root+"/a.journal", fileA)
	zzverif.WriteFile(root+"/b.journal", fileB)
	s := NewServer()
	cl := &zzClient{}
	s.SetClient(cl)
	_, _ = s.Initialize(ctx, &protocol.InitializeParams{RootURI: protocol.DocumentURI("file://" + root)})
	zzverif.Assert(s.workspace != nil, "workspace created")
	err := s.workspace.Initialize()
	zzverif.Assert(err == nil, "workspace initialised")
	uri := c15URI("main.journal")
	s.StoreDocument(uri, mainBuffer)
	return s, uri
}

// completion contexts: the buffer of main.journal is the disk content plus one line being typed
var c15CompletionLines = []struct {
	line string
	ctx  CompletionContextType
}{
	{"2024-01-20 ", ContextPayee},
	{"    ", ContextAccount},
	{"    r:r  1 ", ContextCommodity},
	{"    r:r  1 CHF  ; ", ContextTagName},
	{"    x:", ContextAccount},
}

func verifC15Completion(which int) {
	ctx := context.Background()
	c := c15CompletionLines[which]
	buffer := c15MainDisk + "\n2024-01-20 New\n" + c.line
	if c.ctx == ContextPayee {
		buffer = c15MainDisk + "\n" + c.line
	}
	s, uri := c15Workspace(c15FileA, c15FileB, buffer)
	nlines := 0
	for i := 0; i < len(buffer); i++ {
		if buffer[i] == '\n' {
			nlines++
		}
	}
	pos := protocol.Position{Line: uint32(nlines), Character: uint32(len(c.line))}
	zzverif.Assert(determineCompletionContext(buffer, pos, nil) == c.ctx, "harness cursor is in the intended completion context")
	var counts map[string]int
	var scored []scoredItem
	run := func() []string {
		l, err := s.Completion(ctx, &protocol.CompletionParams{TextDocumentPositionParams: protocol.TextDocumentPositionParams{TextDocument: protocol.TextDocumentIdentifier{URI: uri}, Position: pos}})
		zzverif.Assert(err == nil && l != nil, "Completion fails")
		return c15RenderItems(l.Items)
	}
	// (score, count) per label for the class predicate, from the real functions in reference order
	{
		res := s.analyzer.AnalyzeResolved(s.getWorkspaceResolved(uri))
		counts = getCountsForContext(c.ctx, res)
		items := s.generateCompletionItems(c.ctx, res, buffer, pos, counts, s.getSettings().Completion)
		scored = filterAndScoreFuzzyMatch(items, extractQueryText(buffer, pos, c.ctx), s.getSettings().Completion.FuzzyMatching)
	}
	first := true
	c15Twice(run, func(ref, got []string) {
		if first {
			zzverif.Assert(len(ref) >= 2, "harness: at least two candidates")
			first = false
		}
		same := c15SameList(ref, got)
		if !same && zzverif.Known("c15-completion-tie-order") && c15OnlyTiesPermuted(ref, got, scored, counts) && c15SortTextByPosition(got) {
			zzverif.Reach("kf:c15-completion-tie-order")
			return
		}
		zzverif.Assert(same, "completion list depends on map iteration order")
	})
	zzverif.Reach("C15.completion.end")
}

// c15SortTextByPosition: SortText is still "%06d_label" of the item's own position.
func c15SortTextByPosition(l []string) bool {
	for i, e := range l {
		label := c15Label(e)
		want := label + "|" + c15Pad6(i) + "_" + label + "|"
		if len(e) < len(want) || e[:len(want)] != want {
			return false
		}
	}
	return true
}

func c15Pad6(i int) string {
	s := zzverif.Itoa(i)
	for len(s) < 6 {
		s = "0" + s
	}
	return s
}

// quick: payee context
func VerifC15Completion() { verifC15Completion(0) }

// thorough: all contexts
func VerifC15CompletionAll() { verifC15Completion(zzverif.Choice("context", len(c15CompletionLines))) }

// ---------------------------------------------------------------------------------------
// (v) references / document symbols / hover builders
// ---------------------------------------------------------------------------------------

func VerifC15Builders() {
	ctx := context.Background()
	// main.journal (open) uses the accounts, commodities, payee and tags of both included files
	buffer := c15MainDisk + "\n2024-01-04 Alpha  ; ta:2, tb:1\n    x:a  4 USD\n    x:a  5 EUR\n    x:b  -4 USD\n    x:b  -5 EUR\n"
	// the included files share accounts, commodities, the payee and tag names: x:a carries a
	// balance in two commodities, tag ta has two values
	fileA := "account x:a\ncommodity USD\n\n2024-01-02 Alpha  ; ta:1, tb:9\n    x:a  2 USD\n    x:a  3 EUR\n    x:b  -2 USD\n    x:b  -3 EUR\n"
	fileB := "account x:a\ncommodity USD\ncommodity EUR\n\n2024-01-03 Alpha  ; ta:2\n    x:a  1 USD\n    x:b  -1 USD\n\n2024-01-03 Beta\n    x:a  6 EUR  ; ta:1\n    x:b  -6 EUR\n"
	s, uri := c15Workspace(fileA, fileB, buffer)
	// line numbers (0-based) inside buffer: the added transaction starts at line 7
	tdp := func(line, ch int) protocol.TextDocumentPositionParams {
		return protocol.TextDocumentPositionParams{TextDocument: protocol.TextDocumentIdentifier{URI: uri}, Position: protocol.Position{Line: uint32(line), Character: uint32(ch)}}
	}
	which := zzverif.Choice("request", 8)
	run := func() []string {
		switch which {
		case 0, 1, 2: // references: account x:a (line 8), commodity USD (line 8), payee Alpha (line 7)
			p := [][2]int{{8, 5}, {8, 12}, {7, 12}}[which]
			locs, err := s.References(ctx, &protocol.ReferenceParams{TextDocumentPositionParams: tdp(p[0], p[1]), Context: protocol.ReferenceContext{IncludeDeclaration: true}})
			zzverif.Assert(err == nil, "References fails")
			out := []string{}
			for _, l := range locs {
				out = append(out, c15Rel(l.URI)+"|"+c15Range(l.Range))
			}
			return out
		case 3:
			syms, err := s.DocumentSymbol(ctx, &protocol.DocumentSymbolParams{TextDocument: protocol.TextDocumentIdentifier{URI: uri}})
			zzverif.Assert(err == nil, "DocumentSymbol fails")
			out := []string{}
			for _, sy := range syms {
				d := sy.(protocol.DocumentSymbol)
				out = append(out, d.Name+"|"+zzverif.Itoa(int(d.Kind))+"|"+c15Range(d.Range))
			}
			return out
		default: // hover: account x:a (two commodities in its balance), payee, tag name ta, tag value, amount
			p := [][2]int{{8, 5}, {7, 12}, {7, 20}, {7, 23}}[which-4]
			h, err := s.Hover(ctx, &protocol.HoverParams{TextDocumentPositionParams: tdp(p[0], p[1])})
			zzverif.Assert(err == nil, "Hover fails")
			if h == nil {
				return []string{"<nil>"}
			}
			r := ""
			if h.Range != nil {
				r = c15Range(*h.Range)
			}
			return []string{h.Contents.Value, r}
		}
	}
	first := true
	c15Twice(run, func(ref, got []string) {
		if first {
			first = false
			zzverif.Assert(len(ref) > 0 && ref[0] != "<nil>", "harness: the request has a non-empty answer")
			zzverif.Observe("answer", ref)
		}
		zzverif.Assert(c15SameList(ref, got), "references / symbols / hover depend on map iteration order")
	})
	zzverif.Reach("C15.builders.end")
}
