//go:build verif

package server

// C08 document model: a journal of grammar G (DESIGN §4.2) is produced from a derivation
// (c08Opt); while the text is emitted the builder records, for every line, the UTF-16
// length and the rune -> UTF-16 column table, and for every leaf (account, commodity,
// payee, date, tag, amount, include path) its UTF-16 span. The derivation is the ground
// truth; the validators below (validRange, covers, laminar of DESIGN §4.6) are written
// against it only.

import (
	"go.lsp.dev/protocol"

	"github.com/juev/hledger-lsp/internal/zzverif"
)

// leaf kinds
const (
	c08KAcct = iota
	c08KComm
	c08KPayee
	c08KDate
	c08KTag      // name:value
	c08KTagName  // name
	c08KTagValue // value
	c08KAmount
	c08KPath
	c08NKinds
)

var c08KindName = []string{"account", "commodity", "payee", "date", "tag", "tag name", "tag value", "amount", "include path"}

// entry kinds
const (
	c08ETx = iota
	c08EAccount
	c08ECommodity
	c08EInclude
	c08EPrice
	c08EYear
	c08EComment // block of line comments
)

type c08Leaf struct {
	kind   int
	line   int
	s, e   int // UTF-16 span [s,e) on line
	rs, re int // the same span in runes
	bs, be int // the same span in bytes
	entry  int
	decl   bool // leaf of an account/commodity directive (a declaration)
	name   string
}

type c08Entry struct {
	kind        int
	first, last int  // first and last line (inclusive) that belong to the entry
	status      bool // transaction header carries a status mark
}

type c08Doc struct {
	text    string
	crlf    bool
	lens    []int   // UTF-16 length of each line's content (terminator excluded); one entry per line
	u16     [][]int // per line: UTF-16 offset of rune i (i = 0..runes), last element = lens[line]
	boff    [][]int // per line: byte offset of rune i
	semi    []int   // per line: rune index of the ';' that starts a comment, -1 if none
	blank   [][]bool // per line: rune i is a blank
	leaves  []c08Leaf
	entries []c08Entry
}

// ---- slot sites (where a wide character may be placed) ----
const (
	c08SCode = iota
	c08SDesc
	c08SNote
	c08SHFree // free text of the header comment
	c08SHVal  // tag value in the header comment
	c08SSeg1  // first segment of posting account 1
	c08SSeg2  // second segment of posting account 1
	c08SQuoted
	c08SPFree // free text of posting comment
	c08SPVal  // tag value of posting comment
	c08SAcct2 // segment of posting account 2
	c08SDComment
	c08SPath
	c08SLineComment
	c08NSites
)

var c08Wide = []string{"", "é", "€", "😀"}

// c08Opt is the derivation: every field is a concrete choice.
type c08Opt struct {
	crlf   int // 0 "\n", 1 "\r\n"
	noEOL  int // 1: last line has no terminator
	layout int

	date, date2, status, hws, code, desc, hcomment int

	ind, pstatus, virt, segsp, gap, amount, cost, assertion, pcomment int
	p2comment, p2amount                                              int

	concrete      int // 1: ASCII slots are the concrete letter "o" instead of a symbolic lower-case letter
	site, class   int // wide character at site (class 1..3); site -1 = none
	site2, class2 int
}

type c08B struct {
	o       *c08Opt
	d       *c08Doc
	line    int
	cu16    []int
	cboff   []int
	cblank  []bool
	csemi   int
	u, b    int
	used    [c08NSites]bool
	slotTxt [c08NSites]string
	slotSet [c08NSites]bool
	entry   int
}

func c08NewB(o *c08Opt) *c08B {
	b := &c08B{o: o, d: &c08Doc{crlf: o.crlf == 1}}
	b.cu16 = []int{0}
	b.cboff = []int{0}
	b.csemi = -1
	return b
}

// slot returns the one-character text of a slot site (the same text wherever the site's leaf is repeated).
func (b *c08B) slot(site int) string {
	if !b.slotSet[site] {
		b.slotSet[site] = true
		switch {
		case site == b.o.site:
			b.slotTxt[site] = c08Wide[b.o.class]
		case site == b.o.site2:
			b.slotTxt[site] = c08Wide[b.o.class2]
		case b.o.concrete == 1:
			b.slotTxt[site] = "o"
		case site == c08SPath:
			b.slotTxt[site] = "t" // a symbolic letter in a file name only multiplies the file-system probes
		default:
			b.slotTxt[site] = string([]byte{zzverif.ByteIn("s"+zzverif.Itoa(site), zzverif.Lower)})
		}
	}
	b.used[site] = true
	return b.slotTxt[site]
}

// put appends text without line terminators, keeping the column tables. The lead byte
// decides the width; symbolic bytes are ASCII letters, so no decision here ever forks.
func (b *c08B) put(s string) {
	b.d.text += s
	for i := 0; i < len(s); {
		c := s[i]
		size, units := 1, 1
		switch {
		case c >= 0xF0:
			size, units = 4, 2
		case c >= 0xE0:
			size = 3
		case c >= 0xC0:
			size = 2
		}
		b.cblank = append(b.cblank, size == 1 && (c == ' ' || c == '\t'))
		i += size
		b.u += units
		b.b += size
		b.cu16 = append(b.cu16, b.u)
		b.cboff = append(b.cboff, b.b)
	}
}

func (b *c08B) flushLine() {
	b.d.lens = append(b.d.lens, b.u)
	b.d.u16 = append(b.d.u16, b.cu16)
	b.d.boff = append(b.d.boff, b.cboff)
	b.d.blank = append(b.d.blank, b.cblank)
	b.d.semi = append(b.d.semi, b.csemi)
	b.cu16 = []int{0}
	b.cboff = []int{0}
	b.cblank = nil
	b.csemi = -1
	b.u, b.b = 0, 0
	b.line++
}

func (b *c08B) eol() {
	if b.d.crlf {
		b.d.text += "\r\n"
	} else {
		b.d.text += "\n"
	}
	b.flushLine()
}

func (b *c08B) open(kind int, decl bool) int {
	b.d.leaves = append(b.d.leaves, c08Leaf{kind: kind, line: b.line, s: b.u, rs: len(b.cu16) - 1, bs: b.b, entry: b.entry, decl: decl})
	return len(b.d.leaves) - 1
}

func (b *c08B) close(i int) {
	l := &b.d.leaves[i]
	l.e, l.re, l.be = b.u, len(b.cu16)-1, b.b
}

func (b *c08B) leaf(kind int, decl bool, s string) {
	i := b.open(kind, decl)
	b.put(s)
	b.close(i)
	b.d.leaves[i].name = s
}

func (b *c08B) semiHere() {
	if b.csemi < 0 {
		b.csemi = len(b.cu16) - 1
	}
}

func (b *c08B) beginEntry(kind int) {
	b.entry = len(b.d.entries)
	b.d.entries = append(b.d.entries, c08Entry{kind: kind, first: b.line, last: b.line})
}

func (b *c08B) endEntryHere() { b.d.entries[b.entry].last = b.line }

func c08Spaces(n int) string { return "        "[:n] }

// ---- leaf texts ----

func (b *c08B) acct1() string {
	if b.o.segsp == 1 {
		return "ex" + b.slot(c08SSeg1) + " p:fo" + b.slot(c08SSeg2) + "d"
	}
	return "ex" + b.slot(c08SSeg1) + ":fo" + b.slot(c08SSeg2) + "d"
}

func (b *c08B) acct2() string { return "as:ca" + b.slot(c08SAcct2) + "h" }

func (b *c08B) payee1() string { return "Sh" + b.slot(c08SDesc) + "p" }

// comment emits ";" + a comment body of the chosen form and records tag leaves.
// form 1: free text with a slot, then a tag  "; f?x, k:v?"      form 2: a tag with blank after the colon "; k: v?"
// form 3: tag with empty value, then tag   ";k:, date:x?"       form 4: free text only "; n?te"
// form 5: two tags, the second name is a suffix of the first value ";ab:b, b:v?"
func (b *c08B) comment(form int, free, val int) {
	b.semiHere()
	b.put(";")
	tag := func(name, value, sep string) {
		t := b.open(c08KTag, false)
		b.leaf(c08KTagName, false, name)
		b.put(":" + sep)
		b.leaf(c08KTagValue, false, value) // an empty value is the empty text after the colon
		b.close(t)
	}
	switch form {
	case 1:
		b.put(" f" + b.slot(free) + "x, ")
		tag("k", "v"+b.slot(val), "")
	case 2:
		b.put(" ")
		tag("k", "v"+b.slot(val), " ")
	case 3:
		tag("k", "", "")
		b.put(", ")
		tag("date", "x"+b.slot(val), "")
	case 4:
		b.put(" n" + b.slot(free) + "te")
	case 5:
		tag("ab", "b", "")
		b.put(", ")
		tag("b", "v"+b.slot(val), "")
		b.put(", ")
		tag("b", "wxyz", "") // the same name again, with a value of another length
	}
}

// amount emits an amount of the chosen form; returns false when there is none.
func (b *c08B) amountForm(form int) {
	a := b.open(c08KAmount, false)
	switch form {
	case 0:
		b.put("1 ")
		b.leaf(c08KComm, false, "USD")
	case 1:
		b.leaf(c08KComm, false, "$")
		b.put("1")
	case 2:
		b.put("-")
		b.leaf(c08KComm, false, "€")
		b.put("1.50")
	case 3:
		b.put("1 ")
		b.leaf(c08KComm, false, "\"q"+b.slot(c08SQuoted)+" z\"")
	case 4:
		b.leaf(c08KComm, false, "USD")
		b.put("1")
	case 5:
		b.put("1")
	case 6:
		b.put("1")
		b.leaf(c08KComm, false, "€")
	case 7:
		b.put("1,000.5 ")
		b.leaf(c08KComm, false, "usd")
	}
	b.close(a)
}

func (b *c08B) tx1() {
	o := b.o
	b.beginEntry(c08ETx)
	ws := c08Spaces(o.hws)
	switch o.date {
	case 0:
		b.leaf(c08KDate, false, "2024-01-15")
	case 1:
		b.leaf(c08KDate, false, "2024/1/5")
	}
	if o.date2 == 1 {
		b.put("=")
		b.leaf(c08KDate, false, "2024-01-16")
	}
	switch o.status {
	case 1:
		b.put(ws + "*")
	case 2:
		b.put(ws + "!")
	}
	b.d.entries[b.entry].status = o.status != 0
	if o.code == 1 {
		b.put(ws + "(c" + b.slot(c08SCode) + ")")
	}
	b.put(ws)
	b.leaf(c08KPayee, false, b.payee1())
	if o.desc == 1 {
		b.put(" | n" + b.slot(c08SNote) + "t")
	}
	if o.hcomment > 0 {
		b.put([]string{"  ", " ", "", "  ", " "}[o.hcomment-1])
		b.comment(o.hcomment, c08SHFree, c08SHVal)
	}
	b.eol()
	// posting 1
	b.put([]string{"    ", "\t", "  "}[o.ind])
	if o.pstatus == 1 {
		b.put("* ")
	}
	switch o.virt {
	case 1:
		b.put("(")
	case 2:
		b.put("[")
	}
	b.leaf(c08KAcct, false, b.acct1())
	switch o.virt {
	case 1:
		b.put(")")
	case 2:
		b.put("]")
	}
	if o.amount >= 0 {
		b.put(c08Spaces(o.gap))
		b.amountForm(o.amount)
		switch o.cost {
		case 1:
			b.put(" @ ")
			a := b.open(c08KAmount, false)
			b.put("2 ")
			b.leaf(c08KComm, false, "EUR")
			b.close(a)
		case 2:
			b.put("  @@ ")
			a := b.open(c08KAmount, false)
			b.leaf(c08KComm, false, "€")
			b.put("2")
			b.close(a)
		}
		if o.assertion == 1 {
			b.put(" = ")
			a := b.open(c08KAmount, false)
			b.leaf(c08KComm, false, "$")
			b.put("5")
			b.close(a)
		}
	}
	if o.pcomment > 0 {
		b.put([]string{"  ", " ", "", "  ", " "}[o.pcomment-1])
		b.comment(o.pcomment, c08SPFree, c08SPVal)
	}
	b.endEntryHere()
	b.eol()
	// posting 2
	b.put("    ")
	b.leaf(c08KAcct, false, b.acct2())
	if o.p2amount == 1 {
		b.put("  ")
		a := b.open(c08KAmount, false)
		b.put("5 ")
		b.leaf(c08KComm, false, "USD")
		b.close(a)
	}
	switch o.p2comment {
	case 1:
		b.put(" ")
		b.semiHere()
		b.put("; x")
	case 2:
		b.semiHere()
		b.put("; x")
	}
	b.endEntryHere()
}

func (b *c08B) tx2() {
	b.beginEntry(c08ETx)
	b.leaf(c08KDate, false, "2024-01-16")
	b.put(" ")
	b.leaf(c08KPayee, false, "Cafe")
	b.eol()
	b.put("    ")
	b.leaf(c08KAcct, false, b.acct1())
	b.put("  ")
	a := b.open(c08KAmount, false)
	b.put("2 ")
	b.leaf(c08KComm, false, "USD")
	b.close(a)
	b.endEntryHere()
	b.eol()
	b.put("    ")
	b.leaf(c08KAcct, false, "as:bank")
	b.endEntryHere()
}

// directive entries
func (b *c08B) dirAccount(form int) {
	b.beginEntry(c08EAccount)
	b.put("account ")
	switch form {
	case 0:
		b.leaf(c08KAcct, true, b.acct1())
	case 1:
		b.leaf(c08KAcct, true, b.acct1())
		b.put("  ")
		b.semiHere()
		b.put("; d" + b.slot(c08SDComment) + ", type:X")
	case 2:
		b.leaf(c08KAcct, true, "other:acct")
	case 3: // with a subdirective line
		b.leaf(c08KAcct, true, b.acct1())
		b.eol()
		b.put("    note n")
		b.endEntryHere()
	}
}

func (b *c08B) dirCommodity(form int) {
	b.beginEntry(c08ECommodity)
	b.put("commodity ")
	switch form {
	case 0:
		b.leaf(c08KComm, true, "USD")
	case 1:
		b.put("1.00 ")
		b.leaf(c08KComm, true, "USD")
	case 2:
		b.leaf(c08KComm, true, "$")
		b.put("1.00")
	case 3:
		b.leaf(c08KComm, true, "€")
		b.put("1.00")
	case 4:
		b.leaf(c08KComm, true, "USD")
		b.eol()
		b.put("    format 1.00 USD")
		b.endEntryHere()
	case 5:
		b.leaf(c08KComm, true, "\"q"+b.slot(c08SQuoted)+" z\"")
	}
}

func (b *c08B) dirInclude() {
	b.beginEntry(c08EInclude)
	b.put("include ")
	b.leaf(c08KPath, false, "o"+b.slot(c08SPath)+"her.journal")
}

func (b *c08B) dirPrice() {
	b.beginEntry(c08EPrice)
	b.put("P ")
	b.leaf(c08KDate, false, "2024-01-01")
	b.put(" ")
	b.leaf(c08KComm, false, "USD")
	b.put(" ")
	a := b.open(c08KAmount, false)
	b.put("2 ")
	b.leaf(c08KComm, false, "EUR")
	b.close(a)
}

func (b *c08B) dirYear() {
	b.beginEntry(c08EYear)
	b.put("Y 2024")
}

func (b *c08B) commentBlock(n int) {
	b.beginEntry(c08EComment)
	for i := 0; i < n; i++ {
		if i > 0 {
			b.eol()
		}
		b.semiHere()
		b.put("; c" + b.slot(c08SLineComment) + "mment")
		b.endEntryHere()
	}
}

// item codes of a layout
const (
	c08IT1 = iota
	c08IT2
	c08IBlank
	c08IAcct0
	c08IAcct1
	c08IAcct2
	c08IAcct3
	c08IComm0
	c08IComm1
	c08IComm2
	c08IComm3
	c08IComm4
	c08IComm5
	c08IInclude
	c08IPrice
	c08IYear
	c08IComment1
	c08IComment2
	c08IPostingComment // an indented comment line continuing the previous transaction
	c08IIncludeF1      // "include f1.journal" (two-file mode)
	c08IHeader1        // a transaction header repeating transaction 1's payee, without postings
	c08IBlanks0        // a line of 0 blanks (+1, +2, +3: that many blanks)
	c08IBlanks1
	c08IBlanks2
	c08IBlanks3
)

func (b *c08B) item(it int) {
	switch it {
	case c08IT1:
		b.tx1()
	case c08IT2:
		b.tx2()
	case c08IBlank:
	case c08IAcct0, c08IAcct1, c08IAcct2, c08IAcct3:
		b.dirAccount(it - c08IAcct0)
	case c08IComm0, c08IComm1, c08IComm2, c08IComm3, c08IComm4, c08IComm5:
		b.dirCommodity(it - c08IComm0)
	case c08IInclude:
		b.dirInclude()
	case c08IPrice:
		b.dirPrice()
	case c08IYear:
		b.dirYear()
	case c08IComment1:
		b.commentBlock(1)
	case c08IComment2:
		b.commentBlock(2)
	case c08IHeader1:
		b.beginEntry(c08ETx)
		b.leaf(c08KDate, false, "2024-02-01")
		b.put(" ")
		b.leaf(c08KPayee, false, b.payee1())
	case c08IBlanks0, c08IBlanks1, c08IBlanks2, c08IBlanks3:
		b.put(c08Spaces(it - c08IBlanks0))
	case c08IIncludeF1:
		b.beginEntry(c08EInclude)
		b.put("include ")
		b.leaf(c08KPath, false, "f1.journal")
	case c08IPostingComment:
		b.put("    ")
		b.semiHere()
		b.put("; trailing n" + b.slot(c08SPFree) + "te")
		b.endEntryHere()
	}
}

// c08BuildShared emits the items; every item ends its line, except that the last one does not when o.noEOL is
// set. A document built with share repeats the slot texts of the earlier builder, so that both files spell the
// shared names alike.
func c08BuildShared(o *c08Opt, items []int, share *c08B) (*c08Doc, *c08B) {
	b := c08NewB(o)
	if share != nil {
		b.slotTxt, b.slotSet = share.slotTxt, share.slotSet
	}
	for i, it := range items {
		b.item(it)
		if i == len(items)-1 && o.noEOL == 1 {
			break
		}
		b.eol()
	}
	b.flushLine() // the last line (empty after a final terminator)
	// a chosen wide site that the shape does not contain repeats the all-ASCII document: cut it
	if o.site >= 0 {
		zzverif.Assume(b.used[o.site])
	}
	if o.site2 >= 0 {
		zzverif.Assume(b.used[o.site2])
	}
	return b.d, b
}

// ---------------- validators (DESIGN §4.6) ----------------

// astralBefore reports the number of astral characters among the first n runes of the line.
func (d *c08Doc) astralBefore(line, n int) int {
	if line < 0 || line >= len(d.u16) {
		return 0
	}
	t := d.u16[line]
	k := 0
	for i := 0; i+1 < len(t) && i < n; i++ {
		if t[i+1]-t[i] == 2 {
			k++
		}
	}
	return k
}

func (d *c08Doc) hasAstral(line int) bool {
	return d.astralBefore(line, 1<<30) > 0
}

func (d *c08Doc) entryAt(line int) int {
	for i, e := range d.entries {
		if line >= e.first && line <= e.last {
			return i
		}
	}
	return -1
}

// insidePair: character offset ch on line splits a surrogate pair.
func (d *c08Doc) insidePair(line int, ch uint32) bool {
	t := d.u16[line]
	for i := 0; i+1 < len(t); i++ {
		if t[i+1]-t[i] == 2 && ch == uint32(t[i]+1) {
			return true
		}
	}
	return false
}

// c08PosOK: the position lies inside the document, on a code-unit boundary that does not split a pair.
// All inputs are concrete except possibly ch (a cursor-derived value).
func (d *c08Doc) posOK(p protocol.Position) bool {
	if p.Line >= uint32(len(d.lens)) {
		return false
	}
	line := int(p.Line)
	if p.Character > uint32(d.lens[line]) {
		return false
	}
	return !d.insidePair(line, p.Character)
}

func c08PosLE(a, b protocol.Position) bool {
	return a.Line < b.Line || (a.Line == b.Line && a.Character <= b.Character)
}

// validRange of DESIGN §4.6.
func (d *c08Doc) validRange(r protocol.Range) bool {
	return c08PosLE(r.Start, r.End) && d.posOK(r.Start) && d.posOK(r.End)
}

// covers: r equals the UTF-16 span of a leaf of that kind; returns the leaf index or -1.
func (d *c08Doc) covers(r protocol.Range, kind int) int {
	if r.Start.Line != r.End.Line {
		return -1
	}
	for i, l := range d.leaves {
		if l.kind == kind && uint32(l.line) == r.Start.Line && uint32(l.s) == r.Start.Character && uint32(l.e) == r.End.Character {
			return i
		}
	}
	return -1
}

// c08Laminar: two line intervals [a1,a2], [b1,b2] are disjoint or nested.
func c08Laminar(a1, a2, b1, b2 uint32) bool {
	if a2 < b1 || b2 < a1 {
		return true
	}
	return (a1 <= b1 && b2 <= a2) || (b1 <= a1 && a2 <= b2)
}

// c08LaminarRanges: position-wise version for ranges (end exclusive: touching is disjoint).
func c08LaminarRanges(a, b protocol.Range) bool {
	if c08PosLE(a.End, b.Start) || c08PosLE(b.End, a.Start) {
		return true
	}
	return (c08PosLE(a.Start, b.Start) && c08PosLE(b.End, a.End)) || (c08PosLE(b.Start, a.Start) && c08PosLE(a.End, b.End))
}
