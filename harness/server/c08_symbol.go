//go:build verif

package server

import (
	"context"

	"go.lsp.dev/protocol"

	"github.com/juev/hledger-lsp/internal/zzverif"
)

func init() {
	zzverif.Register("VerifC08Definition", VerifC08Definition)
	zzverif.Register("VerifC08DefinitionLong", VerifC08DefinitionLong)
	zzverif.Register("VerifC08References", VerifC08References)
	zzverif.Register("VerifC08ReferencesLong", VerifC08ReferencesLong)
	zzverif.Register("VerifC08Rename", VerifC08Rename)
	zzverif.Register("VerifC08RenameLong", VerifC08RenameLong)
}

func VerifC08Definition()     { verifC08Definition(c08Quick) }
func VerifC08DefinitionLong() { verifC08Definition(c08Thorough) }
func VerifC08References()     { verifC08References(c08Quick) }
func VerifC08ReferencesLong() { verifC08References(c08Thorough) }
func VerifC08Rename()         { verifC08Rename(c08Quick) }
func VerifC08RenameLong()     { verifC08Rename(c08Thorough) }

// c08Location: the location names one of our documents and is a valid range in it; entry ranges
// (definition of a declared name, of a payee) are validated, symbol ranges must cover the leaf.
// Returns the kind of the covered leaf, -1 for entry ranges / known classes.
func (w *c08W) location(loc protocol.Location, what string, entryOK bool) int {
	d := w.docFor(loc.URI)
	zzverif.Assert(d != nil, what+": location names a document the server was never given")
	if d == nil {
		return -1
	}
	li := -1
	if entryOK {
		li = c08EntryOrLeaf(d, loc.Range, what, c08KAcct, c08KComm, c08KPayee)
	} else {
		li = c08Covers(d, loc.Range, what, c08KAcct, c08KComm, c08KPayee)
	}
	if li < 0 {
		return -1
	}
	return d.leaves[li].kind
}

func verifC08Definition(tier int) {
	w := c08Open(c08Choose(tier, c08NModes))
	pos := c08Cursor(w.doc())
	locs, err := w.s.Definition(context.Background(), &protocol.DefinitionParams{TextDocumentPositionParams: w.tdp(pos)})
	zzverif.Assert(err == nil, "definition: error")
	if len(locs) == 0 {
		zzverif.Reach("C08.definition.none")
		return
	}
	for _, l := range locs {
		w.location(l, "definition", true)
	}
	zzverif.Reach("C08.definition.range")
}

func verifC08References(tier int) {
	w := c08Open(c08Choose(tier, c08NModes))
	pos := c08Cursor(w.doc())
	some := false
	for _, decl := range []bool{false, true} {
		locs, err := w.s.References(context.Background(), &protocol.ReferenceParams{TextDocumentPositionParams: w.tdp(pos),
			Context: protocol.ReferenceContext{IncludeDeclaration: decl}})
		zzverif.Assert(err == nil, "references: error")
		kind := -1
		for _, l := range locs {
			some = true
			k := w.location(l, "references", false)
			if k >= 0 {
				zzverif.Assert(kind < 0 || kind == k, "references: locations of different kinds of symbol")
				kind = k
			}
		}
	}
	if some {
		zzverif.Reach("C08.references.range")
	} else {
		zzverif.Reach("C08.references.none")
	}
}

func verifC08Rename(tier int) {
	w := c08Open(c08Choose(tier, c08NModes))
	pos := c08Cursor(w.doc())
	ctx := context.Background()
	pr, err := w.s.PrepareRename(ctx, &protocol.PrepareRenameParams{TextDocumentPositionParams: w.tdp(pos)})
	zzverif.Assert(err == nil, "prepareRename: error")
	if pr == nil {
		zzverif.Reach("C08.rename.none")
		return
	}
	c08Covers(w.doc(), *pr, "prepareRename", c08KAcct, c08KComm, c08KPayee)
	c08AtCursor(*pr, pos, "prepareRename")
	we, err := w.s.Rename(ctx, &protocol.RenameParams{TextDocumentPositionParams: w.tdp(pos), NewName: "new:name"})
	zzverif.Assert(err == nil, "rename: error")
	if we == nil { // whether a rename must be offered here is C09's subject
		zzverif.Reach("C08.rename.noedit")
		return
	}
	n := 0
	for _, name := range w.names {
		u := c08URI(name)
		for _, e := range we.Changes[u] {
			zzverif.Assert(e.NewText == "new:name", "rename: edit text is not the new name")
			w.location(protocol.Location{URI: u, Range: e.Range}, "rename", false)
			n++
		}
	}
	total := 0
	for _, es := range we.Changes {
		total += len(es)
	}
	zzverif.Assert(total == n, "rename: edits for a document the server was never given")
	zzverif.Reach("C08.rename.range")
}
