//go:build verif

package server

// C05 over configurations ON ONE SERVER: "every posting line starts with exactly the configured
// indent" for the configuration in force at the time of the request. The same document is
// formatted, the configuration changes (the document does not), and it is formatted again: the
// second answer must obey the second configuration and be a fixed point under it.

import (
	"go.lsp.dev/protocol"

	"github.com/juev/hledger-lsp/internal/zzverif"
)

func init() { zzverif.Register("VerifC05Reconfig", VerifC05Reconfig) }

const c05ReDoc = "2024-01-15 shop\n  ex:food  10 USD\n      as:cash  -10 USD\n\n2024-01-16 x\n    ex:food  1 USD\n    as:cash\n"

func c05ReFormat(f *c19Fx, text string) string {
	f.s.StoreDocument(f.uri, text)
	eds, err := f.s.Format(f.ctx, &protocol.DocumentFormattingParams{TextDocument: protocol.TextDocumentIdentifier{URI: f.uri}})
	zzverif.Assert(err == nil, "C05: formatting fails")
	out := text
	for i := len(eds) - 1; i >= 0; i-- {
		next, ok := c01RefApply(out, eds[i].Range, eds[i].NewText)
		zzverif.Assert(ok, "C05: a formatting edit does not fit the document")
		if !ok {
			return out
		}
		out = next
	}
	return out
}

// c05ReIndentOK: every posting line (a line that starts with a blank) starts with exactly n blanks.
func c05ReIndentOK(text string, n int) bool {
	ok := true
	start := 0
	for i := 0; i <= len(text); i++ {
		if i < len(text) && text[i] != '\n' {
			continue
		}
		ln := text[start:i]
		start = i + 1
		if len(ln) == 0 || ln[0] != ' ' {
			continue
		}
		k := 0
		for k < len(ln) && ln[k] == ' ' {
			k++
		}
		ok = ok && k == n
	}
	return ok
}

func VerifC05Reconfig() {
	f := c19NewFx()
	f.init(nil)
	a := []int{2, 4, 7}[zzverif.Choice("first", 3)]
	b := []int{1, 3, 4, 8}[zzverif.Choice("second", 4)]
	zzverif.Assume(a != b)
	set := func(n int, align bool) {
		f.refresh(map[string]any{"formatting": map[string]any{"indentSize": float64(n), "alignAmounts": align}})
	}
	align1 := zzverif.Choice("align1", 2) == 1
	align2 := zzverif.Choice("align2", 2) == 1
	set(a, align1)
	out1 := c05ReFormat(f, c05ReDoc)
	zzverif.Assert(c05ReIndentOK(out1, a), "C05: a posting line does not start with the configured indent")
	// the configuration changes, the document does not
	set(b, align2)
	out2 := c05ReFormat(f, c05ReDoc)
	zzverif.Observe("second", out2)
	zzverif.Assert(c05ReIndentOK(out2, b), "C05: after a configuration change a posting line does not start with the configured indent")
	zzverif.Assert(c05ReFormat(f, out2) == out2, "C05: formatting the formatted text changes it (after a configuration change)")
	// and back again
	set(a, align1)
	zzverif.Assert(c05ReFormat(f, c05ReDoc) == out1, "C05: the same configuration and text give another result after an excursion to a second configuration")
	zzverif.Reach("C05.reconfig.end")
}
