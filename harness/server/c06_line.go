//go:build verif

package server

import (
	"go.lsp.dev/protocol"

	"github.com/juev/hledger-lsp/internal/analyzer"
	"github.com/juev/hledger-lsp/internal/ast"
	"github.com/juev/hledger-lsp/internal/parser"
	"github.com/juev/hledger-lsp/internal/zzverif"
)

func init() {
	zzverif.Register("VerifC06Line", VerifC06Line)
	zzverif.Register("VerifC06LineLong", VerifC06LineLong)
	zzverif.Register("VerifC06LineMut", VerifC06LineMut)
	zzverif.Register("VerifC06LineMutLong", VerifC06LineMutLong)
	zzverif.Register("VerifC06LineMutIns", VerifC06LineMutIns)
	zzverif.Register("VerifC06LineMutFull", VerifC06LineMutFull)
}

// seed lines for the mutation harness: realistic cursor lines of 8..24 bytes
var c06Seeds = []string{
	"    a:b  1 USD ; t:v, u:",
	"    a:b  $-1.5 @ 2 EUR",
	"\t(a:b c)  = 1,5 \"x y\"",
	"2024-01-15 * (c) p | n ; d",
	"account a:b  ; type:A",
	"commodity 1.000,00 EUR",
	"apply account a:b",
	"; k:v, date:2024-01-02",
	"01-15 ! x",
	"    é:€  1 😀",
}

// extra seed lines of the thorough tier
var c06SeedsLong = []string{
	"    [a:b]  -1 USD @@ 2 EUR = 3",
	"    a:b  1E3 \"x\" ; t:",
	"2024/1/5=2024/1/6 * x",
	"P 2024-01-01 USD 1,5 EUR",
	"include ~/x/*.journal",
	"alias a:b = c:d",
	"~ monthly from 2024",
	"  ; t: v, é:€",
	"    a:b\t1 USD\r",
	"Y2024",
}

// the kinds of mutation
const (
	c06Substitute = iota // one byte replaced by an arbitrary byte
	c06Insert            // an arbitrary byte inserted at any place (also at the end)
	c06Delete            // one byte deleted (splits multi-byte characters of the non-ASCII seeds)
)

// c06Mutate applies one mutation of the given kind at a case-split place: an invalid UTF-8
// byte, a control character, a delimiter or a NUL lands anywhere in a realistic line (also in
// the middle of a multi-byte character).
func c06Mutate(seed string, kind int) string {
	b := []byte(seed)
	switch kind {
	case c06Substitute:
		at := zzverif.Choice("at", len(b))
		b[at] = zzverif.Byte("m")
		return string(b)
	case c06Insert:
		at := zzverif.Choice("at", len(b)+1)
		return string(b[:at]) + string([]byte{zzverif.Byte("m")}) + string(b[at:])
	}
	at := zzverif.Choice("at", len(b))
	return string(b[:at]) + string(b[at+1:])
}

const c06NHelpers = 13

// c06SmallPos: a position whose coordinates are 0..255 or 2^32-256..2^32-1 (one symbolic
// byte plus a case-split offset). Conditions on one byte are decided by the engine without
// the solver, which is what makes 8..10-byte lines affordable; the fully arbitrary uint32
// position is used by the short-line harness VerifC06Line.
func c06SmallPos() protocol.Position {
	offs := []uint32{0, 0xFFFFFF00}
	return protocol.Position{
		Line:      uint32(zzverif.Byte("line")) + offs[zzverif.Choice("line.hi", 2)],
		Character: uint32(zzverif.Byte("char")) + offs[zzverif.Choice("char.hi", 2)],
	}
}

func astRange(sl, sc, el, ec int) ast.Range {
	return ast.Range{Start: ast.Position{Line: sl, Column: sc}, End: ast.Position{Line: el, Column: ec}}
}

// c06Helper runs cursor helper number h on the line with an arbitrary position. The claim
// is totality only (no reachable panic, no budget overrun); what the helpers compute is the
// subject of C08/C16/C17.
func c06Helper(h int, line string, ascii bool, pos protocol.Position) {
	pos0 := protocol.Position{Line: 0, Character: pos.Character}
	switch h {
	case 0:
		_ = determineCompletionContext(line, pos, nil)
		_ = determineCompletionContext(line, pos, &protocol.CompletionContext{TriggerCharacter: ":"})
		_ = determineCompletionContext(line, pos, &protocol.CompletionContext{TriggerCharacter: "="})
	case 1:
		_ = determineTagContext(line, pos)
		_ = extractCurrentTagName(line, int(pos.Character))
	case 2:
		_ = determinePostingContext(line, pos)
		_ = parsePosting(line)
		_ = findCommodityStart(line, zzverif.Int("byteCol", -3, 40))
	case 3:
		_ = findAmountEnd(line)
		_ = findDoublespace(line)
		_ = isDirectiveLine(line)
	case 4:
		_ = extractAccountPrefix(line, pos)
		_ = extractAccountPrefix("x\n"+line, protocol.Position{Line: 1, Character: pos.Character})
	case 5:
		ct := CompletionContextType(zzverif.Choice("ctx", 4))
		_ = extractQueryText(line, pos0, ct)
		_ = extractQueryText(line, pos, ct)
	case 6:
		ct := CompletionContextType(zzverif.Choice("ctx", 4))
		_ = calculateTextEditRange(line, pos0, ct)
		_ = calculateTextEditRange(line, pos, ct)
	case 7:
		_ = detectDateFormat(line, zzverif.Int("cursorLine", -2, 4))
		_, _ = parseDateFormat(line)
	case 8:
		_ = extractPayeeFromHeader(line)
	case 9:
		_ = findDirectiveFolds(line)
		_ = findCommentBlockFolds(line)
	case 10:
		tok := parser.Token{Type: parser.TokenComment, Value: line,
			Pos: parser.Position{Line: zzverif.Int("tl", 1, 1<<31), Column: zzverif.Int("tc", 1, 1<<31)}}
		_ = extractTagTokensFromComment(tok, uint32(tok.Pos.Column-1))
	case 11:
		if ascii {
			// the engine's strings.ToLower model covers ASCII and concrete non-ASCII only
			_ = fuzzyMatchScore(line, "ab")
			_ = fuzzyMatchScoreBySegments(line, "a")
			items := []protocol.CompletionItem{{Label: line}}
			_ = filterAndScoreFuzzyMatch(items, "a:", true)
			_ = filterAndScoreFuzzyMatch(items, "a", false)
		}
	case 12:
		rng := astRange(zzverif.Int("sl", -2, 1<<31), zzverif.Int("sc", -2, 1<<31), zzverif.Int("el", -2, 1<<31), zzverif.Int("ec", -2, 1<<31))
		_ = positionInRange(pos, rng)
		_ = astRangeToProtocol(rng)
		ps := []analyzer.PostingTemplate{{Account: line, Amount: "1", Commodity: line, CommodityLeft: zzverif.Bool("left")}, {Account: line}}
		_ = buildInlinePostingsText(ps, zzverif.Int("indent", 1, 8))
	}
}

// VerifC06Line: every helper on a line of 0..3 arbitrary bytes (quick).
func VerifC06Line() { verifC06Line(3) }

// VerifC06LineLong: 0..4 arbitrary bytes (thorough).
func VerifC06LineLong() { verifC06Line(4) }

func verifC06Line(maxN int) {
	h := zzverif.Choice("helper", c06NHelpers)
	n := zzverif.Choice("n", maxN+1)
	c06Helper(h, c06Bytes("b", n), false, protocol.Position{Line: zzverif.Uint32("line"), Character: zzverif.Uint32("char")})
	zzverif.Reach("C06.line.h" + zzverif.Itoa(h))
}

// the quick tier's half of the seed lines: posting with tags, tab + virtual + quoted commodity,
// transaction header, comment with tags, non-ASCII posting
func c06SeedsQuick() []string {
	return []string{c06Seeds[0], c06Seeds[2], c06Seeds[3], c06Seeds[7], c06Seeds[9]}
}

// VerifC06LineMut (quick): every helper on five seed lines with one arbitrary byte substituted
// at any place, cursor coordinates 0..255 or 2^32-256..2^32-1.
func VerifC06LineMut() { verifC06LineMut(c06SeedsQuick(), c06Substitute, 1) }

// VerifC06LineMutFull (thorough): the same on all ten seed lines.
func VerifC06LineMutFull() { verifC06LineMut(c06Seeds, c06Substitute, 1) }

// VerifC06LineMutIns (thorough): the same seed lines with one arbitrary byte inserted at any
// place, or one byte deleted.
func VerifC06LineMutIns() { verifC06LineMut(c06Seeds, c06Insert, 2) }

// VerifC06LineMutLong (thorough): substitution in ten further seed lines.
func VerifC06LineMutLong() { verifC06LineMut(c06SeedsLong, c06Substitute, 1) }

// the mutation kind is kind0 + a case split over nkinds
func verifC06LineMut(seeds []string, kind0, nkinds int) {
	h := zzverif.Choice("helper", c06NHelpers+1)
	if h == c06NHelpers {
		// isTransactionHeaderLine matches a regular expression; the engine's regexp model needs a
		// concrete subject, so the line is drawn from a date-ish alphabet (case split per byte).
		line := zzverif.Text("r", "2-/ x", zzverif.Choice("rn", 6))
		_ = isTransactionHeaderLine(line)
		zzverif.Reach("C06.linemut.h" + zzverif.Itoa(h))
		return
	}
	if h == 11 {
		// strings.ToLower: the engine's model covers ASCII and concrete non-ASCII only
		c06Helper(h, zzverif.Text("b", zzverif.Printable(""), 4), true, protocol.Position{})
		zzverif.Reach("C06.linemut.h" + zzverif.Itoa(h))
		return
	}
	seed := seeds[zzverif.Choice("seed", len(seeds))]
	kind := kind0
	if nkinds > 1 {
		kind += zzverif.Choice("kind", nkinds)
	}
	c06Helper(h, c06Mutate(seed, kind), false, c06SmallPos())
	zzverif.Reach("C06.linemut.h" + zzverif.Itoa(h))
}
