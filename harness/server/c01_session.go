//go:build verif

package server

// C01, "every feature answer is computed from that text and from no older version", as a
// session: a server goes through a sequence of notifications and requests on TWO documents
// of one include tree (main.journal includes inc.journal, which includes leaf.journal); then
// one request is made and must equal the answer of a fresh server that is brought directly
// into the final state (same disk, same open buffers, every analysis settled). State that
// survives from an earlier request or notification - a cache that is not dropped, a tree that
// is edited in place, an entry that is not invalidated - shows as a difference.

import (
	"context"

	"go.lsp.dev/protocol"

	"github.com/juev/hledger-lsp/internal/zzverif"
)

func init() {
	zzverif.Register("VerifC01Session", VerifC01Session)
	zzverif.Register("VerifC01SessionLong", VerifC01SessionLong)
}

const (
	// without a workspace root, hover and completion read the OTHER files of the include tree
	// from the tree stored by the requesting document's last analysis: an unsaved edit of an
	// open included file is not seen until the requesting document is analysed again
	c01ClsOtherBuffer = "c01-no-workspace-other-open-buffer-unseen"
)

type c01Sess struct {
	ctx            context.Context
	root           string
	ws             bool
	s              *Server
	cl             *zzClient
	disk           [3]string
	buf            [3]string
	open           [3]bool
	edits          [3]int   // how many times the document was edited in the editor
	ver            [3]int32 // document version of the current editing session (restarts at 1 with every didOpen)
	incOn          bool     // main currently includes inc
	hold           bool     // analyses started from now on stay pending
	pendingOp      int      // the operation whose analysis is still pending at the end (-1: none)
	savedAfterMain bool     // incl.journal was saved (the disk changed) after main.journal's last analysis
}

var c01SessNames = [3]string{"main.journal", "incl.journal", "leaf.journal"}

func (w *c01Sess) path(i int) string { return w.root + "/" + c01SessNames[i] }
func (w *c01Sess) uri(i int) protocol.DocumentURI {
	return protocol.DocumentURI("file://" + w.path(i))
}

// text of document i after n editor edits; main with or without its include line
func (w *c01Sess) text(i, n int, incOn bool) string {
	amt := zzverif.Itoa(10 + 7*n)
	switch i {
	case 0:
		inc := "include incl.journal\n"
		if !incOn {
			inc = "; include incl.journal\n"
		}
		// every edit changes a name, an amount and the number of lines
		extra := ""
		if n%2 == 1 {
			extra = "    ex:misc  1 USD\n"
		}
		return "account ex:food\ncommodity USD\n" + inc + "\n2024-01-15 * Shop" + zzverif.Itoa(n) + " | weekly ; trip: rome\n    ex:food  " + amt + " USD\n" + extra + "    as:cash\n\n2024-04-01 Garage\n"
	case 1:
		acct := []string{"ex:fuel", "ex:fun", "ex:fees"}[n%3]
		extra := ""
		if n%2 == 1 {
			extra = "\n2024-02-21 Kiosk" + zzverif.Itoa(n) + "\n    ex:food  3 USD\n    as:cash\n"
		}
		return "include leaf.journal\n\n2024-02-20 Garage ; car: vw\n    " + acct + "  " + amt + ".5 USD\n    ex:food  1 USD\n    as:bank\n" + extra
	default:
		return "2024-03-01 Leaf\n    ex:food  2 USD\n    as:cash\n"
	}
}

func (w *c01Sess) start(ws bool) {
	w.ctx = context.Background()
	w.ws = ws
	w.s = NewServer()
	w.cl = &zzClient{}
	w.s.SetClient(w.cl)
	if ws {
		_, _ = w.s.Initialize(w.ctx, &protocol.InitializeParams{RootURI: protocol.DocumentURI("file://" + w.root)})
		zzNotify(w.s, func() { _ = w.s.Initialized(w.ctx, &protocol.InitializedParams{}) })
		c01Settle()
	} else {
		_, _ = w.s.Initialize(w.ctx, &protocol.InitializeParams{})
	}
}

func (w *c01Sess) analyse(i int) {
	if w.hold {
		// the background analysis this notification started has not run yet
		return
	}
	if i == 0 {
		w.savedAfterMain = false
	}
	if zzverif.Engine() {
		c01Settle()
		return
	}
	w.s.publishDiagnostics(w.ctx, w.uri(i), w.buf[i])
}

func (w *c01Sess) didOpen(i int, text string) {
	w.buf[i], w.open[i] = text, true
	w.ver[i] = 1
	zzNotify(w.s, func() {
		_ = w.s.DidOpen(w.ctx, &protocol.DidOpenTextDocumentParams{TextDocument: protocol.TextDocumentItem{URI: w.uri(i), Text: text, Version: 1}})
	})
	w.analyse(i)
}

func (w *c01Sess) didChange(i int, text string) {
	w.buf[i] = text
	w.ver[i]++
	zzNotify(w.s, func() {
		_ = w.s.DidChange(w.ctx, &protocol.DidChangeTextDocumentParams{
			TextDocument:   protocol.VersionedTextDocumentIdentifier{TextDocumentIdentifier: protocol.TextDocumentIdentifier{URI: w.uri(i)}, Version: w.ver[i]},
			ContentChanges: []protocol.TextDocumentContentChangeEvent{{Text: text}},
		})
	})
	w.analyse(i)
}

func (w *c01Sess) didClose(i int) {
	w.open[i] = false
	_ = w.s.DidClose(w.ctx, &protocol.DidCloseTextDocumentParams{TextDocument: protocol.TextDocumentIdentifier{URI: w.uri(i)}})
}

// reanalyse: what the next keystroke in document i would trigger, without changing its text.
func (w *c01Sess) reanalyse(i int) {
	if i == 0 && w.open[0] {
		w.savedAfterMain = false
	}
	if w.open[i] {
		w.s.publishDiagnostics(w.ctx, w.uri(i), w.buf[i])
	}
}

const (
	c01OpEditMain = iota
	c01OpToggleInclude
	c01OpEditInc
	c01OpReopenMain
	c01OpReopenInc
	c01OpSaveInc
	c01OpCloseInc
	c01OpFlickInclude
	c01NOps
)

func (w *c01Sess) apply(op int) {
	switch op {
	case c01OpEditMain:
		w.edits[0]++
		w.didChange(0, w.text(0, w.edits[0], w.incOn))
	case c01OpToggleInclude:
		w.incOn = !w.incOn
		w.didChange(0, w.text(0, w.edits[0], w.incOn))
	case c01OpEditInc:
		if !w.open[1] {
			w.didOpen(1, w.disk[1])
		}
		w.edits[1]++
		w.didChange(1, w.text(1, w.edits[1], true))
	case c01OpReopenMain:
		// close, then re-open with a further edited text (the editor restored an unsaved buffer)
		w.didClose(0)
		w.edits[0]++
		w.didOpen(0, w.text(0, w.edits[0], w.incOn))
	case c01OpReopenInc:
		if w.open[1] {
			w.didClose(1)
		}
		w.edits[1]++
		w.didOpen(1, w.text(1, w.edits[1], true))
	case c01OpSaveInc:
		if !w.open[1] {
			return
		}
		if w.disk[1] != w.buf[1] {
			w.savedAfterMain = true
		}
		w.disk[1] = w.buf[1]
		zzverif.WriteFile(w.path(1), w.disk[1])
		save := func() {
			_ = w.s.DidSave(w.ctx, &protocol.DidSaveTextDocumentParams{TextDocument: protocol.TextDocumentIdentifier{URI: w.uri(1)}})
		}
		if w.hold {
			// whatever analysis the save starts stays pending
			zzNotify(w.s, save)
		} else {
			// the save, then the analyses it starts (documents that include the saved file)
			zzWaited(w.s, save)
			c01Settle()
			w.savedAfterMain = false
		}
	case c01OpFlickInclude:
		// the include line is commented out and restored (two changes): the included files leave
		// the tree and enter it again
		w.didChange(0, w.text(0, w.edits[0], !w.incOn))
		w.didChange(0, w.text(0, w.edits[0], w.incOn))
	case c01OpCloseInc:
		// closed without saving: the unsaved text is discarded, the file is what the disk holds
		if w.open[1] {
			w.didClose(1)
		}
	}
}

// askAll: a round of every request on every open document; warms whatever the server caches.
func (w *c01Sess) askAll() {
	for i := 0; i < 2; i++ {
		if w.open[i] {
			line := uint32(5)
			if i == 1 {
				line = 3
			}
			_ = c01Ask(w.s, w.uri(i), line, 6, -1)
		}
	}
}

// requests that are compared at the end (positions in c01Ask's round): symbols, folds,
// tokens, tokens.range, format, hover, completion, definition, references, links, wssymbols,
// inline completion (on the empty line below the header that ends the document)
var c01SessRequests = []int{0, 1, 2, 3, 4, 5, 6, 7, 8, 10, 11, 12}

// c01RunSession: the disk, a server, main.journal open, `steps` operations; with `chatty` the
// editor asks a round of every request after each operation.
func c01RunSession(steps int) (w *c01Sess, ws bool, settled bool) {
	w = &c01Sess{root: zzverif.Root(), incOn: true}
	ws = zzverif.Choice("ws", 2) == 1
	for i := 0; i < 3; i++ {
		w.disk[i] = w.text(i, 0, true)
		zzverif.WriteFile(w.path(i), w.disk[i])
	}
	w.start(ws)
	w.didOpen(0, w.disk[0])
	// the editing session is under way: two changes (typed and taken back) have been sent, so the
	// document version is 3 when the operations start
	w.didChange(0, w.disk[0]+"; x\n")
	w.didChange(0, w.disk[0])
	chatty := zzverif.Choice("chatty", 2) == 1
	if chatty {
		w.askAll()
	}
	// how the session ends: 1 settled - every open document has been analysed on its current text
	// after the last change of any document (what a quiet editor converges to); 0 not settled -
	// each document was analysed after its own changes only; 2 pending - in addition the analysis
	// started by the LAST operation has not run yet when the request arrives
	end := zzverif.Choice("settle", 3)
	w.pendingOp = -1
	for st := 0; st < steps; st++ {
		w.hold = end == 2 && st == steps-1
		op := zzverif.Choice("op"+zzverif.Itoa(st), c01NOps)
		if w.hold {
			w.pendingOp = op
		}
		w.apply(op)
		if chatty && !w.hold {
			w.askAll()
		}
	}
	w.hold = false
	if end == 1 {
		for i := 0; i < 2; i++ {
			w.reanalyse(i)
		}
	}
	return w, ws, end == 1
}

func verifC01Session(steps int, requests []int) {
	w, ws, settled := c01RunSession(steps)
	req := requests[zzverif.Choice("request", len(requests))]
	from := 0
	if w.open[1] && zzverif.Choice("from", 2) == 1 {
		from = 1
	}
	line, char := uint32(5), uint32(6)
	if from == 1 {
		line = 3
	}
	got := c01Ask(w.s, w.uri(from), line, char, req)

	// the reference: a fresh server brought directly into the final state
	for i := 0; i < 2; i++ {
		if w.open[i] {
			w.didClose(i) // the token cache is process-global and keyed by URI
			w.open[i] = true
		}
	}
	f := &c01Sess{root: w.root, incOn: w.incOn, disk: w.disk}
	f.start(ws)
	for i := 0; i < 2; i++ {
		if w.open[i] {
			f.didOpen(i, w.buf[i])
		}
	}
	for i := 0; i < 2; i++ {
		f.reanalyse(i)
	}
	want := c01Ask(f.s, f.uri(from), line, char, req)

	zzverif.Assert(len(got) == len(want) && len(got) == 1, "harness: one answer")
	if len(got) != 1 || len(want) != 1 {
		return
	}
	zzverif.Observe("answer", got[0])
	if !zzverif.Engine() && got[0] != want[0] {
		zzverif.Observe("DIFF.want", want[0])
	}
	otherUnsaved := w.open[1] && w.buf[1] != w.disk[1] && from == 0 || w.open[0] && from == 1
	if got[0] != want[0] && !ws && otherUnsaved && c01FromAnalysis(want[0]) && zzverif.Known(c01ClsOtherBuffer) {
		zzverif.Reach("kf:" + c01ClsOtherBuffer)
	} else if got[0] != want[0] && !ws && w.pendingOp == c01OpToggleInclude && c01FromTree(want[0]) && zzverif.Known(c01ClsPending) {
		// same cause, seen through the MEMBERSHIP of the tree: the pending change added or removed
		// main's include line; references and definition still walk the files of the last analysis
		zzverif.Reach("kf:" + c01ClsPending)
	} else if got[0] != want[0] && !ws && from == 0 && w.savedAfterMain && !w.open[1] && c01FromTree(want[0]) && zzverif.Known(c01ClsPending) {
		// same cause again: the included file was saved and closed after main's last analysis; main is
		// not analysed again when another file is saved, so its tree holds the file's previous text
		zzverif.Reach("kf:" + c01ClsPending)
	} else if got[0] != want[0] && !ws && !settled && c01FromAnalysis(want[0]) && zzverif.Known(c01ClsPending) {
		// the requesting document's last analysis predates a change elsewhere (c01_fresh.go)
		zzverif.Reach("kf:" + c01ClsPending)
	} else {
		zzverif.Assert(got[0] == want[0], "C01: after a session of edits and requests a feature answer differs from a fresh server's answer in the same state")
	}
	zzverif.Reach("C01.session.end")
}

// c01FromTree: answers that list locations in the files of the requesting document's include tree
func c01FromTree(answer string) bool {
	for _, n := range []string{"references: ", "definition: "} {
		if len(answer) >= len(n) && answer[:len(n)] == n {
			return true
		}
	}
	return false
}

// quick: 2 steps, the requests that read shared state
func VerifC01Session() { verifC01Session(2, []int{4, 5, 6, 8, 0, 12}) }

// thorough: 3 steps, every request
func VerifC01SessionLong() { verifC01Session(3, c01SessRequests) }
