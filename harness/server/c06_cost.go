//go:build verif

package server

import (
	"context"
	"encoding/json"

	"go.lsp.dev/protocol"

	"github.com/juev/hledger-lsp/internal/parser"
	"github.com/juev/hledger-lsp/internal/zzverif"
)

func init() {
	zzverif.Register("VerifC06Cost", VerifC06Cost)
	zzverif.Register("VerifC06CostLong", VerifC06CostLong)
	zzverif.Register("VerifC06Inline", VerifC06Inline)
	zzverif.Register("VerifC06InlineLong", VerifC06InlineLong)
}

// ---------- (d) cost proxy for "time proportional to the document size" ----------
//
// A number token `<d>E<digits>` costs as many bytes as it has characters, but
// decimal.Decimal arithmetic (Add/Sub/Cmp rescale both operands to the smaller exponent)
// materialises 10^|exponent| as a big.Int: work and memory proportional to the VALUE of the
// exponent, i.e. exponential in the length of the token. The engine's big.Int.Exp intrinsic
// ends a path with a `cost` violation when a power of ten above -max-exp (default 4096, the
// constant below) is requested. So the harness decides: "no request on a document that
// contains one exponent-notation amount asks for 10^k with k > 4096".

// c06CostMaxExp must equal the engine's -max-exp (its default).
const c06CostMaxExp = 4096

const c06HugeExponent = "c06-huge-exponent-materialised"

// representative exponent digit strings beyond the exhaustive lengths: the proxy bound and
// its neighbours, leading zeros, 16/32-bit boundaries, the 8-digit witness of DESIGN §5, and
// exponents that do not fit int32 (the decimal library rejects them: a parse error).
var c06ExpReps = []string{
	"4095", "4096", "4097", "9999", "0004096", "0004097", "32767", "32768", "65536",
	"99999999", "2147483647", "2147483648", "99999999999",
}

// c06Exponent: the exponent digits. Every digit is an exhaustive case split (the engine's
// big.Int.Exp needs a concrete exponent): all digit strings of length 1..exLen, all strings
// over {0,9} of length sparseLo..sparseHi, and the representatives above.
func c06Exponent(exLen, sparseLo, sparseHi int) string {
	switch zzverif.Choice("ekind", 3) {
	case 0:
		b := make([]byte, 1+zzverif.Choice("elen", exLen))
		for i := range b {
			b[i] = '0' + byte(zzverif.Choice("e"+zzverif.Itoa(i), 10))
		}
		return string(b)
	case 1:
		b := make([]byte, sparseLo+zzverif.Choice("elen", sparseHi-sparseLo+1))
		for i := range b {
			b[i] = "09"[zzverif.Choice("e"+zzverif.Itoa(i), 2)]
		}
		return string(b)
	}
	return c06ExpReps[zzverif.Choice("erep", len(c06ExpReps))]
}

// c06ExpAbove: the digit string denotes a number > bound (input predicate of the class).
func c06ExpAbove(digits string, bound int) bool {
	i := 0
	for i < len(digits)-1 && digits[i] == '0' {
		i++
	}
	d := digits[i:]
	if len(d) > 9 {
		return true
	}
	v := 0
	for j := 0; j < len(d); j++ {
		v = v*10 + int(d[j]-'0')
	}
	return v > bound
}

// c06FitsInt32: the decimal library parses the exponent with ParseInt(.., 10, 32); anything
// larger is a syntax error of the number (no decimal is built, nothing to materialise).
func c06FitsInt32(digits string, negative bool) bool {
	i := 0
	for i < len(digits)-1 && digits[i] == '0' {
		i++
	}
	d := digits[i:]
	if len(d) > 10 {
		return false
	}
	v := 0
	for j := 0; j < len(d); j++ {
		v = v*10 + int(d[j]-'0')
	}
	if negative {
		return v <= 1<<31
	}
	return v <= 1<<31-1
}

// the places where the exponent-notation number stands
const (
	c06CostPosting   = iota // a:b  <num> USD / c:d
	c06CostTwo              // a:b  <num> USD / c:d  -1 USD
	c06CostUnit             // a:b  1 USD @ <num> EUR / c:d
	c06CostTotal            // a:b  1 USD @@ <num> EUR / c:d
	c06CostAssertion        // a:b  1 USD = <num> USD / c:d
	c06CostCommodity        // commodity <num> USD
	c06CostPrice            // P 2024-01-01 USD <num> EUR
	c06CostNShapes
)

func c06CostDoc(shape int, num string) string {
	tx := "2024-01-15 x\n"
	switch shape {
	case c06CostPosting:
		return tx + "    a:b  " + num + " USD\n    c:d\n"
	case c06CostTwo:
		return tx + "    a:b  " + num + " USD\n    c:d  -1 USD\n"
	case c06CostUnit:
		return tx + "    a:b  1 USD @ " + num + " EUR\n    c:d\n"
	case c06CostTotal:
		return tx + "    a:b  1 USD @@ " + num + " EUR\n    c:d\n"
	case c06CostAssertion:
		return tx + "    a:b  1 USD = " + num + " USD\n    c:d\n"
	case c06CostCommodity:
		return "commodity " + num + " USD\n" + tx + "    a:b  1 USD\n    c:d\n"
	}
	return "P 2024-01-01 USD " + num + " EUR\n" + tx + "    a:b  1 USD\n    c:d\n"
}

// c06CostSummed: in these places the number enters the per-commodity sums of the balance
// check and of the account balances (hover), which is where the power of ten is materialised.
func c06CostSummed(shape int) bool {
	return shape == c06CostPosting || shape == c06CostTwo || shape == c06CostUnit || shape == c06CostTotal
}

// the spellings: (place, sign of the number, exponent letter, exponent sign)
var c06CostSpellings = []struct {
	shape          int
	sign, e, esign string
}{
	{c06CostPosting, "", "E", ""},
	{c06CostPosting, "", "E", "+"},
	{c06CostPosting, "", "E", "-"},
	{c06CostPosting, "-", "e", ""},
	{c06CostTwo, "", "E", ""},
	{c06CostUnit, "", "E", ""},
	{c06CostTotal, "", "e", "-"},
	{c06CostAssertion, "", "E", ""},
	{c06CostCommodity, "", "E", ""},
	{c06CostPrice, "", "E", ""},
}

// exLen0/sparseHi0 bound the exponents of the first spelling (plain posting), exLen/sparseHi
// those of the others; strings over {0,9} start one digit above the exhaustive length.
func verifC06Cost(exLen0, sparseHi0, exLen, sparseHi int) {
	ctx := context.Background()
	k := zzverif.Choice("spelling", len(c06CostSpellings))
	sp := c06CostSpellings[k]
	shape, esign := sp.shape, sp.esign
	if k == 0 {
		exLen, sparseHi = exLen0, sparseHi0
	}
	exp := c06Exponent(exLen, exLen+1, sparseHi)
	num := sp.sign + zzverif.Digits("d", 1) + sp.e + esign + exp
	content := c06CostDoc(shape, num)

	s := NewServer()
	s.SetClient(&zzClient{})
	uri := protocol.DocumentURI("file://" + zzverif.Root() + "/main.journal")
	s.StoreDocument(uri, content) // not DidOpen: natively its goroutine would run the analysis unobserved
	tdi := protocol.TextDocumentIdentifier{URI: uri}

	// requests that never sum amounts: not guarded by any class
	_, _ = parser.Parse(content)
	_, _ = s.Format(ctx, &protocol.DocumentFormattingParams{TextDocument: tdi})
	_, _ = s.SemanticTokensFull(ctx, &protocol.SemanticTokensParams{TextDocument: tdi})
	_, _ = s.DocumentSymbol(ctx, &protocol.DocumentSymbolParams{TextDocument: tdi})
	_, _ = s.FoldingRanges(ctx, &protocol.FoldingRangeParams{TextDocumentPositionParams: protocol.TextDocumentPositionParams{TextDocument: tdi}})
	zzverif.Reach("C06.cost.unsummed")

	// requests that sum amounts per commodity: diagnostics (balance check), hover (account
	// balances), completion and inline completion (they analyse the journal).
	huge := c06CostSummed(shape) && c06ExpAbove(exp, c06CostMaxExp) && c06FitsInt32(exp, esign == "-")
	if zzverif.Known(c06HugeExponent) && huge {
		zzverif.Reach("kf:" + c06HugeExponent)
		return
	}
	_ = s.analyze(content, nil)
	line := uint32(1)
	if shape >= c06CostCommodity {
		line = 2
	}
	for _, ch := range []uint32{5, 12} { // on the account, on the amount
		tdp := protocol.TextDocumentPositionParams{TextDocument: tdi, Position: protocol.Position{Line: line, Character: ch}}
		_, _ = s.Hover(ctx, &protocol.HoverParams{TextDocumentPositionParams: tdp})
		_, _ = s.Completion(ctx, &protocol.CompletionParams{TextDocumentPositionParams: tdp})
	}
	zzverif.Reach("C06.cost.end")
}

// VerifC06Cost (quick): exponents of 1..2 digits exhaustively, 3..6 digits over {0,9}, representatives.
func VerifC06Cost() { verifC06Cost(2, 6, 2, 6) }

// VerifC06CostLong (thorough): plain posting: 1..4 digits exhaustively (crosses the proxy bound
// 4096) and 5..10 digits over {0,9}; other spellings: 1..2 digits exhaustively, 3..8 over {0,9};
// representatives.
func VerifC06CostLong() { verifC06Cost(4, 10, 2, 8) }

// ---------- inline completion handler ----------
//
// InlineCompletion decodes its parameters from JSON and matches the previous line against a
// regular expression; the engine's JSON and regexp models need concrete subjects. So the
// document is drawn from a small alphabet that reaches every branch of the handler (date
// characters, blank, letter, separator, line feed, an invalid UTF-8 byte) and the position
// from representatives, both as exhaustive case splits. The helpers it calls are covered on
// arbitrary bytes by VerifC06Line (extractPayeeFromHeader, buildInlinePostingsText).
const c06InlineAlphabet = "2-/ x\n|\xff"

func verifC06Inline(maxN int) {
	n := zzverif.Choice("n", maxN+1)
	// lines 0..2 a transaction (payee x has a template), line 3 blank; the arbitrary tail either
	// starts line 4 or continues a date on line 4
	content := "2024-01-15 x\n    a:b  1 USD\n    c:d\n\n" + []string{"", "2024-01-16 "}[zzverif.Choice("dated", 2)] + zzverif.Text("b", c06InlineAlphabet, n)
	s := NewServer()
	s.SetClient(&zzClient{})
	uri := protocol.DocumentURI("file://" + zzverif.Root() + "/main.journal")
	s.StoreDocument(uri, content)
	lines := []string{"0", "3", "4", "5", "6", "4294967295"}
	chars := []string{"0", "3", "4294967295"}
	raw := `{"textDocument":{"uri":"` + string(uri) + `"},"position":{"line":` + lines[zzverif.Choice("line", len(lines))] +
		`,"character":` + chars[zzverif.Choice("char", len(chars))] + `},"context":{"triggerKind":1}}`
	res, err := s.InlineCompletion(context.Background(), json.RawMessage(raw))
	zzverif.Assert(err == nil && res != nil, "inlineCompletion: error on well-formed parameters")
	if res != nil && len(res.Items) > 0 {
		zzverif.Reach("C06.inline.item")
	}
	zzverif.Reach("C06.inline.end")
}

// VerifC06Inline (quick): 0..4 bytes; VerifC06InlineLong: 0..5 bytes.
func VerifC06Inline()     { verifC06Inline(4) }
func VerifC06InlineLong() { verifC06Inline(5) }
