//go:build verif

package server

import (
	"context"

	"go.lsp.dev/protocol"

	"github.com/juev/hledger-lsp/internal/zzverif"
)

func init() {
	zzverif.Register("VerifC17Delta", VerifC17Delta)
	zzverif.Register("VerifC17DeltaFull", VerifC17DeltaFull)
}

func c17SymData(name string, n int) []uint32 {
	d := make([]uint32, n)
	for i := range d {
		d[i] = zzverif.Uint32(name + "." + zzverif.Itoa(i))
	}
	return d
}

func c17SameData(a, b []uint32) bool {
	if len(a) != len(b) {
		return false
	}
	same := true
	for i := range a {
		same = same && a[i] == b[i]
	}
	return same
}

// c17ApplyEdits is the reference client of LSP 3.17 semanticTokens/full/delta: every edit
// refers to the array as it was before the response; edits are applied from the highest
// start index to the lowest. ok == false: an edit does not fit the client's array.
func c17ApplyEdits(old []uint32, edits []protocol.SemanticTokensEdit) ([]uint32, bool) {
	cur := old
	done := make([]bool, len(edits))
	for n := 0; n < len(edits); n++ {
		best := -1
		for i := range edits {
			if !done[i] && (best < 0 || edits[i].Start > edits[best].Start) {
				best = i
			}
		}
		done[best] = true
		e := edits[best]
		st, del := int(e.Start), int(e.DeleteCount)
		if st > len(cur) || st+del > len(cur) {
			return nil, false
		}
		next := make([]uint32, 0, len(cur)-del+len(e.Data))
		next = append(next, cur[:st]...)
		next = append(next, e.Data...)
		next = append(next, cur[st+del:]...)
		cur = next
	}
	return cur, true
}

// ---- one inductive step of the delta protocol ----

// texts whose token data has 0, 0, 5, 10 and 15 numbers
var c17DeltaDocs = []string{"", "\n", "; c\n", "2024-01-15 x\n", "2024-01-15 x\n    a:b\n"}

type c17Client struct {
	id   string
	data []uint32
}

// c17IssuedOK: id is the decimal rendering of a number in 1..ctr (an id the server has
// handed out before); "" (no id) and ids of foreign origin are not "issued".
func c17Issued(id string, ctr uint64) bool {
	if id == "" || len(id) > 18 {
		return false
	}
	var v uint64
	for i := 0; i < len(id); i++ {
		if id[i] < '0' || id[i] > '9' {
			return false
		}
		v = v*10 + uint64(id[i]-'0')
	}
	return v >= 1 && v <= ctr && id[0] != '0'
}

func c17Utoa(v uint64) string {
	if v == 0 {
		return "0"
	}
	s := ""
	for v > 0 {
		s = string([]byte{byte('0' + v%10)}) + s
		v /= 10
	}
	return s
}

// VerifC17Delta (quick) varies only the parts of the pre-state that the chosen request can
// observe; VerifC17DeltaFull (thorough) takes the full product.
func VerifC17Delta()     { verifC17Delta(false) }
func VerifC17DeltaFull() { verifC17Delta(true) }

func verifC17Delta(full bool) {
	ctx := context.Background()
	req := zzverif.Choice("request", 4)
	uris := []protocol.DocumentURI{"file:///w/a.journal", "file:///w/b.journal"}

	// --- arbitrary pre-state ---
	// server counter and the ids handed out so far (all <= counter)
	ctrs := []uint64{3, 99, 9}
	nctr := 2
	if full {
		nctr = 3
	}
	ctr := ctrs[zzverif.Choice("counter", nctr)]
	target := zzverif.Choice("target", 2)
	other := 1 - target
	cacheIDs := []string{"2", "3"} // id of the cache entry of uri 0 / uri 1 when present
	tokenCache.mu.Lock()
	tokenCache.cache = make(map[protocol.DocumentURI]*cachedSemanticTokens)
	tokenCache.resultID = ctr
	tokenCache.mu.Unlock()
	var cached [2]*cachedSemanticTokens
	for u := 0; u < 2; u++ {
		nm := "cache" + zzverif.Itoa(u)
		if zzverif.Choice(nm+".present", 2) == 1 {
			ntok := 1
			if full || u == target {
				ntok = zzverif.Choice(nm+".tokens", 4)
			}
			cached[u] = &cachedSemanticTokens{resultID: cacheIDs[u], data: c17SymData(nm+".data", 5*ntok)}
			tokenCache.cache[uris[u]] = cached[u]
		}
	}
	s := NewServer()
	uri := uris[target]
	// the target document: one of the texts, or not open at all (never opened / closed)
	docText, open := "", true
	if d := zzverif.Choice("doc", len(c17DeltaDocs)+1); d < len(c17DeltaDocs) {
		docText = c17DeltaDocs[d]
		s.StoreDocument(uri, docText)
	} else {
		open = false
	}
	s.StoreDocument(uris[other], c17DeltaDocs[3])

	// client state for the target uri; invariant: id == cached id  =>  data == cached data
	var cl c17Client
	idKind := 0
	clientTokens := func() int {
		if full || req == 1 {
			return zzverif.Choice("client.tokens", 4)
		}
		return 1
	}
	if full || req == 1 {
		idKind = zzverif.Choice("client.id", 6)
	} else {
		idKind = []int{0, 4, 1}[zzverif.Choice("client.id", 3)]
	}
	switch idKind {
	case 0: // current
		zzverif.Assume(cached[target] != nil)
		cl = c17Client{id: cached[target].resultID, data: cached[target].data}
	case 1: // stale: an id handed out earlier, replaced since
		cl = c17Client{id: "1", data: c17SymData("client.data", 5*clientTokens())}
	case 2: // unknown: never handed out
		cl = c17Client{id: "zz", data: c17SymData("client.data", 5*clientTokens())}
	case 3: // the id of the OTHER document's cache entry
		zzverif.Assume(cached[other] != nil)
		cl = c17Client{id: cached[other].resultID, data: c17SymData("client.data", 5*clientTokens())}
	case 5: // unknown, but the very id the server hands out next
		cl = c17Client{id: c17Utoa(ctr + 1), data: c17SymData("client.data", 5*clientTokens())}
	default: // no previous result
		cl = c17Client{}
	}
	known := []string{"1", "2", "3"} // ids handed out before this request

	// the full data for the current text (reference: a fresh tokenisation, encoded)
	// (no text: the empty array)
	want := []uint32{}
	if open && docText != "" {
		want = encodeTokens(tokenizeForSemantics(docText))
	}
	otherBefore := cached[other]
	td := protocol.TextDocumentIdentifier{URI: uri}

	newID := ""
	switch req {
	case 0: // full
		res, err := s.SemanticTokensFull(ctx, &protocol.SemanticTokensParams{TextDocument: td})
		zzverif.Assert(err == nil && res != nil, "full request succeeds")
		cl = c17Client{id: res.ResultID, data: res.Data}
		newID = res.ResultID
		zzverif.Reach("C17.delta.full")
	case 1: // delta with the client's id
		res, err := s.SemanticTokensFullDelta(ctx, &protocol.SemanticTokensDeltaParams{TextDocument: td, PreviousResultID: cl.id})
		zzverif.Assert(err == nil && res != nil, "delta request succeeds")
		switch r := res.(type) {
		case *protocol.SemanticTokens:
			cl = c17Client{id: r.ResultID, data: r.Data}
			newID = r.ResultID
			zzverif.Reach("C17.delta.answer-full")
		case *protocol.SemanticTokensDelta:
			data, ok := c17ApplyEdits(cl.data, r.Edits)
			zzverif.Assert(ok, "a delta edit does not fit the client's array")
			cl = c17Client{id: r.ResultID, data: data}
			newID = r.ResultID
			zzverif.Reach("C17.delta.answer-delta")
		default:
			zzverif.Assert(false, "delta response is neither SemanticTokens nor SemanticTokensDelta")
		}
	case 2: // range: does not touch the client's full array nor its id
		last := uint32(zzverif.Choice("range.last", 3))
		res, err := s.SemanticTokensRange(ctx, &protocol.SemanticTokensRangeParams{TextDocument: td, Range: protocol.Range{End: protocol.Position{Line: last}}})
		zzverif.Assert(err == nil && res != nil, "range request succeeds")
		all, _ := c17Decode(want)
		got, ok := c17Decode(res.Data)
		zzverif.Assert(ok, "range result decodes")
		j := 0
		for i := range all {
			if all[i].line <= last {
				zzverif.Assert(j < len(got) && got[j] == all[i], "range response differs from the full result on the requested lines")
				j++
			}
		}
		zzverif.Assert(j == len(got), "range response has a token outside the requested lines")
		zzverif.Assert(res.ResultID == "", "a range response carries no result id")
		zzverif.Reach("C17.delta.range")
	default: // didClose
		err := s.DidClose(ctx, &protocol.DidCloseTextDocumentParams{TextDocument: td})
		zzverif.Assert(err == nil, "didClose succeeds")
		_, still := tokenCache.get(uri)
		zzverif.Assert(!still, "didClose drops the cached result of the document")
		cl = c17Client{}
		zzverif.Reach("C17.delta.close")
	}

	// --- post-state ---
	if req <= 1 {
		zzverif.Assert(c17SameData(cl.data, want), "the client's array equals the full data for the current text")
		if newID != "" {
			for _, k := range known {
				zzverif.Assert(newID != k, "a result id is handed out twice")
			}
		}
	}
	// invariant again: the client's id equals the cached id => same data; for both uris
	// (the other uri's entry must be untouched)
	now, ok := tokenCache.get(uri)
	if ok && cl.id != "" && now.resultID == cl.id {
		zzverif.Assert(c17SameData(now.data, cl.data), "invariant: client id == cached id but the data differ")
	}
	if req == 2 {
		before := cached[target]
		zzverif.Assert(ok == (before != nil) && (!ok || now == before), "a range request changes the cache")
	}
	nowOther, okOther := tokenCache.get(uris[other])
	zzverif.Assert(okOther == (otherBefore != nil) && (!okOther || nowOther == otherBefore), "a request on one document changes the cache entry of another")
	// every id in the cache has been handed out by the (new) counter: freshness of later ids
	tokenCache.mu.RLock()
	ctrNow := tokenCache.resultID
	tokenCache.mu.RUnlock()
	zzverif.Assert(ctrNow >= ctr, "the id counter goes backwards")
	if ok {
		zzverif.Assert(c17Issued(now.resultID, ctrNow), "a cached id is not covered by the id counter (a later id could repeat it)")
	}
	if newID != "" {
		zzverif.Assert(c17Issued(newID, ctrNow) && !c17Issued(newID, ctr), "a new id is not fresh")
	}
	zzverif.Reach("C17.delta.end")
}
