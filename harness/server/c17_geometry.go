//go:build verif

package server

import (
	"github.com/juev/hledger-lsp/internal/parser"
	"github.com/juev/hledger-lsp/internal/zzverif"
)

func init() {
	zzverif.Register("VerifC17Geometry", VerifC17Geometry)
	zzverif.Register("VerifC17GeometryLong", VerifC17GeometryLong)
}

// ---------------------------------------------------------------------------------------
// Derivation of one line of grammar G (DESIGN §4.2) together with its lexemes. The text is
// built from the derivation, so byte / rune / UTF-16 spans are known by construction (all
// lengths are concrete on a path; only the content of ASCII slots is symbolic).
// ---------------------------------------------------------------------------------------

const (
	lfDate = iota
	lfOp // = == @ @@ and the '=' of a secondary date
	lfPipe
	lfStatus
	lfCode
	lfDesc  // description without '|': payee or string
	lfPayee // text before " | "
	lfNote  // text after " | "
	lfComment
	lfTagName
	lfTagValue
	lfAccount
	lfNumber
	lfCommodity // currency sign or CODE
	lfQuoted    // "quoted commodity"
	lfLower     // lower-case commodity name (right side only)
	lfDirective
	lfPath
	lfYear
	lfSign   // a lexeme without a legend kind
	lfSilent // parenthesis, bracket: lexemes without a legend kind
)

func c17Bit(t uint32) uint32 { return 1 << t }

type c17Lexeme struct {
	leaf   int
	kinds  uint32 // acceptable legend types (bit set)
	b0, b1 int    // byte span in the line
	u0, u1 int    // UTF-16 span in the line
	r0     int    // rune column of the start
	// what the lexer must deliver for this leaf (mislexing classes): token type, and the
	// length of its value; lexType < 0: not checked (tags live inside the comment token)
	lexType parser.TokenType
	lexLen  int
	// for tags: index of the enclosing comment lexeme
	comment int
}

type c17Line struct {
	text    string
	b, u, r int
	lex     []c17Lexeme
	// wide character plan: at most one text leaf of the line receives one non-ASCII
	// character (é, € or 😀) in its first or last slot; decided leaf by leaf
	widePlaced bool
	noWide     bool
}

var c17WideChars = []string{"é", "€", "😀"}
var c17WideU16 = []int{1, 1, 2}

func (l *c17Line) raw(s string) {
	l.text += s
	l.b += len(s)
	l.u += len(s)
	l.r += len(s)
}

func (l *c17Line) wide(k int) {
	s := c17WideChars[k]
	l.text += s
	l.b += len(s)
	l.u += c17WideU16[k]
	l.r++
}

func (l *c17Line) sym(name, allowed string) {
	l.raw(string([]byte{zzverif.ByteIn(name, allowed)}))
}

func (l *c17Line) spaces(n int) {
	for i := 0; i < n; i++ {
		l.raw(" ")
	}
}

type c17Mark struct{ b, u, r int }

func (l *c17Line) mark() c17Mark { return c17Mark{l.b, l.u, l.r} }

func (l *c17Line) lexeme(m c17Mark, leaf int, kinds uint32, lexType parser.TokenType, lexLen int) int {
	l.lex = append(l.lex, c17Lexeme{leaf: leaf, kinds: kinds, b0: m.b, b1: l.b, u0: m.u, u1: l.u, r0: m.r, lexType: lexType, lexLen: lexLen, comment: -1})
	return len(l.lex) - 1
}

// slots appends a text leaf of n character slots; slot i is one symbolic byte of first /
// mid / last (by position; a one-slot leaf uses first, which is a subset of last in every
// use), except a slot that the wide-character plan fills: none | é first | € first |
// 😀 first | 😀 last  (tag names: none | é first | é last).
func (l *c17Line) slots(name string, n int, first, mid, last string, onlyLetter bool) {
	if n == 0 {
		return
	}
	w, ch := -1, 0
	if !l.widePlaced && !l.noWide {
		k := 0
		switch {
		case onlyLetter:
			k = zzverif.Choice(name+".wide", 3)
			if k > 0 {
				w = (k - 1) * (n - 1)
			}
		case n == 1:
			k = zzverif.Choice(name+".wide", 4)
			if k > 0 {
				w, ch = 0, k-1
			}
		default:
			k = zzverif.Choice(name+".wide", 5)
			if k == 4 {
				w, ch = n-1, 2
			} else if k > 0 {
				w, ch = 0, k-1
			}
		}
		l.widePlaced = k > 0
	}
	for i := 0; i < n; i++ {
		if i == w {
			l.wide(ch)
			continue
		}
		a := mid
		if i == 0 {
			a = first
		} else if i == n-1 {
			a = last
		}
		l.sym(name+"."+zzverif.Itoa(i), a)
	}
}

// ---- alphabets of DESIGN §4.1 ----

var (
	c17Desc      = zzverif.Printable(";|")
	c17DescFirst = zzverif.Printable(";| (*!=")
	c17DescLast  = zzverif.Printable(";| ")
	c17CodeA     = zzverif.Printable(")")
	c17SegA      = zzverif.Printable(" ;@=()[]:")
	c17SegMid    = zzverif.Printable(";@=()[]:") // interior: single spaces allowed
	c17SegFirst  = zzverif.Printable(" ;@=()[]:*!")
	c17CommentA  = zzverif.Printable("")
	c17FreeA     = zzverif.Printable(":,")
	c17ValueA    = zzverif.Printable(",")
	c17ValueEnd  = zzverif.Printable(", ")
	c17NameA     = zzverif.Letters + zzverif.Digit + "-_"
	c17PathA     = zzverif.Letters + zzverif.Digit + "/.-_*~"
	c17QuotedA   = zzverif.Printable(";|\"")
	c17QuotedEnd = zzverif.Printable(";|\" ")
)

const (
	ttAccount   = uint32(TokenTypeAccount)
	ttCommodity = uint32(TokenTypeCommodity)
	ttPayee     = uint32(TokenTypePayee)
	ttDate      = uint32(TokenTypeDate)
	ttAmount    = uint32(TokenTypeAmount)
	ttTag       = uint32(TokenTypeTag)
	ttDirective = uint32(TokenTypeDirective)
	ttCode      = uint32(TokenTypeCode)
	ttStatus    = uint32(TokenTypeStatus)
	ttComment   = uint32(TokenTypeComment)
	ttString    = uint32(TokenTypeString)
	ttOperator  = uint32(TokenTypeOperator)
	ttTagValue  = uint32(TokenTypeTagValue)
)

// ---- leaves ----

func (l *c17Line) date(name string, long bool) {
	m := l.mark()
	sep := "-"
	md, dd := 2, 2
	if long {
		sep = []string{"-", "/", "."}[zzverif.Choice(name+".sep", 3)]
		md = 1 + zzverif.Choice(name+".m", 2)
		dd = 1 + zzverif.Choice(name+".d", 2)
	}
	l.raw(zzverif.Digits(name+".y", 4))
	l.raw(sep)
	l.raw(zzverif.Digits(name+".mo", md))
	l.raw(sep)
	l.raw(zzverif.Digits(name+".da", dd))
	l.lexeme(m, lfDate, c17Bit(ttDate), parser.TokenDate, l.b-m.b)
}

func (l *c17Line) op(s string, t parser.TokenType) {
	m := l.mark()
	l.raw(s)
	l.lexeme(m, lfOp, c17Bit(ttOperator), t, len(s))
}

func (l *c17Line) sign() {
	m := l.mark()
	l.raw("-")
	l.lexeme(m, lfSign, 0, parser.TokenSign, 1)
}

func (l *c17Line) silent(s string) {
	m := l.mark()
	l.raw(s)
	l.lexeme(m, lfSilent, 0, -1, 0)
}

// tag appends WS? name ":" WS? [ value ]. full: all blank / length variants.
func (l *c17Line) tag(tn string, ci, n int, full bool) {
	lead, gap, nlen, vn := 1, 0, 1, 1
	if full {
		lead = zzverif.Choice(tn+".lead", 2)
		nlen = 1 + zzverif.Choice(tn+".nlen", 2)
		gap = zzverif.Choice(tn+".gap", 2)
		vn = zzverif.Choice(tn+".vlen", n+1)
	}
	l.spaces(lead)
	tm := l.mark()
	l.slots(tn+".name", nlen, c17NameA, c17NameA, c17NameA, true)
	l.raw(":")
	ti := l.lexeme(tm, lfTagName, c17Bit(ttTag), -1, 0)
	l.lex[ti].comment = ci
	l.spaces(gap)
	if vn > 0 {
		vm := l.mark()
		l.slots(tn+".value", vn, c17ValueEnd, c17ValueA, c17ValueEnd, false)
		vi := l.lexeme(vm, lfTagValue, c17Bit(ttTagValue), -1, 0)
		l.lex[vi].comment = ci
	}
}

// comment appends ";" comment. kind: 0 empty, 1 free text (n slots), 2 one tag,
// 3 free text (1 slot) "," tag, 4 tag "," tag (the second in its plainest form).
func (l *c17Line) comment(name string, kind, n int, full bool) {
	m := l.mark()
	l.raw(";")
	ci := l.lexeme(m, lfComment, c17Bit(ttComment), parser.TokenComment, 0)
	switch kind {
	case 1:
		l.slots(name+".free", 1+zzverif.Choice(name+".flen", n), c17FreeA, c17FreeA, c17FreeA, false)
	case 2:
		l.tag(name+".tag0", ci, n, full)
	case 3:
		l.slots(name+".free", 1, c17FreeA, c17FreeA, c17FreeA, false)
		l.raw(",")
		l.tag(name+".tag0", ci, n, full)
	case 4:
		l.tag(name+".tag0", ci, n, full)
		l.raw(",")
		l.tag(name+".tag1", ci, n, false)
	}
	// the comment lexeme runs to the end of the line content
	l.lex[ci].b1, l.lex[ci].u1 = l.b, l.u
	l.lex[ci].lexLen = l.b - m.b - 1
}

func (l *c17Line) number(name string, forms int) {
	m := l.mark()
	switch zzverif.Choice(name+".form", forms) {
	case 0:
		l.raw(zzverif.Digits(name+".i", 2))
	case 1:
		l.raw(zzverif.Digits(name+".i", 1))
		l.raw(".")
		l.raw(zzverif.Digits(name+".f", 2))
	case 2:
		l.raw(zzverif.Digits(name+".i", 1))
		l.raw(",")
		l.raw(zzverif.Digits(name+".g", 3))
		l.raw(".")
		l.raw(zzverif.Digits(name+".f", 2))
	case 3:
		l.raw(zzverif.Digits(name+".i", 1))
		l.raw(" ")
		l.raw(zzverif.Digits(name+".g", 3))
	default:
		l.raw(zzverif.Digits(name+".i", 1))
		l.raw("E")
		l.raw([]string{"", "+", "-"}[zzverif.Choice(name+".esign", 3)])
		l.raw(zzverif.Digits(name+".e", 1))
	}
	l.lexeme(m, lfNumber, c17Bit(ttAmount), parser.TokenNumber, l.b-m.b)
}

// symbol appends a commodity symbol. which: 0 "$", 1 "€", 2 CODE, 3 quoted, 4 lower-case name
func (l *c17Line) symbol(name string, which, n int) {
	m := l.mark()
	switch which {
	case 0:
		l.raw("$")
		l.lexeme(m, lfCommodity, c17Bit(ttCommodity), parser.TokenCommodity, 1)
	case 1:
		l.wide(1)
		l.lexeme(m, lfCommodity, c17Bit(ttCommodity), parser.TokenCommodity, 3)
	case 2:
		k := 1 + zzverif.Choice(name+".len", n)
		l.raw(zzverif.Text(name+".code", zzverif.Upper, k))
		l.lexeme(m, lfCommodity, c17Bit(ttCommodity), parser.TokenCommodity, k)
	case 3:
		l.raw("\"")
		l.slots(name+".q", 1+zzverif.Choice(name+".len", n), c17QuotedEnd, c17QuotedA, c17QuotedEnd, false)
		l.raw("\"")
		l.lexeme(m, lfQuoted, c17Bit(ttCommodity), parser.TokenCommodity, l.b-m.b-2)
	default:
		k := 1 + zzverif.Choice(name+".len", n)
		l.raw(zzverif.Text(name+".lower", zzverif.Lower, k))
		l.lexeme(m, lfLower, c17Bit(ttCommodity), parser.TokenCommodity, k)
	}
}

// amount := [sign] symL [sign] number | [sign] number [ SP? symR ]
// level 0: three representative forms; 1: all symbol kinds; 2: also sign positions and
// every number notation
func (l *c17Line) amount(name string, n, level int) {
	nforms := 2
	if level == 2 {
		nforms = 5
	}
	if level == 0 {
		switch zzverif.Choice(name+".rep", 3) {
		case 0:
			l.number(name+".num", 1)
		case 1:
			l.symbol(name+".sym", zzverif.Choice(name+".symL", 2), 1)
			l.number(name+".num", 1)
		default:
			l.number(name+".num", 1)
			l.raw(" ")
			l.symbol(name+".sym", 2, n)
		}
		return
	}
	form := zzverif.Choice(name+".form", 3) // 0 bare number, 1 left symbol, 2 right symbol
	sign := zzverif.Choice(name+".sign", 1+level) // 0 none, 1 '-' first, 2 '-' between symbol and number
	if sign == 1 {
		l.sign()
	}
	switch form {
	case 0:
		zzverif.Assume(sign < 2)
		l.number(name+".num", nforms)
	case 1:
		l.symbol(name+".sym", zzverif.Choice(name+".symL", 4), n)
		if sign == 2 {
			l.sign()
		}
		l.number(name+".num", nforms)
	default:
		zzverif.Assume(sign < 2)
		l.number(name+".num", nforms)
		l.spaces(zzverif.Choice(name+".sp", 2))
		l.symbol(name+".sym", zzverif.Choice(name+".symR", 5), n)
	}
}

// account := seg ( ":" seg )+ ; the first segment has n0 slots choices 1..n, later ones 1..n
func (l *c17Line) account(name string, segs, n int, first string) {
	m := l.mark()
	for s := 0; s < segs; s++ {
		if s > 0 {
			l.raw(":")
		}
		f := c17SegA
		if s == 0 {
			f = first
		}
		k := 1
		if n > 1 {
			k = 1 + zzverif.Choice(name+".len"+zzverif.Itoa(s), n)
		}
		l.slots(name+".seg"+zzverif.Itoa(s), k, f, c17SegMid, c17SegA, false)
	}
	l.lexeme(m, lfAccount, c17Bit(ttAccount), parser.TokenAccount, l.b-m.b)
}

// plainAccount: "x:y" with two symbolic letters, no wide character
func (l *c17Line) plainAccount(name string) {
	m := l.mark()
	l.sym(name+".0", zzverif.Letters)
	l.raw(":")
	l.sym(name+".1", zzverif.Letters)
	l.lexeme(m, lfAccount, c17Bit(ttAccount), parser.TokenAccount, 3)
}

func (l *c17Line) status(st int) {
	m := l.mark()
	l.raw([]string{"*", "!"}[st-1])
	l.lexeme(m, lfStatus, c17Bit(ttStatus), parser.TokenStatus, 1)
}

func (l *c17Line) directive(word string) {
	m := l.mark()
	l.raw(word)
	l.lexeme(m, lfDirective, c17Bit(ttDirective), parser.TokenDirective, len(word))
}

func (l *c17Line) textLeaf(name string, leaf int, kinds uint32, n int) {
	m := l.mark()
	l.slots(name, n, c17DescFirst, c17Desc, c17DescLast, false)
	l.lexeme(m, leaf, kinds, parser.TokenText, l.b-m.b)
}

// plainText: lower-case letters only (always lexed as one text token), may take the wide character
func (l *c17Line) plainText(name string, leaf int, kinds uint32, n int) {
	m := l.mark()
	l.slots(name, n, zzverif.Lower, zzverif.Lower, zzverif.Lower, false)
	l.lexeme(m, leaf, kinds, parser.TokenText, l.b-m.b)
}

func (l *c17Line) fixedDate() {
	m := l.mark()
	l.raw("2024-01-15")
	l.lexeme(m, lfDate, c17Bit(ttDate), parser.TokenDate, 10)
}

func (l *c17Line) indent(k int) {
	if k == 0 {
		l.raw("\t")
	} else {
		l.spaces(k)
	}
}

// ---- the scenarios: each varies one part of a line of G and keeps the rest plain ----

const c17Scenarios = 13

// c17Scenario builds the line under test; it returns the lines that precede it.
func c17Scenario(l *c17Line, sc, n int, long bool) []*c17Line {
	var before []*c17Line
	ws := func(name string) {
		if long {
			l.spaces(1 + zzverif.Choice(name, 3))
		} else {
			l.spaces(1)
		}
	}
	both := c17Bit(ttPayee) | c17Bit(ttString)
	switch sc {
	case 0: // header: date forms, secondary date, status, code; then a plain description
		l.date("d1", long)
		if zzverif.Choice("date2", 2) == 1 {
			l.op("=", parser.TokenEquals)
			l.date("d2", false)
		}
		if st := zzverif.Choice("status", 3); st > 0 {
			ws("status.ws")
			l.status(st)
		}
		if zzverif.Choice("code", 2) == 1 {
			ws("code.ws")
			m := l.mark()
			l.raw("(")
			l.slots("code", zzverif.Choice("code.len", n+1), c17CodeA, c17CodeA, c17CodeA, false)
			l.raw(")")
			l.lexeme(m, lfCode, c17Bit(ttCode), parser.TokenCode, l.b-m.b-2)
		}
		if zzverif.Choice("desc", 2) == 1 {
			ws("desc.ws")
			l.noWide = true
			l.plainText("desc", lfDesc, both, 1)
		}
	case 1: // header: the description, fully symbolic; optional plain comment
		l.fixedDate()
		ws("desc.ws")
		l.textLeaf("desc", lfDesc, both, 1+zzverif.Choice("desc.len", n))
		if zzverif.Choice("hc", 2) == 1 {
			l.spaces(zzverif.Choice("hc.ws", 2))
			l.noWide = true
			l.comment("hc", 1, 1, false)
		}
	case 2: // header: payee | note
		l.fixedDate()
		l.spaces(1)
		l.plainText("payee", lfPayee, c17Bit(ttPayee), 1+zzverif.Choice("payee.len", 2))
		l.raw(" ")
		pm := l.mark()
		l.raw("|")
		l.lexeme(pm, lfPipe, c17Bit(ttOperator), parser.TokenPipe, 1)
		l.raw(" ")
		l.textLeaf("note", lfNote, c17Bit(ttString), 1+zzverif.Choice("note.len", n))
		if zzverif.Choice("hc", 2) == 1 {
			l.spaces(1)
			l.noWide = true
			l.comment("hc", 1, 1, false)
		}
	case 3: // header comment with tags
		l.fixedDate()
		if zzverif.Choice("desc", 2) == 1 {
			l.spaces(1)
			l.plainText("desc", lfDesc, both, 1)
		}
		l.spaces(zzverif.Choice("hc.ws", 3))
		l.comment("hc", zzverif.Choice("hc.kind", 5), n, long)
	case 4: // posting: indentation and account text, then a plain amount
		k := 9
		if !long {
			k = []int{0, 1, 2, 4, 8}[zzverif.Choice("indent", 5)]
		} else {
			k = zzverif.Choice("indent", 9)
		}
		l.indent(k)
		segs := 2
		if long {
			segs = 2 + zzverif.Choice("segs", 2)
		}
		first := zzverif.Letters // other first characters: scenario 5
		if long {
			first = c17SegFirst
		}
		l.account("acct", segs, n, first)
		if zzverif.Choice("amount", 2) == 1 {
			l.spaces(2)
			l.number("num", 1)
			l.raw(" ")
			l.symbol("sym", 2, 1)
		}
	case 5: // posting: status mark and virtual forms
		l.indent(4)
		if st := zzverif.Choice("status", 3); st > 0 {
			l.status(st)
			l.raw(" ")
		}
		virt := zzverif.Choice("virtual", 3)
		if virt > 0 {
			l.silent([]string{"(", "["}[virt-1])
		}
		l.account("acct", 2, 1, c17SegFirst)
		if virt > 0 {
			l.silent([]string{")", "]"}[virt-1])
		}
		if zzverif.Choice("amount", 2) == 1 {
			l.spaces(2)
			l.number("num", 1)
		}
	case 6: // posting: the amount in every form
		l.indent(4)
		l.plainAccount("acct")
		if long {
			l.spaces(2 + zzverif.Choice("gap", 3))
		} else {
			l.spaces(2)
		}
		lvl := 1
		if long {
			lvl = 2
		}
		l.amount("amt", n, lvl)
		if zzverif.Choice("pc", 2) == 1 {
			l.spaces(zzverif.Choice("pc.ws", 2))
			l.noWide = true
			l.comment("pc", 1, 1, false)
		}
	case 7: // posting: cost and balance assertion
		l.indent(4)
		l.plainAccount("acct")
		l.spaces(2)
		l.amount("amt", 1, 0)
		lvl := 0
		if long {
			lvl = 1
		}
		c := zzverif.Choice("cost", 3)
		if c > 0 {
			ws("cost.ws")
			if c == 1 {
				l.op("@", parser.TokenAt)
			} else {
				l.op("@@", parser.TokenAtAt)
			}
			ws("cost.ws2")
			l.amount("cost", n, lvl)
		}
		a := zzverif.Choice("assert", 3)
		if a > 0 {
			ws("bal.ws")
			if a == 1 {
				l.op("=", parser.TokenEquals)
			} else {
				l.op("==", parser.TokenDoubleEquals)
			}
			ws("bal.ws2")
			l.amount("bal", n, lvl)
		}
	case 8: // posting comment: free text and tags in every form
		l.indent(4)
		l.plainAccount("acct")
		l.spaces(zzverif.Choice("pc.ws", 3))
		kind := zzverif.Choice("pc.kind", 5)
		if long || kind <= 2 {
			l.comment("pc", kind, n, true)
		} else {
			l.comment("pc", kind, 1, true)
		}
	case 9: // account / include / year directives, also after other lines
		switch zzverif.Choice("before", 3) {
		case 1:
			before = append(before, &c17Line{})
		case 2:
			h := &c17Line{noWide: true}
			h.fixedDate()
			before = append(before, h)
		}
		switch zzverif.Choice("directive", 3) {
		case 0:
			l.directive("account")
			l.raw(" ")
			first := zzverif.Letters // other first characters: scenario 5
			if long {
				first = c17SegFirst
			}
			l.noWide = !long // wide characters in account names: scenarios 4 and 5
			l.account("acct", 2, n, first)
			l.noWide = false
			if k := zzverif.Choice("ac.kind", 3); k > 0 {
				l.spaces(2)
				l.comment("ac", k, 1, false)
			}
		case 1:
			l.directive("include")
			l.raw(" ")
			m := l.mark()
			l.slots("path", 1+zzverif.Choice("path.len", n+1), c17PathA, c17PathA, c17PathA, false)
			l.lexeme(m, lfPath, c17Bit(ttString), parser.TokenText, l.b-m.b)
		default:
			l.directive([]string{"Y", "year"}[zzverif.Choice("yword", 2)])
			l.raw(" ")
			m := l.mark()
			l.raw(zzverif.Digits("year", 4))
			l.lexeme(m, lfYear, c17Bit(ttDate)|c17Bit(ttAmount), parser.TokenNumber, 4)
		}
	case 10: // commodity / D / P directives
		nforms := 2
		if long {
			nforms = 5
		}
		switch zzverif.Choice("directive", 3) {
		case 0:
			l.directive("commodity")
			l.raw(" ")
			switch zzverif.Choice("cform", 3) {
			case 0:
				l.symbol("sym", zzverif.Choice("symL", 4), n)
				l.number("num", nforms)
			case 1:
				l.number("num", nforms)
				l.raw(" ")
				l.symbol("sym", zzverif.Choice("symR", 5), n)
			default:
				l.symbol("sym", zzverif.Choice("symR", 5), n)
			}
		case 1:
			l.directive("D")
			l.raw(" ")
			if zzverif.Choice("dform", 2) == 0 {
				l.symbol("sym", zzverif.Choice("symL", 4), n)
				l.number("num", nforms)
			} else {
				l.number("num", nforms)
				l.raw(" ")
				l.symbol("sym", zzverif.Choice("symR", 5), n)
			}
		default:
			l.directive("P")
			l.raw(" ")
			l.date("pd", long)
			l.raw(" ")
			l.symbol("psym", zzverif.Choice("psymk", 5), n)
			l.raw(" ")
			l.amount("pamt", 1, 0)
		}
	case 11: // full-line and indented comment lines
		if zzverif.Choice("indented", 2) == 1 {
			l.indent([]int{0, 2, 4}[zzverif.Choice("indent", 3)])
		}
		l.comment("lc", zzverif.Choice("lc.kind", 5), n, long)
	default: // a small transaction; every line takes part (order across lines)
		l.noWide = true
		h := &c17Line{noWide: true}
		h.fixedDate()
		if st := zzverif.Choice("status", 2); st > 0 {
			h.spaces(1)
			h.status(st)
		}
		if zzverif.Choice("desc", 2) == 1 {
			h.spaces(1)
			h.plainText("desc", lfDesc, both, 1)
		}
		before = append(before, h)
		if zzverif.Choice("tcomment", 2) == 1 {
			c := &c17Line{noWide: true}
			c.indent(4)
			c.comment("tc", 2, 1, false)
			before = append(before, c)
		}
		p := &c17Line{noWide: true}
		p.indent(4)
		p.plainAccount("p1")
		p.spaces(2)
		p.amount("p1amt", 1, 0)
		before = append(before, p)
		l.indent(4)
		l.plainAccount("p2")
		if zzverif.Choice("p2c", 2) == 1 {
			l.spaces(2)
			l.comment("p2c", 1, 1, false)
		}
	}
	return before
}

// ---------------------------------------------------------------------------------------
// The check
// ---------------------------------------------------------------------------------------

var c17TypeMsg = []string{
	"an account token does not cover an account lexeme",
	"a commodity token does not cover a commodity lexeme",
	"a payee token does not cover a payee lexeme",
	"a date token does not cover a date lexeme",
	"an amount token does not cover a number lexeme",
	"a tag token does not cover a tag name with its colon",
	"a directive token does not cover a directive keyword",
	"a code token does not cover a code with its parentheses",
	"a status token does not cover a status mark",
	"a comment token does not cover a comment from its semicolon",
	"a string token does not cover a text lexeme",
	"an operator token does not sit on an operator",
	"a tagValue token does not cover a tag value",
}

type c17LexTok struct {
	typ    parser.TokenType
	off    int
	valLen int
}

func c17LexAll(doc string) []c17LexTok {
	lx := parser.NewLexer(doc)
	var out []c17LexTok
	for {
		t := lx.Next()
		if t.Type == parser.TokenEOF {
			return out
		}
		out = append(out, c17LexTok{t.Type, t.Pos.Offset, len(t.Value)})
	}
}

// Known-finding classes of C17 geometry (one cause each) and the message under which a
// violation of that class is reported while the class is not enabled.
const (
	kfTextLeaf  = "text-leaf-lexed-generically"
	kfCodeColon = "code-with-colon-lexed-as-account"
	kfAcctStart = "account-not-starting-with-letter"
	kfLowerComm = "lowercase-commodity-lexed-as-text"
	kfSignQuote = "sign-before-quoted-commodity-lexed-as-text"
	kfRunes     = "token-column-in-runes"
	kfDelims    = "delimited-token-length-without-delimiters"
	kfPipe      = "pipe-token-after-the-bar"
	kfCRLF      = "crlf-carriage-return-in-token"
	kfTagBytes  = "tag-geometry-in-bytes"
	kfPayeeLeak = "payee-flag-leaks-to-later-line"
)

var c17ClassMsg = map[string]string{
	kfTextLeaf:  "a description / payee / note / include path is not lexed as one text token, so its tokens do not cover it",
	kfCodeColon: "a transaction code that contains ':' is lexed as a virtual account",
	kfAcctStart: "an account name that does not start with a letter is not lexed as an account",
	kfLowerComm: "a lower-case commodity after a number is lexed as text (up to the comment)",
	kfSignQuote: "a sign in front of a quoted commodity is lexed as text together with the amount",
	kfRunes:     "a token column counts runes, not UTF-16 code units (astral character earlier on the line)",
	kfDelims:    "a code / quoted commodity token is two units short (its length is that of the text between the delimiters)",
	kfPipe:      "the '|' token is reported one column after the bar",
	kfCRLF:      "with CRLF line ends the carriage return is part of a comment token or forms an empty token",
	kfTagBytes:  "tag name / value tokens are positioned or sized in bytes, not UTF-16 code units",
	kfPayeeLeak: "a text token is typed payee because an earlier header line had no description",
}

// c17Excused reports a violation of a class: skipped when the class is enabled, reported
// under the class's own message otherwise.
func c17Excused(class string) {
	if zzverif.Known(class) {
		zzverif.Reach("kf:" + class)
		return
	}
	zzverif.Assert(false, c17ClassMsg[class])
}

// c17MislexClass: the class a leaf belongs to when the lexer does not deliver it as one
// token of its type ("" = no such class: a genuine failure).
func c17MislexClass(leaf int) string {
	switch leaf {
	case lfDesc, lfPayee, lfNote, lfPath:
		return kfTextLeaf
	case lfCode:
		return kfCodeColon
	case lfAccount:
		return kfAcctStart
	case lfLower:
		return kfLowerComm
	case lfSign:
		return kfSignQuote
	}
	return ""
}

// c17Matches: does a token at (col, length) render lexeme x? class == "": correctly;
// otherwise in the wrong way that the named class describes.
func c17Matches(l *c17Line, x c17Lexeme, col, length int, crlf bool) (bool, string) {
	ulen := x.u1 - x.u0
	if col == x.u0 && length == ulen {
		return true, ""
	}
	cols := []int{x.u0}
	if x.r0 != x.u0 {
		cols = append(cols, x.r0)
	}
	for _, c := range cols {
		if col == c && length == ulen {
			return true, kfRunes
		}
		switch x.leaf {
		case lfCode, lfQuoted:
			if col == c && length == ulen-2 {
				return true, kfDelims
			}
		case lfPipe:
			if col == c+1 && length == 1 {
				return true, kfPipe
			}
		case lfComment:
			if crlf && col == c && length == ulen+1 {
				return true, kfCRLF
			}
		}
	}
	if (x.leaf == lfTagName || x.leaf == lfTagValue) && x.comment >= 0 {
		cm := l.lex[x.comment]
		bases := []int{cm.u0}
		if cm.r0 != cm.u0 {
			bases = append(bases, cm.r0)
		}
		uoff, boff := x.u0-cm.u0-1, x.b0-cm.b0-1
		for _, base := range bases {
			if col == base+1+uoff && length == ulen {
				return true, kfRunes
			}
			if (col == base+1+uoff || col == base+1+boff) && (length == ulen || length == x.b1-x.b0) {
				return true, kfTagBytes
			}
		}
	}
	return false, ""
}

func c17CheckTokens(lines []*c17Line, eol string, doc string, toks []semanticToken) {
	crlf := eol == "\r\n"
	starts := make([]int, len(lines)) // line start offsets in the document
	off := 0
	for i, l := range lines {
		starts[i] = off
		off += l.b + len(eol)
	}
	var lexToks []c17LexTok
	lexed := false
	curLine := -1
	next := 0      // next lexeme index that may still be matched on curLine
	skipFrom := -1 // rune column from which the current line is excused (mislexed leaf)
	mislexDone := false
	prevGood := false // the previous token sits exactly on a lexeme
	for i, t := range toks {
		zzverif.Assert(t.tokenType <= ttTagValue, "token type outside the advertised legend")
		zzverif.Assert(int(t.line) < len(lines), "token on a line that does not exist")
		if i > 0 {
			p := toks[i-1]
			zzverif.Assert(t.line > p.line || (t.line == p.line && t.col >= p.col), "tokens are not in document order (relative encoding underflows)")
		}
		if int(t.line) != curLine {
			curLine = int(t.line)
			next, skipFrom, mislexDone, prevGood = 0, -1, false, false
		}
		l := lines[curLine]
		col, length := int(t.col), int(t.length)
		if skipFrom >= 0 && col >= skipFrom {
			prevGood = false
			continue
		}
		// pass 1: a lexeme of that kind exactly there; pass 2: a known-wrong rendering
		found, class := false, ""
		for pass := 0; pass < 2 && !found; pass++ {
			for j := next; j < len(l.lex) && !found; j++ {
				x := l.lex[j]
				if x.kinds&c17Bit(t.tokenType) == 0 {
					continue
				}
				ok, c := c17Matches(l, x, col, length, crlf)
				if ok && (c == "") == (pass == 0) {
					found, class = true, c
					next = j + 1
				}
			}
		}
		if found && class == "" {
			if prevGood {
				p := toks[i-1]
				zzverif.Assert(int(p.col+p.length) <= col, "tokens overlap")
			}
			zzverif.Assert(col+length <= l.u, "token extends beyond its line")
			prevGood = true
			continue
		}
		prevGood = false
		if found {
			c17Excused(class)
			continue
		}
		// no lexeme of that kind at that place. A carriage return lexed as content?
		if crlf && length == 0 && (col == l.u || col == l.r) {
			c17Excused(kfCRLF)
			continue
		}
		// the payee flag of an earlier header line without description leaks into this line
		if t.tokenType == ttPayee && curLine > 0 {
			leak := false
			for j := next; j < len(l.lex) && !leak; j++ {
				x := l.lex[j]
				if x.kinds&c17Bit(ttString) != 0 && x.kinds&c17Bit(ttPayee) == 0 {
					if ok, c := c17Matches(l, x, col, length, crlf); ok && c == "" {
						leak = true
						next = j + 1
					}
				}
			}
			if leak {
				c17Excused(kfPayeeLeak)
				continue
			}
		}
		// Is a leaf at or before this token mislexed by the lexer (the classes of C03)?
		if !mislexDone {
			mislexDone = true
			if !lexed {
				lexToks = c17LexAll(doc)
				lexed = true
			}
			for j := 0; j < len(l.lex) && skipFrom < 0; j++ {
				x := l.lex[j]
				if x.lexType < 0 || c17MislexClass(x.leaf) == "" {
					continue // only leaves with a mislexing class are judged by the lexer's output
				}
				good := false
				for _, lt := range lexToks {
					if lt.typ == x.lexType && lt.off == starts[curLine]+x.b0 && lt.valLen == x.lexLen {
						good = true
					}
				}
				if !good {
					mc := c17MislexClass(x.leaf)
					if mc != "" && col >= x.r0 {
						c17Excused(mc)
						skipFrom = x.r0
					} else {
						skipFrom = 1 << 30
					}
				}
			}
			if skipFrom >= 0 && col >= skipFrom {
				continue
			}
		}
		zzverif.Assert(false, c17TypeMsg[t.tokenType])
	}
}

// verifC17Geo: one scenario; the document is the lines before + the line under test, each
// ended by the same EOL. Every line's tokens are checked.
func verifC17Geo(long bool, n int, sc int) {
	l := &c17Line{}
	before := c17Scenario(l, sc, n, long)
	eol := "\n"
	// CRLF line ends: on the scenarios whose lines end in different kinds of leaf
	if (long || sc == 0 || sc == 5 || sc == 9 || sc == 11 || sc == 12) && zzverif.Choice("crlf", 2) == 1 {
		eol = "\r\n"
	}
	lines := append(before, l)
	doc := ""
	for _, x := range lines {
		doc += x.text + eol
	}
	toks := tokenizeForSemantics(doc)
	c17CheckTokens(lines, eol, doc, toks)
	// the encoder reproduces the stream (no modular underflow on the real stream)
	back, ok := c17Decode(encodeTokens(toks))
	zzverif.Assert(ok && len(back) == len(toks), "encoded stream decodes")
	same := true
	for i := range toks {
		same = same && back[i] == toks[i]
	}
	zzverif.Assert(same, "decode(encode(stream)) differs from the token stream")
	zzverif.Reach("C17.geometry.s" + zzverif.Itoa(sc))
}

func VerifC17Geometry()     { verifC17Geo(false, 2, zzverif.Choice("scenario", c17Scenarios)) }
func VerifC17GeometryLong() { verifC17Geo(true, 3, zzverif.Choice("scenario", c17Scenarios)) }

// dev entry points (removed before delivery)
func VerifC17GeoDev0() { verifC17Geo(false, 2, 0) }
func VerifC17GeoDev1() { verifC17Geo(false, 2, 1) }
func VerifC17GeoDev2() { verifC17Geo(false, 2, 2) }
func VerifC17GeoDev3() { verifC17Geo(false, 2, 3) }
func VerifC17GeoDev4() { verifC17Geo(false, 2, 4) }
func VerifC17GeoDev5() { verifC17Geo(false, 2, 5) }
func VerifC17GeoDev6() { verifC17Geo(false, 2, 6) }
func VerifC17GeoDev7() { verifC17Geo(false, 2, 7) }
func VerifC17GeoDev8() { verifC17Geo(false, 2, 8) }
func VerifC17GeoDev9() { verifC17Geo(false, 2, 9) }
func VerifC17GeoDev10() { verifC17Geo(false, 2, 10) }
func VerifC17GeoDev11() { verifC17Geo(false, 2, 11) }
func VerifC17GeoDev12() { verifC17Geo(false, 2, 12) }
