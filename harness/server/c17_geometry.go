//go:build verif

package server

import (
	"unicode"
	"unicode/utf8"

	"github.com/juev/hledger-lsp/internal/zzverif"
)

func init() {
	zzverif.Register("VerifC17Geometry", VerifC17Geometry)
	zzverif.Register("VerifC17GeometryLong", VerifC17GeometryLong)
}

// ---------------------------------------------------------------------------------------
// Derivation of one line of grammar G (DESIGN §4.2) together with its lexemes. The text is
// built from the derivation, so byte / rune / UTF-16 spans are known by construction (all
// lengths are concrete on a path; only the content of ASCII slots is symbolic).
// ---------------------------------------------------------------------------------------

const (
	lfDate = iota
	lfOp   // = == @ @@ and the '=' of a secondary date
	lfPipe
	lfStatus
	lfCode
	lfDesc  // description without '|': payee or string
	lfPayee // text before " | "
	lfNote  // text after " | "
	lfComment
	lfTagName
	lfTagValue
	lfAccount
	lfNumber
	lfCommodity // currency sign or CODE
	lfQuoted    // "quoted commodity"
	lfLower     // lower-case commodity name (right side only)
	lfDirective
	lfPath
	lfYear
	lfSign   // a lexeme without a legend kind
	lfSilent // parenthesis, bracket: lexemes without a legend kind
)

func c17Bit(t uint32) uint32 { return 1 << t }

type c17Lexeme struct {
	leaf   int
	kinds  uint32 // acceptable legend types (bit set)
	b0, b1 int    // byte span in the line
	u0, u1 int    // UTF-16 span in the line
	r0     int    // rune column of the start
	// for tags: index of the enclosing comment lexeme
	comment int
}

// c17WideAt: a non-ASCII character of the line (byte, UTF-16 and rune column; k indexes c17WideChars)
type c17WideAt struct{ b, u, r, k int }

type c17Line struct {
	text    string
	b, u, r int
	lex     []c17Lexeme
	wides   []c17WideAt
	// wide character plan: at most one text leaf of the line receives one non-ASCII
	// character (é, € or 😀) in its first or last slot; decided leaf by leaf
	widePlaced bool
	noWide     bool
	noCRLF     bool // the scenario does not vary the line ending for this derivation
	// the leaf under construction starts with a letter: no € / 😀 in its first slot
	letterFirst bool
}

var c17WideChars = []string{"é", "€", "😀"}
var c17WideU16 = []int{1, 1, 2}

func (l *c17Line) raw(s string) {
	l.text += s
	l.b += len(s)
	l.u += len(s)
	l.r += len(s)
}

func (l *c17Line) wide(k int) {
	s := c17WideChars[k]
	l.wides = append(l.wides, c17WideAt{l.b, l.u, l.r, k})
	l.text += s
	l.b += len(s)
	l.u += c17WideU16[k]
	l.r++
}

func (l *c17Line) sym(name, allowed string) {
	l.raw(string([]byte{zzverif.ByteIn(name, allowed)}))
}

func (l *c17Line) spaces(n int) {
	for i := 0; i < n; i++ {
		l.raw(" ")
	}
}

type c17Mark struct{ b, u, r int }

func (l *c17Line) mark() c17Mark { return c17Mark{l.b, l.u, l.r} }

func (l *c17Line) lexeme(m c17Mark, leaf int, kinds uint32) int {
	l.lex = append(l.lex, c17Lexeme{leaf: leaf, kinds: kinds, b0: m.b, b1: l.b, u0: m.u, u1: l.u, r0: m.r, comment: -1})
	return len(l.lex) - 1
}

// slots appends a text leaf of n character slots; slot i is one symbolic byte of first /
// mid / last (by position; a one-slot leaf uses first, which is a subset of last in every
// use), except a slot that the wide-character plan fills: none | é first | € first |
// 😀 first | 😀 last  (tag names: none | é first | é last; a leaf that is to start with a
// letter: none | é first | 😀 last).
func (l *c17Line) slots(name string, n int, first, mid, last string, onlyLetter bool) {
	if n == 0 {
		return
	}
	w, ch := -1, 0
	if !l.widePlaced && !l.noWide {
		k := 0
		switch {
		case onlyLetter:
			k = zzverif.Choice(name+".wide", 3)
			if k > 0 {
				w = (k - 1) * (n - 1)
			}
		case l.letterFirst: // none | é first | 😀 last
			if n == 1 {
				k = zzverif.Choice(name+".wide", 2)
			} else {
				k = zzverif.Choice(name+".wide", 3)
			}
			if k == 2 {
				w, ch = n-1, 2
			} else if k == 1 {
				w, ch = 0, 0
			}
		case n == 1:
			k = zzverif.Choice(name+".wide", 4)
			if k > 0 {
				w, ch = 0, k-1
			}
		default:
			k = zzverif.Choice(name+".wide", 5)
			if k == 4 {
				w, ch = n-1, 2
			} else if k > 0 {
				w, ch = 0, k-1
			}
		}
		l.widePlaced = k > 0
	}
	for i := 0; i < n; i++ {
		if i == w {
			l.wide(ch)
			continue
		}
		a := mid
		if i == 0 {
			a = first
		} else if i == n-1 {
			a = last
		}
		l.sym(name+"."+zzverif.Itoa(i), a)
	}
}

// ---- alphabets of DESIGN §4.1 ----

var (
	c17Desc        = zzverif.Printable(";|")
	c17DescFirst   = zzverif.Printable(";| (*!=")
	c17DescLast    = zzverif.Printable(";| ")
	c17CodeNoColon = zzverif.Printable("):")
	c17SegA        = zzverif.Printable(" ;@=()[]:")
	c17SegMid      = zzverif.Printable(";@=()[]:") // interior: single spaces allowed
	c17SegFirst    = zzverif.Printable(" ;@=()[]:*!")
	c17CommentA    = zzverif.Printable("")
	c17FreeA       = zzverif.Printable(":,")
	c17ValueA      = zzverif.Printable(",")
	c17ValueEnd    = zzverif.Printable(", ")
	c17NameA       = zzverif.Letters + zzverif.Digit + "-_"
	c17PathA       = zzverif.Letters + zzverif.Digit + "/.-_*~"
	c17QuotedA     = zzverif.Printable(";|\"")
	c17QuotedEnd   = zzverif.Printable(";|\" ")
)

const (
	ttAccount   = uint32(TokenTypeAccount)
	ttCommodity = uint32(TokenTypeCommodity)
	ttPayee     = uint32(TokenTypePayee)
	ttDate      = uint32(TokenTypeDate)
	ttAmount    = uint32(TokenTypeAmount)
	ttTag       = uint32(TokenTypeTag)
	ttDirective = uint32(TokenTypeDirective)
	ttCode      = uint32(TokenTypeCode)
	ttStatus    = uint32(TokenTypeStatus)
	ttComment   = uint32(TokenTypeComment)
	ttString    = uint32(TokenTypeString)
	ttOperator  = uint32(TokenTypeOperator)
	ttTagValue  = uint32(TokenTypeTagValue)
)

// ---- leaves ----

func (l *c17Line) date(name string, long bool) {
	m := l.mark()
	sep := "-"
	md, dd := 2, 2
	if long {
		sep = []string{"-", "/", "."}[zzverif.Choice(name+".sep", 3)]
		md = 1 + zzverif.Choice(name+".m", 2)
		dd = 1 + zzverif.Choice(name+".d", 2)
	}
	l.raw(zzverif.Digits(name+".y", 4))
	l.raw(sep)
	l.raw(zzverif.Digits(name+".mo", md))
	l.raw(sep)
	l.raw(zzverif.Digits(name+".da", dd))
	l.lexeme(m, lfDate, c17Bit(ttDate))
}

func (l *c17Line) op(s string) {
	m := l.mark()
	l.raw(s)
	l.lexeme(m, lfOp, c17Bit(ttOperator))
}

func (l *c17Line) sign(ch string) {
	m := l.mark()
	l.raw(ch)
	l.lexeme(m, lfSign, 0)
}

func (l *c17Line) silent(s string) {
	m := l.mark()
	l.raw(s)
	l.lexeme(m, lfSilent, 0)
}

// tag appends WS? name ":" WS? [ value ]. full: all blank / length variants.
func (l *c17Line) tag(tn string, ci, n int, full bool) {
	lead, gap, nlen, vn := 1, 0, 1, 1
	if full {
		lead = zzverif.Choice(tn+".lead", 2)
		nlen = 1 + zzverif.Choice(tn+".nlen", 2)
		gap = zzverif.Choice(tn+".gap", 2)
		vn = zzverif.Choice(tn+".vlen", n+1)
	}
	l.spaces(lead)
	tm := l.mark()
	l.slots(tn+".name", nlen, c17NameA, c17NameA, c17NameA, true)
	l.raw(":")
	ti := l.lexeme(tm, lfTagName, c17Bit(ttTag))
	l.lex[ti].comment = ci
	l.spaces(gap)
	if vn > 0 {
		vm := l.mark()
		l.slots(tn+".value", vn, c17ValueEnd, c17ValueA, c17ValueEnd, false)
		vi := l.lexeme(vm, lfTagValue, c17Bit(ttTagValue))
		l.lex[vi].comment = ci
	}
}

// comment appends ";" comment. kind: 0 empty, 1 free text (n slots), 2 one tag,
// 3 free text (1 slot) "," tag, 4 tag "," tag (the second in its plainest form),
// 5 two tags, the first one's value containing the second one's name and a colon.
func (l *c17Line) comment(name string, kind, n int, full bool) {
	m := l.mark()
	l.raw(";")
	ci := l.lexeme(m, lfComment, c17Bit(ttComment))
	switch kind {
	case 1:
		l.slots(name+".free", 1+zzverif.Choice(name+".flen", n), c17FreeA, c17FreeA, c17FreeA, false)
	case 2:
		l.tag(name+".tag0", ci, n, full)
	case 3:
		l.slots(name+".free", 1, c17FreeA, c17FreeA, c17FreeA, false)
		l.raw(",")
		l.tag(name+".tag0", ci, n, full)
	case 4:
		l.tag(name+".tag0", ci, n, full)
		l.raw(",")
		l.tag(name+".tag1", ci, n, false)
	case 5:
		// the first tag's value mentions the second tag's name followed by a colon
		l.spaces(1)
		for _, part := range [][2]string{{"n:", "see r:"}, {"r:", "42"}} {
			tm := l.mark()
			l.raw(part[0])
			ti := l.lexeme(tm, lfTagName, c17Bit(ttTag))
			l.lex[ti].comment = ci
			vm := l.mark()
			l.raw(part[1])
			vi := l.lexeme(vm, lfTagValue, c17Bit(ttTagValue))
			l.lex[vi].comment = ci
			if part[0] == "n:" {
				l.raw(",")
				l.spaces(1)
			}
		}
	}
	// the comment lexeme runs to the end of the line content
	l.lex[ci].b1, l.lex[ci].u1 = l.b, l.u
}

func (l *c17Line) number(name string, forms int) {
	m := l.mark()
	switch zzverif.Choice(name+".form", forms) {
	case 0:
		l.raw(zzverif.Digits(name+".i", 2))
	case 1:
		l.raw(zzverif.Digits(name+".i", 1))
		l.raw(".")
		l.raw(zzverif.Digits(name+".f", 2))
	case 2:
		l.raw(zzverif.Digits(name+".i", 1))
		l.raw(",")
		l.raw(zzverif.Digits(name+".g", 3))
		l.raw(".")
		l.raw(zzverif.Digits(name+".f", 2))
	case 3:
		l.raw(zzverif.Digits(name+".i", 1))
		l.raw(" ")
		l.raw(zzverif.Digits(name+".g", 3))
	default:
		l.raw(zzverif.Digits(name+".i", 1))
		l.raw("E")
		l.raw([]string{"", "+", "-"}[zzverif.Choice(name+".esign", 3)])
		l.raw(zzverif.Digits(name+".e", 1))
	}
	l.lexeme(m, lfNumber, c17Bit(ttAmount))
}

// symbol appends a commodity symbol. which: 0 "$", 1 "€", 2 CODE, 3 quoted, 4 lower-case name
func (l *c17Line) symbol(name string, which, n int) {
	m := l.mark()
	switch which {
	case 0:
		l.raw("$")
		l.lexeme(m, lfCommodity, c17Bit(ttCommodity))
	case 1:
		l.wide(1)
		l.lexeme(m, lfCommodity, c17Bit(ttCommodity))
	case 2:
		k := 1 + zzverif.Choice(name+".len", n)
		l.raw(zzverif.Text(name+".code", zzverif.Upper, k))
		l.lexeme(m, lfCommodity, c17Bit(ttCommodity))
	case 3:
		l.raw("\"")
		l.slots(name+".q", 1+zzverif.Choice(name+".len", n), c17QuotedEnd, c17QuotedA, c17QuotedEnd, false)
		l.raw("\"")
		l.lexeme(m, lfQuoted, c17Bit(ttCommodity))
	default:
		k := 1 + zzverif.Choice(name+".len", n)
		l.raw(zzverif.Text(name+".lower", zzverif.Lower, k))
		l.lexeme(m, lfLower, c17Bit(ttCommodity))
	}
}

// amount := [sign] symL [sign] number | [sign] number [ SP? symR ]
// level 0: three representative forms; 1: all symbol kinds; 2: also sign positions and
// every number notation
func (l *c17Line) amount(name string, n, level int) {
	nforms := 2
	if level == 2 {
		nforms = 5
	}
	if level == 0 {
		switch zzverif.Choice(name+".rep", 3) {
		case 0:
			l.number(name+".num", 1)
		case 1:
			l.symbol(name+".sym", zzverif.Choice(name+".symL", 2), 1)
			l.number(name+".num", 1)
		default:
			l.number(name+".num", 1)
			l.raw(" ")
			l.symbol(name+".sym", 2, n)
		}
		return
	}
	form := zzverif.Choice(name+".form", 3)       // 0 bare number, 1 left symbol, 2 right symbol
	sign := zzverif.Choice(name+".sign", 1+level) // 0 none, 1 sign first, 2 sign between symbol and number
	sch := "-"
	if level == 2 && sign > 0 {
		sch = []string{"-", "+"}[zzverif.Choice(name+".signch", 2)]
	}
	if sign == 1 {
		l.sign(sch)
	}
	switch form {
	case 0:
		zzverif.Assume(sign < 2)
		l.number(name+".num", nforms)
	case 1:
		l.symbol(name+".sym", zzverif.Choice(name+".symL", 4), n)
		if sign == 2 {
			l.sign(sch)
		} else if level == 2 {
			l.spaces(zzverif.Choice(name+".lsp", 2)) // symL SP number
		}
		l.number(name+".num", nforms)
	default:
		zzverif.Assume(sign < 2)
		l.number(name+".num", nforms)
		l.spaces(zzverif.Choice(name+".sp", 2))
		l.symbol(name+".sym", zzverif.Choice(name+".symR", 5), n)
	}
}

// account := seg ( ":" seg )+ ; the first segment has n0 slots choices 1..n, later ones 1..n
func (l *c17Line) account(name string, segs, n int, first string) {
	m := l.mark()
	for s := 0; s < segs; s++ {
		if s > 0 {
			l.raw(":")
		}
		f := c17SegA
		if s == 0 {
			f = first
		}
		k := 1
		if n > 1 {
			k = 1 + zzverif.Choice(name+".len"+zzverif.Itoa(s), n)
		}
		// an account that is to start with a letter does not start with € or 😀 either (scenario 5 does)
		l.letterFirst = s == 0 && first == zzverif.Letters
		l.slots(name+".seg"+zzverif.Itoa(s), k, f, c17SegMid, c17SegA, false)
		l.letterFirst = false
	}
	l.lexeme(m, lfAccount, c17Bit(ttAccount))
}

// plainAccount: "x:y" with two symbolic letters, no wide character
func (l *c17Line) plainAccount(name string) { l.plainAccountEnd(name, zzverif.Letters) }

// plainAccountEnd: "x:y", x a letter, y from the given alphabet
func (l *c17Line) plainAccountEnd(name, last string) {
	m := l.mark()
	l.sym(name+".0", zzverif.Letters)
	l.raw(":")
	l.sym(name+".1", last)
	l.lexeme(m, lfAccount, c17Bit(ttAccount))
}

func (l *c17Line) status(st int) {
	m := l.mark()
	l.raw([]string{"*", "!"}[st-1])
	l.lexeme(m, lfStatus, c17Bit(ttStatus))
}

func (l *c17Line) directive(word string) {
	m := l.mark()
	l.raw(word)
	l.lexeme(m, lfDirective, c17Bit(ttDirective))
}

func (l *c17Line) textLeaf(name string, leaf int, kinds uint32, n int) {
	m := l.mark()
	l.slots(name, n, c17DescFirst, c17Desc, c17DescLast, false)
	l.lexeme(m, leaf, kinds)
}

// plainText: lower-case letters only (always lexed as one text token), may take the wide character
func (l *c17Line) plainText(name string, leaf int, kinds uint32, n int) {
	m := l.mark()
	l.slots(name, n, zzverif.Lower, zzverif.Lower, zzverif.Lower, false)
	l.lexeme(m, leaf, kinds)
}

func (l *c17Line) fixedDate() {
	m := l.mark()
	l.raw("2024-01-15")
	l.lexeme(m, lfDate, c17Bit(ttDate))
}

func (l *c17Line) indent(k int) {
	if k == 0 {
		l.raw("\t")
	} else {
		l.spaces(k)
	}
}

// ---- the scenarios: each varies one part of a line of G and keeps the rest plain ----

const c17Scenarios = 13

// c17Scenario builds the line under test; it returns the lines that precede it.
func c17Scenario(l *c17Line, sc, n int, long bool) []*c17Line {
	var before []*c17Line
	ws := func(name string) { // long: one or two blanks (a run of two blanks ends the lexer's look-aheads)
		if long {
			l.spaces(1 + zzverif.Choice(name, 2))
		} else {
			l.spaces(1)
		}
	}
	both := c17Bit(ttPayee) | c17Bit(ttString)
	switch sc {
	case 0: // header: date forms, secondary date, status, code; then a plain description
		// long: either every date form with a plain rest, or one date form with every rest
		dates := long && zzverif.Choice("focus", 2) == 0
		if dates {
			long = false
		}
		l.date("d1", dates)
		if zzverif.Choice("date2", 2) == 1 {
			l.op("=")
			l.date("d2", false)
		}
		if st := zzverif.Choice("status", 3); st > 0 {
			ws("status.ws")
			l.status(st)
		}
		if !dates && zzverif.Choice("code", 2) == 1 {
			ws("code.ws")
			m := l.mark()
			l.raw("(")
			// a ':' in the code is a concrete choice (the lexer then takes the content for a
			// posting: the other characters are kept plain to bound its case splits)
			k := zzverif.Choice("code.len", n+1)
			colon := zzverif.Choice("code.colon", k+1) - 1
			if colon < 0 {
				l.slots("code", k, c17CodeNoColon, c17CodeNoColon, c17CodeNoColon, false)
			} else {
				l.noWide = true
				for i := 0; i < k; i++ {
					if i == colon {
						l.raw(":")
					} else {
						l.sym("code.p"+zzverif.Itoa(i), zzverif.Letters+zzverif.Digit+" ")
					}
				}
			}
			l.raw(")")
			l.lexeme(m, lfCode, c17Bit(ttCode))
		}
		if zzverif.Choice("desc", 2) == 1 {
			ws("desc.ws")
			l.noWide = true
			l.plainText("desc", lfDesc, both, 1)
		}
	case 1: // header: the description, fully symbolic; optional plain comment
		l.fixedDate()
		ws("desc.ws")
		l.textLeaf("desc", lfDesc, both, 1+zzverif.Choice("desc.len", n))
		if zzverif.Choice("hc", 2) == 1 {
			l.spaces(zzverif.Choice("hc.ws", 2))
			l.noWide = true
			l.noCRLF = true // comments at a CRLF line end: scenarios 3, 8, 11
			l.comment("hc", 1, 1, false)
		}
	case 2: // header: payee | note
		l.fixedDate()
		l.spaces(1)
		pl := zzverif.Choice("payee.len", 2)
		l.plainText("payee", lfPayee, c17Bit(ttPayee), 1+pl)
		l.raw(" ")
		pm := l.mark()
		l.raw("|")
		l.lexeme(pm, lfPipe, c17Bit(ttOperator))
		l.raw(" ")
		nn := n
		if pl > 0 && nn > 2 { // the longest note only after the shortest payee
			nn = 2
		}
		l.textLeaf("note", lfNote, c17Bit(ttString), 1+zzverif.Choice("note.len", nn))
		if zzverif.Choice("hc", 2) == 1 {
			l.spaces(1)
			l.noWide = true
			l.noCRLF = true
			l.comment("hc", 1, 1, false)
		}
	case 3: // header comment with tags
		l.fixedDate()
		if zzverif.Choice("desc", 2) == 1 {
			l.spaces(1)
			l.plainText("desc", lfDesc, both, 1)
		}
		l.spaces(zzverif.Choice("hc.ws", 3))
		l.comment("hc", zzverif.Choice("hc.kind", 6), 2, false) // every tag variant: scenario 8
	case 4: // posting: indentation and account text, then a plain amount
		l.indent([]int{0, 1, 2, 4, 8}[zzverif.Choice("indent", 5)])
		first := zzverif.Letters // other first characters: scenario 5 (and the non-letters € 😀 here)
		if long && zzverif.Choice("segs", 2) == 1 {
			l.account("acct", 3, 1, first) // three segments of one character
		} else {
			l.account("acct", 2, n, first)
		}
		if zzverif.Choice("amount", 2) == 1 {
			l.spaces(2)
			l.number("num", 1)
			l.raw(" ")
			l.symbol("sym", 2, 1)
		}
	case 5: // posting: status mark and virtual forms
		l.indent(4)
		if st := zzverif.Choice("status", 3); st > 0 {
			l.status(st)
			l.raw(" ")
		}
		virt := zzverif.Choice("virtual", 3)
		if virt > 0 {
			l.silent([]string{"(", "["}[virt-1])
		}
		l.account("acct", 2, 1, c17SegFirst)
		if virt > 0 {
			l.silent([]string{")", "]"}[virt-1])
		}
		if zzverif.Choice("amount", 2) == 1 {
			l.spaces(2)
			l.number("num", 1)
		}
	case 6: // posting: the amount in every form; the account may end in a digit
		l.indent(4)
		l.plainAccountEnd("acct", zzverif.Letters+zzverif.Digit)
		if long {
			l.spaces(2 + zzverif.Choice("gap", 2))
		} else {
			l.spaces(2)
		}
		lvl := 1
		if long {
			lvl = 2
		}
		l.amount("amt", 2, lvl)
		if zzverif.Choice("pc", 2) == 1 {
			l.spaces(zzverif.Choice("pc.ws", 2))
			l.noWide = true
			l.noCRLF = true
			l.comment("pc", 1, 1, false)
		}
	case 7: // posting: cost and balance assertion
		l.indent(4)
		l.plainAccount("acct")
		l.spaces(2)
		l.amount("amt", 1, 0)
		c := zzverif.Choice("cost", 3)
		a := zzverif.Choice("assert", 3)
		// long: every symbol kind in the cost when there is no assertion, and vice versa
		lvl, lvlBal := 0, 0
		if long && a == 0 {
			lvl = 1
		}
		if long && c == 0 {
			lvlBal = 1
		}
		if c > 0 {
			g := 1
			if long {
				g = 1 + zzverif.Choice("cost.ws", 2) // the same number of blanks on both sides
			}
			l.spaces(g)
			if c == 1 {
				l.op("@")
			} else {
				l.op("@@")
			}
			l.spaces(g)
			l.amount("cost", 2, lvl)
		}
		if a > 0 {
			g := 1
			if long {
				g = 1 + zzverif.Choice("bal.ws", 2)
			}
			l.spaces(g)
			if a == 1 {
				l.op("=")
			} else {
				l.op("==")
			}
			l.spaces(g)
			l.amount("bal", 2, lvlBal)
		}
	case 8: // posting comment: free text and tags in every form
		l.indent(4)
		l.plainAccount("acct")
		l.spaces(zzverif.Choice("pc.ws", 3))
		kind := zzverif.Choice("pc.kind", 6)
		// quick: every blank / length variant of a single tag; two-part comments in their plainest form
		if kind <= 2 {
			l.comment("pc", kind, n, true)
		} else {
			l.noCRLF = true
			l.comment("pc", kind, 1, long)
		}
	case 9: // account / include / year directives, also after other lines
		switch zzverif.Choice("before", 3) {
		case 1:
			before = append(before, &c17Line{})
		case 2:
			h := &c17Line{noWide: true}
			h.fixedDate()
			before = append(before, h)
		}
		switch zzverif.Choice("directive", 3) {
		case 0:
			l.directive("account")
			l.raw(" ")
			l.noWide = !long // other first characters: scenarios 4 (long) and 5
			l.account("acct", 2, 2, zzverif.Letters)
			l.noWide = false
			if k := zzverif.Choice("ac.kind", 3); k > 0 {
				l.spaces(2)
				l.noCRLF = long // (quick: CRLF after every kind of line end)
				l.comment("ac", k, 1, false)
			}
		case 1:
			l.directive("include")
			l.raw(" ")
			m := l.mark()
			l.slots("path", 1+zzverif.Choice("path.len", 3), c17PathA, c17PathA, c17PathA, false)
			l.lexeme(m, lfPath, c17Bit(ttString))
		default:
			l.directive([]string{"Y", "year"}[zzverif.Choice("yword", 2)])
			l.raw(" ")
			m := l.mark()
			l.raw(zzverif.Digits("year", 4))
			l.lexeme(m, lfYear, c17Bit(ttDate)|c17Bit(ttAmount))
		}
	case 10: // commodity / D / P directives
		nforms := 2
		if long {
			nforms = 5
		}
		switch zzverif.Choice("directive", 3) {
		case 0:
			l.directive("commodity")
			l.raw(" ")
			switch zzverif.Choice("cform", 3) {
			case 0:
				l.symbol("sym", zzverif.Choice("symL", 4), n)
				l.number("num", nforms)
			case 1:
				l.number("num", nforms)
				l.raw(" ")
				l.symbol("sym", zzverif.Choice("symR", 5), n)
			default:
				l.symbol("sym", zzverif.Choice("symR", 5), n)
			}
		case 1:
			l.directive("D")
			l.raw(" ")
			if zzverif.Choice("dform", 2) == 0 {
				l.symbol("sym", zzverif.Choice("symL", 4), n)
				l.number("num", nforms)
			} else {
				l.number("num", nforms)
				l.raw(" ")
				l.symbol("sym", zzverif.Choice("symR", 5), n)
			}
		default:
			l.directive("P")
			l.raw(" ")
			l.date("pd", long)
			l.raw(" ")
			l.symbol("psym", zzverif.Choice("psymk", 5), n)
			l.raw(" ")
			l.amount("pamt", 1, 0)
		}
	case 11: // full-line and indented comment lines
		if zzverif.Choice("indented", 2) == 1 {
			l.indent([]int{0, 2, 4}[zzverif.Choice("indent", 3)])
		}
		l.comment("lc", zzverif.Choice("lc.kind", 6), 2, false) // every tag variant: scenario 8
	default: // a small transaction; every line takes part (order across lines)
		l.noWide = true
		h := &c17Line{noWide: true}
		h.fixedDate()
		if st := zzverif.Choice("status", 2); st > 0 {
			h.spaces(1)
			h.status(st)
		}
		if zzverif.Choice("desc", 2) == 1 {
			h.spaces(1)
			h.plainText("desc", lfDesc, both, 1)
		}
		before = append(before, h)
		if zzverif.Choice("tcomment", 2) == 1 {
			c := &c17Line{noWide: true}
			c.indent(4)
			c.comment("tc", 2, 1, false)
			before = append(before, c)
		}
		p := &c17Line{noWide: true}
		p.indent(4)
		p.plainAccount("p1")
		p.spaces(2)
		p.amount("p1amt", 1, 0)
		before = append(before, p)
		l.indent(4)
		l.plainAccount("p2")
		if zzverif.Choice("p2c", 2) == 1 {
			l.spaces(2)
			l.comment("p2c", 1, 1, false)
		}
	}
	return before
}

// ---------------------------------------------------------------------------------------
// The check
//
// Oracle (property text): every emitted token has a type of the legend, lies on an existing
// line, tokens are in document order and do not overlap, and each token covers exactly one
// lexeme of its kind: (col, length) == the UTF-16 span the derivation records for a lexeme
// whose kinds include the token's type.
//
// Known-finding classes are INPUT predicates: from the derivation alone every class yields
// "excuse windows" on a line — a column interval and a set of token types. A token that
// starts inside a window of an enabled class is not judged; a token inside a window of a
// class that is not enabled is judged by the same strict assertion, only the message names
// the class (so a run without classes reports the classes).
// ---------------------------------------------------------------------------------------

var c17TypeMsg = []string{
	"an account token does not cover an account lexeme",
	"a commodity token does not cover a commodity lexeme",
	"a payee token does not cover a payee lexeme",
	"a date token does not cover a date lexeme",
	"an amount token does not cover a number lexeme",
	"a tag token does not cover a tag name with its colon",
	"a directive token does not cover a directive keyword",
	"a code token does not cover a code with its parentheses",
	"a status token does not cover a status mark",
	"a comment token does not cover a comment from its semicolon",
	"a string token does not cover a text lexeme",
	"an operator token does not sit on an operator",
	"a tagValue token does not cover a tag value",
}

const (
	// the lexer chooses the token kind from the first character(s), whatever the line context
	kfTextDigit   = "c17-desc-starts-with-digit"
	kfTextBracket = "c17-desc-starts-with-bracket-or-at"
	kfTextCurr    = "c17-desc-starts-with-currency-or-quote"
	kfTextSign    = "c17-desc-starts-with-sign"
	kfTextUpper   = "c17-desc-upper-case-word"
	kfTextColon   = "c17-desc-colon-ahead-lexed-as-account"
	kfPathStar    = "c17-path-starts-with-star"
	kfCodeColon   = "c17-code-contains-colon"
	kfAcctStart   = "c17-acct-starts-with-non-letter"
	kfLowerComm   = "c17-lower-symbol-lexed-as-text"
	kfSignSymbol  = "c17-sign-before-quoted-or-spaced-symbol"
	kfCodeDigit   = "c17-code-number-after-digit"
	kfCRLF        = "c17-crlf"
	// token geometry proper
	kfAstral    = "c17-column-in-runes-after-astral"
	kfTagBytes  = "c17-tag-geometry-in-bytes"
	kfCodeParen = "c17-code-token-without-parentheses"
	kfQuoted    = "c17-quoted-commodity-token-without-quotes"
	kfPipe      = "c17-pipe-token-one-column-right"
	kfPayeeLeak = "c17-payee-type-leaks-to-later-line"
)

var c17ClassMsg = map[string]string{
	kfTextDigit:   "[c17-desc-starts-with-digit] a description / note / include path that starts with a digit is lexed as a number or date; its tokens do not cover it",
	kfTextBracket: "[c17-desc-starts-with-bracket-or-at] a description / note that starts with ) [ ] or @ is lexed as a bracket / operator; its tokens do not cover it",
	kfTextCurr:    "[c17-desc-starts-with-currency-or-quote] a description / payee / note that starts with a currency sign or a double quote is lexed as a commodity; its tokens do not cover it",
	kfTextSign:    "[c17-desc-starts-with-sign] a description / note / include path that starts with a sign followed by a digit, currency sign or CODE+digit is lexed as a sign; its tokens do not cover it",
	kfTextUpper:   "[c17-desc-upper-case-word] a description / note / include path whose first word is upper-case letters and digits is lexed as a commodity; its tokens do not cover it",
	kfTextColon:   "[c17-desc-colon-ahead-lexed-as-account] a description / note that starts with a letter and has a ':' ahead is lexed as an account; its tokens do not cover it",
	kfPathStar:    "[c17-path-starts-with-star] an include path that starts with '*' is lexed as a status mark",
	kfCodeColon:   "[c17-code-contains-colon] a transaction code that contains ':' is lexed as a virtual account",
	kfAcctStart:   "[c17-acct-starts-with-non-letter] an account name that does not start with a letter is not lexed as an account",
	kfLowerComm:   "[c17-lower-symbol-lexed-as-text] a lower-case commodity symbol is lexed as free text (up to the comment) and typed string / payee",
	kfSignSymbol:  "[c17-sign-before-quoted-or-spaced-symbol] a sign directly before a quoted commodity or before CODE+blank is lexed as free text together with the amount",
	kfCodeDigit:   "[c17-code-number-after-digit] CODE directly followed by its number, after something that ends in a digit: the digits are taken into the commodity token",
	kfCRLF:        "[c17-crlf] with CRLF line ends the carriage return is part of a comment token or forms an empty text token",
	kfAstral:      "[c17-column-in-runes-after-astral] a token after an astral character on its line: the column counts runes, not UTF-16 code units",
	kfTagBytes:    "[c17-tag-geometry-in-bytes] a tag / tag value at or after a multi-byte character of its comment is positioned and sized in bytes, not UTF-16 code units",
	kfCodeParen:   "[c17-code-token-without-parentheses] a code token is two units short (its length is that of the text between the parentheses)",
	kfQuoted:      "[c17-quoted-commodity-token-without-quotes] a quoted commodity token is two units short (its length is that of the text between the quotes)",
	kfPipe:        "[c17-pipe-token-one-column-right] the '|' token is reported one column after the bar",
	kfPayeeLeak:   "[c17-payee-type-leaks-to-later-line] an include path is typed payee because an earlier transaction header had no description",
}

// ---- input predicates (mirrors of the first-character dispatch of lexer.go scanInLine) ----

func c17IsDigit(b byte) bool  { return b >= '0' && b <= '9' }
func c17IsUpper(b byte) bool  { return b >= 'A' && b <= 'Z' }
func c17IsLetter(b byte) bool { return (b >= 'a' && b <= 'z') || (b >= 'A' && b <= 'Z') }

// c17LetterAt: the character at off is a letter (ASCII or not).
func c17LetterAt(text string, off int) bool {
	if off >= len(text) {
		return false
	}
	if b := text[off]; b < 0x80 {
		return c17IsLetter(b)
	}
	r, _ := utf8.DecodeRuneInString(text[off:])
	return unicode.IsLetter(r)
}

// c17CurrencyAt: the character at off is one of the currency signs $ € £ ¥ ₽ ₴.
func c17CurrencyAt(text string, off int) bool {
	if off >= len(text) {
		return false
	}
	if b := text[off]; b < 0x80 {
		return b == '$'
	}
	r, _ := utf8.DecodeRuneInString(text[off:])
	return r == '€' || r == '£' || r == '¥' || r == '₽' || r == '₴'
}

// c17ColonAhead: a ':' occurs at or after off, before the next  ; @ = ( ) [ ]  tab, CR, line
// end or run of two blanks.
func c17ColonAhead(text string, off int) bool {
	for i := off; i < len(text); i++ {
		switch text[i] {
		case ':':
			return true
		case ' ':
			if i+1 < len(text) && text[i+1] == ' ' {
				return false
			}
		case '\t', '\n', '\r', ';', '@', '=', '(', ')', '[', ']':
			return false
		}
	}
	return false
}

// c17PrevIsDigit: the last non-blank character before off is a digit.
func c17PrevIsDigit(text string, off int) bool {
	p := off - 1
	for p >= 0 && text[p] == ' ' {
		p--
	}
	return p >= 0 && c17IsDigit(text[p])
}

func c17DigitOrSignedDigitAt(text string, off int) bool {
	if off >= len(text) {
		return false
	}
	if c17IsDigit(text[off]) {
		return true
	}
	return (text[off] == '-' || text[off] == '+') && off+1 < len(text) && c17IsDigit(text[off+1])
}

// c17UpperWordAt: the word at off reads like a commodity code: its leading run of ASCII letters
// and digits consists of upper-case letters and digits only; or, when the word does not follow
// a digit, its leading upper-case letters are directly followed by a digit or a signed digit.
func c17UpperWordAt(text string, off int) bool {
	if off >= len(text) || !c17IsUpper(text[off]) {
		return false
	}
	i := off
	for i < len(text) && c17IsUpper(text[i]) {
		i++
	}
	if i < len(text) && c17IsLetter(text[i]) {
		return false
	}
	if !c17PrevIsDigit(text, off) && c17DigitOrSignedDigitAt(text, i) {
		return true
	}
	for i < len(text) && (c17IsLetter(text[i]) || c17IsDigit(text[i])) {
		if !c17IsUpper(text[i]) && !c17IsDigit(text[i]) {
			return false
		}
		i++
	}
	return true
}

// c17SignedAt: a sign at off that is directly followed by a digit, a currency sign, or letters
// that are directly followed by a digit or a signed digit.
func c17SignedAt(text string, off int) bool {
	if off+1 >= len(text) || (text[off] != '-' && text[off] != '+') {
		return false
	}
	if c17IsDigit(text[off+1]) || c17CurrencyAt(text, off+1) {
		return true
	}
	i := off + 1
	for i < len(text) && c17IsLetter(text[i]) {
		i++
	}
	return i > off+1 && c17DigitOrSignedDigitAt(text, i)
}

// c17TextLeafClass: the class of a free-text leaf (description, payee, note, include path)
// that starts at byte off of the line; "" = the leaf is free text for the lexer too.
func c17TextLeafClass(text string, off int, path bool) string {
	b := text[off]
	switch {
	case c17IsDigit(b):
		return kfTextDigit
	case b == ')' || b == '[' || b == ']' || b == '@':
		return kfTextBracket
	case b == '"' || c17CurrencyAt(text, off):
		return kfTextCurr
	case path && b == '*':
		return kfPathStar
	case b == '-' || b == '+':
		if c17SignedAt(text, off) {
			return kfTextSign
		}
	case c17LetterAt(text, off):
		if c17ColonAhead(text, off) {
			return kfTextColon
		}
		if c17UpperWordAt(text, off) {
			return kfTextUpper
		}
	}
	return ""
}

// ---- excuse windows ----

const c17ToEOL = 1 << 30
const c17AnyKind = uint32(1)<<(ttTagValue+1) - 1

type c17Window struct {
	class  string
	lo, hi int    // columns (inclusive) in which a token may start
	kinds  uint32 // token types concerned
}

func c17IsTextLeaf(leaf int) bool {
	return leaf == lfDesc || leaf == lfPayee || leaf == lfNote || leaf == lfPath
}

// c17PayeePending: a transaction header before line li has no text lexeme, and no text-like
// lexeme stands between it and line li (the tokeniser's payee flag is still set).
func c17PayeePending(lines []*c17Line, li int) bool {
	pending := false
	for j := 0; j < li; j++ {
		l := lines[j]
		if len(l.lex) > 0 && l.lex[0].leaf == lfDate {
			pending = true
		}
		for _, x := range l.lex {
			if c17IsTextLeaf(x.leaf) || x.leaf == lfLower {
				pending = false
			}
		}
	}
	return pending
}

func c17LineWindows(lines []*c17Line, li int, crlf bool) []c17Window {
	l := lines[li]
	var ws []c17Window
	// 1. leaves that the lexer does not take for what they are: from the leaf to the line end
	for j, x := range l.lex {
		switch {
		case x.leaf == lfPath:
			// (header text - description, payee, note - is scanned as free text since the lexer's
			// header mode; the first-character dispatch still applies to an include path)
			if c := c17TextLeafClass(l.text, x.b0, true); c != "" {
				ws = append(ws, c17Window{c, x.u0, c17ToEOL, c17AnyKind})
			}
		case x.leaf == lfCode:
			colon := false
			for i := x.b0 + 1; i < x.b1-1; i++ {
				colon = colon || l.text[i] == ':'
			}
			_ = colon // a code with a colon is a code since the lexer's header mode
		case x.leaf == lfAccount:
			if !c17LetterAt(l.text, x.b0) {
				ws = append(ws, c17Window{kfAcctStart, x.u0, c17ToEOL, c17AnyKind})
			}
		case x.leaf == lfLower:
			ws = append(ws, c17Window{kfLowerComm, x.u0, x.u0, c17AnyKind})
		case x.leaf == lfSign:
			if !c17SignedAt(l.text, x.b0) {
				ws = append(ws, c17Window{kfSignSymbol, x.u0, x.u0, c17AnyKind})
			}
		case x.leaf == lfCommodity && c17IsUpper(l.text[x.b0]):
			if j+1 < len(l.lex) && l.lex[j+1].leaf == lfNumber && l.lex[j+1].b0 == x.b1 && c17PrevIsDigit(l.text, x.b0) {
				ws = append(ws, c17Window{kfCodeDigit, x.u0, c17ToEOL, c17AnyKind})
			}
		}
	}
	// 2. every token after an astral character (the emitted column is the rune column)
	for _, w := range l.wides {
		if c17WideU16[w.k] == 2 {
			ws = append(ws, c17Window{kfAstral, w.r + 1, c17ToEOL, c17AnyKind})
			break
		}
	}
	// 3. tags at or after the first multi-byte character of their comment
	for ci, x := range l.lex {
		if x.leaf != lfComment {
			continue
		}
		for _, w := range l.wides {
			if w.b < x.b0 {
				continue
			}
			from := w.u
			for _, y := range l.lex {
				if y.comment == ci && y.u0 <= w.u && w.u < y.u1 {
					from = y.u0
				}
			}
			ws = append(ws, c17Window{kfTagBytes, from, c17ToEOL, c17Bit(ttTag) | c17Bit(ttTagValue)})
			break
		}
	}
	// 4. CRLF: the comment that ends the line; an empty token at the carriage return
	if crlf {
		for _, x := range l.lex {
			if x.leaf == lfComment {
				ws = append(ws, c17Window{kfCRLF, x.u0, x.u0, c17Bit(ttComment)})
			}
		}
		ws = append(ws, c17Window{kfCRLF, l.u, l.u, c17AnyKind})
	}
	// 5. delimiters
	for _, x := range l.lex {
		switch x.leaf {
		case lfPipe:
			ws = append(ws, c17Window{kfPipe, x.u0, x.u0 + 1, c17Bit(ttOperator)})
		case lfCode:
			ws = append(ws, c17Window{kfCodeParen, x.u0, x.u0, c17Bit(ttCode)})
		case lfQuoted:
			ws = append(ws, c17Window{kfQuoted, x.u0, x.u0, c17Bit(ttCommodity)})
		case lfPath:
			if c17PayeePending(lines, li) {
				ws = append(ws, c17Window{kfPayeeLeak, x.u0, x.u0, c17Bit(ttPayee)})
			}
		}
	}
	return ws
}

// c17Covers: the token has the span of a lexeme whose kinds include the token's type.
func c17Covers(l *c17Line, typ uint32, col, length int) bool {
	for _, x := range l.lex {
		if x.kinds&c17Bit(typ) != 0 && x.u0 == col && x.u1-x.u0 == length {
			return true
		}
	}
	return false
}

func c17CheckTokens(lines []*c17Line, eol string, toks []semanticToken) {
	crlf := eol == "\r\n"
	curLine := -1
	var wins []c17Window
	prevExcused := false
	for i, t := range toks {
		zzverif.Assert(t.tokenType <= ttTagValue, "token type outside the advertised legend")
		zzverif.Assert(t.modifiers < 4, "token modifier outside the advertised legend")
		zzverif.Assert(int(t.line) < len(lines), "token on a line that does not exist")
		if i > 0 {
			p := toks[i-1]
			zzverif.Assert(t.line > p.line || (t.line == p.line && t.col >= p.col), "tokens are not in document order (relative encoding underflows)")
		}
		if int(t.line) != curLine {
			curLine = int(t.line)
			wins = c17LineWindows(lines, curLine, crlf)
			prevExcused = true // nothing to overlap with on this line yet
		}
		l := lines[curLine]
		col, length := int(t.col), int(t.length)
		excused, disabled := false, ""
		for _, w := range wins {
			if col < w.lo || col > w.hi || w.kinds&c17Bit(t.tokenType) == 0 {
				continue
			}
			if zzverif.Known(w.class) {
				zzverif.Reach("kf:" + w.class)
				excused = true
				break
			}
			if disabled == "" {
				disabled = w.class
			}
		}
		if excused {
			prevExcused = true
			continue
		}
		msg := c17TypeMsg[t.tokenType]
		if disabled != "" {
			msg = c17ClassMsg[disabled]
		}
		zzverif.Assert(c17Covers(l, t.tokenType, col, length), msg)
		zzverif.Assert(col+length <= l.u, "token extends beyond its line")
		if !prevExcused {
			p := toks[i-1]
			zzverif.Assert(int(p.col+p.length) <= col, "tokens overlap")
		}
		prevExcused = false
	}
}

// verifC17Geo: one scenario; the document is the lines before + the line under test, each
// ended by the same EOL. Every line's tokens are checked.
func verifC17Geo(long bool, n int, sc int) {
	l := &c17Line{}
	before := c17Scenario(l, sc, n, long)
	eol := "\n"
	// CRLF line ends: on the scenarios whose lines end in different kinds of leaf
	if (long || sc == 0 || sc == 5 || sc == 9 || sc == 11 || sc == 12) && !l.noCRLF && zzverif.Choice("crlf", 2) == 1 {
		eol = "\r\n"
	}
	lines := append(before, l)
	doc := ""
	for _, x := range lines {
		doc += x.text + eol
	}
	toks := tokenizeForSemantics(doc)
	c17CheckTokens(lines, eol, toks)
	// the encoder reproduces the stream (no modular underflow on the real stream)
	back, ok := c17Decode(encodeTokens(toks))
	zzverif.Assert(ok && len(back) == len(toks), "encoded stream decodes")
	same := true
	for i := range toks {
		same = same && back[i] == toks[i]
	}
	zzverif.Assert(same, "decode(encode(stream)) differs from the token stream")
	zzverif.Reach("C17.geometry.s" + zzverif.Itoa(sc))
}

func VerifC17Geometry()     { verifC17Geo(false, 2, zzverif.Choice("scenario", c17Scenarios)) }
func VerifC17GeometryLong() { verifC17Geo(true, 3, zzverif.Choice("scenario", c17Scenarios)) }
