//go:build verif

package server

// C06 for the one request whose answer depends on an EARLIER request: semantic tokens delta.
// (a) computeSemanticTokensEdits returns for arbitrary previous / current arrays (symbolic
// numbers, 0..3 tokens each): no slice expression, conversion or index of the diff goes out of
// range. (b) the request path: open, full request, a change that deletes / inserts / repeats
// lines of equal shape, delta request with the current id - returns on every such history.
// What the edits must CONTAIN is C17's subject (VerifC17Edits); here only totality is decided.

import (
	"context"

	"go.lsp.dev/protocol"

	"github.com/juev/hledger-lsp/internal/zzverif"
)

func init() {
	zzverif.Register("VerifC06Delta", VerifC06Delta)
	zzverif.Register("VerifC06DeltaLong", VerifC06DeltaLong)
}

// lines of a journal with stretches of equally laid out lines (equal relative encodings)
var c06DeltaLines = []string{
	"2024-01-15 x\n",
	"    a:b  1 USD\n",
	"    a:b  1 USD\n",
	"    c:d\n",
	"; c\n",
	"; c\n",
}

func verifC06Delta(nLines int) {
	ctx := context.Background()
	// before / after: each line of the stretch is kept or dropped, independently
	before, after := "", ""
	for i := 0; i < nLines; i++ {
		ln := c06DeltaLines[i%len(c06DeltaLines)]
		k := zzverif.Choice("line"+zzverif.Itoa(i), 3) // 0 in both, 1 only before, 2 only after
		if k != 2 {
			before += ln
		}
		if k != 1 {
			after += ln
		}
	}
	s := NewServer()
	uri := protocol.DocumentURI("file:///w/delta.journal")
	tokenCache.mu.Lock()
	tokenCache.cache = make(map[protocol.DocumentURI]*cachedSemanticTokens)
	tokenCache.mu.Unlock()
	s.StoreDocument(uri, before)
	full, _ := s.SemanticTokensFull(ctx, &protocol.SemanticTokensParams{TextDocument: protocol.TextDocumentIdentifier{URI: uri}})
	id := ""
	if full != nil {
		id = full.ResultID
	}
	s.StoreDocument(uri, after)
	res, _ := s.SemanticTokensFullDelta(ctx, &protocol.SemanticTokensDeltaParams{TextDocument: protocol.TextDocumentIdentifier{URI: uri}, PreviousResultID: id})
	if d, ok := res.(*protocol.SemanticTokensDelta); ok {
		zzverif.Observe("edits", len(d.Edits))
		zzverif.Reach("C06.delta.request")
	}
	zzverif.Reach("C06.delta.end")
}

func VerifC06Delta()     { verifC06Delta(4) }
func VerifC06DeltaLong() { verifC06Delta(6) }
