//go:build verif

package server

// C04 at the level of the request handler: (*Server).Format takes the display formats from the
// workspace when there is one (workspace.GetCommodityFormats: every `commodity` directive of the
// resolved root journal) and from the document otherwise, and the options from the settings.
// The edits are applied by a reference client (DESIGN §4.4), the result is parsed again and
// compared with the original: transactions, postings, exact quantities, commodities, syntax
// diagnostics. What is swept here is WHERE the format is declared; the document-level
// harnesses of package formatter sweep the shapes of amounts and of the text.

import (
	"context"
	"strings"

	"go.lsp.dev/protocol"

	"github.com/juev/hledger-lsp/internal/parser"
	"github.com/juev/hledger-lsp/internal/zzverif"
)

func init() {
	zzverif.Register("VerifC04ServerFormat", VerifC04ServerFormat)
	zzverif.Register("VerifC04ServerFormatLong", VerifC04ServerFormatLong)
}

// ---------------------------------------------------------------- reference client (§4.4)

func c04LineSpan(doc string, line uint32) (off, end int, ok bool) {
	off = 0
	for cur := uint32(0); cur < line; cur++ {
		i := strings.IndexByte(doc[off:], '\n')
		if i < 0 {
			return len(doc), len(doc), false
		}
		off += i + 1
	}
	i := strings.IndexByte(doc[off:], '\n')
	end = len(doc)
	if i >= 0 {
		end = off + i
	}
	if end > off && doc[end-1] == '\r' {
		end--
	}
	return off, end, true
}

// c04Offset maps an LSP position to a byte offset; positions past the line content clamp to its
// end (before the line terminator), lines past the last one to the end of the document.
func c04Offset(doc string, line, char uint32) (off int, inside bool) {
	start, end, ok := c04LineSpan(doc, line)
	if !ok {
		return len(doc), false
	}
	units := uint32(0)
	i := start
	for i < end && units < char {
		size := 1
		b := doc[i]
		switch {
		case b >= 0xF0:
			size = 4
		case b >= 0xE0:
			size = 3
		case b >= 0xC0:
			size = 2
		}
		if size == 4 {
			units += 2
		} else {
			units++
		}
		i += size
	}
	return i, units > char
}

func c04PosLess(a, b protocol.Position) bool {
	return a.Line < b.Line || (a.Line == b.Line && a.Character < b.Character)
}

// c04Apply applies the edits (all ranges refer to the original text) back to front; ok=false if
// an edit is not applicable (start > end, inside a surrogate pair, overlap) - the subject of C05.
func c04Apply(doc string, edits []protocol.TextEdit) (string, bool) {
	sorted := make([]protocol.TextEdit, 0, len(edits))
	for _, e := range edits {
		i := len(sorted)
		sorted = append(sorted, e)
		for i > 0 && c04PosLess(sorted[i-1].Range.Start, e.Range.Start) {
			sorted[i] = sorted[i-1]
			i--
		}
		sorted[i] = e
	}
	limit := len(doc) + 1
	for _, e := range sorted {
		s, in1 := c04Offset(doc, e.Range.Start.Line, e.Range.Start.Character)
		t, in2 := c04Offset(doc, e.Range.End.Line, e.Range.End.Character)
		if in1 || in2 || s > t || t > limit {
			return "", false
		}
		doc = doc[:s] + e.NewText + doc[t:]
		limit = s
	}
	return doc, true
}

// ---------------------------------------------------------------- derivation

func c04Zeros(n int) string { return strings.Repeat("0", n) }

// c04Lossy / c04Thousand: the class predicates of the document-level harnesses
// (harness/formatter/fmtdoc.go: fLossyNum, fThousandNum), over the digits as written.
func c04Lossy(frac string, places int) bool {
	return len(frac) > places && frac[places:] != c04Zeros(len(frac)-places)
}

func c04Thousand(ip, frac, sep string) bool {
	carry := len(frac) > 3 && frac[:3] == "999" && frac[3] >= '5'
	if ip == c04Zeros(len(ip)) && !carry {
		return false
	}
	if sep == "" || sep == " " {
		return true
	}
	n := len(ip)
	big := (n > 3 && ip[:n-3] != c04Zeros(n-3)) || (carry && n >= 3 && ip[n-3:] == "999")
	return !big
}

type c04Format struct {
	sample string
	dm     byte // 0: no decimal mark
	sep    string
	places int
}

func c04PickFormat(name string, maxPlaces int) c04Format {
	f := c04Format{}
	switch zzverif.Choice(name+".kind", 6) {
	case 0:
		f.dm, f.sep = '.', ""
	case 1:
		f.dm, f.sep = '.', ","
	case 2:
		f.dm, f.sep = ',', "."
	case 3:
		f.dm, f.sep = ',', " "
	case 4:
		f.dm, f.sep = ',', ""
	default:
		f.dm, f.sep = 0, ""
	}
	f.sample = "1" + f.sep + "000"
	if f.dm != 0 {
		f.places = zzverif.Choice(name+".places", maxPlaces+1)
		f.sample += string([]byte{f.dm}) + c04Zeros(f.places)
	}
	return f
}

// where the format is declared
const (
	c04InDoc     = iota // no workspace; `commodity` directive in the document
	c04InDocD           // no workspace; `D` directive in the document
	c04InRoot           // workspace; `commodity` directive in main.journal, which includes the document
	c04InSibling        // workspace; `commodity` directive in a sibling file included by main.journal
	c04InDocWs          // workspace; `commodity` directive in the document (included by main.journal)
	c04InRootD          // workspace; `D` directive in main.journal (the workspace ignores D directives: no format applies)
	c04Nowhere          // workspace; no format declared
	c04WhereKinds
)

func verifC04ServerFormat(long bool) {
	ctx := context.Background()
	root := zzverif.Root()
	where := zzverif.Choice("where", c04WhereKinds)
	maxPlaces := 3
	if long {
		maxPlaces = 4
	}
	f := c04PickFormat("fmt", maxPlaces)

	// the document: one transaction, the first posting in EUR with symbolic digits
	ni, nfs := 2, []int{0, 2, 4}
	if long {
		ni, nfs = 1+zzverif.Choice("ni", 4), []int{0, 2, 3, 4, 5}
	}
	nf := nfs[zzverif.Choice("nf", len(nfs))]
	ip := zzverif.Text("i0", "123456789", 1) + zzverif.Digits("i", ni-1)
	frac := zzverif.Digits("f", nf)
	num := ip
	if nf > 0 {
		num += "." + frac
	}
	if zzverif.Choice("neg", 2) == 1 {
		num = "-" + num
	}
	decl := "commodity " + f.sample + " EUR\n"
	declD := "D " + f.sample + " EUR\n"
	var doc strings.Builder
	switch where {
	case c04InDoc, c04InDocWs:
		doc.WriteString(decl + "\n")
	case c04InDocD:
		doc.WriteString(declD + "\n")
	}
	doc.WriteString("2024-01-15 " + zzverif.Text("d", zzverif.Lower, 2) + "\n")
	doc.WriteString("  a:" + zzverif.Text("acct", zzverif.Lower, 1) + "  " + num + " EUR\n")
	doc.WriteString("    b:cc\n")
	text := doc.String()
	zzverif.Observe("src", text)

	ws := where >= c04InRoot
	zzverif.WriteFile(root+"/cur.journal", text)
	if ws {
		main := "include cur.journal\n"
		switch where {
		case c04InRoot:
			main = decl + main
		case c04InRootD:
			main = declD + main
		case c04InSibling:
			zzverif.WriteFile(root+"/sib.journal", decl)
			main = "include sib.journal\n" + main
		}
		zzverif.WriteFile(root+"/main.journal", main)
	}

	s := NewServer()
	s.SetClient(&zzClient{})
	if ws {
		_, _ = s.Initialize(ctx, &protocol.InitializeParams{RootURI: protocol.DocumentURI("file://" + root)})
	} else {
		_, _ = s.Initialize(ctx, &protocol.InitializeParams{})
	}
	st := s.getSettings()
	// the options come from the settings: the defaults, or indent 7 with a minimum column
	if zzverif.Choice("opt", 2) == 1 {
		st.Formatting.IndentSize, st.Formatting.AlignAmounts, st.Formatting.MinAlignmentColumn = 7, true, 30
	}
	s.setSettings(st)
	_ = s.Initialized(ctx, &protocol.InitializedParams{})
	if zzverif.Engine() {
		for zzverif.PendingTasks() > 0 {
			zzverif.RunTask(0)
		}
	}
	uri := protocol.DocumentURI("file://" + root + "/cur.journal")
	s.StoreDocument(uri, text)

	edits, err := s.Format(ctx, &protocol.DocumentFormattingParams{TextDocument: protocol.TextDocumentIdentifier{URI: uri}})
	zzverif.Assert(err == nil, "C04: the formatting request fails")
	out, ok := c04Apply(text, edits)
	// ill-formed or overlapping edit lists are the subject of C05
	zzverif.Assume(ok)
	zzverif.Observe("out", out)

	// the format in effect, by the rule of Server.Format: workspace formats if there is a workspace
	// (commodity directives of all files of the root journal), else the document's own directives
	inEffect := where != c04InRootD && where != c04Nowhere
	if inEffect {
		zzverif.Reach("C04.server.format-in-effect")
		if zzverif.Known("c04-format-rounds-to-fewer-decimals") && c04Lossy(frac, f.places) {
			zzverif.Reach("kf:c04-format-rounds-to-fewer-decimals")
			return
		}
		if zzverif.Known("c04-format-three-decimals-read-as-thousands") && f.dm != 0 && f.places == 3 && c04Thousand(ip, frac, f.sep) {
			zzverif.Reach("kf:c04-format-three-decimals-read-as-thousands")
			return
		}
	}

	j0, e0 := parser.Parse(text)
	j1, e1 := parser.Parse(out)
	zzverif.Assert(len(e0) == len(e1), "C04: number of syntax diagnostics changes")
	zzverif.Assert(len(j0.Transactions) == 1 && len(j1.Transactions) == 1, "C04: number of transactions changes")
	zzverif.Assert(len(j0.Directives) == len(j1.Directives), "C04: number of directives changes")
	if len(j0.Transactions) == 1 && len(j1.Transactions) == 1 {
		p0, p1 := j0.Transactions[0].Postings, j1.Transactions[0].Postings
		zzverif.Assert(len(p0) == 2 && len(p1) == 2, "C04: number of postings changes")
		if len(p0) == 2 && len(p1) == 2 {
			zzverif.Assert(p0[0].Account.Name == p1[0].Account.Name && p0[1].Account.Name == p1[1].Account.Name, "C04: an account name changes")
			zzverif.Assert(p0[0].Amount != nil && p1[0].Amount != nil && p1[1].Amount == nil, "C04: a posting amount appears or disappears")
			if p0[0].Amount != nil && p1[0].Amount != nil {
				zzverif.Assert(p0[0].Amount.Quantity.Equal(p1[0].Amount.Quantity), "C04: a quantity changes")
				zzverif.Assert(p0[0].Amount.Commodity.Symbol == p1[0].Amount.Commodity.Symbol && p0[0].Amount.Commodity.Position == p1[0].Amount.Commodity.Position,
					"C04: a commodity changes")
			}
		}
	}
	// lines that are not postings are unchanged (none of them has trailing blanks)
	l0, l1 := strings.Split(text, "\n"), strings.Split(out, "\n")
	zzverif.Assert(len(l0) == len(l1), "C04: formatting changes the number of lines")
	if len(l0) == len(l1) {
		for i := range l0 {
			if !strings.HasPrefix(l0[i], " ") {
				zzverif.Assert(l0[i] == l1[i], "C04: a line that is not a posting is rewritten")
			}
		}
	}
	// the declared format is honoured where the rule says one is in effect: the number is rewritten
	// with the format's decimal mark (a cheap cross-check that the scenario exercises the format path)
	if inEffect && f.dm == ',' && f.places > 0 && len(l0) == len(l1) && !c04Lossy(frac, f.places) {
		zzverif.Assert(strings.Contains(l1[len(l1)-3], ","), "C04 (harness): the format that should be in effect is not applied")
		zzverif.Reach("C04.server.format-applied")
	}
	zzverif.Reach("C04.server.end")
}

func VerifC04ServerFormat()     { verifC04ServerFormat(false) }
func VerifC04ServerFormatLong() { verifC04ServerFormat(true) }
