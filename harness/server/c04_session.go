//go:build verif

package server

// C04 after a session: the edits of document formatting, applied to the text the client
// holds, preserve what the journal says - also when the server has been through edits,
// saves, closes, include lines going and coming, and earlier requests on two documents of one
// include tree (c01_session.go drives the session). The session's documents are tidy journals
// on which formatting may only change blanks, so the oracle is: the formatted text equals the
// buffer up to blanks, line by line.

import (
	"context"

	"go.lsp.dev/protocol"

	"github.com/juev/hledger-lsp/internal/zzverif"
)

func init() {
	zzverif.Register("VerifC04Session", VerifC04Session)
	zzverif.Register("VerifC04SessionLong", VerifC04SessionLong)
}

func c04SessSquash(text string) string {
	out := ""
	for i := 0; i < len(text); i++ {
		if text[i] != ' ' && text[i] != '\t' {
			out += string(text[i])
		}
	}
	return out
}

func verifC04Session(steps int) {
	w, _, _ := c01RunSession(steps)
	from := 0
	if w.open[1] && zzverif.Choice("from", 2) == 1 {
		from = 1
	}
	buf := w.buf[from]
	edits, err := w.s.Format(context.Background(), &protocol.DocumentFormattingParams{TextDocument: protocol.TextDocumentIdentifier{URI: w.uri(from)}})
	zzverif.Assert(err == nil, "C04: formatting fails on a tidy journal")
	// apply from the last edit to the first (the formatter emits them in document order)
	out := buf
	for i := len(edits) - 1; i >= 0; i-- {
		if i > 0 {
			a, b := edits[i-1].Range.End, edits[i].Range.Start
			zzverif.Assert(a.Line < b.Line || (a.Line == b.Line && a.Character <= b.Character), "C04: formatting edits overlap or are out of order")
		}
		next, ok := c01RefApply(out, edits[i].Range, edits[i].NewText)
		zzverif.Assert(ok, "C04: a formatting edit does not fit the text the client holds")
		if !ok {
			return
		}
		out = next
	}
	zzverif.Observe("formatted", out)
	zzverif.Assert(c04SessSquash(out) == c04SessSquash(buf), "C04: after a session, formatting changes more than blanks of the text the client holds")
	zzverif.Reach("C04.session.end")
}

func VerifC04Session()     { verifC04Session(2) }
func VerifC04SessionLong() { verifC04Session(3) }
