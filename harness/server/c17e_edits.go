//go:build verif

package server

// The only C17 harness that calls computeSemanticTokensEdits directly. It lives in a file of its
// own prefix (c17e_), overlaid only for VerifC17Edits*: a change of that function's signature then
// stops this harness alone (reported as a harness that did not run, exit 2) while the
// request-level harnesses (VerifC17Delta, VerifC17History) still decide the property.

import (
	"github.com/juev/hledger-lsp/internal/zzverif"
)

func init() {
	zzverif.Register("VerifC17Edits", VerifC17Edits)
	zzverif.Register("VerifC17EditsLong", VerifC17EditsLong)
}

// VerifC17Edits: computeSemanticTokensEdits(old, new) applied to old yields new, for
// symbolic arrays of 0/5/10/15 (quick) numbers.
func verifC17Edits(maxTok int) {
	old := c17SymData("old", 5*zzverif.Choice("old.tokens", maxTok+1))
	nw := c17SymData("new", 5*zzverif.Choice("new.tokens", maxTok+1))
	edits := computeSemanticTokensEdits(old, nw)
	zzverif.Assert(edits != nil, "edits is an array (never null)")
	got, ok := c17ApplyEdits(old, edits)
	zzverif.Assert(ok, "every edit fits the previous array")
	zzverif.Assert(c17SameData(got, nw), "applying the edits to the previous array yields the new array")
	zzverif.Reach("C17.edits.end")
}

func VerifC17Edits()     { verifC17Edits(3) }
func VerifC17EditsLong() { verifC17Edits(6) }
