//go:build verif

package server

import (
	"context"
	"math/big"

	"go.lsp.dev/protocol"

	"github.com/juev/hledger-lsp/internal/zzverif"
)

func init() {
	zzverif.Register("VerifC20Hover", VerifC20Hover)
	zzverif.Register("VerifC20HoverDeep", VerifC20HoverDeep)
	zzverif.Register("VerifC20Counts", VerifC20Counts)
}

type c20Amt struct {
	text  string
	v     *big.Int // value * 10^scale
	scale int
	comm  string
}

func c20Pow10(k int) *big.Int {
	r := big.NewInt(1)
	for i := 0; i < k; i++ {
		r = new(big.Int).Mul(r, big.NewInt(10))
	}
	return r
}

// concrete pool: notation variety incl. 12 decimals and digit groups
var c20Pool = []struct {
	text, digits string
	scale        int
	neg          bool
}{
	{"1,234.56", "123456", 2, false},
	{"-0.750", "0750", 3, true}, // one mark, three decimals, zero integer part: a fraction, not a digit group
	{"0.000000000001", "0000000000001", 12, false},
	{"1", "1", 0, false},
	{"2.50", "250", 2, false},
	{"-12.345678901234", "12345678901234", 12, true},
	{"3 000,5", "30005", 1, false},
	{"-0,125", "0125", 3, true},
}

func c20PoolAmt(name string, n int, forceComm int) c20Amt {
	p := c20Pool[zzverif.Choice(name+".pool", n)]
	v, _ := new(big.Int).SetString(p.digits, 10)
	if p.neg {
		v = new(big.Int).Neg(v)
	}
	comm := []string{"USD", "EUR"}[forceComm]
	return c20Amt{text: p.text + " " + comm, v: v, scale: p.scale, comm: comm}
}

func c20SymAmt(name string, deep bool) c20Amt {
	var i, f string
	shape := 0
	if deep {
		shape = zzverif.Choice(name+".shape", 3)
	}
	switch shape {
	case 0:
		i, f = zzverif.Digits(name+".i", 1), zzverif.Digits(name+".f", 2)
	case 1:
		i, f = zzverif.Digits(name+".i", 2), zzverif.Digits(name+".f", 12)
	default:
		i, f = zzverif.Digits(name+".i", 3), ""
	}
	txt := i
	if f != "" {
		txt += "." + f
	}
	v, _ := new(big.Int).SetString(i+f, 10)
	if zzverif.Choice(name+".neg", 2) == 1 {
		txt = "-" + txt
		v = new(big.Int).Neg(v)
	}
	comm := []string{"USD", "EUR"}[zzverif.Choice(name+".comm", 2)]
	return c20Amt{text: txt + " " + comm, v: v, scale: len(f), comm: comm}
}

// c20World: an include tree of 1..3 files, each with one transaction whose postings name the
// hovered account a:b (with or without amount) or another account.
type c20Posting struct {
	acct   string
	hasAmt bool
	amt    c20Amt
}

type c20World struct {
	n                    int      // number of files
	shape                int      // 0 single, 1 root->f1, 2 chain root->f1->f2, 3 star root->f1, root->f2
	paths                []string // absolute paths
	contents             []string
	posts                [][]c20Posting
	payees               []string
	extraFile, extraKind int
	tags                 []string
}

func c20Build(sym, deep bool, maxShape int, varyMeta bool) *c20World {
	w := &c20World{}
	w.shape = zzverif.Choice("shape", maxShape)
	w.n = []int{1, 2, 3, 3}[w.shape]
	if !varyMeta {
		w.extraFile = zzverif.Choice("extraFile", w.n)
		w.extraKind = zzverif.Choice("extraKind", 4)
	}
	root := zzverif.Root()
	names := []string{"main.journal", "f1.journal", "f2.journal"}
	for i := 0; i < w.n; i++ {
		w.paths = append(w.paths, root+"/"+names[i])
	}
	for i := 0; i < w.n; i++ {
		nm := "f" + zzverif.Itoa(i)
		inc := ""
		switch {
		case i == 0 && w.shape >= 1:
			inc = "include f1.journal\n"
			if w.shape == 3 {
				inc += "include f2.journal\n"
			}
		case i == 1 && w.shape == 2:
			inc = "include f2.journal\n"
		}
		payee, tag := "shop", "trip:rome"
		if varyMeta {
			payee = []string{"shop", "cafe"}[zzverif.Choice(nm+".payee", 2)]
			tag = []string{"trip:rome", "trip:oslo", "kind:x"}[zzverif.Choice(nm+".tag", 3)]
		}
		w.payees = append(w.payees, payee)
		w.tags = append(w.tags, tag)
		var ps []c20Posting
		// first posting: always the hovered account, with an amount
		mk := func(pn string, forceComm int) c20Amt {
			if sym {
				return c20SymAmt(pn, deep)
			}
			n := 3
			if deep {
				n = len(c20Pool)
			}
			if varyMeta {
				n = 1
			}
			a := c20PoolAmt(pn, n, forceComm)
			return a
		}
		ps = append(ps, c20Posting{acct: "a:b", hasAmt: true, amt: mk(nm+".p0", 0)})
		// one file (chosen once) carries an extra posting of a chosen variant
		if !varyMeta && i == w.extraFile {
			switch w.extraKind {
			case 0:
				ps = append(ps, c20Posting{acct: "a:b"})
			case 1:
				ps = append(ps, c20Posting{acct: "a:b", hasAmt: true, amt: mk(nm+".p1", 1)})
			case 2:
				ps = append(ps, c20Posting{acct: "c:d", hasAmt: true, amt: mk(nm+".p1", 0)})
			default:
				ps = append(ps, c20Posting{acct: "a:b", hasAmt: true, amt: mk(nm+".p1", 0)})
			}
		}
		w.posts = append(w.posts, ps)
		// the last file of the tree declares display formats with fewer decimals than the amounts
		// carry: the hover figures stay exact all the same
		decl := ""
		if i == w.n-1 && !varyMeta {
			decl = "commodity 1,000.00 USD\ncommodity 1.000,0 EUR\n\n"
		}
		txt := inc + decl + "2024-01-0" + zzverif.Itoa(i+1) + " " + payee + " ; " + tag + "\n"
		// the amount-less balancing posting comes last, or (in the file with the extra posting)
		// first: postings with amounts then FOLLOW a posting without one
		zFirst := !varyMeta && i == w.extraFile && zzverif.Choice("zfirst", 2) == 1
		if zFirst {
			txt += "    z:z\n"
		}
		for _, p := range ps {
			txt += "    " + p.acct
			if p.hasAmt {
				txt += "  " + p.amt.text
			}
			txt += "\n"
		}
		if !zFirst {
			txt += "    z:z\n"
		}
		w.contents = append(w.contents, txt)
	}
	return w
}

// inScope: files whose postings the hover must aggregate, for a request from file req.
func (w *c20World) inScope(req int, workspace bool) []int {
	if workspace || req == 0 {
		out := []int{}
		for i := 0; i < w.n; i++ {
			out = append(out, i)
		}
		return out
	}
	// include tree of f1 (no workspace)
	if req == 1 && w.shape == 2 {
		return []int{1, 2}
	}
	return []int{req}
}

type c20Expect struct {
	sum      map[string]*big.Int // at scale 12
	comms    []string
	nAll     int // postings naming the account
	nWithAmt int
}

func (w *c20World) expect(scope []int) c20Expect {
	e := c20Expect{sum: map[string]*big.Int{}}
	for _, fi := range scope {
		for _, p := range w.posts[fi] {
			if p.acct != "a:b" {
				continue
			}
			e.nAll++
			if !p.hasAmt {
				continue
			}
			e.nWithAmt++
			if _, ok := e.sum[p.amt.comm]; !ok {
				e.sum[p.amt.comm] = big.NewInt(0)
				e.comms = append(e.comms, p.amt.comm)
			}
			e.sum[p.amt.comm] = new(big.Int).Add(e.sum[p.amt.comm], new(big.Int).Mul(p.amt.v, c20Pow10(12-p.amt.scale)))
		}
	}
	return e
}

// c20Serve starts a server on the world and opens file req; returns the server and the document URI.
func (w *c20World) serve(req int, workspace bool, secondRun bool) (*Server, protocol.DocumentURI) {
	return w.serveMode(req, workspace, secondRun, false)
}

// serveMode, otherClosed: another file of the tree is opened with one more (unsaved)
// transaction on the hovered account, the account is hovered from req, and the other file is
// closed again without saving: the tree is what the disk holds.
func (w *c20World) serveMode(req int, workspace bool, secondRun bool, otherClosed bool) (*Server, protocol.DocumentURI) {
	ctx := context.Background()
	for i := 0; i < w.n; i++ {
		zzverif.WriteFile(w.paths[i], w.contents[i])
	}
	s := NewServer()
	s.SetClient(&zzClient{})
	params := &protocol.InitializeParams{}
	if workspace {
		params.RootURI = protocol.DocumentURI("file://" + zzverif.Root())
	}
	_, _ = s.Initialize(ctx, params)
	zzNotify(s, func() { _ = s.Initialized(ctx, &protocol.InitializedParams{}) })
	uri := protocol.DocumentURI("file://" + w.paths[req])
	if !secondRun {
		zzNotify(s, func() {
			_ = s.DidOpen(ctx, &protocol.DidOpenTextDocumentParams{TextDocument: protocol.TextDocumentItem{URI: uri, Text: w.contents[req]}})
		})
		c20Settle(s, uri, w.contents[req])
		if otherClosed && w.n > 1 {
			other := (req + 1) % w.n
			ouri := protocol.DocumentURI("file://" + w.paths[other])
			otext := w.contents[other] + "\n2024-01-01 warm\n    a:b  77 USD\n    c:d\n"
			zzNotify(s, func() {
				_ = s.DidOpen(ctx, &protocol.DidOpenTextDocumentParams{TextDocument: protocol.TextDocumentItem{URI: ouri, Text: otext}})
			})
			c20Settle(s, ouri, otext)
			_, _ = s.Hover(ctx, &protocol.HoverParams{TextDocumentPositionParams: protocol.TextDocumentPositionParams{
				TextDocument: protocol.TextDocumentIdentifier{URI: uri}, Position: protocol.Position{Line: c20AcctLine(w.contents[req]), Character: 5}}})
			_ = s.DidClose(ctx, &protocol.DidCloseTextDocumentParams{TextDocument: protocol.TextDocumentIdentifier{URI: ouri}})
		}
		return s, uri
	}
	// second run: the document is first open with one more transaction on the hovered account,
	// the account is hovered (whatever the server keeps of that answer is in place), then the
	// transaction is deleted again; include cache, workspace tree and per-document tree are warm
	prev := w.contents[req] + "\n2024-01-01 warm\n    a:b  77 USD\n    c:d\n"
	zzNotify(s, func() {
		_ = s.DidOpen(ctx, &protocol.DidOpenTextDocumentParams{TextDocument: protocol.TextDocumentItem{URI: uri, Text: prev}})
	})
	c20Settle(s, uri, prev)
	_, _ = s.Hover(ctx, &protocol.HoverParams{TextDocumentPositionParams: protocol.TextDocumentPositionParams{
		TextDocument: protocol.TextDocumentIdentifier{URI: uri}, Position: protocol.Position{Line: c20AcctLine(prev), Character: 5}}})
	zzNotify(s, func() {
		_ = s.DidChange(ctx, &protocol.DidChangeTextDocumentParams{
			TextDocument:   protocol.VersionedTextDocumentIdentifier{TextDocumentIdentifier: protocol.TextDocumentIdentifier{URI: uri}},
			ContentChanges: []protocol.TextDocumentContentChangeEvent{{Text: w.contents[req]}},
		})
	})
	c20Settle(s, uri, w.contents[req])
	return s, uri
}

// c20Settle lets the background analysis finish (engine: run queued tasks; natively: run it synchronously too).
func c20Settle(s *Server, uri protocol.DocumentURI, content string) {
	if zzverif.Engine() {
		for zzverif.PendingTasks() > 0 {
			zzverif.RunTask(0)
		}
		return
	}
	s.publishDiagnostics(context.Background(), uri, content)
}

// c20ParseNum parses "-12.50" into (int, scale).
func c20ParseNum(s string) (*big.Int, int, bool) {
	neg := false
	if len(s) > 0 && s[0] == '-' {
		neg = true
		s = s[1:]
	}
	digits := ""
	scale := 0
	seenDot := false
	for i := 0; i < len(s); i++ {
		c := s[i]
		switch {
		case c == '.' && !seenDot:
			seenDot = true
		case c >= '0' && c <= '9':
			digits += string(c)
			if seenDot {
				scale++
			}
		default:
			return nil, 0, false
		}
	}
	if digits == "" {
		return nil, 0, false
	}
	v, _ := new(big.Int).SetString(digits, 10)
	if neg {
		v = new(big.Int).Neg(v)
	}
	return v, scale, true
}

func c20Lines(s string) []string {
	var out []string
	start := 0
	for i := 0; i < len(s); i++ {
		if s[i] == '\n' {
			out = append(out, s[start:i])
			start = i + 1
		}
	}
	if start < len(s) {
		out = append(out, s[start:])
	}
	return out
}

func c20HasPrefix(s, p string) bool { return len(s) >= len(p) && s[:len(p)] == p }

// VerifC20Hover: the hover text of an account (concrete amounts from the pool): every commodity line
// shows the exact sum, no commodity is missing or extra, and the posting count is exact.
func verifC20Hover(deep bool) {
	maxShape := 3
	if deep {
		maxShape = 4
	}
	w := c20Build(false, deep, maxShape, false)
	req := 0
	if w.n > 1 {
		req = zzverif.Choice("req", 2)
	}
	workspace := zzverif.Choice("workspace", 2) == 1
	// 0 plain; 1 the document itself had another text and was hovered before; 2 (workspace, more
	// than one file) another file of the tree had unsaved text, was hovered over and closed unsaved
	mode := zzverif.Choice("second", 3)
	zzverif.Assume(mode != 2 || (workspace && w.n > 1))
	second := mode == 1
	s, uri := w.serveMode(req, workspace, second, mode == 2)
	// cursor on the first posting's account of the requesting file
	line := c20AcctLine(w.contents[req])
	h, err := s.Hover(context.Background(), &protocol.HoverParams{TextDocumentPositionParams: protocol.TextDocumentPositionParams{
		TextDocument: protocol.TextDocumentIdentifier{URI: uri}, Position: protocol.Position{Line: line, Character: 5}}})
	zzverif.Assert(err == nil && h != nil, "hover on an account occurrence answers")
	if h == nil {
		return
	}
	exp := w.expect(w.inScope(req, workspace))
	if zzverif.Known("c20-second-load-loses-nested-includes") && second && !workspace && w.shape == 2 && req == 0 {
		zzverif.Reach("kf:c20-second-load-loses-nested-includes")
		return
	}
	lines := c20Lines(h.Contents.Value)
	zzverif.Observe("content", h.Contents.Value)
	zzverif.Assert(len(lines) > 0 && lines[0] == "**Account:** `a:b`", "hover names the account")
	seen := map[string]bool{}
	nPost := -1
	for _, l := range lines {
		if c20HasPrefix(l, "- ") {
			// "- <num> <commodity>"
			rest := l[2:]
			sp := -1
			for i := 0; i < len(rest); i++ {
				if rest[i] == ' ' {
					sp = i
					break
				}
			}
			zzverif.Assert(sp > 0, "balance line has a number and a commodity")
			if sp <= 0 {
				return
			}
			v, sc, ok := c20ParseNum(rest[:sp])
			comm := rest[sp+1:]
			zzverif.Assert(ok && sc <= 12, "balance line number is a plain decimal")
			if !ok || sc > 12 {
				return
			}
			want, known := exp.sum[comm]
			zzverif.Assert(known && !seen[comm], "balance line for a commodity posted to the account, once")
			if !known {
				return
			}
			seen[comm] = true
			zzverif.Assert(new(big.Int).Mul(v, c20Pow10(12-sc)).Cmp(want) == 0, "balance shown equals the exact sum over the include tree / workspace")
		}
		if c20HasPrefix(l, "**Postings:** ") {
			n, _, ok := c20ParseNum(l[len("**Postings:** "):])
			zzverif.Assert(ok, "posting count is a number")
			if ok {
				nPost = int(n.Int64())
			}
		}
	}
	zzverif.Assert(len(seen) == len(exp.comms), "every commodity posted to the account has a balance line")
	// "the exact number of such postings": postings naming the account; when some have no amount the
	// statement admits both readings (all postings / postings with an explicit amount)
	zzverif.Assert(nPost == exp.nAll || nPost == exp.nWithAmt, "posting count is exact")
	zzverif.Reach("C20.hover")
}

func VerifC20Hover()     { verifC20Hover(false) }
func VerifC20HoverDeep() { verifC20Hover(true) }

// VerifC20Counts: payee, tag and tag-value hovers show exact counts; amount hover shows the exact quantity and cost.
func VerifC20Counts() {
	w := c20Build(false, false, 3, true)
	workspace := zzverif.Choice("workspace", 2) == 1
	s, uri := w.serve(0, workspace, false)
	scope := w.inScope(0, workspace)
	line := uint32(0)
	for _, l := range c20Lines(w.contents[0]) {
		if c20HasPrefix(l, "include ") {
			line++
		}
	}
	hover := func(ch uint32, ln uint32) string {
		h, _ := s.Hover(context.Background(), &protocol.HoverParams{TextDocumentPositionParams: protocol.TextDocumentPositionParams{
			TextDocument: protocol.TextDocumentIdentifier{URI: uri}, Position: protocol.Position{Line: ln, Character: ch}}})
		if h == nil {
			return ""
		}
		return h.Contents.Value
	}
	lastNum := func(content, prefix string) int {
		for _, l := range c20Lines(content) {
			if c20HasPrefix(l, prefix) {
				n, _, ok := c20ParseNum(l[len(prefix):])
				if ok {
					return int(n.Int64())
				}
			}
		}
		return -1
	}
	switch zzverif.Choice("what", 4) {
	case 0: // payee: header "2024-01-01 shop ; tag"
		c := hover(12, line)
		want := 0
		for _, fi := range scope {
			if w.payees[fi] == w.payees[0] {
				want++
			}
		}
		zzverif.Assert(c20HasPrefix(c, "**Payee:** "+w.payees[0]), "payee hover names the payee")
		zzverif.Assert(lastNum(c, "**Transactions:** ") == want, "payee hover counts the matching transactions of the tree")
		zzverif.Reach("C20.counts.payee")
	case 1: // tag name: "2024-01-01 shop ; trip:rome" -> tag starts at column 18
		c := hover(18, line)
		name := w.tags[0][:4]
		want := 0
		for _, fi := range scope {
			if w.tags[fi][:4] == name {
				want++
			}
		}
		zzverif.Assert(c20HasPrefix(c, "**Tag:** `"+name+"`"), "tag hover names the tag")
		zzverif.Assert(lastNum(c, "**Usage:** ") == want, "tag hover counts the uses in the tree")
		zzverif.Reach("C20.counts.tag")
	case 2: // tag value
		c := hover(24, line)
		want := 0
		for _, fi := range scope {
			if w.tags[fi] == w.tags[0] {
				want++
			}
		}
		zzverif.Assert(c20HasPrefix(c, "**Tag:** `"+w.tags[0][:4]+"`"), "tag value hover names the tag")
		zzverif.Assert(lastNum(c, "**Usage:** ") == want, "tag value hover counts the uses in the tree")
		zzverif.Reach("C20.counts.tagvalue")
	default: // amount of the first posting: "    a:b  <amount>"
		c := hover(10, line+1)
		p := w.posts[0][0]
		lines := c20Lines(c)
		zzverif.Assert(len(lines) > 0 && c20HasPrefix(lines[0], "**Amount:** "), "amount hover answers")
		if len(lines) == 0 || !c20HasPrefix(lines[0], "**Amount:** ") {
			return
		}
		rest := lines[0][len("**Amount:** "):]
		sp := -1
		for i := 0; i < len(rest); i++ {
			if rest[i] == ' ' {
				sp = i
				break
			}
		}
		zzverif.Assert(sp > 0, "amount hover shows number and commodity")
		if sp <= 0 {
			return
		}
		v, sc, ok := c20ParseNum(rest[:sp])
		zzverif.Assert(ok && sc <= 12 && rest[sp+1:] == p.amt.comm, "amount hover shows a plain decimal and the commodity")
		if ok && sc <= 12 {
			zzverif.Assert(new(big.Int).Mul(v, c20Pow10(12-sc)).Cmp(new(big.Int).Mul(p.amt.v, c20Pow10(12-p.amt.scale))) == 0, "amount hover shows the exact quantity")
		}
		zzverif.Reach("C20.counts.amount")
	}
}

// c20AcctLine: the first posting line that names the hovered account a:b.
func c20AcctLine(content string) uint32 {
	for i, l := range c20Lines(content) {
		if c20HasPrefix(l, "    a:b") {
			return uint32(i)
		}
	}
	return 0
}
