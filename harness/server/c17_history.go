//go:build verif

package server

// C17, "for any history of edits the array a client rebuilds from delta responses equals the
// full response for the current text", through the requests only: a client opens a journal,
// asks for the full result and then, after each of a few edits, for the delta against the id it
// holds; it applies the edits it gets (LSP reference applier) and its array must equal the
// encoding of the current text. The edits are chosen among variants of two posting lines that
// keep, move, lengthen, add or remove tokens (same token count with a token moved inside the
// line; a line deleted; a line of equal shape duplicated).

import (
	"context"

	"go.lsp.dev/protocol"

	"github.com/juev/hledger-lsp/internal/zzverif"
)

func init() {
	zzverif.Register("VerifC17History", VerifC17History)
	zzverif.Register("VerifC17HistoryLong", VerifC17HistoryLong)
}

var c17HistLines = []string{
	"    a:b  $55 ; weekly\n",
	"    a:b   $5 ; weekly\n", // same tokens, the amount starts one column later
	"    a:b  $5 ; weekly\n",  // the rest of the line shifts
	"    a:b  $55\n",          // fewer tokens
	"",                        // line deleted
	"    a:b  $55 ; weekly\n    a:b  $55 ; weekly\n", // duplicated
}

func c17HistDoc(k1, k2 int) string {
	return "2024-01-15 shop\n" + c17HistLines[k1] + c17HistLines[k2] + "    c:d\n\n2024-01-16 x\n    e:f  1 USD\n    g:h\n"
}

func verifC17History(steps int) {
	ctx := context.Background()
	tokenCache.mu.Lock()
	tokenCache.cache = make(map[protocol.DocumentURI]*cachedSemanticTokens)
	tokenCache.mu.Unlock()
	s := NewServer()
	uri := protocol.DocumentURI("file:///w/history.journal")
	tdi := protocol.TextDocumentIdentifier{URI: uri}
	text := c17HistDoc(0, 0)
	s.StoreDocument(uri, text)
	full, _ := s.SemanticTokensFull(ctx, &protocol.SemanticTokensParams{TextDocument: tdi})
	zzverif.Assert(full != nil, "C17: no full result")
	if full == nil {
		return
	}
	id, data := full.ResultID, full.Data
	for st := 0; st < steps; st++ {
		nm := "s" + zzverif.Itoa(st)
		text = c17HistDoc(zzverif.Choice(nm+".l1", len(c17HistLines)), zzverif.Choice(nm+".l2", len(c17HistLines)))
		s.StoreDocument(uri, text)
		res, _ := s.SemanticTokensFullDelta(ctx, &protocol.SemanticTokensDeltaParams{TextDocument: tdi, PreviousResultID: id})
		switch r := res.(type) {
		case *protocol.SemanticTokensDelta:
			next, ok := c17ApplyEdits(data, r.Edits)
			zzverif.Assert(ok, "C17: a delta edit does not fit the array the client holds")
			if !ok {
				return
			}
			id, data = r.ResultID, next
			zzverif.Reach("C17.history.delta")
		case *protocol.SemanticTokens:
			id, data = r.ResultID, r.Data
		default:
			zzverif.Assert(false, "C17: the delta request answers with neither a delta nor a full result")
			return
		}
		want := encodeTokens(tokenizeForSemantics(text))
		zzverif.Assert(c17SameData(data, want), "C17: the array rebuilt from delta responses differs from the full result for the current text")
	}
	zzverif.Reach("C17.history.end")
}

func VerifC17History()     { verifC17History(2) }
func VerifC17HistoryLong() { verifC17History(3) }
