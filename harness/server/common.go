//go:build verif

package server

import (
	"context"

	"go.lsp.dev/protocol"
)

// zzClient is the harness's LSP client: it records publications and answers
// workspace/configuration with a harness-chosen value.
type zzClient struct {
	protocol.Client
	published []*protocol.PublishDiagnosticsParams
	config    []any
	configErr error
	logs      int
}

func (c *zzClient) PublishDiagnostics(_ context.Context, p *protocol.PublishDiagnosticsParams) error {
	c.published = append(c.published, p)
	return nil
}

func (c *zzClient) Configuration(_ context.Context, _ *protocol.ConfigurationParams) ([]any, error) {
	return c.config, c.configErr
}

func (c *zzClient) LogMessage(_ context.Context, _ *protocol.LogMessageParams) error {
	c.logs++
	return nil
}

func (c *zzClient) last(uri protocol.DocumentURI) *protocol.PublishDiagnosticsParams {
	for i := len(c.published) - 1; i >= 0; i-- {
		if c.published[i].URI == uri {
			return c.published[i]
		}
	}
	return nil
}
