//go:build verif

package server

import (
	"context"
	"runtime"
	"time"

	"github.com/juev/hledger-lsp/internal/zzverif"

	"go.lsp.dev/protocol"
)

// zzMuted (native runs only): sends a notification with the client detached, so that the
// background goroutine it spawns returns at once (publishDiagnostics and refreshConfiguration
// start with `if s.client == nil { return }`), and waits until those goroutines are gone
// before the client is attached again. The harness then runs the analysis itself, at the point
// the schedule says.
func zzMuted(s *Server, cl protocol.Client, f func()) {
	base := runtime.NumGoroutine()
	s.client = nil
	f()
	for i := 0; i < 2000 && runtime.NumGoroutine() > base; i++ {
		time.Sleep(time.Millisecond)
	}
	s.client = cl
}

// zzClient is the harness's LSP client: it records publications and answers
// workspace/configuration with a harness-chosen value.
type zzClient struct {
	protocol.Client
	published []*protocol.PublishDiagnosticsParams
	config    []any
	configErr error
	logs      int
}

func (c *zzClient) PublishDiagnostics(_ context.Context, p *protocol.PublishDiagnosticsParams) error {
	c.published = append(c.published, p)
	return nil
}

func (c *zzClient) Configuration(_ context.Context, _ *protocol.ConfigurationParams) ([]any, error) {
	return c.config, c.configErr
}

func (c *zzClient) LogMessage(_ context.Context, _ *protocol.LogMessageParams) error {
	c.logs++
	return nil
}

func (c *zzClient) last(uri protocol.DocumentURI) *protocol.PublishDiagnosticsParams {
	for i := len(c.published) - 1; i >= 0; i-- {
		if c.published[i].URI == uri {
			return c.published[i]
		}
	}
	return nil
}

// zzWaited runs f (a notification that starts background work) and, natively, waits until the
// goroutines it spawned are gone, the client staying attached: "the notification, then the
// work it triggers, then the next event". Under the engine the spawned work is queued; the
// caller runs the queue.
func zzWaited(s *Server, f func()) {
	if zzverif.Engine() {
		f()
		return
	}
	base := runtime.NumGoroutine()
	f()
	for i := 0; i < 5000 && runtime.NumGoroutine() > base; i++ {
		time.Sleep(time.Millisecond)
	}
}

// zzNotify sends a notification. Under the engine the goroutine it spawns is a queued task the
// harness runs explicitly; natively the goroutine is muted (zzMuted) and the harness calls
// publishDiagnostics itself, so that no analysis runs concurrently with the harness.
func zzNotify(s *Server, f func()) {
	if zzverif.Engine() {
		f()
		return
	}
	zzMuted(s, s.client, f)
}
