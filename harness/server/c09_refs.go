//go:build verif

package server

// C09: references and rename hit exactly the symbol's occurrences, in the right files.
//
// A virtual workspace of 1..4 journals joined by include directives is produced from a derivation
// that records every occurrence (file, line, columns, declaration or use) of account, commodity and
// payee names. Every transaction and every declaration carries one name index; the account, the
// commodity and the payee of that entry are the pool names of that index, so that one workspace
// exercises the three kinds of symbol at once (which occurrences coincide is the same partition for
// each kind). The server is driven through Initialize / Initialized / DidOpen / (DidChange) /
// background tasks; then, for EVERY occurrence in the requesting file (cursor on any of its
// characters), References (without and with declarations) and Rename are compared with the
// derivation's occurrence set, the rename edits are applied with a reference applier, and every file
// is re-parsed and compared with the derivation with the name substituted.

import (
	"context"
	"fmt"

	"go.lsp.dev/protocol"

	"github.com/juev/hledger-lsp/internal/ast"
	"github.com/juev/hledger-lsp/internal/parser"
	"github.com/juev/hledger-lsp/internal/zzverif"
)

func init() {
	zzverif.Register("VerifC09Warm", VerifC09Warm)
	zzverif.Register("VerifC09WarmLong", VerifC09WarmLong)
	zzverif.Register("VerifC09One", VerifC09One)
	zzverif.Register("VerifC09Two", VerifC09Two)
	zzverif.Register("VerifC09Three", VerifC09Three)
	zzverif.Register("VerifC09TwoLong", VerifC09TwoLong)
	zzverif.Register("VerifC09ThreeLong", VerifC09ThreeLong)
	zzverif.Register("VerifC09FourLong", VerifC09FourLong)
}

const (
	c09Acct = iota
	c09Comm
	c09Payee
)

var c09Pool = [][]string{
	{"ac:na", "ac:nb", "ac:nc"},
	{"CCA", "CCB", "CCC"},
	{"Shopa", "Shopb", "Shopc"},
}
var c09New = []string{"zz:new", "ZZZZ", "Zed"}
var c09KindName = []string{"account", "commodity", "payee"}

// Known-finding classes. Every predicate is a predicate of the configuration (mode, requesting file, which file is
// open with unsaved text and how that text arrived, cursor on a declaration, symbol has a declaration), never of the
// server's answer. A class does not skip a comparison: it replaces the ideal expectation by exactly what its cause
// produces, so everything else stays checked.
const (
	// workspace mode, request from a file that is not the workspace root: allJournalsWithPaths files the ROOT's syntax
	// tree under the requesting file's path (the requesting file's own tree is lost, the root has no entry).
	c09ClsRelabel = "c09-workspace-primary-relabelled"
	// no workspace root, request from an included file: only that file and what it includes are searched.
	c09ClsSubtree = "c09-no-workspace-sees-own-subtree"
	// no workspace root: another open file's unsaved text is not seen (included files are read from disk).
	c09ClsStale = "c09-no-workspace-stale-open-file"
	// workspace mode: unsaved text that arrived with didOpen (not didChange) never reaches the workspace tree.
	c09ClsOpenSync = "c09-workspace-didopen-not-synced"
	// the name in an account / commodity directive carries no end position: 4294967295:4294967295.
	c09ClsDirNoEnd = "c09-directive-name-no-end"
	// cursor on the name in an account / commodity directive: no symbol is found, no references, no rename.
	c09ClsFromDecl = "c09-references-from-declaration-none"
	// the commodity of a balance assertion is not an occurrence for the server: never listed, never renamed, and the
	// cursor on it finds no symbol.
	c09ClsAssertComm = "c09-assertion-commodity-not-an-occurrence"
)

type c09Cfg struct {
	n     int
	rich  bool // every file: optional declaration with a free name; optional second transactions (tx2)
	tx2   int  // rich only: 0 = none, 1 = a second transaction in at most one file, 2 = in any subset of the files
	pool  int  // names per kind (2 or 3)
	edits int  // unsaved text in 0: {none, f1} (f0 when n == 1); 1: {none, any file}; 2: {none, f1, the last file}
	via   int  // the unsaved text may also arrive with didOpen (no didChange): 0 never, 1 in workspace mode only, 2 in both modes
	warm  bool // the requesting file is opened, analysed and ASKED first; the other file's unsaved text arrives afterwards
	flick bool // warm only: afterwards the include lines of the requesting file may be commented out and restored (two changes)
}

type c09Occ struct {
	kind, file, line, s, e int
	decl, added, inAssert  bool
	name                   int // pool index
	idx                    int // index of the transaction (declarations: of the directive) in its file
}

type c09Tx struct {
	mon, day                  int
	payee, acct, comm, amount string
	memo                      bool   // shape B: header "date payee | memo" and a balance assertion "= amount comm" on the posting
	acomm                     string // shape B: the commodity of the balance assertion
}

type c09Dir struct {
	kind int
	name string
}

type c09File struct {
	name      string
	disk, cur string // cur: what the editor shows (== disk unless edited)
	edited    bool
	includes  []int
	lineOff   []int // byte offset of each line start in cur
	lineLen   []int
	occs      []c09Occ // occurrences in cur
	txs       []c09Tx
	dirs      []c09Dir
}

type c09WS struct {
	n       int
	ws      bool // Initialize with RootURI
	req     int
	edit    int  // index of the file that is open with unsaved text, -1 none
	viaOpen bool // the unsaved text arrived with didOpen
	warm    bool // requests were answered from the requesting file before the unsaved text arrived
	flick   bool // the requesting file's include lines were commented out and restored before the request
	pool    int
	files   []*c09File
	maxNm   int // canonical naming: largest pool index used so far
}

func (w *c09WS) path(i int) string { return zzverif.Root() + "/" + w.files[i].name }
func (w *c09WS) uri(i int) protocol.DocumentURI {
	return protocol.DocumentURI("file://" + w.path(i))
}

// pick draws a pool index in canonical order (a new name is always the next unused one).
func (w *c09WS) pick(id string) int {
	k := w.maxNm + 2
	if k > w.pool {
		k = w.pool
	}
	v := 0
	if k > 1 {
		v = zzverif.Choice(id, k)
	}
	if v > w.maxNm {
		w.maxNm = v
	}
	return v
}

type c09FB struct {
	w    *c09WS
	f    *c09File
	fi   int
	text string
	line int
	off  int
}

func (b *c09FB) ln(s string) {
	b.f.lineOff = append(b.f.lineOff, b.off)
	b.f.lineLen = append(b.f.lineLen, len(s))
	b.text += s + "\n"
	b.off += len(s) + 1
	b.line++
}

func (b *c09FB) occ(kind, col, name int, decl, added bool, idx int) {
	b.f.occs = append(b.f.occs, c09Occ{kind: kind, file: b.fi, line: b.line, s: col, e: col + len(c09Pool[kind][name]), decl: decl, added: added, name: name, idx: idx})
}

// decl: an account and a commodity declaration of name index nm.
func (b *c09FB) decl(nm int) {
	b.occ(c09Acct, len("account "), nm, true, false, len(b.f.dirs))
	b.f.dirs = append(b.f.dirs, c09Dir{c09Acct, c09Pool[c09Acct][nm]})
	b.ln("account " + c09Pool[c09Acct][nm])
	b.occ(c09Comm, len("commodity "), nm, true, false, len(b.f.dirs))
	b.f.dirs = append(b.f.dirs, c09Dir{c09Comm, c09Pool[c09Comm][nm]})
	b.ln("commodity " + c09Pool[c09Comm][nm])
}

func (b *c09FB) tx(mon, day int, nm int, amount string, memo, added bool) {
	date := "2024-0" + zzverif.Itoa(mon) + "-0" + zzverif.Itoa(day)
	t := c09Tx{mon: mon, day: day, memo: memo, payee: c09Pool[c09Payee][nm], acct: c09Pool[c09Acct][nm], comm: c09Pool[c09Comm][nm], amount: amount}
	if memo {
		t.acomm = t.comm
	}
	ti := len(b.f.txs)
	b.occ(c09Payee, len(date)+1, nm, false, added, ti)
	if memo {
		b.ln(date + " " + t.payee + " | memo")
	} else {
		b.ln(date + " " + t.payee)
	}
	b.occ(c09Acct, 4, nm, false, added, ti)
	ccol := 4 + len(t.acct) + 2 + len(amount) + 1
	b.occ(c09Comm, ccol, nm, false, added, ti)
	if memo {
		b.occ(c09Comm, ccol+len(t.comm)+3+len(amount)+1, nm, false, added, ti)
		b.f.occs[len(b.f.occs)-1].inAssert = true
		b.ln("    " + t.acct + "  " + amount + " " + t.comm + " = " + amount + " " + t.acomm)
	} else {
		b.ln("    " + t.acct + "  " + amount + " " + t.comm)
	}
	b.ln("    eq:open")
	b.f.txs = append(b.f.txs, t)
}

// c09Build: the workspace of the derivation.
//
//	n files f0..f(n-1); topo 0 chain (fi includes fi+1), 1 star (f0 includes all), 2 tree (f0: f1,f2; f1: f3)
//	rich: every declaration is free and files may carry a second transaction; otherwise declarations follow declPat
func c09Build(c c09Cfg) *c09WS {
	n := c.n
	w := &c09WS{n: n, edit: -1, pool: c.pool, maxNm: -1}
	w.ws = zzverif.Choice("workspace", 2) == 1
	if n > 1 {
		w.req = zzverif.Choice("req", n)
	}
	topo := 0
	if n > 2 {
		nt := 2
		if n > 3 {
			nt = 3
		}
		topo = zzverif.Choice("topo", nt)
	}
	if zzverif.Choice("edit", 2) == 1 {
		switch {
		case c.edits == 1 && n > 1:
			w.edit = zzverif.Choice("editfile", n)
		case c.edits == 2 && n > 2:
			w.edit = 1 + (n-2)*zzverif.Choice("editlast", 2)
		case n > 1:
			w.edit = 1
		default:
			w.edit = 0
		}
		if c.via == 2 || (c.via == 1 && w.ws) {
			w.viaOpen = zzverif.Choice("viaopen", 2) == 1
		}
	}
	if c.warm {
		// state surviving from an earlier request: only meaningful with unsaved text in another file
		zzverif.Assume(w.edit >= 0 && w.req != w.edit)
		w.warm = true
		w.flick = c.flick && zzverif.Choice("flick", 2) == 1
	}
	declPat := 0
	tx2file := -1
	if c.rich {
		if c.tx2 == 1 && zzverif.Choice("tx2", 2) == 1 {
			tx2file = 0
			if n > 1 {
				tx2file = zzverif.Choice("tx2file", n)
			}
		}
	} else {
		declPat = zzverif.Choice("decls", 3) // 0 none, 1 every file declares pool[0], 2 only the last file declares pool[0]
		if declPat != 0 {
			w.maxNm = 0
		}
	}
	for i := 0; i < n; i++ {
		f := &c09File{name: "f" + zzverif.Itoa(i) + ".journal"}
		w.files = append(w.files, f)
		switch topo {
		case 0:
			if i+1 < n {
				f.includes = []int{i + 1}
			}
		case 1:
			if i == 0 {
				for j := 1; j < n; j++ {
					f.includes = append(f.includes, j)
				}
			}
		case 2:
			if i == 0 {
				f.includes = []int{1, 2}
			} else if i == 1 {
				f.includes = []int{3}
			}
		}
	}
	for i, f := range w.files {
		b := &c09FB{w: w, f: f, fi: i}
		si := zzverif.Itoa(i)
		for _, j := range f.includes {
			b.ln("include f" + zzverif.Itoa(j) + ".journal")
		}
		if c.rich {
			if zzverif.Choice("decl"+si+".on", 2) == 1 {
				b.decl(w.pick("decl" + si))
			}
		} else if declPat == 1 || (declPat == 2 && i == n-1) {
			b.decl(0)
		}
		day := i + 1
		b.tx(1, day, w.pick("n"+si+".1"), "1", false, false)
		second := i == tx2file
		if c.rich && c.tx2 == 2 {
			second = zzverif.Choice("tx2."+si, 2) == 1
		}
		if second {
			b.ln("")
			b.tx(2, day, w.pick("n"+si+".2"), "2", true, false)
		}
		f.disk = b.text
		if i == w.edit {
			f.edited = true
			b.tx(3, day, w.pick("added"), "3", true, true)
		}
		f.cur = b.text
		f.lineOff = append(f.lineOff, b.off) // the empty last line
		f.lineLen = append(f.lineLen, 0)
	}
	return w
}

// subtree: files reachable from i through includes (i included).
func (w *c09WS) subtree(i int) []bool {
	seen := make([]bool, w.n)
	var visit func(int)
	visit = func(k int) {
		if seen[k] {
			return
		}
		seen[k] = true
		for _, j := range w.files[k].includes {
			visit(j)
		}
	}
	visit(i)
	return seen
}

type c09Loc struct {
	file, line, s int
	eline, e      uint32
}

func c09KnownReach(cls string) bool {
	if zzverif.Known(cls) {
		zzverif.Reach("kf:" + cls)
		return true
	}
	return false
}

// want: the locations the derivation demands for the symbol (kind, name), declarations iff asked. The ideal is: every
// occurrence in every file of the tree, each in the editor's view of its file, attributed to its file.
func (w *c09WS) want(cur c09Occ, withDecl bool) []c09Loc {
	kind, name := cur.kind, cur.name
	if cur.decl && c09KnownReach(c09ClsFromDecl) {
		return nil
	}
	if cur.inAssert && c09KnownReach(c09ClsAssertComm) {
		return nil
	}
	visible := make([]bool, w.n)
	for i := range visible {
		visible[i] = true
	}
	if !w.ws && w.req != 0 && c09KnownReach(c09ClsSubtree) {
		visible = w.subtree(w.req)
	}
	relabel := w.ws && w.req != 0 && c09KnownReach(c09ClsRelabel)
	var out []c09Loc
	for i, f := range w.files {
		if !visible[i] {
			continue
		}
		attributed := i
		if relabel {
			if i == w.req {
				continue // the requesting file's own tree is replaced by the root's
			}
			if i == 0 {
				attributed = w.req
			}
		}
		// the server works on the saved text of this file instead of the editor's
		diskView := f.edited && ((!w.ws && i != w.req && c09KnownReach(c09ClsStale)) ||
			(w.ws && w.viaOpen && c09KnownReach(c09ClsOpenSync)))
		for _, o := range f.occs {
			if o.kind != kind || o.name != name || (o.decl && !withDecl) {
				continue
			}
			if o.added && diskView {
				continue
			}
			if o.inAssert && c09KnownReach(c09ClsAssertComm) {
				continue
			}
			l := c09Loc{file: attributed, line: o.line, s: o.s, eline: uint32(o.line), e: uint32(o.e)}
			if o.decl && c09KnownReach(c09ClsDirNoEnd) {
				l.eline, l.e = 0xFFFFFFFF, 0xFFFFFFFF
			}
			out = append(out, l)
		}
	}
	return out
}

func (w *c09WS) fileOf(u protocol.DocumentURI) int {
	for i := range w.files {
		if w.uri(i) == u {
			return i
		}
	}
	return -1
}

func (w *c09WS) dump(what string, got []protocol.Location, want []c09Loc) {
	if zzverif.Engine() {
		return
	}
	fmt.Printf("DUMP %s ws=%v req=%d edit=%d viaOpen=%v\n", what, w.ws, w.req, w.edit, w.viaOpen)
	for i, f := range w.files {
		fmt.Printf("--- f%d (edited=%v)\n%s", i, f.edited, f.cur)
	}
	for _, g := range got {
		fmt.Printf("  got  f%d %d:%d-%d:%d\n", w.fileOf(g.URI), g.Range.Start.Line, g.Range.Start.Character, g.Range.End.Line, g.Range.End.Character)
	}
	for _, l := range want {
		fmt.Printf("  want f%d %d:%d-%d:%d\n", l.file, l.line, l.s, l.eline, l.e)
	}
}

func c09Same(g protocol.Location, gf int, l c09Loc) bool {
	return gf == l.file && g.Range.Start.Line == uint32(l.line) && g.Range.Start.Character == uint32(l.s) && g.Range.End.Line == l.eline && g.Range.End.Character == l.e
}

// compare: got == want as sets without repetition, each location attributed to the file that contains it.
func (w *c09WS) compare(what string, got []protocol.Location, want []c09Loc) {
	ok := len(got) == len(want)
	for _, g := range got {
		gf := w.fileOf(g.URI)
		found := false
		for _, l := range want {
			if c09Same(g, gf, l) {
				found = true
			}
		}
		ok = ok && found
	}
	for _, l := range want {
		found := false
		for _, g := range got {
			if c09Same(g, w.fileOf(g.URI), l) {
				found = true
			}
		}
		ok = ok && found
	}
	if !ok {
		w.dump(what, got, want)
	}
	zzverif.Assert(ok, what+": locations differ from the symbol's occurrences")
}

// open drives the server up to the point of the request.
func (w *c09WS) open() *Server {
	ctx := context.Background()
	for i, f := range w.files {
		zzverif.WriteFile(w.path(i), f.disk)
	}
	s := NewServer()
	cl := &zzClient{}
	s.SetClient(cl)
	// natively the goroutine a notification spawns is muted; sync() runs the analysis instead
	notify := func(f func()) {
		if zzverif.Engine() {
			f()
		} else {
			zzMuted(s, cl, f)
		}
	}
	ip := &protocol.InitializeParams{}
	if w.ws {
		ip.RootURI = protocol.DocumentURI("file://" + zzverif.Root())
	}
	_, _ = s.Initialize(ctx, ip)
	notify(func() { _ = s.Initialized(ctx, &protocol.InitializedParams{}) })
	sync := func(i int, text string) {
		if zzverif.Engine() {
			for zzverif.PendingTasks() > 0 {
				zzverif.RunTask(0)
			}
		} else {
			s.publishDiagnostics(ctx, w.uri(i), text) // natively: run the background task synchronously as well
		}
	}
	openReq := func() {
		notify(func() {
			_ = s.DidOpen(ctx, &protocol.DidOpenTextDocumentParams{TextDocument: protocol.TextDocumentItem{URI: w.uri(w.req), Text: w.files[w.req].cur, Version: 1}})
		})
		sync(w.req, w.files[w.req].cur)
	}
	if w.warm {
		// the requesting file first; every kind of request is answered once on each of its
		// occurrences (whatever the server keeps from these answers is now in place)
		openReq()
		for _, oc := range w.files[w.req].occs {
			tdp := protocol.TextDocumentPositionParams{TextDocument: protocol.TextDocumentIdentifier{URI: w.uri(w.req)}, Position: protocol.Position{Line: uint32(oc.line), Character: uint32(oc.s)}}
			_, _ = s.References(ctx, &protocol.ReferenceParams{TextDocumentPositionParams: tdp, Context: protocol.ReferenceContext{IncludeDeclaration: true}})
			_, _ = s.Definition(ctx, &protocol.DefinitionParams{TextDocumentPositionParams: tdp})
			_, _ = s.Rename(ctx, &protocol.RenameParams{TextDocumentPositionParams: tdp, NewName: "zz:warm"})
		}
	}
	if w.edit >= 0 {
		f := w.files[w.edit]
		if w.viaOpen {
			notify(func() {
				_ = s.DidOpen(ctx, &protocol.DidOpenTextDocumentParams{TextDocument: protocol.TextDocumentItem{URI: w.uri(w.edit), Text: f.cur, Version: 1}})
			})
			sync(w.edit, f.cur)
		} else {
			notify(func() {
				_ = s.DidOpen(ctx, &protocol.DidOpenTextDocumentParams{TextDocument: protocol.TextDocumentItem{URI: w.uri(w.edit), Text: f.disk, Version: 1}})
			})
			sync(w.edit, f.disk)
			notify(func() {
				_ = s.DidChange(ctx, &protocol.DidChangeTextDocumentParams{
					TextDocument:   protocol.VersionedTextDocumentIdentifier{TextDocumentIdentifier: protocol.TextDocumentIdentifier{URI: w.uri(w.edit)}, Version: 2},
					ContentChanges: []protocol.TextDocumentContentChangeEvent{{Text: f.cur}}})
			})
			sync(w.edit, f.cur)
		}
	}
	if w.req != w.edit && !w.warm {
		openReq()
	}
	if w.warm && w.edit >= 0 {
		// the same symbols are asked from the OTHER open file first, with no notification before
		// the requests that are compared: an answer must not carry over to another document's tree
		for _, oc := range w.files[w.edit].occs {
			tdp := protocol.TextDocumentPositionParams{TextDocument: protocol.TextDocumentIdentifier{URI: w.uri(w.edit)}, Position: protocol.Position{Line: uint32(oc.line), Character: uint32(oc.s)}}
			for _, withDecl := range []bool{false, true} {
				_, _ = s.References(ctx, &protocol.ReferenceParams{TextDocumentPositionParams: tdp, Context: protocol.ReferenceContext{IncludeDeclaration: withDecl}})
			}
			_, _ = s.Rename(ctx, &protocol.RenameParams{TextDocumentPositionParams: tdp, NewName: "zz:other"})
		}
	}
	if w.flick {
		// the files below the requesting file leave its tree and enter it again
		cur := w.files[w.req].cur
		for _, text := range []string{c09CommentIncludes(cur), cur} {
			notify(func() {
				_ = s.DidChange(ctx, &protocol.DidChangeTextDocumentParams{
					TextDocument:   protocol.VersionedTextDocumentIdentifier{TextDocumentIdentifier: protocol.TextDocumentIdentifier{URI: w.uri(w.req)}, Version: 3},
					ContentChanges: []protocol.TextDocumentContentChangeEvent{{Text: text}}})
			})
			sync(w.req, text)
		}
	}
	return s
}

// c09CommentIncludes: the text with every include directive turned into a comment line.
func c09CommentIncludes(text string) string {
	out := ""
	start := 0
	for i := 0; i <= len(text); i++ {
		if i == len(text) || text[i] == '\n' {
			ln := text[start:i]
			if len(ln) >= 8 && ln[:8] == "include " {
				ln = ";" + ln
			}
			out += ln
			if i < len(text) {
				out += "\n"
			}
			start = i + 1
		}
	}
	return out
}

// applyEdits: the reference applier for one file (ASCII: characters are bytes): edits must be valid, non-overlapping
// ranges; they are applied from the last to the first.
func (f *c09File) applyEdits(edits []protocol.TextEdit, what string) (string, bool) {
	type span struct {
		s, e int
		text string
	}
	var spans []span
	for _, e := range edits {
		sl, el := int(e.Range.Start.Line), int(e.Range.End.Line)
		valid := e.Range.End.Line < uint32(len(f.lineOff)) && sl <= el &&
			e.Range.Start.Character <= uint32(f.lineLen[sl]) && e.Range.End.Character <= uint32(f.lineLen[el])
		zzverif.Assert(valid, what+": edit range lies outside the document")
		if !valid {
			return "", false
		}
		sp := span{f.lineOff[sl] + int(e.Range.Start.Character), f.lineOff[el] + int(e.Range.End.Character), e.NewText}
		zzverif.Assert(sp.s <= sp.e, what+": edit range start after end")
		spans = append(spans, sp)
	}
	// insertion sort by start
	for i := 1; i < len(spans); i++ {
		for j := i; j > 0 && spans[j].s < spans[j-1].s; j-- {
			spans[j], spans[j-1] = spans[j-1], spans[j]
		}
	}
	for i := 1; i < len(spans); i++ {
		zzverif.Assert(spans[i-1].e <= spans[i].s, what+": overlapping edits")
	}
	out := f.cur
	for i := len(spans) - 1; i >= 0; i-- {
		out = out[:spans[i].s] + spans[i].text + out[spans[i].e:]
	}
	return out, true
}

// expectText: the file's text with the name substituted at the listed occurrences (every other byte unchanged).
func (w *c09WS) expectText(fi int, locs []c09Loc, newName string) string {
	f := w.files[fi]
	var mine []c09Loc
	for _, l := range locs {
		if l.file == fi {
			mine = append(mine, l)
		}
	}
	// substitute from the last occurrence to the first (insertion sort by line, column)
	for i := 1; i < len(mine); i++ {
		for j := i; j > 0 && (mine[j].line < mine[j-1].line || (mine[j].line == mine[j-1].line && mine[j].s < mine[j-1].s)); j-- {
			mine[j], mine[j-1] = mine[j-1], mine[j]
		}
	}
	out := f.cur
	for i := len(mine) - 1; i >= 0; i-- {
		l := mine[i]
		o := f.lineOff[l.line]
		end := int(l.e)
		if l.eline == 0xFFFFFFFF { // declaration without end (known class): the name runs to the end of the line
			end = f.lineLen[l.line]
		}
		out = out[:o+l.s] + newName + out[o+end:]
	}
	return out
}

func verifC09(c c09Cfg) {
	w := c09Build(c)
	f := w.files[w.req]
	s := w.open()
	ctx := context.Background()

	// every file, as the editor shows it, parses to its derivation (files that a rename leaves byte-identical
	// are not parsed again: parsing is a function of the text)
	for fi, fl := range w.files {
		w.reparse(fi, fl.cur, -1, nil, "")
	}

	// cursor: every occurrence in the requesting file, every character of it
	for oi, oc := range f.occs {
		ch := uint32(oc.s + zzverif.Int("ch"+zzverif.Itoa(oi), 0, oc.e-oc.s-1))
		tdp := protocol.TextDocumentPositionParams{TextDocument: protocol.TextDocumentIdentifier{URI: w.uri(w.req)}, Position: protocol.Position{Line: uint32(oc.line), Character: ch}}
		kn := c09KindName[oc.kind]

		for _, withDecl := range []bool{false, true} {
			got, err := s.References(ctx, &protocol.ReferenceParams{TextDocumentPositionParams: tdp, Context: protocol.ReferenceContext{IncludeDeclaration: withDecl}})
			zzverif.Assert(err == nil, "references: error")
			what := kn + " references"
			if withDecl {
				what = kn + " references with declarations"
			}
			w.compare(what, got, w.want(oc, withDecl))
		}
		zzverif.Reach("C09.references")

		newName := c09New[oc.kind]
		we, err := s.Rename(ctx, &protocol.RenameParams{TextDocumentPositionParams: tdp, NewName: newName})
		zzverif.Assert(err == nil, "rename: error")
		want := w.want(oc, true)
		var edits []protocol.Location
		if we != nil {
			zzverif.Assert(len(we.DocumentChanges) == 0, "rename: edits outside WorkspaceEdit.Changes")
			for u, es := range we.Changes {
				zzverif.Assert(w.fileOf(u) >= 0, "rename: edits for a document that is not part of the workspace")
				for _, e := range es {
					zzverif.Assert(e.NewText == newName, "rename: edit text is not the new name")
					edits = append(edits, protocol.Location{URI: u, Range: e.Range})
				}
			}
		}
		w.compare(kn+" rename", edits, want)
		if w.ws && w.req != 0 && zzverif.Known(c09ClsRelabel) {
			// the edits are attributed to the wrong file (known class): applying them is meaningless
			zzverif.Reach("C09.rename.relabelled-not-applied")
			continue
		}
		// apply with the reference applier, compare with the derivation, re-parse
		for fi, fl := range w.files {
			var es []protocol.TextEdit
			if we != nil {
				es = append(es, we.Changes[w.uri(fi)]...)
			}
			if zzverif.Known(c09ClsDirNoEnd) {
				// declarations without end (known class): read the edit as running to the end of its line
				for k := range es {
					if es[k].Range.End.Line == 0xFFFFFFFF && es[k].Range.Start.Line < uint32(len(fl.lineLen)) {
						es[k].Range.End = protocol.Position{Line: es[k].Range.Start.Line, Character: uint32(fl.lineLen[es[k].Range.Start.Line])}
					}
				}
			}
			gotText, ok := fl.applyEdits(es, "rename")
			if !ok {
				continue
			}
			wantText := w.expectText(fi, want, newName)
			if gotText != wantText && !zzverif.Engine() {
				fmt.Printf("DUMP rename f%d\n--- got\n%s--- want\n%s", fi, gotText, wantText)
			}
			zzverif.Assert(gotText == wantText, "rename: applying the edits does not yield the text with the name substituted")
			if gotText != fl.cur {
				w.reparse(fi, gotText, oc.kind, want, newName)
			}
		}
		zzverif.Reach("C09.rename")
	}
	zzverif.Reach("C09.end")
}

// reparse: the text parses to the file's derivation with newName substituted at the occurrences of `kind` listed in renamed.
func (w *c09WS) reparse(fi int, text string, kind int, renamed []c09Loc, newName string) {
	f := w.files[fi]
	what := "rename: "
	if kind < 0 {
		what = "model: "
	}
	j, errs := parser.Parse(text)
	zzverif.Assert(len(errs) == 0, what+"the journal does not parse")
	zzverif.Assert(len(j.Transactions) == len(f.txs) && len(j.Directives) == len(f.dirs) && len(j.Includes) == len(f.includes), what+"the journal has a different structure")
	isRenamed := func(o c09Occ) bool {
		if o.kind != kind {
			return false
		}
		for _, l := range renamed {
			if l.file == fi && l.line == o.line && l.s == o.s {
				return true
			}
		}
		return false
	}
	wantDirs := append([]c09Dir(nil), f.dirs...)
	wantTxs := append([]c09Tx(nil), f.txs...)
	for _, o := range f.occs {
		if !isRenamed(o) {
			continue
		}
		switch {
		case o.decl:
			wantDirs[o.idx].name = newName
		case o.inAssert:
			wantTxs[o.idx].acomm = newName
		case kind == c09Acct:
			wantTxs[o.idx].acct = newName
		case kind == c09Comm:
			wantTxs[o.idx].comm = newName
		case kind == c09Payee:
			wantTxs[o.idx].payee = newName
		}
	}
	for k, inc := range j.Includes {
		zzverif.Assert(inc.Path == "f"+zzverif.Itoa(f.includes[k])+".journal", what+"an include differs from the original")
	}
	for k, d := range wantDirs {
		gotKind, gotName := -1, ""
		switch d := j.Directives[k].(type) {
		case ast.AccountDirective:
			gotKind, gotName = c09Acct, d.Account.Name
		case ast.CommodityDirective:
			gotKind, gotName = c09Comm, d.Commodity.Symbol
		}
		zzverif.Assert(gotKind == d.kind && gotName == d.name, what+"a declaration differs from the original with the name substituted")
	}
	for ti, t := range wantTxs {
		g := j.Transactions[ti]
		ok := g.Date.Year == 2024 && g.Date.Month == t.mon && g.Date.Day == t.day &&
			((!t.memo && g.Description == t.payee && g.Payee == "" && g.Note == "") || (t.memo && g.Payee == t.payee && g.Note == "memo" && g.Description == t.payee+" | memo")) &&
			len(g.Postings) == 2 && g.Postings[0].Account.Name == t.acct &&
			g.Postings[0].Amount != nil && g.Postings[0].Amount.Commodity.Symbol == t.comm && g.Postings[0].Amount.RawQuantity == t.amount &&
			g.Postings[1].Account.Name == "eq:open" && g.Postings[1].Amount == nil && g.Postings[0].Cost == nil && g.Postings[1].BalanceAssertion == nil
		if ok && t.memo {
			ba := g.Postings[0].BalanceAssertion
			ok = ba != nil && !ba.IsStrict && !ba.IsInclusive && ba.Amount.Commodity.Symbol == t.acomm && ba.Amount.RawQuantity == t.amount
		} else if ok {
			ok = g.Postings[0].BalanceAssertion == nil
		}
		zzverif.Assert(ok, what+"a transaction differs from the original with the name substituted")
	}
}

// quick tier
func VerifC09One()   { verifC09(c09Cfg{n: 1, rich: true, tx2: 2, pool: 3, edits: 0, via: 2}) }
func VerifC09Two()   { verifC09(c09Cfg{n: 2, rich: true, tx2: 1, pool: 2, edits: 0, via: 1}) }
func VerifC09Three() { verifC09(c09Cfg{n: 3, rich: false, pool: 2, edits: 0}) }

// state surviving from an earlier request (quick: 2 files, thorough: 3 files and any file edited)
func VerifC09Warm()     { verifC09(c09Cfg{n: 3, rich: false, pool: 2, edits: 0, via: 2, warm: true, flick: true}) }
func VerifC09WarmLong() { verifC09(c09Cfg{n: 3, rich: true, tx2: 0, pool: 2, edits: 1, via: 2, warm: true, flick: true}) }

// thorough tier
func VerifC09TwoLong()   { verifC09(c09Cfg{n: 2, rich: true, tx2: 1, pool: 3, edits: 1, via: 1}) }
func VerifC09ThreeLong() { verifC09(c09Cfg{n: 3, rich: true, tx2: 0, pool: 2, edits: 1}) }
func VerifC09FourLong()  { verifC09(c09Cfg{n: 4, rich: false, pool: 2, edits: 2}) }
