//go:build verif

package server

// C09: references and rename hit exactly the symbol's occurrences, in the right files.
//
// A virtual workspace of 2..4 journals joined by include directives is produced from a derivation
// that records every occurrence (file, line, columns, declaration or use) of the account, commodity
// or payee names, which are drawn from a pool of three names per kind. The server is driven through
// Initialize / Initialized / DidOpen / (DidChange) / background tasks / References / Rename and
// the answers are compared with the derivation's occurrence set.

import (
	"context"
	"fmt"

	"go.lsp.dev/protocol"

	"github.com/juev/hledger-lsp/internal/ast"
	"github.com/juev/hledger-lsp/internal/parser"
	"github.com/juev/hledger-lsp/internal/zzverif"
)

func init() {
	zzverif.Register("VerifC09Two", VerifC09Two)
	zzverif.Register("VerifC09Three", VerifC09Three)
	zzverif.Register("VerifC09ThreeLong", VerifC09ThreeLong)
	zzverif.Register("VerifC09FourLong", VerifC09FourLong)
}

const (
	c09Acct = iota
	c09Comm
	c09Payee
)

var c09Pool = [][]string{
	{"ac:na", "ac:nb", "ac:nc"},
	{"CCA", "CCB", "CCC"},
	{"Shopa", "Shopb", "Shopc"},
}
var c09Fixed = []string{"ac:fix", "USD", "Fixed"}
var c09New = []string{"zz:new", "ZZZ", "Zed"}

// known-finding classes
const (
	c09ClsRelabel  = "workspace-primary-relabelled"       // workspace mode, request from an included file: the root's tree is filed under the requesting file's path
	c09ClsSubtree  = "no-workspace-sees-own-subtree"      // without a workspace root a request from an included file sees only that file and what it includes
	c09ClsStale    = "no-workspace-stale-open-file"       // without a workspace root, unsaved edits of other open files are not seen (included files are read from disk)
	c09ClsDirNoEnd = "directive-name-no-end"              // declarations carry no end position: 4294967295:4294967295
	c09ClsFromDecl = "references-from-declaration-none"   // cursor on the name in an account/commodity directive: no target found
	c09ClsWsStale  = "workspace-open-included-not-synced" // workspace mode: (reserved)
)

type c09Occ struct {
	file, line, s, e int
	decl, added      bool
	name             int // pool index
	tx               int // index of the transaction in its file (declarations: index of the directive)
}

type c09Tx struct {
	date                  string
	payee, acct, comm     string
	amount                string
	line                  int
}

type c09File struct {
	name      string
	disk, cur string // cur: what the editor shows (== disk unless edited)
	edited    bool
	includes  []int
	lineOff   []int // byte offset of each line start in cur
	lineLen   []int
	occs      []c09Occ // occurrences of the chosen kind in cur
	txs       []c09Tx
	ndirs     int
	ndiskTx   int
}

type c09WS struct {
	kind  int
	n     int
	ws    bool // Initialize with RootURI
	req   int
	edit  int // index of the file that is open with an unsaved edit, -1 none
	files []*c09File
	maxNm int // canonical naming: largest pool index used so far
}

func (w *c09WS) path(i int) string { return zzverif.Root() + "/" + w.files[i].name }
func (w *c09WS) uri(i int) protocol.DocumentURI {
	return protocol.DocumentURI("file://" + w.path(i))
}

// pick draws a pool index in canonical order (the first name used is pool[0], a new name is always the next unused one).
func (w *c09WS) pick(id string) int {
	k := w.maxNm + 2
	if k > 3 {
		k = 3
	}
	v := zzverif.Choice(id, k)
	if v > w.maxNm {
		w.maxNm = v
	}
	return v
}

type c09FB struct {
	w    *c09WS
	f    *c09File
	fi   int
	text string
	line int
	off  int
}

func (b *c09FB) ln(s string) {
	b.f.lineOff = append(b.f.lineOff, b.off)
	b.f.lineLen = append(b.f.lineLen, len(s))
	b.text += s + "\n"
	b.off += len(s) + 1
	b.line++
}

func (b *c09FB) occ(col int, name int, decl, added bool, tx int) {
	b.f.occs = append(b.f.occs, c09Occ{file: b.fi, line: b.line, s: col, e: col + len(c09Pool[b.w.kind][name]), decl: decl, added: added, name: name, tx: tx})
}

// name: text of a leaf of kind k; leaves of the chosen kind come from the pool (index nm), others are fixed.
func (b *c09FB) name(k, nm int) string {
	if k == b.w.kind {
		return c09Pool[k][nm]
	}
	return c09Fixed[k]
}

func (b *c09FB) decl(k, nm int) {
	kw := "account "
	if k == c09Comm {
		kw = "commodity "
	}
	if k == b.w.kind {
		b.occ(len(kw), nm, true, false, b.f.ndirs)
	}
	b.f.ndirs++
	b.ln(kw + b.name(k, nm))
}

func (b *c09FB) tx(date string, nm int, amount string, added bool) {
	k := b.w.kind
	t := c09Tx{date: date, payee: b.name(c09Payee, nm), acct: b.name(c09Acct, nm), comm: b.name(c09Comm, nm), amount: amount, line: b.line}
	ti := len(b.f.txs)
	if k == c09Payee {
		b.occ(len(date)+1, nm, false, added, ti)
	}
	b.ln(date + " " + t.payee)
	if k == c09Acct {
		b.occ(4, nm, false, added, ti)
	}
	if k == c09Comm {
		b.occ(4+len(t.acct)+2+len(amount)+1, nm, false, added, ti)
	}
	b.ln("    " + t.acct + "  " + amount + " " + t.comm)
	b.ln("    eq:open")
	b.f.txs = append(b.f.txs, t)
}

// c09Build: the workspace of the derivation.
//   n files f0..f(n-1); topo 0 chain (fi includes fi+1), 1 star (f0 includes all), 2 tree (f0: f1,f2; f1: f3)
//   full: every file may carry a second transaction and every declaration is free; otherwise declarations follow declPat
func c09Build(n int, full bool) *c09WS {
	w := &c09WS{n: n, edit: -1}
	w.kind = zzverif.Choice("kind", 3)
	topo := 0
	if n > 2 {
		nt := 2
		if n > 3 {
			nt = 3
		}
		topo = zzverif.Choice("topo", nt)
	}
	w.ws = zzverif.Choice("workspace", 2) == 1
	w.req = zzverif.Choice("req", n)
	if zzverif.Choice("edit", 2) == 1 {
		w.edit = 1
		if full && n > 2 {
			w.edit = 1 + zzverif.Choice("editfile", n-1)
		}
	}
	declPat := 0
	if !full && w.kind != c09Payee {
		declPat = zzverif.Choice("decls", 3) // 0 none, 1 every file declares pool[0], 2 only the last file declares pool[0]
	}
	for i := 0; i < n; i++ {
		f := &c09File{name: "f" + zzverif.Itoa(i) + ".journal"}
		w.files = append(w.files, f)
		switch topo {
		case 0:
			if i+1 < n {
				f.includes = []int{i + 1}
			}
		case 1:
			if i == 0 {
				for j := 1; j < n; j++ {
					f.includes = append(f.includes, j)
				}
			}
		case 2:
			if i == 0 {
				f.includes = []int{1, 2}
			} else if i == 1 {
				f.includes = []int{3}
			}
		}
	}
	for i, f := range w.files {
		b := &c09FB{w: w, f: f, fi: i}
		for _, j := range f.includes {
			b.ln("include f" + zzverif.Itoa(j) + ".journal")
		}
		if w.kind != c09Payee {
			id := "decl" + zzverif.Itoa(i)
			if full {
				if zzverif.Choice(id+".on", 2) == 1 {
					b.decl(w.kind, w.pick(id))
				}
			} else if declPat == 1 || (declPat == 2 && i == n-1) {
				b.decl(w.kind, 0)
			}
		}
		day := zzverif.Itoa(i + 1)
		b.tx("2024-01-0"+day, w.pick("n"+zzverif.Itoa(i)+".1"), "1", false)
		if full && zzverif.Choice("tx2."+zzverif.Itoa(i), 2) == 1 {
			b.ln("")
			b.tx("2024-02-0"+day, w.pick("n"+zzverif.Itoa(i)+".2"), "2", false)
		}
		f.disk = b.text
		f.ndiskTx = len(f.txs)
		if i == w.edit {
			f.edited = true
			b.tx("2024-03-0"+day, w.pick("added"), "3", true)
		}
		f.cur = b.text
		f.lineOff = append(f.lineOff, b.off) // the empty last line
		f.lineLen = append(f.lineLen, 0)
	}
	return w
}

// subtree: files reachable from i through includes (i included).
func (w *c09WS) subtree(i int) []bool {
	seen := make([]bool, w.n)
	var visit func(int)
	visit = func(k int) {
		if seen[k] {
			return
		}
		seen[k] = true
		for _, j := range w.files[k].includes {
			visit(j)
		}
	}
	visit(i)
	return seen
}

type c09Loc struct {
	file, line, s int
	eline, e      uint32
}

func c09KnownReach(cls string) bool {
	if zzverif.Known(cls) {
		zzverif.Reach("kf:" + cls)
		return true
	}
	return false
}

// want: the locations the derivation demands for the symbol `name`, declarations iff asked. The ideal is: every
// occurrence in every file of the tree, each in the editor's view of its file. Known classes replace the ideal by what
// their cause produces, so that everything else stays checked.
func (w *c09WS) want(name int, withDecl bool, fromDecl bool) []c09Loc {
	if fromDecl && c09KnownReach(c09ClsFromDecl) {
		return nil
	}
	visible := make([]bool, w.n)
	for i := range visible {
		visible[i] = true
	}
	if !w.ws && w.req != 0 && c09KnownReach(c09ClsSubtree) {
		visible = w.subtree(w.req)
	}
	relabel := w.ws && w.req != 0 && c09KnownReach(c09ClsRelabel)
	var out []c09Loc
	for i, f := range w.files {
		if !visible[i] {
			continue
		}
		attributed := i
		if relabel {
			if i == w.req {
				continue // the requesting file's own tree is replaced by the root's
			}
			if i == 0 {
				attributed = w.req
			}
		}
		stale := !w.ws && f.edited && i != w.req && zzverif.Known(c09ClsStale)
		for _, o := range f.occs {
			if o.name != name || (o.decl && !withDecl) {
				continue
			}
			if o.added && stale {
				zzverif.Reach("kf:" + c09ClsStale)
				continue
			}
			l := c09Loc{file: attributed, line: o.line, s: o.s, eline: uint32(o.line), e: uint32(o.e)}
			if o.decl && c09KnownReach(c09ClsDirNoEnd) {
				l.eline, l.e = 0xFFFFFFFF, 0xFFFFFFFF
			}
			out = append(out, l)
		}
	}
	return out
}

func (w *c09WS) fileOf(u protocol.DocumentURI) int {
	for i := range w.files {
		if w.uri(i) == u {
			return i
		}
	}
	return -1
}

func (w *c09WS) dump(what string, got []protocol.Location, want []c09Loc) {
	if zzverif.Engine() {
		return
	}
	fmt.Printf("DUMP %s kind=%d ws=%v req=%d edit=%d\n", what, w.kind, w.ws, w.req, w.edit)
	for i, f := range w.files {
		fmt.Printf("--- f%d (edited=%v)\n%s", i, f.edited, f.cur)
	}
	for _, g := range got {
		fmt.Printf("  got  f%d %d:%d-%d:%d\n", w.fileOf(g.URI), g.Range.Start.Line, g.Range.Start.Character, g.Range.End.Line, g.Range.End.Character)
	}
	for _, l := range want {
		fmt.Printf("  want f%d %d:%d-%d:%d\n", l.file, l.line, l.s, l.eline, l.e)
	}
}

func c09Same(g protocol.Location, gf int, l c09Loc) bool {
	return gf == l.file && g.Range.Start.Line == uint32(l.line) && g.Range.Start.Character == uint32(l.s) && g.Range.End.Line == l.eline && g.Range.End.Character == l.e
}

// compare: got == want as sets, each location attributed to the file that contains it.
func (w *c09WS) compare(what string, got []protocol.Location, want []c09Loc) {
	ok := len(got) == len(want)
	for _, g := range got {
		gf := w.fileOf(g.URI)
		found := false
		for _, l := range want {
			if c09Same(g, gf, l) {
				found = true
			}
		}
		ok = ok && found
	}
	for _, l := range want {
		found := false
		for _, g := range got {
			if c09Same(g, w.fileOf(g.URI), l) {
				found = true
			}
		}
		ok = ok && found
	}
	if !ok {
		w.dump(what, got, want)
	}
	zzverif.Assert(ok, what+": locations differ from the symbol's occurrences")
}

// open drives the server up to the point of the request.
func (w *c09WS) open() *Server {
	ctx := context.Background()
	for i, f := range w.files {
		zzverif.WriteFile(w.path(i), f.disk)
	}
	s := NewServer()
	s.SetClient(&zzClient{})
	ip := &protocol.InitializeParams{}
	if w.ws {
		ip.RootURI = protocol.DocumentURI("file://" + zzverif.Root())
	}
	_, _ = s.Initialize(ctx, ip)
	_ = s.Initialized(ctx, &protocol.InitializedParams{})
	sync := func(i int, text string) {
		if zzverif.Engine() {
			for zzverif.PendingTasks() > 0 {
				zzverif.RunTask(0)
			}
		} else {
			s.publishDiagnostics(ctx, w.uri(i), text) // natively: run the background task synchronously as well
		}
	}
	if w.edit >= 0 {
		f := w.files[w.edit]
		_ = s.DidOpen(ctx, &protocol.DidOpenTextDocumentParams{TextDocument: protocol.TextDocumentItem{URI: w.uri(w.edit), Text: f.disk, Version: 1}})
		sync(w.edit, f.disk)
		_ = s.DidChange(ctx, &protocol.DidChangeTextDocumentParams{
			TextDocument:   protocol.VersionedTextDocumentIdentifier{TextDocumentIdentifier: protocol.TextDocumentIdentifier{URI: w.uri(w.edit)}, Version: 2},
			ContentChanges: []protocol.TextDocumentContentChangeEvent{{Text: f.cur}}})
		sync(w.edit, f.cur)
	}
	if w.req != w.edit {
		_ = s.DidOpen(ctx, &protocol.DidOpenTextDocumentParams{TextDocument: protocol.TextDocumentItem{URI: w.uri(w.req), Text: w.files[w.req].cur, Version: 1}})
		sync(w.req, w.files[w.req].cur)
	}
	return s
}

// applyEdits: the reference applier for one file (ASCII: characters are bytes): edits must be valid, non-overlapping
// ranges; they are applied from the last to the first.
func (f *c09File) applyEdits(edits []protocol.TextEdit, what string) (string, bool) {
	type span struct{ s, e int; text string }
	var spans []span
	for _, e := range edits {
		sl, el := int(e.Range.Start.Line), int(e.Range.End.Line)
		valid := e.Range.End.Line < uint32(len(f.lineOff)) && sl <= el &&
			e.Range.Start.Character <= uint32(f.lineLen[sl]) && e.Range.End.Character <= uint32(f.lineLen[el])
		zzverif.Assert(valid, what+": edit range lies outside the document")
		if !valid {
			return "", false
		}
		sp := span{f.lineOff[sl] + int(e.Range.Start.Character), f.lineOff[el] + int(e.Range.End.Character), e.NewText}
		zzverif.Assert(sp.s <= sp.e, what+": edit range start after end")
		spans = append(spans, sp)
	}
	// insertion sort by start
	for i := 1; i < len(spans); i++ {
		for j := i; j > 0 && spans[j].s < spans[j-1].s; j-- {
			spans[j], spans[j-1] = spans[j-1], spans[j]
		}
	}
	for i := 1; i < len(spans); i++ {
		zzverif.Assert(spans[i-1].e <= spans[i].s, what+": overlapping edits")
	}
	out := f.cur
	for i := len(spans) - 1; i >= 0; i-- {
		out = out[:spans[i].s] + spans[i].text + out[spans[i].e:]
	}
	return out, true
}

// expectText: the file's text with the name substituted at the listed occurrences.
func (w *c09WS) expectText(fi int, locs []c09Loc, newName string) string {
	f := w.files[fi]
	out := f.cur
	// occurrences are on distinct lines: substitute from the last line to the first
	for line := len(f.lineOff) - 1; line >= 0; line-- {
		for _, l := range locs {
			if l.file == fi && l.line == line {
				o := f.lineOff[line]
				end := int(l.e)
				if l.eline == 0xFFFFFFFF { // declaration without end (known class): the name runs to the end of the line
					end = f.lineLen[line]
				}
				out = out[:o+l.s] + newName + out[o+end:]
			}
		}
	}
	return out
}

func verifC09(n int, full bool) {
	w := c09Build(n, full)
	f := w.files[w.req]
	// cursor: every occurrence in the requesting file, every character on it
	zzverif.Assume(len(f.occs) > 0)
	oc := f.occs[zzverif.Choice("occ", len(f.occs))]
	ch := zzverif.Uint32("ch")
	zzverif.Assume(ch >= uint32(oc.s) && ch < uint32(oc.e))
	s := w.open()
	ctx := context.Background()
	tdp := protocol.TextDocumentPositionParams{TextDocument: protocol.TextDocumentIdentifier{URI: w.uri(w.req)}, Position: protocol.Position{Line: uint32(oc.line), Character: ch}}

	for _, withDecl := range []bool{false, true} {
		got, err := s.References(ctx, &protocol.ReferenceParams{TextDocumentPositionParams: tdp, Context: protocol.ReferenceContext{IncludeDeclaration: withDecl}})
		zzverif.Assert(err == nil, "references: error")
		what := "references"
		if withDecl {
			what = "references with declarations"
		}
		w.compare(what, got, w.want(oc.name, withDecl, oc.decl))
	}
	zzverif.Reach("C09.references")

	newName := c09New[w.kind]
	we, err := s.Rename(ctx, &protocol.RenameParams{TextDocumentPositionParams: tdp, NewName: newName})
	zzverif.Assert(err == nil, "rename: error")
	want := w.want(oc.name, true, oc.decl)
	var edits []protocol.Location
	nEdits := 0
	if we != nil {
		for u, es := range we.Changes {
			nEdits += len(es)
			zzverif.Assert(w.fileOf(u) >= 0, "rename: edits for a document that is not part of the workspace")
			for _, e := range es {
				zzverif.Assert(e.NewText == newName, "rename: edit text is not the new name")
				edits = append(edits, protocol.Location{URI: u, Range: e.Range})
			}
		}
	}
	w.compare("rename", edits, want)
	if w.ws && w.req != 0 && zzverif.Known(c09ClsRelabel) {
		// edits are attributed to the wrong file: applying them is meaningless
		zzverif.Reach("C09.rename.skipped-apply")
		return
	}
	// apply with the reference applier, compare with the derivation, re-parse
	for fi, fl := range w.files {
		var es []protocol.TextEdit
		if we != nil {
			es = we.Changes[w.uri(fi)]
		}
		if zzverif.Known(c09ClsDirNoEnd) {
			// declarations without end (known class): read the edit as running to the end of its line
			for k := range es {
				if es[k].Range.End.Line == 0xFFFFFFFF && es[k].Range.Start.Line < uint32(len(fl.lineLen)) {
					es[k].Range.End = protocol.Position{Line: es[k].Range.Start.Line, Character: uint32(fl.lineLen[es[k].Range.Start.Line])}
				}
			}
		}
		gotText, ok := fl.applyEdits(es, "rename")
		if !ok {
			continue
		}
		wantText := w.expectText(fi, want, newName)
		if gotText != wantText && !zzverif.Engine() {
			fmt.Printf("DUMP rename f%d\n--- got\n%s--- want\n%s", fi, gotText, wantText)
		}
		zzverif.Assert(gotText == wantText, "rename: applying the edits does not yield the text with the name substituted")
		w.reparse(fi, gotText, want, newName)
	}
	zzverif.Reach("C09.rename")
}

// reparse: the renamed file parses to the original structure with the name substituted.
func (w *c09WS) reparse(fi int, text string, renamed []c09Loc, newName string) {
	f := w.files[fi]
	j, errs := parser.Parse(text)
	zzverif.Assert(len(errs) == 0, "rename: the renamed journal no longer parses")
	zzverif.Assert(len(j.Transactions) == len(f.txs) && len(j.Directives) == f.ndirs && len(j.Includes) == len(f.includes), "rename: the renamed journal has a different structure")
	if len(j.Transactions) != len(f.txs) || len(j.Directives) != f.ndirs {
		return
	}
	isRenamed := func(o c09Occ) bool {
		for _, l := range renamed {
			if l.file == fi && l.line == o.line && l.s == o.s {
				return true
			}
		}
		return false
	}
	for _, o := range f.occs {
		if !o.decl {
			continue
		}
		wantName := c09Pool[w.kind][o.name]
		if isRenamed(o) {
			wantName = newName
		}
		gotName := ""
		switch d := j.Directives[o.tx].(type) {
		case ast.AccountDirective:
			gotName = d.Account.Name
		case ast.CommodityDirective:
			gotName = d.Commodity.Symbol
		}
		zzverif.Assert(gotName == wantName, "rename: a declaration of the renamed journal differs from the original with the name substituted")
	}
	for ti, t := range f.txs {
		want := t
		for _, o := range f.occs {
			if !o.decl && o.tx == ti && isRenamed(o) {
				switch w.kind {
				case c09Acct:
					want.acct = newName
				case c09Comm:
					want.comm = newName
				case c09Payee:
					want.payee = newName
				}
			}
		}
		g := j.Transactions[ti]
		ok := g.Description == want.payee && len(g.Postings) == 2 && g.Postings[0].Account.Name == want.acct &&
			g.Postings[0].Amount != nil && g.Postings[0].Amount.Commodity.Symbol == want.comm && g.Postings[0].Amount.RawQuantity == want.amount &&
			g.Postings[1].Account.Name == "eq:open" && g.Postings[1].Amount == nil
		zzverif.Assert(ok, "rename: a transaction of the renamed journal differs from the original with the name substituted")
	}
}

func VerifC09Two()       { verifC09(2, true) }
func VerifC09Three()     { verifC09(3, false) }
func VerifC09ThreeLong() { verifC09(3, true) }
func VerifC09FourLong()  { verifC09(4, false) }
