//go:build verif

package server

// C13 Published diagnostics converge to the latest content under any timing.
//
// Every didOpen / didChange spawns `go s.publishDiagnostics(ctx, uri, content)`. Under the
// engine the spawned call is a pending task; the harness runs the pending tasks in an order
// chosen by case split (every permutation of the burst is a path), the content leaves stay
// symbolic, and the solver decides whether the last publication per document equals the
// diagnostics of the latest content (computed by a fresh, settled server on that content).
//
// Native replay realises the same schedule without goroutines: while notifications are sent
// the client is detached (the spawned goroutines return at once at `s.client == nil`), then
// the harness calls s.publishDiagnostics(uri, content_i) itself in the chosen order — the
// same atomic-task granularity the engine models.

import (
	"context"
	"time"

	"go.lsp.dev/protocol"

	"github.com/juev/hledger-lsp/internal/zzverif"
)

func init() {
	zzverif.Register("VerifC13Burst", VerifC13Burst)
	zzverif.Register("VerifC13BurstLong", VerifC13BurstLong)
	zzverif.Register("VerifC13TwoDocs", VerifC13TwoDocs)
	zzverif.Register("VerifC13TwoDocsLong", VerifC13TwoDocsLong)
	zzverif.Register("VerifC13Workspace", VerifC13Workspace)
}

func VerifC13Burst()       { c13Burst(2, 3, 1, false, 3) }
func VerifC13BurstLong()   { c13Burst(2, 4, 1, false, 3) }
func VerifC13TwoDocs()     { c13Burst(2, 2, 2, false, 1) }
func VerifC13TwoDocsLong() { c13Burst(2, 2, 2, false, 2) }
func VerifC13Workspace()   { c13Burst(2, 3, 1, true, 3) }

type c13Task struct {
	uri     protocol.DocumentURI
	content string
}

type c13World struct {
	ctx     context.Context
	s       *Server
	cl      *zzClient
	pending []c13Task
}

// notify sends one notification; the background task it spawns becomes pending.
func (w *c13World) notify(uri protocol.DocumentURI, f func()) {
	if zzverif.Engine() {
		f()
	} else {
		w.s.client = nil
		f()
		time.Sleep(5 * time.Millisecond)
		w.s.client = w.cl
	}
	if c, ok := w.s.GetDocument(uri); ok {
		w.pending = append(w.pending, c13Task{uri, c})
	}
}

// run lets the i-th pending background task run to completion.
func (w *c13World) run(i int) {
	t := w.pending[i]
	w.pending = append(append([]c13Task{}, w.pending[:i]...), w.pending[i+1:]...)
	if zzverif.Engine() {
		zzverif.RunTask(i)
	} else {
		w.s.publishDiagnostics(w.ctx, t.uri, t.content)
	}
}

// c13Text: one version of a document. The amount digit and the payee letter are symbolic,
// so whether the version balances (and therefore which diagnostics it has) is decided by
// the solver; shape adds a syntax error line or an amount-less pair.
func c13Text(name string, shapes int) string {
	d := zzverif.Digits(name+".d", 1)
	p := zzverif.Text(name+".p", "abcXYZ", 1)
	switch zzverif.Choice(name+".shape", shapes) {
	case 0:
		return "2024-01-15 " + p + "\n    a:b  " + d + " USD\n    c:d  -1 USD\n"
	case 1:
		return "2024-01-15 " + p + "\n    a:b  " + d + " USD\n    c:d\n    e:f\n"
	default:
		return "2024-01-15 " + p + "\n    a:b  " + d + " USD\n    c:d  -" + d + " USD\n)\n"
	}
}

type c13Diag struct {
	r    protocol.Range
	sev  protocol.DiagnosticSeverity
	code string
}

func c13Key(d protocol.Diagnostic) c13Diag {
	code, _ := d.Code.(string)
	return c13Diag{d.Range, d.Severity, code}
}

// c13Same: same diagnostics (range, severity, code, in order). Message texts contain
// rendered decimals, which are opaque to the solver; they are compared when both are concrete.
func c13Same(a, b []protocol.Diagnostic) bool {
	if len(a) != len(b) {
		return false
	}
	for i := range a {
		if c13Key(a[i]) != c13Key(b[i]) {
			return false
		}
	}
	return true
}

// c13Fresh: the diagnostics a fresh server publishes for content once settled.
func c13Fresh(root string, ws bool, uri protocol.DocumentURI, content string) []protocol.Diagnostic {
	ctx := context.Background()
	s := NewServer()
	cl := &zzClient{}
	s.SetClient(cl)
	w := &c13World{ctx: ctx, s: s, cl: cl}
	if ws {
		_, _ = s.Initialize(ctx, &protocol.InitializeParams{RootURI: protocol.DocumentURI("file://" + root)})
		_ = s.Initialized(ctx, &protocol.InitializedParams{})
		if zzverif.Engine() {
			for zzverif.PendingTasks() > 0 {
				zzverif.RunTask(0)
			}
		}
	} else {
		_, _ = s.Initialize(ctx, &protocol.InitializeParams{})
	}
	w.notify(uri, func() {
		_ = s.DidOpen(ctx, &protocol.DidOpenTextDocumentParams{TextDocument: protocol.TextDocumentItem{URI: uri, Text: content}})
	})
	w.run(0)
	p := cl.last(uri)
	if p == nil {
		return nil
	}
	return p.Diagnostics
}

// c13Burst: ndocs documents, each opened and then changed up to maxChanges-1.. times
// (burst length = minChanges..maxChanges notifications per document including the open),
// then all pending background tasks run in an order chosen by case split.
func c13Burst(minN, maxN, ndocs int, ws bool, shapes int) {
	ctx := context.Background()
	root := zzverif.Root()
	s := NewServer()
	cl := &zzClient{}
	s.SetClient(cl)
	w := &c13World{ctx: ctx, s: s, cl: cl}
	if ws {
		zzverif.WriteFile(root+"/main.journal", "account a:b\n")
		_, _ = s.Initialize(ctx, &protocol.InitializeParams{RootURI: protocol.DocumentURI("file://" + root)})
		_ = s.Initialized(ctx, &protocol.InitializedParams{})
		if zzverif.Engine() {
			for zzverif.PendingTasks() > 0 {
				zzverif.RunTask(0)
			}
		}
	} else {
		_, _ = s.Initialize(ctx, &protocol.InitializeParams{})
	}
	uris := make([]protocol.DocumentURI, ndocs)
	latest := make([]string, ndocs)
	n := minN + zzverif.Choice("burst", maxN-minN+1)
	for d := 0; d < ndocs; d++ {
		uris[d] = protocol.DocumentURI("file://" + root + "/doc" + zzverif.Itoa(d) + ".journal")
	}
	// notifications: document d's i-th version; documents interleaved round-robin
	for i := 0; i < n; i++ {
		for d := 0; d < ndocs; d++ {
			uri := uris[d]
			text := c13Text("v"+zzverif.Itoa(d)+"."+zzverif.Itoa(i), shapes)
			latest[d] = text
			if i == 0 {
				w.notify(uri, func() {
					_ = s.DidOpen(ctx, &protocol.DidOpenTextDocumentParams{TextDocument: protocol.TextDocumentItem{URI: uri, Text: text}})
				})
			} else {
				w.notify(uri, func() {
					_ = s.DidChange(ctx, &protocol.DidChangeTextDocumentParams{
						TextDocument:   protocol.VersionedTextDocumentIdentifier{TextDocumentIdentifier: protocol.TextDocumentIdentifier{URI: uri}},
						ContentChanges: []protocol.TextDocumentContentChangeEvent{{Text: text}},
					})
				})
			}
		}
	}
	zzverif.Assert(len(w.pending) == n*ndocs, "C13: one background analysis per notification")
	// schedule: every order in which the background analyses run to their publish point
	step := 0
	for len(w.pending) > 0 {
		k := 0
		if len(w.pending) > 1 {
			k = zzverif.Choice("order."+zzverif.Itoa(step), len(w.pending))
		}
		w.run(k)
		step++
	}
	for d := 0; d < ndocs; d++ {
		got := cl.last(uris[d])
		zzverif.Assert(got != nil, "C13: something was published for the document")
		if got == nil {
			return
		}
		want := c13Fresh(root, ws, uris[d], latest[d])
		zzverif.Observe("ndiag."+zzverif.Itoa(d), len(got.Diagnostics))
		zzverif.Observe("got."+zzverif.Itoa(d), c13Codes(got.Diagnostics))
		zzverif.Observe("want."+zzverif.Itoa(d), c13Codes(want))
		zzverif.Assert(c13Same(got.Diagnostics, want), "C13: last published diagnostics are those of the latest content")
	}
	zzverif.Reach("C13.converge")
}

func c13Codes(ds []protocol.Diagnostic) string {
	out := ""
	for _, d := range ds {
		k := c13Key(d)
		out += zzverif.Itoa(int(k.r.Start.Line)) + ":" + k.code + " "
	}
	return out
}
