//go:build verif

package server

// C13 Published diagnostics converge to the latest content under any timing.
//
// Every didOpen / didChange spawns `go s.publishDiagnostics(ctx, uri, content)`. Under the
// engine the spawned call is a pending task; the harness runs the pending tasks in an order
// chosen by case split (every permutation of the burst is a path), the content leaves stay
// symbolic, and the solver decides whether the last publication per document equals the
// diagnostics of the latest content (computed by a fresh, settled server on that content).
//
// Native replay realises the same schedule without goroutines: while notifications are sent
// the client is detached (the spawned goroutines return at once at `s.client == nil`), then
// the harness calls s.publishDiagnostics(uri, content_i) itself in the chosen order — the
// same atomic-task granularity the engine models.

import (
	"context"
	"os"
	"sync"
	"time"

	"go.lsp.dev/protocol"

	"github.com/juev/hledger-lsp/internal/zzverif"
)

func init() {
	zzverif.Register("VerifC13Burst", VerifC13Burst)
	zzverif.Register("VerifC13BurstLong", VerifC13BurstLong)
	zzverif.Register("VerifC13TwoDocs", VerifC13TwoDocs)
	zzverif.Register("VerifC13TwoDocsLong", VerifC13TwoDocsLong)
	zzverif.Register("VerifC13Workspace", VerifC13Workspace)
	zzverif.Register("VerifC13Interleave", VerifC13Interleave)
	zzverif.Register("VerifC13Empty", VerifC13Empty)
	zzverif.Register("VerifC13Reopen", VerifC13Reopen)
	zzverif.Register("VerifC13InterleaveLong", VerifC13InterleaveLong)
}

func VerifC13Burst()       { c13Burst(2, 3, 1, false, 3, false) }
func VerifC13BurstLong()   { c13Burst(2, 4, 1, false, 3, false) }
func VerifC13TwoDocs()     { c13Burst(2, 2, 2, false, 1, false) }
func VerifC13TwoDocsLong() { c13Burst(2, 2, 2, false, 2, false) }
func VerifC13Workspace()   { c13Burst(2, 3, 1, true, 3, false) }

// notifications interleaved with analyses and deliveries
func VerifC13Interleave()     { c13Burst(2, 3, 1, false, 2, true) }
func VerifC13InterleaveLong() { c13Burst(2, 4, 1, false, 2, true) }

// the latest text may be empty (select all, delete)
// VerifC13Reopen: numbered notifications; the document is opened (and changed), closed and
// opened again with another text while analyses of the first session may still be pending.
func VerifC13Reopen() {
	c13Reopen = true
	c13Burst(1, 2, 1, false, 2, true)
}

func VerifC13Empty() { c13Burst(2, 3, 1, false, 4, false) }

type c13Task struct {
	uri     protocol.DocumentURI
	content string
}

// c13Client: PublishDiagnostics calls made while the server holds its publish lock reach
// the client in call order (the call is synchronous with the wire); a call made with the
// lock released can be overtaken by later ones, so it is DEFERRED: it stays pending until
// the schedule delivers it.
type c13Client struct {
	zzClient
	s        *Server
	deferred []*protocol.PublishDiagnosticsParams
	// during: what else happens while an ordered publication is on the wire (the server is
	// inside the client call and holds its publish lock): set by the schedule
	during func()
}

func (c *c13Client) PublishDiagnostics(_ context.Context, p *protocol.PublishDiagnosticsParams) error {
	if c.s.publishMu.TryLock() {
		// lock not held: nothing orders this call against other publishers
		c.s.publishMu.Unlock()
		c.deferred = append(c.deferred, p)
		return nil
	}
	c.published = append(c.published, p)
	if c.during != nil {
		c.during()
	}
	return nil
}

func (c *c13Client) deliver(j int) {
	c.published = append(c.published, c.deferred[j])
	c.deferred = append(append([]*protocol.PublishDiagnosticsParams{}, c.deferred[:j]...), c.deferred[j+1:]...)
}

type c13World struct {
	ctx     context.Context
	s       *Server
	cl      *c13Client
	pending []c13Task // native twin of the engine's pending background tasks
}

func c13NewWorld() *c13World {
	s := NewServer()
	cl := &c13Client{s: s}
	s.SetClient(cl)
	return &c13World{ctx: context.Background(), s: s, cl: cl}
}

// notify sends one notification; the background task it spawns becomes pending.
// Natively the spawned goroutine is muted (client detached) and the task is emulated by a
// direct call in run(): one analysis of (uri, content) per notification, as the server
// spawns them today. If the server's spawning changes, the emulation no longer mirrors the
// engine and the driver falls back to the real-goroutine replay (c13Real).
func (w *c13World) notify(uri protocol.DocumentURI, f func()) {
	if zzverif.Engine() {
		f()
		return
	}
	zzMuted(w.s, w.cl, f)
	if c, ok := w.s.GetDocument(uri); ok {
		w.pending = append(w.pending, c13Task{uri, c})
	}
}

func (w *c13World) npending() int {
	if zzverif.Engine() {
		return zzverif.PendingTasks()
	}
	return len(w.pending)
}

// run lets the i-th pending background task run to completion.
func (w *c13World) run(i int) {
	if zzverif.Engine() {
		zzverif.RunTask(i)
		return
	}
	t := w.pending[i]
	w.pending = append(append([]c13Task{}, w.pending[:i]...), w.pending[i+1:]...)
	w.s.publishDiagnostics(w.ctx, t.uri, t.content)
}

// settle runs everything that is pending, in order (used where the schedule is not the subject).
func (w *c13World) settle() {
	for w.npending() > 0 {
		w.run(0)
	}
	for len(w.cl.deferred) > 0 {
		w.cl.deliver(0)
	}
}

// c13Text: one version of a document. The amount digit and the payee letter are symbolic,
// so whether the version balances (and therefore which diagnostics it has) is decided by
// the solver; shape adds a syntax error line or an amount-less pair.
func c13Text(name string, shapes int) string {
	d := zzverif.Digits(name+".d", 1)
	p := zzverif.Text(name+".p", "abcXYZ", 1)
	switch zzverif.Choice(name+".shape", shapes) {
	case 3: // everything selected and deleted
		return ""
	case 0:
		return "2024-01-15 " + p + "\n    a:b  " + d + " USD\n    c:d  -1 USD\n"
	case 1:
		return "2024-01-15 " + p + "\n    a:b  " + d + " USD\n    c:d\n    e:f\n"
	default:
		return "2024-01-15 " + p + "\n    a:b  " + d + " USD\n    c:d  -" + d + " USD\n)\n"
	}
}

type c13Diag struct {
	r    protocol.Range
	sev  protocol.DiagnosticSeverity
	code string
}

func c13Key(d protocol.Diagnostic) c13Diag {
	code, _ := d.Code.(string)
	return c13Diag{d.Range, d.Severity, code}
}

// c13Same: same diagnostics (range, severity, code, in order). Message texts contain
// rendered decimals, which are opaque to the solver; they are compared when both are concrete.
func c13Same(a, b []protocol.Diagnostic) bool {
	if len(a) != len(b) {
		return false
	}
	for i := range a {
		if c13Key(a[i]) != c13Key(b[i]) {
			return false
		}
	}
	return true
}

// c13Fresh: the diagnostics a fresh server publishes for content once settled.
func c13Fresh(root string, ws bool, uri protocol.DocumentURI, content string) []protocol.Diagnostic {
	w := c13NewWorld()
	c13Init(w, root, ws)
	w.notify(uri, func() {
		_ = w.s.DidOpen(w.ctx, &protocol.DidOpenTextDocumentParams{TextDocument: protocol.TextDocumentItem{URI: uri, Text: content}})
	})
	w.settle()
	p := w.cl.last(uri)
	if p == nil {
		return nil
	}
	return p.Diagnostics
}

func c13Init(w *c13World, root string, ws bool) {
	if ws {
		_, _ = w.s.Initialize(w.ctx, &protocol.InitializeParams{RootURI: protocol.DocumentURI("file://" + root)})
		_ = w.s.Initialized(w.ctx, &protocol.InitializedParams{})
		if zzverif.Engine() {
			for zzverif.PendingTasks() > 0 {
				zzverif.RunTask(0)
			}
		}
	} else {
		_, _ = w.s.Initialize(w.ctx, &protocol.InitializeParams{})
	}
}

type c13Note struct {
	doc   int
	text  string
	open  bool
	close bool
	ver   int32 // LSP document version (0: the client numbers nothing)
}

// c13Reopen: the burst numbers its notifications like a client does (didOpen carries version 1,
// every change the next number) and document 0 is closed and opened again with another text at
// the end - the numbering starts again at 1, so a version seen before names a different text.
var c13Reopen bool

func (w *c13World) send(uris []protocol.DocumentURI, n c13Note) {
	uri, text := uris[n.doc], n.text
	if n.close {
		w.notify(uri, func() {
			_ = w.s.DidClose(w.ctx, &protocol.DidCloseTextDocumentParams{TextDocument: protocol.TextDocumentIdentifier{URI: uri}})
		})
		return
	}
	if n.open {
		w.notify(uri, func() {
			_ = w.s.DidOpen(w.ctx, &protocol.DidOpenTextDocumentParams{TextDocument: protocol.TextDocumentItem{URI: uri, Text: text, Version: n.ver}})
		})
		return
	}
	w.notify(uri, func() {
		_ = w.s.DidChange(w.ctx, &protocol.DidChangeTextDocumentParams{
			TextDocument:   protocol.VersionedTextDocumentIdentifier{TextDocumentIdentifier: protocol.TextDocumentIdentifier{URI: uri}, Version: n.ver},
			ContentChanges: []protocol.TextDocumentContentChangeEvent{{Text: text}},
		})
	})
}

// c13Burst: ndocs documents, each opened and then changed (minN..maxN notifications per
// document including the open, documents interleaved round-robin). The schedule is a case
// split at every step among: send the next notification (when interleave is on; otherwise
// all notifications are sent first), run one of the pending background analyses to its
// end, deliver one of the deferred publications. It ends when nothing is left.
func c13Burst(minN, maxN, ndocs int, ws bool, shapes int, interleave bool) {
	root := zzverif.Root()
	if ws {
		zzverif.WriteFile(root+"/main.journal", "account a:b\n")
	}
	w := c13NewWorld()
	c13Init(w, root, ws)
	uris := make([]protocol.DocumentURI, ndocs)
	latest := make([]string, ndocs)
	n := minN + zzverif.Choice("burst", maxN-minN+1)
	for d := 0; d < ndocs; d++ {
		uris[d] = protocol.DocumentURI("file://" + root + "/doc" + zzverif.Itoa(d) + ".journal")
	}
	var notes []c13Note
	for i := 0; i < n; i++ {
		for d := 0; d < ndocs; d++ {
			nt := c13Note{doc: d, text: c13Text("v"+zzverif.Itoa(d)+"."+zzverif.Itoa(i), shapes), open: i == 0}
			if c13Reopen {
				nt.ver = int32(i + 1)
			}
			notes = append(notes, nt)
		}
	}
	if c13Reopen {
		notes = append(notes, c13Note{doc: 0, close: true}, c13Note{doc: 0, text: c13Text("v0.re", shapes), open: true, ver: 1})
	}
	if c13RealMode() {
		c13Real(w, root, ws, uris, notes)
		return
	}
	next := 0
	if !interleave {
		for ; next < len(notes); next++ {
			w.send(uris, notes[next])
			latest[notes[next].doc] = notes[next].text
		}
	}
	if interleave {
		// while an ordered publication is inside the client call, the next notification may
		// arrive and pending analyses may run (nested; an analysis that would have to wait for
		// the publish lock cannot be run this way: the engine cuts that path)
		calls := 0
		w.cl.during = func() {
			calls++
			for act := 0; act < 2; act++ { // e.g. the next change arrives and its analysis starts
				nm := "during." + zzverif.Itoa(calls) + "." + zzverif.Itoa(act)
				nn := 0
				if next < len(notes) {
					nn = 1
				}
				total := 1 + nn + w.npending()
				if total == 1 {
					return
				}
				k := zzverif.Choice(nm, total)
				switch {
				case k == 0:
					return
				case k <= nn:
					w.send(uris, notes[next])
					latest[notes[next].doc] = notes[next].text
					next++
				default:
					w.run(k - 1 - nn)
				}
			}
		}
	}
	for step := 0; ; step++ {
		nn := 0
		if next < len(notes) {
			nn = 1
		}
		nt, nd := w.npending(), len(w.cl.deferred)
		total := nn + nt + nd
		if total == 0 {
			break
		}
		k := 0
		if total > 1 {
			k = zzverif.Choice("sched."+zzverif.Itoa(step), total)
		}
		switch {
		case k < nn:
			w.send(uris, notes[next])
			latest[notes[next].doc] = notes[next].text
			next++
		case k < nn+nt:
			w.run(k - nn)
		default:
			w.cl.deliver(k - nn - nt)
		}
	}
	for d := 0; d < ndocs; d++ {
		got := w.cl.last(uris[d])
		zzverif.Assert(got != nil, "C13: nothing was published for an open document")
		if got == nil {
			return
		}
		want := c13Fresh(root, ws, uris[d], latest[d])
		zzverif.Observe("ndiag."+zzverif.Itoa(d), len(got.Diagnostics))
		zzverif.Observe("got."+zzverif.Itoa(d), c13Codes(got.Diagnostics))
		zzverif.Observe("want."+zzverif.Itoa(d), c13Codes(want))
		zzverif.Assert(c13Same(got.Diagnostics, want), "C13: last published diagnostics are those of the latest content")
	}
	zzverif.Reach("C13.converge")
}

func c13RealMode() bool { return !zzverif.Engine() && os.Getenv("VERIF_ALT") != "" }

// c13Real: second native confirmation, with the server's real goroutines. The burst is sent
// while the settings lock is held (every analysis blocks at its first getSettings), then the
// lock is released and the analyses run under the Go scheduler; once the client has been
// quiet for a while the last publication per document is compared with the fresh server's.
// The schedule is not controlled here; the driver repeats this replay several times.
type c13RealClient struct {
	protocol.Client
	mu        sync.Mutex
	published []*protocol.PublishDiagnosticsParams
}

func (c *c13RealClient) PublishDiagnostics(_ context.Context, p *protocol.PublishDiagnosticsParams) error {
	time.Sleep(time.Duration(len(p.Diagnostics)%3) * time.Millisecond)
	c.mu.Lock()
	c.published = append(c.published, p)
	c.mu.Unlock()
	return nil
}

func (c *c13RealClient) LogMessage(context.Context, *protocol.LogMessageParams) error { return nil }
func (c *c13RealClient) Configuration(context.Context, *protocol.ConfigurationParams) ([]any, error) {
	return nil, nil
}

func (c *c13RealClient) count() int {
	c.mu.Lock()
	defer c.mu.Unlock()
	return len(c.published)
}

func c13Real(w *c13World, root string, ws bool, uris []protocol.DocumentURI, notes []c13Note) {
	rc := &c13RealClient{}
	w.s.SetClient(rc)
	latest := make([]string, len(uris))
	w.s.settingsMu.Lock()
	for _, n := range notes {
		uri, text := uris[n.doc], n.text
		if n.close {
			_ = w.s.DidClose(w.ctx, &protocol.DidCloseTextDocumentParams{TextDocument: protocol.TextDocumentIdentifier{URI: uri}})
			time.Sleep(2 * time.Millisecond)
			continue
		}
		latest[n.doc] = text
		if n.open {
			_ = w.s.DidOpen(w.ctx, &protocol.DidOpenTextDocumentParams{TextDocument: protocol.TextDocumentItem{URI: uri, Text: text, Version: n.ver}})
		} else {
			_ = w.s.DidChange(w.ctx, &protocol.DidChangeTextDocumentParams{
				TextDocument:   protocol.VersionedTextDocumentIdentifier{TextDocumentIdentifier: protocol.TextDocumentIdentifier{URI: uri}, Version: n.ver},
				ContentChanges: []protocol.TextDocumentContentChangeEvent{{Text: text}},
			})
		}
		time.Sleep(2 * time.Millisecond)
	}
	w.s.settingsMu.Unlock()
	for quiet, last := 0, -1; quiet < 15; {
		time.Sleep(10 * time.Millisecond)
		if c := rc.count(); c == last {
			quiet++
		} else {
			quiet, last = 0, c
		}
	}
	rc.mu.Lock()
	defer rc.mu.Unlock()
	for d := range uris {
		var got *protocol.PublishDiagnosticsParams
		for _, p := range rc.published {
			if p.URI == uris[d] {
				got = p
			}
		}
		zzverif.Assert(got != nil, "C13: nothing was published for an open document")
		if got == nil {
			return
		}
		want := c13Fresh(root, ws, uris[d], latest[d])
		zzverif.Assert(c13Same(got.Diagnostics, want), "C13: last published diagnostics are those of the latest content")
	}
}

func c13Codes(ds []protocol.Diagnostic) string {
	out := ""
	for _, d := range ds {
		k := c13Key(d)
		out += zzverif.Itoa(int(k.r.Start.Line)) + ":" + k.code + " "
	}
	return out
}
