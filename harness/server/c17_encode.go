//go:build verif

package server

import (
	"context"

	"go.lsp.dev/protocol"

	"github.com/juev/hledger-lsp/internal/zzverif"
)

func init() {
	zzverif.Register("VerifC17Encode", VerifC17Encode)
	zzverif.Register("VerifC17EncodeLong", VerifC17EncodeLong)
	zzverif.Register("VerifC17Range", VerifC17Range)
	zzverif.Register("VerifC17RangeLong", VerifC17RangeLong)
	zzverif.Register("VerifC17RangeDoc", VerifC17RangeDoc)
}

func c17SymToken(name string) semanticToken {
	return semanticToken{
		line:      zzverif.Uint32(name + ".line"),
		col:       zzverif.Uint32(name + ".col"),
		length:    zzverif.Uint32(name + ".len"),
		tokenType: zzverif.Uint32(name + ".type"),
		modifiers: zzverif.Uint32(name + ".mod"),
	}
}

// c17Decode is the reference client decoder of LSP 3.17 semantic token data: five numbers
// per token, line relative to the previous token, start relative to the previous token
// when on the same line (prefix sums).
func c17Decode(data []uint32) ([]semanticToken, bool) {
	if len(data)%5 != 0 {
		return nil, false
	}
	out := make([]semanticToken, 0, len(data)/5)
	line, col := uint32(0), uint32(0)
	for i := 0; i+4 < len(data); i += 5 {
		dl, dc := data[i], data[i+1]
		nc := dc
		if dl == 0 {
			nc = col + dc
		}
		line += dl
		col = nc
		out = append(out, semanticToken{line: line, col: col, length: data[i+2], tokenType: data[i+3], modifiers: data[i+4]})
	}
	return out, true
}

// c17Ordered: document order without overlap (the precondition under which relative
// encoding is defined), and no wrap-around of col+len.
func c17Ordered(prev, tok semanticToken) bool {
	end := prev.col + prev.length
	return end >= prev.col && (tok.line > prev.line || (tok.line == prev.line && tok.col >= end))
}

// VerifC17Encode: k symbolic tokens, sorted and non-overlapping -> encodeTokens -> the
// reference decoder returns the same tokens.
func verifC17Encode(maxK int) {
	k := zzverif.Choice("k", maxK+1)
	toks := make([]semanticToken, k)
	for i := 0; i < k; i++ {
		toks[i] = c17SymToken("t" + zzverif.Itoa(i))
		if i > 0 {
			zzverif.Assume(c17Ordered(toks[i-1], toks[i]))
		}
	}
	data := encodeTokens(toks)
	zzverif.Assert(data != nil, "encoded data is an array (never null)")
	zzverif.Assert(len(data) == 5*k, "five numbers per token")
	got, ok := c17Decode(data)
	zzverif.Assert(ok && len(got) == k, "decoder accepts the data")
	for i := 0; i < k; i++ {
		zzverif.Assert(got[i] == toks[i], "decode(encode(tokens)) == tokens")
	}
	zzverif.Reach("C17.encode.end")
}

func VerifC17Encode()     { verifC17Encode(4) }
func VerifC17EncodeLong() { verifC17Encode(8) }

// VerifC17Range: symbolic token list (any order) and symbolic line range ->
// filterTokensByRange equals the list restricted to lines [start, end].
func verifC17Range(maxK int) {
	k := zzverif.Choice("k", maxK+1)
	toks := make([]semanticToken, k)
	for i := 0; i < k; i++ {
		toks[i] = c17SymToken("t" + zzverif.Itoa(i))
	}
	r := protocol.Range{
		Start: protocol.Position{Line: zzverif.Uint32("r.sl"), Character: zzverif.Uint32("r.sc")},
		End:   protocol.Position{Line: zzverif.Uint32("r.el"), Character: zzverif.Uint32("r.ec")},
	}
	got := filterTokensByRange(toks, r)
	// reference: walk the input, every token on a requested line must be the next output
	j := 0
	for i := 0; i < k; i++ {
		in := toks[i].line >= r.Start.Line && toks[i].line <= r.End.Line
		if in {
			zzverif.Assert(j < len(got), "a token on a requested line is missing from the range result")
			zzverif.Assert(got[j] == toks[i], "range result keeps tokens unchanged and in order")
			j++
		}
	}
	zzverif.Assert(j == len(got), "range result contains a token outside the requested lines")
	zzverif.Reach("C17.range.end")
}

func VerifC17Range()     { verifC17Range(4) }
func VerifC17RangeLong() { verifC17Range(7) }

const c17RangeDocText = "; head\n2024-01-15 * shop\n    a:b  1 USD\n    c:d\n\naccount a:b\n"

// VerifC17RangeDoc: through the server: semanticTokens/range with a symbolic range equals
// the decoded semanticTokens/full result restricted to the requested lines.
func VerifC17RangeDoc() {
	ctx := context.Background()
	s := NewServer()
	uri := protocol.DocumentURI("file:///w/r.journal")
	s.StoreDocument(uri, c17RangeDocText)
	full, err := s.SemanticTokensFull(ctx, &protocol.SemanticTokensParams{TextDocument: protocol.TextDocumentIdentifier{URI: uri}})
	zzverif.Assert(err == nil && full != nil, "full request succeeds")
	all, ok := c17Decode(full.Data)
	zzverif.Assert(ok && len(all) == 10, "full result decodes (10 tokens in the fixed document)")
	r := protocol.Range{
		Start: protocol.Position{Line: zzverif.Uint32("r.sl"), Character: zzverif.Uint32("r.sc")},
		End:   protocol.Position{Line: zzverif.Uint32("r.el"), Character: zzverif.Uint32("r.ec")},
	}
	res, err := s.SemanticTokensRange(ctx, &protocol.SemanticTokensRangeParams{TextDocument: protocol.TextDocumentIdentifier{URI: uri}, Range: r})
	zzverif.Assert(err == nil && res != nil, "range request succeeds")
	got, ok := c17Decode(res.Data)
	zzverif.Assert(ok, "range result decodes")
	j := 0
	for i := range all {
		if all[i].line >= r.Start.Line && all[i].line <= r.End.Line {
			zzverif.Assert(j < len(got), "range response misses a token of a requested line")
			zzverif.Assert(got[j] == all[i], "range response differs from the full result on the requested lines")
			j++
		}
	}
	zzverif.Assert(j == len(got), "range response has a token outside the requested lines")
	zzverif.Reach("C17.rangedoc.end")
}
