//go:build verif

package server

// C01 (server level): the text the server holds after didOpen / didChange / didClose
// notifications equals the buffer of a reference LSP client (DESIGN §4.4).
//
// The wire decoder is modelled by its documented shape: protocol.TextDocumentContentChangeEvent
// carries Range as a non-pointer struct, so a change without a `range` member arrives with
// the zero range. `ranged` below is the ghost variable "the client sent a range member".

import (
	"context"

	"go.lsp.dev/protocol"

	"github.com/juev/hledger-lsp/internal/zzverif"
)

func init() {
	zzverif.Register("VerifC01DidChange", VerifC01DidChange)
	zzverif.Register("VerifC01DidChangeLong", VerifC01DidChangeLong)
	zzverif.Register("VerifC01Fold", VerifC01Fold)
	zzverif.Register("VerifC01FoldLong", VerifC01FoldLong)
	zzverif.Register("VerifC01Lifecycle", VerifC01Lifecycle)
}

// an insertion (or any change) whose range is 0:0-0:0 cannot be told from a range-less
// full replacement after decoding, and is applied as one
const c01ClsOrigin = "c01-ranged-change-at-origin-replaces-document"

func c01SymDoc(name string, n int) string {
	s := ""
	for i := 0; i < n; i++ {
		nm := name + zzverif.Itoa(i)
		switch zzverif.Choice(nm+".class", 6) {
		case 0:
			s += string([]byte{zzverif.ByteIn(nm, zzverif.Printable(""))})
		case 1:
			s += "é"
		case 2:
			s += "€"
		case 3:
			s += "😀"
		case 4:
			s += "\n"
		case 5:
			s += "\r\n"
		}
	}
	return s
}

func c01IndexNL(doc string, from int) int {
	for i := from; i < len(doc); i++ {
		if doc[i] == '\n' {
			return i
		}
	}
	return -1
}

// c01Offset: LSP 3.17 position -> byte offset (see harness/lsputil/c01_apply.go refOffset).
func c01Offset(doc string, line, char uint32) (off int, inside bool) {
	off = 0
	for cur := uint32(0); cur < line; cur++ {
		i := c01IndexNL(doc, off)
		if i < 0 {
			return len(doc), false
		}
		off = i + 1
	}
	end := c01IndexNL(doc, off)
	if end < 0 {
		end = len(doc)
	}
	if end > off && doc[end-1] == '\r' {
		end--
	}
	units := uint32(0)
	i := off
	for i < end && units < char {
		size := 1
		b := doc[i]
		switch {
		case b >= 0xF0:
			size = 4
		case b >= 0xE0:
			size = 3
		case b >= 0xC0:
			size = 2
		}
		if size == 4 {
			units += 2
		} else {
			units++
		}
		i += size
	}
	return i, units > char
}

func c01RefApply(doc string, r protocol.Range, text string) (string, bool) {
	s, in1 := c01Offset(doc, r.Start.Line, r.Start.Character)
	e, in2 := c01Offset(doc, r.End.Line, r.End.Character)
	if in1 || in2 || e < s {
		return "", false
	}
	return doc[:s] + text + doc[e:], true
}

type c01Change struct {
	ranged bool
	r      protocol.Range
	text   string
}

func (c c01Change) wire() protocol.TextDocumentContentChangeEvent {
	if !c.ranged {
		return protocol.TextDocumentContentChangeEvent{Text: c.text}
	}
	return protocol.TextDocumentContentChangeEvent{Range: c.r, Text: c.text}
}

func c01IsOrigin(r protocol.Range) bool {
	return r.Start.Line == 0 && r.Start.Character == 0 && r.End.Line == 0 && r.End.Character == 0
}

// c01Run: didOpen(doc), one didChange carrying the changes, compare with the reference buffer.
func c01Run(doc string, changes []c01Change, label string) {
	ctx := context.Background()
	s := NewServer()
	uri := protocol.DocumentURI("file:///w/doc.journal")
	_ = s.DidOpen(ctx, &protocol.DidOpenTextDocumentParams{TextDocument: protocol.TextDocumentItem{URI: uri, Text: doc}})
	ref := doc
	var wire []protocol.TextDocumentContentChangeEvent
	for _, c := range changes {
		if c.ranged {
			// class predicate on the inputs: a ranged change at 0:0-0:0 against a non-empty buffer
			if c01IsOrigin(c.r) && ref != "" && zzverif.Known(c01ClsOrigin) {
				zzverif.Reach("kf:" + c01ClsOrigin)
				return
			}
			next, ok := c01RefApply(ref, c.r, c.text)
			zzverif.Assume(ok) // start <= end, no position inside a surrogate pair
			ref = next
		} else {
			ref = c.text
		}
		wire = append(wire, c.wire())
	}
	_ = s.DidChange(ctx, &protocol.DidChangeTextDocumentParams{
		TextDocument:   protocol.VersionedTextDocumentIdentifier{TextDocumentIdentifier: protocol.TextDocumentIdentifier{URI: uri}},
		ContentChanges: wire,
	})
	got, ok := s.GetDocument(uri)
	zzverif.Observe("got", got)
	zzverif.Observe("want", ref)
	zzverif.Assert(ok, "C01: an open document is no longer held after didChange")
	zzverif.Assert(got == ref, "C01: server text differs from the reference client buffer after didChange")
	zzverif.Reach(label)
}

func c01SymRange(name string) protocol.Range {
	r := protocol.Range{
		Start: protocol.Position{Line: zzverif.Uint32(name + ".sl"), Character: zzverif.Uint32(name + ".sc")},
		End:   protocol.Position{Line: zzverif.Uint32(name + ".el"), Character: zzverif.Uint32(name + ".ec")},
	}
	zzverif.Assume(r.Start.Line < r.End.Line || (r.Start.Line == r.End.Line && r.Start.Character <= r.End.Character))
	return r
}

// one change per notification, positions fully symbolic: an inductive step from an arbitrary
// document (the pre-state "server text == client text" is established by didOpen).
func verifC01DidChange(nDoc, nText int) {
	doc := c01SymDoc("d", nDoc)
	c := c01Change{text: c01SymDoc("t", nText)}
	if zzverif.Choice("ranged", 2) == 1 {
		c.ranged = true
		c.r = c01SymRange("r")
	}
	c01Run(doc, []c01Change{c}, "C01.didchange.end")
}

func VerifC01DidChange()     { verifC01DidChange(2, 1) }
func VerifC01DidChangeLong() { verifC01DidChange(4, 2) }

// several changes in one notification apply in order, each against the result of the
// previous one. Positions come from a small set that includes the origin, positions that lie
// past the line end BEFORE an earlier change of the same notification and inside the line after
// it, a position past the line end and one past the document end; texts are symbolic.
var c01Spots = []protocol.Range{
	{Start: protocol.Position{Line: 0, Character: 0}, End: protocol.Position{Line: 0, Character: 0}},
	{Start: protocol.Position{Line: 0, Character: 1}, End: protocol.Position{Line: 0, Character: 1}},
	{Start: protocol.Position{Line: 0, Character: 0}, End: protocol.Position{Line: 0, Character: 1}},
	{Start: protocol.Position{Line: 0, Character: 1}, End: protocol.Position{Line: 1, Character: 0}},
	{Start: protocol.Position{Line: 0, Character: 2}, End: protocol.Position{Line: 0, Character: 2}},
	{Start: protocol.Position{Line: 0, Character: 3}, End: protocol.Position{Line: 0, Character: 3}},
	{Start: protocol.Position{Line: 0, Character: 9}, End: protocol.Position{Line: 1, Character: 1}},
	{Start: protocol.Position{Line: 7, Character: 0}, End: protocol.Position{Line: 7, Character: 3}},
}

func verifC01Fold(nDoc, nChanges int) {
	doc := c01SymDoc("d", nDoc)
	var cs []c01Change
	for i := 0; i < nChanges; i++ {
		nm := "c" + zzverif.Itoa(i)
		c := c01Change{text: c01SymDoc(nm+".t", 1)}
		if k := zzverif.Choice(nm+".spot", len(c01Spots)+1); k > 0 {
			c.ranged = true
			c.r = c01Spots[k-1]
		}
		cs = append(cs, c)
	}
	c01Run(doc, cs, "C01.fold.end")
}

func VerifC01Fold()     { verifC01Fold(2, 2) }
func VerifC01FoldLong() { verifC01Fold(3, 3) }

// open / change / close / re-open: a closed document is not held, a change to a closed
// document is ignored, a re-opened document holds exactly the re-opened text.
func VerifC01Lifecycle() {
	ctx := context.Background()
	s := NewServer()
	uri := protocol.DocumentURI("file:///w/doc.journal")
	other := protocol.DocumentURI("file:///w/other.journal")
	id := func(u protocol.DocumentURI) protocol.VersionedTextDocumentIdentifier {
		return protocol.VersionedTextDocumentIdentifier{TextDocumentIdentifier: protocol.TextDocumentIdentifier{URI: u}}
	}
	held := map[protocol.DocumentURI]string{}
	open := map[protocol.DocumentURI]bool{}
	for step := 0; step < 4; step++ {
		nm := "s" + zzverif.Itoa(step)
		u := uri
		if zzverif.Choice(nm+".doc", 2) == 1 {
			u = other
		}
		text := zzverif.Text(nm+".t", "ab\n", 2)
		switch zzverif.Choice(nm+".op", 3) {
		case 0:
			_ = s.DidOpen(ctx, &protocol.DidOpenTextDocumentParams{TextDocument: protocol.TextDocumentItem{URI: u, Text: text}})
			held[u], open[u] = text, true
		case 1:
			_ = s.DidChange(ctx, &protocol.DidChangeTextDocumentParams{TextDocument: id(u), ContentChanges: []protocol.TextDocumentContentChangeEvent{{Text: text}}})
			if open[u] {
				held[u] = text
			}
		default:
			_ = s.DidClose(ctx, &protocol.DidCloseTextDocumentParams{TextDocument: protocol.TextDocumentIdentifier{URI: u}})
			open[u] = false
		}
		for _, q := range []protocol.DocumentURI{uri, other} {
			got, ok := s.GetDocument(q)
			zzverif.Assert(ok == open[q], "C01: the set of held documents differs from the set of open documents")
			if ok && open[q] {
				zzverif.Assert(got == held[q], "C01: held text differs from the client's text after open/change/close")
			}
		}
	}
	zzverif.Reach("C01.lifecycle.end")
}
