//go:build verif

package server

// The harness of C20 that calls unexported functions of the server directly
// (getWorkspaceResolved, countPostingsForAccountInTransactions) lives in this file, which
// only it is overlaid with (mkoverlay.py FN_NEEDS): a change that renames or removes one of
// them stops this harness alone (exit 2), not the request-level harnesses of c20_hover.go.

import (
	"math/big"

	"github.com/juev/hledger-lsp/internal/analyzer"
	"github.com/juev/hledger-lsp/internal/zzverif"
)

func init() {
	zzverif.Register("VerifC20Sums", VerifC20Sums)
	zzverif.Register("VerifC20SumsDeep", VerifC20SumsDeep)
}

// VerifC20Sums: symbolic digits; the balances the hover is built from equal the exact sums.
func verifC20Sums(deep bool) {
	w := c20Build(true, deep, 3, false)
	req := 0
	if w.n > 1 {
		req = zzverif.Choice("req", 2)
	}
	workspace := zzverif.Choice("workspace", 2) == 1
	s, uri := w.serve(req, workspace, false)
	resolved := s.getWorkspaceResolved(uri)
	zzverif.Assert(resolved != nil, "a resolved journal exists after the background run")
	if resolved == nil {
		return
	}
	txs := resolved.AllTransactions()
	bal := analyzer.CalculateAccountBalancesFromTransactions(txs)
	exp := w.expect(w.inScope(req, workspace))
	got := bal["a:b"]
	zzverif.Assert(len(got) == len(exp.comms), "one balance per commodity posted to the account")
	for _, c := range exp.comms {
		d, ok := got[c]
		zzverif.Assert(ok, "commodity present in the balances")
		if !ok {
			continue
		}
		e := int(d.Exponent())
		zzverif.Assert(e <= 0 && e >= -12, "balance scale within the written precision")
		if e > 0 || e < -12 {
			continue
		}
		lhs := new(big.Int).Mul(d.Coefficient(), c20Pow10(12+e))
		zzverif.Assert(lhs.Cmp(exp.sum[c]) == 0, "balance equals the exact sum of the amounts posted to the account")
	}
	zzverif.Assert(countPostingsForAccountInTransactions("a:b", txs) == exp.nAll, "posting count over the tree")
	zzverif.Reach("C20.sums")
}

func VerifC20Sums()     { verifC20Sums(false) }
func VerifC20SumsDeep() { verifC20Sums(true) }
