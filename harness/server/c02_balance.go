//go:build verif

package server

import (
	"math/big"

	"github.com/juev/hledger-lsp/internal/analyzer"
	"github.com/juev/hledger-lsp/internal/parser"
	"github.com/juev/hledger-lsp/internal/zzverif"
)

func init() {
	zzverif.Register("VerifC02Twin", VerifC02Twin)
	zzverif.Register("VerifC02Neighbour", VerifC02Neighbour)
	zzverif.Register("VerifC02Notation", VerifC02Notation)
	zzverif.Register("VerifC02NotationDeep", VerifC02NotationDeep)
	zzverif.Register("VerifC02Kinds", VerifC02Kinds)
	zzverif.Register("VerifC02KindsDeep", VerifC02KindsDeep)
	zzverif.Register("VerifC02Cost", VerifC02Cost)
	zzverif.Register("VerifC02CostDeep", VerifC02CostDeep)
}

// ---- exact oracle arithmetic: integers at a decimal scale (math/big; SMT Int under the engine) ----

type c02Num struct {
	v     *big.Int // value = v / 10^scale
	scale int
}

func c02Pow10(k int) *big.Int {
	r := big.NewInt(1)
	for i := 0; i < k; i++ {
		r = new(big.Int).Mul(r, big.NewInt(10))
	}
	return r
}

func (n c02Num) at(scale int) *big.Int {
	return new(big.Int).Mul(n.v, c02Pow10(scale-n.scale))
}

// c02Written is one amount as written: text plus its exact value.
type c02Written struct {
	text  string // number with sign and commodity
	num   c02Num
	comm  string
	fracs int // fraction digits written (precision)
}

// c02Number builds a number in notation nt from symbolic digits. Returns text (unsigned) and exact value.
// Notations of DESIGN §4.3; the ambiguous shape (one mark + exactly three digits) is not generated.
func c02Number(name string, nt int) (string, c02Num) {
	d := func(tag string, n int) string { return zzverif.Digits(name+"."+tag, n) }
	mk := func(digits string, scale int) c02Num {
		v, _ := new(big.Int).SetString(digits, 10)
		return c02Num{v: v, scale: scale}
	}
	switch nt {
	case 0: // plain integer, 1..3 digits
		i := d("i", 1+zzverif.Choice(name+".ilen", 3))
		return i, mk(i, 0)
	case 1: // decimal point, 1..2 fraction digits
		i, f := d("i", 1+zzverif.Choice(name+".ilen", 2)), d("f", 1+zzverif.Choice(name+".flen", 2))
		return i + "." + f, mk(i+f, len(f))
	case 2: // decimal comma
		i, f := d("i", 1+zzverif.Choice(name+".ilen", 2)), d("f", 1+zzverif.Choice(name+".flen", 2))
		return i + "," + f, mk(i+f, len(f))
	case 3: // trailing mark
		i := d("i", 2)
		return i + []string{".", ","}[zzverif.Choice(name+".mark", 2)], mk(i, 0)
	case 4: // US grouping g,ggg.F
		g, h, f := d("g", 1+zzverif.Choice(name+".glen", 2)), d("h", 3), d("f", 2)
		return g + "," + h + "." + f, mk(g+h+f, 2)
	case 5: // EU grouping g.ggg,F
		g, h, f := d("g", 1+zzverif.Choice(name+".glen", 2)), d("h", 3), d("f", 2)
		return g + "." + h + "," + f, mk(g+h+f, 2)
	case 6: // space grouping
		g, h, f := d("g", 1), d("h", 3), d("f", 2)
		m := []string{".", ","}[zzverif.Choice(name+".mark", 2)]
		return g + " " + h + m + f, mk(g+h+f, 2)
	case 7: // several group marks, no fraction
		g, h, k := d("g", 1), d("h", 3), d("k", 3)
		m := []string{",", "."}[zzverif.Choice(name+".mark", 2)]
		return g + m + h + m + k, mk(g+h+k, 0)
	case 8: // exponent
		i := d("i", 2)
		switch zzverif.Choice(name+".exp", 3) {
		case 0:
			return i + "E2", mk(i+"00", 0)
		case 1:
			return i + "e+1", mk(i+"0", 0)
		default:
			return i + "E-1", mk(i, 1)
		}
	case 11: // all-zero integer part and exactly three decimals: NOT the ambiguous shape of DESIGN 4.3
		z, f := []string{"0", "00"}[zzverif.Choice(name+".zlen", 2)], d("f", 3)
		return z + []string{".", ","}[zzverif.Choice(name+".mark", 2)] + f, mk(f, 3)
	case 10: // fixed shape d.dd (no length choices)
		i, f := d("i", 1), d("f", 2)
		return i + "." + f, mk(i+f, 2)
	default: // long fraction
		i, f := d("i", 1), d("f", 4+zzverif.Choice(name+".flen", 3))
		return i + "." + f, mk(i+f, len(f))
	}
}

// commodity spellings: (symbol as stored, text before number, text after number)
type c02Comm struct{ sym, left, right string }

var c02Comms = []c02Comm{
	{"$", "$", ""},          // currency sign, left, adjacent
	{"USD", "", " USD"},     // code, right, one space
	{"EUR", "EUR", ""},      // code, left, adjacent
	{"a b", "", " \"a b\""}, // quoted, right
	{"€", "", "€"},          // currency sign, right, adjacent
	{"", "", ""},            // no commodity
}

// c02Amount writes an amount: sign placement sp: 0 none, 1 '-' first, 2 '+' first, 3 '-' after a left symbol.
func c02Amount(name string, nt, ci, sp int) c02Written {
	txt, num := c02Number(name, nt)
	c := c02Comms[ci]
	neg := false
	var s string
	switch sp {
	case 0:
		s = c.left + txt + c.right
	case 1:
		s = "-" + c.left + txt + c.right
		neg = true
	case 2:
		s = "+" + c.left + txt + c.right
	default:
		s = c.left + "-" + txt + c.right
		neg = true
	}
	if neg {
		num.v = new(big.Int).Neg(num.v)
	}
	return c02Written{text: s, num: num, comm: c.sym, fracs: num.scale}
}

type c02Posting struct {
	kind    int // 0 ordinary, 1 (unbalanced virtual), 2 [balanced virtual]
	has     bool
	amt     c02Written
	cost    int // 0 none, 1 unit @, 2 total @@
	costAmt c02Written
}

func (p c02Posting) line(i int) string {
	acct := []string{"a:b", "c:d", "e:f", "g:h"}[i]
	switch p.kind {
	case 1:
		acct = "(" + acct + ")"
	case 2:
		acct = "[" + acct + "]"
	}
	s := "    " + acct
	if p.has {
		s += "  " + p.amt.text
		switch p.cost {
		case 1:
			s += " @ " + p.costAmt.text
		case 2:
			s += " @@ " + p.costAmt.text
		}
	}
	return s + "\n"
}

// c02Check runs the real code on the transaction and compares with the exact oracle.
func c02Check(ps []c02Posting, label string) { c02CheckAfter(ps, label, "") }

// c02CheckAfter: the server has analysed the document `before` (if any) first: a verdict must
// not depend on what was analysed earlier.
func c02CheckAfter(ps []c02Posting, label, before string) {
	doc := "2024-01-15 x\n"
	for i, p := range ps {
		doc += p.line(i)
	}
	// ---- oracle ----
	inferred := 0
	maxScale := 0
	anyCost := false
	for _, p := range ps {
		if p.kind == 1 {
			continue
		}
		if !p.has {
			inferred++
			continue
		}
		if p.amt.num.scale > maxScale {
			maxScale = p.amt.num.scale
		}
		if p.cost != 0 {
			anyCost = true
			if p.amt.num.scale+p.costAmt.num.scale > maxScale {
				maxScale = p.amt.num.scale + p.costAmt.num.scale
			}
		}
	}
	resid := map[string]*big.Int{}
	prec := map[string]int{}
	order := []string{}
	add := func(c string, v *big.Int, fr int) {
		if _, ok := resid[c]; !ok {
			resid[c] = big.NewInt(0)
			order = append(order, c)
		}
		resid[c] = new(big.Int).Add(resid[c], v)
		if fr > prec[c] {
			prec[c] = fr
		}
	}
	for _, p := range ps {
		if p.kind == 1 || !p.has {
			continue
		}
		switch p.cost {
		case 0:
			add(p.amt.comm, p.amt.num.at(maxScale), p.amt.fracs)
		case 1:
			// sign(q)*|q|*price = q*price (price written without sign in these harnesses)
			prod := c02Num{v: new(big.Int).Mul(p.amt.num.v, p.costAmt.num.v), scale: p.amt.num.scale + p.costAmt.num.scale}
			add(p.costAmt.comm, prod.at(maxScale), p.costAmt.fracs)
		case 2:
			v := p.costAmt.num.at(maxScale)
			if p.amt.num.v.Sign() < 0 {
				v = new(big.Int).Neg(v)
			}
			add(p.costAmt.comm, v, p.costAmt.fracs)
		}
	}
	unbalanced := false
	for _, c := range order {
		if resid[c].Sign() != 0 {
			unbalanced = true
		}
	}
	// ---- the property's own restriction to where hledger's rule and exact sums agree ----
	if inferred == 0 && unbalanced {
		// implicit two-commodity price inference
		zzverif.Assume(!(len(order) == 2 && !anyCost))
		// residual below the precision written for that commodity (only possible with unit costs)
		for _, c := range order {
			lim := c02Pow10(maxScale - prec[c])
			a := new(big.Int).Abs(resid[c])
			zzverif.Assume(!(a.Sign() > 0 && a.Cmp(lim) < 0))
		}
	}
	// ---- real code ----
	s := NewServer()
	if before != "" {
		_ = s.analyze(before, nil)
	}
	diags := s.analyze(doc, nil)
	nUnb, nMulti, nOther := 0, 0, 0
	for _, d := range diags {
		switch d.Code {
		case "UNBALANCED":
			nUnb++
		case "MULTIPLE_INFERRED":
			nMulti++
		default:
			nOther++
		}
	}
	zzverif.Observe("doc", doc)
	zzverif.Observe("nUnb", nUnb)
	zzverif.Observe("nMulti", nMulti)
	zzverif.Assert(nOther == 0, label+": no other diagnostics (syntax errors) on a supported transaction")
	zzverif.Assert((nMulti == 1) == (inferred > 1) && nMulti <= 1, label+": MULTIPLE_INFERRED iff more than one real posting lacks an amount")
	wantUnb := inferred == 0 && unbalanced
	zzverif.Assert((nUnb == 1) == wantUnb && nUnb <= 1, label+": UNBALANCED iff some commodity residual is non-zero")
	// differences named by the balance checker
	j, _ := parser.Parse(doc)
	if len(j.Transactions) == 1 {
		br := analyzer.CheckBalance(&j.Transactions[0])
		if inferred == 0 {
			n := 0
			for _, c := range order {
				if resid[c].Sign() == 0 {
					continue
				}
				n++
				d, ok := br.Differences[c]
				zzverif.Assert(ok, label+": every unbalanced commodity is named")
				if ok {
					// d == |resid| / 10^maxScale
					coef := d.Coefficient()
					e := int(d.Exponent())
					lhs, rhs := coef, new(big.Int).Abs(resid[c])
					if -e < maxScale {
						lhs = new(big.Int).Mul(coef, c02Pow10(maxScale+e))
					} else {
						rhs = new(big.Int).Mul(rhs, c02Pow10(-e-maxScale))
					}
					zzverif.Assert(lhs.Cmp(rhs) == 0, label+": named difference equals the exact absolute residual")
				}
			}
			zzverif.Assert(len(br.Differences) == n, label+": no balanced commodity is named")
		}
	}
	zzverif.Reach("C02." + label)
}

// VerifC02Notation: two postings in one commodity; the first in every notation / sign placement /
// commodity spelling, the second a plain amount with symbolic digits.
func VerifC02Notation()     { verifC02Notation(false) }
func VerifC02NotationDeep() { verifC02Notation(true) }

func verifC02Notation(deep bool) {
	nt := []int{0, 1, 2, 3, 4, 5, 6, 7, 8, 9, 11}[zzverif.Choice("nt", 11)]
	var ci, sp int
	if deep {
		ci = zzverif.Choice("comm", 5)
		sp = zzverif.Choice("sign", 4)
		if sp == 3 && c02Comms[ci].left == "" {
			sp = 1
		}
	} else {
		// quick tier: eight (spelling, sign placement) combinations covering every spelling and placement
		combos := [][2]int{{0, 0}, {0, 1}, {0, 3}, {1, 1}, {2, 3}, {2, 2}, {3, 0}, {4, 1}}
		c := combos[zzverif.Choice("combo", len(combos))]
		ci, sp = c[0], c[1]
	}
	a := c02Amount("p0", nt, ci, sp)
	// counter posting: same commodity spelled the plain way, symbolic digits at the same scale
	b := c02Amount("p1", c02CounterNotation(a.num.scale), ci, zzverif.Choice("sign1", 2))
	c02Check([]c02Posting{{has: true, amt: a}, {has: true, amt: b}}, "notation")
}

func c02CounterNotation(scale int) int {
	switch {
	case scale == 0:
		return 0
	case scale <= 2:
		return 1
	default:
		return 9
	}
}

func verifC02Kinds(k int, deep bool) {
	ps := make([]c02Posting, k)
	for i := range ps {
		nm := "p" + zzverif.Itoa(i)
		ps[i].kind = zzverif.Choice(nm+".kind", 3)
		ps[i].has = zzverif.Choice(nm+".has", 2) == 1
		if ps[i].has {
			nc := 2
			if deep {
				nc = 3
			}
			ci := []int{0, 1, 2}[zzverif.Choice(nm+".comm", nc)]
			nt := 10
			if deep {
				nt = []int{0, 10, 4}[zzverif.Choice(nm+".nt", 3)]
			}
			ps[i].amt = c02Amount(nm, nt, ci, zzverif.Choice(nm+".sign", 2))
		}
	}
	c02Check(ps, "kinds")
}

// VerifC02Kinds: three postings of every kind, with/without amount, two commodities, symbolic digits and signs.
func VerifC02Kinds()     { verifC02Kinds(3, false) }
func VerifC02KindsDeep() { verifC02Kinds(4, true) }

// VerifC02Cost: unit and total costs. Unit prices are concrete representatives (the product of two
// symbolic quantities is non-linear), quantities and total costs are symbolic.
func VerifC02Cost()     { verifC02Cost(false) }
func VerifC02CostDeep() { verifC02Cost(true) }

func verifC02Cost(deep bool) {
	k := 2
	if deep {
		k = 2 + zzverif.Choice("k", 2)
	}
	ps := make([]c02Posting, k)
	for i := range ps {
		nm := "p" + zzverif.Itoa(i)
		ps[i].kind = []int{0, 2}[zzverif.Choice(nm+".kind", 2)]
		ps[i].has = true
		costed := i == 0 || (i == 1 && zzverif.Choice(nm+".hascost", 2) == 1)
		if !costed {
			// a plain posting in the cost commodity ($) to balance against
			ps[i].amt = c02Amount(nm, 10, 0, zzverif.Choice(nm+".sign", 2))
			continue
		}
		ci, nt := 1, 10
		if deep {
			ci = []int{1, 2}[zzverif.Choice(nm+".comm", 2)]
			nt = []int{10, 0}[zzverif.Choice(nm+".nt", 2)]
		}
		ps[i].amt = c02Amount(nm, nt, ci, zzverif.Choice(nm+".sign", 2))
		ps[i].cost = 1 + zzverif.Choice(nm+".cost", 2)
		if ps[i].cost == 1 {
			np := 2
			if deep {
				np = 4
			}
			price := []string{"2", "1.5", "0.25", "10"}[zzverif.Choice(nm+".price", np)]
			v, _ := new(big.Int).SetString(c02StripDot(price), 10)
			fr := c02FracLen(price)
			ps[i].costAmt = c02Written{text: "$" + price, num: c02Num{v: v, scale: fr}, comm: "$", fracs: fr}
		} else {
			ps[i].costAmt = c02Amount(nm+".c", 10, 0, 0)
		}
	}
	c02Check(ps, "cost")
}

// c02Lit is a concrete amount: sign, digits with optional point, commodity index.
func c02Lit(neg bool, digits string, ci int) c02Written {
	v, _ := new(big.Int).SetString(c02StripDot(digits), 10)
	fr := c02FracLen(digits)
	c := c02Comms[ci]
	text := c.left + digits + c.right
	if neg {
		text = "-" + text
		v = new(big.Int).Neg(v)
	}
	return c02Written{text: text, num: c02Num{v: v, scale: fr}, comm: c.sym, fracs: fr}
}

// VerifC02Twin: a verdict is a function of the transaction alone. The same server first
// analyses a NEAR TWIN of the transaction - the same quantities, commodities and cost amounts
// with one feature exchanged (unit <-> total cost, ordinary <-> balanced-virtual posting, the
// sign of the counter amount, the counter commodity) - in an earlier document or earlier in the
// same document; the verdict on the transaction itself must still be the oracle's. All values
// are concrete (the symbolic-digit harnesses decide the arithmetic; this one decides that no
// state survives between analyses).
func VerifC02Twin() {
	qty := []string{"10", "3", "1.5"}[zzverif.Choice("qty", 3)]
	price := []string{"150", "2", "0.5"}[zzverif.Choice("price", 3)]
	counter := []string{"1500", "150", "6", "3", "20", "0.75"}[zzverif.Choice("counter", 6)]
	mk := func(cost, kind int, negCounter bool, counterComm int) []c02Posting {
		return []c02Posting{
			{kind: kind, has: true, amt: c02Lit(false, qty, 1), cost: cost, costAmt: c02Lit(false, price, 0)},
			{kind: kind, has: true, amt: c02Lit(negCounter, counter, counterComm)},
		}
	}
	cost := 1 + zzverif.Choice("cost", 2)
	kind := []int{0, 2}[zzverif.Choice("kind", 2)]
	ps := mk(cost, kind, true, 0)
	var twin []c02Posting
	switch zzverif.Choice("twin", 4) {
	case 0:
		twin = mk(3-cost, kind, true, 0)
	case 1:
		twin = mk(cost, 2-kind, true, 0)
	case 2:
		twin = mk(cost, kind, false, 0)
	default:
		twin = mk(cost, kind, true, 2)
	}
	before := "2024-01-14 t\n"
	for i, p := range twin {
		before += p.line(i)
	}
	c02CheckAfter(ps, "twin", before)
}

// VerifC02Neighbour: the verdict and the message of a transaction are a function of that
// transaction alone, also with respect to the transactions that stand BEFORE it in the same
// document. The transaction of VerifC02Twin (balanced or unbalanced, with a unit or total cost)
// is analysed alone and, on another fresh server, behind a neighbour of every verdict class
// that uses the same commodities: two amount-less postings with an amount before, between or
// after them, one amount-less posting, an unbalanced one, a balanced one, bracketed ones. The
// UNBALANCED / MULTIPLE_INFERRED diagnostics on the transaction's lines (code, message, range
// relative to its header) have to be the same in both analyses, and the neighbour alone has to
// keep its own verdict when the transaction follows it. All values concrete.
func VerifC02Neighbour() {
	qty := []string{"10", "3"}[zzverif.Choice("qty", 2)]
	price := []string{"150", "0.5"}[zzverif.Choice("price", 2)]
	counter := []string{"1500", "150", "1.5", "20"}[zzverif.Choice("counter", 4)]
	cost := 1 + zzverif.Choice("cost", 2)
	kind := []int{0, 2}[zzverif.Choice("kind", 2)]
	ps := []c02Posting{
		{kind: kind, has: true, amt: c02Lit(false, qty, 1), cost: cost, costAmt: c02Lit(false, price, 0)},
		{kind: kind, has: true, amt: c02Lit(true, counter, 0)},
	}
	if zzverif.Choice("third", 2) == 1 { // one amount-less posting absorbs the remainder
		ps = append(ps, c02Posting{kind: kind})
	}
	with := func(neg bool, digits string, ci int) c02Posting {
		return c02Posting{has: true, amt: c02Lit(neg, digits, ci)}
	}
	none := c02Posting{}
	var nb []c02Posting
	switch zzverif.Choice("neighbour", 8) {
	case 0:
		nb = []c02Posting{with(false, "50", 0), none, none}
	case 1:
		nb = []c02Posting{none, with(false, "50", 0), none}
	case 2:
		nb = []c02Posting{none, none, with(false, "50", 0)}
	case 3:
		nb = []c02Posting{with(false, "70", 1), none}
	case 4:
		nb = []c02Posting{with(false, "50", 0), with(true, "43", 0)}
	case 5:
		nb = []c02Posting{with(false, "50", 0), with(true, "50", 0)}
	case 6:
		nb = []c02Posting{{kind: 2, has: true, amt: c02Lit(false, "5", 1)}, {kind: 2}, none, none}
	default:
		nb = []c02Posting{{has: true, amt: c02Lit(false, "2", 1), cost: 3 - cost, costAmt: c02Lit(false, "7", 0)}, none, {kind: 1}, none}
	}
	txText := "2024-01-15 x\n"
	for i, p := range ps {
		txText += p.line(i)
	}
	nbText := "2024-01-14 t\n"
	for i, p := range nb {
		nbText += p.line(i)
	}
	render := func(doc string, from, to int) []string {
		s := NewServer()
		out := []string{}
		for _, d := range s.analyze(doc, nil) {
			l := int(d.Range.Start.Line)
			if l < from || l >= to {
				continue
			}
			code, _ := d.Code.(string)
			out = append(out, code+"|"+d.Message+"|"+zzverif.Itoa(l-from)+":"+zzverif.Itoa(int(d.Range.Start.Character))+"-"+zzverif.Itoa(int(d.Range.End.Line)-from)+":"+zzverif.Itoa(int(d.Range.End.Character)))
		}
		return out
	}
	nTx, nNb := 1+len(ps), 1+len(nb)
	alone := render(txText, 0, nTx)
	nbAlone := render(nbText, 0, nNb)
	k := zzverif.Choice("sep", 3)
	sep := []string{"\n", "", "\n; c\n\n"}[k]
	gap := []int{1, 0, 3}[k]
	both := nbText + sep + txText
	zzverif.Observe("doc", both)
	zzverif.Observe("alone", alone)
	zzverif.Assert(c02SameList(alone, render(both, nNb+gap, nNb+gap+nTx)), "neighbour: the diagnostics of a transaction do not depend on the transaction before it")
	zzverif.Assert(c02SameList(nbAlone, render(both, 0, nNb)), "neighbour: the diagnostics of a transaction do not depend on the transaction after it")
	// and in the other order
	both2 := txText + sep + nbText
	zzverif.Assert(c02SameList(alone, render(both2, 0, nTx)), "neighbour: the diagnostics of the first transaction do not depend on the one after it")
	zzverif.Assert(c02SameList(nbAlone, render(both2, nTx+gap, nTx+gap+nNb)), "neighbour: the diagnostics of the second transaction do not depend on the one before it")
	zzverif.Reach("C02.neighbour")
}

func c02SameList(a, b []string) bool {
	if len(a) != len(b) {
		return false
	}
	for i := range a {
		if a[i] != b[i] {
			return false
		}
	}
	return true
}

func c02StripDot(s string) string {
	out := ""
	for i := 0; i < len(s); i++ {
		if s[i] != '.' {
			out += string(s[i])
		}
	}
	return out
}

func c02FracLen(s string) int {
	for i := 0; i < len(s); i++ {
		if s[i] == '.' {
			return len(s) - i - 1
		}
	}
	return 0
}
