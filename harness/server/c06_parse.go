//go:build verif

package server

import (
	"context"

	"go.lsp.dev/protocol"

	"github.com/juev/hledger-lsp/internal/analyzer"
	"github.com/juev/hledger-lsp/internal/parser"
	"github.com/juev/hledger-lsp/internal/zzverif"
)

func init() {
	zzverif.Register("VerifC06Parse", VerifC06Parse)
	zzverif.Register("VerifC06ParseLong", VerifC06ParseLong)
	zzverif.Register("VerifC06ParsePrefix", VerifC06ParsePrefix)
	zzverif.Register("VerifC06ParsePrefixLong", VerifC06ParsePrefixLong)
	zzverif.Register("VerifC06Requests", VerifC06Requests)
	zzverif.Register("VerifC06RequestsLong", VerifC06RequestsLong)
}

// c06Bytes: n unconstrained bytes (alphabet `any`, 0x00..0xFF: invalid UTF-8, NUL, controls).
func c06Bytes(name string, n int) string {
	b := make([]byte, n)
	for i := range b {
		b[i] = zzverif.Byte(name + zzverif.Itoa(i))
	}
	return string(b)
}

// prefixes that put the lexer/parser into its deep states before the arbitrary bytes
var c06Prefixes = []string{
	"2024-01-15 ",
	"    a:b  ",
	"    a:b  1 ",
	"commodity ",
	"account a:b\n  ",
	"P 2024-01-01 ",
	"include ",
	"; ",
	"2024-01-15 x\n    a:b  1 ",
	"2024-01-15 x\n    a:b  1 USD @ ",
}

// index of the "include " prefix: the include path then consists of arbitrary bytes. The
// engine's path/filepath and file-system models need concrete paths (they case-split each
// byte over its values), so for this prefix the two path consumers (DocumentLink, the include
// loader inside the diagnostics task) are exercised with bytes from c06PathAlphabet instead
// (pseudo prefix c06IncludePath); everything else still sees arbitrary bytes.
const c06IncludeIdx = 6
const c06PathAlphabet = "a/.*~ ;\t"

func c06Content(k, n int) (content string, paths bool) {
	switch {
	case k == len(c06Prefixes):
		return c06Bytes("b", n), true
	case k == len(c06Prefixes)+1:
		return "include " + zzverif.Text("b", c06PathAlphabet, n), true
	default:
		return c06Prefixes[k] + c06Bytes("b", n), k != c06IncludeIdx
	}
}

// c06Cores runs the position-independent pure cores of the handlers on content: parser,
// analyzer (balance, undeclared, date tags, indexes), semantic tokens, folding ranges,
// document symbols, links, workspace symbols, formatting. The property here is totality:
// no reachable panic and termination within the instruction budget (engine statuses
// `panic` / `budget` are violations).
func c06Cores(s *Server, uri protocol.DocumentURI, content string, paths bool) {
	ctx := context.Background()
	journal, perrs := parser.Parse(content)
	res := analyzer.New().Analyze(journal)
	_ = res
	toks := tokenizeForSemantics(content)
	data := encodeTokens(toks)
	zzverif.Assert(len(data) == 5*len(toks), "semantic token data has five numbers per token")
	// probes compared between the engine's path and the native replay of its model
	zzverif.Observe("transactions", len(journal.Transactions))
	zzverif.Observe("directives", len(journal.Directives))
	zzverif.Observe("parseErrors", len(perrs))
	zzverif.Observe("semanticTokens", len(toks))
	_ = findTransactionFolds(content)
	_ = findDirectiveFolds(content)
	_ = findCommentBlockFolds(content)
	_, _ = s.DocumentSymbol(ctx, &protocol.DocumentSymbolParams{TextDocument: protocol.TextDocumentIdentifier{URI: uri}})
	if paths {
		_, _ = s.DocumentLink(ctx, &protocol.DocumentLinkParams{TextDocument: protocol.TextDocumentIdentifier{URI: uri}})
	}
	// query "": the engine's strings.ToLower model does not cover symbolic non-ASCII runes
	_ = extractSymbols(journal, uri, "")
	_, _ = s.Format(ctx, &protocol.DocumentFormattingParams{TextDocument: protocol.TextDocumentIdentifier{URI: uri}})
}

// c06ValidMultibyteStart: some byte of x is a UTF-8 lead byte followed by a continuation byte,
// i.e. x may contain a valid multi-byte character made of symbolic bytes. (Conditions on single
// bytes: decided without the solver; the UTF-8 decoders of the code under test split on the same
// classes.)
func c06ValidMultibyteStart(x string) bool {
	for i := 0; i+1 < len(x); i++ {
		if x[i] >= 0xC2 && x[i] <= 0xF4 && x[i+1] >= 0x80 && x[i+1] <= 0xBF {
			return true
		}
	}
	return false
}

// c06Positional runs the handlers that take a cursor position. lower=false leaves out the
// requests that lower-case document text (completion's fuzzy matching): the engine's
// strings.ToLower model covers ASCII, invalid bytes and concrete non-ASCII characters, not a
// valid multi-byte character made of symbolic bytes; those requests see non-ASCII text
// through the concrete representatives c06NonASCII instead.
func c06Positional(s *Server, uri protocol.DocumentURI, content string, pos protocol.Position, lower bool) {
	ctx := context.Background()
	tdp := protocol.TextDocumentPositionParams{TextDocument: protocol.TextDocumentIdentifier{URI: uri}, Position: pos}
	_, _ = s.Hover(ctx, &protocol.HoverParams{TextDocumentPositionParams: tdp})
	_, _ = s.Definition(ctx, &protocol.DefinitionParams{TextDocumentPositionParams: tdp})
	_, _ = s.References(ctx, &protocol.ReferenceParams{TextDocumentPositionParams: tdp, Context: protocol.ReferenceContext{IncludeDeclaration: true}})
	_, _ = s.PrepareRename(ctx, &protocol.PrepareRenameParams{TextDocumentPositionParams: tdp})
	_, _ = s.Rename(ctx, &protocol.RenameParams{TextDocumentPositionParams: tdp, NewName: "x:y"})
	_, _ = s.SemanticTokensRange(ctx, &protocol.SemanticTokensRangeParams{TextDocument: tdp.TextDocument, Range: protocol.Range{Start: pos, End: pos}})
	_, _ = s.SemanticTokensRange(ctx, &protocol.SemanticTokensRangeParams{TextDocument: tdp.TextDocument, Range: protocol.Range{End: pos}})
	_, _ = s.FoldingRanges(ctx, &protocol.FoldingRangeParams{TextDocumentPositionParams: tdp})
	if !lower {
		zzverif.Reach("C06.requests.nolower")
		return
	}
	// the three trigger situations one after the other on the same path (no extra fork)
	for _, cc := range []*protocol.CompletionContext{nil, {TriggerCharacter: ":"}, {TriggerCharacter: "@"}} {
		_, _ = s.Completion(ctx, &protocol.CompletionParams{TextDocumentPositionParams: tdp, Context: cc})
	}
	zzverif.Reach("C06.requests.completion")
}

func c06Server(content string) (*Server, protocol.DocumentURI) {
	ctx := context.Background()
	s := NewServer()
	cl := &zzClient{}
	s.SetClient(cl)
	uri := protocol.DocumentURI("file://" + zzverif.Root() + "/main.journal")
	zzNotify(s, func() {
		_ = s.DidOpen(ctx, &protocol.DidOpenTextDocumentParams{TextDocument: protocol.TextDocumentItem{URI: uri, Text: content}})
	})
	return s, uri
}

// c06Drain runs the background diagnostics task to completion (natively the goroutine is
// real and unsynchronised, so the same work is additionally done synchronously).
func c06Drain(s *Server, uri protocol.DocumentURI, content string) {
	if zzverif.Engine() {
		for zzverif.PendingTasks() > 0 {
			zzverif.RunTask(0)
		}
	} else {
		s.publishDiagnostics(context.Background(), uri, content)
	}
}

// VerifC06Parse: x = n arbitrary bytes, n <= 3 (quick).
func VerifC06Parse() { verifC06Parse(3) }

// VerifC06ParseLong: n <= 4 (thorough).
func VerifC06ParseLong() { verifC06Parse(4) }

func verifC06Parse(maxN int) {
	n := zzverif.Choice("n", maxN+1)
	content := c06Bytes("b", n)
	s, uri := c06Server(content)
	c06Cores(s, uri, content, true)
	zzverif.Reach("C06.parse.end")
}

// VerifC06ParsePrefix: prefix ++ x for each deep-state prefix, x = 1..2 arbitrary bytes (quick).
func VerifC06ParsePrefix() { verifC06ParsePrefix(2) }

// VerifC06ParsePrefixLong: x = 1..3 arbitrary bytes (thorough).
func VerifC06ParsePrefixLong() { verifC06ParsePrefix(3) }

func verifC06ParsePrefix(maxN int) {
	k := zzverif.Choice("prefix", len(c06Prefixes)+1)
	if k == len(c06Prefixes) {
		k++ // the path-alphabet include; bare bytes are VerifC06Parse's job
	}
	content, paths := c06Content(k, 1+zzverif.Choice("n", maxN))
	s, uri := c06Server(content)
	c06Cores(s, uri, content, paths)
	zzverif.Reach("C06.parseprefix.end")
}

// concrete non-ASCII text for the requests that lower-case document text: 2-, 3- and 4-byte
// characters, an upper-case letter, and the two characters whose lower-case form has a
// different byte length (U+0130, U+212A), as account, payee, tag and commodity.
var c06NonASCII = []string{
	"2024-01-15 \u00c9t\u00e9\n    \u00e9:\u20ac  1 \U0001F600\n    \u00c9",
	"2024-01-15 \u0130 ; \u212a:\u0130\n    \u0130:\u212a  1 \u212a\n    \u0130:",
	"account \u00c9:\u00e9\n2024-01-15 x\n    \u00e9",
}

// VerifC06Requests: the whole request surface, including the background diagnostics task and
// the position-taking handlers with an arbitrary Position, on prefix ++ x (x = 0..1 / 0..2 bytes)
// and on x alone (0..2 / 0..3 bytes). Quick: Position = two unconstrained uint32. Thorough:
// coordinates 0..255 or 2^32-256..2^32-1 (c06SmallPos: conditions on one symbolic byte need no
// solver call, which is what makes the longer x affordable).
func VerifC06Requests()     { verifC06Requests(1, 2, false) }
func VerifC06RequestsLong() { verifC06Requests(2, 3, true) }

func verifC06Requests(maxPre, maxBare int, smallPos bool) {
	k := zzverif.Choice("prefix", len(c06Prefixes)+3)
	var content string
	paths, lower := true, true
	if k == len(c06Prefixes)+2 {
		content = c06NonASCII[zzverif.Choice("nonascii", len(c06NonASCII))]
	} else {
		maxN := maxPre
		if k == len(c06Prefixes) {
			maxN = maxBare
		}
		n := zzverif.Choice("n", maxN+1)
		content, paths = c06Content(k, n)
		lower = !c06ValidMultibyteStart(content[len(content)-n:])
	}
	s, uri := c06Server(content)
	if paths {
		c06Drain(s, uri, content) // the background diagnostics task (include loader + analysis)
	} else {
		_ = s.analyze(content, nil)
	}
	var pos protocol.Position
	if smallPos {
		pos = c06SmallPos()
	} else {
		pos = protocol.Position{Line: zzverif.Uint32("line"), Character: zzverif.Uint32("char")}
	}
	c06Positional(s, uri, content, pos, lower)
	zzverif.Reach("C06.requests.end")
}
