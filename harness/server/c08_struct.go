//go:build verif

package server

import (
	"context"
	"fmt"

	"go.lsp.dev/protocol"

	"github.com/juev/hledger-lsp/internal/zzverif"
)

func init() {
	zzverif.Register("VerifC08DocSymbols", VerifC08DocSymbols)
	zzverif.Register("VerifC08DocSymbolsLong", VerifC08DocSymbolsLong)
	zzverif.Register("VerifC08WsSymbols", VerifC08WsSymbols)
	zzverif.Register("VerifC08WsSymbolsLong", VerifC08WsSymbolsLong)
	zzverif.Register("VerifC08Links", VerifC08Links)
	zzverif.Register("VerifC08LinksLong", VerifC08LinksLong)
	zzverif.Register("VerifC08Folding", VerifC08Folding)
	zzverif.Register("VerifC08FoldingLong", VerifC08FoldingLong)
	zzverif.Register("VerifC08Diagnostics", VerifC08Diagnostics)
	zzverif.Register("VerifC08DiagnosticsLong", VerifC08DiagnosticsLong)
}

func VerifC08DocSymbols()       { verifC08DocSymbols(c08ChooseBoth(c08Quick)) }
func VerifC08DocSymbolsLong()   { verifC08DocSymbols(c08ChooseBoth(c08Thorough)) }
func VerifC08WsSymbols()        { verifC08WsSymbols(c08Choose(c08Quick, c08NModes)) }
func VerifC08WsSymbolsLong()    { verifC08WsSymbols(c08Choose(c08Thorough, c08NModes)) }
func VerifC08Links()            { verifC08Links(c08Choose(c08Quick, 2)) }
func VerifC08LinksLong()        { verifC08Links(c08Choose(c08Thorough, 2)) }
func VerifC08Folding()          { verifC08Folding(c08ChooseBoth(c08Quick)) }
func VerifC08FoldingLong()      { verifC08Folding(c08ChooseBoth(c08Thorough)) }
func VerifC08Diagnostics()      { verifC08Diagnostics(c08Choose(c08Quick, 2)) }
func VerifC08DiagnosticsLong()  { verifC08Diagnostics(c08Choose(c08Thorough, 2)) }

// c08ChooseBoth: the shape-oriented derivations of c08Choose and the order-oriented ones of c08ChooseStruct
// (pairs of entries in the quick tier, triples in the thorough tier).
func c08ChooseBoth(tier int) *c08Case {
	if zzverif.Choice("chooser", 2) == 0 {
		return c08Choose(tier, 0)
	}
	return c08ChooseStruct(2 + tier)
}

// ---- document symbols: valid ranges, laminar across entries ----
func verifC08DocSymbols(c *c08Case) {
	w := c08Open(c)
	d := w.doc()
	syms, err := w.s.DocumentSymbol(context.Background(), &protocol.DocumentSymbolParams{TextDocument: protocol.TextDocumentIdentifier{URI: w.uri()}})
	zzverif.Assert(err == nil, "documentSymbol: error")
	var rs []protocol.Range
	for _, a := range syms {
		ds, ok := a.(protocol.DocumentSymbol)
		zzverif.Assert(ok, "documentSymbol: element is not a DocumentSymbol")
		c08Valid(d, ds.Range, "documentSymbol range")
		c08Valid(d, ds.SelectionRange, "documentSymbol selectionRange")
		rs = append(rs, ds.Range)
	}
	for i := range rs {
		for j := i + 1; j < len(rs); j++ {
			if !zzverif.Engine() && !c08LaminarRanges(rs[i], rs[j]) {
				fmt.Printf("DUMP symbols %v %v\n%s\n", rs[i], rs[j], d.text)
			}
			zzverif.Assert(c08LaminarRanges(rs[i], rs[j]), "documentSymbol: symbols of different entries partially overlap")
		}
	}
	if len(rs) > 0 {
		zzverif.Reach("C08.docsymbols.range")
	}
}

// ---- workspace symbols: declarations and payees, each covering its leaf ----
func verifC08WsSymbols(c *c08Case) {
	w := c08Open(c)
	syms, err := w.s.WorkspaceSymbol(context.Background(), &protocol.WorkspaceSymbolParams{Query: ""})
	zzverif.Assert(err == nil, "workspaceSymbol: error")
	for _, sy := range syms {
		d := w.docOf(sy.Location.URI)
		zzverif.Assert(d != nil, "workspaceSymbol: location names a document the server was never given")
		if d == nil {
			continue
		}
		switch sy.Kind {
		case protocol.SymbolKindClass:
			c08Covers(d, sy.Location.Range, "workspaceSymbol account", c08KAcct)
		case protocol.SymbolKindEnum:
			c08Covers(d, sy.Location.Range, "workspaceSymbol commodity", c08KComm)
		case protocol.SymbolKindFunction:
			c08Covers(d, sy.Location.Range, "workspaceSymbol payee", c08KPayee)
		default:
			c08Valid(d, sy.Location.Range, "workspaceSymbol")
		}
	}
	if len(syms) > 0 {
		zzverif.Reach("C08.wssymbols.range")
	}
}

// ---- document links: the range covers the include path ----
func verifC08Links(c *c08Case) {
	w := c08Open(c)
	d := w.doc()
	links, err := w.s.DocumentLink(context.Background(), &protocol.DocumentLinkParams{TextDocument: protocol.TextDocumentIdentifier{URI: w.uri()}})
	zzverif.Assert(err == nil, "documentLink: error")
	for _, l := range links {
		c08Covers(d, l.Range, "documentLink", c08KPath)
	}
	if len(links) > 0 {
		zzverif.Reach("C08.links.range")
	} else {
		zzverif.Reach("C08.links.none")
	}
}

// ---- folding ranges: inside the document, laminar across entries ----
func verifC08Folding(c *c08Case) {
	w := c08Open(c)
	d := w.doc()
	folds, err := w.s.FoldingRanges(context.Background(), &protocol.FoldingRangeParams{TextDocumentPositionParams: w.tdp(protocol.Position{})})
	zzverif.Assert(err == nil, "foldingRange: error")
	n := uint32(len(d.lens))
	for _, f := range folds {
		zzverif.Assert(f.StartLine <= f.EndLine, "foldingRange: start line after end line")
		zzverif.Assert(f.EndLine < n, "foldingRange: ends beyond the last line")
		zzverif.Assert(f.StartCharacter == 0 && f.EndCharacter == 0, "foldingRange: unexpected character offsets")
	}
	for i := range folds {
		for j := i + 1; j < len(folds); j++ {
			a, b := folds[i], folds[j]
			if c08Laminar(a.StartLine, a.EndLine, b.StartLine, b.EndLine) {
				continue
			}
			if zzverif.Known(c08ClsFoldNext) && (c08FoldNext(d, a, b) || c08FoldNext(d, b, a)) {
				zzverif.Reach("kf:" + c08ClsFoldNext)
				continue
			}
			if !zzverif.Engine() {
				fmt.Printf("DUMP folds %v %v\n%s\n", a, b, d.text)
			}
			zzverif.Assert(false, "foldingRange: folds of different entries partially overlap")
		}
	}
	if len(folds) > 0 {
		zzverif.Reach("C08.folding.range")
	} else {
		zzverif.Reach("C08.folding.none")
	}
}

// c08FoldNext: a is the fold of a transaction and ends one line after the transaction's last line, which is
// where b starts (the parser takes the position of the token after the entry as its end).
func c08FoldNext(d *c08Doc, a, b protocol.FoldingRange) bool {
	e := d.entryAt(int(a.StartLine))
	return e >= 0 && d.entries[e].kind == c08ETx && uint32(d.entries[e].first) == a.StartLine &&
		a.EndLine == uint32(d.entries[e].last)+1 && b.StartLine == a.EndLine
}

// ---- diagnostics: every published range is valid; those naming a commodity or a tag cover it ----
func verifC08Diagnostics(c *c08Case) {
	w := c08Open(c)
	d := w.doc()
	p := w.cl.last(w.uri())
	zzverif.Assert(p != nil, "diagnostics: nothing published for the opened document")
	if p == nil {
		return
	}
	for _, dg := range p.Diagnostics {
		code, _ := dg.Code.(string)
		switch code {
		case "UNDECLARED_ACCOUNT":
			c08UndeclaredAccount(d, dg.Range)
		case "UNDECLARED_COMMODITY":
			c08Covers(d, dg.Range, "diagnostic undeclared commodity", c08KComm)
		case "EMPTY_DATE_TAG", "INVALID_DATE_TAG":
			c08Covers(d, dg.Range, "diagnostic date tag", c08KTag)
		default:
			c08Valid(d, dg.Range, "diagnostic")
		}
	}
	if len(p.Diagnostics) > 0 {
		zzverif.Reach("C08.diagnostics.range")
	} else {
		zzverif.Reach("C08.diagnostics.none")
	}
}

// The undeclared-account warning names an account ("account 'x' is not declared") and carries the range of the
// whole posting (first token after the indent to the end of the line). A diagnostic about a posting may
// mark the posting: the property's "range reported for an account covers exactly that text" is not read
// as forbidding that, so both the account's span and the posting's span are accepted.

func c08UndeclaredAccount(d *c08Doc, r protocol.Range) {
	const what = "diagnostic undeclared account"
	if d.covers(r, c08KAcct) >= 0 {
		return
	}
	for li := range d.leaves {
		l := &d.leaves[li]
		if l.kind != c08KAcct || l.decl || uint32(l.line) != r.Start.Line {
			continue
		}
		s, e := d.nextNonBlank(l.line, 0), len(d.blank[l.line])
		if !c08IsRange(r, l.line, s, e) {
			continue
		}
		if d.u16At(l.line, s) == s && d.u16At(l.line, e) == e {
			return
		}
		need := c08ClsAstral
		if c08AllKnown(need) {
			c08ReachKnown(need)
			return
		}
	}
	c08Covers(d, r, what, c08KAcct)
}
