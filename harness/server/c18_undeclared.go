//go:build verif

package server

// C18 Undeclared-account / undeclared-commodity warnings are exact.
//
// The published diagnostics of an opened document are compared with a rule evaluated on
// the derivation the text was built from: declared names and posting names are assembled
// from symbolic letters (the solver decides whether they coincide, are a prefix, or are only
// similar), the placement of the declaration (current file / included file / sibling file of
// the workspace / nowhere), the three diagnostics settings and the mode (workspace root or
// none) are case-split or symbolic.

import (
	"context"
	"strings"

	"go.lsp.dev/protocol"

	"github.com/juev/hledger-lsp/internal/zzverif"
)

func init() {
	zzverif.Register("VerifC18Accounts", VerifC18Accounts)
	zzverif.Register("VerifC18AccountsLong", VerifC18AccountsLong)
	zzverif.Register("VerifC18Commodities", VerifC18Commodities)
	zzverif.Register("VerifC18CommoditiesLong", VerifC18CommoditiesLong)
}

const (
	// without a workspace root only the current file's own declarations are consulted:
	// declarations that live in an included file do not count as "declared".
	c18ClsIncl = "c18-no-workspace-ignores-included-declarations"
)

const (
	c18Cur = iota
	c18Inc
	c18Sib
	c18None
)

type c18World struct {
	ctx   context.Context
	root  string
	ws    bool
	s     *Server
	cl    *zzClient
	uri   protocol.DocumentURI
	lines int
}

// c18Letters: both cases of two letters, so that equal / different-case / different names
// are all reachable for the solver.
const c18Letters = "aAbB"

var c18Std = []string{"assets", "Assets", "LIABILITIES", "equity", "Expenses", "revenues", "income"}

// c18Seg1: first segment of a posting account: symbolic letters (2 or 3), or a standard
// category in some case, or a near miss of one.
func c18Seg1(name string, deep bool) (seg string, std bool) {
	n := 4
	if deep {
		n = 4 + len(c18Std)
	}
	switch k := zzverif.Choice(name+".k", n); k {
	case 0:
		return c18Word(name, 2), false
	case 1:
		return c18Word(name, 3), false
	case 2:
		return "asset", false // similar to a standard category, not one
	case 3:
		return "Assets", true
	default:
		return c18Std[k-4], true
	}
}

// c18Word: n symbolic letters, the first one lower-case (an all-capitals first word is
// lexed as a commodity: that is C03's subject, not this property's).
func c18Word(name string, n int) string {
	return zzverif.Text(name+".h", "ab", 1) + zzverif.Text(name, c18Letters, n-1)
}

func c18LowerEq(a, b string) bool { return strings.ToLower(a) == strings.ToLower(b) }

// c18Declared: the rule of the property, on the derivation.
func c18Declared(name string, std bool, decl []string) bool {
	if std {
		return true
	}
	for _, d := range decl {
		if name == d || strings.HasPrefix(name, d+":") {
			return true
		}
	}
	return false
}

type c18Setting struct{ acct, comm, unbal bool }

func (w *c18World) start(ws bool, set c18Setting) {
	w.ctx = context.Background()
	w.root = zzverif.Root()
	w.ws = ws
	w.s = NewServer()
	w.cl = &zzClient{}
	w.s.SetClient(w.cl)
	if ws {
		_, _ = w.s.Initialize(w.ctx, &protocol.InitializeParams{RootURI: protocol.DocumentURI("file://" + w.root)})
	} else {
		_, _ = w.s.Initialize(w.ctx, &protocol.InitializeParams{})
	}
	st := w.s.getSettings()
	st.Diagnostics.UndeclaredAccounts = set.acct
	st.Diagnostics.UndeclaredCommodities = set.comm
	st.Diagnostics.UnbalancedTransactions = set.unbal
	w.s.setSettings(st)
	_ = w.s.Initialized(w.ctx, &protocol.InitializedParams{})
	c18Settle()
}

func c18Settle() {
	if zzverif.Engine() {
		for zzverif.PendingTasks() > 0 {
			zzverif.RunTask(0)
		}
	}
}

// open opens cur.journal and returns the diagnostics published for it once settled.
func (w *c18World) open(text string) []protocol.Diagnostic { return w.openFile("cur.journal", text) }

// scratch: another document, outside every include tree, that declares names of its own, is
// opened (and analysed) first. What it declares must not leak into the verdicts on cur.journal.
func (w *c18World) scratch(decls string) {
	text := decls + "2024-03-01 s\n    sc:a  1 CHF\n    sc:b\n"
	zzverif.WriteFile(w.root+"/notes/scratch.journal", text)
	_ = w.openFile("notes/scratch.journal", text)
}

func (w *c18World) openFile(name, text string) []protocol.Diagnostic {
	w.uri = protocol.DocumentURI("file://" + w.root + "/" + name)
	if zzverif.Engine() {
		_ = w.s.DidOpen(w.ctx, &protocol.DidOpenTextDocumentParams{TextDocument: protocol.TextDocumentItem{URI: w.uri, Text: text}})
		c18Settle()
	} else {
		// the same notification as under the engine (it also hands the text to the workspace);
		// its goroutine is muted and the analysis repeated here, so that nothing runs concurrently
		zzNotify(w.s, func() {
			_ = w.s.DidOpen(w.ctx, &protocol.DidOpenTextDocumentParams{TextDocument: protocol.TextDocumentItem{URI: w.uri, Text: text}})
		})
		w.s.publishDiagnostics(w.ctx, w.uri, text)
	}
	p := w.cl.last(w.uri)
	if p == nil {
		return nil
	}
	return p.Diagnostics
}

// openAfter: cur.journal is first open with every name it uses declared at its top, and
// analysed (whatever the server keeps of those declarations is in place); then the
// declarations are deleted by a change, the names still being used. Returns the diagnostics of
// the final text.
func (w *c18World) openAfter(prevDecls, text string) []protocol.Diagnostic {
	_ = w.openFile("cur.journal", prevDecls+text)
	zzNotify(w.s, func() {
		_ = w.s.DidChange(w.ctx, &protocol.DidChangeTextDocumentParams{
			TextDocument:   protocol.VersionedTextDocumentIdentifier{TextDocumentIdentifier: protocol.TextDocumentIdentifier{URI: w.uri}},
			ContentChanges: []protocol.TextDocumentContentChangeEvent{{Text: text}},
		})
	})
	if zzverif.Engine() {
		c18Settle()
	} else {
		w.s.publishDiagnostics(w.ctx, w.uri, text)
	}
	p := w.cl.last(w.uri)
	if p == nil {
		return nil
	}
	return p.Diagnostics
}

type c18D struct {
	line uint32
	code string
}

func c18Codes(ds []protocol.Diagnostic, code string) []uint32 {
	var out []uint32
	for _, d := range ds {
		if c, _ := d.Code.(string); c == code {
			out = append(out, d.Range.Start.Line)
		}
	}
	return out
}

func c18SameLines(a, b []uint32) bool {
	if len(a) != len(b) {
		return false
	}
	for i := range a {
		if a[i] != b[i] {
			return false
		}
	}
	return true
}

// c18Others: everything except the given code, as (line, code) in order.
func c18Others(ds []protocol.Diagnostic, code string) []c18D {
	var out []c18D
	for _, d := range ds {
		if c, _ := d.Code.(string); c != code {
			out = append(out, c18D{d.Range.Start.Line, c})
		}
	}
	return out
}

func c18SameD(a, b []c18D) bool {
	if len(a) != len(b) {
		return false
	}
	for i := range a {
		if a[i] != b[i] {
			return false
		}
	}
	return true
}

// files writes the world: cur.journal includes inc.journal; with a workspace root,
// main.journal includes cur.journal and sib.journal.
func (w *c18World) files(cur, inc, sib string) {
	zzverif.WriteFile(w.root+"/inc.journal", inc)
	zzverif.WriteFile(w.root+"/cur.journal", cur)
	if w.ws {
		zzverif.WriteFile(w.root+"/sib.journal", sib)
		zzverif.WriteFile(w.root+"/main.journal", "include cur.journal\ninclude sib.journal\n")
	}
}

func c18Place(name string, ws bool) int {
	if ws {
		return zzverif.Choice(name, 4)
	}
	k := zzverif.Choice(name, 3)
	if k == 2 {
		return c18None
	}
	return k
}

func c18Settings() c18Setting {
	return c18Setting{zzverif.Bool("set.accounts"), zzverif.Bool("set.commodities"), zzverif.Bool("set.unbalanced")}
}

func verifC18Accounts(deep bool) {
	ws := zzverif.Choice("ws", 2) == 1
	root := zzverif.Root()
	// declared account: one or two segments of symbolic letters
	decl := c18Word("decl.0", 2) + ":" + zzverif.Text("decl.1", c18Letters, 1)
	if zzverif.Choice("decl.segs", 2) == 1 {
		decl += ":" + zzverif.Text("decl.2", c18Letters, 1)
	}
	place := c18Place("place", ws)
	// a second declaration (fixed name) so that "at least one declared" and "this one declared" differ
	place2 := c18None
	if deep {
		place2 = c18Place("place2", ws)
	}
	const decl2 = "zz:top"
	// posting accounts
	s1, std1 := c18Seg1("p1", deep)
	p1 := s1 + ":" + zzverif.Text("p1.1", c18Letters, 1+zzverif.Choice("p1.1.len", 2))
	p2 := c18Word("p2.0", 2) + ":" + zzverif.Text("p2.1", c18Letters, 1)
	if zzverif.Choice("p2.deep", 2) == 1 {
		p2 += ":" + zzverif.Text("p2.2", c18Letters, 1)
	}
	var curDecl, incDecl, sibDecl string
	add := func(pl int, name string) {
		switch pl {
		case c18Cur:
			curDecl += "account " + name + "\n"
		case c18Inc:
			incDecl += "account " + name + "\n"
		case c18Sib:
			sibDecl += "account " + name + "\n"
		}
	}
	add(place, decl)
	add(place2, decl2)
	head := curDecl + "include inc.journal\n"
	l0 := uint32(strings.Count(head, "\n"))
	body := "2024-01-15 x\n    " + p1 + "  1 USD\n    " + p2 + "  -1 USD\n2024-01-16 y\n    " + p2 + "  2 USD\n    other:acct\n"
	cur := head + body
	w := &c18World{}
	set := c18Settings()
	w.ws = ws
	w.root = root
	w.files(cur, incDecl+"2024-01-01 i\n    inc:a  1 USD\n    inc:b\n", sibDecl)
	w.start(ws, set)
	if zzverif.Choice("scratch", 2) == 1 {
		w.scratch("account " + p1 + "\naccount " + p2 + "\naccount other:acct\n")
	}
	var got []protocol.Diagnostic
	if deep && zzverif.Choice("prev", 2) == 1 { // quick tier: the commodities harness takes this step
		got = w.openAfter("account "+p1+"\naccount "+p2+"\naccount other:acct\n", cur)
	} else {
		got = w.open(cur)
	}

	// scope of the rule: current file, its include tree, or its workspace
	var inScope []string
	if place != c18None {
		inScope = append(inScope, decl)
	}
	if place2 != c18None {
		inScope = append(inScope, decl2)
	}
	if !ws && zzverif.Known(c18ClsIncl) && (place == c18Inc || place2 == c18Inc) {
		zzverif.Reach("kf:" + c18ClsIncl)
		return
	}
	var want []uint32
	if set.acct && len(inScope) > 0 {
		if !c18Declared(p1, std1, inScope) {
			want = append(want, l0+1)
		}
		if !c18Declared(p2, false, inScope) {
			want = append(want, l0+2, l0+4)
		}
		want = append(want, l0+5) // other:acct is never declared
	}
	gotLines := c18Codes(got, "UNDECLARED_ACCOUNT")
	zzverif.Observe("acct.lines", len(gotLines))
	zzverif.Observe("acct.got", c18Render(gotLines))
	zzverif.Observe("acct.want", c18Render(want))
	zzverif.Assert(c18SameLines(gotLines, want), "C18: undeclared-account warnings are exactly the postings the rule names")

	// the other kinds are unaffected by this setting: compare with the same world, setting flipped
	w2 := &c18World{ws: ws, root: root}
	w2.start(ws, c18Setting{!set.acct, set.comm, set.unbal})
	got2 := w2.open(cur)
	zzverif.Assert(c18SameD(c18Others(got, "UNDECLARED_ACCOUNT"), c18Others(got2, "UNDECLARED_ACCOUNT")),
		"C18: toggling the undeclared-accounts setting changes other diagnostics")
	zzverif.Reach("C18.accounts")
}

func VerifC18Accounts()     { verifC18Accounts(false) }
func VerifC18AccountsLong() { verifC18Accounts(true) }

var c18Syms = []string{"USD", "EUR", "$"}

func c18Amt(sym, q string) string {
	if sym == "$" {
		return "$" + q
	}
	return q + " " + sym
}

func verifC18Commodities(deep bool) {
	ws := zzverif.Choice("ws", 2) == 1
	root := zzverif.Root()
	ndecl := 2
	if deep {
		ndecl = 3
	}
	declSym := c18Syms[zzverif.Choice("decl", ndecl)]
	place := c18Place("place", ws)
	// uses: amount symbol, optional cost symbol, optional assertion symbol (first transaction);
	// second transaction repeats the amount symbol twice (one warning per transaction, not per use)
	a := c18Syms[zzverif.Choice("amt", 3)]
	costK := zzverif.Choice("cost", 4)
	asrtK := zzverif.Choice("asrt", 4)
	if !deep && costK != 0 && asrtK != 0 {
		zzverif.Assume(costK == asrtK || costK == 1)
	}
	line1 := "    a:b  " + c18Amt(a, "1")
	line2 := "    c:d"
	type use struct {
		sym  string
		line uint32
	}
	used := []use{{a, 1}}
	if costK > 0 {
		c := c18Syms[costK-1]
		line1 += " @ " + c18Amt(c, "2")
		used = append(used, use{c, 1})
	}
	if asrtK > 0 {
		c := c18Syms[asrtK-1]
		if zzverif.Choice("asrt.on", 2) == 1 {
			// assertion on the posting WITHOUT an amount
			line2 += "  = " + c18Amt(c, "3")
			used = append(used, use{c, 2})
		} else {
			line1 += " = " + c18Amt(c, "3")
			used = append(used, use{c, 1})
		}
	}
	var curDecl, incDecl, sibDecl string
	switch place {
	case c18Cur:
		curDecl = "commodity " + declSym + "\n"
	case c18Inc:
		incDecl = "commodity " + declSym + "\n"
	case c18Sib:
		sibDecl = "commodity " + declSym + "\n"
	}
	head := curDecl + "include inc.journal\n"
	l0 := uint32(strings.Count(head, "\n"))
	body := "2024-01-15 x\n" + line1 + "\n" + line2 + "\n2024-01-16 y\n    a:b  " + c18Amt(a, "5") + "\n    c:d  " + c18Amt(a, "-5") + "\n"
	cur := head + body
	set := c18Settings()
	w := &c18World{ws: ws, root: root}
	w.files(cur, incDecl+"2024-01-01 i\n    inc:a  1 USD\n    inc:b\n", sibDecl)
	w.start(ws, set)
	if zzverif.Choice("scratch", 2) == 1 {
		w.scratch("commodity USD\ncommodity EUR\ncommodity $\n")
	}
	var got []protocol.Diagnostic
	if zzverif.Choice("prev", 2) == 1 {
		got = w.openAfter("commodity USD\ncommodity EUR\ncommodity $\n", cur)
	} else {
		got = w.open(cur)
	}
	if !ws && zzverif.Known(c18ClsIncl) && place == c18Inc {
		zzverif.Reach("kf:" + c18ClsIncl)
		return
	}
	var want []uint32
	if set.comm && place != c18None {
		seen := map[string]bool{}
		for _, u := range used {
			if u.sym != declSym && !seen[u.sym] {
				seen[u.sym] = true
				want = append(want, l0+u.line)
			}
		}
		if a != declSym {
			want = append(want, l0+4)
		}
	}
	gotLines := c18Codes(got, "UNDECLARED_COMMODITY")
	zzverif.Observe("comm.lines", len(gotLines))
	zzverif.Observe("comm.got", c18Render(gotLines))
	zzverif.Observe("comm.want", c18Render(want))
	zzverif.Assert(c18SameLines(gotLines, want), "C18: undeclared-commodity warnings are one per undeclared symbol and transaction")
	w2 := &c18World{ws: ws, root: root}
	w2.start(ws, c18Setting{set.acct, !set.comm, set.unbal})
	got2 := w2.open(cur)
	zzverif.Assert(c18SameD(c18Others(got, "UNDECLARED_COMMODITY"), c18Others(got2, "UNDECLARED_COMMODITY")),
		"C18: toggling the undeclared-commodities setting changes other diagnostics")
	zzverif.Reach("C18.commodities")
}

func VerifC18Commodities()     { verifC18Commodities(false) }
func VerifC18CommoditiesLong() { verifC18Commodities(true) }

func c18Render(l []uint32) string {
	out := ""
	for _, x := range l {
		out += zzverif.Itoa(int(x)) + " "
	}
	return out
}
