//go:build verif

package server

import (
	"context"
	"encoding/json"

	"go.lsp.dev/protocol"

	"github.com/juev/hledger-lsp/internal/zzverif"
)

func init() { zzverif.Register("VerifSmoke", VerifSmoke) }

const smokeDoc = `; comment
account assets:cash  ; type:A
commodity $1,000.00
include other.journal

2024-01-15 * (c1) Shop | note ; tag1: v
    expenses:food  $10.50 @ 2 EUR
    assets:cash  = $100
    (virtual:acct)  1 "a b"

2024-01-16 ATM
    a:b  1
    c:d
`

func VerifSmoke() {
	ctx := context.Background()
	root := zzverif.Root()
	zzverif.WriteFile(root+"/main.journal", smokeDoc)
	zzverif.WriteFile(root+"/other.journal", "2024-01-01 x\n    a:b  1 USD\n    c:d\n")
	s := NewServer()
	cl := &zzClient{}
	s.SetClient(cl)
	_, _ = s.Initialize(ctx, &protocol.InitializeParams{RootURI: protocol.DocumentURI("file://" + root)})
	_ = s.Initialized(ctx, &protocol.InitializedParams{})
	uri := protocol.DocumentURI("file://" + root + "/main.journal")
	_ = s.DidOpen(ctx, &protocol.DidOpenTextDocumentParams{TextDocument: protocol.TextDocumentItem{URI: uri, Text: smokeDoc}})
	for zzverif.PendingTasks() > 0 {
		zzverif.RunTask(0)
	}
	tdp := protocol.TextDocumentPositionParams{TextDocument: protocol.TextDocumentIdentifier{URI: uri}, Position: protocol.Position{Line: 6, Character: 8}}
	h, _ := s.Hover(ctx, &protocol.HoverParams{TextDocumentPositionParams: tdp})
	zzverif.Observe("hover", h != nil)
	c, _ := s.Completion(ctx, &protocol.CompletionParams{TextDocumentPositionParams: tdp})
	zzverif.Observe("completion", len(c.Items))
	d, _ := s.Definition(ctx, &protocol.DefinitionParams{TextDocumentPositionParams: tdp})
	zzverif.Observe("definition", len(d))
	r, _ := s.References(ctx, &protocol.ReferenceParams{TextDocumentPositionParams: tdp, Context: protocol.ReferenceContext{IncludeDeclaration: true}})
	zzverif.Observe("references", len(r))
	pr, _ := s.PrepareRename(ctx, &protocol.PrepareRenameParams{TextDocumentPositionParams: tdp})
	zzverif.Observe("prepare", pr != nil)
	we, _ := s.Rename(ctx, &protocol.RenameParams{TextDocumentPositionParams: tdp, NewName: "x:y"})
	zzverif.Observe("rename", we != nil)
	ds, _ := s.DocumentSymbol(ctx, &protocol.DocumentSymbolParams{TextDocument: protocol.TextDocumentIdentifier{URI: uri}})
	zzverif.Observe("symbols", len(ds))
	ws, _ := s.WorkspaceSymbol(ctx, &protocol.WorkspaceSymbolParams{Query: "a"})
	zzverif.Observe("wsymbols", len(ws))
	fr, _ := s.FoldingRanges(ctx, &protocol.FoldingRangeParams{TextDocumentPositionParams: tdp})
	zzverif.Observe("folds", len(fr))
	dl, _ := s.DocumentLink(ctx, &protocol.DocumentLinkParams{TextDocument: protocol.TextDocumentIdentifier{URI: uri}})
	zzverif.Observe("links", len(dl))
	st, _ := s.SemanticTokensFull(ctx, &protocol.SemanticTokensParams{TextDocument: protocol.TextDocumentIdentifier{URI: uri}})
	zzverif.Observe("semtok", len(st.Data))
	ed, _ := s.Format(ctx, &protocol.DocumentFormattingParams{TextDocument: protocol.TextDocumentIdentifier{URI: uri}})
	zzverif.Observe("edits", len(ed))
	raw := `{"textDocument":{"uri":"` + string(uri) + `"},"position":{"line":11,"character":14}}`
	il, _ := s.InlineCompletion(ctx, json.RawMessage(raw))
	zzverif.Observe("inline", il != nil)
	p := cl.last(uri)
	zzverif.Observe("published", p != nil)
	if p != nil {
		zzverif.Observe("ndiag", len(p.Diagnostics))
		for i, dg := range p.Diagnostics {
			zzverif.Observe("diag"+zzverif.Itoa(i), dg.Message)
		}
	}
	zzverif.Reach("smoke.end")
}
