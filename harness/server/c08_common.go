//go:build verif

package server

import (
	"context"
	"fmt"
	"strings"

	"go.lsp.dev/protocol"

	"github.com/juev/hledger-lsp/internal/zzverif"
)

// ---------------- choosing a derivation ----------------

const c08NDev = 41

// c08Dev applies one deviation from the base shape
//
//	2024-01-15 Sh?p / "    ex?:fo?d  1 USD" / "    as:ca?h"
func c08Dev(o *c08Opt, d int) {
	switch {
	case d == 0:
	case d == 1:
		o.date = 1
	case d == 2:
		o.date2 = 1
	case d == 3:
		o.status = 1
	case d == 4:
		o.hws = 2
	case d == 5:
		o.code = 1
	case d == 6:
		o.desc = 1
	case d >= 7 && d <= 11:
		o.hcomment = d - 6
	case d == 12:
		o.ind = 1
	case d == 13:
		o.ind = 2
	case d == 14:
		o.pstatus = 1
	case d == 15:
		o.virt = 1
	case d == 16:
		o.virt = 2
	case d == 17:
		o.segsp = 1
	case d == 18:
		o.gap = 3
	case d >= 19 && d <= 25:
		o.amount = d - 18
	case d == 26:
		o.amount = -1
	case d == 27:
		o.cost = 1
	case d == 28:
		o.cost = 2
	case d == 29:
		o.assertion = 1
	case d >= 30 && d <= 34:
		o.pcomment = d - 29
	case d == 35:
		o.p2comment = 1
	case d == 36:
		o.p2comment = 2
	case d == 37:
		o.crlf = 1
	case d == 38:
		o.noEOL = 1
	case d == 39:
		o.status = 2
	case d == 40:
		o.p2amount = 1
	}
}

var c08Layouts = [][]int{
	{c08IT1},
	{c08IT1, c08IT2},
	{c08IT1, c08IBlank, c08IT2},
	{c08IAcct0, c08IT1},
	{c08IAcct1, c08IBlank, c08IT1},
	{c08IAcct2, c08IT1},
	{c08IAcct3, c08IT1},
	{c08IComm0, c08IT1},
	{c08IComm1, c08IBlank, c08IT1},
	{c08IComm2, c08IT1},
	{c08IComm3, c08IT1},
	{c08IComm4, c08IT1},
	{c08IInclude, c08IT1},
	{c08IPrice, c08IT1},
	{c08IYear, c08IT1},
	{c08IComment2, c08IT1},
	{c08IT1, c08IPostingComment},
	{c08IT1, c08IComment1},
	{c08IT2, c08IT1},
}

const (
	c08Quick = iota
	c08Thorough
)

// c08DevSites: the slot sites a deviation introduces (quick tier: a wide character is placed
// only in the base shape's leaves or in the leaves the deviation adds).
func c08DevSites(d int) []int {
	switch {
	case d == 0:
		return []int{c08SDesc, c08SSeg1, c08SSeg2, c08SAcct2}
	case d == 5:
		return []int{c08SCode}
	case d == 6:
		return []int{c08SNote, c08SDesc}
	case d >= 7 && d <= 11:
		return []int{c08SHFree, c08SHVal, c08SDesc}
	case d == 22 || d == 25: // quoted commodity, text commodity
		return []int{c08SQuoted, c08SSeg1}
	case d >= 19 && d <= 29:
		return []int{c08SSeg1}
	case d >= 30 && d <= 34:
		return []int{c08SPFree, c08SPVal, c08SSeg2}
	case d == 35 || d == 36:
		return []int{c08SAcct2}
	case d == 2 || d == 3 || d == 4:
		return []int{c08SDesc}
	case d >= 12 && d <= 18:
		return []int{c08SSeg1}
	case d == 37 || d == 38:
		return []int{c08SDesc, c08SAcct2}
	}
	return nil
}

func c08LayoutSites(l int) []int {
	switch l {
	case 1, 2, 18:
		return []int{c08SSeg1}
	case 3, 6:
		return []int{c08SSeg1, c08SSeg2}
	case 4:
		return []int{c08SDComment, c08SSeg2}
	case 12:
		return []int{c08SPath}
	case 15, 17:
		return []int{c08SLineComment}
	case 16:
		return []int{c08SPFree}
	}
	return nil
}

// c08Case is one chosen derivation: the document(s) and the way the server is set up.
//
//	mode 0: one file f0, no workspace root
//	mode 1: f0 = "include f1.journal" + transaction, f1 = declarations + transaction; no workspace root; request from f0
//	mode 2: as 1 with workspace root (Initialize with RootURI)
//	mode 3: as 2, request from the included file f1
//	mode 4: as 1, request from the included file f1
type c08Case struct {
	o     *c08Opt
	items []int
	mode  int
	line  int // thorough tier: the line of transaction 1 that the chosen deviations change (-1: none in particular)
}

const c08NModes = 4

// c08ApplyOne applies one quick-tier deviation code: a shape deviation (0..c08NDev-1), a layout (next
// len(c08Layouts)-1 codes) or a multi-file mode (the codes after those). Returns the layout and the slot sites
// the deviation introduces.
func c08ApplyOne(c *c08Case, d int) (int, []int) {
	switch {
	case d < c08NDev:
		c08Dev(c.o, d)
		return 0, c08DevSites(d)
	case d < c08NDev+len(c08Layouts)-1:
		layout := d - c08NDev + 1
		return layout, c08LayoutSites(layout)
	}
	c.mode = d - (c08NDev + len(c08Layouts) - 1) + 1
	return 0, []int{c08SSeg1, c08SSeg2}
}

// c08ApplyQuick applies quick-tier deviation d (code of c08ApplyOne, or two codes at once: 1000*d1 + d2) and chooses
// at most one wide character among the sites it introduces (classes: the first nclass of 😀, é, €). Returns the layout.
func c08ApplyQuick(c *c08Case, d int, nclass int) int {
	o := c.o
	var layout int
	var sites []int
	if d >= 1000 {
		l1, s1 := c08ApplyOne(c, d/1000)
		l2, s2 := c08ApplyOne(c, d%1000)
		layout, sites = l1+l2, c08Union(s1, s2) // at most one of the two is a layout
	} else {
		layout, sites = c08ApplyOne(c, d)
	}
	if k := zzverif.Choice("site", len(sites)+1); k > 0 {
		o.site = sites[k-1]
		o.class = []int{3, 1, 2}[zzverif.Choice("class", nclass)]
	}
	return layout
}

// c08QuickExtras: combinations of two deviations that the quick tier adds to the single ones, each the smallest
// shape in which a known class shows: CRLF with an include directive;
// a lower-case commodity followed by a comment, by a cost, by a CRLF line end.
// a posting comment with a wide-character slot under the declaration of ANOTHER account (the
// undeclared-account diagnostic carries the posting's range, which ends behind the comment);
// a comment on the second posting under the declaration of the first posting's account.
var c08QuickExtras = []int{37*1000 + c08NDev + 11, 25*1000 + 30, 25*1000 + 27, 25*1000 + 37,
	30*1000 + c08NDev + 4, 33*1000 + c08NDev + 4, 35*1000 + c08NDev + 2}

// c08ChooseList: quick-tier derivation restricted to the listed deviations.
func c08ChooseList(devs []int, nclass int) *c08Case {
	c := &c08Case{o: &c08Opt{hws: 1, gap: 2, site: -1, site2: -1}, line: -1}
	layout := c08ApplyQuick(c, devs[zzverif.Choice("dev", len(devs))], nclass)
	c.items = c08Layouts[layout]
	return c
}

var c08F1Items = []int{c08IAcct0, c08IComm0, c08IT2}

// c08DevField: the field of the derivation a shape deviation sets (two deviations of one field exclude each other).
func c08DevField(d int) int {
	switch {
	case d == 3 || d == 39:
		return 3
	case d >= 7 && d <= 11:
		return 7
	case d == 12 || d == 13:
		return 12
	case d == 15 || d == 16:
		return 15
	case d >= 19 && d <= 26:
		return 19
	case d == 27 || d == 28:
		return 27
	case d >= 30 && d <= 34:
		return 30
	case d == 35 || d == 36:
		return 35
	}
	return d
}

// c08DevGroup: the line a shape deviation changes: 0 header, 1 first posting, 2 second posting, 3 the whole document.
func c08DevGroup(d int) int {
	switch {
	case d == 0 || d == 37 || d == 38:
		return 3
	case d <= 11 || d == 39:
		return 0
	case d <= 34:
		return 1
	}
	return 2
}

func c08Union(a, b []int) []int {
	out := append([]int{}, a...)
	for _, x := range b {
		dup := false
		for _, y := range out {
			dup = dup || x == y
		}
		if !dup {
			out = append(out, x)
		}
	}
	return out
}

var c08GroupSites = [][]int{{c08SDesc}, {c08SSeg1}, {c08SAcct2}, {c08SDesc, c08SSeg1, c08SAcct2}}

// c08ChooseThorough: the thorough-tier derivations, four families (all include the quick tier's shapes):
//
//	0  two shape deviations on the same line (or one of them document-wide: CRLF, no final EOL), single layout,
//	   at most one wide character (astral or the 3-byte currency sign) among the leaves of that line
//	1  every layout with the base shape, with CRLF, without final EOL; at most one wide character (three classes)
//	2  every multi-file mode with one shape deviation (harnesses with modes only)
//	3  one shape deviation and two wide characters (3 x 3 classes) at two of its sites
//
// c.line is the line the deviations change (-1: no single line).
func c08ChooseThorough(c *c08Case, modes int) int {
	o := c.o
	layout := 0
	nf := 4
	fam := zzverif.Choice("family", nf)
	switch fam {
	case 0:
		d1 := zzverif.Choice("dev", c08NDev)
		d2 := zzverif.Choice("dev2", c08NDev)
		g1, g2 := c08DevGroup(d1), c08DevGroup(d2)
		zzverif.Assume(d1 <= d2 && (d1 == d2 || c08DevField(d1) != c08DevField(d2)) && (g1 == g2 || g1 == 3 || g2 == 3))
		// without an amount there is no gap, cost or assertion
		zzverif.Assume(!(d2 == 26 && d1 == 18) && !(d1 == 26 && (d2 == 27 || d2 == 28 || d2 == 29)))
		c08Dev(o, d1)
		c08Dev(o, d2)
		g := g1
		if g == 3 {
			g = g2
		}
		sites := c08Union(c08Union(c08DevSites(d1), c08DevSites(d2)), c08GroupSites[g])
		if g < 3 {
			c.line = g
		}
		if k := zzverif.Choice("site", len(sites)+1); k > 0 {
			o.site = sites[k-1]
			o.class = []int{3, 2}[zzverif.Choice("class", 2)]
		}
	case 1:
		layout = 1 + zzverif.Choice("layout", len(c08Layouts)-1)
		c08Dev(o, []int{0, 37, 38}[zzverif.Choice("dev", 3)])
		sites := c08Union(c08LayoutSites(layout), []int{c08SDesc})
		if k := zzverif.Choice("site", len(sites)+1); k > 0 {
			o.site = sites[k-1]
			o.class = 1 + zzverif.Choice("class", 3)
		}
	case 2:
		zzverif.Assume(modes > 0)
		c.mode = 1 + zzverif.Choice("mode", c08NModes)
		zzverif.Assume(c.mode <= modes)
		d := zzverif.Choice("dev", c08NDev)
		c08Dev(o, d)
		sites := c08Union(c08DevSites(d), []int{c08SSeg1, c08SSeg2})
		if k := zzverif.Choice("site", len(sites)+1); k > 0 {
			o.site = sites[k-1]
			o.class = 3
		}
	case 3:
		d := zzverif.Choice("dev", c08NDev)
		c08Dev(o, d)
		sites := c08DevSites(d)
		zzverif.Assume(len(sites) >= 2)
		i := zzverif.Choice("site", len(sites))
		j := zzverif.Choice("site2", len(sites))
		zzverif.Assume(i < j)
		o.site, o.site2 = sites[i], sites[j]
		o.class = 1 + zzverif.Choice("class", 3)
		o.class2 = 1 + zzverif.Choice("class2", 3)
	}
	return layout
}

// c08Choose picks the derivation. quick: one deviation (a shape deviation, a layout or a multi-file mode) and at
// most one wide character; thorough: see c08ChooseThorough.
// modes: number of multi-file modes the calling harness supports (0 .. c08NModes).
func c08Choose(tier int, modes int) *c08Case {
	o := &c08Opt{hws: 1, gap: 2, site: -1, site2: -1}
	c := &c08Case{o: o, line: -1}
	layout := 0
	if tier == c08Quick {
		base := c08NDev + len(c08Layouts) - 1 + modes
		d := zzverif.Choice("dev", base+len(c08QuickExtras))
		if d >= base {
			d = c08QuickExtras[d-base]
		}
		layout = c08ApplyQuick(c, d, 3)
	} else {
		layout = c08ChooseThorough(c, modes)
	}
	c.items = c08Layouts[layout]
	if c.mode > 0 {
		c.items = append([]int{c08IIncludeF1}, c.items...)
	}
	return c
}

// c08StructItems: the entries the structural chooser combines in pairs (quick tier); c08StructItems3: in triples
// (thorough tier: the two transactions, the two directives with a subdirective line, one single-line directive,
// the include directive, the comment block).
var c08StructItems = []int{c08IT1, c08IT2, c08IAcct0, c08IAcct3, c08IComm4, c08IInclude, c08IPrice, c08IComment2, c08IYear}
var c08StructItems3 = []int{c08IT1, c08IT2, c08IAcct3, c08IComm4, c08IInclude, c08IPrice, c08IComment2}

// c08ChooseStruct: 2..n entries in every order, each pair adjacent or separated by a blank line; base shapes,
// at most one astral character (pairs: in the description or an account segment; triples: in the account segment).
func c08ChooseStruct(n int) *c08Case {
	o := &c08Opt{hws: 1, gap: 2, site: -1, site2: -1}
	c := &c08Case{o: o, line: -1}
	k := 2 + zzverif.Choice("entries", n-1)
	items, sites := c08StructItems, []int{c08SDesc, c08SSeg1}
	if k == 3 {
		items, sites = c08StructItems3, []int{c08SSeg1}
	}
	for i := 0; i < k; i++ {
		if i > 0 && zzverif.Choice("sep"+zzverif.Itoa(i), 2) == 1 {
			c.items = append(c.items, c08IBlank)
		}
		c.items = append(c.items, items[zzverif.Choice("entry"+zzverif.Itoa(i), len(items))])
	}
	if zzverif.Choice("trail", 2) == 1 {
		c.items = append(c.items, c08IPostingComment)
		zzverif.Assume(c.items[len(c.items)-2] == c08IT1 || c.items[len(c.items)-2] == c08IT2)
	}
	o.noEOL = zzverif.Choice("noeol", 2)
	if w := zzverif.Choice("wide", len(sites)+1); w > 0 {
		o.site = sites[w-1]
		o.class = 3
	}
	return c
}

// ---------------- server set-up ----------------

func c08Path(name string) string { return zzverif.Root() + "/" + name }

func c08URI(name string) protocol.DocumentURI {
	return protocol.DocumentURI("file://" + c08Path(name))
}

func c08RunTasks() {
	for zzverif.PendingTasks() > 0 {
		zzverif.RunTask(0)
	}
}

// c08W is the server with its opened documents.
type c08W struct {
	s     *Server
	cl    *zzClient
	mode  int
	names []string
	docs  []*c08Doc
	req   int // index of the requesting document
}

func (w *c08W) uri() protocol.DocumentURI { return c08URI(w.names[w.req]) }
func (w *c08W) doc() *c08Doc              { return w.docs[w.req] }

// docOf: the document a URI names (nil if none of ours).
func (w *c08W) docOf(u protocol.DocumentURI) *c08Doc {
	for i, n := range w.names {
		if c08URI(n) == u {
			return w.docs[i]
		}
	}
	return nil
}

// relabelled: the configuration in which allJournalsWithPaths files the root's syntax tree under the
// requesting (included) file's path.
const c08ClsRelabel = "workspace-primary-relabelled"

// docFor: the document against which a location attributed to u is validated.
func (w *c08W) docFor(u protocol.DocumentURI) *c08Doc {
	if w.mode == 3 && u == w.uri() && zzverif.Known(c08ClsRelabel) {
		zzverif.Reach("kf:" + c08ClsRelabel)
		return w.docs[0]
	}
	return w.docOf(u)
}

// c08Prepare builds the documents of the case (no server yet).
func c08Prepare(c *c08Case) *c08W {
	w := &c08W{mode: c.mode}
	d0, b := c08BuildShared(c.o, c.items, nil)
	w.names = []string{"f0.journal"}
	w.docs = []*c08Doc{d0}
	if c.mode > 0 {
		o1 := *c.o
		o1.noEOL = 0
		d1, _ := c08BuildShared(&o1, c08F1Items, b)
		w.names = append(w.names, "f1.journal")
		w.docs = append(w.docs, d1)
		if c.mode >= 3 {
			w.req = 1
		}
	}
	return w
}

// c08Open builds the documents of the case, starts a fresh server, opens the requesting document
// and runs the background diagnostics task to completion.
func c08Open(c *c08Case) *c08W {
	w := c08Prepare(c)
	w.open()
	return w
}

func (w *c08W) open() {
	ctx := context.Background()
	for i, n := range w.names {
		zzverif.WriteFile(c08Path(n), w.docs[i].text)
	}
	w.s = NewServer()
	w.cl = &zzClient{}
	w.s.SetClient(w.cl)
	ip := &protocol.InitializeParams{}
	if w.mode == 2 || w.mode == 3 {
		ip.RootURI = protocol.DocumentURI("file://" + zzverif.Root())
	}
	_, _ = w.s.Initialize(ctx, ip)
	zzNotify(w.s, func() { _ = w.s.Initialized(ctx, &protocol.InitializedParams{}) })
	text := w.doc().text
	zzNotify(w.s, func() {
		_ = w.s.DidOpen(ctx, &protocol.DidOpenTextDocumentParams{TextDocument: protocol.TextDocumentItem{URI: w.uri(), Text: text}})
	})
	if zzverif.Engine() {
		c08RunTasks()
	} else {
		w.s.publishDiagnostics(ctx, w.uri(), text) // natively: run the background task synchronously as well
	}
}

func (w *c08W) tdp(pos protocol.Position) protocol.TextDocumentPositionParams {
	return protocol.TextDocumentPositionParams{TextDocument: protocol.TextDocumentIdentifier{URI: w.uri()}, Position: pos}
}

// c08Cursor: every line (case split), character symbolic up to one past the end of the line.
func c08Cursor(d *c08Doc) protocol.Position {
	line := zzverif.Choice("line", len(d.lens))
	ch := zzverif.Uint32("ch")
	zzverif.Assume(ch <= uint32(d.lens[line]+1))
	return protocol.Position{Line: uint32(line), Character: ch}
}

// ---------------- known-finding classes (cause keyed) ----------------
//
// The server reports columns in "code space": rune columns of the syntax tree plus whatever
// arithmetic the handler adds. A wrong range is attributed to a known class only when it is
// exactly the value the identified cause produces for some leaf (its signature), and only when
// every cause involved is listed as known.

const (
	c08ClsAstral      = "c08-astral-rune-columns"     // columns count runes, so they fall short after an astral character
	c08ClsAcctBlank   = "c08-account-trailing-blank"  // account followed by one blank and more text: range includes the blank
	c08ClsAmountBlank = "c08-amount-trailing-blanks"  // amount followed by blanks and another token: range runs to that token
	c08ClsPayeeEst    = "c08-payee-estimated-start"   // payee start estimated as date end + 1 (+2 with status)
	c08ClsTagBytes    = "c08-tag-byte-offsets"        // tag ranges add byte offsets inside the comment to a rune column
	c08ClsTagValBlank = "c08-tag-value-leading-blank" // tag value hover starts right after the colon
	c08ClsDirNoEnd    = "c08-directive-name-no-end"   // Account/Commodity of a directive carry no end position
	c08ClsCommText    = "c08-commodity-text-to-eol"   // lower-case commodity lexed as free text: its token runs to the next ';' or the line end (CR included)
	c08ClsLinkDir     = "c08-link-covers-directive"   // document link range is the whole include directive
	c08ClsFoldNext    = "c08-fold-ends-on-next-entry" // a transaction's fold ends on the line of the token after it
	c08ClsIncludeCR   = "c08-include-range-covers-cr" // CRLF document: an include directive's range ends after the CR
)

type c08Sig struct {
	class string
	s, e  int
}

// nextNonBlank: rune index of the first non-blank at or after rune index i on the line, -1 if none.
func (d *c08Doc) nextNonBlank(line, i int) int {
	bl := d.blank[line]
	for ; i < len(bl); i++ {
		if !bl[i] {
			return i
		}
	}
	return -1
}

// tagSig: the (start, end) parseTags computes for a span given in runes/bytes: rune column of the ';' plus byte offsets.
func (d *c08Doc) tagCol(line, byteOff int) int {
	semi := d.semi[line]
	return semi + byteOff - d.boff[line][semi]
}

// sigs lists the wrong ranges that known causes produce for leaf l (code space, on l.line).
func (d *c08Doc) sigs(li int) []c08Sig {
	l := &d.leaves[li]
	var out []c08Sig
	switch l.kind {
	case c08KAcct:
		bl := d.blank[l.line]
		if l.re+1 < len(bl) && bl[l.re] && !bl[l.re+1] {
			out = append(out, c08Sig{c08ClsAcctBlank, l.rs, l.re + 1})
		}
	case c08KAmount:
		nb := d.nextNonBlank(l.line, l.re)
		if nb > l.re {
			out = append(out, c08Sig{c08ClsAmountBlank, l.rs, nb})
		}
		// the amount ends with a lower-case commodity: the lexer reads free text from there to the next ';' or the
		// line end. Nothing follows: the CR of a CRLF line end is part of the token. A cost or an assertion
		// follows: the text is no commodity, the amount is the quantity alone and runs to where the text starts.
		for i := range d.leaves {
			cm := &d.leaves[i]
			if cm.kind != c08KComm || cm.line != l.line || cm.re != l.re || !c08LowerName(cm.name) {
				continue
			}
			switch {
			case nb >= 0 && nb != d.semi[l.line]:
				// the amount is the quantity alone: it ends after the number's last character
				qe := cm.rs
				for qe > l.rs && d.blank[l.line][qe-1] {
					qe--
				}
				out = append(out, c08Sig{c08ClsCommText, l.rs, qe})
			case nb > l.re && nb == d.semi[l.line]:
				// blanks and a comment follow: the text token (and with it the amount) runs to the ';'
				out = append(out, c08Sig{c08ClsCommText, l.rs, nb})
			}
		}
	case c08KComm:
		if c08LowerName(l.name) && !l.decl {
			end := len(d.blank[l.line])
			if sm := d.semi[l.line]; sm >= l.re {
				end = sm
			}
			if end != l.re {
				out = append(out, c08Sig{c08ClsCommText, l.rs, end})
			}
		}
	case c08KPath:
		// (since the lexer treats CR LF as a line end the CR is no longer part of any range)
		out = append(out, c08Sig{c08ClsLinkDir, l.rs - len("include "), len(d.blank[l.line])})
	case c08KPayee:
		for i := range d.leaves {
			dl := &d.leaves[i]
			if dl.kind == c08KDate && dl.line == l.line && dl.rs == 0 {
				est := dl.re + 1
				if d.entries[l.entry].status {
					est += 2
				}
				if est != l.rs {
					out = append(out, c08Sig{c08ClsPayeeEst, est, est + (l.e - l.s)})
				}
			}
		}
	case c08KTag, c08KTagName, c08KTagValue:
		if d.semi[l.line] >= 0 {
			// the enclosing tag
			for i := range d.leaves {
				t := &d.leaves[i]
				if t.kind != c08KTag || t.line != l.line || t.rs > l.rs || t.re < l.re {
					continue
				}
				ts, te := d.tagCol(l.line, t.bs), d.tagCol(l.line, t.be)
				nameLen := 0
				for j := range d.leaves {
					n := &d.leaves[j]
					if n.kind == c08KTagName && n.line == l.line && n.rs == t.rs {
						nameLen = n.re - n.rs
					}
				}
				switch l.kind {
				case c08KTag:
					out = append(out, c08Sig{c08ClsTagBytes, ts, te})
				case c08KTagName:
					out = append(out, c08Sig{c08ClsTagBytes, ts, ts + nameLen})
				case c08KTagValue:
					if l.rs > t.rs+nameLen+1 {
						out = append(out, c08Sig{c08ClsTagValBlank, t.rs + nameLen + 1, t.re})
						out = append(out, c08Sig{c08ClsTagBytes + "+" + c08ClsTagValBlank, ts + nameLen + 1, te})
					} else {
						out = append(out, c08Sig{c08ClsTagBytes, ts + nameLen + 1, te})
					}
				}
			}
		}
	}
	return out
}

// c08LowerName: a commodity spelled in lower-case letters only (grammar G: lowername).
func c08LowerName(s string) bool {
	for i := 0; i < len(s); i++ {
		if s[i] < 'a' || s[i] > 'z' {
			return false
		}
	}
	return s != ""
}

func c08AllKnown(classes string) bool {
	for _, c := range strings.Split(classes, "+") {
		if !zzverif.Known(c) {
			return false
		}
	}
	return true
}

func c08ReachKnown(classes string) {
	for _, c := range strings.Split(classes, "+") {
		zzverif.Reach("kf:" + c)
	}
}

// c08EntryOrLeaf: a location that names an entry (a range starting in column 0 of an entry's first
// line: directive or transaction) must be a valid range; any other must cover a leaf of one of the kinds.
func c08EntryOrLeaf(d *c08Doc, r protocol.Range, what string, kinds ...int) int {
	if r.Start.Character == 0 {
		for _, e := range d.entries {
			if uint32(e.first) == r.Start.Line {
				c08Valid(d, r, what)
				return -1
			}
		}
	}
	return c08Covers(d, r, what, kinds...)
}

func c08IsRange(r protocol.Range, line, s, e int) bool {
	return r.Start.Line == uint32(line) && r.End.Line == uint32(line) && r.Start.Character == uint32(s) && r.End.Character == uint32(e)
}

// c08Explained: the wrong range r, reported for a leaf of one of the kinds, is exactly what known causes produce.
func c08Explained(d *c08Doc, r protocol.Range, kinds []int) bool {
	for li := range d.leaves {
		l := &d.leaves[li]
		if uint32(l.line) != r.Start.Line {
			continue
		}
		ok := false
		for _, k := range kinds {
			if l.kind == k {
				ok = true
			}
		}
		if !ok {
			continue
		}
		// a directive's Account/Commodity has no end position: astRangeToProtocol turns 0-1 into 4294967295
		if l.decl && r.Start.Character == uint32(l.rs) && r.End.Line == 0xFFFFFFFF && r.End.Character == 0xFFFFFFFF {
			need := c08ClsDirNoEnd
			if l.rs != l.s {
				need += "+" + c08ClsAstral
			}
			if c08AllKnown(need) {
				c08ReachKnown(need)
				return true
			}
		}
		// rune columns instead of UTF-16 columns
		if (l.rs != l.s || l.re != l.e) && c08IsRange(r, l.line, l.rs, l.re) && zzverif.Known(c08ClsAstral) {
			c08ReachKnown(c08ClsAstral)
			return true
		}
		for _, sg := range d.sigs(li) {
			if !c08IsRange(r, l.line, sg.s, sg.e) {
				continue
			}
			need := sg.class
			// the signature is in rune columns: where those differ from UTF-16 columns the astral cause is involved too
			if su, eu := d.u16At(l.line, sg.s), d.u16At(l.line, sg.e); su != sg.s || eu != sg.e {
				need += "+" + c08ClsAstral
			}
			if c08AllKnown(need) {
				c08ReachKnown(need)
				return true
			}
		}
	}
	return false
}

// u16At: UTF-16 offset of rune index i on the line (beyond the end: one unit per missing rune).
func (d *c08Doc) u16At(line, i int) int {
	t := d.u16[line]
	if i < len(t) {
		return t[i]
	}
	return t[len(t)-1] + i - (len(t) - 1)
}

// c08IncludeCR: r is the range of an include directive of a CRLF document as the parser records it: from the
// start of the line to the position after the CR (the path is scanned up to the LF). Known class only.
func c08IncludeCR(d *c08Doc, r protocol.Range) bool {
	if !d.crlf || r.Start.Character != 0 {
		return false
	}
	for _, e := range d.entries {
		if e.kind != c08EInclude || !c08IsRange(r, e.first, 0, len(d.blank[e.first])+1) {
			continue
		}
		need := c08ClsIncludeCR
		if d.hasAstral(e.first) {
			need += "+" + c08ClsAstral
		}
		if c08AllKnown(need) {
			c08ReachKnown(need)
			return true
		}
	}
	return false
}

// c08Dump prints the document and the offending range when replayed natively.
func c08Dump(d *c08Doc, r protocol.Range, what string) {
	if zzverif.Engine() {
		return
	}
	fmt.Printf("DUMP %s: range %d:%d-%d:%d\n%s\n", what, r.Start.Line, r.Start.Character, r.End.Line, r.End.Character, d.text)
	for _, l := range d.leaves {
		fmt.Printf("  leaf %s line %d [%d,%d)\n", c08KindName[l.kind], l.line, l.s, l.e)
	}
	fmt.Printf("  lens %v\n", d.lens)
}

// c08Valid asserts validRange (DESIGN §4.6) for a range that names no leaf. Under the astral class a
// position on a line that contains an astral character is validated in rune columns instead (before the first
// astral character of the line both validations coincide). Start <= end and the line bound are asserted regardless.
func c08Valid(d *c08Doc, r protocol.Range, what string) bool {
	if c08IncludeCR(d, r) {
		return false
	}
	if !zzverif.Engine() && !d.validRange(r) {
		c08Dump(d, r, what)
	}
	zzverif.Assert(c08PosLE(r.Start, r.End), what+": range start is after its end")
	zzverif.Assert(r.End.Line < uint32(len(d.lens)), what+": range ends beyond the last line")
	ok := true
	for _, p := range []protocol.Position{r.Start, r.End} {
		if p.Line >= uint32(len(d.lens)) {
			continue // already reported above
		}
		if zzverif.Known(c08ClsAstral) && d.hasAstral(int(p.Line)) {
			zzverif.Reach("kf:" + c08ClsAstral)
			zzverif.Assert(p.Character <= uint32(len(d.u16[p.Line])-1), what+": character beyond the line's length in runes")
			ok = false
			continue
		}
		zzverif.Assert(p.Character <= uint32(d.lens[p.Line]), what+": character beyond the line's UTF-16 length")
		zzverif.Assert(!d.insidePair(int(p.Line), p.Character), what+": position splits a surrogate pair")
	}
	return ok
}

// c08Covers asserts that r is a valid range and exactly the span of a leaf of one of the kinds; returns the leaf or -1.
func c08Covers(d *c08Doc, r protocol.Range, what string, kinds ...int) int {
	for _, k := range kinds {
		if i := d.covers(r, k); i >= 0 {
			return i // the span of a leaf is a valid range by construction
		}
	}
	if c08Explained(d, r, kinds) {
		return -1
	}
	c08Dump(d, r, what)
	c08Valid(d, r, what)
	name := c08KindName[kinds[0]]
	for _, k := range kinds[1:] {
		name += "/" + c08KindName[k]
	}
	zzverif.Assert(false, what+": range does not cover exactly the "+name+" it names")
	return -1
}
