//go:build verif

package server

import (
	"context"
	"strings"

	"go.lsp.dev/protocol"

	"github.com/juev/hledger-lsp/internal/zzverif"
)

func init() {
	zzverif.Register("VerifC08Hover", VerifC08Hover)
	zzverif.Register("VerifC08HoverLong", VerifC08HoverLong)
}

func VerifC08Hover()     { verifC08Hover(c08Quick) }
func VerifC08HoverLong() { verifC08Hover(c08Thorough) }

// c08AtCursor asserts that the cursor lies within the range: on the cursor's line, start <= cursor <= end. It is
// asserted for exact ranges and for ranges whose columns a known class explains alike (no class moves a range
// to another line or away from the cursor).
func c08AtCursor(r protocol.Range, pos protocol.Position, what string) {
	zzverif.Assert(r.Start.Line == pos.Line && r.End.Line == pos.Line, what+": range is not on the cursor's line")
	zzverif.Assert(r.Start.Character <= pos.Character, what+": range starts after the cursor")
	zzverif.Assert(pos.Character <= r.End.Character, what+": range ends before the cursor")
}

func verifC08Hover(tier int) {
	w := c08Open(c08Choose(tier, 0))
	d := w.doc()
	pos := c08Cursor(d)
	h, err := w.s.Hover(context.Background(), &protocol.HoverParams{TextDocumentPositionParams: w.tdp(pos)})
	zzverif.Assert(err == nil, "hover: error")
	// the cursor stands inside a tag name of the comment `ab:b, b:v, b:wxyz`: the hover (the server
	// answers tag hovers everywhere else) must be about THAT tag, i.e. its range is the leaf under
	// the cursor - a tag whose range was computed somewhere else would not be found here
	for li := range d.leaves {
		l := &d.leaves[li]
		if l.kind == c08KTagName && (l.name == "ab" || l.name == "b") && uint32(l.line) == pos.Line &&
			uint32(l.s) <= pos.Character && pos.Character < uint32(l.e) && !d.hasAstral(l.line) {
			ok := h != nil && h.Range != nil && d.covers(*h.Range, c08KTagName) == li
			zzverif.Assert(ok, "hover: the cursor is on a tag name but the answer is not about that tag")
		}
	}
	if h == nil || h.Range == nil {
		zzverif.Reach("C08.hover.none")
		return
	}
	v := h.Contents.Value
	kind := -1
	switch {
	case strings.HasPrefix(v, "**Account:**"):
		kind = c08KAcct
	case strings.HasPrefix(v, "**Amount:**"):
		kind = c08KAmount
	case strings.HasPrefix(v, "**Payee:**"):
		kind = c08KPayee
	case strings.HasPrefix(v, "**Date:**"):
		kind = c08KDate
	case strings.HasPrefix(v, "**Tag:**"):
		kind = c08KTagName
		if strings.Contains(v, "**Value:**") {
			kind = c08KTagValue
		}
	}
	zzverif.Assert(kind >= 0, "hover: unknown hover content")
	c08Covers(d, *h.Range, "hover", kind)
	// what the hover says it is about is the text its range covers (tag names and concrete tag values)
	if li := d.covers(*h.Range, kind); li >= 0 && (kind == c08KTagName || kind == c08KTagValue) {
		name := d.leaves[li].name
		if name == "ab" || name == "b" || name == "wxyz" || name == "k" || name == "date" {
			zzverif.Assert(strings.Contains(v, "`"+name+"`"), "hover: the content names another tag / value than the text its range covers")
		}
	}
	// also when a known class explains the columns: the range is on the cursor's line and contains the cursor
	c08AtCursor(*h.Range, pos, "hover")
	zzverif.Reach("C08.hover.range")
}
