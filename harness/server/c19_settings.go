//go:build verif

package server

import (
	"context"
	"time"

	"go.lsp.dev/protocol"

	"github.com/juev/hledger-lsp/internal/include"
	"github.com/juev/hledger-lsp/internal/zzverif"
)

func init() {
	zzverif.Register("VerifC19Frame", VerifC19Frame)
	zzverif.Register("VerifC19FrameFull", VerifC19FrameFull)
	zzverif.Register("VerifC19Refresh", VerifC19Refresh)
	zzverif.Register("VerifC19Init", VerifC19Init)
	zzverif.Register("VerifC19Decode", VerifC19Decode)
}

// ---- flattened view of serverSettings: 24 numeric slots + CLI.Path ----

const (
	c19Bool = iota
	c19Int
	c19Int64
	c19Str
	c19Dur
)

type c19Key struct {
	section, name string
	kind          int
	set           func(s *serverSettings, v c19Val)
}

func c19B(f func(s *serverSettings) *bool) func(*serverSettings, c19Val) {
	return func(s *serverSettings, v c19Val) {
		if v.okBool {
			*f(s) = v.asBool
		}
	}
}

func c19I(f func(s *serverSettings) *int) func(*serverSettings, c19Val) {
	return func(s *serverSettings, v c19Val) {
		if v.okInt {
			*f(s) = int(v.asInt)
		}
	}
}

var c19Keys = []c19Key{
	{"features", "hover", c19Bool, c19B(func(s *serverSettings) *bool { return &s.Features.Hover })},
	{"features", "completion", c19Bool, c19B(func(s *serverSettings) *bool { return &s.Features.Completion })},
	{"features", "formatting", c19Bool, c19B(func(s *serverSettings) *bool { return &s.Features.Formatting })},
	{"features", "diagnostics", c19Bool, c19B(func(s *serverSettings) *bool { return &s.Features.Diagnostics })},
	{"features", "semanticTokens", c19Bool, c19B(func(s *serverSettings) *bool { return &s.Features.SemanticTokens })},
	{"features", "codeActions", c19Bool, c19B(func(s *serverSettings) *bool { return &s.Features.CodeActions })},
	{"features", "foldingRanges", c19Bool, c19B(func(s *serverSettings) *bool { return &s.Features.FoldingRanges })},
	{"features", "documentLinks", c19Bool, c19B(func(s *serverSettings) *bool { return &s.Features.DocumentLinks })},
	{"features", "workspaceSymbol", c19Bool, c19B(func(s *serverSettings) *bool { return &s.Features.WorkspaceSymbol })},
	{"features", "inlineCompletion", c19Bool, c19B(func(s *serverSettings) *bool { return &s.Features.InlineCompletion })},
	{"completion", "maxResults", c19Int, c19I(func(s *serverSettings) *int { return &s.Completion.MaxResults })},
	{"completion", "fuzzyMatching", c19Bool, c19B(func(s *serverSettings) *bool { return &s.Completion.FuzzyMatching })},
	{"completion", "showCounts", c19Bool, c19B(func(s *serverSettings) *bool { return &s.Completion.ShowCounts })},
	{"diagnostics", "undeclaredAccounts", c19Bool, c19B(func(s *serverSettings) *bool { return &s.Diagnostics.UndeclaredAccounts })},
	{"diagnostics", "undeclaredCommodities", c19Bool, c19B(func(s *serverSettings) *bool { return &s.Diagnostics.UndeclaredCommodities })},
	{"diagnostics", "unbalancedTransactions", c19Bool, c19B(func(s *serverSettings) *bool { return &s.Diagnostics.UnbalancedTransactions })},
	{"formatting", "indentSize", c19Int, c19I(func(s *serverSettings) *int { return &s.Formatting.IndentSize })},
	{"formatting", "alignAmounts", c19Bool, c19B(func(s *serverSettings) *bool { return &s.Formatting.AlignAmounts })},
	{"formatting", "minAlignmentColumn", c19Int, c19I(func(s *serverSettings) *int { return &s.Formatting.MinAlignmentColumn })},
	{"cli", "enabled", c19Bool, c19B(func(s *serverSettings) *bool { return &s.CLI.Enabled })},
	{"cli", "path", c19Str, func(s *serverSettings, v c19Val) {
		if v.okStr {
			s.CLI.Path = v.asStr
		}
	}},
	{"cli", "timeout", c19Dur, func(s *serverSettings, v c19Val) {
		if v.okInt {
			s.CLI.Timeout = time.Duration(v.asInt) * time.Millisecond
		}
	}},
	{"limits", "maxFileSizeBytes", c19Int64, func(s *serverSettings, v c19Val) {
		if v.okInt {
			s.Limits.MaxFileSizeBytes = v.asInt
		}
	}},
	{"limits", "maxFileSize", c19Int64, func(s *serverSettings, v c19Val) {
		if v.okInt {
			s.Limits.MaxFileSizeBytes = v.asInt
		}
	}},
	{"limits", "maxIncludeDepth", c19Int, c19I(func(s *serverSettings) *int { return &s.Limits.MaxIncludeDepth })},
}

func c19SymBase() serverSettings {
	var s serverSettings
	s.Features = featureSettings{
		Hover: zzverif.Bool("b.hover"), Completion: zzverif.Bool("b.completion"), Formatting: zzverif.Bool("b.formatting"),
		Diagnostics: zzverif.Bool("b.diagnostics"), SemanticTokens: zzverif.Bool("b.semtok"), CodeActions: zzverif.Bool("b.codeact"),
		FoldingRanges: zzverif.Bool("b.folding"), DocumentLinks: zzverif.Bool("b.links"), WorkspaceSymbol: zzverif.Bool("b.wsym"),
		InlineCompletion: zzverif.Bool("b.inline"),
	}
	s.Completion = completionSettings{MaxResults: zzverif.Int("b.maxResults", -5, 1000), FuzzyMatching: zzverif.Bool("b.fuzzy"), ShowCounts: zzverif.Bool("b.counts")}
	s.Diagnostics = diagnosticsSettings{UndeclaredAccounts: zzverif.Bool("b.ua"), UndeclaredCommodities: zzverif.Bool("b.uc"), UnbalancedTransactions: zzverif.Bool("b.ub")}
	s.Formatting = formattingSettings{IndentSize: zzverif.Int("b.indent", -5, 100), AlignAmounts: zzverif.Bool("b.align"), MinAlignmentColumn: zzverif.Int("b.mincol", -5, 200)}
	path := []string{"", "hledger", "/usr/bin/hl"}[zzverif.Choice("b.path", 3)]
	s.CLI = cliSettings{Enabled: zzverif.Bool("b.cli"), Path: path, Timeout: time.Duration(zzverif.Int("b.timeout", -5, 100000)) * time.Millisecond}
	s.Limits = include.Limits{MaxFileSizeBytes: int64(zzverif.Int("b.maxsize", -5, 1<<40)), MaxIncludeDepth: zzverif.Int("b.depth", -5, 100)}
	return s
}

// reference normalisation (written from the property text: non-positive numbers fall back to defaults)
func c19RefNormalize(s serverSettings) serverSettings {
	d := defaultServerSettings()
	if s.Completion.MaxResults <= 0 {
		s.Completion.MaxResults = d.Completion.MaxResults
	}
	if s.Formatting.IndentSize <= 0 {
		s.Formatting.IndentSize = d.Formatting.IndentSize
	}
	if s.CLI.Timeout <= 0 {
		s.CLI.Timeout = d.CLI.Timeout
	}
	if s.Limits.MaxFileSizeBytes <= 0 {
		s.Limits.MaxFileSizeBytes = d.Limits.MaxFileSizeBytes
	}
	if s.Limits.MaxIncludeDepth <= 0 {
		s.Limits.MaxIncludeDepth = d.Limits.MaxIncludeDepth
	}
	if s.CLI.Path == "" {
		s.CLI.Path = d.CLI.Path
	}
	return s
}

func c19IsSpace(c byte) bool {
	return c == ' ' || c == '\t' || c == '\n' || c == '\r' || c == '\v' || c == '\f'
}

func c19Trim(s string) string {
	for len(s) > 0 && c19IsSpace(s[0]) {
		s = s[1:]
	}
	for len(s) > 0 && c19IsSpace(s[len(s)-1]) {
		s = s[:len(s)-1]
	}
	return s
}

// reference decoders: what "well-typed" means for each kind (property: numbers as
// int/float/numeric string, booleans as bool or "true"/"false" in any case with blanks)
func c19RefBoolStr(s string) (bool, bool) {
	s = c19Trim(s)
	lower := make([]byte, len(s))
	for i := 0; i < len(s); i++ {
		c := s[i]
		if c >= 'A' && c <= 'Z' {
			c += 32
		}
		lower[i] = c
	}
	switch string(lower) {
	case "true":
		return true, true
	case "false":
		return false, true
	}
	return false, false
}

func c19RefIntStr(s string) (int64, bool) {
	s = c19Trim(s)
	if s == "" {
		return 0, false
	}
	neg := false
	if s[0] == '-' || s[0] == '+' {
		neg = s[0] == '-'
		s = s[1:]
	}
	if s == "" {
		return 0, false
	}
	var v int64
	for i := 0; i < len(s); i++ {
		if s[i] < '0' || s[i] > '9' {
			return 0, false
		}
		v = v*10 + int64(s[i]-'0')
	}
	if neg {
		v = -v
	}
	return v, true
}

// c19SymValue returns a JSON value of symbolic shape together with its reference decoding for each kind.
type c19Val struct {
	v               any
	asBool, okBool  bool
	asInt           int64
	okInt           bool
	asStr           string
	okStr           bool
}

func c19StrVal(s string) c19Val {
	rb, ok := c19RefBoolStr(s)
	ri, oki := c19RefIntStr(s)
	return c19Val{v: s, asBool: rb, okBool: ok, asInt: ri, okInt: oki, asStr: s, okStr: true}
}

// c19SymValue: a JSON value of every kind. Strings are representatives here; the decoders
// themselves are checked on symbolic strings by VerifC19Decode.
func c19SymValue(name string) c19Val {
	switch zzverif.Choice(name+".kind", 7) {
	case 0:
		return c19Val{v: nil}
	case 1:
		b := zzverif.Bool(name + ".b")
		return c19Val{v: b, asBool: b, okBool: true}
	case 2:
		fs := []float64{0, 1, -1, 2.75, 1000, -0.5, 4096}
		f := fs[zzverif.Choice(name+".f", len(fs))]
		return c19Val{v: f, asInt: int64(f), okInt: true}
	case 3:
		return c19StrVal([]string{"true", " FALSE", "True ", "tru", "1"}[zzverif.Choice(name+".w", 5)])
	case 4:
		return c19StrVal([]string{"7", " 12 ", "-3", "+5", "0", "1x", "", " "}[zzverif.Choice(name+".n", 8)])
	case 5:
		return c19Val{v: []any{true, 1.0}}
	default:
		return c19Val{v: map[string]any{"x": true}}
	}
}

// VerifC19Decode: the value decoders on symbolic strings against the reference reading of
// "numbers as numeric strings, booleans as true/false in any case with blanks".
func VerifC19Decode() {
	switch zzverif.Choice("which", 3) {
	case 0:
		word := []string{"true", "false", "tru", "yes", "truee"}[zzverif.Choice("w", 5)]
		bs := []byte(word)
		for i := range bs {
			if zzverif.Bool("up" + zzverif.Itoa(i)) {
				bs[i] -= 32
			}
		}
		s := []string{"", " ", "\t", "\n "}[zzverif.Choice("lead", 4)] + string(bs) + []string{"", " ", "\r\n"}[zzverif.Choice("trail", 3)]
		gb, gok := toBool(s)
		rb, rok := c19RefBoolStr(s)
		zzverif.Assert(gok == rok && (!rok || gb == rb), "toBool on boolean-looking strings")
		zzverif.Reach("C19.decode.bool")
	case 1:
		s := zzverif.TextUpTo("s", "0123456789-+ x", 0, 5)
		gi, gok := toInt(s)
		ri, rok := c19RefIntStr(s)
		zzverif.Assert(gok == rok && (!rok || int64(gi) == ri), "toInt on numeric-looking strings")
		g64, gok64 := toInt64(s)
		zzverif.Assert(gok64 == rok && (!rok || g64 == ri), "toInt64 on numeric-looking strings")
		_, bok := toBool(s)
		zzverif.Assert(!bok, "numeric strings are not booleans")
		zzverif.Reach("C19.decode.int")
	default:
		s := zzverif.TextUpTo("s", "truefalsTRUEFALS 1", 0, 5)
		gb, gok := toBool(s)
		rb, rok := c19RefBoolStr(s)
		zzverif.Assert(gok == rok && (!rok || gb == rb), "toBool on arbitrary letter strings")
		zzverif.Reach("C19.decode.letters")
	}
}

func c19Wrap(m any, levels int) any {
	for i := 0; i < levels; i++ {
		m = map[string]any{"hledger": m}
	}
	return m
}

func c19AssertEqual(got, want serverSettings, msg string) {
	zzverif.Assert(got.Features == want.Features, msg+": features")
	zzverif.Assert(got.Completion == want.Completion, msg+": completion")
	zzverif.Assert(got.Diagnostics == want.Diagnostics, msg+": diagnostics")
	zzverif.Assert(got.Formatting == want.Formatting, msg+": formatting")
	zzverif.Assert(got.CLI == want.CLI, msg+": cli")
	zzverif.Assert(got.Limits == want.Limits, msg+": limits")
}

// c19Payload builds a payload addressing key k with value val in the chosen spelling.
func c19Payload(k c19Key, val c19Val, form int, other c19Val) (payload map[string]any, effective c19Val) {
	switch form {
	case 0: // nested
		return map[string]any{k.section: map[string]any{k.name: val.v}}, val
	case 1: // dotted
		return map[string]any{k.section + "." + k.name: val.v}, val
	default: // both spellings: the dotted one is applied last; an ill-typed dotted value leaves the nested one in force
		p := map[string]any{k.section: map[string]any{k.name: other.v}, k.section + "." + k.name: val.v}
		return p, val
	}
}

// c19SmallValue: the second value when a key is given in both spellings.
func c19SmallValue(name string) c19Val {
	switch zzverif.Choice(name+".kind", 4) {
	case 0:
		return c19Val{v: nil}
	case 1:
		b := zzverif.Bool(name + ".b")
		return c19Val{v: b, asBool: b, okBool: true}
	case 2:
		return c19Val{v: 7.0, asInt: 7, okInt: true}
	default:
		return c19StrVal("true")
	}
}

func VerifC19Frame()     { verifC19Frame(false) }
func VerifC19FrameFull() { verifC19Frame(true) }

func verifC19Frame(full bool) {
	base := c19SymBase()
	if !full {
		// quick tier: at most one numeric field of the prior settings is non-positive
		free := zzverif.Choice("freefield", 6)
		zzverif.Assume(free == 0 || base.Completion.MaxResults > 0)
		zzverif.Assume(free == 1 || base.Formatting.IndentSize > 0)
		zzverif.Assume(free == 2 || base.CLI.Timeout > 0)
		zzverif.Assume(free == 3 || base.Limits.MaxFileSizeBytes > 0)
		zzverif.Assume(free == 4 || base.Limits.MaxIncludeDepth > 0)
	}
	shape := zzverif.Choice("shape", 4)
	switch shape {
	case 0: // non-map payloads
		raw := []any{nil, true, 3.5, "x", []any{1.0}}[zzverif.Choice("nonmap", 5)]
		got := parseSettingsFromRaw(base, raw)
		c19AssertEqual(got, c19RefNormalize(base), "non-map payload must leave settings unchanged (normalised)")
		zzverif.Reach("C19.frame.nonmap")
	case 1: // unrecognised key / section of wrong type
		var raw map[string]any
		switch zzverif.Choice("unrec", 4) {
		case 0:
			raw = map[string]any{"nosuch": true, "features.nosuch": true}
		case 1:
			raw = map[string]any{"features": "oops", "completion": 3.0, "cli": nil}
		case 2:
			raw = map[string]any{"features": map[string]any{"nosuch": false}}
		default:
			raw = map[string]any{}
		}
		got := parseSettingsFromRaw(base, c19Wrap(raw, zzverif.Choice("wrap", 3)))
		c19AssertEqual(got, c19RefNormalize(base), "unrecognised entries must leave settings unchanged")
		zzverif.Reach("C19.frame.unrec")
	default: // one recognised key, nested / dotted / both
		k := c19Keys[zzverif.Choice("key", len(c19Keys))]
		val := c19SymValue("v")
		form := 0
		if shape == 3 {
			form = 1 + zzverif.Choice("form", 2)
		}
		var other c19Val
		if form == 2 {
			other = c19SmallValue("o")
		}
		payload, _ := c19Payload(k, val, form, other)
		got := parseSettingsFromRaw(base, c19Wrap(payload, zzverif.Choice("wrap", 3)))
		want := base
		if form == 2 {
			k.set(&want, other)
		}
		k.set(&want, val)
		c19AssertEqual(got, c19RefNormalize(want), "frame rule for key "+k.section+"."+k.name)
		zzverif.Reach("C19.frame.key")
	}
}

// VerifC19Refresh: DidChangeConfiguration -> background task -> client answer.
func VerifC19Refresh() {
	ctx := context.Background()
	s := NewServer()
	cl := &zzClient{}
	s.SetClient(cl)
	supports := zzverif.Bool("supports")
	ws := &protocol.WorkspaceClientCapabilities{Configuration: supports}
	_, _ = s.Initialize(ctx, &protocol.InitializeParams{Capabilities: protocol.ClientCapabilities{Workspace: ws}})
	want := s.getSettings()
	k := c19Keys[zzverif.Choice("key", len(c19Keys))]
	val := c19SymValue("v")
	payload, _ := c19Payload(k, val, zzverif.Choice("form", 2), c19Val{})
	answer := zzverif.Choice("answer", 3)
	switch answer {
	case 0:
		cl.config = []any{c19Wrap(payload, zzverif.Choice("wrap", 2))}
	case 1:
		cl.config = []any{}
	default:
		cl.config = []any{payload}
		cl.configErr = context.Canceled
	}
	_ = s.DidChangeConfiguration(ctx, &protocol.DidChangeConfigurationParams{})
	if zzverif.Engine() {
		for zzverif.PendingTasks() > 0 {
			zzverif.RunTask(0)
		}
	} else {
		s.refreshConfiguration(ctx) // natively: run the refresh synchronously as well
	}
	got := s.getSettings()
	if answer == 0 && supports {
		k.set(&want, val)
	}
	c19AssertEqual(got, c19RefNormalize(want), "settings after configuration refresh")
	zzverif.Reach("C19.refresh.end")
}

// VerifC19Init: capabilities advertised iff the feature switch is on.
func VerifC19Init() {
	ctx := context.Background()
	s := NewServer()
	names := []string{"hover", "completion", "formatting", "semanticTokens", "codeActions", "foldingRanges", "documentLinks", "workspaceSymbol", "inlineCompletion"}
	flags := make([]bool, len(names))
	feat := map[string]any{}
	spell := zzverif.Choice("spell", 3)
	omit := zzverif.Choice("omit", len(names))
	for i, n := range names {
		flags[i] = zzverif.Bool("f." + n)
		sp := spell
		if sp == 2 && i != omit {
			sp = 0
		}
		switch sp {
		case 0:
			feat[n] = flags[i]
		case 1:
			if flags[i] {
				feat[n] = "true"
			} else {
				feat[n] = " False"
			}
		default:
			// left out: default is on
			flags[i] = true
		}
	}
	res, err := s.Initialize(ctx, &protocol.InitializeParams{InitializationOptions: map[string]any{"hledger": map[string]any{"features": feat}}})
	zzverif.Assert(err == nil && res != nil, "initialize succeeds")
	c := res.Capabilities
	zzverif.Assert((c.HoverProvider != nil) == flags[0], "hover capability")
	zzverif.Assert((c.CompletionProvider != nil) == flags[1], "completion capability")
	zzverif.Assert((c.DocumentFormattingProvider != nil) == flags[2], "formatting capability")
	zzverif.Assert((c.SemanticTokensProvider != nil) == flags[3], "semantic tokens capability")
	zzverif.Assert((c.CodeActionProvider != nil) == flags[4] && (c.ExecuteCommandProvider != nil) == flags[4], "code action capability")
	zzverif.Assert((c.FoldingRangeProvider != nil) == flags[5], "folding capability")
	zzverif.Assert((c.DocumentLinkProvider != nil) == flags[6], "links capability")
	zzverif.Assert((c.WorkspaceSymbolProvider != nil) == flags[7], "workspace symbol capability")
	zzverif.Assert((c.Experimental != nil) == flags[8], "inline completion capability")
	zzverif.Reach("C19.init.end")
}
