//go:build verif

package server

// C08 after a session: "every position or range the server sends lies inside the document it
// refers to ... and covers exactly that text" must also hold when the server has been through
// edits, saves, closes and earlier requests on two documents of one include tree
// (c01_session.go drives the session). The documents are judged as the CLIENT sees them: an
// open document is its buffer, a closed one is the file on disk.

import (
	"context"

	"go.lsp.dev/protocol"

	"github.com/juev/hledger-lsp/internal/zzverif"
)

func init() {
	zzverif.Register("VerifC08Session", VerifC08Session)
	zzverif.Register("VerifC08SessionLong", VerifC08SessionLong)
}

func c08SessLines(text string) []string {
	var out []string
	cur := ""
	for i := 0; i < len(text); i++ {
		if text[i] == '\n' {
			out = append(out, cur)
			cur = ""
		} else {
			cur += string(text[i])
		}
	}
	return append(out, cur)
}

// c08SessText: the text at a range of an ASCII document, ok == false when the range does not
// lie inside it.
func c08SessText(text string, r protocol.Range) (string, bool) {
	ls := c08SessLines(text)
	sl, el := int(r.Start.Line), int(r.End.Line)
	if sl >= len(ls) || el >= len(ls) || sl > el {
		return "", false
	}
	sc, ec := int(r.Start.Character), int(r.End.Character)
	if sc > len(ls[sl]) || ec > len(ls[el]) || (sl == el && sc > ec) {
		return "", false
	}
	if sl == el {
		return ls[sl][sc:ec], true
	}
	return ls[sl][sc:] + "\n", true
}

func verifC08Session(steps int) {
	w, _, _ := c01RunSession(steps)
	ctx := context.Background()
	view := func(u protocol.DocumentURI) (string, bool) {
		for i := 0; i < 3; i++ {
			if u == w.uri(i) {
				if w.open[i] {
					return w.buf[i], true
				}
				return w.disk[i], true
			}
		}
		return "", false
	}
	// the cursor: inside `ex:food` of main's first posting (present in every version of main)
	tdp := protocol.TextDocumentPositionParams{TextDocument: protocol.TextDocumentIdentifier{URI: w.uri(0)}, Position: protocol.Position{Line: 5, Character: 6}}
	check := func(what string, u protocol.DocumentURI, r protocol.Range, wantText string) {
		text, ok := view(u)
		zzverif.Assert(ok, "C08: "+what+" names a document that is not part of the tree")
		if !ok {
			return
		}
		got, inside := c08SessText(text, r)
		zzverif.Assert(inside, "C08: "+what+" reports a range outside the document the client sees")
		if inside && wantText != "" {
			zzverif.Assert(got == wantText, "C08: "+what+" reports a range that does not cover the symbol's text")
		}
	}
	// a second cursor: `as:cash`, the last posting of main's first transaction; its line depends
	// on the version of main (an answer computed from an older version points elsewhere)
	cashLine := uint32(0)
	{
		ls := c08SessLines(w.buf[0])
		for i, ln := range ls {
			if ln == "    as:cash" && cashLine == 0 {
				cashLine = uint32(i)
			}
		}
	}
	cash := protocol.TextDocumentPositionParams{TextDocument: protocol.TextDocumentIdentifier{URI: w.uri(0)}, Position: protocol.Position{Line: cashLine, Character: 7}}
	switch zzverif.Choice("request", 7) {
	case 4:
		h, _ := w.s.Hover(ctx, &protocol.HoverParams{TextDocumentPositionParams: cash})
		zzverif.Assert(h != nil && h.Range != nil, "C08: no hover on an account under the cursor")
		if h != nil && h.Range != nil {
			check("hover", w.uri(0), *h.Range, "as:cash")
		}
	case 5:
		locs, _ := w.s.References(ctx, &protocol.ReferenceParams{TextDocumentPositionParams: cash, Context: protocol.ReferenceContext{IncludeDeclaration: true}})
		zzverif.Assert(len(locs) > 0, "C08: no reference for an account under the cursor")
		for _, l := range locs {
			check("references", l.URI, l.Range, "as:cash")
		}
	case 6:
		ds, _ := w.s.DocumentSymbol(ctx, &protocol.DocumentSymbolParams{TextDocument: protocol.TextDocumentIdentifier{URI: w.uri(0)}})
		for _, x := range ds {
			if d, ok := x.(protocol.DocumentSymbol); ok {
				check("document symbol", w.uri(0), d.Range, "")
				check("document symbol (selection)", w.uri(0), d.SelectionRange, "")
			}
		}
	case 0:
		locs, _ := w.s.References(ctx, &protocol.ReferenceParams{TextDocumentPositionParams: tdp, Context: protocol.ReferenceContext{IncludeDeclaration: true}})
		zzverif.Assert(len(locs) > 0, "C08: no reference for an account under the cursor")
		for _, l := range locs {
			check("references", l.URI, l.Range, "ex:food")
		}
	case 1:
		locs, _ := w.s.Definition(ctx, &protocol.DefinitionParams{TextDocumentPositionParams: tdp})
		for _, l := range locs {
			check("definition", l.URI, l.Range, "")
		}
	case 2:
		we, _ := w.s.Rename(ctx, &protocol.RenameParams{TextDocumentPositionParams: tdp, NewName: "ex:meal"})
		n := 0
		if we != nil {
			for u, eds := range we.Changes {
				for _, e := range eds {
					check("rename", u, e.Range, "ex:food")
					n++
				}
			}
		}
		zzverif.Assert(n > 0, "C08: rename of an account under the cursor has no edit")
	default:
		syms, _ := w.s.WorkspaceSymbol(ctx, &protocol.WorkspaceSymbolParams{Query: ""})
		for _, x := range syms {
			if _, ours := view(x.Location.URI); ours {
				check("workspace symbol", x.Location.URI, x.Location.Range, "")
			}
		}
	}
	zzverif.Reach("C08.session.end")
}

func VerifC08Session()     { verifC08Session(2) }
func VerifC08SessionLong() { verifC08Session(3) }
