//go:build verif

package server

import (
	"go.lsp.dev/protocol"

	"github.com/juev/hledger-lsp/internal/zzverif"
)

func init() {
	zzverif.Register("VerifC16Match", VerifC16Match)
	zzverif.Register("VerifC16MatchLong", VerifC16MatchLong)
}

// c16Alpha: the ASCII alphabet of labels and fragments in the matcher check.
const c16Alpha = zzverif.Letters + zzverif.Digit + ":"

// c16Name builds a name of n character slots. Slot `wide-1` (if wide > 0) holds the
// two-byte letter é or É, every other slot one symbolic ASCII byte of c16Alpha.
// It returns the text and its case-folded characters (one rune per slot), which is the
// derivation the oracle works on.
func c16Name(name string, n, wide int, upper bool) (string, []rune) {
	text := ""
	folded := make([]rune, n)
	for i := 0; i < n; i++ {
		if i == wide-1 {
			if upper {
				text += "É"
			} else {
				text += "é"
			}
			folded[i] = 'é'
			continue
		}
		b := zzverif.ByteIn(name+"."+zzverif.Itoa(i), c16Alpha)
		text += string([]byte{b})
		// case folding without a branch: in c16Alpha only upper-case letters have bit 5 clear
		folded[i] = rune(b | 0x20)
	}
	return text, folded
}

// c16Subseq: pat is a subsequence of text (both case-folded rune slices); branch-free in
// the symbolic characters (only && / || on comparisons).
func c16Subseq(text, pat []rune) bool {
	// m[j] == pat[:j] is a subsequence of the text read so far
	m := make([]bool, len(pat)+1)
	m[0] = true
	for i := 0; i < len(text); i++ {
		for j := len(pat); j >= 1; j-- {
			m[j] = m[j] || (m[j-1] && text[i] == pat[j-1])
		}
	}
	return m[len(pat)]
}

// c16SubseqOfSegment: pat is a subsequence of one ':'-separated segment of text.
func c16SubseqOfSegment(text, pat []rune) bool {
	if len(pat) == 0 {
		return true
	}
	m := make([]bool, len(pat)+1)
	m[0] = true
	found := false
	for i := 0; i < len(text); i++ {
		colon := text[i] == ':'
		for j := len(pat); j >= 1; j-- {
			m[j] = !colon && (m[j] || (m[j-1] && text[i] == pat[j-1]))
		}
		found = found || m[len(pat)]
	}
	return found
}

func c16Prefix(text, pat []rune) bool {
	if len(pat) > len(text) {
		return false
	}
	ok := true
	for j := 0; j < len(pat); j++ {
		ok = ok && text[j] == pat[j]
	}
	return ok
}

func c16HasColon(text []rune) bool {
	has := false
	for i := 0; i < len(text); i++ {
		has = has || text[i] == ':'
	}
	return has
}

// c16ColonClass is the class predicate of known finding c16ClsColon ("c16-trailing-colon-segment-match"):
// with fuzzy matching on, a query that ends in ':' is matched against the segments of a
// label WITHOUT its colon, so a label is kept although the typed text is not a subsequence.
func c16ColonClass(fuzzy bool, label, frag []rune) bool {
	if !fuzzy || len(frag) == 0 {
		return false
	}
	return frag[len(frag)-1] == ':' && c16HasColon(label) && c16SubseqOfSegment(label, frag[:len(frag)-1])
}

func verifC16Match(maxLabel, maxFrag int) {
	nl := 1 + zzverif.Choice("label.slots", maxLabel)
	wl := zzverif.Choice("label.wide", nl+1)
	zzverif.Assume(wl == 0 || nl < maxLabel) // label at most maxLabel bytes
	nf := zzverif.Choice("frag.slots", maxFrag+1)
	wf := 0
	if nf > 0 {
		wf = zzverif.Choice("frag.wide", nf+1)
	}
	zzverif.Assume(wf == 0 || nf < maxFrag)
	upper := false
	if wl > 0 && wf > 0 {
		upper = zzverif.Choice("wide.case", 2) == 1 // É in the label, é in the fragment
	}
	label, fl := c16Name("label", nl, wl, upper)
	frag, ff := c16Name("frag", nf, wf, false)
	fuzzy := zzverif.Choice("fuzzy", 2) == 1

	items := []protocol.CompletionItem{{Label: label}}
	got := filterAndScoreFuzzyMatch(items, frag, fuzzy)
	zzverif.Assert(len(got) <= 1, "matcher returns an item at most once")
	kept := len(got) == 1
	if kept {
		zzverif.Assert(got[0].item.Label == label, "matcher returns the item unchanged")
	}
	sub := c16Subseq(fl, ff)
	pre := c16Prefix(fl, ff)
	if kept {
		if fuzzy {
			if zzverif.Known(c16ClsColon) && c16ColonClass(fuzzy, fl, ff) {
				zzverif.Reach("kf:" + c16ClsColon)
			} else {
				zzverif.Assert(sub, "fuzzy on: a kept label has the fragment as case-insensitive subsequence")
			}
		} else {
			zzverif.Assert(pre, "fuzzy off: a kept label has the fragment as case-insensitive prefix")
		}
		zzverif.Reach("C16.match.kept")
	} else {
		zzverif.Assert(!pre, "a label that starts with the fragment (any case) is kept")
		zzverif.Reach("C16.match.dropped")
	}
}

func VerifC16Match()     { verifC16Match(6, 3) }
func VerifC16MatchLong() { verifC16Match(6, 4) }
