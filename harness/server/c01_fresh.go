//go:build verif

package server

// C01, last clause: "Every feature answer is computed from that text and from no older
// version." A server that has seen didOpen(v1), answered a round of requests (so that every
// cache it keeps is warm) and then didChange(v1 -> v2) must answer every request like a
// fresh server that was opened directly on v2.
//
// `settled` = the background analysis of v2 has run before the requests are made. With the
// analysis still pending, answers that are computed from the last analysis' include tree
// (completion, references, hover sums) describe v1 until it has run: that is the class
// c01-answers-from-last-analysis (known finding on the pinned tree).

import (
	"context"
	"encoding/json"

	"go.lsp.dev/protocol"

	"github.com/juev/hledger-lsp/internal/zzverif"
)

func init() {
	zzverif.Register("VerifC01Fresh", VerifC01Fresh)
	zzverif.Register("VerifC01FreshPending", VerifC01FreshPending)
}

const c01ClsPending = "c01-answers-from-last-analysis"

// two versions of a document that differ in every construct a feature looks at; the account
// leaf of v2 is symbolic, so the comparison is decided for every spelling of it
func c01Versions() (v1, v2 string, line uint32, char uint32) {
	leaf := zzverif.Text("leaf", "fgh", 1)
	// both end with a header whose payee has a posting template in that version (inline completion)
	v1 = "account ex:food\ncommodity USD\n\n2024-01-15 * Shop | weekly ; trip: rome\n    ex:food  10 USD\n    as:cash\n\n2024-03-01 Shop | weekly\n"
	v2 = "account ex:" + leaf + "uel\ncommodity EUR\ninclude other.journal\n\n2024-02-20 Garage ; car: vw\n    ex:" + leaf + "uel  20.5 EUR\n    as:bank  -20.5 EUR\n\n2024-02-21 Garage\n    ex:" + leaf + "uel  1 EUR\n    as:bank\n\n2024-03-01 Garage\n"
	return v1, v2, 5, 6 // cursor inside the account of v2's first posting
}

type c01Answers []string

func c01P(p protocol.Position) string {
	return zzverif.Itoa(int(p.Line)) + ":" + zzverif.Itoa(int(p.Character))
}

func c01Rng(r protocol.Range) string { return c01P(r.Start) + "-" + c01P(r.End) }

// c01Rel strips the (run-specific) root directory from a URI.
func c01Rel(u protocol.DocumentURI) string {
	s := string(u)
	p := "file://" + zzverif.Root() + "/"
	if len(s) >= len(p) && s[:len(p)] == p {
		return s[len(p):]
	}
	return s
}

// c01Ask issues the requests; only >= 0 selects a single one (by its position in the full round).
const c01NRequests = 14

func c01Ask(s *Server, uri protocol.DocumentURI, line, char uint32, only int) c01Answers {
	ctx := context.Background()
	tdi := protocol.TextDocumentIdentifier{URI: uri}
	tdp := protocol.TextDocumentPositionParams{TextDocument: tdi, Position: protocol.Position{Line: line, Character: char}}
	var out c01Answers
	add := func(name, v string) { out = append(out, name+": "+v) }
	var r string
	n := -1
	want := func() bool { n++; return only < 0 || only == n }

	if want() {
		ds, _ := s.DocumentSymbol(ctx, &protocol.DocumentSymbolParams{TextDocument: tdi})
		r = ""
		for _, x := range ds {
			if d, ok := x.(protocol.DocumentSymbol); ok {
				r += d.Name + "@" + c01Rng(d.Range) + "/" + c01Rng(d.SelectionRange) + "#" + zzverif.Itoa(len(d.Children)) + ";"
			}
		}
		add("symbols", r)
	}

	if want() {
		fr, _ := s.FoldingRanges(ctx, &protocol.FoldingRangeParams{TextDocumentPositionParams: protocol.TextDocumentPositionParams{TextDocument: tdi}})
		r = ""
		for _, f := range fr {
			r += zzverif.Itoa(int(f.StartLine)) + "-" + zzverif.Itoa(int(f.EndLine)) + ";"
		}
		add("folds", r)
	}

	if want() {
		st, _ := s.SemanticTokensFull(ctx, &protocol.SemanticTokensParams{TextDocument: tdi})
		r = ""
		if st != nil {
			for _, d := range st.Data {
				r += zzverif.Itoa(int(d)) + ","
			}
		}
		add("tokens", r)
	}

	if want() {
		sr, _ := s.SemanticTokensRange(ctx, &protocol.SemanticTokensRangeParams{TextDocument: tdi, Range: protocol.Range{Start: protocol.Position{Line: 3}, End: protocol.Position{Line: 7}}})
		r = ""
		if sr != nil {
			for _, d := range sr.Data {
				r += zzverif.Itoa(int(d)) + ","
			}
		}
		add("tokens.range", r)
	}

	if want() {
		ed, _ := s.Format(ctx, &protocol.DocumentFormattingParams{TextDocument: tdi})
		r = ""
		for _, e := range ed {
			r += c01Rng(e.Range) + "=" + e.NewText + ";"
		}
		add("format", r)
	}

	if want() {
		h, _ := s.Hover(ctx, &protocol.HoverParams{TextDocumentPositionParams: tdp})
		r = "<nil>"
		if h != nil {
			r = h.Contents.Value
			if h.Range != nil {
				r += "@" + c01Rng(*h.Range)
			}
		}
		add("hover", r)
	}

	if want() {
		cl, _ := s.Completion(ctx, &protocol.CompletionParams{TextDocumentPositionParams: tdp})
		r = ""
		if cl != nil {
			for _, it := range cl.Items {
				te := ""
				if it.TextEdit != nil {
					te = c01Rng(it.TextEdit.Range) + "=" + it.TextEdit.NewText
				}
				r += it.Label + "|" + it.SortText + "|" + it.Detail + "|" + te + ";"
			}
		}
		add("completion", r)
	}

	if want() {
		df, _ := s.Definition(ctx, &protocol.DefinitionParams{TextDocumentPositionParams: tdp})
		r = ""
		for _, l := range df {
			r += c01Rel(l.URI) + "@" + c01Rng(l.Range) + ";"
		}
		add("definition", r)
	}

	if want() {
		rf, _ := s.References(ctx, &protocol.ReferenceParams{TextDocumentPositionParams: tdp, Context: protocol.ReferenceContext{IncludeDeclaration: true}})
		r = ""
		for _, l := range rf {
			r += c01Rel(l.URI) + "@" + c01Rng(l.Range) + ";"
		}
		add("references", r)
	}

	if want() {
		pr, _ := s.PrepareRename(ctx, &protocol.PrepareRenameParams{TextDocumentPositionParams: tdp})
		r = "<nil>"
		if pr != nil {
			r = c01Rng(*pr)
		}
		add("prepare", r)
	}

	if want() {
		dl, _ := s.DocumentLink(ctx, &protocol.DocumentLinkParams{TextDocument: tdi})
		r = ""
		for _, l := range dl {
			r += c01Rng(l.Range) + "->" + c01Rel(protocol.DocumentURI(l.Target)) + ";"
		}
		add("links", r)
	}

	if want() {
		ws, _ := s.WorkspaceSymbol(ctx, &protocol.WorkspaceSymbolParams{Query: ""})
		r = ""
		for _, x := range ws {
			r += x.Name + "@" + c01Rel(x.Location.URI) + c01Rng(x.Location.Range) + ";"
		}
		add("wssymbols", r)
	}

	if want() {
		// on the empty last line, below the header that ends the document
		last := 0
		if doc, ok := s.GetDocument(uri); ok {
			for i := 0; i < len(doc); i++ {
				if doc[i] == '\n' {
					last++
				}
			}
		}
		raw := `{"textDocument":{"uri":"` + string(uri) + `"},"position":{"line":` + zzverif.Itoa(last) + `,"character":0}}`
		il, _ := s.InlineCompletion(ctx, json.RawMessage(raw))
		r = "<nil>"
		if il != nil {
			r = ""
			for _, it := range il.Items {
				r += it.InsertText + ";"
			}
		}
		add("inline", r)
	}
	return out
}

// c01FromAnalysis: answers that the server computes from the include tree stored by the
// last background analysis (without a workspace root)
func c01FromAnalysis(answer string) bool {
	for _, n := range []string{"hover: ", "completion: ", "inline: "} {
		if len(answer) >= len(n) && answer[:len(n)] == n {
			return true
		}
	}
	return false
}

func c01Settle() {
	if zzverif.Engine() {
		for zzverif.PendingTasks() > 0 {
			zzverif.RunTask(0)
		}
	}
}

func verifC01Fresh(settled bool) {
	ctx := context.Background()
	root := zzverif.Root()
	zzverif.WriteFile(root+"/other.journal", "2024-01-01 Other\n    ex:food  1 USD\n    as:cash\n")
	ws := zzverif.Choice("ws", 2) == 1
	if ws {
		zzverif.WriteFile(root+"/main.journal", "include doc.journal\n")
	}
	v1, v2, line, char := c01Versions()
	zzverif.WriteFile(root+"/doc.journal", v1)
	uri := protocol.DocumentURI("file://" + root + "/doc.journal")
	mk := func() (*Server, *zzClient) {
		s := NewServer()
		cl := &zzClient{}
		s.SetClient(cl)
		if ws {
			_, _ = s.Initialize(ctx, &protocol.InitializeParams{RootURI: protocol.DocumentURI("file://" + root)})
			_ = s.Initialized(ctx, &protocol.InitializedParams{})
			c01Settle()
		} else {
			_, _ = s.Initialize(ctx, &protocol.InitializeParams{})
		}
		return s, cl
	}
	// notifications: natively the spawned analysis is replaced by a synchronous call when
	// `analyse` is set (same idiom as C13 / C11)
	open := func(s *Server, cl *zzClient, text string, analyse bool) {
		f := func() {
			_ = s.DidOpen(ctx, &protocol.DidOpenTextDocumentParams{TextDocument: protocol.TextDocumentItem{URI: uri, Text: text}})
		}
		if zzverif.Engine() {
			f()
			if analyse {
				c01Settle()
			}
			return
		}
		zzMuted(s, cl, f)
		if analyse {
			s.publishDiagnostics(ctx, uri, text)
		}
	}
	change := func(s *Server, cl *zzClient, text string, analyse bool) {
		f := func() {
			_ = s.DidChange(ctx, &protocol.DidChangeTextDocumentParams{
				TextDocument:   protocol.VersionedTextDocumentIdentifier{TextDocumentIdentifier: protocol.TextDocumentIdentifier{URI: uri}},
				ContentChanges: []protocol.TextDocumentContentChangeEvent{{Text: text}},
			})
		}
		if zzverif.Engine() {
			f()
			if analyse {
				c01Settle()
			}
			return
		}
		zzMuted(s, cl, f)
		if analyse {
			s.publishDiagnostics(ctx, uri, text)
		}
	}

	// the server under test: v1, a round of requests, then v2
	s, cl := mk()
	open(s, cl, v1, true)
	_ = c01Ask(s, uri, 4, 6, -1)
	change(s, cl, v2, settled)
	// exactly one request after the change (a full round would let one request refresh a
	// cache that another one reads): which one is a case split
	req := zzverif.Choice("request", c01NRequests-1)
	got := c01Ask(s, uri, line, char, req)

	// the reference: a fresh server (fresh process-global caches are not available: the token
	// cache is keyed by URI, so the reference uses the same URI after the first server closed it)
	_ = s.DidClose(ctx, &protocol.DidCloseTextDocumentParams{TextDocument: protocol.TextDocumentIdentifier{URI: uri}})
	// the reference starts from a disk that already holds v2 (a workspace indexes the disk at
	// start-up; a buffer that differs from the disk at didOpen is outside this check)
	zzverif.WriteFile(root+"/doc.journal", v2)
	f, fcl := mk()
	open(f, fcl, v2, true)
	want := c01Ask(f, uri, line, char, req)

	zzverif.Assert(len(got) == len(want), "harness: same number of answers")
	for i := range want {
		zzverif.Observe("a."+zzverif.Itoa(i), got[i])
		if !zzverif.Engine() && got[i] != want[i] {
			zzverif.Observe("DIFF.want."+zzverif.Itoa(i), want[i])
		}
		if got[i] != want[i] && !settled && !ws && c01FromAnalysis(want[i]) && zzverif.Known(c01ClsPending) {
			zzverif.Reach("kf:" + c01ClsPending)
			continue
		}
		zzverif.Assert(got[i] == want[i], "C01: a feature answer after didChange differs from a fresh server's answer on the same text")
	}
	zzverif.Reach("C01.fresh.end")
}

func VerifC01Fresh()        { verifC01Fresh(true) }
func VerifC01FreshPending() { verifC01Fresh(false) }
