//go:build verif

package server

import (
	"context"
	"encoding/json"
	"fmt"

	"go.lsp.dev/protocol"

	"github.com/juev/hledger-lsp/internal/zzverif"
)

func init() {
	zzverif.Register("VerifC08Completion", VerifC08Completion)
	zzverif.Register("VerifC08CompletionLong", VerifC08CompletionLong)
	zzverif.Register("VerifC08Inline", VerifC08Inline)
	zzverif.Register("VerifC08InlineLong", VerifC08InlineLong)
}

func VerifC08Completion()     { verifC08Completion(c08Quick) }
func VerifC08CompletionLong() { verifC08Completion(c08Thorough) }
func VerifC08Inline()         { verifC08Inline(c08Quick) }
func VerifC08InlineLong()     { verifC08Inline(c08Thorough) }

const c08ClsComplStart = "completion-start-after-cursor"

// c08CursorValid: every line, every character 0..len that does not split a surrogate pair (case split).
func c08CursorValid(d *c08Doc, from int) protocol.Position {
	line := from + zzverif.Choice("line", len(d.lens)-from)
	ch := zzverif.Choice("ch", d.lens[line]+1)
	zzverif.Assume(!d.insidePair(line, uint32(ch)))
	return protocol.Position{Line: uint32(line), Character: uint32(ch)}
}

// c08EditRange: a completion edit replaces text that ends at the cursor and starts at or before it, on a character boundary.
func c08EditRange(d *c08Doc, r protocol.Range, pos protocol.Position, what string) {
	bad := r.End != pos || r.Start.Line != pos.Line || r.Start.Character > pos.Character || d.insidePair(int(pos.Line), r.Start.Character)
	if bad && !zzverif.Engine() {
		fmt.Printf("DUMP %s: range %d:%d-%d:%d cursor %d:%d\n%s\n", what, r.Start.Line, r.Start.Character, r.End.Line, r.End.Character, pos.Line, pos.Character, d.text)
	}
	zzverif.Assert(r.End == pos, what+": edit range does not end at the cursor")
	zzverif.Assert(r.Start.Line == pos.Line, what+": edit range starts on another line")
	if r.Start.Character > pos.Character && zzverif.Known(c08ClsComplStart) && c08CommodityStartAfter(d, r, pos) {
		zzverif.Reach("kf:" + c08ClsComplStart)
		return
	}
	zzverif.Assert(r.Start.Character <= pos.Character, what+": edit range starts after the cursor")
	zzverif.Assert(!d.insidePair(int(pos.Line), r.Start.Character), what+": edit range start splits a surrogate pair")
}

// c08CommodityStartAfter: calculateTextEditRange derives the start from the structure of the line (first non-blank
// after the amount, the line end, the end of a directive keyword) without clamping it to the cursor: the start is
// such a structural position to the right of the cursor.
func c08CommodityStartAfter(d *c08Doc, r protocol.Range, pos protocol.Position) bool {
	line := int(pos.Line)
	bl := d.blank[line]
	// the start is a rune boundary that is the line end or a non-blank preceded by a blank or by an amount character
	for i := 0; i <= len(bl); i++ {
		if uint32(d.u16[line][i]) == r.Start.Character {
			return i == len(bl) || !bl[i]
		}
	}
	return false
}

func verifC08Completion(tier int) {
	var c *c08Case
	if tier == c08Quick {
		// quick tier: the shapes that change what precedes or follows the cursor on a posting, header or directive line
		L := c08NDev - 1
		c = c08ChooseList([]int{0, 3, 5, 6, 7, 12, 13, 14, 15, 17, 18, 19, 20, 21, 22, 23, 25, 26, 27, 29, 30, 32, 37, L + 3, L + 7, L + 9}, 2)
	} else {
		c = c08Choose(tier, 0)
	}
	c.o.concrete = 1 // ranking and fuzzy matching would fork on symbolic letters; the edit range does not depend on them
	w := c08Open(c)
	d := w.doc()
	pos := c08CursorValid(d, 0)
	params := &protocol.CompletionParams{TextDocumentPositionParams: w.tdp(pos)}
	nt := 2
	if tier == c08Thorough {
		nt = 4
	}
	if t := zzverif.Choice("trigger", nt); t > 0 {
		params.Context = &protocol.CompletionContext{TriggerKind: protocol.CompletionTriggerKindTriggerCharacter, TriggerCharacter: []string{"@", ":", "="}[t-1]}
	}
	res, err := w.s.Completion(context.Background(), params)
	zzverif.Assert(err == nil && res != nil, "completion: error")
	n := 0
	for i := range res.Items {
		te := res.Items[i].TextEdit
		if te == nil {
			continue
		}
		if n == 0 {
			c08EditRange(d, te.Range, pos, "completion")
		} else {
			zzverif.Assert(te.Range == res.Items[0].TextEdit.Range, "completion: items carry different edit ranges")
		}
		n++
	}
	if n > 0 {
		zzverif.Reach("C08.completion.range")
	} else {
		zzverif.Reach("C08.completion.none")
	}
}

// inline completion: a document with a transaction, then a header with the same payee and a line of 0..3 blanks below it.
func verifC08Inline(tier int) {
	o := &c08Opt{hws: 1, gap: 2, site: -1, site2: -1, concrete: 1}
	c := &c08Case{o: o}
	nd := 8
	if tier == c08Thorough {
		nd = c08NDev
	}
	c08Dev(o, []int{0, 3, 5, 6, 7, 22, 37, 38}[zzverif.Choice("dev", 8)%nd])
	if tier == c08Thorough {
		c08Dev(o, zzverif.Choice("dev2", c08NDev))
	}
	ns := 2
	if tier == c08Thorough {
		ns = 4
	}
	if k := zzverif.Choice("site", ns); k > 0 {
		o.site = []int{c08SDesc, c08SSeg1, c08SQuoted}[k-1]
		o.class = 1 + zzverif.Choice("class", 3)
	}
	c.items = []int{c08IT1, c08IBlank, c08IHeader1, c08IBlanks0 + zzverif.Choice("blanks", 4)}
	w := c08Open(c)
	d := w.doc()
	from := 0
	if tier == c08Quick {
		from = len(d.lens) - 3 // quick tier: the new header, the blank line below it, the last line
	}
	pos := c08CursorValid(d, from)
	raw := `{"textDocument":{"uri":"` + string(w.uri()) + `"},"position":{"line":` + zzverif.Itoa(int(pos.Line)) + `,"character":` + zzverif.Itoa(int(pos.Character)) + `},"context":{"triggerKind":1}}`
	res, err := w.s.InlineCompletion(context.Background(), json.RawMessage(raw))
	zzverif.Assert(err == nil && res != nil, "inlineCompletion: error")
	for _, it := range res.Items {
		zzverif.Assert(it.Range != nil, "inlineCompletion: item without range")
		if it.Range != nil {
			c08EditRange(d, *it.Range, pos, "inlineCompletion")
			zzverif.Reach("C08.inline.range")
		}
	}
	if len(res.Items) == 0 {
		zzverif.Reach("C08.inline.none")
	}
}
