//go:build verif

package server

import (
	"context"
	"encoding/json"
	"fmt"
	"strings"

	"go.lsp.dev/protocol"

	"github.com/juev/hledger-lsp/internal/zzverif"
)

func init() {
	zzverif.Register("VerifC08Completion", VerifC08Completion)
	zzverif.Register("VerifC08CompletionLong", VerifC08CompletionLong)
	zzverif.Register("VerifC08Inline", VerifC08Inline)
	zzverif.Register("VerifC08InlineLong", VerifC08InlineLong)
}

func VerifC08Completion()     { verifC08Completion(c08Quick) }
func VerifC08CompletionLong() { verifC08Completion(c08Thorough) }
func VerifC08Inline()         { verifC08Inline(c08Quick) }
func VerifC08InlineLong()     { verifC08Inline(c08Thorough) }

// Known classes: calculateTextEditRange derives the start of the edit from the structure of the line and never
// clamps it to the cursor. The two shapes of G in which that start lies to the right of the cursor:
const (
	c08ClsComplKeyword = "c08-completion-start-inside-directive-keyword" // cursor inside the word "account " / "commodity "
	c08ClsComplBlanks  = "c08-completion-start-after-amount-blanks"      // posting: cursor strictly inside the blanks that follow the quantity
	c08ClsComplTrigger = "c08-completion-start-after-trigger-before-gap" // '=' or '@' typed left of the line's first run of two blanks (secondary date of a header)
)

// c08CursorValid: every line, every character 0..len that does not split a surrogate pair (case split).
func c08CursorValid(d *c08Doc, from int) protocol.Position {
	line := from + zzverif.Choice("line", len(d.lens)-from)
	ch := zzverif.Choice("ch", d.lens[line]+1)
	zzverif.Assume(!d.insidePair(line, uint32(ch)))
	return protocol.Position{Line: uint32(line), Character: uint32(ch)}
}

// c08CursorOn: every valid character of one line.
func c08CursorOn(d *c08Doc, line int) protocol.Position {
	ch := zzverif.Choice("ch", d.lens[line]+1)
	zzverif.Assume(!d.insidePair(line, uint32(ch)))
	return protocol.Position{Line: uint32(line), Character: uint32(ch)}
}

// runeAt: rune index of the (valid) UTF-16 offset ch on the line.
func (d *c08Doc) runeAt(line int, ch uint32) int {
	for i, u := range d.u16[line] {
		if uint32(u) == ch {
			return i
		}
	}
	return -1
}

// lineText: content of a line without its terminator (documents with concrete text only).
func (d *c08Doc) lineText(line int) string {
	return strings.TrimSuffix(strings.Split(d.text, "\n")[line], "\r")
}

// c08StartAfterCursor: the known class whose input shape the (line, cursor, trigger character) has, and the start it
// produces ("" if none). exact=false: the start is only known to lie at or right of the returned position.
func c08StartAfterCursor(d *c08Doc, pos protocol.Position, trigger string) (cls string, start uint32, exact bool) {
	line := int(pos.Line)
	text := d.lineText(line)
	if trigger == "=" || trigger == "@" {
		// the request is in commodity context whatever the line is; the line is read as "account, two blanks, amount":
		// the first run of two blanks after the indent lies at or right of the cursor, the start lies right of that
		bl := d.blank[line]
		cur := d.runeAt(line, pos.Character)
		for j := d.nextNonBlank(line, 0); j >= 0 && j+1 < len(bl); j++ {
			if bl[j] && bl[j+1] {
				if j >= cur {
					return c08ClsComplTrigger, uint32(d.u16[line][j+2]), false
				}
				break
			}
		}
		return "", 0, false
	}
	cls, start = c08StartAfterCursorPlain(d, pos, text)
	return cls, start, true
}

func c08StartAfterCursorPlain(d *c08Doc, pos protocol.Position, text string) (string, uint32) {
	line := int(pos.Line)
	for _, kw := range []string{"account ", "commodity "} {
		if strings.HasPrefix(text, kw) && pos.Character < uint32(len(kw)) {
			return c08ClsComplKeyword, uint32(len(kw))
		}
	}
	// posting line; the cursor has a blank on both sides; the run of blanks it is in follows a digit and is not
	// the gap after the account (the first run of two blanks after the indent)
	if !strings.HasPrefix(text, "    ") && !strings.HasPrefix(text, "\t") {
		return "", 0
	}
	bl := d.blank[line]
	i := d.runeAt(line, pos.Character)
	if i <= 0 || i >= len(bl) || !bl[i-1] || !bl[i] {
		return "", 0
	}
	first := i
	for first > 0 && bl[first-1] {
		first--
	}
	if first == 0 {
		return "", 0 // the indent
	}
	b := d.boff[line]
	if c := text[b[first-1]]; c < '0' || c > '9' {
		return "", 0
	}
	ind := d.nextNonBlank(line, 0)
	for j := ind; j+1 < first; j++ {
		if bl[j] && bl[j+1] {
			// an earlier gap exists: the run under the cursor follows the amount
			end := d.nextNonBlank(line, i)
			if end < 0 {
				end = len(bl)
			}
			return c08ClsComplBlanks, uint32(d.u16[line][end])
		}
	}
	return "", 0
}

// c08EditRange: a completion edit replaces text that ends at the cursor and starts at or before it, on a character boundary.
func c08EditRange(d *c08Doc, r protocol.Range, pos protocol.Position, what string, classes bool, trigger string) {
	bad := r.End != pos || r.Start.Line != pos.Line || r.Start.Character > pos.Character || d.insidePair(int(pos.Line), r.Start.Character)
	if bad && !zzverif.Engine() {
		fmt.Printf("DUMP %s: range %d:%d-%d:%d cursor %d:%d\n%s\n", what, r.Start.Line, r.Start.Character, r.End.Line, r.End.Character, pos.Line, pos.Character, d.text)
	}
	zzverif.Assert(r.End == pos, what+": edit range does not end at the cursor")
	zzverif.Assert(r.Start.Line == pos.Line, what+": edit range starts on another line")
	if classes && r.Start.Character > pos.Character {
		cls, start, exact := c08StartAfterCursor(d, pos, trigger)
		if cls != "" && (r.Start.Character == start || (!exact && r.Start.Character > start && r.Start.Character <= uint32(d.lens[pos.Line]))) && zzverif.Known(cls) {
			zzverif.Reach("kf:" + cls)
			return
		}
	}
	zzverif.Assert(r.Start.Character <= pos.Character, what+": edit range starts after the cursor")
	zzverif.Assert(!d.insidePair(int(pos.Line), r.Start.Character), what+": edit range start splits a surrogate pair")
}

func verifC08Completion(tier int) {
	var c *c08Case
	if tier == c08Quick {
		// quick tier: the shapes that change what precedes or follows the cursor on a posting, header or directive line
		L := c08NDev - 1
		c = c08ChooseList([]int{0, 3, 5, 6, 7, 12, 13, 14, 15, 17, 18, 19, 20, 21, 22, 23, 25, 26, 27, 29, 30, 32, 37, L + 3, L + 7, L + 9,
			19030 /* $1, two blanks, comment */, 2004 /* secondary date, two blanks before the description */}, 2)
	} else {
		c = c08Choose(tier, 0)
	}
	c.o.concrete = 1 // ranking and fuzzy matching would fork on symbolic letters; the edit range does not depend on them
	w := c08Prepare(c)
	d := w.doc()
	var pos protocol.Position
	if c.line >= 0 {
		pos = c08CursorOn(d, c.line) // thorough tier, two deviations on one line of transaction 1: every cursor of that line
	} else {
		pos = c08CursorValid(d, 0)
	}
	params := &protocol.CompletionParams{TextDocumentPositionParams: w.tdp(pos)}
	// LSP: a trigger character is reported when typing it opened the completion, so it is the character before the
	// cursor: after each of the server's trigger characters both kinds of request are made.
	trigger := ""
	if i := d.runeAt(int(pos.Line), pos.Character); i > 0 {
		prev := d.lineText(int(pos.Line))[d.boff[pos.Line][i-1]]
		if (prev == '@' || prev == ':' || prev == '=') && zzverif.Choice("trigger", 2) == 1 {
			trigger = string([]byte{prev})
			params.Context = &protocol.CompletionContext{TriggerKind: protocol.CompletionTriggerKindTriggerCharacter, TriggerCharacter: string([]byte{prev})}
		}
	}
	w.open()
	res, err := w.s.Completion(context.Background(), params)
	zzverif.Assert(err == nil && res != nil, "completion: error")
	n := 0
	for i := range res.Items {
		te := res.Items[i].TextEdit
		if te == nil {
			continue
		}
		if n == 0 {
			c08EditRange(d, te.Range, pos, "completion", true, trigger)
		} else {
			zzverif.Assert(te.Range == res.Items[0].TextEdit.Range, "completion: items carry different edit ranges")
		}
		n++
	}
	if n > 0 {
		zzverif.Reach("C08.completion.range")
	} else {
		zzverif.Reach("C08.completion.none")
	}
}

// inline completion: a document with a transaction, then a header with the same payee and a line of 0..3 blanks below it.
// quick: one shape deviation of transaction 1 (eight that change the header, the payee or the line ends), at most one
// wide character in the payee or the first account; cursor on the new header, the line below it and the last line.
// thorough: a second deviation among eight of the header line and the document-wide ones, one more site (the quoted
// commodity), the blank separator line as well.
func verifC08Inline(tier int) {
	o := &c08Opt{hws: 1, gap: 2, site: -1, site2: -1, concrete: 1}
	c := &c08Case{o: o, line: -1}
	d1 := []int{0, 3, 5, 6, 7, 22, 37, 38}[zzverif.Choice("dev", 8)]
	c08Dev(o, d1)
	ns := 2
	if tier == c08Thorough {
		hdr := []int{0, 2, 3, 4, 5, 6, 9, 37, 38}
		d2 := hdr[zzverif.Choice("dev2", len(hdr))]
		zzverif.Assume(d2 == 0 || (d2 != d1 && c08DevField(d1) != c08DevField(d2)))
		c08Dev(o, d2)
		ns = 4
	}
	if k := zzverif.Choice("site", ns); k > 0 {
		o.site = []int{c08SDesc, c08SSeg1, c08SQuoted}[k-1]
		o.class = []int{3, 2, 1}[zzverif.Choice("class", 4-ns/2)] // quick: three classes; thorough: astral and the 3-byte currency sign
	}
	c.items = []int{c08IT1, c08IBlank, c08IHeader1, c08IBlanks0 + zzverif.Choice("blanks", 4)}
	w := c08Open(c)
	d := w.doc()
	from := len(d.lens) - 3 // the new header, the blank line below it, the last line
	if tier == c08Thorough {
		from-- // and the blank line that separates the transactions
	}
	pos := c08CursorValid(d, from)
	raw := `{"textDocument":{"uri":"` + string(w.uri()) + `"},"position":{"line":` + zzverif.Itoa(int(pos.Line)) + `,"character":` + zzverif.Itoa(int(pos.Character)) + `},"context":{"triggerKind":1}}`
	res, err := w.s.InlineCompletion(context.Background(), json.RawMessage(raw))
	zzverif.Assert(err == nil && res != nil, "inlineCompletion: error")
	for _, it := range res.Items {
		zzverif.Assert(it.Range != nil, "inlineCompletion: item without range")
		if it.Range != nil {
			c08EditRange(d, *it.Range, pos, "inlineCompletion", false, "")
			zzverif.Reach("C08.inline.range")
		}
	}
	if len(res.Items) == 0 {
		zzverif.Reach("C08.inline.none")
	}
}
