//go:build verif

package server

// C17, "a range request returns the full result restricted to the requested lines", at the
// level of the REQUESTS: for a journal whose lines depend on lines above them (sub-directive
// lines under an account / commodity directive, postings under a header, comment lines) every
// line range is requested and its decoded tokens are compared with the decoded full result
// restricted to those lines. (VerifC17Encode decides the filter and the encoder on symbolic
// tokens; this harness decides that the range handler feeds them the tokens of the whole text.)

import (
	"context"

	"go.lsp.dev/protocol"

	"github.com/juev/hledger-lsp/internal/zzverif"
)

func init() { zzverif.Register("VerifC17RangeReq", VerifC17RangeReq) }

var c17RangeDocs = []string{
	"commodity EUR\n    format 1.000,00 EUR\n    note main\naccount as:cash  ; type: A\n    alias cash\n\n2024-01-15 * (c1) shop | note ; k: v\n    ex:food  $1.50 @ 2 EUR\n    ; t: c\n    as:cash  = $9\n",
	"account ex:food\r\n    note f\r\n2024-01-16 pay\r\n    (v:x)  -1 \"a b\"\r\n    z:q\r\n",
}

func VerifC17RangeReq() {
	ctx := context.Background()
	doc := c17RangeDocs[zzverif.Choice("doc", len(c17RangeDocs))]
	nl := 0
	for i := 0; i < len(doc); i++ {
		if doc[i] == '\n' {
			nl++
		}
	}
	s := NewServer()
	uri := protocol.DocumentURI("file:///w/range.journal")
	s.StoreDocument(uri, doc)
	full, _ := s.SemanticTokensFull(ctx, &protocol.SemanticTokensParams{TextDocument: protocol.TextDocumentIdentifier{URI: uri}})
	zzverif.Assert(full != nil, "C17: no full result")
	if full == nil {
		return
	}
	all, ok := c17Decode(full.Data)
	zzverif.Assert(ok, "C17: the full result does not decode")
	a := zzverif.Int("from", 0, nl)
	b := zzverif.Int("to", 0, nl)
	zzverif.Assume(a <= b)
	endChar := uint32(0)
	if zzverif.Choice("endchar", 2) == 1 {
		endChar = 200
	}
	rng := protocol.Range{Start: protocol.Position{Line: uint32(a)}, End: protocol.Position{Line: uint32(b), Character: endChar}}
	part, _ := s.SemanticTokensRange(ctx, &protocol.SemanticTokensRangeParams{TextDocument: protocol.TextDocumentIdentifier{URI: uri}, Range: rng})
	zzverif.Assert(part != nil, "C17: no range result")
	if part == nil {
		return
	}
	got, ok := c17Decode(part.Data)
	zzverif.Assert(ok, "C17: the range result does not decode")
	var want []semanticToken
	for _, t := range all {
		if int(t.line) >= a && int(t.line) <= b {
			want = append(want, t)
		}
	}
	same := len(got) == len(want)
	if same {
		for i := range got {
			same = same && got[i] == want[i]
		}
	}
	zzverif.Observe("tokens", len(got))
	zzverif.Assert(same, "C17: a range request differs from the full result restricted to the requested lines")
	zzverif.Reach("C17.rangereq.end")
}
