//go:build verif

package server

import (
	"github.com/juev/hledger-lsp/internal/zzverif"
)

func init() {
	zzverif.Register("VerifC17Arbitrary", VerifC17Arbitrary)
	zzverif.Register("VerifC17ArbitraryLong", VerifC17ArbitraryLong)
}

// ---------------------------------------------------------------------------------------
// Arbitrary text (not from grammar G): there are no lexemes to cover, so only the structural
// part of the property is decided: token types from the legend, tokens on existing lines, in
// document order, without overlap, each inside the content of its line (UTF-16 units).
//
// The document is a fixed context followed by k character slots; a slot is one symbolic byte
// of 0x20..0x7E, tab, LF, or one of the representatives é (2 bytes, 1 unit) and 😀
// (4 bytes, 2 units). Invalid UTF-8 is outside the claim (a client cannot address it); so is a
// carriage return (lone CR: outside grammar G's environment; CRLF: the G harness).
//
// Without a derivation the known-finding classes are line-level input predicates:
//   c17-pipe-token-one-column-right   the line contains '|'
//   c17-column-in-runes-after-astral  the line contains an astral character
//   c17-tag-geometry-in-bytes         a multi-byte character follows a ';' on the line
// ---------------------------------------------------------------------------------------

var c17ArbA = zzverif.Printable("") + "\t\n"

// the first 5 contexts: quick; all: thorough
var c17ArbContexts = []string{"", "    ", "2024-01-15 ", ";", "    a:b  1 ",
	"2024-01-15 * (c) p | ", "account ", "    a:b  1 USD @ ", "; a:", "commodity 1.00 ", "x\n"}

type c17ArbLine struct {
	u16                    int // length of the content in UTF-16 units
	pipe, astral, tagBytes bool
	semi                   bool
}

func verifC17Arbitrary(k, nctx int) {
	ctxText := c17ArbContexts[zzverif.Choice("context", nctx)]
	doc := ctxText
	type slot struct {
		s   string
		u16 int
	}
	slots := make([]slot, 0, len(ctxText)+k)
	for i := 0; i < len(ctxText); i++ {
		slots = append(slots, slot{ctxText[i : i+1], 1})
	}
	for i := 0; i < k; i++ {
		nm := "c" + zzverif.Itoa(i)
		switch zzverif.Choice(nm+".wide", 4) {
		case 0:
			slots = append(slots, slot{string([]byte{zzverif.ByteIn(nm, c17ArbA)}), 1})
		case 1:
			slots = append(slots, slot{"é", 1})
		case 2:
			slots = append(slots, slot{"😀", 2})
		default:
			slots = append(slots, slot{"\r\n", 0}) // a CR LF line end (e.g. after an unclosed code or quote)
		}
		doc += slots[len(slots)-1].s
	}

	toks := tokenizeForSemantics(doc)

	// the lines of the document (after the run: the bytes are decided on this path)
	lines := []c17ArbLine{{}}
	for _, sl := range slots {
		cur := &lines[len(lines)-1]
		if sl.s == "\r\n" {
			lines = append(lines, c17ArbLine{})
			continue
		}
		if len(sl.s) == 1 {
			switch sl.s[0] {
			case '\n':
				lines = append(lines, c17ArbLine{})
				continue
			case '|':
				cur.pipe = true
			case ';':
				cur.semi = true
			}
		} else {
			if sl.u16 == 2 {
				cur.astral = true
			}
			if cur.semi {
				cur.tagBytes = true
			}
		}
		cur.u16 += sl.u16
	}

	excused := func(class string, pred bool) bool {
		if pred && zzverif.Known(class) {
			zzverif.Reach("kf:" + class)
			return true
		}
		return false
	}
	msg := func(class string, pred bool, plain string) string {
		if pred {
			return c17ClassMsg[class]
		}
		return plain
	}
	for i, t := range toks {
		zzverif.Assert(t.tokenType <= ttTagValue, "token type outside the advertised legend")
		zzverif.Assert(t.modifiers < 4, "token modifier outside the advertised legend")
		zzverif.Assert(int(t.line) < len(lines), "token on a line that does not exist")
		l := lines[t.line]
		isTag := t.tokenType == ttTag || t.tokenType == ttTagValue
		// inside the line
		switch {
		case excused(kfPipe, l.pipe && t.tokenType == ttOperator):
		case excused(kfTagBytes, l.tagBytes && isTag):
		default:
			m := msg(kfPipe, l.pipe && t.tokenType == ttOperator, msg(kfTagBytes, l.tagBytes && isTag, "token extends beyond its line"))
			zzverif.Assert(int(t.col)+int(t.length) <= l.u16, m)
		}
		if i == 0 {
			continue
		}
		p := toks[i-1]
		zzverif.Assert(t.line > p.line || (t.line == p.line && t.col >= p.col), "tokens are not in document order (relative encoding underflows)")
		if t.line != p.line {
			continue
		}
		// no overlap with the previous token of the line
		switch {
		case excused(kfPipe, l.pipe):
		case excused(kfAstral, l.astral):
		case excused(kfTagBytes, l.tagBytes && isTag):
		default:
			m := msg(kfPipe, l.pipe, msg(kfAstral, l.astral, msg(kfTagBytes, l.tagBytes && isTag, "tokens overlap")))
			zzverif.Assert(p.col+p.length <= t.col, m)
		}
	}
	back, ok := c17Decode(encodeTokens(toks))
	zzverif.Assert(ok && len(back) == len(toks), "encoded stream decodes")
	same := true
	for i := range toks {
		same = same && back[i] == toks[i]
	}
	zzverif.Assert(same, "decode(encode(stream)) differs from the token stream")
	zzverif.Reach("C17.arbitrary.end")
}

func VerifC17Arbitrary()     { verifC17Arbitrary(3, 5) }
func VerifC17ArbitraryLong() { verifC17Arbitrary(3, len(c17ArbContexts)) }
