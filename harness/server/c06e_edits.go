//go:build verif

package server

// C06, direct call of the delta diff: computeSemanticTokensEdits returns for arbitrary previous /
// current arrays (symbolic numbers, 0..3 tokens each; thorough 0..5). Own file prefix (c06e_),
// overlaid only for VerifC06Edits*: see c17e_edits.go.

import (
	"github.com/juev/hledger-lsp/internal/zzverif"
)

func init() {
	zzverif.Register("VerifC06Edits", VerifC06Edits)
	zzverif.Register("VerifC06EditsLong", VerifC06EditsLong)
}

func c06SymData(name string, n int) []uint32 {
	d := make([]uint32, n)
	for i := range d {
		d[i] = zzverif.Uint32(name + "." + zzverif.Itoa(i))
	}
	return d
}

func verifC06Edits(maxTok int) {
	old := c06SymData("old", 5*zzverif.Choice("old.tokens", maxTok+1))
	nw := c06SymData("new", 5*zzverif.Choice("new.tokens", maxTok+1))
	edits := computeSemanticTokensEdits(old, nw)
	zzverif.Observe("edits", len(edits))
	zzverif.Reach("C06.delta.fn")
}

func VerifC06Edits()     { verifC06Edits(3) }
func VerifC06EditsLong() { verifC06Edits(5) }
