//go:build verif

package server

// C11 (server level): the include tree the server resolves for an open document after any
// sequence of open / change / save notifications equals what a FRESH loader resolves from
// the document's current buffer and the files currently on disk. The loader cache is driven
// by the server (InvalidateFile on didChange / didSave), so a forgotten invalidation shows
// here and not in the loader-only harness.

import (
	"context"

	"go.lsp.dev/protocol"

	"github.com/juev/hledger-lsp/internal/include"
	"github.com/juev/hledger-lsp/internal/zzverif"
)

func init() {
	zzverif.Register("VerifC11Server", VerifC11Server)
	zzverif.Register("VerifC11ServerLong", VerifC11ServerLong)
}

// without a workspace root the server never invalidates its loader cache: an included
// file that changes on disk (saved from the editor) keeps being served from the cache
const c11ClsNoWsStale = "c11-no-workspace-saved-include-served-from-cache"

type c11World struct {
	ctx    context.Context
	root   string
	ws     bool
	s      *Server
	cl     *zzClient
	disk   [3]string // main, inc, leaf: current disk content
	buf    [3]string // editor buffers of open documents
	open   [3]bool
	ver    [3]int
	saved  bool // some included file was saved with new content after it had been cached
	cached [3]bool
}

var c11Names = [3]string{"main.journal", "incl.journal", "leaf.journal"}

func (w *c11World) path(i int) string { return w.root + "/" + c11Names[i] }
func (w *c11World) uri(i int) protocol.DocumentURI {
	return protocol.DocumentURI("file://" + w.path(i))
}

// content of file i in version v: main includes inc, inc includes leaf; the payee carries
// the version (a symbolic letter per (file, version) would do as well; the version digit is
// enough to tell stale from current content).
func (w *c11World) content(i, v int) string {
	inc := ""
	switch i {
	case 0:
		inc = "include incl.journal\n"
	case 1:
		inc = "include leaf.journal\n"
	}
	return inc + "2024-01-0" + zzverif.Itoa(i+1) + " p" + zzverif.Itoa(i) + "v" + zzverif.Itoa(v) + "\n    a:b  1 USD\n    c:d\n"
}

func (w *c11World) settle() {
	if zzverif.Engine() {
		for zzverif.PendingTasks() > 0 {
			zzverif.RunTask(0)
		}
	}
}

// analyse: natively the spawned goroutine is replaced by a synchronous call (same idiom as C13).
func (w *c11World) notify(i int, f func()) {
	if zzverif.Engine() {
		f()
		w.settle()
		return
	}
	zzMuted(w.s, w.cl, f)
	if i >= 0 && w.open[i] {
		w.s.publishDiagnostics(w.ctx, w.uri(i), w.buf[i])
	}
}

// reanalyse: a further diagnostics run of every open document on its current buffer (what
// the next keystroke would trigger), without the cache invalidation a notification brings.
func (w *c11World) reanalyse() {
	for k := 0; k < 3; k++ {
		if w.open[k] {
			w.s.publishDiagnostics(w.ctx, w.uri(k), w.buf[k])
		}
	}
}

func c11Fingerprint(r *include.ResolvedJournal) string {
	if r == nil || r.Primary == nil {
		return "<nil>"
	}
	s := ""
	if len(r.Primary.Transactions) > 0 {
		s += r.Primary.Transactions[0].Description
	}
	for _, p := range r.FileOrder {
		s += "|" + p[len(p)-len("xxxx.journal"):] + "="
		if j := r.Files[p]; j != nil && len(j.Transactions) > 0 {
			s += j.Transactions[0].Description
		}
	}
	return s
}

func (w *c11World) check() {
	for i := 0; i < 3; i++ {
		if !w.open[i] {
			continue
		}
		v, ok := w.s.resolved.Load(w.uri(i))
		zzverif.Assert(ok, "C11: no resolved tree for an open, analysed document")
		if !ok {
			continue
		}
		got := c11Fingerprint(v.(*include.ResolvedJournal))
		fresh, _ := include.NewLoader().LoadFromContent(w.path(i), w.buf[i])
		want := c11Fingerprint(fresh)
		zzverif.Observe("tree."+zzverif.Itoa(i), got)
		if got != want && !w.ws && w.saved && zzverif.Known(c11ClsNoWsStale) {
			zzverif.Reach("kf:" + c11ClsNoWsStale)
			continue
		}
		zzverif.Assert(got == want, "C11: the document's resolved include tree differs from a fresh load of the current files")
	}
}

func verifC11Server(steps int) {
	w := &c11World{ctx: context.Background(), root: zzverif.Root()}
	w.ws = zzverif.Choice("ws", 2) == 1
	for i := 0; i < 3; i++ {
		w.disk[i] = w.content(i, 0)
		zzverif.WriteFile(w.path(i), w.disk[i])
	}
	w.s = NewServer()
	w.cl = &zzClient{}
	w.s.SetClient(w.cl)
	if w.ws {
		_, _ = w.s.Initialize(w.ctx, &protocol.InitializeParams{RootURI: protocol.DocumentURI("file://" + w.root)})
		_ = w.s.Initialized(w.ctx, &protocol.InitializedParams{})
		w.settle()
	} else {
		_, _ = w.s.Initialize(w.ctx, &protocol.InitializeParams{})
	}
	// the root document is open from the start
	w.open[0], w.buf[0] = true, w.disk[0]
	w.notify(0, func() {
		_ = w.s.DidOpen(w.ctx, &protocol.DidOpenTextDocumentParams{TextDocument: protocol.TextDocumentItem{URI: w.uri(0), Text: w.buf[0]}})
	})
	for step := 0; step < steps; step++ {
		nm := "s" + zzverif.Itoa(step)
		i := zzverif.Choice(nm+".file", 3)
		switch zzverif.Choice(nm+".op", 3) {
		case 0: // open (or re-analyse by an identical change)
			if !w.open[i] {
				w.open[i], w.buf[i] = true, w.disk[i]
				w.notify(i, func() {
					_ = w.s.DidOpen(w.ctx, &protocol.DidOpenTextDocumentParams{TextDocument: protocol.TextDocumentItem{URI: w.uri(i), Text: w.buf[i]}})
				})
			} else {
				w.change(i, w.buf[i])
			}
		case 1: // edit in the editor (unsaved)
			if !w.open[i] {
				continue
			}
			w.ver[i]++
			w.change(i, w.content(i, w.ver[i]))
		default: // save: the buffer reaches the disk, then didSave
			if !w.open[i] {
				continue
			}
			if w.disk[i] != w.buf[i] && i > 0 {
				w.saved = true
			}
			w.disk[i] = w.buf[i]
			zzverif.WriteFile(w.path(i), w.disk[i])
			w.notify(-1, func() {
				_ = w.s.DidSave(w.ctx, &protocol.DidSaveTextDocumentParams{TextDocument: protocol.TextDocumentIdentifier{URI: w.uri(i)}})
			})
		}
		w.reanalyse()
		w.check()
	}
	zzverif.Reach("C11.server.end")
}

func (w *c11World) change(i int, text string) {
	w.buf[i] = text
	w.notify(i, func() {
		_ = w.s.DidChange(w.ctx, &protocol.DidChangeTextDocumentParams{
			TextDocument:   protocol.VersionedTextDocumentIdentifier{TextDocumentIdentifier: protocol.TextDocumentIdentifier{URI: w.uri(i)}},
			ContentChanges: []protocol.TextDocumentContentChangeEvent{{Text: text}},
		})
	})
}

func VerifC11Server()     { verifC11Server(3) }
func VerifC11ServerLong() { verifC11Server(4) }
