//go:build verif

package server

// C16 after a session: the account completion list is sound and complete for the typed
// prefix and carries exact usage counts with respect to the CURRENT state of the include tree
// (buffers of open files, disk for the others) - also when the server has been through edits,
// saves, closes, include lines going and coming, and earlier completion requests
// (c01_session.go drives the session). The expectation is computed from the client's texts.

import (
	"context"

	"go.lsp.dev/protocol"

	"github.com/juev/hledger-lsp/internal/zzverif"
)

func init() {
	zzverif.Register("VerifC16Session", VerifC16Session)
	zzverif.Register("VerifC16SessionLong", VerifC16SessionLong)
}

// c16SessAccounts adds the posting accounts of a tidy journal text (postings: four blanks, the
// account, then two blanks or the line end) to the count table.
func c16SessAccounts(text string, counts map[string]int) {
	start := 0
	for i := 0; i <= len(text); i++ {
		if i < len(text) && text[i] != '\n' {
			continue
		}
		ln := text[start:i]
		start = i + 1
		if len(ln) < 5 || ln[:4] != "    " || ln[4] == ' ' {
			continue
		}
		end := len(ln)
		for j := 4; j+1 < len(ln); j++ {
			if ln[j] == ' ' && ln[j+1] == ' ' {
				end = j
				break
			}
		}
		counts[ln[4:end]]++
	}
}

func verifC16Session(steps int) {
	w, ws, settled := c01RunSession(steps)
	from := 0
	if ws && w.open[1] && zzverif.Choice("from", 2) == 1 {
		from = 1
	}
	if !ws {
		// without a workspace root completion answers from the tree of the requesting document's
		// last analysis (C01's classes c01-answers-from-last-analysis and
		// c01-no-workspace-other-open-buffer-unseen): only states in which that tree is current
		zzverif.Assume(settled && !(w.open[1] && w.buf[1] != w.disk[1]))
	}
	view := func(i int) string {
		if w.open[i] {
			return w.buf[i]
		}
		return w.disk[i]
	}
	counts := map[string]int{}
	c16SessAccounts(view(0), counts)
	if w.incOn {
		c16SessAccounts(view(1), counts)
		c16SessAccounts(view(2), counts)
	}
	line := uint32(5)
	if from == 1 {
		line = 3
	}
	// the cursor: after `ex` of the account of the first posting
	l, err := w.s.Completion(context.Background(), &protocol.CompletionParams{TextDocumentPositionParams: protocol.TextDocumentPositionParams{
		TextDocument: protocol.TextDocumentIdentifier{URI: w.uri(from)}, Position: protocol.Position{Line: line, Character: 6}}})
	zzverif.Assert(err == nil && l != nil, "C16: completion in an account position answers")
	if l == nil {
		return
	}
	seen := map[string]bool{}
	prev := -1
	for _, it := range l.Items {
		n, used := counts[it.Label]
		zzverif.Assert(len(it.Label) >= 2 && it.Label[:2] == "ex", "C16: an offered account does not begin with the typed text")
		zzverif.Assert(used || it.Label == "ex:food", "C16: an offered account occurs nowhere in the current include tree")
		zzverif.Assert(!seen[it.Label], "C16: an account is offered twice")
		seen[it.Label] = true
		if used {
			zzverif.Assert(it.Detail == "Account ("+zzverif.Itoa(n)+")", "C16: the usage count of an offered account differs from its postings in the current include tree")
			zzverif.Assert(prev < 0 || n <= prev, "C16: accounts are not ranked by usage count")
			prev = n
		}
	}
	for name := range counts {
		if len(name) >= 2 && name[:2] == "ex" {
			zzverif.Assert(seen[name], "C16: an account of the current include tree that begins with the typed text is not offered")
		}
	}
	zzverif.Reach("C16.session.end")
}

func VerifC16Session()     { verifC16Session(2) }
func VerifC16SessionLong() { verifC16Session(3) }
