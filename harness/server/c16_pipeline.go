//go:build verif

package server

import (
	"context"

	"go.lsp.dev/protocol"

	"github.com/juev/hledger-lsp/internal/zzverif"
)

// C16 (b): the whole (*Server).Completion pipeline.
//
// VerifC16Pipeline / ...Long: a fixed two-file workspace (main.journal includes a.journal), built
// from a derivation: a list of transactions (payee, tag, two accounts, commodity) chosen by a
// case-split usage profile. The symbol tables and usage counts of the model are tallied from
// that derivation, never from the code under test. The open buffer of main.journal is the disk
// content plus the line being typed:   pre + typed fragment + | + post   (| = cursor), where
// `pre` fixes the syntactic position (posting, virtual posting, status mark, header, directive,
// amount, cost amount, comment), the fragment is a concrete beginning ("", "ex:", "ex:fo", "Sh")
// plus 0..2 (quick) / 0..3 (thorough) symbolic bytes over a small alphabet of letters that occur
// in the names (both cases) and ':', and `post` is what already stands to the right of the cursor.
// Each path asks for the list under several completion.maxResults (the largest, 200, exceeds
// every table) with fuzzy matching and showCounts case-split.
//
// VerifC16Document / ...Long: the same lines and oracle without a workspace folder: one document
// holds all transactions and the typed line is part of the analysed text (so the name under the
// cursor itself exists in the document); the request either parses the buffer itself or uses
// the include tree stored by the background analysis of didOpen.

func init() {
	zzverif.Register("VerifC16Pipeline", VerifC16Pipeline)
	zzverif.Register("VerifC16PipelineLong", VerifC16PipelineLong)
	zzverif.Register("VerifC16Document", VerifC16Document)
	zzverif.Register("VerifC16DocumentLong", VerifC16DocumentLong)
}

// c16Cfg: the bounds of one entry point.
type c16Cfg struct {
	minSym, maxSym int  // number of symbolic bytes of the fragment
	allLines       bool // every variant of every line family (else the quick subset)
	crossConf      int  // usage profile x showCounts are case-split when at most this many bytes are typed (else profile 0, counts shown)
	manyMaxes      int  // the long list of maxima is used when at most this many symbolic bytes are typed (else 2 and 200)
	docMode        bool // no workspace folder: one document holds everything, the typed line is part of the analysed text
}

func VerifC16Pipeline()     { verifC16Pipeline(c16Cfg{0, 2, false, 0, -1, false}) }
func VerifC16PipelineLong() { verifC16Pipeline(c16Cfg{0, 3, true, 1, 1, false}) }
func VerifC16Document()     { verifC16Pipeline(c16Cfg{0, 1, false, 0, -1, true}) }
func VerifC16DocumentLong() { verifC16Pipeline(c16Cfg{0, 2, true, 0, 0, true}) }

// ---------------------------------------------------------------------------------------
// known-finding classes (all predicates are over the harness inputs)
// ---------------------------------------------------------------------------------------

const (
	// fuzzy on, typed text ends in ':' (c16_match.go: c16ColonClass)
	c16ClsColon = "c16-trailing-colon-segment-match"
	// posting whose account is preceded by '(' / '[' or by a status mark: the query handed to
	// the matcher starts with that character, no name matches
	c16ClsPostingMark = "c16-posting-query-includes-paren-or-status"
	// header whose description is preceded by a status mark or a (code)
	c16ClsHeaderMark = "c16-header-query-includes-status-or-code"
	// cursor in the blanks after an amount: the replace range starts at the next non-blank
	c16ClsCommodityStart = "c16-commodity-range-starts-after-cursor"
	// tag names are offered unfiltered whatever was typed
	c16ClsTagUnfiltered = "c16-tag-names-not-filtered-by-fragment"
	// candidates of an account query "Seg:..." come from the case-sensitive by-prefix index
	c16ClsByPrefixCase = "c16-account-prefix-index-case-sensitive"
	// a posting line indented by 1..3 blanks is not recognised as a posting line
	c16ClsShortIndent = "c16-posting-indent-below-four-blanks"
	// an amount that begins with its commodity symbol: cursor is treated as account context
	c16ClsLeftSymbol = "c16-left-commodity-symbol-gets-account-context"
	// the commodity of a cost (@) or assertion (=) amount: query and range are taken from the first amount
	c16ClsCostAmount = "c16-cost-or-assertion-commodity-uses-first-amount"
)

// ---------------------------------------------------------------------------------------
// the workspace model
// ---------------------------------------------------------------------------------------

var (
	c16Accounts = []string{"ex:food", "ex:fuel", "as:cash", "as:bank", "Ex:rent"} // plus the declared-only "éx:tra"
	c16Payees   = []string{"Shop", "shell", "Cafe"}
	c16Comms    = []string{"USD", "UAH", "EUR"}
	c16Tags     = []string{"trip", "type", "car"}
)

// c16Tx: one transaction shape of a.journal, written `times` times.
type c16Tx struct{ payee, tag, a1, a2, comm, times int }

// usage profiles of a.journal (main.journal always holds: account as:bank, commodity EUR,
// one transaction Shop/trip/ex:food/as:cash/USD)
var c16Profiles = [][]c16Tx{
	// 0: every name exists, counts 1..2 with ties
	{{1, 1, 1, 4, 1, 1}, {2, 2, 3, 4, 2, 1}},
	// 1: names collected later are used more often (ranking has to reorder)
	{{1, 1, 1, 4, 1, 2}, {2, 2, 4, 3, 2, 3}},
	// 2: names collected first are used most; Ex:rent, Cafe, car do not exist, as:bank and EUR unused
	{{0, 0, 0, 2, 0, 2}, {1, 1, 1, 2, 1, 1}},
}

type c16Table struct {
	names  []string
	counts []int
}

func (t *c16Table) add(name string, n int) {
	for i := range t.names {
		if t.names[i] == name {
			t.counts[i] += n
			return
		}
	}
	t.names = append(t.names, name)
	t.counts = append(t.counts, n)
}

func (t *c16Table) index(name string) int {
	for i := range t.names {
		if t.names[i] == name {
			return i
		}
	}
	return -1
}

type c16World struct {
	acc, pay, com, tag c16Table
	head, main, inc    string // main = include line + head
}

func (w *c16World) tx(payee, tag, a1, a2, comm int, date, qty string) string {
	w.pay.add(c16Payees[payee], 1)
	w.tag.add(c16Tags[tag], 1)
	w.acc.add(c16Accounts[a1], 1)
	w.acc.add(c16Accounts[a2], 1)
	w.com.add(c16Comms[comm], 2)
	// the third payee is always written with a note ("Cafe | n"): the name offered and counted is the payee
	note := ""
	if payee == 2 {
		note = " | n"
	}
	return date + " " + c16Payees[payee] + note + "  ; " + c16Tags[tag] + ":v\n" +
		"    " + c16Accounts[a1] + "  " + qty + " " + c16Comms[comm] + "\n" +
		"    " + c16Accounts[a2] + "  -" + qty + " " + c16Comms[comm] + "\n"
}

func c16BuildWorld(profile int) *c16World {
	w := &c16World{}
	w.acc.add("as:bank", 0)
	w.acc.add("éx:tra", 0) // declared only; its first letter takes two bytes
	w.acc.add("ex:😀k", 0)  // declared only; a character outside the BMP (two UTF-16 units)
	w.com.add("EUR", 0)
	w.head = "account as:bank\naccount éx:tra\naccount ex:😀k\ncommodity EUR\n\n" + w.tx(0, 0, 0, 2, 0, "2024-01-01", "1")
	w.main = "include a.journal\n" + w.head
	day := 1
	for _, t := range c16Profiles[profile] {
		for i := 0; i < t.times; i++ {
			w.inc += w.tx(t.payee, t.tag, t.a1, t.a2, t.comm, "2024-02-0"+zzverif.Itoa(day), "2") + "\n"
			day++
		}
	}
	return w
}

func (w *c16World) table(ctx CompletionContextType) *c16Table {
	switch ctx {
	case ContextAccount:
		return &w.acc
	case ContextPayee:
		return &w.pay
	case ContextCommodity:
		return &w.com
	default:
		return &w.tag
	}
}

// ---------------------------------------------------------------------------------------
// the cursor line
// ---------------------------------------------------------------------------------------

const (
	c16KPosting = iota
	c16KVirtual
	c16KStatus
	c16KHeader
	c16KHeaderMark
	c16KAccountDir
	c16KCommodityDir
	c16KAmount
	c16KTag
	c16NKinds
)

const (
	c16AlphaAccount = "eEx:fau"
	c16AlphaPayee   = "sShcCa"
	c16AlphaComm    = "UuSEaD"
	c16AlphaTag     = "tTrcyp"
)

// c16Kind: the variants of one line family. The quick tier uses pres[:nq], posts[:npq].
type c16Kind struct {
	ctx   CompletionContextType // the context of the model
	alpha string
	pres  []string // text before the typed name
	nq    int
	cps   []string // concrete beginnings of the typed fragment (quick: the first two)
	posts []string // text to the right of the cursor
	npq   int
	body  bool // the line stands inside a transaction
}

var c16Kinds = [c16NKinds]c16Kind{
	c16KPosting:      {ContextAccount, c16AlphaAccount, []string{"    ", "\t", "  ", "        "}, 3, []string{"", "ex:", "é", "ex:😀", "ex:fo"}, []string{"", "od", "  1 USD"}, 2, true},
	c16KVirtual:      {ContextAccount, c16AlphaAccount, []string{"    (", "    ["}, 1, []string{"", "ex:"}, []string{"", ")"}, 1, true},
	c16KStatus:       {ContextAccount, c16AlphaAccount, []string{"    * ", "    ! "}, 1, []string{"", "ex:"}, []string{""}, 1, true},
	c16KHeader:       {ContextPayee, c16AlphaPayee, []string{"2024-01-20 ", "2024/1/20 "}, 1, []string{"", "Sh:", "Sh"}, []string{"", "op"}, 1, false},
	c16KHeaderMark:   {ContextPayee, c16AlphaPayee, []string{"2024-01-20 * ", "2024-01-20 (c1) ", "2024-01-20 ! "}, 1, []string{""}, []string{""}, 1, false},
	c16KAccountDir:   {ContextAccount, c16AlphaAccount, []string{"account "}, 1, []string{"", "ex:"}, []string{"", "od"}, 1, false},
	c16KCommodityDir: {ContextCommodity, c16AlphaComm, []string{"commodity "}, 1, []string{""}, []string{"", "D"}, 1, false},
	c16KAmount:       {ContextCommodity, c16AlphaComm, []string{"    as:cash  1 ", "    as:cä😀h  1 ", "    as:cash  1 USD @ 2 ", "    as:cash  -2.50 ", "    as:cash  1", "    as:cash  ", "    as:cash  1 USD = 3 ", "    as:cash   1 ", "\tas:cash  1 "}, 3, []string{""}, []string{"", "  ", "SD", "  ; n"}, 2, true},
	c16KTag:          {ContextTagName, c16AlphaTag, []string{"    as:cash  1 USD  ; ", "2024-01-20 Shop  ; ", "    as:cash  1 USD  ; trip:a, "}, 1, []string{""}, []string{"", ":a"}, 1, true},
}

// c16NeedsTyped: positions whose context is only determined once something has been typed
// (directly behind the digits of the amount; directly behind the gap that ends the account).
func c16NeedsTyped(pre string) bool {
	return pre == "    as:cash  1" || pre == "    as:cash  "
}

// c16Frag: the typed fragment as derivation: its characters as typed and case-folded.
type c16Frag struct {
	text  string
	exact []rune
	fold  []rune
}

func c16MakeFrag(cp, sym string) c16Frag {
	f := c16Frag{text: cp + sym}
	for _, c := range cp { // the concrete beginning may hold a non-ASCII letter (lower case)
		f.exact = append(f.exact, c)
		if c >= 'A' && c <= 'Z' {
			c += 'a' - 'A'
		}
		f.fold = append(f.fold, c)
	}
	for i := 0; i < len(sym); i++ {
		f.exact = append(f.exact, rune(sym[i]))
		// the alphabets hold letters and ':' only: setting bit 5 folds the case
		f.fold = append(f.fold, rune(sym[i]|0x20))
	}
	return f
}

func c16FoldName(s string) []rune {
	out := make([]rune, 0, len(s))
	for _, c := range s { // names hold ASCII and lower-case non-ASCII letters only
		if c >= 'A' && c <= 'Z' {
			c += 'a' - 'A'
		}
		out = append(out, c)
	}
	return out
}

// c16ByPrefixCase is the predicate of c16ClsByPrefixCase for a name that is not offered: the
// typed text up to its last ':' is the exact beginning of some account of the table, but of
// this name only up to letter case.
func c16ByPrefixCase(name string, exact, fold []rune, accounts []string) bool {
	nr := []rune(name)
	nf := c16FoldName(name)
	res := false
	for j := 0; j < len(exact); j++ {
		last := exact[j] == ':'
		for k := j + 1; k < len(exact); k++ {
			last = last && exact[k] != ':'
		}
		p := exact[:j+1]
		other := false
		for _, a := range accounts {
			other = other || c16Prefix([]rune(a), p)
		}
		res = res || (last && other && !c16Prefix(nr, p) && c16Prefix(nf, fold[:j+1]))
	}
	return res
}

// c16PostName: the name characters that stand directly to the right of the cursor.
func c16PostName(post string) string {
	n := 0
	for n < len(post) && (post[n] >= 'a' && post[n] <= 'z' || post[n] >= 'A' && post[n] <= 'Z') {
		n++
	}
	return post[:n]
}

func c16HasByte(s string, b byte) bool {
	for i := 0; i < len(s); i++ {
		if s[i] == b {
			return true
		}
	}
	return false
}

func c16SameItem(a, b *protocol.CompletionItem) bool {
	if (a.TextEdit == nil) != (b.TextEdit == nil) {
		return false
	}
	if a.TextEdit != nil && (a.TextEdit.Range != b.TextEdit.Range || a.TextEdit.NewText != b.TextEdit.NewText) {
		return false
	}
	return a.Label == b.Label && a.Kind == b.Kind && a.Detail == b.Detail && a.InsertText == b.InsertText &&
		a.SortText == b.SortText && a.FilterText == b.FilterText
}

// ---------------------------------------------------------------------------------------
// the check
// ---------------------------------------------------------------------------------------

func verifC16Pipeline(cfg c16Cfg) {
	ctx := context.Background()

	// --- the cursor line ---
	k := zzverif.Choice("kind", c16NKinds)
	kd := &c16Kinds[k]
	npre, npost := kd.nq, kd.npq
	if cfg.allLines {
		npre, npost = len(kd.pres), len(kd.posts)
	}
	pre := kd.pres[zzverif.Choice("pre", npre)]
	ncp := len(kd.cps)
	if !cfg.allLines && ncp > 4 {
		ncp = 4
	}
	cp := kd.cps[zzverif.Choice("typed", ncp)]
	nf := cfg.minSym + zzverif.Choice("frag.len", cfg.maxSym-cfg.minSym+1)
	post := kd.posts[zzverif.Choice("post", npost)]
	// the model does not say which context an empty fragment has at these two positions
	zzverif.Assume(!(c16NeedsTyped(pre) && len(cp)+nf == 0))

	// the client reports ':' as trigger character only when ':' is the character just typed
	trigger := ""
	if len(cp) > 0 && cp[len(cp)-1] == ':' && nf == 0 && zzverif.Choice("trigger", 2) == 1 {
		trigger = ":"
	}

	// --- configuration ---
	fuzzy := zzverif.Choice("fuzzy", 2) == 1
	// usage profile and showCounts: every combination while at most cfg.crossConf characters are
	// typed (0: nothing typed - the ranking clause); beyond that profile 0 with counts shown
	profile, showCounts := 0, true
	if len(cp)+nf <= cfg.crossConf {
		profile = zzverif.Choice("profile", len(c16Profiles))
		showCounts = zzverif.Choice("showCounts", 2) == 1
	}
	maxes := []int{1, 2, 200}
	if cfg.allLines {
		maxes = []int{2, 200}
		if nf <= cfg.manyMaxes {
			maxes = []int{1, 2, 3, 4, 5, 6, 50, 200}
		}
	}

	frag := c16MakeFrag(cp, zzverif.Text("frag", kd.alpha, nf))
	line := pre + frag.text + post
	startCol := c16U16(pre) // the typed fragment is ASCII; the text before it need not be
	col := startCol + c16U16(frag.text)

	// --- workspace, server, buffer ---
	w := c16BuildWorld(profile)
	root := zzverif.Root()
	s := NewServer()
	s.SetClient(&zzClient{})
	uri := protocol.DocumentURI("file://" + root + "/main.journal")
	base := w.main
	analysis := 0
	if !cfg.docMode {
		zzverif.WriteFile(root+"/main.journal", w.main)
		zzverif.WriteFile(root+"/a.journal", w.inc)
		_, _ = s.Initialize(ctx, &protocol.InitializeParams{RootURI: protocol.DocumentURI("file://" + root)})
		zzverif.Assert(s.workspace != nil, "harness: workspace created")
		zzverif.Assert(s.workspace.Initialize() == nil, "harness: workspace initialised")
	} else {
		// one document, no workspace folder; 0: the buffer is parsed by the request itself,
		// 1: the background analysis of didOpen has stored the document's include tree
		base = w.head + "\n" + w.inc
		analysis = zzverif.Choice("analysis", 2)
		_, _ = s.Initialize(ctx, &protocol.InitializeParams{})
		zzverif.Assert(s.workspace == nil, "harness: no workspace")
	}
	// workspace mode: the buffer adds no name of its own, the new transaction reuses the payee Shop
	buffer := base + "\n"
	if kd.body && !(len(pre) > 0 && pre[0] == '2') {
		buffer += "2024-01-20 Shop\n"
	}
	lineNo := 0
	for i := 0; i < len(buffer); i++ {
		if buffer[i] == '\n' {
			lineNo++
		}
	}
	buffer += line
	if analysis == 1 {
		zzverif.WriteFile(root+"/main.journal", buffer)
		zzNotify(s, func() {
			_ = s.DidOpen(ctx, &protocol.DidOpenTextDocumentParams{TextDocument: protocol.TextDocumentItem{URI: uri, Text: buffer}})
		})
		if zzverif.Engine() {
			for zzverif.PendingTasks() > 0 {
				zzverif.RunTask(0)
			}
		} else {
			s.publishDiagnostics(ctx, uri, buffer)
		}
		zzverif.Assert(s.GetResolved(uri) != nil, "harness: the document's include tree is stored")
	} else {
		s.StoreDocument(uri, buffer)
	}
	pos := protocol.Position{Line: uint32(lineNo), Character: uint32(col)}

	run := func(m int) []protocol.CompletionItem {
		st := s.getSettings()
		st.Completion = completionSettings{MaxResults: m, FuzzyMatching: fuzzy, ShowCounts: showCounts}
		s.setSettings(st)
		params := &protocol.CompletionParams{TextDocumentPositionParams: protocol.TextDocumentPositionParams{
			TextDocument: protocol.TextDocumentIdentifier{URI: uri}, Position: pos}}
		if trigger != "" {
			params.Context = &protocol.CompletionContext{TriggerKind: protocol.CompletionTriggerKindTriggerCharacter, TriggerCharacter: trigger}
		}
		l, err := s.Completion(ctx, params)
		zzverif.Assert(err == nil && l != nil, "Completion fails")
		return l.Items
	}

	// --- the limit law: lists for growing maxima, the last one (200) exceeds every table ---
	lists := make([][]protocol.CompletionItem, len(maxes))
	for i, m := range maxes {
		lists[i] = run(m)
		zzverif.Assert(len(lists[i]) <= m, "more items than completion.maxResults")
	}
	full := lists[len(maxes)-1]
	for i := 0; i+1 < len(maxes); i++ {
		a := lists[i]
		zzverif.Assert(len(a) <= len(full), "a smaller maximum returns more items than a larger one")
		for j := range a {
			if j < len(full) {
				zzverif.Assert(c16SameItem(&a[j], &full[j]), "the list for a smaller maximum is not a prefix of the list for a larger one")
			}
		}
		if len(a) < maxes[i] {
			zzverif.Assert(len(a) == len(full), "the list is cut although the maximum is not reached")
		} else if len(a) < len(full) {
			zzverif.Reach("C16.pipe.truncated")
		}
	}

	tbl := w.table(kd.ctx)
	// document mode: the typed line is analysed with the rest. The name under the cursor (typed
	// fragment plus the name characters to its right) exists in the document; the other names of
	// the line count as uses
	own, ownFold := "", []rune(nil)
	if cfg.docMode {
		pn := c16PostName(post)
		own = frag.text + pn
		ownFold = append(append(ownFold, frag.fold...), c16FoldName(pn)...)
		if k == c16KAmount && c16HasByte(pre, 'U') {
			w.com.add("USD", 1)
		}
		if k == c16KTag && c16HasByte(pre, ':') && c16HasByte(pre, ',') {
			w.tag.add("trip", 1)
		}
	}

	// class predicates that depend on the line only
	shortIndent := k == c16KPosting && pre == "  "
	postingMark := k == c16KVirtual || k == c16KStatus
	headerMark := k == c16KHeaderMark
	leftSymbol := k == c16KAmount && pre == "    as:cash  "
	costAmount := k == c16KAmount && (c16HasByte(pre, '@') || c16HasByte(pre, '='))
	if shortIndent && zzverif.Known(c16ClsShortIndent) {
		// the line gets date completions: none of the table clauses applies
		zzverif.Reach("kf:" + c16ClsShortIndent)
		zzverif.Reach("C16.pipe.end")
		return
	}

	// --- soundness: every offered label exists in the table of the context and matches ---
	for i := range full {
		it := &full[i]
		var fl []rune
		if tbl.index(it.Label) < 0 && own != "" && it.Label == own {
			fl = ownFold
			zzverif.Reach("C16.doc.own")
		} else {
			zzverif.Assert(tbl.index(it.Label) >= 0, "an offered label is not a name of the document or workspace in this context")
			fl = c16FoldName(it.Label)
		}
		switch {
		case k == c16KTag && len(frag.fold) > 0 && zzverif.Known(c16ClsTagUnfiltered):
			zzverif.Reach("kf:" + c16ClsTagUnfiltered)
		case fuzzy:
			if zzverif.Known(c16ClsColon) && c16ColonClass(fuzzy, fl, frag.fold) {
				zzverif.Reach("kf:" + c16ClsColon)
			} else {
				zzverif.Assert(c16Subseq(fl, frag.fold), "fuzzy on: the typed fragment is not a case-insensitive subsequence of an offered label")
			}
		default:
			zzverif.Assert(c16Prefix(fl, frag.fold), "fuzzy off: the typed fragment is not a case-insensitive prefix of an offered label")
		}
		zzverif.Reach("C16.pipe.offered")
	}
	if len(full) == 0 {
		zzverif.Reach("C16.pipe.none")
	}

	// --- completeness: every name that starts with the fragment is offered (200 > table size) ---
	for _, name := range tbl.names {
		offered := false
		for i := range full {
			offered = offered || full[i].Label == name
		}
		if offered {
			continue
		}
		switch {
		case postingMark && zzverif.Known(c16ClsPostingMark):
			zzverif.Reach("kf:" + c16ClsPostingMark)
			continue
		case headerMark && zzverif.Known(c16ClsHeaderMark):
			zzverif.Reach("kf:" + c16ClsHeaderMark)
			continue
		case leftSymbol && zzverif.Known(c16ClsLeftSymbol):
			zzverif.Reach("kf:" + c16ClsLeftSymbol)
			continue
		case costAmount && zzverif.Known(c16ClsCostAmount):
			zzverif.Reach("kf:" + c16ClsCostAmount)
			continue
		}
		if kd.ctx == ContextAccount && zzverif.Known(c16ClsByPrefixCase) && c16ByPrefixCase(name, frag.exact, frag.fold, tbl.names) {
			zzverif.Reach("kf:" + c16ClsByPrefixCase)
			continue
		}
		zzverif.Assert(!c16Prefix(c16FoldName(name), frag.fold), "a name that starts with the typed fragment is not offered although the maximum is not reached")
		zzverif.Reach("C16.pipe.dropped")
	}

	// --- ranking: with nothing typed, more frequently used names come first ---
	if len(frag.fold) == 0 {
		for i := 0; i+1 < len(full); i++ {
			a, b := tbl.index(full[i].Label), tbl.index(full[i+1].Label)
			if a >= 0 && b >= 0 {
				zzverif.Assert(tbl.counts[a] >= tbl.counts[b], "nothing typed: a less frequently used name is listed before a more frequently used one")
				zzverif.Reach("C16.pipe.ranked")
			}
		}
	}

	// --- the edit: replaces exactly the typed fragment, up to the cursor ---
	for i := range full {
		it := &full[i]
		if it.TextEdit == nil {
			zzverif.Reach("C16.pipe.noedit")
			continue
		}
		r := it.TextEdit.Range
		zzverif.Assert(r.End == pos, "the edit range does not end at the cursor")
		zzverif.Assert(r.Start.Line == pos.Line, "the edit range does not start on the cursor line")
		if k == c16KAmount && len(frag.fold) == 0 && len(post) > 0 && post[0] == ' ' && zzverif.Known(c16ClsCommodityStart) {
			zzverif.Reach("kf:" + c16ClsCommodityStart)
		} else {
			zzverif.Assert(r.Start.Character <= pos.Character, "the edit range starts after the cursor")
			zzverif.Assert(int(r.Start.Character) == startCol, "the edit range does not cover exactly the typed fragment")
		}
		want := it.Label
		if it.InsertText != "" {
			want = it.InsertText
		}
		zzverif.Assert(it.TextEdit.NewText == want, "the edit does not insert the item's text")
		zzverif.Reach("C16.pipe.edit")
	}
	zzverif.Reach("C16.pipe.end")
}

// c16U16: length of s in UTF-16 code units.
func c16U16(s string) int {
	n := 0
	for _, r := range s {
		n++
		if r >= 0x10000 {
			n++
		}
	}
	return n
}
