//go:build verif

package server

// C19, effectiveness: "recognised well-typed values take effect on subsequent behaviour
// (completion limit and matching mode, indent and alignment of formatting, diagnostic
// categories, feature switches, include limits)". The frame-rule harness decides what the
// settings VALUE is after a payload; this one decides that the value reaches the behaviour:
// a payload that sets one key is delivered at initialisation or through the asynchronous
// configuration refresh, then the feature the key governs is exercised and compared with an
// expectation computed from the payload alone (not from the server's settings).

import (
	"context"
	"strings"

	"go.lsp.dev/protocol"

	"github.com/juev/hledger-lsp/internal/zzverif"
)

func init() {
	zzverif.Register("VerifC19Overlap", VerifC19Overlap)
	zzverif.Register("VerifC19Effect", VerifC19Effect)
	zzverif.Register("VerifC19EffectSeq", VerifC19EffectSeq)
}

const c19Doc = "include a.journal\n\n2024-01-15 shop\n  ex:food  10 USD\n  as:cash  -9 USD\n"

type c19Fx struct {
	ctx  context.Context
	root string
	s    *Server
	cl   *zzClient
	uri  protocol.DocumentURI
}

func c19NewFx() *c19Fx {
	f := &c19Fx{ctx: context.Background(), root: zzverif.Root()}
	// include chain main -> a -> b -> c; a.journal is the only large file
	zzverif.WriteFile(f.root+"/a.journal", "include b.journal\n; "+strings.Repeat("x", 300)+"\n2024-01-01 a\n  ex:fuel  1 USD\n  as:bank\n")
	zzverif.WriteFile(f.root+"/b.journal", "include c.journal\n")
	zzverif.WriteFile(f.root+"/c.journal", "2024-01-02 c\n  ex:fun  1 USD\n  as:cash\n")
	f.uri = protocol.DocumentURI("file://" + f.root + "/main.journal")
	f.s = NewServer()
	f.cl = &zzClient{}
	f.s.SetClient(f.cl)
	return f
}

// deliver hands the payload to the server: via = 0 initializationOptions, 1 configuration refresh.
func (f *c19Fx) init(opts any) {
	ws := &protocol.WorkspaceClientCapabilities{Configuration: true}
	_, _ = f.s.Initialize(f.ctx, &protocol.InitializeParams{Capabilities: protocol.ClientCapabilities{Workspace: ws}, InitializationOptions: opts})
}

func (f *c19Fx) refresh(payload any) {
	f.cl.config = []any{payload}
	_ = f.s.DidChangeConfiguration(f.ctx, &protocol.DidChangeConfigurationParams{})
	if zzverif.Engine() {
		for zzverif.PendingTasks() > 0 {
			zzverif.RunTask(0)
		}
	} else {
		f.s.refreshConfiguration(f.ctx)
	}
}

func (f *c19Fx) diagnostics() []protocol.Diagnostic {
	f.s.StoreDocument(f.uri, c19Doc)
	f.s.publishDiagnostics(f.ctx, f.uri, c19Doc)
	p := f.cl.last(f.uri)
	if p == nil {
		return nil
	}
	return p.Diagnostics
}

func c19HasMsg(ds []protocol.Diagnostic, sub string) bool {
	for _, d := range ds {
		if strings.Contains(d.Message, sub) {
			return true
		}
	}
	return false
}

func c19HasCode(ds []protocol.Diagnostic, code string) bool {
	for _, d := range ds {
		if c, _ := d.Code.(string); c == code {
			return true
		}
	}
	return false
}

type c19Case struct {
	section, name string
	value         any
	check         func(f *c19Fx)
}

// the cases: one key each, with the behaviour it must govern
func c19Cases() []c19Case {
	depth := 1 + zzverif.Choice("depth", 4) // 1..4; the chain main -> a -> b -> c has nesting depths 1, 2, 3
	maxRes := 1 + zzverif.Choice("max", 2)
	indent := []int{2, 6}[zzverif.Choice("indent", 2)]
	return []c19Case{
		{"limits", "maxIncludeDepth", float64(depth), func(f *c19Fx) {
			// twice: the limit also governs an analysis that finds the included files in the cache
			_ = f.diagnostics()
			ds := f.diagnostics()
			zzverif.Assert(c19HasMsg(ds, "include depth limit exceeded") == (depth <= 3), "C19: limits.maxIncludeDepth does not govern include loading")
		}},
		{"limits", "maxFileSizeBytes", float64(200), func(f *c19Fx) {
			ds := f.diagnostics()
			zzverif.Assert(c19HasMsg(ds, "too large"), "C19: limits.maxFileSizeBytes does not govern include loading")
		}},
		{"diagnostics", "unbalancedTransactions", false, func(f *c19Fx) {
			ds := f.diagnostics()
			zzverif.Assert(!c19HasCode(ds, "UNBALANCED"), "C19: diagnostics.unbalancedTransactions=false does not remove the unbalanced-transaction errors")
		}},
		{"features", "diagnostics", false, func(f *c19Fx) {
			ds := f.diagnostics()
			zzverif.Assert(len(ds) == 0, "C19: features.diagnostics=false still publishes diagnostics")
		}},
		{"completion", "maxResults", float64(maxRes), func(f *c19Fx) {
			_ = f.diagnostics()
			text := c19Doc + "2024-01-16 x\n  "
			f.s.StoreDocument(f.uri, text)
			l, _ := f.s.Completion(f.ctx, &protocol.CompletionParams{TextDocumentPositionParams: protocol.TextDocumentPositionParams{
				TextDocument: protocol.TextDocumentIdentifier{URI: f.uri}, Position: protocol.Position{Line: 6, Character: 2}}})
			zzverif.Assert(l != nil && len(l.Items) == maxRes, "C19: completion.maxResults does not bound the completion list")
		}},
		{"formatting", "indentSize", float64(indent), func(f *c19Fx) {
			f.s.StoreDocument(f.uri, c19Doc)
			eds, _ := f.s.Format(f.ctx, &protocol.DocumentFormattingParams{TextDocument: protocol.TextDocumentIdentifier{URI: f.uri}})
			ok := len(eds) > 0
			for _, e := range eds {
				if e.NewText != "" {
					pre := strings.Repeat(" ", indent)
					ok = ok && (strings.HasPrefix(e.NewText, pre+"e") || strings.HasPrefix(e.NewText, pre+"a"))
				}
			}
			zzverif.Assert(ok, "C19: formatting.indentSize does not govern the posting indent")
		}},
	}
}

func c19CasePayload(c c19Case) map[string]any {
	if zzverif.Choice("spelling", 2) == 1 {
		return map[string]any{c.section + "." + c.name: c.value}
	}
	return map[string]any{c.section: map[string]any{c.name: c.value}}
}

// VerifC19Effect: one key, delivered at initialisation or through a refresh.
func VerifC19Effect() {
	f := c19NewFx()
	cs := c19Cases()
	c := cs[zzverif.Choice("case", len(cs))]
	payload := c19CasePayload(c)
	if zzverif.Choice("via", 2) == 0 {
		f.init(map[string]any{"hledger": payload})
	} else {
		f.init(nil)
		if zzverif.Choice("warm", 2) == 1 {
			// an analysis under the previous settings has already run (include cache, workspace
			// caches and per-document trees are warm) when the new configuration arrives
			_ = f.diagnostics()
			_, _ = f.s.Format(f.ctx, &protocol.DocumentFormattingParams{TextDocument: protocol.TextDocumentIdentifier{URI: f.uri}})
		}
		f.refresh(payload)
	}
	c.check(f)
	zzverif.Reach("C19.effect.end")
}

// VerifC19EffectSeq: two configuration changes in a row with different keys: the first one
// must still be in force after the second (a later partial payload must not reset earlier
// values), and the second must be in force as well.
func VerifC19EffectSeq() {
	f := c19NewFx()
	cs := c19Cases()
	i := zzverif.Choice("first", len(cs))
	j := zzverif.Choice("second", len(cs))
	zzverif.Assume(i != j)
	// features.diagnostics=false hides what the diagnostics cases look at
	zzverif.Assume(!(cs[i].name == "diagnostics" && cs[i].section == "features") && !(cs[j].name == "diagnostics" && cs[j].section == "features"))
	// a size limit of 200 bytes refuses a.journal, so nothing deeper is loaded
	zzverif.Assume(!(cs[i].name == "maxFileSizeBytes" && cs[j].name == "maxIncludeDepth") && !(cs[j].name == "maxFileSizeBytes" && cs[i].name == "maxIncludeDepth"))
	f.init(nil)
	f.refresh(map[string]any{cs[i].section: map[string]any{cs[i].name: cs[i].value}})
	f.refresh(map[string]any{cs[j].section: map[string]any{cs[j].name: cs[j].value}})
	cs[i].check(f)
	cs[j].check(f)
	zzverif.Reach("C19.effectseq.end")
}

// c19NestClient answers the first workspace/configuration pull only after a SECOND
// configuration change has been pulled, answered and applied: the schedule "pull A is sent,
// pull B is sent, answered and applied, and only then A is answered". Tasks run atomically
// under the engine, so the overlap is realised by running pull B inside the client's answer
// to pull A (natively the same nesting is an ordinary call).
type c19NestClient struct {
	zzClient
	f        *c19Fx
	first    any
	second   any
	depth    int
	answered int
}

func (c *c19NestClient) Configuration(ctx context.Context, p *protocol.ConfigurationParams) ([]any, error) {
	c.depth++
	defer func() { c.depth--; c.answered++ }()
	if c.depth == 1 {
		// pull B happens while A is in flight
		_ = c.f.s.DidChangeConfiguration(ctx, &protocol.DidChangeConfigurationParams{})
		if zzverif.Engine() {
			for zzverif.PendingTasks() > 0 {
				zzverif.RunTask(0)
			}
		} else {
			c.f.s.refreshConfiguration(ctx)
		}
		return []any{c.first}, nil
	}
	return []any{c.second}, nil
}

// VerifC19Overlap: two configuration pulls overlap; each sets a different key. Afterwards
// both keys must be in force (an entry absent from a payload leaves the previous value
// unchanged - also when "previous" was written while the pull was in flight).
func VerifC19Overlap() {
	f := c19NewFx()
	cs := c19Cases()
	i := zzverif.Choice("first", len(cs))
	j := zzverif.Choice("second", len(cs))
	zzverif.Assume(i != j)
	zzverif.Assume(!(cs[i].name == "diagnostics" && cs[i].section == "features") && !(cs[j].name == "diagnostics" && cs[j].section == "features"))
	zzverif.Assume(!(cs[i].name == "maxFileSizeBytes" && cs[j].name == "maxIncludeDepth") && !(cs[j].name == "maxFileSizeBytes" && cs[i].name == "maxIncludeDepth"))
	nc := &c19NestClient{f: f,
		first:  map[string]any{cs[i].section: map[string]any{cs[i].name: cs[i].value}},
		second: map[string]any{cs[j].section: map[string]any{cs[j].name: cs[j].value}}}
	f.s.SetClient(nc)
	f.init(nil)
	_ = f.s.DidChangeConfiguration(f.ctx, &protocol.DidChangeConfigurationParams{})
	if zzverif.Engine() {
		for zzverif.PendingTasks() > 0 {
			zzverif.RunTask(0)
		}
	} else {
		f.s.refreshConfiguration(f.ctx)
	}
	zzverif.Assert(nc.answered == 2, "harness: both configuration pulls were answered")
	// the checks publish through the ordinary client stub
	f.s.SetClient(f.cl)
	cs[i].check(f)
	cs[j].check(f)
	zzverif.Reach("C19.overlap.end")
}
