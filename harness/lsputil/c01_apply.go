//go:build verif

package lsputil

import (
	"go.lsp.dev/protocol"

	"github.com/juev/hledger-lsp/internal/zzverif"
)

func init() {
	zzverif.Register("VerifC01Apply", VerifC01Apply)
	zzverif.Register("VerifC01ApplyLong", VerifC01ApplyLong)
}

// symDoc builds a document of exactly n characters; each character slot case-splits on a
// width class (DESIGN §4.1) and keeps ASCII content symbolic.
func symDoc(name string, n int, withNL bool) string {
	s := ""
	for i := 0; i < n; i++ {
		nm := name + zzverif.Itoa(i)
		k := 4
		if withNL {
			k = 6
		}
		switch zzverif.Choice(nm+".class", k) {
		case 0:
			s += string([]byte{zzverif.ByteIn(nm, zzverif.Printable(""))})
		case 1:
			s += "é"
		case 2:
			s += "€"
		case 3:
			s += "😀"
		case 4:
			s += "\n"
		case 5:
			s += "\r\n"
		}
	}
	return s
}

func refIndexNL(doc string, from int) int {
	for i := from; i < len(doc); i++ {
		if doc[i] == '\n' {
			return i
		}
	}
	return -1
}

// refOffset maps an LSP position to a byte offset following LSP 3.17: lines end at \n or
// \r\n; a character offset beyond the line content clamps to the end of the content (before
// the terminator); a line beyond the last clamps to the end of the document. inside reports
// a position that falls between the two code units of a surrogate pair (undefined by the spec).
func refOffset(doc string, line, char uint32) (off int, inside bool) {
	off = 0
	for cur := uint32(0); cur < line; cur++ {
		i := refIndexNL(doc, off)
		if i < 0 {
			return len(doc), false
		}
		off = i + 1
	}
	end := refIndexNL(doc, off)
	if end < 0 {
		end = len(doc)
	}
	if end > off && doc[end-1] == '\r' {
		end--
	}
	units := uint32(0)
	i := off
	for i < end && units < char {
		size := 1
		b := doc[i]
		switch {
		case b >= 0xF0:
			size = 4
		case b >= 0xE0:
			size = 3
		case b >= 0xC0:
			size = 2
		}
		if size == 4 {
			units += 2
		} else {
			units++
		}
		i += size
	}
	return i, units > char
}

func refApply(doc string, sl, sc, el, ec uint32, text string) (string, bool) {
	s, in1 := refOffset(doc, sl, sc)
	e, in2 := refOffset(doc, el, ec)
	if in1 || in2 {
		return "", false
	}
	return doc[:s] + text + doc[e:], true
}

func verifC01Apply(nDoc, nText int) {
	doc := symDoc("d", nDoc, true)
	text := symDoc("t", nText, true)
	sl, sc := zzverif.Uint32("sl"), zzverif.Uint32("sc")
	el, ec := zzverif.Uint32("el"), zzverif.Uint32("ec")
	// start <= end (LSP requires it)
	zzverif.Assume(sl < el || (sl == el && sc <= ec))
	want, ok := refApply(doc, sl, sc, el, ec, text)
	zzverif.Assume(ok)
	r := protocol.Range{Start: protocol.Position{Line: sl, Character: sc}, End: protocol.Position{Line: el, Character: ec}}
	got := NewPositionMapper(doc).ApplyChange(r, text)
	zzverif.Observe("got", got)
	zzverif.Observe("want", want)
	zzverif.Assert(got == want, "ApplyChange differs from the reference LSP client buffer")
	zzverif.Reach("C01.apply.end")
}

func VerifC01Apply()     { verifC01Apply(3, 1) }
func VerifC01ApplyLong() { verifC01Apply(5, 2) }
