//go:build verif

package lsputil

// Engine conformance battery: Go semantics that the symbolic executor must reproduce exactly.
// Every probe is an Observe; the driver's witness validation runs the same function natively
// and compares all observations (`./vcheck SMOKE quick`). One symbolic byte is mixed in so
// that the values are not all constant-folded.

import (
	"reflect"
	"sort"
	"strconv"
	"strings"

	"github.com/juev/hledger-lsp/internal/zzverif"
)

func init() { zzverif.Register("VerifEngSemantics", VerifEngSemantics) }

type esPair struct{ a, b int }
type esBox struct {
	n    int
	arr  [3]int
	p    esPair
	tags []string
	m    map[string]int
	name string
}
type esInner struct{ v int }

func (i *esInner) Inc()    { i.v++ }
func (i esInner) Get() int { return i.v }

type esOuter struct {
	esInner
	k int
}
type esShape interface{ Area() int }
type esSq struct{ s int }
type esRect struct{ w, h int }

func (s esSq) Area() int    { return s.s * s.s }
func (r *esRect) Area() int { return r.w * r.h }

func esNamed() (r int, err error) {
	defer func() {
		if x := recover(); x != nil {
			r = 42
		}
	}()
	defer func() { r += 1 }()
	var m map[string]int
	m["x"] = 1 // panics
	return 7, nil
}

func esVariadic(pre string, xs ...int) string {
	s := pre
	for _, x := range xs {
		s += strconv.Itoa(x) + ","
	}
	return s
}

func esMulti() (int, string, bool) { return 3, "three", true }

func VerifEngSemantics() {
	k := int(zzverif.ByteIn("k", "\x01\x02\x03")) // 1..3, symbolic
	obs := func(name string, v any) { zzverif.Observe(name, v) }

	// --- in-place stores, value copies
	var box esBox
	fp := &box.p.b
	ap := &box.arr[1]
	box = esBox{n: k}
	*fp = 9
	*ap = 8
	obs("inplace.field", box.p.b)
	obs("inplace.elem", box.arr[1])
	bp := &box
	*bp = esBox{n: 5, tags: []string{"x"}}
	obs("inplace.partial", bp.n*10+len(box.tags))
	c := box
	c.arr[0] = 77
	c.p.a = 66
	obs("copy.struct", box.arr[0]*100+box.p.a)
	arr := [3]esPair{{1, 2}, {3, 4}, {5, 6}}
	brr := arr
	brr[1].a = 99
	obs("copy.array", arr[1].a)
	pa := &arr
	pa[2].b = k
	obs("ptr.array", arr[2].b)
	arrs := [2][2]int{{1, 2}, {3, 4}}
	row := arrs[1]
	row[0] = 50
	obs("copy.row", arrs[1][0])

	// --- slices: aliasing, append, copy
	s := make([]int, 3, 8)
	s[0], s[1], s[2] = 1, 2, 3
	t := s[1:3]
	t[0] = 20
	obs("slice.alias", s[1])
	u := append(t, 4) // within cap: writes s[3] (beyond s's len)
	u[1] = 30
	obs("slice.append.alias", s[2])
	obs("slice.caps", len(t)*100+cap(t)*10+len(u))
	w := append(s[:3:3], 9) // forced reallocation
	w[0] = 111
	obs("slice.append.fresh", s[0])
	ov := []int{1, 2, 3, 4, 5}
	n := copy(ov[1:], ov)
	obs("slice.copy.overlap", strconv.Itoa(n)+":"+esVariadic("", ov...))
	var nilS []int
	nilS = append(nilS, k)
	obs("slice.nil.append", len(nilS)*10+nilS[0])
	ss := []esPair{{1, 1}, {2, 2}}
	for _, e := range ss {
		e.a = 100 // copy
	}
	for i := range ss {
		ss[i].b += k
	}
	obs("slice.range.copy", ss[0].a*100+ss[1].b)
	full := s[0:2:2]
	obs("slice.3index", cap(full))
	str := "héllo😀"
	obs("string.len", len(str))
	rs := []rune(str)
	obs("string.runes", len(rs))
	cnt, last := 0, 0
	for i, r := range str {
		cnt++
		last = i*1000 + int(r)%1000
	}
	obs("string.range", cnt*1000000+last)
	bs := []byte(str)
	bs[0] = 'H'
	obs("string.bytes", string(bs[:2])+str[:1])
	obs("string.cmp", str < "hézz" && "a" < "b" && !("b" < "a") && "" < "a")
	obs("string.index", strings.Index(str, "llo")*100+strings.LastIndex("a.b.c", ".")*10+strings.Count("aXbXc", "X"))
	obs("string.fields", strings.Join(strings.Split(" a  b ", " "), "|")+"/"+strings.TrimSpace("  x y\t\n")+"/"+strings.ToLower("AbÇ")+strings.Repeat("ab", k))
	obs("string.invalid", len([]rune("a\xffb"))*10+len(string([]rune{0x1F600})))
	symb := "a" + string([]byte{zzverif.ByteIn("b", "x$\xe2")}) + "\x82\xac"
	obs("string.indexany.wide", strings.IndexAny(symb, "€$")*10+strings.IndexAny("p€q", "$€"))
	obs("string.containsany.wide", strings.ContainsAny(symb, "£€"))
	sy := string([]byte{byte(0x60 + k)}) // 'a'..'c', symbolic
	obs("string.equalfold.wide", strconv.FormatBool(strings.EqualFold("é"+sy+"\u212a", "ÉBk"))+strconv.FormatBool(strings.EqualFold(sy+"é", "é"+sy))+strconv.FormatBool(strings.EqualFold("x"+sy, "Xé")))
	var sb strings.Builder
	sb.WriteString("ab")
	sb.WriteByte('c')
	sb.WriteRune('é')
	obs("builder", sb.String()+strconv.Itoa(sb.Len()))

	// --- maps
	m := map[string]esPair{"a": {1, 2}}
	e := m["a"]
	e.a = 50
	obs("map.value.copy", m["a"].a)
	m["b"] = esPair{k, k}
	delete(m, "a")
	_, okA := m["a"]
	obs("map.delete", len(m)*10+m["zz"].a)
	obs("map.ok", okA)
	mm := map[esPair]int{{1, 2}: 3}
	mm[esPair{1, 2}] += k
	obs("map.structkey", mm[esPair{1, 2}])
	keys := []string{}
	big := map[string]int{"q": 1, "w": 2, "e": 3, "r": 4, "t": 5}
	for kk := range big {
		keys = append(keys, kk)
	}
	sort.Strings(keys)
	obs("map.keys.sorted", strings.Join(keys, ""))
	ms := map[string][]int{}
	ms["x"] = append(ms["x"], 1, 2)
	ms["x"][0] = 9
	obs("map.slice", ms["x"][0]*10+len(ms["x"]))

	// --- integers
	var u32 uint32 = 0
	u32 -= uint32(k)
	obs("int.wrap", int64(u32))
	var i8 int8 = 127
	i8 += int8(k)
	obs("int.wrap8", int(i8))
	neg := -7
	obs("int.divmod", (neg/2)*100+(neg%2)*10+(7/-2))
	var sh uint = uint(60 + k*2)
	obs("int.shift", int64(uint64(1)<<sh)+int64(int32(-16)>>2)+int64(uint8(200)>>3))
	c200, c70k := 197+k, 69997+k
	obs("int.conv", int(int8(uint8(c200)))+int(uint16(c70k))+int(uint32(1<<32-1)>>31))
	obs("int.minmax", min(k, 2)*10+max(k, 2))
	x64 := int64(1) << 62
	obs("int.mul.overflow", x64*4)

	// --- control flow
	acc := ""
outer:
	for i := 0; i < 3; i++ {
		for j := 0; j < 3; j++ {
			if j == 2 {
				continue outer
			}
			if i == 2 {
				break outer
			}
			acc += strconv.Itoa(i*10+j) + " "
		}
	}
	obs("flow.labels", acc)
	sw := ""
	switch k {
	case 1:
		sw += "one"
		fallthrough
	case 2:
		sw += "two"
	case 3:
		sw += "three"
	default:
		sw += "other"
	}
	obs("flow.switch", sw)
	var funcs []func() int
	for i := 0; i < 3; i++ {
		funcs = append(funcs, func() int { return i * k })
	}
	obs("flow.closure.loopvar", funcs[0]()*100+funcs[1]()*10+funcs[2]())
	counter := 0
	incr := func() int { counter += k; return counter }
	incr()
	incr()
	obs("flow.closure.shared", counter)
	r, err := esNamed()
	obs("flow.defer.recover", strconv.Itoa(r)+":"+strconv.FormatBool(err == nil))
	order := ""
	func() {
		for i := 0; i < 3; i++ {
			defer func(j int) { order += strconv.Itoa(j) }(i)
		}
	}()
	obs("flow.defer.order", order)
	a1, a2, a3 := esMulti()
	obs("flow.multi", strconv.Itoa(a1)+a2+strconv.FormatBool(a3))
	obs("flow.variadic", esVariadic("p", 1, 2)+esVariadic("q"))

	// --- methods, embedding, interfaces
	o := esOuter{esInner{1}, 2}
	o.Inc()
	f := o.Inc
	f()
	g := o.Get // bound to a copy
	o.Inc()
	obs("method.values", o.v*10+g())
	shapes := []esShape{esSq{k}, &esRect{2, 3}}
	tot := 0
	for _, sh := range shapes {
		switch v := sh.(type) {
		case esSq:
			tot += v.Area() * 100
		case *esRect:
			v.w = 4
			tot += v.Area()
		}
	}
	obs("iface.dispatch", tot)
	var nilShape esShape
	_, isSq := nilShape.(esSq)
	obs("iface.nil", nilShape == nil && !isSq)
	var anyv any = esPair{1, 2}
	obs("iface.eq", anyv == any(esPair{1, 2}) && anyv != any(esPair{2, 1}))
	pp := &esPair{1, 2}
	qq := pp
	qq.a = k
	obs("ptr.alias", pp.a)
	obs("ptr.eq", pp == qq && pp != &esPair{1, 2})

	// --- reflect.DeepEqual
	de := func(a, b any) string { return strconv.FormatBool(reflect.DeepEqual(a, b)) }
	obs("deepequal", de([]esPair{{1, k}}, []esPair{{1, k}})+de([]esPair{{1, k}}, []esPair{{1, 4}})+
		de(map[string][]int{"a": {1, k}}, map[string][]int{"a": {1, k}})+de(map[string][]int{"a": {1}}, map[string][]int{"a": {2}})+
		de(&esPair{1, 2}, &esPair{1, 2})+de([]int(nil), []int{})+de(esBox{n: k, tags: []string{"x"}}, esBox{n: k, tags: []string{"x"}})+
		de(esBox{n: k, m: map[string]int{"q": 1}}, esBox{n: k, m: map[string]int{"q": 2}})+de(1, int64(1))+de(nil, nil))

	// --- sorting and strconv
	srt := []esPair{{3, 0}, {1, 1}, {2, 2}, {1, 3}}
	sort.SliceStable(srt, func(i, j int) bool { return srt[i].a < srt[j].a })
	obs("sort.stable", strconv.Itoa(srt[0].b)+strconv.Itoa(srt[1].b)+strconv.Itoa(srt[2].b)+strconv.Itoa(srt[3].b))
	ints := []int{5, 2, 8, 1}
	sort.Ints(ints)
	obs("sort.ints", esVariadic("", ints...)+strconv.Itoa(sort.SearchInts(ints, 5)))
	v, cerr := strconv.Atoi("-123")
	_, cerr2 := strconv.Atoi("12x")
	obs("strconv", strconv.Itoa(v)+strconv.FormatBool(cerr == nil)+strconv.FormatBool(cerr2 != nil)+strconv.Quote("a\"b"))
	zzverif.Reach("eng.semantics.end")
}
