//go:build verif

package analyzer

import (
	"sort"

	"github.com/juev/hledger-lsp/internal/include"
	"github.com/juev/hledger-lsp/internal/parser"
	"github.com/juev/hledger-lsp/internal/zzverif"
)

// C15 (ii-a): the collectors behind AnalyzeResolved on a resolved journal of 2..3 included
// files that share names. Each collector is run once in reference map order and once in free
// order. What must not depend on the order: every map-valued result (counts, declared sets,
// payee templates) exactly, and every list-valued result as a multiset. The ORDER of the
// list-valued results (Payees, Commodities, Tags, Accounts.All, TagValues[..], Dates) is not a
// response by itself; its effect on responses is decided end-to-end by VerifC15Completion and,
// for every order a collector may deliver, by VerifC15Rank (package server).

func init() {
	zzverif.Register("VerifC15Collect", VerifC15Collect)
}

func c15Included(i int, payee string) string {
	tag := []string{"trip:rome", "trip:oslo", "kind:x"}[i]
	acct := []string{"ex:food", "ex:fuel", "ex:food"}[i]
	cur := []string{"USD", "EUR", "USD"}[i]
	decl := []string{"account as:cash\ncommodity USD\n", "account ex:fuel\ncommodity 1.000,00 EUR\n", ""}[i]
	return decl + "\n2024-01-0" + zzverif.Itoa(2+i%2) + " " + payee + "  ; " + tag + "\n    " + acct + "  " + zzverif.Itoa(3+i) + " " + cur + "  ; who:me\n    as:cash\n"
}

func c15SortedCopy(a []string) []string {
	out := append([]string(nil), a...)
	sort.Strings(out)
	return out
}

func c15Same(a, b []string) bool {
	if len(a) != len(b) {
		return false
	}
	for i := range a {
		if a[i] != b[i] {
			return false
		}
	}
	return true
}

func c15MapLines(m map[string]int) []string {
	out := make([]string, 0)
	for k, v := range m {
		out = append(out, k+"="+zzverif.Itoa(v))
	}
	sort.Strings(out)
	return out
}

func c15BoolLines(m map[string]bool) []string {
	out := make([]string, 0)
	for k, v := range m {
		if v {
			out = append(out, k)
		}
	}
	sort.Strings(out)
	return out
}

func c15ListMapLines(m map[string][]string) []string {
	out := make([]string, 0)
	for k, vs := range m {
		s := k + "=>"
		for _, v := range c15SortedCopy(vs) {
			s += v + ","
		}
		out = append(out, s)
	}
	sort.Strings(out)
	return out
}

func c15TemplateMapLines(m map[string][]PostingTemplate) []string {
	out := make([]string, 0)
	for k, ts := range m {
		s := k + "=>"
		for _, t := range ts {
			left := "R"
			if t.CommodityLeft {
				left = "L"
			}
			s += t.Account + "|" + t.Amount + "|" + t.Commodity + "|" + left + ";"
		}
		out = append(out, s)
	}
	sort.Strings(out)
	return out
}

func VerifC15Collect() {
	n := 2 + zzverif.Choice("included", 2)
	// payees: the included files share "Shop" or bring their own name
	primary, errs := parser.Parse("include a.journal\ninclude b.journal\n\n2024-01-01 Root  ; trip:home\n    ex:rent  9 CHF\n    as:cash\n")
	zzverif.Assert(len(errs) == 0, "harness primary parses")
	resolved := include.NewResolvedJournal(primary)
	for i := 0; i < n; i++ {
		payee := []string{"Shop", []string{"Alpha", "Beta", "Gamma"}[i]}[zzverif.Choice("own"+zzverif.Itoa(i), 2)]
		j, errs := parser.Parse(c15Included(i, payee))
		zzverif.Assert(len(errs) == 0, "harness included file parses")
		path := "/w/" + []string{"a", "b", "c"}[i] + ".journal"
		resolved.Files[path] = j
		resolved.FileOrder = append(resolved.FileOrder, path)
	}
	which := zzverif.Choice("collector", 13)
	// run returns an order-insensitive rendering of the collector's result
	run := func() []string {
		switch which {
		case 0:
			idx := collectAccountsFromResolved(resolved)
			return append(c15SortedCopy(idx.All), c15ListMapLines(idx.ByPrefix)...)
		case 1:
			return c15SortedCopy(collectPayeesFromResolved(resolved))
		case 2:
			return c15SortedCopy(collectCommoditiesFromResolved(resolved))
		case 3:
			return c15SortedCopy(collectTagsFromResolved(resolved))
		case 4:
			return c15ListMapLines(collectTagValuesFromResolved(resolved))
		case 5:
			return c15SortedCopy(collectDatesFromResolved(resolved))
		case 6:
			return c15TemplateMapLines(collectPayeeTemplatesFromResolved(resolved))
		case 7:
			return c15MapLines(collectAccountCountsFromResolved(resolved))
		case 8:
			return c15MapLines(collectPayeeCountsFromResolved(resolved))
		case 9:
			return c15MapLines(collectCommodityCountsFromResolved(resolved))
		case 10:
			return c15MapLines(collectTagCountsFromResolved(resolved))
		case 11:
			return c15BoolLines(collectDeclaredAccountsFromResolved(resolved))
		default:
			return c15BoolLines(collectDeclaredCommoditiesFromResolved(resolved))
		}
	}
	// The rendering ranges over the result maps, so it has to run in reference order: the
	// collector itself is called under free order, its raw result rendered afterwards.
	ref := run()
	zzverif.Assert(len(ref) > 0, "harness: collector result is not empty")
	if zzverif.Engine() {
		got := c15CollectFree(which, resolved)
		zzverif.Assert(c15Same(ref, got), "collector result (as a set / map) depends on map iteration order")
	} else {
		for i := 1; i < 300; i++ {
			zzverif.Assert(c15Same(ref, run()), "collector result (as a set / map) depends on map iteration order")
		}
	}
	zzverif.Reach("C15.collect.end")
}

// c15CollectFree calls collector `which` with MapOrderNondet on and renders with it off.
func c15CollectFree(which int, resolved *include.ResolvedJournal) []string {
	zzverif.MapOrderNondet(true)
	var (
		idx   *AccountIndex
		list  []string
		lm    map[string][]string
		tm    map[string][]PostingTemplate
		im    map[string]int
		bm    map[string]bool
		shape int
	)
	switch which {
	case 0:
		idx, shape = collectAccountsFromResolved(resolved), 0
	case 1:
		list, shape = collectPayeesFromResolved(resolved), 1
	case 2:
		list, shape = collectCommoditiesFromResolved(resolved), 1
	case 3:
		list, shape = collectTagsFromResolved(resolved), 1
	case 4:
		lm, shape = collectTagValuesFromResolved(resolved), 2
	case 5:
		list, shape = collectDatesFromResolved(resolved), 1
	case 6:
		tm, shape = collectPayeeTemplatesFromResolved(resolved), 3
	case 7:
		im, shape = collectAccountCountsFromResolved(resolved), 4
	case 8:
		im, shape = collectPayeeCountsFromResolved(resolved), 4
	case 9:
		im, shape = collectCommodityCountsFromResolved(resolved), 4
	case 10:
		im, shape = collectTagCountsFromResolved(resolved), 4
	case 11:
		bm, shape = collectDeclaredAccountsFromResolved(resolved), 5
	default:
		bm, shape = collectDeclaredCommoditiesFromResolved(resolved), 5
	}
	zzverif.MapOrderNondet(false)
	switch shape {
	case 0:
		return append(c15SortedCopy(idx.All), c15ListMapLines(idx.ByPrefix)...)
	case 1:
		return c15SortedCopy(list)
	case 2:
		return c15ListMapLines(lm)
	case 3:
		return c15TemplateMapLines(tm)
	case 4:
		return c15MapLines(im)
	default:
		return c15BoolLines(bm)
	}
}
