//go:build verif

package analyzer

import (
	"sort"
	"strings"

	"github.com/juev/hledger-lsp/internal/ast"
	"github.com/juev/hledger-lsp/internal/parser"
	"github.com/juev/hledger-lsp/internal/zzverif"
)

// C15 (i): diagnostics of the analyzer, message text included, are a function of the journal.
//
// A transaction with 2..3 commodities, each carried by a pair of postings "+d1 C" / "-d2 C"
// with symbolic digits (so WHICH commodities are out of balance is chosen by the solver),
// optionally account / commodity declarations that produce further diagnostics. Analyze is
// run once with the executor's reference map order and once with every `range` over a map
// taking an independently chosen order (zzverif.MapOrderNondet); the two diagnostic lists
// must be identical. By transitivity "every order equals the reference order" is the same
// statement as "any two orders agree". Natively the runtime chooses the orders: the
// function is run 300 times and every result must equal the first.
//
// Engine flag: -exact-render (the message contains decimal.String() of a symbolic sum).

func init() {
	zzverif.Register("VerifC15Balance", VerifC15Balance)
	zzverif.Register("VerifC15BalanceWide", VerifC15BalanceWide)
}

var c15Commodities = []string{"USD", "EUR", "CHF"}

func c15BalanceJournal(n int, decl int) string {
	s := ""
	switch decl {
	case 1: // declarations that leave some accounts / commodities undeclared
		s += "account x:a\naccount y:b\ncommodity USD\ncommodity 1.000,00 EUR\n\n"
	case 2:
		s += "account x\ncommodity CHF\n\n"
	}
	s += "2024-01-15 * Shop\n"
	for i := 0; i < n; i++ {
		in := zzverif.Itoa(i)
		s += "    x:a  " + zzverif.Digits("p"+in, 1) + " " + c15Commodities[i] + "\n"
		s += "    y:b  -" + zzverif.Digits("m"+in, 1) + " " + c15Commodities[i] + "\n"
	}
	return s
}

func c15RenderDiag(d Diagnostic) string {
	return d.Code + "|" + zzverif.Itoa(int(d.Severity)) + "|" + zzverif.Itoa(d.Range.Start.Line) + ":" + zzverif.Itoa(d.Range.Start.Column) + "-" + zzverif.Itoa(d.Range.End.Line) + ":" + zzverif.Itoa(d.Range.End.Column)
}

// c15SameParts: the two messages consist of the same "; "-separated parts after the fixed prefix.
func c15SameParts(a, b string) bool {
	const prefix = "transaction does not balance: "
	if !strings.HasPrefix(a, prefix) || !strings.HasPrefix(b, prefix) || len(a) != len(b) {
		return false
	}
	pa := strings.Split(a[len(prefix):], "; ")
	pb := strings.Split(b[len(prefix):], "; ")
	if len(pa) != len(pb) {
		return false
	}
	// every part starts with its (concrete, distinct) commodity symbol
	sort.Slice(pa, func(i, j int) bool { return pa[i][:3] < pa[j][:3] })
	sort.Slice(pb, func(i, j int) bool { return pb[i][:3] < pb[j][:3] })
	return strings.Join(pa, "; ") == strings.Join(pb, "; ")
}

// c15CompareDiagnostics asserts identity of two diagnostic lists for journal j.
func c15CompareDiagnostics(j *ast.Journal, ref, got []Diagnostic) {
	zzverif.Assert(len(ref) == len(got), "number of diagnostics depends on map iteration order")
	for i := range ref {
		zzverif.Assert(c15RenderDiag(ref[i]) == c15RenderDiag(got[i]), "diagnostic code / severity / range depends on map iteration order")
		if ref[i].Message == got[i].Message {
			continue
		}
		if zzverif.Known("c15-unbalanced-message-order") && ref[i].Code == "UNBALANCED" && c15SameParts(ref[i].Message, got[i].Message) {
			// class: an UNBALANCED message naming >= 2 commodities lists them in map order
			zzverif.Reach("kf:c15-unbalanced-message-order")
			continue
		}
		zzverif.Assert(false, "diagnostic message depends on map iteration order")
	}
}

func verifC15Balance(maxN int, decls int) {
	n := 2 + zzverif.Choice("ncommodities", maxN-1)
	text := c15BalanceJournal(n, zzverif.Choice("decl", decls))
	journal, errs := parser.Parse(text)
	zzverif.Assert(len(errs) == 0 && journal != nil && len(journal.Transactions) == 1, "harness journal parses")
	a := New()
	ref := a.Analyze(journal).Diagnostics
	if zzverif.Engine() {
		zzverif.MapOrderNondet(true)
		got := a.Analyze(journal).Diagnostics
		zzverif.MapOrderNondet(false)
		c15CompareDiagnostics(journal, ref, got)
	} else {
		for rep := 0; rep < 300; rep++ {
			c15CompareDiagnostics(journal, ref, a.Analyze(journal).Diagnostics)
		}
	}
	zzverif.Reach("C15.balance.end")
}

// quick: 2..3 commodities, with / without declarations
func VerifC15Balance() { verifC15Balance(3, 2) }

// thorough: all three declaration variants
func VerifC15BalanceWide() { verifC15Balance(3, 3) }
