//go:build verif

package workspace

import (
	"sort"

	"github.com/juev/hledger-lsp/internal/ast"
	"github.com/juev/hledger-lsp/internal/formatter"
	"github.com/juev/hledger-lsp/internal/include"
	"github.com/juev/hledger-lsp/internal/zzverif"
)

// C12 (a): a workspace of three files under zzverif.Root() (root main.journal, a.journal,
// b.journal; the 2-file workspaces are the ones whose include slots never name the third
// file). Each file's content is one of V versions = include slots + optional account /
// commodity-with-format directive + <= 2 transactions whose payee, accounts, commodity and
// tag come from small pools shared by all files. Initialize, then exactly k UpdateFile
// steps (file and new version case-split); after EVERY step a fresh workspace (fresh loader)
// is initialised on the current contents and the aggregated views are compared, so the
// sequences of length < k are covered by the prefixes.

func init() {
	zzverif.Register("VerifC12Seq", VerifC12Seq)
	zzverif.Register("VerifC12Seq1", VerifC12Seq1)
	zzverif.Register("VerifC12Payload", VerifC12Payload)
	zzverif.Register("VerifC12Return", VerifC12Return)
	zzverif.Register("VerifC12SeqWide", VerifC12SeqWide)
	zzverif.Register("VerifC12SeqLong", VerifC12SeqLong)
	zzverif.Register("VerifC12SeqOrder", VerifC12SeqOrder)
}

const (
	c12Root = 0
	c12A    = 1
	c12B    = 2
	c12Dang = 3 // include target that never exists
)

var c12Names = []string{"main.journal", "a.journal", "b.journal", "nofile.journal"}

func c12Path(i int) string { return zzverif.Root() + "/" + c12Names[i] }

const (
	c12DirNone     = iota
	c12DirEURComma // commodity 1.000,00 EUR
	c12DirEURPoint // commodity 1,000.00 EUR
	c12DirAccount  // account ast:cash
	c12DirEURSub   // commodity EUR + format subdirective (space grouping)
)

type c12Version struct {
	inc []int
	dir int
	txs []int
}

// transaction kinds: (payee, accounts, amount, tag) drawn from the pools
//
//	payees {Shop, Cafe}, accounts {exp:food, exp:misc, ast:cash, ast:bank},
//	commodities {USD, EUR}, tags {trip:rome, trip:oslo, kind:x}, dates {2024-01-05, 2024-02-10}
//
// k0 and k1 share payee Shop with different postings (different templates); k0 and k3 have the
// same postings under different payees.
func c12Tx(kind int, amt string) string {
	switch kind {
	case 0:
		return "2024-01-05 * Shop  ; trip:rome\n    exp:food  " + amt + " USD\n    ast:cash\n\n"
	case 1:
		return "2024-01-05 Shop\n    exp:misc  7 EUR\n    ast:cash\n\n"
	case 2:
		return "2024-02-10 Cafe  ; trip:oslo\n    exp:food  3 USD\n    ast:bank\n\n"
	default:
		return "2024-02-10 ! Cafe\n    exp:food  " + amt + " USD  ; kind:x\n    ast:cash\n\n"
	}
}

func c12Dir(d int) string {
	switch d {
	case c12DirEURComma:
		return "commodity 1.000,00 EUR\n"
	case c12DirEURPoint:
		return "commodity 1,000.00 EUR\n"
	case c12DirAccount:
		return "account ast:cash\n"
	case c12DirEURSub:
		return "commodity EUR\n    format 1 000,00 EUR\n"
	}
	return ""
}

var c12Versions = [3][]c12Version{
	c12Root: {
		{inc: []int{c12A, c12B}, dir: c12DirNone, txs: []int{0}},
		{inc: []int{c12A}, dir: c12DirEURComma},
		{inc: []int{c12B, c12A}, dir: c12DirAccount, txs: []int{1}},
		{inc: []int{c12Dang}, dir: c12DirNone, txs: []int{2}},
		{inc: []int{c12B}, dir: c12DirEURPoint, txs: []int{0}},
		{inc: nil, dir: c12DirEURSub, txs: []int{3, 1}},
	},
	c12A: {
		{inc: nil, dir: c12DirNone, txs: []int{0, 2}},
		{inc: []int{c12B}, dir: c12DirEURPoint, txs: []int{1}},
		{inc: nil, dir: c12DirEURComma, txs: []int{3}},
		{inc: []int{c12Root}, dir: c12DirAccount, txs: []int{0}},
		{inc: []int{c12B}, dir: c12DirNone},
		{inc: nil, dir: c12DirEURSub, txs: []int{0, 0}},
	},
	c12B: {
		{inc: nil, dir: c12DirNone, txs: []int{0}},
		{inc: nil, dir: c12DirEURComma, txs: []int{1}},
		{inc: []int{c12A}, dir: c12DirEURPoint, txs: []int{2}},
		{inc: nil, dir: c12DirAccount, txs: []int{3}},
		{inc: nil, dir: c12DirNone},
		{inc: []int{c12A}, dir: c12DirEURSub, txs: []int{1, 2}},
	},
}

// c12Content renders version v of file f. The amount of b.journal's transactions carries a
// symbolic digit ("1d"; the other files write "15"): whether b's k0/k3 transaction has the
// same index key and the same payee template as a's is decided by the solver.
func c12Content(f, v int, nm string) string {
	ver := c12Versions[f][v]
	s := ""
	for _, i := range ver.inc {
		s += "include " + c12Names[i] + "\n"
	}
	s += c12Dir(ver.dir)
	if s != "" {
		s += "\n"
	}
	for i, k := range ver.txs {
		amt := "15"
		if f == c12B && (k == 0 || k == 3) {
			amt = "1" + zzverif.Digits(nm+".d"+zzverif.Itoa(i), 1)
		}
		s += c12Tx(k, amt)
	}
	return s
}

// c12Fingerprint: the derivation of a parsed journal as a string (dates, status, payee,
// postings with account / raw amount / commodity, tags, directives, includes).
func c12Fingerprint(j *ast.Journal) string {
	if j == nil {
		return "<nil>"
	}
	s := ""
	for _, tx := range j.Transactions {
		s += "T" + zzverif.Itoa(tx.Date.Year) + "-" + zzverif.Itoa(tx.Date.Month) + "-" + zzverif.Itoa(tx.Date.Day) + "/" + zzverif.Itoa(int(tx.Status)) + "/" + tx.Payee + "/" + tx.Description + "@" + zzverif.Itoa(tx.Range.Start.Line)
		for _, c := range tx.Comments {
			for _, t := range c.Tags {
				s += "#" + t.Name + "=" + t.Value
			}
		}
		for _, p := range tx.Postings {
			s += ";" + p.Account.Name
			if p.Amount != nil {
				s += "|" + p.Amount.RawQuantity + "|" + p.Amount.Commodity.Symbol
			}
			for _, t := range p.Tags {
				s += "#" + t.Name + "=" + t.Value
			}
		}
		s += "\n"
	}
	for _, d := range j.Directives {
		switch d := d.(type) {
		case ast.AccountDirective:
			s += "A" + d.Account.Name + "\n"
		case ast.CommodityDirective:
			s += "C" + d.Commodity.Symbol + "|" + d.Format + "\n"
		default:
			s += "D?\n"
		}
	}
	for _, inc := range j.Includes {
		s += "I" + inc.Path + "\n"
	}
	return s
}

func c12ResolvedPaths(r *include.ResolvedJournal) []string {
	ks := make([]string, 0)
	if r == nil {
		return ks
	}
	for k := range r.Files {
		ks = append(ks, k)
	}
	sort.Strings(ks)
	return ks
}

// c12FormatDeclarers: member journals (root included) that declare commodity sym with a format,
// as the list of their distinct parsed formats.
func c12DistinctFormats(r *include.ResolvedJournal, sym string) int {
	var seen []formatter.NumberFormat
	add := func(j *ast.Journal) {
		if j == nil {
			return
		}
		for _, d := range j.Directives {
			if cd, ok := d.(ast.CommodityDirective); ok && cd.Commodity.Symbol == sym && cd.Format != "" {
				nf := formatter.ParseNumberFormat(cd.Format)
				dup := false
				for _, o := range seen {
					if o == nf {
						dup = true
					}
				}
				if !dup {
					seen = append(seen, nf)
				}
			}
		}
	}
	add(r.Primary)
	for _, p := range c12ResolvedPaths(r) {
		add(r.Files[p])
	}
	return len(seen)
}

func c12PayeeOf(tx ast.Transaction) string {
	if tx.Payee != "" {
		return tx.Payee
	}
	return tx.Description
}

// c12TemplateWinners: payee -> the file whose transactions supply the payee's posting template
// when the tree is merged in FileOrder with the root journal last ("" = the root journal).
func c12TemplateWinners(r *include.ResolvedJournal) map[string]string {
	win := map[string]string{}
	for _, p := range r.FileOrder {
		if j := r.Files[p]; j != nil {
			for _, tx := range j.Transactions {
				if len(tx.Postings) > 0 {
					win[c12PayeeOf(tx)] = p
				}
			}
		}
	}
	if r.Primary != nil {
		for _, tx := range r.Primary.Transactions {
			if len(tx.Postings) > 0 {
				win[c12PayeeOf(tx)] = ""
			}
		}
	}
	return win
}

// c12CompareWorkspaces: the incrementally maintained workspace against a fresh one.
func c12CompareWorkspaces(inc, fresh *Workspace, dropped map[string]bool) {
	zzverif.Assert(inc.RootJournalPath() == fresh.RootJournalPath(), "root journal differs from rebuild")
	zzverif.Assert(hxSameStrings(hxMemberPaths(inc), hxMemberPaths(fresh)), "member files differ from rebuild")

	// resolved journal: same file set, same derivations
	ri, rf := inc.GetResolved(), fresh.GetResolved()
	zzverif.Assert((ri == nil) == (rf == nil), "resolved journal presence differs from rebuild")
	if ri != nil && rf != nil {
		pi, pf := c12ResolvedPaths(ri), c12ResolvedPaths(rf)
		zzverif.Assert(hxSameStrings(pi, pf), "GetResolved() file set differs from rebuild")
		zzverif.Assert(c12Fingerprint(ri.Primary) == c12Fingerprint(rf.Primary), "GetResolved() primary journal differs from rebuild")
		for _, p := range pi {
			zzverif.Assert(c12Fingerprint(ri.Files[p]) == c12Fingerprint(rf.Files[p]), "GetResolved() included journal differs from rebuild")
		}
		oi := append([]string(nil), ri.FileOrder...)
		sort.Strings(oi)
		zzverif.Assert(hxSameStrings(oi, pi), "GetResolved().FileOrder is not a permutation of the file set")
		// payee posting templates as the server derives them from the tree (analyzer:
		// included files in FileOrder, a later file overwrites an earlier one, the root last):
		// for every payee the same file must win as in a fresh workspace
		wi, wf := c12TemplateWinners(ri), c12TemplateWinners(rf)
		same := len(wi) == len(wf)
		for payee, path := range wf {
			same = same && wi[payee] == path
		}
		zzverif.Assert(same, "payee posting template taken from another file than after a rebuild (order of the included files)")
	}

	c12CompareSnapshots(inc.IndexSnapshot(), fresh.IndexSnapshot(), fresh.index.fileIndexes, dropped)

	zzverif.Assert(hxSameStrings(hxSortedBoolKeys(inc.GetDeclaredAccounts()), hxSortedBoolKeys(fresh.GetDeclaredAccounts())), "declared accounts differ from rebuild")
	zzverif.Assert(hxSameStrings(hxSortedBoolKeys(inc.GetDeclaredCommodities()), hxSortedBoolKeys(fresh.GetDeclaredCommodities())), "declared commodities differ from rebuild")

	fi, ff := inc.GetCommodityFormats(), fresh.GetCommodityFormats()
	ki, kf := make([]string, 0), make([]string, 0)
	for k := range fi {
		ki = append(ki, k)
	}
	for k := range ff {
		kf = append(kf, k)
	}
	sort.Strings(ki)
	sort.Strings(kf)
	zzverif.Assert(hxSameStrings(ki, kf), "commodity format key set differs from rebuild")
	for _, k := range ki {
		if fi[k] == ff[k] {
			continue
		}
		if zzverif.Known("c12-format-order") && rf != nil && c12DistinctFormats(rf, k) >= 2 {
			zzverif.Reach("kf:c12-format-order")
			continue
		}
		zzverif.Assert(false, "commodity format differs from rebuild")
	}
}

func c12Fresh() *Workspace {
	w := NewWorkspace(zzverif.Root(), include.NewLoader())
	err := w.Initialize()
	zzverif.Assert(err == nil, "fresh Initialize fails")
	return w
}

// c12Model: how many versions each file has and how version v of file f is rendered.
type c12Model struct {
	versions [3]int
	content  func(f, v int, nm string) string
}

func c12Pool(v int) c12Model {
	return c12Model{versions: [3]int{v, v, v}, content: c12Content}
}

// c12Rel strips the run-specific root directory.
func c12Rel(paths []string) []string {
	out := make([]string, 0, len(paths))
	pre := zzverif.Root() + "/"
	for _, p := range paths {
		if len(p) >= len(pre) && p[:len(pre)] == pre {
			p = p[len(pre):]
		}
		out = append(out, p)
	}
	return out
}

// verifC12Seq: Initialize, then exactly `steps` updates. With freeOrderLast the last
// UpdateFile runs with every `range` over a map (2..3 entries) in an independently chosen
// order (the refresh fixpoint iterates over the member map and the reachable set).
func verifC12Seq(m c12Model, steps int, freeOrderLast bool) {
	for f := 0; f < 3; f++ {
		nm := "init." + zzverif.Itoa(f)
		zzverif.WriteFile(c12Path(f), m.content(f, zzverif.Choice(nm, m.versions[f]), nm))
	}
	w := NewWorkspace(zzverif.Root(), include.NewLoader())
	err := w.Initialize()
	zzverif.Assert(err == nil, "Initialize fails")
	dropped := map[string]bool{}
	c12CompareWorkspaces(w, c12Fresh(), dropped)

	for st := 0; st < steps; st++ {
		sn := "s" + zzverif.Itoa(st)
		f := zzverif.Choice(sn+".file", 3)
		content := m.content(f, zzverif.Choice(sn+".ver", m.versions[f]), sn)
		zzverif.WriteFile(c12Path(f), content)

		old := map[string]*FileIndex{}
		for p, fi := range w.index.fileIndexes {
			old[p] = fi
		}
		if freeOrderLast && st == steps-1 {
			zzverif.MapOrderNondet(true)
			w.UpdateFile(c12Path(f), content)
			zzverif.MapOrderNondet(false)
		} else {
			w.UpdateFile(c12Path(f), content)
		}
		for p, fi := range old {
			if w.index.fileIndexes[p] != fi {
				c12TemplateKeys(fi, dropped) // removeFileIndex ran on fi
			}
		}
		c12CompareWorkspaces(w, c12Fresh(), dropped)
	}
	zzverif.Observe("members", c12Rel(hxMemberPaths(w)))
	snap := w.IndexSnapshot()
	zzverif.Observe("payees", snap.Payees)
	zzverif.Observe("accounts", snap.Accounts.All)
	zzverif.Observe("tags", snap.Tags)
	zzverif.Observe("dates", snap.Dates)
	zzverif.Observe("formats", hxRenderFormats(w.GetCommodityFormats()))
	zzverif.Observe("declAcc", hxSortedBoolKeys(w.GetDeclaredAccounts()))
	zzverif.Observe("declCom", hxSortedBoolKeys(w.GetDeclaredCommodities()))
	zzverif.Reach("C12.seq.end")
}

// quick: 4 versions per file, 1 update
func VerifC12Seq1() { verifC12Seq(c12Pool(4), 1, false) }

// thorough: 4 versions per file, 2 updates
func VerifC12Seq() { verifC12Seq(c12Pool(4), 2, false) }

// thorough: 6 versions per file, 2 updates
func VerifC12SeqWide() { verifC12Seq(c12Pool(6), 2, false) }

// thorough: 3 versions per file, 3 updates
func VerifC12SeqLong() { verifC12Seq(c12Pool(3), 3, false) }

// ---- include-tree refresh under free map iteration order ----
//
// Skeleton contents: every file holds the same single transaction (one payee, one account used
// twice, one commodity, one date), so every name-keyed map has one entry and only the maps
// keyed by FILE (member index, reachable set, resolved files) are iterated in several orders.
// The versions differ in their include lists; a.journal and b.journal declare different
// formats for the shared commodity.
var c12SkeletonIncludes = [3][][]int{
	c12Root: {{c12A, c12B}, {c12A}, {c12B}, {c12Dang}},
	c12A:    {{}, {c12B}, {c12Root}},
	c12B:    {{}, {c12A}},
}

func c12SkeletonContent(f, v int, nm string) string {
	s := ""
	for _, i := range c12SkeletonIncludes[f][v] {
		s += "include " + c12Names[i] + "\n"
	}
	s += []string{"", "commodity 1.000,00 USD\n", "commodity 1,000.00 USD\n"}[f]
	return s + "\n2024-01-05 Shop\n    x:a  1 USD\n    x:a  -1 USD\n"
}

// thorough: 2 updates over the skeleton pool, the second one in free map order
func VerifC12SeqOrder() {
	m := c12Model{versions: [3]int{len(c12SkeletonIncludes[0]), len(c12SkeletonIncludes[1]), len(c12SkeletonIncludes[2])}, content: c12SkeletonContent}
	verifC12Seq(m, 2, true)
}

// ---- edits that change a declaration's payload but not its name ----

// VerifC12Payload: root declares a commodity format, an account and includes a.journal; the
// caches of the derived views are warm (every getter has been called); then ONE file is
// updated so that only the payload of a declaration changes (the format of the same
// commodity, the sub-directive of the same account) or a declaration is added / removed,
// with the include list unchanged. The views must equal a fresh workspace's.
func VerifC12Payload() {
	fmts := []string{"1.000,00 EUR", "1,000.00 EUR", "1000.0000 EUR", "1 000,0 EUR"}
	root := func(f int, acct bool) string {
		s := "include a.journal\ncommodity " + fmts[f] + "\n"
		if acct {
			s += "account ast:cash\n"
		}
		return s + "\n" + c12Tx(1, "15")
	}
	f0 := zzverif.Choice("fmt0", len(fmts))
	a0 := zzverif.Choice("acct0", 2) == 1
	zzverif.WriteFile(c12Path(c12Root), root(f0, a0))
	zzverif.WriteFile(c12Path(c12A), "commodity 1,000.000 USD\n\n"+c12Tx(0, "15"))
	zzverif.WriteFile(c12Path(c12B), c12Tx(2, "15"))
	w := NewWorkspace(zzverif.Root(), include.NewLoader())
	zzverif.Assert(w.Initialize() == nil, "Initialize fails")
	dropped := map[string]bool{}
	c12CompareWorkspaces(w, c12Fresh(), dropped) // warms every cache
	f1 := zzverif.Choice("fmt1", len(fmts))
	a1 := zzverif.Choice("acct1", 2) == 1
	var path, content string
	if zzverif.Choice("file", 2) == 0 {
		path, content = c12Path(c12Root), root(f1, a1)
	} else {
		path, content = c12Path(c12A), "commodity "+[]string{"1,000.000 USD", "1.000,0 USD"}[zzverif.Choice("fmtA", 2)]+"\n\n"+c12Tx(0, "15")
	}
	zzverif.WriteFile(path, content)
	w.UpdateFile(path, content)
	c12CompareWorkspaces(w, c12Fresh(), dropped)
	zzverif.Observe("formats", hxRenderFormats(w.GetCommodityFormats()))
	zzverif.Reach("C12.payload.end")
}

// ---- a file leaves the tree, changes while it is outside, and returns ----

// VerifC12Return: three updates with a fixed plot and chosen contents: the root stops including
// one of its files (update 1), that file's content is replaced while nothing includes it
// (update 2: the workspace is told, as the server does for every open document, and the file
// is written), the root includes it again (update 3). After every step the views must equal a
// fresh workspace's. What the workspace remembers about a file that left must not come back.
func VerifC12Return() {
	root0 := "include a.journal\ninclude b.journal\n\n" + c12Tx(2, "15")
	leaves := 1 + zzverif.Choice("leaves", 2) // a or b
	root1 := "include " + c12Names[3-leaves] + "\n\n" + c12Tx(2, "15")
	zzverif.WriteFile(c12Path(c12Root), root0)
	for f := 1; f <= 2; f++ {
		nm := "init." + zzverif.Itoa(f)
		zzverif.WriteFile(c12Path(f), c12Content(f, zzverif.Choice(nm, 3), nm))
	}
	w := NewWorkspace(zzverif.Root(), include.NewLoader())
	err := w.Initialize()
	zzverif.Assert(err == nil, "Initialize fails")
	dropped := map[string]bool{}
	step := func(f int, content string) {
		zzverif.WriteFile(c12Path(f), content)
		old := map[string]*FileIndex{}
		for p, fi := range w.index.fileIndexes {
			old[p] = fi
		}
		w.UpdateFile(c12Path(f), content)
		for p, fi := range old {
			if w.index.fileIndexes[p] != fi {
				c12TemplateKeys(fi, dropped)
			}
		}
		c12CompareWorkspaces(w, c12Fresh(), dropped)
	}
	step(c12Root, root1)
	step(leaves, c12Content(leaves, zzverif.Choice("outside", 3), "outside"))
	step(c12Root, root0)
	zzverif.Reach("C12.return.end")
}
