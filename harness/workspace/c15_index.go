//go:build verif

package workspace

import (
	"sort"

	"github.com/juev/hledger-lsp/internal/include"
	"github.com/juev/hledger-lsp/internal/zzverif"
)

// C15 (iv): the workspace view built from a resolved journal of 2..3 included files is a
// function of the file contents. A fresh workspace is initialised once in the executor's
// reference map order and once with every `range` over a map taking an independently chosen
// order; index snapshot (payee templates included), declared sets and commodity formats must
// be identical. Natively: 300 fresh workspaces, all equal to the first.
//
// All files use the same payee, account, commodity and date (the workspace-wide maps then
// have one entry and are not worth permuting); what differs per file is the posting amount
// of the shared payee (symbolic digit for the included files: whether two files define
// different templates is up to the solver) and the commodity format they declare.

func init() {
	zzverif.Register("VerifC15IndexBuild", VerifC15IndexBuild)
}

func c15TemplateLines(t IndexSnapshot) []string {
	ks := make([]string, 0)
	for k := range t.PayeeTemplates {
		ks = append(ks, k)
	}
	sort.Strings(ks)
	out := make([]string, 0)
	for _, k := range ks {
		out = append(out, k+"=>"+hxRenderTemplates(t.PayeeTemplates[k]))
	}
	return out
}

func c15CountLines(m map[string]int) []string {
	out := make([]string, 0)
	for _, k := range hxSortedKeysInt(m) {
		out = append(out, k+"="+zzverif.Itoa(m[k]))
	}
	return out
}

type c15View struct {
	members, lists, counts, templates, formats, declared []string
}

// c15BuildView: the code under test (fresh workspace, Initialize, the getters) runs in free
// map order when nondet is set; the rendering of its results is harness bookkeeping and runs
// in reference order.
func c15BuildView(nondet bool) c15View {
	zzverif.MapOrderNondet(nondet)
	w := NewWorkspace(zzverif.Root(), include.NewLoader())
	err := w.Initialize()
	s := w.IndexSnapshot()
	formats := w.GetCommodityFormats()
	declA, declC := w.GetDeclaredAccounts(), w.GetDeclaredCommodities()
	zzverif.MapOrderNondet(false)
	zzverif.Assert(err == nil, "Initialize fails")
	var v c15View
	v.members = hxMemberPaths(w)
	v.lists = append(v.lists, s.Accounts.All...)
	v.lists = append(v.lists, "|")
	v.lists = append(v.lists, s.Payees...)
	v.lists = append(v.lists, "|")
	v.lists = append(v.lists, s.Commodities...)
	v.lists = append(v.lists, "|")
	v.lists = append(v.lists, s.Dates...)
	v.counts = append(v.counts, c15CountLines(s.AccountCounts)...)
	v.counts = append(v.counts, c15CountLines(s.PayeeCounts)...)
	v.counts = append(v.counts, c15CountLines(s.CommodityCounts)...)
	for _, k := range c12SortedKeysSlicesTx(s.Transactions) {
		v.counts = append(v.counts, "tx="+zzverif.Itoa(len(s.Transactions[k])))
	}
	v.templates = c15TemplateLines(s)
	v.formats = hxRenderFormats(formats)
	v.declared = append(hxSortedBoolKeys(declA), hxSortedBoolKeys(declC)...)
	return v
}

func c12SortedKeysSlicesTx(m map[string][]TransactionEntry) []string {
	ks := make([]string, 0)
	for k := range m {
		ks = append(ks, k)
	}
	sort.Strings(ks)
	return ks
}

func VerifC15IndexBuild() {
	root := zzverif.Root()
	n := 2 + zzverif.Choice("included", 2)
	names := []string{"a.journal", "b.journal", "c.journal"}[:n]
	main := ""
	for _, nm := range names {
		main += "include " + nm + "\n"
	}
	main += "\n2024-01-01 Shop\n    x:a  1 USD\n    x:a  -1 USD\n"
	zzverif.WriteFile(root+"/main.journal", main)
	dirs := []string{"commodity 1.000,00 USD\n", "commodity 1,000.00 USD\n", "account x:a\n"}
	amounts := make([]string, n)
	for i, nm := range names {
		amounts[i] = zzverif.Digits("amt."+nm, 1)
		zzverif.WriteFile(root+"/"+nm, dirs[i]+"\n2024-01-01 Shop\n    x:a  "+amounts[i]+" USD\n    x:a  -"+amounts[i]+" USD\n")
	}
	distinct := false
	for i := 1; i < n; i++ {
		if amounts[i] != amounts[0] {
			distinct = true
		}
	}
	cmp := func(ref, got c15View) {
		zzverif.Assert(hxSameStrings(ref.members, got.members), "member files depend on map iteration order")
		zzverif.Assert(hxSameStrings(ref.lists, got.lists), "index name lists depend on map iteration order")
		zzverif.Assert(hxSameStrings(ref.counts, got.counts), "index counts depend on map iteration order")
		zzverif.Assert(hxSameStrings(ref.formats, got.formats), "commodity formats depend on map iteration order")
		zzverif.Assert(hxSameStrings(ref.declared, got.declared), "declared sets depend on map iteration order")
		same := hxSameStrings(ref.templates, got.templates)
		// class: the payee is defined with different postings by >= 2 included files; the file
		// that buildIndexFromResolvedLocked happens to add last wins
		if !same && zzverif.Known("c15-index-template-order") && distinct && len(ref.templates) == len(got.templates) {
			zzverif.Reach("kf:c15-index-template-order")
			return
		}
		zzverif.Assert(same, "payee templates depend on map iteration order")
	}
	ref := c15BuildView(false)
	if zzverif.Engine() {
		cmp(ref, c15BuildView(true))
	} else {
		for i := 1; i < 300; i++ {
			cmp(ref, c15BuildView(false))
		}
	}
	zzverif.Reach("C15.indexbuild.end")
}
