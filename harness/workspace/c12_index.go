//go:build verif

package workspace

import (
	"sort"

	"github.com/juev/hledger-lsp/internal/analyzer"
	"github.com/juev/hledger-lsp/internal/ast"
	"github.com/juev/hledger-lsp/internal/zzverif"
)

// C12 (b): inductive step on the aggregated index alone.
//
// A WorkspaceIndex is built from 2..3 FileIndex values whose entries carry symbolic presence
// bits and symbolic counts; then ONE SetFileIndex (replace an existing file or add a new one)
// or RemoveFile is applied with an arbitrary new FileIndex, and the result is compared with an
// index built from scratch from the final file indexes. The thorough entry point applies a
// second operation to the (non-fresh) result and compares again.
//
// The FileIndex values satisfy the invariants of BuildFileIndexFromJournal: counts >= 1,
// Transactions[i].FilePath == path, Dates without duplicates, PayeeTemplates keys are payees
// that have a count.

func init() {
	zzverif.Register("VerifC12Index", VerifC12Index)
	zzverif.Register("VerifC12IndexLong", VerifC12IndexLong)
}

const (
	c12CatAccount = iota
	c12CatPayee
	c12CatCommodity
	c12CatTag
	c12CatTagValue
	c12CatTx
	c12NCat
)

var c12IdxPaths = []string{"/f0.journal", "/f1.journal", "/f2.journal", "/f3.journal"}

func c12IdxPath(i int) string { return zzverif.Root() + c12IdxPaths[i] }

// c12SymFileIndex: a FileIndex for path with symbolic content in category cat.
// names: size of the name pool (2 or 3).
func c12SymFileIndex(nm, path string, cat, names int) *FileIndex {
	fi := &FileIndex{
		TagValues:       map[string][]string{},
		PayeeTemplates:  map[string][]analyzer.PostingTemplate{},
		AccountCounts:   map[string]int{},
		PayeeCounts:     map[string]int{},
		CommodityCounts: map[string]int{},
		TagCounts:       map[string]int{},
		TagValueCounts:  map[string]map[string]int{},
	}
	pool := []string{"n:a", "n:b", "m:c"}[:names]
	for j, name := range pool {
		jn := nm + "." + zzverif.Itoa(j)
		if !zzverif.Bool(jn + ".present") {
			continue
		}
		switch cat {
		case c12CatAccount:
			fi.Accounts = append(fi.Accounts, name)
			fi.AccountCounts[name] = zzverif.Int(jn+".count", 1, 1<<30)
		case c12CatPayee:
			fi.Payees = append(fi.Payees, name)
			fi.PayeeCounts[name] = zzverif.Int(jn+".count", 1, 1<<30)
			// a payee may have no template (transactions without postings); one name of the
			// pool carries that freedom, the others always come with a template
			if j > 0 || zzverif.Bool(jn+".tmpl") {
				// the template's amount is a symbolic digit: whether two files carry the same
				// template for a payee is decided by the solver
				amt := zzverif.Digits(jn+".amt", 1)
				fi.PayeeTemplates[name] = []analyzer.PostingTemplate{{Account: "x:y", Amount: amt, Commodity: "USD"}, {Account: "x:z"}}
			}
		case c12CatCommodity:
			fi.Commodities = append(fi.Commodities, name)
			fi.CommodityCounts[name] = zzverif.Int(jn+".count", 1, 1<<30)
		case c12CatTag:
			fi.Tags = append(fi.Tags, name)
			fi.TagCounts[name] = zzverif.Int(jn+".count", 1, 1<<30)
		case c12CatTagValue:
			// pairs (t0,v0) (t0,v1) (t1,v0): emptying the inner map of t0 needs both gone
			tag := []string{"t0", "t0", "t1"}[j]
			val := []string{"v0", "v1", "v0"}[j]
			if fi.TagValueCounts[tag] == nil {
				fi.TagValueCounts[tag] = map[string]int{}
			}
			fi.TagValueCounts[tag][val] = zzverif.Int(jn+".count", 1, 1<<30)
			fi.TagValues[tag] = append(fi.TagValues[tag], val)
		case c12CatTx:
			// a date and one or two transactions under key name (two entries with one key in one file)
			date := []string{"2024-01-01", "2024-01-02", "2024-02-03"}[j]
			fi.Dates = append(fi.Dates, date)
			n := 1 + zzverif.Choice(jn+".dup", 2)
			for k := 0; k < n; k++ {
				fi.Transactions = append(fi.Transactions, TransactionEntry{
					Key: name, FilePath: path,
					Range: ast.Range{Start: ast.Position{Line: 1 + 4*k + 10*j, Column: 1}, End: ast.Position{Line: 3 + 4*k + 10*j, Column: 1}},
					Date:  ast.Date{Year: 2024, Month: 1 + j/2, Day: 1 + j},
					Payee: name,
				})
			}
		}
	}
	return fi
}

// c12EqualCounts asserts equality of two count maps: same key set, equal (symbolic) values.
func c12EqualCounts(a, b map[string]int, msg string) {
	ka, kb := hxSortedKeysInt(a), hxSortedKeysInt(b)
	zzverif.Assert(hxSameStrings(ka, kb), msg+": key sets differ")
	for _, k := range ka {
		zzverif.Assert(a[k] == b[k], msg+": a count differs")
	}
}

func c12SortedKeysSlices(m map[string][]string) []string {
	ks := make([]string, 0, len(m))
	for k := range m {
		ks = append(ks, k)
	}
	sort.Strings(ks)
	return ks
}

type c12TxSig struct {
	file string
	rng  ast.Range
	date ast.Date
	pd   string
}

func c12TxLess(a, b c12TxSig) bool {
	if a.file != b.file {
		return a.file < b.file
	}
	if a.rng.Start.Line != b.rng.Start.Line {
		return a.rng.Start.Line < b.rng.Start.Line
	}
	return a.rng.Start.Offset < b.rng.Start.Offset
}

func c12TxSigs(es []TransactionEntry) []c12TxSig {
	out := make([]c12TxSig, 0, len(es))
	for _, e := range es {
		out = append(out, c12TxSig{e.FilePath, e.Range, ast.Date{Year: e.Date.Year, Month: e.Date.Month, Day: e.Date.Day}, e.Payee + "\x00" + e.Description})
	}
	sort.Slice(out, func(i, j int) bool { return c12TxLess(out[i], out[j]) })
	return out
}

// c12EqualTemplates compares two template lists; symbolic amounts yield one term.
func c12EqualTemplates(a, b []analyzer.PostingTemplate) bool {
	if len(a) != len(b) {
		return false
	}
	return hxRenderTemplates(a) == hxRenderTemplates(b)
}

// c12Definers: the files (in path order) whose FileIndex carries a template for payee.
func c12Definers(files map[string]*FileIndex, payee string) []string {
	var out []string
	for _, p := range c12SortedFileKeys(files) {
		if _, ok := files[p].PayeeTemplates[payee]; ok {
			out = append(out, p)
		}
	}
	return out
}

func c12SortedFileKeys(files map[string]*FileIndex) []string {
	ks := make([]string, 0, len(files))
	for k := range files {
		ks = append(ks, k)
	}
	sort.Strings(ks)
	return ks
}

// c12CompareSnapshots: incremental vs from-scratch. files = the final FileIndex per member
// (ground truth for the class predicates); dropped = payees whose template key was deleted by
// removeFileIndex (the old FileIndex of a replaced / removed file defined it).
func c12CompareSnapshots(inc, fresh IndexSnapshot, files map[string]*FileIndex, dropped map[string]bool) {
	// accounts
	zzverif.Assert(hxSameStrings(inc.Accounts.All, fresh.Accounts.All), "index: Accounts.All differs from rebuild")
	pa, pb := c12SortedKeysSlices(inc.Accounts.ByPrefix), c12SortedKeysSlices(fresh.Accounts.ByPrefix)
	zzverif.Assert(hxSameStrings(pa, pb), "index: Accounts.ByPrefix key set differs from rebuild")
	for _, k := range pa {
		zzverif.Assert(hxSameStrings(inc.Accounts.ByPrefix[k], fresh.Accounts.ByPrefix[k]), "index: Accounts.ByPrefix entry differs from rebuild")
	}
	zzverif.Assert(hxSameStrings(inc.Payees, fresh.Payees), "index: Payees differ from rebuild")
	zzverif.Assert(hxSameStrings(inc.Commodities, fresh.Commodities), "index: Commodities differ from rebuild")
	zzverif.Assert(hxSameStrings(inc.Tags, fresh.Tags), "index: Tags differ from rebuild")
	zzverif.Assert(hxSameStrings(inc.Dates, fresh.Dates), "index: Dates differ from rebuild")
	ta, tb := c12SortedKeysSlices(inc.TagValues), c12SortedKeysSlices(fresh.TagValues)
	zzverif.Assert(hxSameStrings(ta, tb), "index: TagValues key set differs from rebuild")
	for _, k := range ta {
		zzverif.Assert(hxSameStrings(inc.TagValues[k], fresh.TagValues[k]), "index: TagValues entry differs from rebuild")
	}
	c12EqualCounts(inc.AccountCounts, fresh.AccountCounts, "index: AccountCounts")
	c12EqualCounts(inc.PayeeCounts, fresh.PayeeCounts, "index: PayeeCounts")
	c12EqualCounts(inc.CommodityCounts, fresh.CommodityCounts, "index: CommodityCounts")
	c12EqualCounts(inc.TagCounts, fresh.TagCounts, "index: TagCounts")
	na := make([]string, 0)
	for k := range inc.TagValueCounts {
		na = append(na, k)
	}
	nb := make([]string, 0)
	for k := range fresh.TagValueCounts {
		nb = append(nb, k)
	}
	sort.Strings(na)
	sort.Strings(nb)
	zzverif.Assert(hxSameStrings(na, nb), "index: TagValueCounts key set differs from rebuild")
	for _, k := range na {
		c12EqualCounts(inc.TagValueCounts[k], fresh.TagValueCounts[k], "index: TagValueCounts entry")
	}
	// transaction index: per key a multiset of (file, range, date, payee, description)
	xa := make([]string, 0)
	for k := range inc.Transactions {
		xa = append(xa, k)
	}
	xb := make([]string, 0)
	for k := range fresh.Transactions {
		xb = append(xb, k)
	}
	sort.Strings(xa)
	sort.Strings(xb)
	zzverif.Assert(hxSameStrings(xa, xb), "index: transaction keys differ from rebuild")
	for _, k := range xa {
		sa, sb := c12TxSigs(inc.Transactions[k]), c12TxSigs(fresh.Transactions[k])
		zzverif.Assert(len(sa) == len(sb), "index: number of transactions under a key differs from rebuild")
		for i := range sa {
			zzverif.Assert(sa[i] == sb[i], "index: transaction entry differs from rebuild")
		}
	}
	// payee templates
	seen := map[string]bool{}
	var payees []string
	for k := range inc.PayeeTemplates {
		if !seen[k] {
			seen[k] = true
			payees = append(payees, k)
		}
	}
	for k := range fresh.PayeeTemplates {
		if !seen[k] {
			seen[k] = true
			payees = append(payees, k)
		}
	}
	sort.Strings(payees)
	for _, p := range payees {
		ti, okI := inc.PayeeTemplates[p]
		tf, okF := fresh.PayeeTemplates[p]
		if okF && !okI {
			if zzverif.Known("c12-template-lost") && dropped[p] {
				zzverif.Reach("kf:c12-template-lost")
				continue
			}
			zzverif.Assert(false, "index: payee template missing although a member file defines it")
		}
		zzverif.Assert(okF, "index: payee template present although no member file defines it")
		if len(c12Definers(files, p)) >= 2 {
			if c12EqualTemplates(ti, tf) {
				continue
			}
			if zzverif.Known("c12-template-order") {
				zzverif.Reach("kf:c12-template-order")
				continue
			}
		}
		zzverif.Assert(c12EqualTemplates(ti, tf), "index: payee template differs from rebuild")
	}
}

func c12BuildScratch(files map[string]*FileIndex) *WorkspaceIndex {
	idx := NewWorkspaceIndex()
	for _, p := range c12SortedFileKeys(files) {
		idx.SetFileIndex(p, files[p])
	}
	return idx
}

func c12TemplateKeys(fi *FileIndex, into map[string]bool) {
	if fi == nil {
		return
	}
	for k := range fi.PayeeTemplates {
		into[k] = true
	}
}

// verifC12Index: base member files f0..f(base-1) plus one path that is not a member at the
// start (SetFileIndex on it is an addition, RemoveFile a no-op).
func verifC12Index(base, names, ops int) {
	cat := zzverif.Choice("cat", c12NCat)
	files := map[string]*FileIndex{}
	idx := NewWorkspaceIndex()
	for i := 0; i < base; i++ {
		p := c12IdxPath(i)
		fi := c12SymFileIndex("f"+zzverif.Itoa(i), p, cat, names)
		files[p] = fi
		idx.SetFileIndex(p, fi)
	}
	dropped := map[string]bool{}
	for op := 0; op < ops; op++ {
		on := "op" + zzverif.Itoa(op)
		target := c12IdxPath(zzverif.Choice(on+".file", base+1))
		if zzverif.Choice(on+".kind", 2) == 0 {
			fi := c12SymFileIndex(on+".new", target, cat, names)
			c12TemplateKeys(files[target], dropped)
			idx.SetFileIndex(target, fi)
			files[target] = fi
		} else {
			c12TemplateKeys(files[target], dropped)
			idx.RemoveFile(target)
			delete(files, target)
		}
		zzverif.Assert(len(idx.fileIndexes) == len(files), "index: member file set differs")
		for p, fi := range files {
			zzverif.Assert(idx.FileIndex(p) == fi, "index: member file index differs")
		}
		c12CompareSnapshots(idx.Snapshot(), c12BuildScratch(files).Snapshot(), files, dropped)
	}
	zzverif.Reach("C12.index.end")
}

// quick: 2 member files + 1 new path, 2 names per category, one operation
func VerifC12Index() { verifC12Index(2, 2, 1) }

// thorough: two operations (the second one starts from a non-fresh index); or 3 names with 2 member files
func VerifC12IndexLong() {
	if zzverif.Choice("shape", 2) == 0 {
		verifC12Index(3, 2, 2)
	} else {
		verifC12Index(2, 3, 1)
	}
}
