//go:build verif

package workspace

// Helpers shared by the C12 and C15 harnesses of this package (unprefixed file: overlaid for both).

import (
	"sort"

	"github.com/juev/hledger-lsp/internal/analyzer"
	"github.com/juev/hledger-lsp/internal/formatter"
	"github.com/juev/hledger-lsp/internal/zzverif"
)

func hxSortedKeysInt(m map[string]int) []string {
	ks := make([]string, 0, len(m))
	for k := range m {
		ks = append(ks, k)
	}
	sort.Strings(ks)
	return ks
}

func hxSameStrings(a, b []string) bool {
	if len(a) != len(b) {
		return false
	}
	for i := range a {
		if a[i] != b[i] {
			return false
		}
	}
	return true
}

// hxRenderTemplates: an injective rendering for templates over the harness's alphabets
// (no field contains '|' or '\n'); string equality is one term, so no fork per field.
func hxRenderTemplates(ts []analyzer.PostingTemplate) string {
	s := ""
	for _, t := range ts {
		left := "R"
		if t.CommodityLeft {
			left = "L"
		}
		s += t.Account + "|" + t.Amount + "|" + t.Commodity + "|" + left + "\n"
	}
	return s
}

func hxSortedBoolKeys(m map[string]bool) []string {
	ks := make([]string, 0, len(m))
	for k, v := range m {
		if v {
			ks = append(ks, k)
		}
	}
	sort.Strings(ks)
	return ks
}

func hxMemberPaths(w *Workspace) []string {
	ks := make([]string, 0)
	for k := range w.index.fileIndexes {
		ks = append(ks, k)
	}
	sort.Strings(ks)
	return ks
}

func hxRenderFormats(m map[string]formatter.NumberFormat) []string {
	ks := make([]string, 0)
	for k := range m {
		ks = append(ks, k)
	}
	sort.Strings(ks)
	out := make([]string, 0, len(ks))
	for _, k := range ks {
		f := m[k]
		dec := "n"
		if f.HasDecimal {
			dec = "d"
		}
		out = append(out, k+"="+string(f.DecimalMark)+"/"+f.ThousandsSep+"/"+zzverif.Itoa(f.DecimalPlaces)+"/"+dec)
	}
	return out
}
