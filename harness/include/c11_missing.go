//go:build verif

package include

// C11 for the diagnostics part of a result: an include that cannot be read (the file does not
// exist) is reported at the directive that names it in the journal being loaded, whatever the
// loader has loaded before. The same missing file is named by two roots at different lines, or
// by one root before and after lines were inserted above the directive (only the root is
// invalidated); a shared loader must report like a fresh one every time.

import (
	"github.com/juev/hledger-lsp/internal/zzverif"
)

func init() {
	zzverif.Register("VerifC11Missing", VerifC11Missing)
}

func c11MissingRoot(pad int, payee string) string {
	s := ""
	for i := 0; i < pad; i++ {
		s += "; line " + zzverif.Itoa(i) + "\n"
	}
	return s + "include missing.journal\n2024-01-15 " + payee + "\n    a:b  1 USD\n    c:d\n"
}

func VerifC11Missing() {
	root := zzverif.Root()
	pa, pb := root+"/a.journal", root+"/b.journal"
	ka := zzverif.Choice("pad.a", 3)
	kb := zzverif.Choice("pad.b", 3)
	payee := "p" + string([]byte{zzverif.ByteIn("payee", zzverif.Lower)})
	ca, cb := c11MissingRoot(ka, payee), c11MissingRoot(kb, payee)
	zzverif.WriteFile(pa, ca)
	zzverif.WriteFile(pb, cb)
	shared := NewLoader()
	same := func(path, content string, step string) {
		fresh := NewLoader()
		var a, b *ResolvedJournal
		var ae, be []LoadError
		if zzverif.Choice("api."+step, 2) == 0 {
			a, ae = shared.Load(path)
			b, be = fresh.Load(path)
		} else {
			a, ae = shared.LoadFromContent(path, content)
			b, be = fresh.LoadFromContent(path, content)
		}
		code := zSameResult(a, ae, b, be)
		for k := 1; k < len(zDiffMsgs); k++ {
			zzverif.Assert(code != k, zDiffMsgs[k])
		}
		zzverif.Assert(len(be) == 1 && be[0].Kind == ErrorFileNotFound, "harness: the missing include is reported once")
	}
	same(pa, ca, "0")
	if zzverif.Choice("second", 2) == 0 {
		// another root names the same missing file at another line
		same(pb, cb, "1")
	} else {
		// the same root after lines were inserted above the directive; only the root is invalidated
		ca2 := c11MissingRoot(ka+1+kb, payee)
		zzverif.WriteFile(pa, ca2)
		shared.InvalidateFile(pa)
		same(pa, ca2, "1")
	}
	// and once the file exists (the missing path itself is invalidated) it is loaded
	zzverif.WriteFile(root+"/missing.journal", "2024-01-01 m\n    x:y  1 USD\n    z:w\n")
	shared.InvalidateFile(root + "/missing.journal")
	fresh := NewLoader()
	a, ae := shared.Load(pb)
	b, be := fresh.Load(pb)
	code := zSameResult(a, ae, b, be)
	for k := 1; k < len(zDiffMsgs); k++ {
		zzverif.Assert(code != k, zDiffMsgs[k])
	}
	zzverif.Assert(len(be) == 0, "harness: nothing is missing any more")
	zzverif.Reach("C11.missing.end")
}
