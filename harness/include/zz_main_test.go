//go:build verif

package include

import (
	"fmt"
	"os"
	"testing"

	"github.com/juev/hledger-lsp/internal/zzverif"
)

func TestVerifReplay(t *testing.T) {
	name := os.Getenv("VERIF_HARNESS")
	f := zzverif.Lookup(name)
	if f == nil {
		t.Fatalf("unknown harness %q", name)
	}
	verdict, detail := zzverif.RunHarness(f)
	fmt.Printf("VERDICT: %s %s\n", verdict, detail)
	zzverif.Cleanup()
}
