//go:build verif

package include

import (
	"github.com/juev/hledger-lsp/internal/zzverif"
)

func init() {
	zzverif.Register("VerifC10Probe", VerifC10Probe)
	zzverif.Register("VerifC10Graph", VerifC10Graph)
	zzverif.Register("VerifC10GraphFull", VerifC10GraphFull)
	zzverif.Register("VerifC10Kinds", VerifC10Kinds)
	zzverif.Register("VerifC10KindsFull", VerifC10KindsFull)
}

// class names of the known findings (see /verif/known/C10)
const (
	zClassDiamond   = "C10-second-path-reported-as-cycle"
	zClassNoRange   = "C10-depth-error-without-range"
	zClassCycleKind = "C10-depth-error-has-cycle-kind"
	zClassMiscount  = "C10-depth-guard-counts-visited-files"
)

// VerifC10Probe: how the parser reads the spellings used by the world model (engine vs native).
func VerifC10Probe() {
	w := zNewWorld(3)
	defer w.cleanup()
	w.slots[0] = [2]zSlot{{kind: zkAbs, tgt: 1}, {kind: zkHome}}
	w.slots[1] = [2]zSlot{{kind: zkGlobTail}, {kind: zkGlobAll}}
	w.slots[2] = [2]zSlot{{kind: zkDotRel, tgt: 0}, {kind: zkBig}}
	w.writeAll()
	l := NewLoader()
	res, errs := l.Load(w.path(0))
	zzverif.Observe("nfiles", len(res.Files))
	zzverif.Observe("order", len(res.FileOrder))
	for i, e := range errs {
		zzverif.Observe("err"+zzverif.Itoa(i), int(e.Kind)*1000+e.Range.Start.Line)
		zzverif.Observe("errmsg"+zzverif.Itoa(i), e.Message[:12])
	}
	for i, inc := range res.Primary.Includes {
		zzverif.Observe("inc"+zzverif.Itoa(i), len(inc.Path))
	}
	zzverif.Reach("C10.probe.end")
}

type zC10Cfg struct {
	n          int
	extra0     []int // slot 0 alphabet besides absent / relative targets
	extra1     []int // slot 1
	canonical  bool
	rootChoice bool
	homeBack   bool
	symPayee   bool
	symSize    bool
	warm       bool // the LoadFromContent resolution reuses the loader of the Load resolution
}

const zSmallMax = 1000

func verifC10(cfg zC10Cfg) {
	w := zNewWorld(cfg.n)
	defer w.cleanup()
	w.extra, w.canonical, w.homeBack = [2][]int{cfg.extra0, cfg.extra1}, cfg.canonical, cfg.homeBack
	root := 0
	if cfg.rootChoice {
		root = zzverif.Choice("root", cfg.n)
	}
	w.generate(root)
	if cfg.symPayee {
		for i := 0; i < w.n+2; i++ {
			if w.chosen[i] {
				w.payee[i] += string([]byte{zzverif.ByteIn("payee"+zzverif.Itoa(i), zzverif.Lower)})
			}
		}
	}
	w.writeAll()

	// symbolic limits. Both hang on ONE symbolic byte each, so that the engine decides the
	// loader's comparisons on the byte's domain instead of calling the solver:
	// MaxIncludeDepth = depth in 1..5; MaxFileSizeBytes = 1000 + 4*maxsize4 in 1000..2020
	// (the big file has 1024 bytes: refused for maxsize4 <= 5, loaded above).
	limit := int(zzverif.ByteIn("depth", "\x01\x02\x03\x04\x05"))
	maxSize := zSmallMax
	if cfg.symSize {
		maxSize = zSmallMax + 4*int(zzverif.Byte("maxsize4"))
	}
	for i := 0; i < w.n+1; i++ {
		zzverif.Assume(len(w.content(i)) <= zSmallMax) // ordinary files are below every size limit (never cut: they have < 200 bytes)
	}

	kn := &zKnown{
		diamond:   zzverif.Known(zClassDiamond),
		noRange:   zzverif.Known(zClassNoRange),
		cycleKind: zzverif.Known(zClassCycleKind),
		miscount:  zzverif.Known(zClassMiscount),
	}
	var l *Loader
	for api := 0; api < 2; api++ {
		// warm: the second resolution runs on the loader of the first one (its parse cache is
		// filled): the verdicts must not depend on what an earlier resolution left behind
		if api == 0 || !cfg.warm {
			l = NewLoader()
			l.SetLimits(Limits{MaxFileSizeBytes: int64(maxSize), MaxIncludeDepth: limit})
		}
		var res *ResolvedJournal
		var errs []LoadError
		if api == 0 {
			res, errs = l.Load(w.path(root))
		} else {
			res, errs = l.LoadFromContent(w.path(root), w.content(root))
		}
		strict := zResolve(w, root, true, limit, maxSize)
		if kn.miscount && zMiscount(w, strict, errs) {
			zzverif.Reach("kf:" + zClassMiscount)
			continue
		}
		code := zCompare(w, root, strict, res, errs, kn)
		if code != zOK {
			lenient := zResolve(w, root, false, limit, maxSize)
			if zCompare(w, root, lenient, res, errs, kn) == zOK {
				code = zOK
			}
		}
		for c := 1; c < len(zMsgs); c++ {
			zzverif.Assert(code != c, zMsgs[c])
		}
		zzverif.Assert(zPayeesOK(w, res), zMsgs[zBadContent])
		if api == 0 {
			zzverif.Observe("files", len(res.Files))
			zzverif.Observe("errors", len(errs))
			npe := 0
			for _, e := range errs {
				if e.Kind == ErrorParseError {
					npe++
				}
			}
			zzverif.Observe("parse-errors", npe)
			if strict.has(zeCycle) {
				zzverif.Reach("C10.cycle")
			}
			if strict.has(zeRevisit) {
				zzverif.Reach("C10.second-path")
			}
			if strict.has(zeTooDeep) {
				zzverif.Reach("C10.too-deep")
			}
			if strict.has(zeTooLarge) {
				zzverif.Reach("C10.too-large")
			}
			if strict.has(zeNotFound) {
				zzverif.Reach("C10.not-found")
			}
			if strict.has(zeEmptyGlob) {
				zzverif.Reach("C10.empty-glob")
			}
		}
	}
	if kn.usedDiamond {
		zzverif.Reach("kf:" + zClassDiamond)
	}
	if kn.usedNoRange {
		zzverif.Reach("kf:" + zClassNoRange)
	}
	if kn.usedCycleKind {
		zzverif.Reach("kf:" + zClassCycleKind)
	}
	zzverif.Reach("C10.end")
}

// Pure graph shapes: every rooted include graph on n files with out-degree <= 2 up to renaming
// (self-loops, cycles, diamonds, dangling targets), symbolic depth limit.
func VerifC10Graph() {
	verifC10(zC10Cfg{n: 3, extra0: []int{zkDangling}, extra1: []int{zkDangling}, canonical: true, symPayee: true, warm: true})
}

func VerifC10GraphFull() {
	verifC10(zC10Cfg{n: 4, extra0: []int{zkDangling}, extra1: []int{zkDangling}, canonical: true, symPayee: true, warm: true})
}

// All forms of naming a file, any root.
func VerifC10Kinds() {
	verifC10(zC10Cfg{n: 2, extra0: []int{zkDotRel, zkAbs, zkAbsDots, zkDangling, zkGlobAll, zkGlobTail, zkGlobNone, zkHome, zkBig}, extra1: []int{zkDangling, zkGlobAll}, rootChoice: true, homeBack: true, symSize: true})
}

func VerifC10KindsFull() {
	verifC10(zC10Cfg{n: 3, extra0: []int{zkAbs, zkAbsDots, zkDangling, zkGlobAll, zkGlobTail, zkGlobNone, zkHome, zkBig}, homeBack: true, symSize: true})
}
