//go:build verif

package include

import (
	"strings"

	"github.com/juev/hledger-lsp/internal/ast"
	"github.com/juev/hledger-lsp/internal/parser"
	"github.com/juev/hledger-lsp/internal/zzverif"
)

// ---------------------------------------------------------------------------
// World model shared by C10 and C11 (DESIGN 4.5): n journal files f0..f(n-1)
// under zzverif.Root(), one file in the home directory, one oversized file.
// Every file has two include slots; what a slot names is a case split.
// ---------------------------------------------------------------------------

// slot kinds
const (
	zkAbsent   = iota // no include directive (a comment line keeps the line numbering)
	zkRel             // include f<t>.journal
	zkDotRel          // include ./f<t>.journal
	zkAbs             // include <Root>/f<t>.journal
	zkDangling        // include nope.journal          (does not exist)
	zkGlobAll         // include f*.journal            (every f-file, the includer among the matches)
	zkGlobTail        // include f[1-9].journal        (every f-file but f0)
	zkGlobNone        // include g*.journal            (matches nothing)
	zkHome            // include ~/zzverif_h_<tag>.journal
	zkBig             // include big.journal           (size zBigSize: over or under the symbolic limit)
	zkAbsDots         // include <Root>/./sub/../f<t>.journal   (absolute, with "." and ".." segments)
)

const zBigSize = 1024

type zSlot struct {
	kind, tgt int
	off       bool // C11: the directive is currently commented out
}

// zWorld: nodes 0..n-1 are the f-files, node n is the home file, node n+1 the big file.
type zWorld struct {
	n      int
	root   string
	home   string
	slots  [][2]zSlot
	chosen []bool
	payee  []string
	broken []bool // C11: the file ends with a malformed posting
	// generation parameters
	extra     [2][]int // per slot: kinds offered besides absent / relative file targets
	canonical bool     // relative targets: only files already discovered, or the next fresh one
	fresh     int      // canonical: number of files discovered so far
	homeBack  bool     // the home file may include f0 by absolute path
	plain     bool     // only the f-files exist (no home file, no big file)
	// caches (invalidated by touch)
	paths    []string
	contents []string
	ranges   [][]ast.Range
	parsed   []bool
}

func zBase(p string) string {
	for i := len(p) - 1; i >= 0; i-- {
		if p[i] == '/' {
			return p[i+1:]
		}
	}
	return p
}

func zNewWorld(n int) *zWorld {
	w := &zWorld{n: n, root: zzverif.Root()}
	w.home = zzverif.Home() + "/zzverif_h_" + zBase(w.root) + ".journal"
	w.slots = make([][2]zSlot, n+2)
	w.chosen = make([]bool, n+2)
	w.payee = make([]string, n+2)
	w.broken = make([]bool, n+2)
	w.paths = make([]string, n+2)
	w.contents = make([]string, n+2)
	w.ranges = make([][]ast.Range, n+2)
	w.parsed = make([]bool, n+2)
	for i := range w.payee {
		w.payee[i] = "p" + zzverif.Itoa(i)
		w.paths[i] = w.mkPath(i)
	}
	return w
}

// touch: node's slots or payee changed.
func (w *zWorld) touch(node int) {
	w.contents[node] = ""
	w.parsed[node] = false
}

func (w *zWorld) path(node int) string { return w.paths[node] }

func (w *zWorld) mkPath(node int) string {
	switch {
	case node < w.n:
		return w.root + "/f" + zzverif.Itoa(node) + ".journal"
	case node == w.n:
		return w.home
	default:
		return w.root + "/big.journal"
	}
}

func (w *zWorld) nodeOf(path string) int {
	for i, p := range w.paths {
		if p == path {
			return i
		}
	}
	return -1
}

func (w *zWorld) size(node int) int {
	if node == w.n+1 {
		return zBigSize
	}
	return len(w.content(node))
}

// spelling of the slot's argument as written in the file
func (w *zWorld) spelling(sl zSlot) string {
	switch sl.kind {
	case zkRel:
		return "f" + zzverif.Itoa(sl.tgt) + ".journal"
	case zkDotRel:
		return "./f" + zzverif.Itoa(sl.tgt) + ".journal"
	case zkAbs:
		return w.path(sl.tgt)
	case zkAbsDots:
		return w.root + "/./sub/../f" + zzverif.Itoa(sl.tgt) + ".journal"
	case zkDangling:
		return "nope.journal"
	case zkGlobAll:
		return "f*.journal"
	case zkGlobTail:
		return "f[1-9].journal"
	case zkGlobNone:
		return "g*.journal"
	case zkHome:
		return "~/" + zBase(w.home)
	case zkBig:
		return "big.journal"
	}
	return ""
}

func zIsGlob(kind int) bool { return kind == zkGlobAll || kind == zkGlobTail || kind == zkGlobNone }

// targets: the paths the slot names, in the order in which they are to be included
// (glob: lexical order, never the including file itself).
func (w *zWorld) targets(node, s int) []string {
	sl := w.slots[node][s]
	if sl.off {
		return nil
	}
	switch sl.kind {
	case zkRel, zkDotRel, zkAbs, zkAbsDots:
		return []string{w.path(sl.tgt)}
	case zkDangling:
		return []string{w.root + "/nope.journal"}
	case zkGlobAll, zkGlobTail:
		var out []string
		lo := 0
		if sl.kind == zkGlobTail {
			lo = 1
		}
		for j := lo; j < w.n; j++ {
			if j != node {
				out = append(out, w.path(j))
			}
		}
		return out
	case zkHome:
		return []string{w.home}
	case zkBig:
		return []string{w.path(w.n + 1)}
	}
	return nil
}

// slotLine: 1-based line of slot s in node's file. Files are padded with 2*node comment
// lines so that no two include directives of the world share a range.
func (w *zWorld) slotLine(node, s int) int { return 2*node + s + 1 }

func (w *zWorld) content(node int) string {
	if w.contents[node] == "" {
		w.contents[node] = w.mkContent(node)
	}
	return w.contents[node]
}

func (w *zWorld) mkContent(node int) string {
	var sb strings.Builder
	for k := 0; k < 2*node; k++ {
		sb.WriteString(";\n")
	}
	for s := 0; s < 2; s++ {
		sl := w.slots[node][s]
		if sl.kind == zkAbsent {
			sb.WriteString("; -\n")
		} else if sl.off {
			sb.WriteString("; include " + w.spelling(sl) + "\n")
		} else {
			sb.WriteString("include " + w.spelling(sl) + "\n")
		}
	}
	sb.WriteString("2024-01-01 " + w.payee[node] + "\n    a:b  1\n    c:d\n")
	if w.broken[node] {
		// a posting the parser rejects ("expected account name"): the file then carries parse errors
		sb.WriteString("2024-01-02 z\n    a  1\n")
	}
	return sb.String()
}

func (w *zWorld) writeNode(node int) {
	c := w.content(node)
	if node == w.n+1 {
		if (zBigSize-len(c))%2 != 0 {
			c += "\n" // native padding is two bytes at a time
		}
		zzverif.WriteFileSized(w.path(node), c, zBigSize)
		return
	}
	zzverif.WriteFile(w.path(node), c)
}

func (w *zWorld) writeAll() {
	hi := w.n + 2
	if w.plain {
		hi = w.n
	}
	for i := 0; i < hi; i++ {
		w.writeNode(i)
	}
}

func (w *zWorld) cleanup() {
	if !w.plain {
		zzverif.RemoveFile(w.home)
	}
}

// ---- lazy generation: only the slots of files reachable from the roots are case-split ----

func (w *zWorld) chooseSlot(name string, node, s int) zSlot {
	type opt = zSlot
	opts := []opt{{kind: zkAbsent}}
	if node < w.n {
		hi := w.n
		if w.canonical && w.fresh+1 < hi {
			hi = w.fresh + 1
		}
		for t := 0; t < hi; t++ {
			opts = append(opts, opt{kind: zkRel, tgt: t})
		}
		for _, k := range w.extra[s] {
			switch k {
			case zkDotRel, zkAbs, zkAbsDots:
				// alternative spellings name the cyclic successor of the includer
				opts = append(opts, opt{kind: k, tgt: (node + 1) % w.n})
			default:
				opts = append(opts, opt{kind: k})
			}
		}
	} else if node == w.n && s == 0 && w.homeBack {
		opts = append(opts, opt{kind: zkAbs, tgt: 0})
	}
	if len(opts) == 1 {
		return opts[0]
	}
	sl := opts[zzverif.Choice(name, len(opts))]
	if w.canonical && sl.kind == zkRel && sl.tgt == w.fresh {
		w.fresh++
	}
	return sl
}

// generate chooses, depth first, the slots of every not yet chosen file reachable from node.
func (w *zWorld) generate(node int) {
	w.generate1(node, make([]bool, w.n+2))
}

func (w *zWorld) generate1(node int, seen []bool) {
	if seen[node] {
		return
	}
	seen[node] = true
	if !w.chosen[node] {
		w.chosen[node] = true
		if w.canonical && node < w.n && node >= w.fresh {
			w.fresh = node + 1
		}
		if node != w.n+1 {
			for s := 0; s < 2; s++ {
				w.slots[node][s] = w.chooseSlot("n"+zzverif.Itoa(node)+".s"+zzverif.Itoa(s), node, s)
			}
			w.touch(node)
		}
	}
	for s := 0; s < 2; s++ {
		for _, t := range w.targets(node, s) {
			if ti := w.nodeOf(t); ti >= 0 {
				w.generate1(ti, seen)
			}
		}
	}
}

// pickFile: a case split over the f-files; in canonical mode over the files discovered so
// far and the next fresh one (files never mentioned before are interchangeable).
func (w *zWorld) pickFile(name string) int {
	hi := w.n
	if w.canonical && w.fresh+1 < hi {
		hi = w.fresh + 1
	}
	t := 0
	if hi > 1 {
		t = zzverif.Choice(name, hi)
	}
	if w.canonical && t == w.fresh {
		w.fresh++
	}
	return t
}

// ---------------------------------------------------------------------------
// Reference resolver (DESIGN C10): DFS with an ancestor stack and a loaded set.
// ---------------------------------------------------------------------------

const (
	zeCycle = iota
	zeNotFound
	zeTooLarge
	zeTooDeep
	zeRevisit   // second acyclic path to a loaded file: must NOT be an error
	zeEmptyGlob // glob without matches: an error on the directive is tolerated, not required
	zeFailDeep  // missing or oversized AND too deep: the property does not say which report wins
)

type zEvent struct {
	kind       int
	node, slot int
	path       string
}

type zRef struct {
	w       *zWorld
	strict  bool // depth convention: strict refuses depth >= limit, lenient refuses depth > limit
	limit   int
	maxSize int
	loaded  []bool
	order   []string
	events  []zEvent
}

func zInStack(stack []int, x int) bool {
	for _, y := range stack {
		if y == x {
			return true
		}
	}
	return false
}

func (r *zRef) visit(f int, stack []int) {
	for s := 0; s < 2; s++ {
		ts := r.w.targets(f, s)
		sl := r.w.slots[f][s]
		if len(ts) == 0 && !sl.off && zIsGlob(sl.kind) {
			r.events = append(r.events, zEvent{zeEmptyGlob, f, s, ""})
		}
		for _, t := range ts {
			ti := r.w.nodeOf(t)
			if ti >= 0 && zInStack(stack, ti) {
				r.events = append(r.events, zEvent{zeCycle, f, s, t})
				continue
			}
			if ti >= 0 && r.loaded[ti] {
				r.events = append(r.events, zEvent{zeRevisit, f, s, t})
				continue
			}
			depth := len(stack) // nesting depth of t; the root has depth 0
			tooDeep := (r.strict && depth >= r.limit) || (!r.strict && depth > r.limit)
			if ti < 0 || r.w.size(ti) > r.maxSize {
				kind := zeNotFound
				if ti >= 0 {
					kind = zeTooLarge
				}
				if tooDeep {
					kind = zeFailDeep
				}
				r.events = append(r.events, zEvent{kind, f, s, t})
				continue
			}
			if tooDeep {
				r.events = append(r.events, zEvent{zeTooDeep, f, s, t})
				continue
			}
			r.loaded[ti] = true
			r.order = append(r.order, t)
			r.visit(ti, append(stack, ti))
		}
	}
}

func zResolve(w *zWorld, root int, strict bool, limit, maxSize int) *zRef {
	r := &zRef{w: w, strict: strict, limit: limit, maxSize: maxSize, loaded: make([]bool, w.n+2)}
	r.visit(root, []int{root})
	return r
}

func (r *zRef) has(kind int) bool {
	for _, e := range r.events {
		if e.kind == kind {
			return true
		}
	}
	return false
}

// ---------------------------------------------------------------------------
// Comparison of a loader result with the reference.
// ---------------------------------------------------------------------------

const (
	zOK = iota
	zNoResult
	zBadFiles
	zBadOrder
	zBadContent
	zMissingCycle
	zMissingFailure
	zSpuriousCycle
	zExtraError
)

var zMsgs = []string{
	zOK:             "",
	zNoResult:       "loading an existing root of admissible size returned no result",
	zBadFiles:       "Files + root differs from the set of files reachable through include directives",
	zBadOrder:       "FileOrder does not list every loaded file exactly once",
	zBadContent:     "a journal in Files is not the parse of the file it is keyed by",
	zMissingCycle:   "no cycle error on an include directive that re-enters a file currently being included",
	zMissingFailure: "a missing, oversized or too-deep include is not reported exactly once, with a matching kind, on the directive that names it",
	zSpuriousCycle:  "cycle error on an include directive that does not re-enter a file currently being included",
	zExtraError:     "load error that corresponds to no failed include directive",
}

const zDepthMsg = "include depth limit exceeded"

func zIsDepthMsg(e LoadError) bool { return strings.HasPrefix(e.Message, zDepthMsg) }

// directive range of (node, slot): the range the parser assigns to that include directive.
func (w *zWorld) slotRange(node, s int) ast.Range {
	if !w.parsed[node] {
		j, _ := parser.Parse(w.content(node))
		w.ranges[node] = nil
		for _, inc := range j.Includes {
			w.ranges[node] = append(w.ranges[node], inc.Range)
		}
		w.parsed[node] = true
	}
	rs := w.ranges[node]
	k := 0
	if s == 1 && w.slots[node][0].kind != zkAbsent && !w.slots[node][0].off {
		k = 1
	}
	if k >= len(rs) {
		return ast.Range{}
	}
	return rs[k]
}

func zContains(xs []string, x string) bool {
	for _, y := range xs {
		if y == x {
			return true
		}
	}
	return false
}

// zKinds: which known-finding classes are switched on (zzverif.Known), and which were used.
type zKnown struct {
	diamond, noRange, cycleKind, miscount   bool
	usedDiamond, usedNoRange, usedCycleKind bool
}

// zKindOK: does error e report an event of kind ev? A "cycle diagnostic" is what the user
// sees as one: kind ErrorCycleDetected whose text is not the depth-limit message (the
// repository has no dedicated kind for "too deep": its own test suite pins
// ErrorCycleDetected + "include depth limit exceeded" for it, and the property does not
// prescribe a kind for too-deep includes).
func zKindOK(ev int, e LoadError) bool {
	k := e.Kind
	switch ev {
	case zeCycle:
		return k == ErrorCycleDetected && !zIsDepthMsg(e)
	case zeNotFound:
		return k == ErrorFileNotFound || k == ErrorReadError
	case zeTooLarge:
		return k == ErrorFileTooLarge
	case zeTooDeep:
		// no dedicated kind is documented; it must be recognisable as a depth report
		return k != ErrorParseError && (k != ErrorCycleDetected || zIsDepthMsg(e))
	case zeFailDeep:
		return k == ErrorFileNotFound || k == ErrorReadError || k == ErrorFileTooLarge || (k == ErrorCycleDetected && zIsDepthMsg(e))
	}
	return false
}

// zCompare returns zOK or the first aspect in which (res, errs) deviates from the reference.
func zCompare(w *zWorld, root int, ref *zRef, res *ResolvedJournal, errs []LoadError, kn *zKnown) int {
	if res == nil || res.Primary == nil {
		return zNoResult
	}
	rootPath := w.path(root)
	// Files + root == reachable set
	for p := range res.Files {
		if p != rootPath && !zContains(ref.order, p) {
			return zBadFiles
		}
	}
	for _, p := range ref.order {
		if res.Files[p] == nil {
			return zBadFiles
		}
	}
	// each once in FileOrder
	for i, p := range res.FileOrder {
		if _, ok := res.Files[p]; !ok {
			return zBadOrder
		}
		for k := 0; k < i; k++ {
			if res.FileOrder[k] == p {
				return zBadOrder
			}
		}
	}
	for p := range res.Files {
		if !zContains(res.FileOrder, p) {
			return zBadOrder
		}
	}
	// errors. Reference events are grouped per (directive, kind): a glob directive may fail on
	// several of its matches; the property asks for the report on the directive, so one error
	// per group is required and up to one per event is allowed.
	used := make([]bool, len(errs))
	find := func(ok func(e LoadError) bool) bool {
		for i, e := range errs {
			if !used[i] && ok(e) {
				used[i] = true
				return true
			}
		}
		return false
	}
	done := make([]bool, len(ref.events))
	for i, ev := range ref.events {
		if done[i] {
			continue
		}
		var paths []string
		for k := i; k < len(ref.events); k++ {
			o := ref.events[k]
			if !done[k] && o.kind == ev.kind && o.node == ev.node && o.slot == ev.slot {
				done[k] = true
				paths = append(paths, o.path)
			}
		}
		rng := w.slotRange(ev.node, ev.slot)
		switch ev.kind {
		case zeCycle, zeNotFound, zeTooLarge, zeTooDeep, zeFailDeep:
			hits := 0
			for range paths {
				hit := find(func(e LoadError) bool { return e.Range == rng && zContains(paths, e.Path) && zKindOK(ev.kind, e) })
				if !hit && ev.kind == zeTooDeep && (kn.noRange || kn.cycleKind) {
					// known findings: the depth error carries no range / is of the cycle kind
					hit = find(func(e LoadError) bool {
						if !zContains(paths, e.Path) {
							return false
						}
						unranged := e.Range != rng && e.Range == ast.Range{}
						cyc := e.Kind == ErrorCycleDetected && zIsDepthMsg(e)
						if (e.Range == rng || (kn.noRange && unranged)) && (zKindOK(ev.kind, e) || (kn.cycleKind && cyc)) {
							kn.usedNoRange = kn.usedNoRange || unranged
							kn.usedCycleKind = kn.usedCycleKind || cyc
							return true
						}
						return false
					})
				}
				if hit {
					hits++
				}
			}
			if hits == 0 {
				if ev.kind == zeCycle {
					return zMissingCycle
				}
				return zMissingFailure
			}
		case zeEmptyGlob:
			find(func(e LoadError) bool { return e.Range == rng && e.Kind == ErrorFileNotFound })
		case zeRevisit:
			if kn.diamond {
				for range paths {
					if find(func(e LoadError) bool {
						return e.Range == rng && zContains(paths, e.Path) && e.Kind == ErrorCycleDetected && !zIsDepthMsg(e)
					}) {
						kn.usedDiamond = true
					}
				}
			}
		}
	}
	for i, e := range errs {
		if used[i] || e.Kind == ErrorParseError {
			continue
		}
		if e.Kind == ErrorCycleDetected && !zIsDepthMsg(e) {
			return zSpuriousCycle
		}
		return zExtraError
	}
	// content: the journal under key p is the parse of p
	for p, j := range res.Files {
		ni := w.nodeOf(p)
		if ni < 0 || j == nil || len(j.Transactions) != 1 || len(j.Transactions[0].Postings) != 2 {
			return zBadContent
		}
	}
	return zOK
}

// zPayeesOK: a single term stating that every loaded journal carries the payee of its file.
func zPayeesOK(w *zWorld, res *ResolvedJournal) bool {
	ok := true
	for p, j := range res.Files {
		ni := w.nodeOf(p)
		if ni < 0 || j == nil || len(j.Transactions) != 1 {
			return false
		}
		ok = ok && j.Transactions[0].Description == w.payee[ni]
	}
	return ok
}

// zMiscount: class predicate of "depth guard counts visited files": the loader refused, with
// its depth message, more inclusions of some file than even the strict depth convention does.
func zMiscount(w *zWorld, strictRef *zRef, errs []LoadError) bool {
	for i := 0; i < w.n+2; i++ {
		p := w.path(i)
		got, want := 0, 0
		for _, e := range errs {
			if e.Path == p && zIsDepthMsg(e) {
				got++
			}
		}
		for _, ev := range strictRef.events {
			if ev.kind == zeTooDeep && ev.path == p {
				want++
			}
		}
		if got > want {
			return true
		}
	}
	return false
}

// zGlobHistory (VerifC10Glob, VerifC11Glob): a glob include is expanded against the disk of the moment: a file created
// (or removed) after an earlier resolution is seen by the next one, with or without the
// invalidation the server issues for it. Shared loader against a fresh one.
func zGlobHistory(label string) {
	root := zzverif.Root()
	pr := root + "/main.journal"
	pat := []string{"*.journal", "sub/*.journal", "**/*.journal"}[zzverif.Choice("pattern", 3)]
	dir := root + "/"
	if pat != "*.journal" {
		dir = root + "/sub/"
	}
	payee := "p" + string([]byte{zzverif.ByteIn("payee", zzverif.Lower)})
	tx := func(n string) string { return "2024-01-15 " + payee + n + "\n    a:b  1 USD\n    c:d\n" }
	cr := "include " + pat + "\n" + tx("r")
	zzverif.WriteFile(pr, cr)
	zzverif.WriteFile(dir+"a.journal", tx("a"))
	shared := NewLoader()
	same := func(step string) {
		fresh := NewLoader()
		var a, b *ResolvedJournal
		var ae, be []LoadError
		if zzverif.Choice("api."+step, 2) == 0 {
			a, ae = shared.Load(pr)
			b, be = fresh.Load(pr)
		} else {
			a, ae = shared.LoadFromContent(pr, cr)
			b, be = fresh.LoadFromContent(pr, cr)
		}
		code := zSameResult(a, ae, b, be)
		for k := 1; k < len(zDiffMsgs); k++ {
			zzverif.Assert(code != k, zDiffMsgs[k])
		}
		zzverif.Assert(zSameContent(a, b), "shared loader and fresh loader yield different contents for a file")
		zzverif.Observe("files."+step, len(b.Files))
	}
	same("0")
	// a second file that matches the pattern appears
	zzverif.WriteFile(dir+"b.journal", tx("b"))
	if zzverif.Choice("invalidate", 2) == 1 {
		shared.InvalidateFile(dir + "b.journal")
	}
	same("1")
	zzverif.Reach(label)
}

func VerifC10Glob() { zGlobHistory("C10.glob.end") }
func VerifC11Glob() { zGlobHistory("C11.glob.end") }

func init() {
	zzverif.Register("VerifC10Glob", VerifC10Glob)
	zzverif.Register("VerifC11Glob", VerifC11Glob)
}
