//go:build verif

package include

import (
	"github.com/juev/hledger-lsp/internal/ast"
	"github.com/juev/hledger-lsp/internal/zzverif"
)

func init() {
	zzverif.Register("VerifC11Seq", VerifC11Seq)
	zzverif.Register("VerifC11Seq2", VerifC11Seq2)
	zzverif.Register("VerifC11SeqFull", VerifC11SeqFull)
	zzverif.Register("VerifC11Seq4", VerifC11Seq4)
	zzverif.Register("VerifC11State", VerifC11State)
	zzverif.Register("VerifC11StateFull", VerifC11StateFull)
}

const zClassCacheHit = "C11-cache-hit-skips-include-resolution"

// operations on the shared loader
const (
	zoLoad   = iota // Load(f_a)
	zoLFC           // LoadFromContent(f_a, current content of f_a)
	zoToggle        // edit f_a: switch include slot b on/off, then InvalidateFile(f_a)
	zoPayee         // edit f_a: new payee, then InvalidateFile(f_a)
	zoClear         // ClearCache
)

type zOp struct{ kind, slot int }

var (
	zOpsLoad  = []zOp{{zoLoad, 0}}
	zOpsLoads = []zOp{{zoLoad, 0}, {zoLFC, 0}}
	zOpsMid   = []zOp{{zoLoad, 0}, {zoToggle, 0}, {zoToggle, 1}, {zoPayee, 0}, {zoClear, 0}}
	zOpsAll   = []zOp{{zoLoad, 0}, {zoLFC, 0}, {zoToggle, 0}, {zoToggle, 1}, {zoPayee, 0}, {zoClear, 0}}
)

// fingerprint of a journal: what C11 calls the file's contents (transactions with their
// descriptions, include directives with path and range). One string, so that comparing two
// journals is a single term.
func zFingerprint(j *ast.Journal) string {
	if j == nil {
		return "<nil>"
	}
	s := zzverif.Itoa(len(j.Transactions)) + "t"
	for _, t := range j.Transactions {
		s += "|" + t.Description + "|" + zzverif.Itoa(len(t.Postings))
	}
	for _, inc := range j.Includes {
		s += "|i:" + inc.Path + "@" + zzverif.Itoa(inc.Range.Start.Line) + ":" + zzverif.Itoa(inc.Range.Start.Column) +
			"-" + zzverif.Itoa(inc.Range.End.Line) + ":" + zzverif.Itoa(inc.Range.End.Column)
	}
	return s
}

const (
	zSame = iota
	zDiffNil
	zDiffFiles
	zDiffOrder
	zDiffErrors
)

var zDiffMsgs = []string{
	zSame:       "",
	zDiffNil:    "shared loader and fresh loader disagree on whether the root can be loaded",
	zDiffFiles:  "shared loader and fresh loader yield different sets of files",
	zDiffOrder:  "shared loader and fresh loader yield different file orders",
	zDiffErrors: "shared loader and fresh loader report different load errors (kind, path, range)",
}

// zSameResult compares structure (concrete per path); contents are compared by zSameContent.
func zSameResult(a *ResolvedJournal, ae []LoadError, b *ResolvedJournal, be []LoadError) int {
	if (a == nil) != (b == nil) {
		return zDiffNil
	}
	if a != nil {
		if len(a.Files) != len(b.Files) {
			return zDiffFiles
		}
		for p := range a.Files {
			if _, ok := b.Files[p]; !ok {
				return zDiffFiles
			}
		}
		if len(a.FileOrder) != len(b.FileOrder) {
			return zDiffOrder
		}
		for i := range a.FileOrder {
			if a.FileOrder[i] != b.FileOrder[i] {
				return zDiffOrder
			}
		}
	}
	// multiset of (kind, path, range)
	if len(ae) != len(be) {
		return zDiffErrors
	}
	used := make([]bool, len(be))
	for _, x := range ae {
		found := false
		for i, y := range be {
			if !used[i] && x.Kind == y.Kind && x.Path == y.Path && x.Range == y.Range {
				used[i] = true
				found = true
				break
			}
		}
		if !found {
			return zDiffErrors
		}
	}
	return zSame
}

// zSameContent: one boolean term: primary and every file have equal fingerprints.
func zSameContent(a, b *ResolvedJournal) bool {
	if a == nil || b == nil {
		return true
	}
	fa, fb := zFingerprint(a.Primary), zFingerprint(b.Primary)
	for _, p := range b.FileOrder {
		fa += "#" + zFingerprint(a.Files[p])
		fb += "#" + zFingerprint(b.Files[p])
	}
	return fa == fb
}

type zC11 struct {
	w      *zWorld
	shared *Loader
	cached []bool // harness's model of which f-files the shared loader may hold in its cache
	known  bool
	hits   bool
}

func (c *zC11) hasIncludes(node int) bool {
	return len(c.w.targets(node, 0))+len(c.w.targets(node, 1)) > 0
}

// shortCircuit is the class predicate of C11-cache-hit-skips-include-resolution: the load from
// root reaches a file the shared loader may hold in its cache, and that file either has include
// directives of its own (which the cache-hit branch does not follow), or is reached more than
// once (the cache-hit branch does not record the visit), or has parse errors (which the
// cache-hit branch does not report again).
func (c *zC11) shortCircuit(root int) bool {
	ref := zResolve(c.w, root, true, defaultMaxIncludeDepth, defaultMaxFileSizeBytes)
	for i := 0; i < c.w.n; i++ {
		if !c.cached[i] || !ref.loaded[i] {
			continue
		}
		if c.hasIncludes(i) || c.w.broken[i] {
			return true
		}
		for _, ev := range ref.events {
			if (ev.kind == zeRevisit || ev.kind == zeCycle) && ev.path == c.w.path(i) {
				return true
			}
		}
	}
	return false
}

// load performs the load on the shared loader and on a fresh one and compares.
func (c *zC11) load(kind, root int) {
	w := c.w
	w.generate(root)
	w.writeAll()
	fresh := NewLoader()
	var a, b *ResolvedJournal
	var ae, be []LoadError
	if kind == zoLoad {
		a, ae = c.shared.Load(w.path(root))
		b, be = fresh.Load(w.path(root))
	} else {
		a, ae = c.shared.LoadFromContent(w.path(root), w.content(root))
		b, be = fresh.LoadFromContent(w.path(root), w.content(root))
	}
	hit := false
	if b != nil {
		for p := range b.Files {
			if ni := w.nodeOf(p); ni >= 0 && ni < w.n && c.cached[ni] {
				hit = true
			}
		}
	}
	if c.known && c.shortCircuit(root) {
		zzverif.Reach("kf:" + zClassCacheHit)
	} else {
		code := zSameResult(a, ae, b, be)
		for k := 1; k < len(zDiffMsgs); k++ {
			zzverif.Assert(code != k, zDiffMsgs[k])
		}
		zzverif.Assert(zSameContent(a, b), "shared loader and fresh loader yield different contents for a file")
		if hit {
			c.hits = true
		}
	}
	// whatever the shared loader returned may now be in its cache
	if a != nil {
		for p := range a.Files {
			if ni := w.nodeOf(p); ni >= 0 && ni < w.n {
				c.cached[ni] = true
			}
		}
	}
	if b != nil {
		for p := range b.Files {
			if ni := w.nodeOf(p); ni >= 0 && ni < w.n {
				c.cached[ni] = true
			}
		}
	}
}

func (c *zC11) apply(name string, op zOp) {
	w := c.w
	switch op.kind {
	case zoLoad, zoLFC:
		c.load(op.kind, w.pickFile(name+".f"))
	case zoToggle:
		j := w.pickFile(name + ".f")
		w.generate(j)
		sl := &w.slots[j][op.slot]
		if sl.kind == zkAbsent {
			*sl = zSlot{kind: zkRel, tgt: w.pickFile(name + ".tgt")}
		} else {
			sl.off = !sl.off
		}
		w.touch(j)
		w.writeAll()
		c.shared.InvalidateFile(w.path(j))
		c.cached[j] = false
	case zoPayee:
		j := w.pickFile(name + ".f")
		w.generate(j)
		w.payee[j] = "q" + zzverif.Itoa(j) + string([]byte{zzverif.ByteIn(name+".payee", zzverif.Lower)})
		w.touch(j)
		w.writeAll()
		c.shared.InvalidateFile(w.path(j))
		c.cached[j] = false
	case zoClear:
		c.shared.ClearCache()
		for i := range c.cached {
			c.cached[i] = false
		}
	}
}

func zNewC11(n int) *zC11 {
	w := zNewWorld(n)
	w.plain, w.canonical = true, true
	for i := 0; i < n; i++ {
		w.payee[i] += string([]byte{zzverif.ByteIn("payee"+zzverif.Itoa(i), zzverif.Lower)})
	}
	return &zC11{w: w, shared: NewLoader(), cached: make([]bool, n), known: zzverif.Known(zClassCacheHit)}
}

// verifC11Seq: a sequence of operations, position k drawn from alphabets[k].
func verifC11Seq(n int, alphabets [][]zOp) {
	c := zNewC11(n)
	for k, alpha := range alphabets {
		op := alpha[0]
		if len(alpha) > 1 {
			op = alpha[zzverif.Choice("op"+zzverif.Itoa(k), len(alpha))]
		}
		c.apply("op"+zzverif.Itoa(k), op)
	}
	if c.hits {
		zzverif.Reach("C11.compared-after-cache-hit")
	}
	zzverif.Reach("C11.end")
}

// Sequences always start with a load (operations on an empty cache change nothing but the
// files) and end with a load (only loads are observable).

// quick: Load(f0); any operation; Load or LoadFromContent of any file. 3 files.
func VerifC11Seq() { verifC11Seq(3, [][]zOp{zOpsLoad, zOpsMid, zOpsLoads}) }

// quick: the same on two files.
func VerifC11Seq2() { verifC11Seq(2, [][]zOp{zOpsLoad, zOpsMid, zOpsLoads}) }

// thorough: the same with both load forms in every position,
func VerifC11SeqFull() { verifC11Seq(3, [][]zOp{zOpsLoads, zOpsAll, zOpsLoads}) }

// and four operations on two files.
func VerifC11Seq4() { verifC11Seq(2, [][]zOp{zOpsLoads, zOpsAll, zOpsAll, zOpsLoads}) }

// verifC11State is the one-step (inductive) form: from EVERY cache state that is consistent
// with the files (each subset of the files cached, each entry the parse of the current
// content -- the only states loads, invalidations and ClearCache can produce), one load gives
// what a fresh loader gives. The state is built through the public API only.
func verifC11State(n int) {
	c := zNewC11(n)
	w := c.w
	if b := zzverif.Choice("broken", n+1); b < n {
		w.broken[b] = true
	}
	for i := 0; i < n; i++ {
		w.generate(i)
	}
	w.writeAll()
	for i := 0; i < n; i++ {
		// including f_i directly from a scratch root puts f_i into the cache
		c.shared.LoadFromContent(w.root+"/zzscratch.journal", "include f"+zzverif.Itoa(i)+".journal\n")
	}
	for i := 0; i < n; i++ {
		if zzverif.Choice("cached"+zzverif.Itoa(i), 2) == 0 {
			c.shared.InvalidateFile(w.path(i))
		} else {
			c.cached[i] = true
		}
	}
	root := zzverif.Choice("root", n)
	c.load(zzverif.Choice("api", 2), root)
	if c.hits {
		zzverif.Reach("C11.compared-after-cache-hit")
	}
	zzverif.Reach("C11.end")
}

func VerifC11State()     { verifC11State(2) }
func VerifC11StateFull() { verifC11State(3) }
