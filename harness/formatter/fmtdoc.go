//go:build verif

package formatter

// Shared part of the C04 / C05 document-level harnesses: the derivation model of a journal of
// grammar G (DESIGN §4.2), the reference LSP edit applier (§4.4), the range validator (§4.6),
// the comparison of two syntax trees by meaning, and the two checkers.

import (
	"strings"

	"go.lsp.dev/protocol"

	"github.com/juev/hledger-lsp/internal/ast"
	"github.com/juev/hledger-lsp/internal/parser"
	"github.com/juev/hledger-lsp/internal/zzverif"
)

// ---------------------------------------------------------------- derivation

// fNum: the digits of one amount that a declared display format applies to.
type fNum struct {
	ip   string // integer digits as written, group marks removed
	frac string // fraction digits as written
}

// fLine is one line of the derivation (text without the line terminator).
type fLine struct {
	text string
	// posting lines only
	posting   bool
	acctDisp  string // account as displayed, including ( ) or [ ]
	status    bool   // has a status mark
	hasAmount bool
	semi      bool   // has an inline comment marker ';'
	comment   bool   // carries a non-empty inline comment
	quoted    bool   // an amount on the line has a quoted commodity that cannot be read back without its quotes
	junk      string // injected tail that is no construct of G (C04 c), "" if none
	lowerTail bool   // an amount whose right-hand commodity is not an upper-case code is followed by a cost or an assertion
	tabTail   bool   // no inline comment and the trailing blanks contain a tab
	nums      []fNum // the amounts on the line that the declared display format applies to
}

// addTrail appends trailing blanks to the line.
func (l *fLine) addTrail(trail string) {
	if trail == "" {
		return
	}
	l.text += trail
	if !l.posting {
		return
	}
	if l.semi {
		// the blanks belong to the comment
		l.comment = true
	} else if strings.Contains(trail, "\t") {
		l.tabTail = true
	}
}

type fDoc struct {
	lines    []fLine
	eol      string // "\n" or "\r\n"
	finalEOL bool
	// declared display format (commodity / D directive or workspace): decimal mark (0: a format
	// without decimal mark), group mark, decimal places (0 for a format without decimal mark)
	fmtOn     bool
	fmtDM     byte
	fmtSep    string
	fmtPlaces int
}

// crlf: line i is terminated by CR LF.
func (d *fDoc) crlf(i int) bool {
	return d.eol == "\r\n" && (i < len(d.lines)-1 || d.finalEOL)
}

func fZeros(n int) string { return strings.Repeat("0", n) }

// fLossyNum: the number carries more significant decimals than the format shows.
func fLossyNum(frac string, places int) bool {
	return len(frac) > places && frac[places:] != fZeros(len(frac)-places)
}

// fThousandNum: the number ip.frac, shown with exactly three decimals under a format with group
// mark sep, is written with exactly one mark ('.' or ','), three digits after it and a non-zero
// integer part ("1.500", "-12,345", "1 234,500"). The project's parser reads such a number as an
// integer with a thousands mark (parser.normalizeNumber, pinned by the repository's
// Test_normalizeNumber), so the value comes back multiplied by 1000. Defined over the digits as
// written: rounding half away from zero to three decimals carries into the integer part iff
// the fraction starts with 999 followed by a digit >= 5.
func fThousandNum(ip, frac, sep string) bool {
	carry := len(frac) > 3 && frac[:3] == "999" && frac[3] >= '5'
	if ip == fZeros(len(ip)) && !carry {
		return false // 0.ddd is read as a decimal
	}
	if sep == "" || sep == " " {
		return true // no second mark can appear
	}
	n := len(ip)
	big := (n > 3 && ip[:n-3] != fZeros(n-3)) || (carry && n >= 3 && ip[n-3:] == "999")
	return !big // from 1000 on a group mark appears besides the decimal mark
}

// fLossy: some amount that the declared display format applies to carries more significant
// decimals than the format shows.
func (d *fDoc) fLossy() bool {
	if !d.fmtOn {
		return false
	}
	r := false
	for i := range d.lines {
		for _, n := range d.lines[i].nums {
			if fLossyNum(n.frac, d.fmtPlaces) {
				r = true
			}
		}
	}
	return r
}

// fThousand: the declared display format has exactly three decimals and some amount it applies
// to is rendered in the shape that the parser reads as an integer with a thousands mark.
func (d *fDoc) fThousand() bool {
	if !d.fmtOn || d.fmtDM == 0 || d.fmtPlaces != 3 {
		return false
	}
	r := false
	for i := range d.lines {
		for _, n := range d.lines[i].nums {
			if fThousandNum(n.ip, n.frac, d.fmtSep) {
				r = true
			}
		}
	}
	return r
}

// cutsPostings: a posting line that the parser rejects in part (f) is followed by another
// posting line of the same transaction. The parser drops the rest of a transaction after a
// syntax error, so those postings are invisible to the formatter until the error is gone.
func (d *fDoc) cutsPostings(f func(i int) bool) bool {
	for i := range d.lines {
		if !d.lines[i].posting || !f(i) {
			continue
		}
		for k := i + 1; k < len(d.lines); k++ {
			t := d.lines[k].text
			if t == "" || !fIsBlank(t[0]) {
				break
			}
			if d.lines[k].posting {
				return true
			}
		}
	}
	return false
}

func fRejTail(l *fLine) bool { return l.junk != "" || l.lowerTail }

// tabTailAt: posting line i has no inline comment, its trailing blanks contain a tab, and it does
// not end in CR LF (there the parser rejects the CR before and after formatting alike).
func (d *fDoc) tabTailAt(i int) bool { return d.lines[i].tabTail }

func (d *fDoc) add(l fLine) { d.lines = append(d.lines, l) }

func (d *fDoc) plain(text string) { d.lines = append(d.lines, fLine{text: text}) }

func (d *fDoc) text() string {
	var sb strings.Builder
	for i, l := range d.lines {
		sb.WriteString(l.text)
		if i < len(d.lines)-1 || d.finalEOL {
			sb.WriteString(d.eol)
		}
	}
	return sb.String()
}

// fLetters: n symbolic ASCII letters.
func fLetters(name string, n int) string { return zzverif.Text(name, zzverif.Letters, n) }
func fLower(name string, n int) string   { return zzverif.Text(name, zzverif.Lower, n) }
func fUpper(name string, n int) string   { return zzverif.Text(name, zzverif.Upper, n) }

// fAcct: representative account names (>= 2 segments). The letters are symbolic; the wide
// characters are the representatives of DESIGN §4.1 (é 2 bytes/1 unit, € 3 bytes/1 unit,
// 😀 4 bytes/2 units), so bytes != characters != UTF-16 units.
func fAcct(name string, kind int) string {
	// the first letter is lower case: the lexer's isLetter tests two ranges one after the other and
	// would fork on the case of every letter it looks at; the other letters are of either case
	first := fLower(name+".a0", 1)
	switch kind {
	case 0:
		return first + ":" + fLetters(name+".b", 1)
	case 1:
		return first + fLetters(name+".a", 2) + ":" + fLetters(name+".b", 4)
	case 2:
		return first + "é€:😀" + fLetters(name+".b", 1)
	case 3:
		return first + fLetters(name+".a", 1) + " " + fLetters(name+".b", 2) + ":" + fLetters(name+".c", 2) + ":" + fLetters(name+".d", 1)
	default:
		return first + "😀😀é:" + fLetters(name+".b", 2) + "€"
	}
}

const fAcctKinds = 5

// fAmt is an amount of the derivation.
type fAmt struct {
	text       string
	quoted     bool   // quoted commodity whose symbol needs the quotes (contains a blank)
	quotedWord bool   // quoted commodity that is one word of letters and digits, on the right
	lowerRight bool   // right-hand commodity that is not an upper-case code (lexed as free text)
	gov        bool   // the declared display format applies to this amount
	ip, frac   string // integer and fraction digits as written (filled in by the display-format generator)
}

// fNumber: number notations of DESIGN §4.3 with symbolic digits.
func fNumber(name string, kind int) string {
	n, _, _ := fNumberF(name, kind, false)
	return n
}

// fNumberF also returns the integer digits (group marks removed) and the fraction digits;
// nz: the leading digit is 1..9.
func fNumberF(name string, kind int, nz bool) (text, ip, frac string) {
	lead := true
	D := func(s string, n int) string {
		if lead && nz {
			lead = false
			return zzverif.Text(name+"."+s+"0", "123456789", 1) + zzverif.Digits(name+"."+s, n-1)
		}
		lead = false
		return zzverif.Digits(name+"."+s, n)
	}
	var f string
	switch kind {
	case 0: // plain
		i := D("i", 2)
		return i, i, ""
	case 1: // point
		i := D("i", 2)
		f = D("f", 2)
		return i + "." + f, i, f
	case 2: // comma
		i := D("i", 1)
		f = D("f", 2)
		return i + "," + f, i, f
	case 3: // us
		g, h := D("g", 1), D("h", 3)
		f = D("f", 2)
		return g + "," + h + "." + f, g + h, f
	case 4: // eu
		g, h := D("g", 2), D("h", 3)
		f = D("f", 1)
		return g + "." + h + "," + f, g + h, f
	case 5: // space groups, decimal comma
		g, h := D("g", 1), D("h", 3)
		f = D("f", 2)
		return g + " " + h + "," + f, g + h, f
	case 6: // multi
		g, h, k := D("g", 1), D("h", 3), D("k", 3)
		return g + "," + h + "," + k, g + h + k, ""
	case 7: // trailing mark
		i := D("i", 1)
		return i + ".", i, ""
	case 8: // exponent
		i := D("i", 1)
		return i + "E" + zzverif.Digits(name+".e", 1), "", ""
	case 9: // long fraction
		i := D("i", 1)
		f = D("f", 5)
		return i + "." + f, i, f
	default: // space groups, decimal point
		g, h := D("g", 2), D("h", 3)
		f = D("f", 1)
		return g + " " + h + "." + f, g + h, f
	}
}

const fNumberKinds = 11

// fAmount: amount shapes of G: sign placement x symbol kind x side, around a number.
func fAmount(name string, shape int, num string) fAmt {
	switch shape {
	case 0:
		return fAmt{text: num}
	case 1:
		return fAmt{text: "$" + num}
	case 2:
		return fAmt{text: "-$" + num}
	case 3:
		return fAmt{text: "$-" + num}
	case 4:
		return fAmt{text: "+€" + num}
	case 5:
		return fAmt{text: num + " " + fUpper(name+".code", 3)}
	case 6:
		return fAmt{text: "-" + num + fUpper(name+".code", 2)}
	case 7:
		return fAmt{text: num + " " + fLower(name+".unit", 2), lowerRight: true}
	case 8:
		return fAmt{text: fUpper(name+".code", 3) + num}
	case 9:
		return fAmt{text: fUpper(name+".code", 2) + "-" + num}
	case 10:
		return fAmt{text: "+" + num + " €"}
	case 11:
		return fAmt{text: num + " \"" + fLower(name+".q1", 2) + " " + fLower(name+".q2", 2) + "\"", quoted: true}
	case 12:
		return fAmt{text: "\"" + fLower(name+".q1", 2) + " " + fLower(name+".q2", 1) + "\"" + num, quoted: true}
	case 13:
		// a quoted single word: the project's parser reads it back without the quotes unless
		// something follows it on the line
		return fAmt{text: "-" + num + " \"" + fLower(name+".q1", 1) + "1\"", quotedWord: true}
	default:
		return fAmt{text: num + "₽"}
	}
}

const fAmountShapes = 15

// fPosting describes one posting line of the derivation.
type fPosting struct {
	ind     string
	status  string // "" | "*" | "!"
	virt    int    // 0 none, 1 ( ), 2 [ ]
	acct    string
	gap     string
	amount  *fAmt
	cost    *fAmt
	costOp  string // "@" | "@@"
	asrt    *fAmt
	asrtOp  string  // "=" | "=="
	comment *string // text after ';' (nil: no comment)
	cws     string  // blanks before ';'
	trail   string
	junk    string
}

func (p *fPosting) line() fLine {
	disp := p.acct
	switch p.virt {
	case 1:
		disp = "(" + p.acct + ")"
	case 2:
		disp = "[" + p.acct + "]"
	}
	var sb strings.Builder
	sb.WriteString(p.ind)
	if p.status != "" {
		sb.WriteString(p.status + " ")
	}
	sb.WriteString(disp)
	quoted, lowerTail := false, false
	var nums []fNum
	note := func(a *fAmt, followed bool) {
		sb.WriteString(a.text)
		quoted = quoted || a.quoted || (a.quotedWord && followed)
		lowerTail = lowerTail || (a.lowerRight && followed)
		if a.gov {
			nums = append(nums, fNum{ip: a.ip, frac: a.frac})
		}
	}
	if p.amount != nil {
		sb.WriteString(p.gap)
		note(p.amount, p.cost != nil || p.asrt != nil)
		if p.cost != nil {
			sb.WriteString(" " + p.costOp + " ")
			note(p.cost, p.asrt != nil)
		}
		if p.asrt != nil {
			sb.WriteString(" " + p.asrtOp + " ")
			note(p.asrt, false)
		}
	}
	if p.junk != "" {
		sb.WriteString(" " + p.junk)
	}
	if p.comment != nil {
		sb.WriteString(p.cws + ";" + *p.comment)
	}
	l := fLine{text: sb.String(), posting: true, acctDisp: disp, status: p.status != "", hasAmount: p.amount != nil,
		semi: p.comment != nil, comment: p.comment != nil && *p.comment != "", quoted: quoted, junk: p.junk, lowerTail: lowerTail, nums: nums}
	l.addTrail(p.trail)
	return l
}

// ---------------------------------------------------------------- display formats

// c04FormatSample builds the number part of a `commodity` / `D` format directive:
// decimal mark dm ('.' or ','), group mark sep ("" "," "." " "), places 0..8. A format
// without any mark (integer format) is requested with dm == 0.
func c04FormatSample(dm byte, sep string, places int) string {
	s := "1" + sep + "000"
	if dm != 0 {
		s += string([]byte{dm}) + strings.Repeat("0", places)
	}
	return s
}

// c04SymFormat: every display format of the property's quantifier (decimal point or comma,
// group mark comma/point/space/none, 0..8 decimals) plus the mark-less integer formats.
func c04SymFormat(maxPlaces int) (sample string, dm byte, sep string, places int) {
	switch zzverif.Choice("fmt.kind", 8) {
	case 0:
		dm, sep = '.', ""
	case 1:
		dm, sep = '.', ","
	case 2:
		dm, sep = '.', " "
	case 3:
		dm, sep = ',', ""
	case 4:
		dm, sep = ',', "."
	case 5:
		dm, sep = ',', " "
	case 6:
		dm, sep = 0, ""
	default:
		dm, sep = 0, " "
	}
	if dm != 0 {
		places = zzverif.Choice("fmt.places", maxPlaces+1)
	}
	return c04FormatSample(dm, sep, places), dm, sep, places
}

// ---------------------------------------------------------------- reference LSP client (§4.4)

func fIndexNL(doc string, from int) int {
	for i := from; i < len(doc); i++ {
		if doc[i] == '\n' {
			return i
		}
	}
	return -1
}

// fLineSpan returns the byte span [off,end) of the content of the given line (terminator
// excluded) and whether the line exists.
func fLineSpan(doc string, line uint32) (off, end int, ok bool) {
	off = 0
	for cur := uint32(0); cur < line; cur++ {
		i := fIndexNL(doc, off)
		if i < 0 {
			return len(doc), len(doc), false
		}
		off = i + 1
	}
	end = fIndexNL(doc, off)
	if end < 0 {
		end = len(doc)
	}
	if end > off && doc[end-1] == '\r' {
		end--
	}
	return off, end, true
}

// fRefOffset maps an LSP position to a byte offset (LSP 3.17): a character offset beyond the
// line content clamps to the end of the content, before the terminator; a line beyond the last
// clamps to the end of the document. inside: the position splits a surrogate pair; past: the
// position lies beyond the content of its line or beyond the last line.
func fRefOffset(doc string, line, char uint32) (off int, inside, past bool) {
	start, end, ok := fLineSpan(doc, line)
	if !ok {
		return len(doc), false, true
	}
	units := uint32(0)
	i := start
	for i < end && units < char {
		size := 1
		b := doc[i]
		switch {
		case b >= 0xF0:
			size = 4
		case b >= 0xE0:
			size = 3
		case b >= 0xC0:
			size = 2
		}
		if size == 4 {
			units += 2
		} else {
			units++
		}
		i += size
	}
	return i, units > char, units < char
}

func fPosLess(a, b protocol.Position) bool {
	return a.Line < b.Line || (a.Line == b.Line && a.Character < b.Character)
}

// fSorted returns the edits ordered by start position, descending (stable).
func fSorted(edits []protocol.TextEdit) []protocol.TextEdit {
	out := make([]protocol.TextEdit, 0, len(edits))
	for _, e := range edits {
		i := len(out)
		out = append(out, e)
		for i > 0 && fPosLess(out[i-1].Range.Start, e.Range.Start) {
			out[i] = out[i-1]
			i--
		}
		out[i] = e
	}
	return out
}

// fApply applies a formatting answer the way a client does: all ranges refer to the original
// text; non-overlapping edits are applied back to front. ok=false if some edit is not
// applicable under the specification (start > end, position inside a surrogate pair, or two
// edits overlap).
func fApply(doc string, edits []protocol.TextEdit) (string, bool) {
	sorted := fSorted(edits)
	limit := len(doc) + 1
	for _, e := range sorted {
		s, in1, _ := fRefOffset(doc, e.Range.Start.Line, e.Range.Start.Character)
		t, in2, _ := fRefOffset(doc, e.Range.End.Line, e.Range.End.Character)
		if in1 || in2 || s > t || t > limit {
			return "", false
		}
		doc = doc[:s] + e.NewText + doc[t:]
		limit = s
	}
	return doc, true
}

func fSplitLines(doc string) []string {
	var lines []string
	start := 0
	for i := 0; i < len(doc); i++ {
		if doc[i] == '\n' {
			lines = append(lines, doc[start:i])
			start = i + 1
		}
	}
	return append(lines, doc[start:])
}

func fRuneCount(s string) int {
	n := 0
	for i := 0; i < len(s); i++ {
		if s[i]&0xC0 != 0x80 {
			n++
		}
	}
	return n
}

func fIsBlank(c byte) bool { return c == ' ' || c == '\t' }

// fTrimBlanks removes leading and trailing spaces and tabs (layout); a CR is content.
func fTrimBlanks(s string) string {
	for len(s) > 0 && fIsBlank(s[0]) {
		s = s[1:]
	}
	for len(s) > 0 && fIsBlank(s[len(s)-1]) {
		s = s[:len(s)-1]
	}
	return s
}

// fTrimBlanksCR additionally removes trailing CRs.
func fTrimBlanksCR(s string) string {
	for len(s) > 0 && (fIsBlank(s[len(s)-1]) || s[len(s)-1] == '\r') {
		s = s[:len(s)-1]
	}
	return fTrimBlanks(s)
}

// ---------------------------------------------------------------- meaning of a syntax tree

func fSameAmount(a, b *ast.Amount) {
	zzverif.Assert(a.Quantity.Equal(b.Quantity), "C04: a quantity changes")
	zzverif.Assert(a.Commodity.Symbol == b.Commodity.Symbol, "C04: a commodity symbol changes")
	zzverif.Assert(a.Commodity.Symbol == "" || a.Commodity.Position == b.Commodity.Position, "C04: a commodity changes side")
}

func fSameTags(a, b []ast.Tag) {
	zzverif.Assert(len(a) == len(b), "C04: number of tags changes")
	for i := range a {
		zzverif.Assert(a[i].Name == b[i].Name && a[i].Value == b[i].Value, "C04: a tag changes")
	}
}

func fSameDate(a, b ast.Date) bool { return a.Year == b.Year && a.Month == b.Month && a.Day == b.Day }

func fSameComments(a, b []ast.Comment) {
	zzverif.Assert(len(a) == len(b), "C04: number of comments changes")
	for i := range a {
		zzverif.Assert(fTrimBlanks(a[i].Text) == fTrimBlanks(b[i].Text), "C04: a comment changes")
		fSameTags(a[i].Tags, b[i].Tags)
	}
}

func fSameSubdirs(a, b map[string]string) {
	zzverif.Assert(len(a) == len(b), "C04: subdirectives change")
	for k, v := range a {
		w, ok := b[k]
		zzverif.Assert(ok && v == w, "C04: a subdirective changes")
	}
}

func fSameDirective(x, y ast.Directive) {
	switch a := x.(type) {
	case ast.AccountDirective:
		b, ok := y.(ast.AccountDirective)
		zzverif.Assert(ok, "C04: a directive changes kind")
		zzverif.Assert(a.Account.Name == b.Account.Name && fTrimBlanks(a.Comment) == fTrimBlanks(b.Comment), "C04: an account directive changes")
		fSameTags(a.Tags, b.Tags)
		fSameSubdirs(a.Subdirs, b.Subdirs)
	case ast.CommodityDirective:
		b, ok := y.(ast.CommodityDirective)
		zzverif.Assert(ok, "C04: a directive changes kind")
		zzverif.Assert(a.Commodity.Symbol == b.Commodity.Symbol && fTrimBlanks(a.Format) == fTrimBlanks(b.Format) && fTrimBlanks(a.Note) == fTrimBlanks(b.Note),
			"C04: a commodity directive changes")
		fSameSubdirs(a.Subdirs, b.Subdirs)
	case ast.PriceDirective:
		b, ok := y.(ast.PriceDirective)
		zzverif.Assert(ok, "C04: a directive changes kind")
		zzverif.Assert(fSameDate(a.Date, b.Date) && a.Commodity.Symbol == b.Commodity.Symbol, "C04: a price directive changes")
		fSameAmount(&a.Price, &b.Price)
	case ast.YearDirective:
		b, ok := y.(ast.YearDirective)
		zzverif.Assert(ok && a.Year == b.Year, "C04: a year directive changes")
	case ast.DefaultCommodityDirective:
		b, ok := y.(ast.DefaultCommodityDirective)
		// (the parser keeps the trailing blanks of the line in Format)
		zzverif.Assert(ok && a.Symbol == b.Symbol && fTrimBlanks(a.Format) == fTrimBlanks(b.Format), "C04: a default commodity directive changes")
	default:
		zzverif.Assert(false, "harness: unexpected directive type")
	}
}

func fSamePosting(a, b *ast.Posting) {
	zzverif.Assert(a.Status == b.Status && a.Virtual == b.Virtual, "C04: status or kind of a posting changes")
	zzverif.Assert(a.Account.Name == b.Account.Name, "C04: an account name changes")
	zzverif.Assert((a.Amount == nil) == (b.Amount == nil), "C04: a posting amount appears or disappears")
	if a.Amount != nil && b.Amount != nil {
		fSameAmount(a.Amount, b.Amount)
	}
	zzverif.Assert((a.Cost == nil) == (b.Cost == nil), "C04: a cost appears or disappears")
	if a.Cost != nil && b.Cost != nil {
		zzverif.Assert(a.Cost.IsTotal == b.Cost.IsTotal, "C04: a cost changes between @ and @@")
		fSameAmount(&a.Cost.Amount, &b.Cost.Amount)
	}
	zzverif.Assert((a.BalanceAssertion == nil) == (b.BalanceAssertion == nil), "C04: a balance assertion appears or disappears")
	if a.BalanceAssertion != nil && b.BalanceAssertion != nil {
		zzverif.Assert(a.BalanceAssertion.IsStrict == b.BalanceAssertion.IsStrict && a.BalanceAssertion.IsInclusive == b.BalanceAssertion.IsInclusive,
			"C04: a balance assertion changes kind")
		fSameAmount(&a.BalanceAssertion.Amount, &b.BalanceAssertion.Amount)
	}
	if fLenientCR && a.Comment != "" {
		// known class c04-crlf-posting-comment-gains-cr (set by fCheckC04 for CRLF documents only)
		zzverif.Reach("kf:c04-crlf-posting-comment-gains-cr")
		zzverif.Assert(fTrimBlanksCR(a.Comment) == fTrimBlanksCR(b.Comment), "C04: a posting comment changes")
	} else {
		zzverif.Assert(fTrimBlanks(a.Comment) == fTrimBlanks(b.Comment), "C04: a posting comment changes")
	}
	fSameTags(a.Tags, b.Tags)
}

// fLenientCR: compare posting comments modulo trailing CRs (see fCheckC04).
var fLenientCR bool

func fSameJournal(a, b *ast.Journal) {
	zzverif.Assert(len(a.Transactions) == len(b.Transactions), "C04: number of transactions changes")
	for i := range a.Transactions {
		if i >= len(b.Transactions) {
			break
		}
		x, y := &a.Transactions[i], &b.Transactions[i]
		zzverif.Assert(fSameDate(x.Date, y.Date) && (x.Date2 == nil) == (y.Date2 == nil), "C04: a transaction date changes")
		if x.Date2 != nil && y.Date2 != nil {
			zzverif.Assert(fSameDate(*x.Date2, *y.Date2), "C04: a secondary date changes")
		}
		zzverif.Assert(x.Status == y.Status && x.Code == y.Code && x.Description == y.Description && x.Payee == y.Payee && x.Note == y.Note,
			"C04: a transaction header changes")
		fSameComments(x.Comments, y.Comments)
		fSameTags(x.Tags, y.Tags)
		zzverif.Assert(len(x.Postings) == len(y.Postings), "C04: number of postings changes")
		for k := range x.Postings {
			if k >= len(y.Postings) {
				break
			}
			fSamePosting(&x.Postings[k], &y.Postings[k])
		}
	}
	zzverif.Assert(len(a.Directives) == len(b.Directives), "C04: number of directives changes")
	for i := range a.Directives {
		if i >= len(b.Directives) {
			break
		}
		fSameDirective(a.Directives[i], b.Directives[i])
	}
	zzverif.Assert(len(a.Includes) == len(b.Includes), "C04: number of includes changes")
	for i := range a.Includes {
		if i >= len(b.Includes) {
			break
		}
		zzverif.Assert(a.Includes[i].Path == b.Includes[i].Path, "C04: an include path changes")
	}
	fSameComments(a.Comments, b.Comments)
}

func fSameErrors(a, b []parser.ParseError) {
	zzverif.Assert(len(a) == len(b), "C04: number of syntax diagnostics changes")
	for i := range a {
		if i >= len(b) {
			break
		}
		zzverif.Assert(a[i].Message == b[i].Message && a[i].Pos.Line == b[i].Pos.Line, "C04: a syntax diagnostic changes")
	}
}

// ---------------------------------------------------------------- class predicates

func (d *fDoc) anyPostingAt(f func(i int) bool) bool {
	for i := range d.lines {
		if d.lines[i].posting && f(i) {
			return true
		}
	}
	return false
}

func (d *fDoc) anyPosting(f func(l *fLine) bool) bool {
	for i := range d.lines {
		if d.lines[i].posting && f(&d.lines[i]) {
			return true
		}
	}
	return false
}

// fCheckWide (a pseudo class, only for maintaining the harness): KNOWN=zz_check_wide with every
// real class disabled keeps only the inputs on which some class predicate holds and reports
// "harness: a class predicate ... holds but nothing is violated" if such an input satisfies the
// whole property, i.e. if a predicate is wider than its cause (or the defect has been repaired).
const fCheckWide = "zz_check_wide"

// ---------------------------------------------------------------- C04 (document level)

// fCheckC04 formats the document with the formats declared in it (formats == nil) or with the
// given workspace formats.
func fCheckC04(d *fDoc, opts Options) { fCheckC04With(d, opts, nil) }

func fCheckC04With(d *fDoc, opts Options, formats map[string]NumberFormat) {
	src := d.text()
	zzverif.Observe("src", src)
	j0, e0 := parser.Parse(src)
	edits := FormatDocumentWithOptions(j0, src, formats, opts)
	out, ok := fApply(src, edits)
	// ill-formed or overlapping edit lists are the subject of C05
	zzverif.Assume(ok)
	zzverif.Observe("out", out)

	// known classes, each defined by the shape of the input (the derivation)
	quoted := d.anyPosting(func(l *fLine) bool { return l.quoted })
	crlfComment := d.eol == "\r\n" && d.anyPostingAt(func(i int) bool { return d.lines[i].comment && d.crlf(i) })
	if d.anyPosting(fRejTail) {
		zzverif.Reach("C04.tail")
		if zzverif.Known("c04-posting-unparsed-tail-deleted") {
			zzverif.Reach("kf:c04-posting-unparsed-tail-deleted")
			return
		}
	}
	if zzverif.Known("c04-posting-trailing-tab-rejected") && d.anyPostingAt(d.tabTailAt) {
		// the parser rejects a tab among the trailing blanks of a posting line; the formatter drops
		// the blanks, so the diagnostic (and the truncation of the transaction) disappears
		zzverif.Reach("kf:c04-posting-trailing-tab-rejected")
		return
	}
	if zzverif.Known("c04-quoted-commodity-loses-quotes") && quoted {
		zzverif.Reach("kf:c04-quoted-commodity-loses-quotes")
		return
	}
	if zzverif.Known("c04-format-rounds-to-fewer-decimals") && d.fLossy() {
		zzverif.Reach("kf:c04-format-rounds-to-fewer-decimals")
		return
	}
	if zzverif.Known("c04-format-three-decimals-read-as-thousands") && d.fThousand() {
		zzverif.Reach("kf:c04-format-three-decimals-read-as-thousands")
		return
	}
	// c04-crlf-posting-comment-gains-cr guards only the comparison of posting comments (fSamePosting)
	fLenientCR = zzverif.Known("c04-crlf-posting-comment-gains-cr") && d.eol == "\r\n"
	wide := zzverif.Known(fCheckWide)
	if wide {
		zzverif.Assume(d.anyPosting(fRejTail) || d.anyPostingAt(d.tabTailAt) || quoted || crlfComment || d.fLossy() || d.fThousand())
	}

	// (c) no text the parser failed to understand is deleted
	srcLines := fSplitLines(src)
	outLines := fSplitLines(out)
	zzverif.Assert(len(srcLines) == len(outLines), "C04: formatting changes the number of lines")
	for i := range d.lines {
		l := &d.lines[i]
		if l.junk != "" && i < len(outLines) {
			zzverif.Assert(strings.Contains(outLines[i], l.junk), "C04: unparsed text of a posting line is deleted")
			zzverif.Reach("C04.junk.kept")
		}
	}

	j1, e1 := parser.Parse(out)
	fSameJournal(j0, j1)
	fSameErrors(e0, e1)

	// every line that is not a posting line changes only by loss of trailing blanks
	for i := range d.lines {
		if d.lines[i].posting || i >= len(outLines) {
			continue
		}
		s, o := srcLines[i], outLines[i]
		zzverif.Assert(len(o) <= len(s) && o == s[:len(o)], "C04: a line that is not a posting is rewritten")
		for k := len(o); k < len(s); k++ {
			zzverif.Assert(fIsBlank(s[k]), "C04: a line that is not a posting loses more than trailing blanks")
		}
	}
	zzverif.Assert(!wide, "harness: a class predicate of C04 holds but nothing is violated")
	zzverif.Reach("C04.doc.end")
}

// ---------------------------------------------------------------- C05

// fValidRange: §4.6.
func fValidRange(doc string, r protocol.Range) bool {
	if fPosLess(r.End, r.Start) {
		return false
	}
	_, in1, past1 := fRefOffset(doc, r.Start.Line, r.Start.Character)
	_, in2, past2 := fRefOffset(doc, r.End.Line, r.End.Character)
	return !in1 && !in2 && !past1 && !past2
}

// fCheckEdits: every range inside the document, no two edits overlap. excused(line): the
// range check of an edit that starts on that line is covered by an enabled known class.
func fCheckEdits(doc string, edits []protocol.TextEdit, excused func(line int) bool) {
	for _, e := range edits {
		if excused(int(e.Range.Start.Line)) {
			zzverif.Reach("kf:c05-crlf-posting-edit-counts-cr")
			continue
		}
		zzverif.Assert(fValidRange(doc, e.Range), "C05: an edit range is not inside the document (or start > end)")
	}
	sorted := fSorted(edits)
	for i := 0; i+1 < len(sorted); i++ {
		// sorted descending: sorted[i+1] starts before sorted[i]
		zzverif.Assert(!fPosLess(sorted[i].Range.Start, sorted[i+1].Range.End), "C05: two edits overlap")
	}
}

func fCheckC05(d *fDoc, opts Options) { fCheckC05With(d, opts, nil) }

func fCheckC05With(d *fDoc, opts Options, formats map[string]NumberFormat) {
	src := d.text()
	zzverif.Observe("src", src)

	// c05-crlf-posting-edit-counts-cr: a posting line that ends in CR LF
	crlfKnown := zzverif.Known("c05-crlf-posting-edit-counts-cr")
	excused := func(line int) bool {
		return crlfKnown && line < len(d.lines) && d.lines[line].posting && d.crlf(line)
	}

	j0, _ := parser.Parse(src)
	edits := FormatDocumentWithOptions(j0, src, formats, opts)
	fCheckEdits(src, edits, excused)
	out, ok := fApply(src, edits)
	zzverif.Assert(ok, "C05: the edit list cannot be applied")
	zzverif.Observe("out", out)

	// idempotence
	j1, _ := parser.Parse(out)
	edits2 := FormatDocumentWithOptions(j1, out, formats, opts)
	fCheckEdits(out, edits2, excused)
	out2, ok2 := fApply(out, edits2)
	zzverif.Assert(ok2, "C05: the second edit list cannot be applied")
	zzverif.Observe("out2", out2)
	skipIdem, skipAlign := false, false
	commented := d.anyPosting(func(l *fLine) bool { return l.comment })
	quoted := d.anyPosting(func(l *fLine) bool { return l.quoted })
	cutRej := d.cutsPostings(func(i int) bool { return fRejTail(&d.lines[i]) })
	cutTab := d.cutsPostings(d.tabTailAt)
	cutCR := d.cutsPostings(func(i int) bool { return d.crlf(i) && !d.lines[i].semi })
	wide := zzverif.Known(fCheckWide)
	if wide {
		zzverif.Assume(commented || quoted || cutRej || cutTab || (cutCR && opts.AlignAmounts) || d.fThousand() || d.anyPostingAt(d.crlf))
	}
	if zzverif.Known("c05-posting-comment-gains-blank") && commented {
		zzverif.Reach("kf:c05-posting-comment-gains-blank")
		skipIdem = true
	}
	if zzverif.Known("c05-quoted-commodity-loses-quotes") && quoted {
		zzverif.Reach("kf:c05-quoted-commodity-loses-quotes")
		skipIdem = true
	}
	if zzverif.Known("c05-format-three-decimals-read-as-thousands") && d.fThousand() {
		zzverif.Reach("kf:c05-format-three-decimals-read-as-thousands")
		skipIdem = true
	}
	if zzverif.Known("c05-posting-unparsed-tail-deleted") && cutRej {
		// the first run removes the rejected tail and with it the syntax error; the postings after
		// it, which the parser had dropped, are formatted only by the second run
		zzverif.Reach("kf:c05-posting-unparsed-tail-deleted")
		skipIdem, skipAlign = true, true
	}
	if zzverif.Known("c05-posting-trailing-tab-rejected") && cutTab {
		zzverif.Reach("kf:c05-posting-trailing-tab-rejected")
		skipIdem, skipAlign = true, true
	}
	if crlfKnown && d.anyPostingAt(func(i int) bool { return d.lines[i].comment && d.crlf(i) }) {
		// the CR of the line end is part of the comment text and is written again in front of the
		// line end that the client keeps: one more CR per run
		zzverif.Reach("kf:c05-crlf-posting-edit-counts-cr")
		skipIdem = true
	}
	if zzverif.Known("c05-crlf-later-postings-not-formatted") && cutCR && opts.AlignAmounts {
		// the lexer turns the CR after a posting without inline comment into a token that the parser
		// rejects; the remaining postings of the transaction are dropped and never formatted
		zzverif.Reach("kf:c05-crlf-later-postings-not-formatted")
		skipAlign = true
	}
	if !skipIdem {
		zzverif.Assert(out2 == out, "C05: formatting the formatted text changes it")
	}

	// alignment
	if opts.AlignAmounts && !skipAlign {
		outLines := fSplitLines(out)
		maxW := 0
		for i := range d.lines {
			if d.lines[i].posting {
				if w := fRuneCount(d.lines[i].acctDisp); w > maxW {
					maxW = w
				}
			}
		}
		common := -1
		for i := range d.lines {
			l := &d.lines[i]
			if !l.posting || i >= len(outLines) {
				continue
			}
			o := outLines[i]
			n := opts.IndentSize
			zzverif.Assert(len(o) > n && o[:n] == strings.Repeat(" ", n) && o[n] != ' ' && o[n] != '\t',
				"C05: a posting line does not start with exactly the configured indent")
			if l.status || !l.hasAmount {
				continue
			}
			rest := o[n:]
			zzverif.Assert(len(rest) > len(l.acctDisp) && rest[:len(l.acctDisp)] == l.acctDisp, "C05: the account does not follow the indent")
			rest = rest[len(l.acctDisp):]
			k := 0
			for k < len(rest) && rest[k] == ' ' {
				k++
			}
			col := n + fRuneCount(l.acctDisp) + k
			if common < 0 {
				common = col
			}
			zzverif.Assert(col == common, "C05: amounts do not start in one common column")
			zzverif.Assert(col >= n+maxW+2, "C05: amount column is less than two spaces after the longest account")
			zzverif.Reach("C05.align.checked")
		}
	}
	zzverif.Assert(!wide, "harness: a class predicate of C05 holds but nothing is violated")
	zzverif.Reach("C05.doc.end")
}
