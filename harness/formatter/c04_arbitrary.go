//go:build verif

package formatter

// C04 on arbitrary text (the third kind of document of the property's quantifier): there is no
// derivation, so the oracle is written over the text itself.
//
//	line 0   2024-01-15 <letters>
//	line 1   <indent> + n arbitrary bytes (printable ASCII and tab)      - wherever a posting may stand
//	line 2       c:d  1 USD                                              - a posting after it
//	line 3   m arbitrary bytes (top level, never a posting)
//
// Decided: lines 0 and 3 change only by loss of trailing blanks; line 2 keeps its meaning; on line
// 1 nothing but blanks is added or removed (the sequence of non-blank bytes is the same) - no
// display format is declared and the bytes cannot hold a quoted commodity's closing quote plus
// a number unless n >= 4; the syntax tree and the syntax diagnostics are the same after formatting.

import (
	"strings"

	"github.com/juev/hledger-lsp/internal/parser"
	"github.com/juev/hledger-lsp/internal/zzverif"
)

func init() {
	zzverif.Register("VerifC04Arbitrary", VerifC04Arbitrary)
	zzverif.Register("VerifC04ArbitraryLong", VerifC04ArbitraryLong)
}

func c04NonBlank(s string) string {
	var sb strings.Builder
	for i := 0; i < len(s); i++ {
		if !fIsBlank(s[i]) {
			sb.WriteByte(s[i])
		}
	}
	return sb.String()
}

func verifC04Arbitrary(maxN, maxM int) {
	any := zzverif.Printable("") + "\t"
	n := 1 + zzverif.Choice("n", maxN)
	m := zzverif.Choice("m", maxM+1)
	ind := fPick("ind", []string{"  ", "\t", "      "})
	t1 := zzverif.Text("t", any, n)
	t3 := zzverif.Text("u", any, m)
	// line 3 is a top-level line of arbitrary text: it does not begin with a blank, and the
	// constructs that G excludes at top level (DESIGN §4.2: periodic / auto transactions, a date
	// that would open another transaction) are not meant here
	if m > 0 {
		zzverif.Assume(!fIsBlank(t3[0]))
	}
	src := "2024-01-15 " + fLower("d", 2) + "\n" + ind + t1 + "\n    c:d  1 USD\n" + t3 + "\n"
	zzverif.Observe("src", src)
	opts := fOptionsMenu(2)

	j0, e0 := parser.Parse(src)
	edits := FormatDocumentWithOptions(j0, src, nil, opts)
	out, ok := fApply(src, edits)
	zzverif.Assume(ok) // C05
	zzverif.Observe("out", out)
	srcLines, outLines := fSplitLines(src), fSplitLines(out)
	zzverif.Assert(len(srcLines) == len(outLines), "C04: formatting changes the number of lines")
	if len(srcLines) != len(outLines) {
		return
	}

	// Known class: the parser kept a posting for line 1 and reported a syntax error on that line.
	// This predicate is defined by the parser's verdict, not by the shape of the input: for
	// arbitrary bytes "the part of the line that is no construct of the grammar" has no definition
	// other than the parser's own, and the property itself speaks of "text the parser failed to
	// understand".
	rejected := false
	for _, e := range e0 {
		if e.Pos.Line == 2 {
			for i := range j0.Transactions {
				for k := range j0.Transactions[i].Postings {
					if j0.Transactions[i].Postings[k].Range.Start.Line == 2 {
						rejected = true
					}
				}
			}
		}
	}
	if rejected {
		zzverif.Reach("C04.arbitrary.rejected")
		if zzverif.Known("c04-posting-unparsed-tail-deleted") {
			zzverif.Reach("kf:c04-posting-unparsed-tail-deleted")
			return
		}
	}
	// an inline comment that consists of blanks and ends in a tab: the blanks after the ';' are
	// comment text for the parser, layout for this oracle - same text, nothing to decide
	zzverif.Assert(c04NonBlank(srcLines[1]) == c04NonBlank(outLines[1]), "C04: text of an indented line is deleted or invented")
	for _, i := range []int{0, 3} {
		s, o := srcLines[i], outLines[i]
		zzverif.Assert(len(o) <= len(s) && o == s[:len(o)], "C04: a line that is not a posting is rewritten")
		for k := len(o); k < len(s); k++ {
			zzverif.Assert(fIsBlank(s[k]), "C04: a line that is not a posting loses more than trailing blanks")
		}
	}
	j1, e1 := parser.Parse(out)
	fSameJournal(j0, j1)
	fSameErrors(e0, e1)
	zzverif.Reach("C04.arbitrary.end")
}

func VerifC04Arbitrary()     { verifC04Arbitrary(3, 1) }
func VerifC04ArbitraryLong() { verifC04Arbitrary(4, 2) }
