//go:build verif

package formatter

// C04 on arbitrary text (the third kind of document of the property's quantifier): there is no
// derivation, so the oracle is written over the text itself.
//
//	line 0   2024-01-15 <letters>
//	line 1   <indent> + P + n arbitrary bytes (printable ASCII and tab), P = "" or "a:b"
//	line 2       c:d  1 USD                                  - a posting after it
//	line 3   m arbitrary bytes (top level, never a posting)
//
// Three shapes, so that the costs add up instead of multiplying: arbitrary indented line (m = 0),
// arbitrary text after an account (m = 0), arbitrary top-level line after a well-formed
// transaction (line 1 = "a:b  2 USD").
//
// Decided: lines 0 and 3 change only by loss of trailing blanks; line 2 keeps its meaning; on line
// 1 nothing is added or removed except blanks, a redundant plus sign, an empty comment marker and
// a missing closing bracket and commodity quotes (c04Core; no display format is declared, so numbers are re-emitted
// as written); the syntax tree and the
// syntax diagnostics are the same after formatting.

import (
	"strings"

	"github.com/juev/hledger-lsp/internal/parser"
	"github.com/juev/hledger-lsp/internal/zzverif"
)

func init() {
	zzverif.Register("VerifC04Arbitrary", VerifC04Arbitrary)
	zzverif.Register("VerifC04ArbitraryLong", VerifC04ArbitraryLong)
}

// c04Core: the line without blanks and without the bytes that formatting may legitimately add or
// drop while the parser reads the same thing: a redundant plus sign, the marker of an empty
// inline comment, the closing bracket that the parser does not insist on, the quotes of a
// commodity (whether a symbol survives without its quotes is decided by comparing the trees).
func c04Core(s string) string {
	var sb strings.Builder
	for i := 0; i < len(s); i++ {
		switch s[i] {
		case ' ', '\t', '+', ';', ')', ']', '"':
		default:
			sb.WriteByte(s[i])
		}
	}
	return sb.String()
}

func verifC04Arbitrary(maxN, maxM int) {
	any := zzverif.Printable("") + "\t"
	ind := fPick("ind", []string{"  ", "\t"})
	var t1, t3 string
	n := 0
	switch zzverif.Choice("shape", 3) {
	case 0:
		n = 1 + zzverif.Choice("n", maxN)
		t1 = zzverif.Text("t", any, n)
	case 1:
		n = 1 + zzverif.Choice("n", maxN)
		t1 = "a:b" + zzverif.Text("t", any, n)
	default:
		t1 = "a:b  2 USD"
		m := 1 + zzverif.Choice("m", maxM)
		t3 = zzverif.Text("u", any, m)
		// a top-level line does not begin with a blank
		zzverif.Assume(!fIsBlank(t3[0]))
	}
	src := "2024-01-15 " + fLower("d", 2) + "\n" + ind + t1 + "\n    c:d  1 USD\n" + t3 + "\n"
	zzverif.Observe("src", src)
	opts := fOptionsMenu(1)

	j0, e0 := parser.Parse(src)
	edits := FormatDocumentWithOptions(j0, src, nil, opts)
	out, ok := fApply(src, edits)
	zzverif.Assume(ok) // C05
	zzverif.Observe("out", out)
	srcLines, outLines := fSplitLines(src), fSplitLines(out)
	zzverif.Assert(len(srcLines) == len(outLines), "C04: formatting changes the number of lines")
	if len(srcLines) != len(outLines) {
		return
	}

	// Known class: the parser kept a posting for line 1 and reported a syntax error on that line.
	// This predicate is defined by the parser's verdict, not by the shape of the input: for
	// arbitrary bytes "the part of the line that is no construct of the grammar" has no definition
	// other than the parser's own, and the property itself speaks of "text the parser failed to
	// understand".
	rejected, dBlank := false, false
	for _, e := range e0 {
		if e.Pos.Line == 2 {
			for i := range j0.Transactions {
				for k := range j0.Transactions[i].Postings {
					if j0.Transactions[i].Postings[k].Range.Start.Line == 2 {
						rejected = true
					}
				}
			}
		}
	}
	// Known class, by the shape of the input: line 1 consists of blanks only. The parser does not
	// take such a line for the end of the transaction; the formatter trims it to an empty line,
	// which is the end of the transaction: the posting on line 2 is lost.
	if fTrimBlanks(t1) == "" {
		zzverif.Reach("C04.arbitrary.blank")
		if zzverif.Known("c04-whitespace-line-inside-transaction-trimmed") {
			zzverif.Reach("kf:c04-whitespace-line-inside-transaction-trimmed")
			return
		}
	}
	// Known class, by the shape of the input: a top-level line "D" whose trailing blanks the parser
	// folds into the directive - a tab after "D <digits>" is taken for the commodity (Format
	// becomes "<digits> "), a blank after "D" + opening quote is part of the unterminated symbol.
	// The formatter trims the blanks and the directive reads differently.
	if m := len(t3); m >= 3 && t3[0] == 'D' {
		digits, blanks := true, true
		for i := 1; i < m-1; i++ {
			digits = digits && t3[i] >= '0' && t3[i] <= '9'
		}
		for i := 2; i < m; i++ {
			blanks = blanks && fIsBlank(t3[i])
		}
		if (digits && t3[m-1] == '\t') || (t3[1] == '"' && blanks) {
			dBlank = true
		}
	}
	if dBlank {
		zzverif.Reach("C04.arbitrary.dblank")
		if zzverif.Known("c04-d-directive-trailing-blank-significant") {
			zzverif.Reach("kf:c04-d-directive-trailing-blank-significant")
			return
		}
	}
	if rejected {
		zzverif.Reach("C04.arbitrary.rejected")
		if zzverif.Known("c04-posting-unparsed-tail-deleted") {
			zzverif.Reach("kf:c04-posting-unparsed-tail-deleted")
			return
		}
	}
	zzverif.Assert(c04Core(srcLines[1]) == c04Core(outLines[1]), "C04: text of an indented line is deleted or invented")
	for _, i := range []int{0, 3} {
		s, o := srcLines[i], outLines[i]
		zzverif.Assert(len(o) <= len(s) && o == s[:len(o)], "C04: a line that is not a posting is rewritten")
		for k := len(o); k < len(s); k++ {
			zzverif.Assert(fIsBlank(s[k]), "C04: a line that is not a posting loses more than trailing blanks")
		}
	}
	j1, e1 := parser.Parse(out)
	fSameJournal(j0, j1)
	fSameErrors(e0, e1)
	zzverif.Assert(!zzverif.Known(fCheckWide) || !(rejected || dBlank || fTrimBlanks(t1) == ""), "harness: a class predicate of C04 holds but nothing is violated")
	zzverif.Reach("C04.arbitrary.end")
}

func VerifC04Arbitrary()     { verifC04Arbitrary(2, 2) }
func VerifC04ArbitraryLong() { verifC04Arbitrary(3, 3) }
