//go:build verif

package formatter

import "github.com/juev/hledger-lsp/internal/zzverif"

func init() {
	zzverif.Register("VerifC04DocLayout", VerifC04DocLayout)
	zzverif.Register("VerifC04DocLayoutLong", VerifC04DocLayoutLong)
	zzverif.Register("VerifC04DocAmounts", VerifC04DocAmounts)
	zzverif.Register("VerifC04DocAmountsLong", VerifC04DocAmountsLong)
	zzverif.Register("VerifC04DocText", VerifC04DocText)
	zzverif.Register("VerifC04DocTextLong", VerifC04DocTextLong)
	zzverif.Register("VerifC04DocFormats", VerifC04DocFormats)
	zzverif.Register("VerifC04DocFormatsLong", VerifC04DocFormatsLong)
	zzverif.Register("VerifC04Junk", VerifC04Junk)
	zzverif.Register("VerifC04JunkLong", VerifC04JunkLong)
}

func VerifC04DocLayout()      { fCheckC04(fGenLayout(false)) }
func VerifC04DocLayoutLong()  { fCheckC04(fGenLayout(true)) }
func VerifC04DocAmounts()     { fCheckC04(fGenAmounts(false)) }
func VerifC04DocAmountsLong() { fCheckC04(fGenAmounts(true)) }
func VerifC04DocText()        { fCheckC04(fGenText(false)) }
func VerifC04DocTextLong()    { fCheckC04(fGenText(true)) }
func VerifC04DocFormats()     { fCheckC04(fGenFormats(false)) }
func VerifC04DocFormatsLong() { fCheckC04(fGenFormats(true)) }
func VerifC04Junk()           { fCheckC04(fGenJunk(false)) }
func VerifC04JunkLong()       { fCheckC04(fGenJunk(true)) }
