//go:build verif

package formatter

import (
	"strings"

	"github.com/shopspring/decimal"

	"github.com/juev/hledger-lsp/internal/ast"
	"github.com/juev/hledger-lsp/internal/parser"
	"github.com/juev/hledger-lsp/internal/zzverif"
)

func init() {
	zzverif.Register("VerifC04Number", VerifC04Number)
	zzverif.Register("VerifC04NumberLong", VerifC04NumberLong)
}

// VerifC04Number: quantity with symbolic digits -> FormatNumber under a symbolic display
// format -> the project's own lexer and number normalisation -> decimal: same value.
func verifC04Number(maxI, maxF, maxPlaces int) {
	neg := zzverif.Choice("neg", 2) == 1
	ni := 1 + zzverif.Choice("ni", maxI)
	nf := zzverif.Choice("nf", maxF+1)
	I := zzverif.Digits("i", ni)
	F := zzverif.Digits("f", nf)
	// the ambiguous shape of DESIGN 4.3 (one mark, exactly three digits, non-zero integer part) is not a
	// number of G: the project reads 9.820 as 9820 (now that a lossy format leaves the amount as written,
	// the source spelling itself reaches the parser)
	zzverif.Assume(!(nf == 3 && I != strings.Repeat("0", ni)))
	src := I
	if nf > 0 {
		src += "." + F
	}
	if neg {
		src = "-" + src
	}
	qty, err := decimal.NewFromString(src)
	zzverif.Assert(err == nil, "harness: source number is a decimal")

	sample, dm, sep, places := c04SymFormat(maxPlaces)
	format := ParseNumberFormat(sample)
	// through the function the formatter itself uses for a posting amount (it decides whether the
	// display format is applied at all), not through the FormatNumber helper alone
	amt := ast.Amount{Quantity: qty, RawQuantity: src, Commodity: ast.Commodity{Symbol: "USD"}}
	out := formatAmountQuantity(&amt, map[string]NumberFormat{"USD": format})
	zzverif.Observe("out", out)

	// class predicates (over the inputs)
	if zzverif.Known("c04-format-rounds-to-fewer-decimals") && fLossyNum(F, places) {
		zzverif.Reach("kf:c04-format-rounds-to-fewer-decimals")
		return
	}
	if zzverif.Known("c04-format-three-decimals-read-as-thousands") && dm != 0 && places == 3 && fThousandNum(I, F, sep) {
		zzverif.Reach("kf:c04-format-three-decimals-read-as-thousands")
		return
	}

	j, errs := parser.Parse("2024-01-01 x\n    a:b  " + out + " USD\n")
	zzverif.Assert(len(errs) == 0, "C04: the formatted number is re-read with a syntax error")
	zzverif.Assert(len(j.Transactions) == 1 && len(j.Transactions[0].Postings) == 1 && j.Transactions[0].Postings[0].Amount != nil,
		"C04: the formatted number is not re-read as an amount")
	got := j.Transactions[0].Postings[0].Amount
	zzverif.Assert(got.Commodity.Symbol == "USD", "C04: the commodity after the formatted number is not re-read")
	zzverif.Assert(got.Quantity.Equal(qty), "C04: the value of the formatted number differs from the original quantity")
	zzverif.Assert(!zzverif.Known(fCheckWide) || !(fLossyNum(F, places) || (dm != 0 && places == 3 && fThousandNum(I, F, sep))),
		"harness: a class predicate of C04 holds but nothing is violated")
	zzverif.Reach("C04.number.end")
}

func VerifC04Number()     { verifC04Number(4, 3, 4) }
func VerifC04NumberLong() { verifC04Number(7, 8, 8) }
