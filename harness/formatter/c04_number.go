//go:build verif

package formatter

import (
	"strings"

	"github.com/shopspring/decimal"

	"github.com/juev/hledger-lsp/internal/parser"
	"github.com/juev/hledger-lsp/internal/zzverif"
)

func init() {
	zzverif.Register("VerifC04Number", VerifC04Number)
	zzverif.Register("VerifC04NumberLong", VerifC04NumberLong)
}

// VerifC04Number: quantity with symbolic digits -> FormatNumber under a symbolic display
// format -> the project's own lexer and number normalisation -> decimal: same value.
func verifC04Number(maxI, maxF, maxPlaces int) {
	neg := zzverif.Choice("neg", 2) == 1
	ni := 1 + zzverif.Choice("ni", maxI)
	nf := zzverif.Choice("nf", maxF+1)
	I := zzverif.Digits("i", ni)
	F := zzverif.Digits("f", nf)
	src := I
	if nf > 0 {
		src += "." + F
	}
	if neg {
		src = "-" + src
	}
	qty, err := decimal.NewFromString(src)
	zzverif.Assert(err == nil, "harness: source number is a decimal")

	sample, _, _, places := c04SymFormat(maxPlaces)
	format := ParseNumberFormat(sample)
	out := FormatNumber(qty, format)
	zzverif.Observe("out", out)

	// class predicates (over the inputs)
	lossy := nf > places && F[places:] != strings.Repeat("0", nf-places)

	if zzverif.Known("format-rounds-to-fewer-decimals") && lossy {
		zzverif.Reach("kf:format-rounds-to-fewer-decimals")
		return
	}

	j, errs := parser.Parse("2024-01-01 x\n    a:b  " + out + " USD\n")
	zzverif.Assert(len(errs) == 0, "formatted number is re-read without a syntax error")
	zzverif.Assert(len(j.Transactions) == 1 && len(j.Transactions[0].Postings) == 1 && j.Transactions[0].Postings[0].Amount != nil,
		"formatted number is re-read as an amount")
	got := j.Transactions[0].Postings[0].Amount
	zzverif.Assert(got.Commodity.Symbol == "USD", "commodity after the formatted number is re-read")
	same := got.Quantity.Equal(qty)
	if zzverif.Known("format-three-decimals-read-as-thousands") && places == 3 && c04ThousandLike(out) {
		zzverif.Reach("kf:format-three-decimals-read-as-thousands")
		return
	}
	zzverif.Assert(same, "value of the formatted number differs from the original quantity")
	zzverif.Reach("C04.number.end")
}

func VerifC04Number()     { verifC04Number(4, 3, 4) }
func VerifC04NumberLong() { verifC04Number(7, 8, 8) }
