//go:build verif

package formatter

// Generators of G-journals (derivations) for the C04 / C05 document-level harnesses. Each
// generator sweeps one group of dimensions exhaustively (a "case") and holds the others at a
// small menu, so that the number of paths stays bounded. Length-changing decisions are
// Choices; leaf contents (letters, digits, comment characters) are symbolic.

import (
	"github.com/juev/hledger-lsp/internal/zzverif"
)

func fPick(name string, items []string) string { return items[zzverif.Choice(name, len(items))] }

// fOptions: indent x alignment on/off x minimum column (full product of the given menus).
func fOptions(indents []int, mincols []int) Options {
	o := Options{IndentSize: indents[zzverif.Choice("opt.indent", len(indents))], AlignAmounts: zzverif.Choice("opt.align", 2) == 1}
	if o.AlignAmounts {
		// the minimum column is only read when alignment is on
		o.MinAlignmentColumn = mincols[zzverif.Choice("opt.mincol", len(mincols))]
	}
	return o
}

// fOptionsMenu: a few representative configurations.
func fOptionsMenu(n int) Options {
	menu := []Options{
		{IndentSize: 4, AlignAmounts: true},
		{IndentSize: 2, AlignAmounts: false},
		{IndentSize: 3, AlignAmounts: true, MinAlignmentColumn: 40},
		{IndentSize: 8, AlignAmounts: true, MinAlignmentColumn: 12},
	}
	if n > len(menu) {
		n = len(menu)
	}
	return menu[zzverif.Choice("opt", n)]
}

var fAllIndents = []int{1, 2, 3, 4, 5, 6, 7, 8}

func fHeader(name string, kind int) string {
	switch kind {
	case 0:
		return "2024-01-15 " + fLower(name+".d", 3)
	case 1:
		return zzverif.Digits(name+".y", 4) + "/" + zzverif.Digits(name+".m", 1) + "/" + zzverif.Digits(name+".dd", 2) +
			"=2024/1/6 * (" + fLetters(name+".c", 2) + ") " + fLower(name+".p", 2) + " | " + fLower(name+".n", 2)
	case 2:
		return "2024.01.15 ! " + fLower(name+".d", 2) + " " + fLower(name+".e", 2) + "  ; " + fLower(name+".hc", 2) + " k:v, t2:"
	default:
		return "2024-01-15"
	}
}

// simple posting: indent + account + gap + amount
func fSimplePosting(name string, acctKind int, withAmount bool) *fPosting {
	p := &fPosting{ind: "    ", acct: fAcct(name, acctKind), gap: "  "}
	if withAmount {
		a := fAmount(name, 5, fNumber(name+".n", 1))
		p.amount = &a
	}
	return p
}

// fLayoutPosting: a posting whose layout-relevant features are chosen by the arguments.
// mark: 0 none, 1 "*", 2 ( ), 3 "!" + [ ]; amt: 0 none, 1 amount, 2 amount + assertion
func fLayoutPosting(nm string, ind string, acctKind, mark, amt int) *fPosting {
	p := &fPosting{gap: "  ", ind: ind, acct: fAcct(nm, acctKind)}
	switch mark {
	case 1:
		p.status = "*"
	case 2:
		p.virt = 1
	case 3:
		p.status = "!"
		p.virt = 2
	}
	switch amt {
	case 1:
		a := fAmount(nm, 1, fNumber(nm+".n", 1))
		p.amount = &a
		p.gap = "    "
	case 2:
		a := fAmount(nm, 5, fNumber(nm+".n", 0))
		p.amount = &a
		b := fAmount(nm+".as", 1, fNumber(nm+".asn", 0))
		p.asrt = &b
		p.asrtOp = "="
	}
	return p
}

// ---------------------------------------------------------------- generator L: layout
//
// case 0: every configuration (indent 1..8 x alignment x minimum column) x a menu of documents;
// case 1: a menu of configurations x account widths (wide characters) x status x virtual x
// amount / assertion presence x original indentation, two or three postings.
func fGenLayout(thorough bool) (*fDoc, Options) {
	d := &fDoc{eol: "\n", finalEOL: true}
	d.plain(fHeader("h", 0))
	if zzverif.Choice("case", 2) == 0 {
		opts := fOptions(fAllIndents, []int{0, 12, 40, 80})
		docs := [][3][3]int{ // per posting {acct kind, mark, amt}
			{{0, 0, 1}, {2, 0, 1}, {1, 0, 0}},
			{{4, 1, 1}, {0, 0, 2}, {3, 2, 1}},
			{{2, 3, 2}, {4, 0, 1}, {0, 1, 0}},
			{{3, 0, 1}, {1, 2, 2}, {2, 0, 2}},
		}
		n := len(docs)
		if !thorough {
			n = 3
		}
		doc := docs[zzverif.Choice("doc", n)]
		for i := 0; i < 3; i++ {
			d.add(fLayoutPosting("p"+zzverif.Itoa(i), []string{"  ", "\t", "      "}[i], doc[i][0], doc[i][1], doc[i][2]).line())
		}
		return d, opts
	}
	nopt := 3
	if thorough {
		nopt = 4
	}
	opts := fOptionsMenu(nopt)
	inds := [][2]string{{"    ", "    "}, {" ", "\t"}, {"        ", "  "}}[zzverif.Choice("inds", 3)]
	d.add(fLayoutPosting("p0", inds[0], zzverif.Choice("p0.acct", fAcctKinds), zzverif.Choice("p0.mark", 4), zzverif.Choice("p0.amt", 3)).line())
	if thorough {
		d.add(fLayoutPosting("p1", inds[1], []int{0, 2, 4}[zzverif.Choice("p1.acct", 3)], zzverif.Choice("p1.mark", 4), zzverif.Choice("p1.amt", 3)).line())
		if zzverif.Choice("np", 2) == 1 {
			d.add(fLayoutPosting("p2", inds[0], 1, 0, 1+zzverif.Choice("p2.amt", 2)).line())
		}
	} else {
		d.add(fLayoutPosting("p1", inds[1], []int{0, 2, 3}[zzverif.Choice("p1.acct", 3)], zzverif.Choice("p1.mark", 2), 1+zzverif.Choice("p1.amt", 2)).line())
	}
	return d, opts
}

// ---------------------------------------------------------------- generator A: amounts
//
// case 0: posting amount: shape (sign placement, symbol kind, side) x number notation;
// case 1: cost (@ / @@) and assertion (= / ==) of several shapes after a menu of amounts.
func fGenAmounts(thorough bool) (*fDoc, Options) {
	nopt := 2
	if thorough {
		nopt = 4
	}
	opts := fOptionsMenu(nopt)
	d := &fDoc{eol: "\n", finalEOL: true}
	d.plain(fHeader("h", 0))
	p := &fPosting{ind: "  ", acct: fAcct("p0", 0), gap: "  "}
	if zzverif.Choice("case", 2) == 0 {
		a := fAmount("p0", zzverif.Choice("p0.shape", fAmountShapes), fNumber("p0.n", zzverif.Choice("p0.num", fNumberKinds)))
		p.amount = &a
		if thorough {
			switch zzverif.Choice("p0.cmt", 3) {
			case 1:
				c := " " + fLower("p0.c", 2)
				p.comment = &c
				p.cws = ""
			case 2:
				p.gap = "   "
				p.trail = " \t"
			}
		}
	} else {
		a := fAmount("p0", []int{0, 5, 1, 7}[zzverif.Choice("p0.shape", 4)], fNumber("p0.n", 1))
		p.amount = &a
		extra := 1 + zzverif.Choice("p0.extra", 3)
		if extra == 1 || extra == 3 {
			nk := 1
			if thorough {
				nk = zzverif.Choice("p0.cnum", fNumberKinds)
			}
			c := fAmount("p0.c", []int{1, 5, 7, 11, 2, 8}[zzverif.Choice("p0.cshape", 6)], fNumber("p0.cn", nk))
			p.cost = &c
			p.costOp = fPick("p0.cop", []string{"@", "@@"})
		}
		if extra == 2 || extra == 3 {
			b := fAmount("p0.a", []int{1, 5, 3, 13}[zzverif.Choice("p0.ashape", 4)], fNumber("p0.an", 1))
			p.asrt = &b
			p.asrtOp = fPick("p0.aop", []string{"=", "=="})
		}
	}
	d.add(p.line())
	d.add(fSimplePosting("p1", 1, thorough && zzverif.Choice("p1.amt", 2) == 1).line())
	return d, opts
}

// ---------------------------------------------------------------- generator T: text around postings
//
// case 0: header shapes x inline comments (with / without tags, with / without leading blank)
//
//	x comment lines between postings;
//
// case 1: leading and trailing material (line comments, directives, blank lines) x line-end
//
//	style x final line end;
//
// case 2: trailing blanks on one line or on every line of a document that has every line kind.
var fDirectives = []string{
	"account assets:cash  ; type:A, note",
	"commodity USD",
	"include other.journal",
	"P 2024-01-01 EUR 1.10 USD",
	"Y 2024",
	"account a:b",
}

func fTextTx(d *fDoc, tn string, hk, cmt int, cl bool) {
	d.plain(fHeader(tn+".h", hk))
	p := fSimplePosting(tn+".p0", 0, true)
	switch cmt {
	case 1:
		c := " " + fLower(tn+".c", 3)
		p.comment = &c
		p.cws = "  "
	case 2:
		c := fLower(tn+".c", 2)
		p.comment = &c
		p.cws = ""
	case 3:
		c := " " + fLower(tn+".k", 2) + ":" + fLower(tn+".v", 2) + ", " + fLower(tn+".k2", 1) + ": "
		p.comment = &c
		p.cws = " "
	case 4:
		c := ""
		p.comment = &c
		p.cws = " "
	case 5: // a semicolon followed by blanks only
		c := "   "
		p.comment = &c
		p.cws = " "
	}
	d.add(p.line())
	if cl {
		d.plain("    ; " + fLower(tn+".clt", 2) + " #1 (x)" + " k:" + fLower(tn+".clv", 1))
	}
	d.add(fSimplePosting(tn+".p1", 2, false).line())
}

func fGenText(thorough bool) (*fDoc, Options) {
	opts := fOptionsMenu(2)
	d := &fDoc{eol: "\n", finalEOL: true}
	switch zzverif.Choice("case", 3) {
	case 0:
		fTextTx(d, "t0", zzverif.Choice("t0.hk", 4), zzverif.Choice("t0.cmt", 6), zzverif.Choice("t0.cl", 2) == 1)
		if thorough && zzverif.Choice("ntx", 2) == 1 {
			d.plain("")
			fTextTx(d, "t1", zzverif.Choice("t1.hk", 4), zzverif.Choice("t1.cmt", 5), false)
		}
	case 1:
		if zzverif.Choice("eol", 2) == 1 {
			d.eol = "\r\n"
		}
		d.finalEOL = zzverif.Choice("final", 2) == 0
		switch zzverif.Choice("lead", 4) {
		case 1:
			d.plain("; " + fLower("lc", 2) + " -- $5 x")
		case 2:
			d.plain(fPick("dir0", fDirectives))
			d.plain("")
		case 3:
			d.plain(";" + fLower("lc", 2) + " tag:" + fLower("lv", 2) + ", other")
			d.plain("")
		}
		// with and without an inline comment on the first posting
		fTextTx(d, "t0", 0, zzverif.Choice("t0.cmt", 2), false)
		switch zzverif.Choice("tailm", 3) {
		case 1:
			d.plain("")
			d.plain(fPick("dir1", fDirectives))
		case 2:
			d.plain("")
			d.plain("; end")
		default:
			// the transaction's last posting is the last line of the document: with trailing
			// blanks on it (and, by "final", with or without a final line end)
			if zzverif.Choice("lasttrail", 2) == 1 {
				d.lines[len(d.lines)-1].addTrail(" ")
			}
		}
	default:
		if zzverif.Choice("eol", 2) == 1 {
			d.eol = "\r\n"
		}
		d.plain("; " + fLower("lc", 2))
		d.plain("account a:b  ; k:v")
		d.plain("")
		fTextTx(d, "t0", 2, 1, true)
		d.plain("")
		d.plain("P 2024-01-01 EUR 1.10 USD")
		trail := fPick("trail", []string{" ", " \t  "})
		where := zzverif.Choice("trail.at", len(d.lines)+1)
		for i := range d.lines {
			// blank lines of G are empty (a whitespace-only line is not a blank line)
			if (where == len(d.lines) || where == i) && d.lines[i].text != "" {
				d.lines[i].addTrail(trail)
			}
		}
	}
	return d, opts
}

// ---------------------------------------------------------------- generator D: display formats
//
// commodity / D directives carrying a display format (decimal point or comma, group mark,
// 0..8 places) x amounts in that commodity (symbolic digits) on posting, cost and assertion.
// case 0: every format x number notations; case 1: every way of declaring x a menu of formats.
func fGenFormats(thorough bool) (*fDoc, Options) {
	opts := fOptionsMenu(1)
	d := &fDoc{eol: "\n", finalEOL: true, fmtOn: true}
	maxPlaces := 3
	if thorough {
		maxPlaces = 8
	}
	var sample string
	how := 0
	sweep := zzverif.Choice("case", 2) == 0
	if sweep {
		sample, d.fmtDM, d.fmtSep, d.fmtPlaces = c04SymFormat(maxPlaces)
	} else {
		menu := []string{"1,000.00", "1.000,00", "1 000.0", "1000", "1000,000"}
		k := zzverif.Choice("fmt.menu", len(menu))
		sample, d.fmtPlaces = menu[k], []int{2, 2, 1, 0, 3}[k]
		d.fmtDM, d.fmtSep = []byte{'.', ',', '.', 0, ','}[k], []string{",", ".", " ", "", ""}[k]
		how = zzverif.Choice("dir.how", 5)
	}
	switch how {
	case 0:
		d.plain("commodity " + sample + " EUR")
	case 1:
		d.plain("commodity EUR")
		d.plain("  format " + sample + " EUR")
	case 2:
		d.plain("D " + sample + " EUR")
	case 3:
		d.plain("commodity $" + sample)
	default:
		d.plain("D $" + sample)
	}
	d.plain("")
	d.plain(fHeader("h", 0))
	left := how >= 3
	mk := func(name string, numKind int) *fAmt {
		n, ip, f := fNumberF(name, numKind, true)
		if zzverif.Choice(name+".neg", 2) == 1 {
			n = "-" + n
		}
		if left {
			return &fAmt{text: "$" + n, gov: true, ip: ip, frac: f}
		}
		return &fAmt{text: n + " EUR", gov: true, ip: ip, frac: f}
	}
	nums := []int{0, 1, 3, 7, 9}
	if thorough {
		nums = []int{0, 1, 2, 3, 4, 5, 6, 7, 9, 10}
	}
	p := &fPosting{ind: "    ", acct: fAcct("p0", 0), gap: "  "}
	if sweep {
		p.amount = mk("p0.n", nums[zzverif.Choice("p0.num", len(nums))])
		d.add(p.line())
		d.add(fSimplePosting("p1", 1, false).line())
		return d, opts
	}
	p.amount = mk("p0.n", 1)
	switch zzverif.Choice("p0.extra", 3) {
	case 1:
		p.cost = mk("p0.c", 1)
		p.costOp = "@"
	case 2:
		p.asrt = mk("p0.a", 9)
		p.asrtOp = "="
	}
	d.add(p.line())
	// second posting in another commodity: a D format applies to it as well
	q := &fPosting{ind: "    ", acct: fAcct("p1", 1), gap: "  "}
	n, ip, f := fNumberF("p1.n", 1, true)
	// a D directive's format is the default format of every commodity
	q.amount = &fAmt{text: n + " USD", gov: how == 2 || how == 4, ip: ip, frac: f}
	d.add(q.line())
	return d, opts
}

// ---------------------------------------------------------------- generator J: junk after a posting (C04 c)
func fGenJunk(thorough bool) (*fDoc, Options) {
	opts := fOptionsMenu(1)
	d := &fDoc{eol: "\n", finalEOL: true}
	d.plain(fHeader("h", 0))
	p := fSimplePosting("p0", 0, true)
	maxLen := 2
	if thorough {
		maxLen = 3
	}
	n := 1 + zzverif.Choice("junk.len", maxLen)
	p.junk = zzverif.Text("junk", zzverif.Printable(" "), n)
	// a tail that starts a comment, a cost or an assertion may be a construct of G
	zzverif.Assume(p.junk[0] != ';' && p.junk[0] != '@' && p.junk[0] != '=')
	d.add(p.line())
	if zzverif.Choice("more", 2) == 1 {
		d.add(fSimplePosting("p1", 1, true).line())
	}
	return d, opts
}
