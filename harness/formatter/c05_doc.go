//go:build verif

package formatter

import "github.com/juev/hledger-lsp/internal/zzverif"

func init() {
	zzverif.Register("VerifC05DocLayout", VerifC05DocLayout)
	zzverif.Register("VerifC05DocLayoutLong", VerifC05DocLayoutLong)
	zzverif.Register("VerifC05DocAmounts", VerifC05DocAmounts)
	zzverif.Register("VerifC05DocAmountsLong", VerifC05DocAmountsLong)
	zzverif.Register("VerifC05DocText", VerifC05DocText)
	zzverif.Register("VerifC05DocTextLong", VerifC05DocTextLong)
	zzverif.Register("VerifC05DocFormats", VerifC05DocFormats)
	zzverif.Register("VerifC05DocFormatsLong", VerifC05DocFormatsLong)
}

func VerifC05DocLayout()      { fCheckC05(fGenLayout(false)) }
func VerifC05DocLayoutLong()  { fCheckC05(fGenLayout(true)) }
func VerifC05DocAmounts()     { fCheckC05(fGenAmounts(false)) }
func VerifC05DocAmountsLong() { fCheckC05(fGenAmounts(true)) }
func VerifC05DocText()        { fCheckC05(fGenText(false)) }
func VerifC05DocTextLong()    { fCheckC05(fGenText(true)) }
func VerifC05DocFormats()     { fCheckC05(fGenFormats(false)) }
func VerifC05DocFormatsLong() { fCheckC05(fGenFormats(true)) }
