#!/usr/bin/env python3
"""mkoverlay.py <out.json> <pkg> <HarnessFn> — overlay for one harness: zzverif + the files of
/verif/harness/<pkg> that belong to the harness's property (cNN_*.go for VerifCNN...) + unprefixed
shared files. EXTRA=c04_,c08_ (env) adds other prefixes. Files of other packages are not overlaid, so a
half-written harness elsewhere cannot break this one."""
import glob, json, os, re, sys

REPO = os.environ.get("VERIF_REPO", "/repo")  # VERIF_REPO: evaluate a scratch copy (seeded changes); registered checks use /repo

# harness files of a property that build on another property's files (the shared session driver
# c01_session.go, the configuration fixture of c19_effect.go): every harness of that property in
# that package needs them, because all cNN_ files of the property are compiled together
NEEDS = {("server", "c04_"): ["c01_"], ("server", "c08_"): ["c01_"], ("server", "c16_"): ["c01_"],
         ("server", "c05_"): ["c19_", "c01_"],
         ("include", "c10_"): ["c11_"]}  # the glob-history harness in common.go compares with c11's zSameResult

# harnesses that call an unexported function directly live in files with a lettered prefix, which
# only they get: a signature change stops them alone
FN_NEEDS = {"VerifC17Edits": ["c17e_"], "VerifC06Edits": ["c06e_"], "VerifC20Sums": ["c20e_"]}

def files_for(pkg, fn, extra=()):
    m = re.match(r"VerifC(\d\d)", fn)
    want = ["c" + m.group(1) + "_"] if m else []
    want += [e for e in extra if e]
    for pre, ws in FN_NEEDS.items():
        if fn.startswith(pre):
            want += ws
    for w in list(want):
        want += NEEDS.get((pkg, w), [])
    out = []
    for f in sorted(glob.glob(f"/verif/harness/{pkg}/*.go")):
        b = os.path.basename(f)
        if re.match(r"c\d\d[a-z]?_", b) and not any(b.startswith(w) for w in want):
            continue
        out.append(f)
    return out

def overlay(pkg, fn, extra=()):
    rep = {f"{REPO}/internal/zzverif/zzverif.go": "/verif/zzverif/zzverif.go"}
    for f in files_for(pkg, fn, extra):
        rep[f"{REPO}/internal/{pkg}/zz_verif_{os.path.basename(f)}"] = f
    return {"Replace": rep}

if __name__ == "__main__":
    out, pkg, fn = sys.argv[1:4]
    extra = os.environ.get("EXTRA", "").split(",")
    json.dump(overlay(pkg, fn, extra), open(out, "w"))
