# Check configuration: which harnesses decide which property, with the bounds per tier.
CHECKS = {
 "C01": {
  "harnesses": [
   {"pkg": "lsputil", "fn": "VerifC01Apply",
    "quick": {"args": ["-timeout-ms", 10000], "reach": ["C01.apply.end"]},
    "thorough": {"fn": "VerifC01ApplyLong", "args": ["-timeout-ms", 60000], "reach": ["C01.apply.end"]}},
  ],
  "bounds": {"quick": {"document_characters": 3, "inserted_characters": 1, "positions": "four unconstrained uint32"},
             "thorough": {"document_characters": 5, "inserted_characters": 2, "positions": "four unconstrained uint32"}},
  "assumptions": ["start <= end", "no position inside a surrogate pair", "no lone CR (only LF and CRLF line ends)",
                  "non-ASCII characters are the representatives é, €, 😀 (2,3,4 bytes); ASCII characters are symbolic over 0x20..0x7E"],
  "outside": ["documents longer than the bound", "JSON-RPC decoding"],
 },
 "C02": {
  "harnesses": [
   {"pkg": "server", "fn": "VerifC02Notation", "quick": {"args": [], "reach": ["C02.notation"]},
    "thorough": {"fn": "VerifC02NotationDeep", "args": ["-timeout-ms", 60000, "-deadline", "30m"], "reach": ["C02.notation"]}},
   {"pkg": "server", "fn": "VerifC02Kinds", "quick": {"args": [], "reach": ["C02.kinds"]},
    "thorough": {"fn": "VerifC02KindsDeep", "args": ["-timeout-ms", 60000, "-deadline", "40m"], "reach": ["C02.kinds"]}},
   {"pkg": "server", "fn": "VerifC02Cost", "quick": {"args": [], "reach": ["C02.cost"]},
    "thorough": {"fn": "VerifC02CostDeep", "args": ["-timeout-ms", 60000, "-deadline", "40m"], "reach": ["C02.cost"]}},
  ],
  "bounds": {"quick": {"postings": "2 (notation, cost) or 3 (kinds)", "digits": "all digits symbolic; 1..3 integer digits, 0..2 fraction digits, groups of 3, up to 6 fraction digits in the long-fraction notation",
                       "notations": "plain, point, comma, trailing mark, US/EU/space grouping, multiple group marks, exponent (E2, e+1, E-1), long fraction; sign none/-/+ before the amount or after a left symbol; commodity $ left, USD right, EUR left-adjacent, quoted right, euro sign right-adjacent (8 spelling x sign combinations)",
                       "kinds": "ordinary / (virtual) / [balanced virtual], with or without amount, 2 commodities",
                       "costs": "unit cost with concrete price 2 or 1.5 and symbolic quantity; total cost with symbolic amount"},
             "thorough": {"postings": "2 (notation), 4 (kinds), 2..3 (cost)", "notations": "all 5 spellings x 4 sign placements", "kinds": "3 commodities, 3 notations per posting", "costs": "unit prices 2, 1.5, 0.25, 10"}},
  "assumptions": ["property's own restriction: not (exactly two commodities, no cost, no amount-less posting, unbalanced) [hledger infers a price]; residual not below the precision written for its commodity",
                  "the ambiguous shape 'one mark followed by exactly three digits' is not generated (DESIGN 4.3)",
                  "unit-cost prices are concrete (product of two symbolic quantities is non-linear)",
                  "Decimal.String of a symbolic value is an opaque token: the wording of the message beyond the diagnostic code is not checked; the named differences are checked on BalanceResult.Differences as exact values",
                  "cli availability probe stubbed to false"],
  "outside": ["5-6 postings", "symbolic unit prices", "message text rendering"],
 },
 "C19": {
  "harnesses": [
   {"pkg": "server", "fn": "VerifC19Frame", "quick": {"args": [], "reach": ["C19.frame.key", "C19.frame.nonmap", "C19.frame.unrec"]},
    "thorough": {"fn": "VerifC19FrameFull", "args": ["-timeout-ms", 60000, "-deadline", "40m"], "reach": ["C19.frame.key"]}},
   {"pkg": "server", "fn": "VerifC19Decode", "quick": {"args": [], "reach": ["C19.decode.bool", "C19.decode.int", "C19.decode.letters"]}},
   {"pkg": "server", "fn": "VerifC19Refresh", "quick": {"args": [], "reach": ["C19.refresh.end"]}},
   {"pkg": "server", "fn": "VerifC19Init", "quick": {"args": [], "reach": ["C19.init.end"]}},
  ],
  "bounds": {"quick": {"prior_settings": "every field symbolic (booleans free, numbers in stated ranges), at most one numeric field non-positive",
                       "payload": "one recognised key (all 25) in nested, dotted or both spellings, 0..2 'hledger' wrappers; value of every JSON kind (null, bool symbolic, 7 numbers, 13 strings, array, object); non-map payloads; unrecognised keys",
                       "decoders": "symbolic strings up to 5 bytes"},
             "thorough": {"prior_settings": "every field symbolic, any number of non-positive numeric fields", "payload": "as quick"}},
  "assumptions": ["numbers in payloads are concrete representatives (the executor has no symbolic floating point); float->int conversion only for |v| <= 2^53",
                  "protocol.Client is the harness's stub; os/exec availability probe stubbed to false"],
  "outside": ["two different recognised keys in one payload", "symbolic floating point payload values", "sequences are covered by one step from an arbitrary prior settings value"],
 },
 "C20": {
  "harnesses": [
   {"pkg": "server", "fn": "VerifC20Hover", "quick": {"args": [], "reach": ["C20.hover"]},
    "thorough": {"fn": "VerifC20HoverDeep", "args": ["-deadline", "30m"], "reach": ["C20.hover"]}},
   {"pkg": "server", "fn": "VerifC20Sums", "quick": {"args": [], "reach": ["C20.sums"]},
    "thorough": {"fn": "VerifC20SumsDeep", "args": ["-timeout-ms", 60000, "-deadline", "30m"], "reach": ["C20.sums"]}},
   {"pkg": "server", "fn": "VerifC20Counts", "quick": {"args": [], "reach": ["C20.counts.payee", "C20.counts.tag", "C20.counts.tagvalue", "C20.counts.amount"]}},
  ],
  "bounds": {"quick": {"files": "1..3 (single, root->f1, chain root->f1->f2)", "postings_to_hovered_account": "one per file plus one extra posting of 4 variants in a chosen file (<= 4)",
                       "amounts": "hover text: 3 concrete notations (digit groups, sign, 12 decimals); sums: symbolic digits d.dd",
                       "requests": "from root or included file, with and without workspace root, after the first and after a second background run"},
             "thorough": {"files": "adds the star shape root->f1, root->f2", "amounts": "7 concrete notations; symbolic digits d.dd, dd.dddddddddddd (12 decimals), ddd"}},
  "assumptions": ["hover text is checked with concrete amounts (rendering of a symbolic decimal is an opaque token); exact sums over symbolic digits are checked on the balances the hover is built from",
                  "posting count: when some postings to the account have no amount both readings of 'such postings' are accepted",
                  "virtual file system stubs for os.Stat/ReadFile/filepath.Walk; background analysis runs as an atomic task"],
  "outside": ["4 files", "more than 4 postings to the hovered account"],
 },
 "SMOKE": {
  "harnesses": [{"pkg": "server", "fn": "VerifSmoke", "quick": {"args": [], "reach": ["smoke.end"]}}],
 },
}

NOT_APPLICABLE = {
 "C14": "data races, deadlocks and memory corruption at memory-access granularity under the Go scheduler are outside SSA-level symbolic execution with atomic tasks (DESIGN.md section 7); the right tool is go test -race under schedule exploration, a different technique",
}
