# Check configuration: which harnesses decide which property, with the bounds per tier.
CHECKS = {
 "C01": {
  "harnesses": [
   {"pkg": "lsputil", "fn": "VerifC01Apply",
    "quick": {"args": ["-timeout-ms", 10000], "reach": ["C01.apply.end"]},
    "thorough": {"fn": "VerifC01ApplyLong", "args": ["-timeout-ms", 60000], "reach": ["C01.apply.end"]}},
  ],
  "bounds": {"quick": {"document_characters": 3, "inserted_characters": 1, "positions": "four unconstrained uint32"},
             "thorough": {"document_characters": 5, "inserted_characters": 2, "positions": "four unconstrained uint32"}},
  "assumptions": ["start <= end", "no position inside a surrogate pair", "no lone CR (only LF and CRLF line ends)",
                  "non-ASCII characters are the representatives é, €, 😀 (2,3,4 bytes); ASCII characters are symbolic over 0x20..0x7E"],
  "outside": ["documents longer than the bound", "JSON-RPC decoding"],
 },
 "C19": {
  "harnesses": [
   {"pkg": "server", "fn": "VerifC19Frame", "quick": {"args": [], "reach": ["C19.frame.key", "C19.frame.nonmap", "C19.frame.unrec"]},
    "thorough": {"fn": "VerifC19FrameFull", "args": ["-timeout-ms", 60000, "-deadline", "40m"], "reach": ["C19.frame.key"]}},
   {"pkg": "server", "fn": "VerifC19Decode", "quick": {"args": [], "reach": ["C19.decode.bool", "C19.decode.int", "C19.decode.letters"]}},
   {"pkg": "server", "fn": "VerifC19Refresh", "quick": {"args": [], "reach": ["C19.refresh.end"]}},
   {"pkg": "server", "fn": "VerifC19Init", "quick": {"args": [], "reach": ["C19.init.end"]}},
  ],
  "bounds": {"quick": {"prior_settings": "every field symbolic (booleans free, numbers in stated ranges), at most one numeric field non-positive",
                       "payload": "one recognised key (all 25) in nested, dotted or both spellings, 0..2 'hledger' wrappers; value of every JSON kind (null, bool symbolic, 7 numbers, 13 strings, array, object); non-map payloads; unrecognised keys",
                       "decoders": "symbolic strings up to 5 bytes"},
             "thorough": {"prior_settings": "every field symbolic, any number of non-positive numeric fields", "payload": "as quick"}},
  "assumptions": ["numbers in payloads are concrete representatives (the executor has no symbolic floating point); float->int conversion only for |v| <= 2^53",
                  "protocol.Client is the harness's stub; os/exec availability probe stubbed to false"],
  "outside": ["two different recognised keys in one payload", "symbolic floating point payload values", "sequences are covered by one step from an arbitrary prior settings value"],
 },
 "SMOKE": {
  "harnesses": [{"pkg": "server", "fn": "VerifSmoke", "quick": {"args": [], "reach": ["smoke.end"]}}],
 },
}

NOT_APPLICABLE = {
 "C14": "data races, deadlocks and memory corruption at memory-access granularity under the Go scheduler are outside SSA-level symbolic execution with atomic tasks (DESIGN.md section 7); the right tool is go test -race under schedule exploration, a different technique",
}
