# Check configuration: which harnesses decide which property, with the bounds per tier.
CHECKS = {
 "C01": {
  "harnesses": [
   {"pkg": "lsputil", "fn": "VerifC01Apply",
    "quick": {"args": ["-timeout-ms", 10000], "reach": ["C01.apply.end"]},
    "thorough": {"fn": "VerifC01ApplyLong", "args": ["-timeout-ms", 60000], "reach": ["C01.apply.end"]}},
  ],
  "bounds": {"quick": {"document_characters": 3, "inserted_characters": 1, "positions": "four unconstrained uint32"},
             "thorough": {"document_characters": 5, "inserted_characters": 2, "positions": "four unconstrained uint32"}},
  "assumptions": ["start <= end", "no position inside a surrogate pair", "no lone CR (only LF and CRLF line ends)",
                  "non-ASCII characters are the representatives é, €, 😀 (2,3,4 bytes); ASCII characters are symbolic over 0x20..0x7E"],
  "outside": ["documents longer than the bound", "JSON-RPC decoding"],
 },
 "SMOKE": {
  "harnesses": [{"pkg": "server", "fn": "VerifSmoke", "quick": {"args": [], "reach": ["smoke.end"]}}],
 },
}
