#!/bin/bash
# usage: run1.sh <pkg> <Harness> [extra engine args]   -- runs one harness under gosymex and prints a summary
# Only the harness files of <pkg> that belong to the harness's property are overlaid: cNN_*.go for VerifCNN...,
# plus files without a cNN_ prefix (common.go, smoke.go, zz_main_test.go); EXTRA=c04_,c08_ adds other prefixes.
# env: KNOWN=a,b  known-finding classes to enable;  NATIVE=1  also replay reported violations natively
export PATH=/root/go/pkg/mod/golang.org/toolchain@v0.0.1-go1.24.0.linux-amd64/bin:$PATH GOTOOLCHAIN=local GOFLAGS=-mod=mod GOPROXY=off GOSUMDB=off CGO_ENABLED=0
W=$(mktemp -d /verif/.work/run.XXXXXX)
trap 'rm -rf "$W"' EXIT
(cd /verif/engine && go build -o "$W/gosymex" .) || exit 1
cd /verif
pkg=$1; h=$2; shift; shift
python3 /verif/mkoverlay.py "$W/ov.json" "$pkg" "$h" || exit 1
"$W/gosymex" -dir "${VERIF_REPO:-/repo}" -overlay "$W/ov.json" -pkgs ./internal/$pkg -harness github.com/juev/hledger-lsp/internal/$pkg.$h -out "$W/r.json" -known "$KNOWN" "$@" 2>&1 | grep -v "^WARNING conda" | tail -${TAIL:-15}
[ -f "$W/r.json" ] || exit 1
cp "$W/r.json" /verif/.work/last-$h.json
python3 /verif/show.py "$W/r.json" ${SHOW:-8}
if [ -n "$NATIVE" ]; then
  python3 /verif/native1.py "$W" "$pkg" "$h" "$KNOWN"
fi
