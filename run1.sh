#!/bin/bash
# usage: run1.sh <pkg> <Harness> [extra engine args]
export PATH=/root/go/pkg/mod/golang.org/toolchain@v0.0.1-go1.24.0.linux-amd64/bin:$PATH GOTOOLCHAIN=local GOFLAGS=-mod=mod GOPROXY=off GOSUMDB=off
cd /verif/engine && go build -o gosymex . || exit 1
cd /verif
pkg=$1; h=$2; shift; shift
python3 - "$pkg" <<'PY'
import json,glob,os,sys
pkg=sys.argv[1]
rep={"/repo/internal/zzverif/zzverif.go":"/verif/zzverif/zzverif.go"}
for d in glob.glob('/verif/harness/*'):
    p=os.path.basename(d)
    for f in glob.glob(d+'/*.go'):
        b=os.path.basename(f)
        rep[f"/repo/internal/{p}/zz_verif_{b}"]=f
os.makedirs('/verif/.work',exist_ok=True)
json.dump({"Replace":rep},open('/verif/.work/ov.json','w'))
PY
rm -f .work/r.json; ./engine/gosymex -overlay .work/ov.json -pkgs ./internal/$pkg -harness github.com/juev/hledger-lsp/internal/$pkg.$h -out .work/r.json "$@"
