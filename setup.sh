#!/bin/bash
# Builds the symbolic executor offline (go1.24.0 toolchain from the module cache, x/tools v0.29.0).
set -e
export PATH=/root/go/pkg/mod/golang.org/toolchain@v0.0.1-go1.24.0.linux-amd64/bin:$PATH GOTOOLCHAIN=local GOFLAGS=-mod=mod GOPROXY=off GOSUMDB=off CGO_ENABLED=0
cd "$(dirname "$0")/engine"
go build -o gosymex .
echo "gosymex built"
# engine conformance: Go-semantics battery + server smoke path, engine vs native (never blocks the checks)
cd .. && ./vcheck SMOKE quick | tail -3 || true
