#!/bin/bash
# mevall.sh [id...]  — evaluate seeded changes (default: all of /verif/seeded) against the quick check of the
# property each one breaks, on a scratch worktree /tmp/mev of /repo (HEAD, or meta.applies_to). One line per
# seed in .work/mev/SUMMARY: id, property, violations, reporting harnesses. env: PROP=Cxx evaluates against another property's check.
export PATH=/root/go/pkg/mod/golang.org/toolchain@v0.0.1-go1.24.0.linux-amd64/bin:$PATH GOTOOLCHAIN=local GOFLAGS=-mod=mod GOPROXY=off GOSUMDB=off CGO_ENABLED=0
cd /verif; mkdir -p .work/mev
[ -d /tmp/mev ] || git -C /repo worktree add -q --detach /tmp/mev HEAD || exit 2
ids="$@"; [ -z "$ids" ] && ids=$(ls seeded)
for id in $ids; do
  sd=/verif/seeded/$id
  prop=${PROP:-$(python3 -c "import json;print(json.load(open('$sd/meta.json'))['breaks_property'])" 2>/dev/null | tail -1)}
  base=$(python3 -c "import json;print(json.load(open('$sd/meta.json')).get('applies_to',''))" 2>/dev/null | tail -1)
  [ -z "$base" ] && base=$(git -C /repo rev-parse HEAD)
  (cd /tmp/mev && git checkout -q -- . && git clean -fdq internal cmd && git checkout -q --detach $base && git apply $sd/patch.diff) || { echo "$id $prop PATCH-DOES-NOT-APPLY" >> .work/mev/SUMMARY; continue; }
  s=$(date +%s)
  VERIF_REPO=/tmp/mev timeout 3600 ./vcheck $prop quick > .work/mev/$id-$prop.log 2>&1
  ex=$?
  nv=$(grep -c '^VIOLATION' .work/mev/$id-$prop.log)
  hs=$(grep '^VIOLATION' .work/mev/$id-$prop.log | sed 's|.*/\(Verif[A-Za-z0-9]*\)-.*|\1|' | sort -u | tr '\n' ',')
  inc=$(grep -oE 'inconclusive=[0-9]+' .work/mev/$id-$prop.log | tail -1)
  echo "$id $prop base=${base:0:7} exit=$ex violations=$nv $inc harnesses=$hs $(( $(date +%s)-s ))s" >> .work/mev/SUMMARY
  (cd /tmp/mev && git checkout -q -- .)
done
echo "DONE $(date +%H:%M)" >> .work/mev/SUMMARY
