// Package zzverif is the harness support library. It is injected into the
// repository by overlay as internal/zzverif (nothing is committed to /repo).
//
// Under the symbolic executor (gosymex) the primitive functions below are
// intercepted by name and their bodies are never executed. Compiled natively
// they read concrete values from a replay file (env VERIF_REPLAY), so that a
// solver model can be re-run against the real code.
package zzverif

import (
	"encoding/json"
	"fmt"
	"io/fs"
	"os"
	"path/filepath"
	"strconv"
	"strings"
	"time"
)

type replayFile struct {
	Property string            `json:"property"`
	Harness  string            `json:"harness"`
	Inputs   map[string]string `json:"inputs"`
}

var (
	loaded  bool
	inputs  map[string]string
	Failed  []string
	Reached []string
	root    string
)

type assumeFailed struct{}
type assertStop struct{}

func load() {
	if loaded {
		return
	}
	loaded = true
	inputs = map[string]string{}
	p := os.Getenv("VERIF_REPLAY")
	if p == "" {
		return
	}
	data, err := os.ReadFile(p)
	if err != nil {
		panic("zzverif: cannot read replay file: " + err.Error())
	}
	var rf replayFile
	if err := json.Unmarshal(data, &rf); err != nil {
		panic("zzverif: bad replay file: " + err.Error())
	}
	inputs = rf.Inputs
}

func getU(name string) uint64 {
	load()
	s, ok := inputs[name]
	if !ok {
		return 0
	}
	if strings.HasPrefix(s, "-") {
		v, _ := strconv.ParseInt(s, 10, 64)
		return uint64(v)
	}
	v, _ := strconv.ParseUint(s, 10, 64)
	return v
}

// Engine reports whether the code runs under the symbolic executor.
func Engine() bool { return false }

// Known reports whether the named known-finding class is listed in /verif/known_findings.json
// for this property; a harness may then leave that class out of its assertion (the class
// predicate is harness code over inputs and observable outputs). The listed witness is
// replayed separately with the class NOT excluded.
func Known(class string) bool {
	for _, k := range strings.Split(os.Getenv("VERIF_KNOWN"), ",") {
		if k == class || (strings.HasSuffix(k, "*") && strings.HasPrefix(class, k[:len(k)-1])) {
			return true
		}
	}
	return false
}

// Byte returns an unconstrained byte.
func Byte(name string) byte { return byte(getU(name)) }

// ByteIn returns a byte constrained to the characters of allowed.
func ByteIn(name, allowed string) byte {
	if len(allowed) == 1 {
		return allowed[0]
	}
	b := byte(getU(name))
	if strings.IndexByte(allowed, b) < 0 {
		fmt.Printf("REPLAY-DOMAIN-ERROR: %s=%d not in %q\n", name, b, allowed)
		panic(assumeFailed{})
	}
	return b
}

func Bool(name string) bool { return getU(name) != 0 }

// Int returns an int in [lo, hi].
func Int(name string, lo, hi int) int {
	v := int(int64(getU(name)))
	if v < lo || v > hi {
		fmt.Printf("REPLAY-DOMAIN-ERROR: %s=%d not in [%d,%d]\n", name, v, lo, hi)
		panic(assumeFailed{})
	}
	return v
}

func Uint32(name string) uint32 { return uint32(getU(name)) }

// Choice is an unconstrained n-way case split (always explored exhaustively).
func Choice(name string, n int) int {
	v := int(getU(name))
	if v < 0 || v >= n {
		fmt.Printf("REPLAY-DOMAIN-ERROR: choice %s=%d not in [0,%d)\n", name, v, n)
		panic(assumeFailed{})
	}
	return v
}

// Assume cuts the path when c is false.
func Assume(c bool) {
	if !c {
		fmt.Println("ASSUME-FAILED")
		panic(assumeFailed{})
	}
}

// Assert states the property.
func Assert(c bool, msg string) {
	if !c {
		fmt.Println("ASSERT-FAILED: " + msg)
		Failed = append(Failed, msg)
		panic(assertStop{})
	}
}

func Reach(label string) {
	Reached = append(Reached, label)
	fmt.Println("REACH: " + label)
}

// Observe records a probe value (compared between engine and native run).
func Observe(name string, v any) {
	fmt.Printf("OBSERVE: %s=%s\n", name, render(v))
}

func render(v any) string {
	switch v := v.(type) {
	case string:
		return fmt.Sprintf("%q", v)
	case bool:
		return fmt.Sprint(v)
	case []string:
		var sb strings.Builder
		sb.WriteString("[")
		for i, s := range v {
			if i > 0 {
				sb.WriteString(" ")
			}
			fmt.Fprintf(&sb, "%q", s)
		}
		sb.WriteString("]")
		return sb.String()
	case []byte:
		var sb strings.Builder
		sb.WriteString("[")
		for i, s := range v {
			if i > 0 {
				sb.WriteString(" ")
			}
			fmt.Fprintf(&sb, "%d", s)
		}
		sb.WriteString("]")
		return sb.String()
	case []int:
		var sb strings.Builder
		sb.WriteString("[")
		for i, s := range v {
			if i > 0 {
				sb.WriteString(" ")
			}
			fmt.Fprintf(&sb, "%d", s)
		}
		sb.WriteString("]")
		return sb.String()
	case []uint32:
		var sb strings.Builder
		sb.WriteString("[")
		for i, s := range v {
			if i > 0 {
				sb.WriteString(" ")
			}
			fmt.Fprintf(&sb, "%d", s)
		}
		sb.WriteString("]")
		return sb.String()
	}
	return fmt.Sprint(v)
}

// RunHarness runs f natively, translating the control panics into a verdict.
// It returns "ok", "assume", "assert" or "panic".
func RunHarness(f func()) (verdict string, detail string) {
	defer func() {
		if r := recover(); r != nil {
			switch r.(type) {
			case assumeFailed:
				verdict = "assume"
			case assertStop:
				verdict = "assert"
				detail = strings.Join(Failed, "; ")
			default:
				verdict = "panic"
				detail = fmt.Sprint(r)
			}
		}
	}()
	f()
	return "ok", ""
}

var registry = map[string]func(){}

func Register(name string, f func()) { registry[name] = f }
func Lookup(name string) func()       { return registry[name] }

// ---------- tasks (goroutines spawned by the code under test) ----------

// Under the engine `go f()` enqueues a task that only runs when RunTask is
// called. Natively goroutines are real; harnesses that need a schedule use
// their own gating and consult Engine().
func PendingTasks() int { return 0 }
func RunTask(i int)     {}

// MapOrderNondet(true) makes the engine explore every iteration order of maps
// with up to 3 entries; natively it has no effect.
func MapOrderNondet(on bool) {}

// ---------- virtual file system ----------

// Root is the directory that holds the harness's files ("/w" under the engine,
// a fresh temporary directory natively).
func Root() string {
	if root == "" {
		d, err := os.MkdirTemp("", "zzverif")
		if err != nil {
			panic(err)
		}
		root = d
	}
	return root
}

func Home() string { h, _ := os.UserHomeDir(); return h }

func WriteFile(path, content string) {
	os.MkdirAll(filepath.Dir(path), 0o755)
	if err := os.WriteFile(path, []byte(content), 0o644); err != nil {
		panic(err)
	}
}

// WriteFileSized: under the engine Stat reports size; natively the content is padded with a comment.
func WriteFileSized(path, content string, size int) {
	for len(content) < size {
		content += ";\n"
	}
	WriteFile(path, content)
}

func RemoveFile(path string) { os.Remove(path) }

func Cleanup() {
	if root != "" {
		os.RemoveAll(root)
		root = ""
	}
}

func SetNow(unix int64) {}

// FakeFileInfo is what the engine's os.Stat model returns.
type FakeFileInfo struct {
	N   string
	Sz  int64
	Dir bool
}

func (f FakeFileInfo) Name() string       { return f.N }
func (f FakeFileInfo) Size() int64        { return f.Sz }
func (f FakeFileInfo) Mode() fs.FileMode  { return 0o644 }
func (f FakeFileInfo) ModTime() time.Time { return time.Time{} }
func (f FakeFileInfo) IsDir() bool        { return f.Dir }
func (f FakeFileInfo) Sys() any           { return nil }

// ---------- helpers built on the primitives (ordinary Go, run by both) ----------

func Itoa(i int) string { return strconv.Itoa(i) }

// Text returns a string of exactly n bytes, each constrained to allowed.
func Text(name, allowed string, n int) string {
	b := make([]byte, n)
	for i := 0; i < n; i++ {
		b[i] = ByteIn(name+"."+Itoa(i), allowed)
	}
	return string(b)
}

// TextUpTo returns a string of 0..max bytes (length case-split).
func TextUpTo(name, allowed string, min, max int) string {
	n := min + Choice(name+".len", max-min+1)
	return Text(name, allowed, n)
}

// Digits returns n symbolic decimal digits as a string.
func Digits(name string, n int) string { return Text(name, "0123456789", n) }

const (
	Lower   = "abcdefghijklmnopqrstuvwxyz"
	Upper   = "ABCDEFGHIJKLMNOPQRSTUVWXYZ"
	Digit   = "0123456789"
	Letters = Lower + Upper
)

// Printable returns the ASCII printable characters 0x20..0x7E minus the characters in except.
func Printable(except string) string {
	var sb strings.Builder
	for c := byte(0x20); c <= 0x7e; c++ {
		if strings.IndexByte(except, c) < 0 {
			sb.WriteByte(c)
		}
	}
	return sb.String()
}
