#!/bin/bash
# rewitness.sh <prop> <pkg> <Harness> <class> [engine args]: take a fresh witness for a known class (run without that class)
prop=$1; pkg=$2; h=$3; cls=$4; shift 4
KN=$(python3 -c "
import json
print(','.join(f['class'] for f in json.load(open('/verif/known_findings.json'))['findings'] if f['property']=='$prop' and f['class']!='$cls'))")
KNOWN=$KN TAIL=1 SHOW=1 /verif/run1.sh $pkg $h -max-violations 1 -deadline 300s "$@" > /dev/null 2>&1
python3 - <<P
import json
r=json.load(open('/verif/.work/last-$h.json'))
vs=[v for v in (r['violations'] or []) if '$cls' in v['msg']] or (r['violations'] or [])
if not vs: print('$cls: NO VIOLATION without the class'); raise SystemExit
json.dump({"property":"$prop","harness":"$h","pkg":"$pkg","inputs":vs[0]['inputs']},open('/verif/known/$prop/$cls.json','w'))
print('$cls:',vs[0]['msg'][:100])
P
