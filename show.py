import json,sys
r=json.load(open(sys.argv[1] if len(sys.argv)>1 else '/verif/.work/r.json'))
n=int(sys.argv[2]) if len(sys.argv)>2 else 8
print('status',r['status'],'| paths',r['paths'], 'decisions',r['symbolic_decisions'], 'instr',r['instructions'], '| asserts',r['assert_unsat'],'/',r['assert_queries'],'| solver',r['solver']['queries'],'q',round(r['solver']['time_s'],1),'s unknown',r['solver']['unknown'], '| wall',round(r['wall_s'],1))
print('violation counts',r['violation_counts'])
for v in (r['violations'] or [])[:n]: print(' ',v['kind'],'|',v['msg'],'|',json.dumps(v['inputs'],sort_keys=True))
if r['unsupported']: print('unsupported',r['unsupported'])
if r['engine_errors']: print('ENGINE ERRORS',r['engine_errors'][:2])
if r['unwind_exceeded']: print('budget',r['unwind_exceeded'])
print('reach', r['reach'], 'truncated', r['truncated'])
