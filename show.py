import json,sys
r=json.load(open('/verif/.work/r.json'))
print(r['harness'], r['status'],r['violation_counts'], 'paths',r['paths'], 'dec',r['symbolic_decisions'], 'instr',r['instructions'], r['solver'], 'wall',r['wall_s'])
for v in (r['violations'] or [])[:int(sys.argv[1]) if len(sys.argv)>1 else 8]: print(v['kind'],v['msg'],v['inputs'])
print('unsupported',r['unsupported'], 'engine',r['engine_errors'][:2] if r['engine_errors'] else None, 'budget', r['unwind_exceeded'], 'reach', r['reach'])
