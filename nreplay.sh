#!/bin/bash
# nreplay.sh <pkg> <Harness> <replay.json>  — run one input natively (go test -overlay), print verdict + observes. env KNOWN=a,b
export PATH=/root/go/pkg/mod/golang.org/toolchain@v0.0.1-go1.24.0.linux-amd64/bin:$PATH GOTOOLCHAIN=local GOFLAGS=-mod=mod GOPROXY=off GOSUMDB=off CGO_ENABLED=0
W=$(mktemp -d /verif/.work/nr.XXXXXX); trap 'rm -rf "$W"' EXIT
pkg=$1; h=$2; rp=$(readlink -f $3)
python3 /verif/mkoverlay.py "$W/ov.json" "$pkg" "$h" || exit 1
(cd ${VERIF_REPO:-/repo} && go test -c -vet=off -tags verif -overlay "$W/ov.json" -o "$W/n.test" ./internal/$pkg) || exit 1
cd ${VERIF_REPO:-/repo}/internal/$pkg && VERIF_REPLAY=$rp VERIF_HARNESS=$h VERIF_KNOWN=$KNOWN "$W/n.test" -test.run '^TestVerifReplay$' -test.timeout ${TMO:-30}s 2>&1 | grep -E 'VERDICT|OBSERVE|panic|^---' | head -${HEAD:-40}
