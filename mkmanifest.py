#!/usr/bin/env python3
"""Regenerates MANIFEST.json from vconf.py (claimed checks) and NOT_APPLICABLE below."""
import json, sys
sys.path.insert(0, '/verif')
import vconf
ids = [json.loads(l)['id'] for l in open('/verif/properties.jsonl')]
claimed = [i for i in ids if i in vconf.CHECKS and not vconf.CHECKS[i].get("unclaimed")]
m = {
 "version": 1,
 "setup_cmd": "./setup.sh",
 "hooks": {"guard": "verif", "enable": "harness files (build tag verif) are injected by overlay: go/packages Overlay for the symbolic executor, `go test -overlay` for native replays; nothing is added to /repo",
           "baseline_off_cmd": "cd /repo && go test -vet=off -count=1 -timeout 25m ./...", "source_commits": [], "add_only": True},
 "engines": [{"name": "gosymex", "path": "engine", "serves_properties": claimed,
              "kind_free_text": "SSA-level symbolic executor for Go (go/ssa) with an SMT back end (z3): bounded symbolic model checking of the real code; counterexamples are replayed natively before they are reported"}],
 "checks": [], "not_applicable": [],
 "notes": "All checks: ./vcheck <id> quick|thorough. Known findings: known_findings.json. Design: DESIGN.md.",
}
for i in claimed:
    c = vconf.CHECKS[i]
    m["checks"].append({
        "property_id": i, "quick_cmd": f"./vcheck {i} quick", "thorough_cmd": f"./vcheck {i} thorough",
        "evidence_file": f"evidence/{i}.json", "replay_cmd_template": f"./vcheck {i} --replay {{path}}", "engine": "gosymex",
        "level_claimed": {"category": "model_checking",
                          "text": c.get("level_text", "bounded symbolic model checking of the real code: every path of each harness is executed symbolically over go/ssa and every assertion is discharged by z3 for all input values within the stated bounds (bounds and what lies outside them are in the evidence file)"),
                          "design_ref": f"DESIGN.md section 5 {i}"},
        "level_note": c.get("level_note", "trusted base: gosymex SSA semantics and library models (checked on every run against native execution of sampled path witnesses), z3 4.8.12; stubs and assumptions listed in the evidence"),
        "technique": c.get("technique", "SSA symbolic execution of the real code + SMT (z3); native replay of counterexamples"),
    })
for i in ids:
    if i not in claimed:
        m["not_applicable"].append({"property_id": i, "reason": vconf.NOT_APPLICABLE.get(i, "check not yet built in this round; see DESIGN.md")})
json.dump(m, open('/verif/MANIFEST.json', 'w'), indent=1)
print("claimed:", claimed)
