# replays the violations of the last engine run natively: native1.py <workdir> <pkg> <harness> <known>
import json,os,subprocess,sys,re
W,pkg,h,known=sys.argv[1:5]
GOBIN="/root/go/pkg/mod/golang.org/toolchain@v0.0.1-go1.24.0.linux-amd64/bin"
env=dict(os.environ,PATH=GOBIN+":"+os.environ["PATH"],GOTOOLCHAIN="local",GOFLAGS="-mod=mod",GOPROXY="off",GOSUMDB="off",CGO_ENABLED="0")
r=json.load(open(W+'/r.json'))
b=W+'/native.test'
c=subprocess.run(["go","test","-c","-vet=off","-tags","verif","-overlay",W+"/ov.json","-o",b,f"./internal/{pkg}"],cwd=os.environ.get("VERIF_REPO","/repo"),env=env,capture_output=True,text=True)
if c.returncode!=0:
    print("NATIVE BUILD FAILED\n"+c.stdout+c.stderr); sys.exit(1)
cases=[('violation',v['inputs'],v['kind']+': '+v['msg']) for v in (r['violations'] or [])]+[('sample',s['inputs'],json.dumps(s.get('observes'))) for s in (r['samples'] or [])[:5]]
for kind,inputs,what in cases:
    p=W+'/rp.json'; json.dump({"inputs":inputs},open(p,'w'))
    e=dict(env,VERIF_REPLAY=p,VERIF_HARNESS=h,VERIF_KNOWN=known)
    try:
        o=subprocess.run([b,"-test.run","^TestVerifReplay$","-test.timeout","20s"],cwd=os.environ.get("VERIF_REPO","/repo")+f"/internal/{pkg}",env=e,capture_output=True,text=True,timeout=30)
        out=o.stdout+o.stderr
    except subprocess.TimeoutExpired:
        out="TIMEOUT"
    m=re.search(r"^VERDICT: .*$",out,re.M)
    obs=dict(re.findall(r"^OBSERVE: ([^=\n]+)=(.*)$",out,re.M))
    print(f"native {kind}: engine[{what[:200]}] -> {m.group(0) if m else out[-300:]}" + (f" observes={json.dumps(obs)[:300]}" if kind=='sample' else ""))
