#!/bin/bash
# batch.sh <deadline> <pkg:Harness>...  — triage: runs harnesses with every known class enabled, writes .work/status/<fn>.txt
export PATH=/root/go/pkg/mod/golang.org/toolchain@v0.0.1-go1.24.0.linux-amd64/bin:$PATH GOTOOLCHAIN=local GOFLAGS=-mod=mod GOPROXY=off GOSUMDB=off CGO_ENABLED=0
cd /verif
ALL=$(grep -rhoE "\"[A-Za-z0-9]+(-[A-Za-z0-9]+)+\"" harness | tr -d "\"" | sort -u | tr "\n" ","),c03-*,c17-*,c07-*
dl=$1; shift
for x in "$@"; do
  pkg=${x%%:*}; h=${x##*:}
  s=$(date +%s)
  KNOWN=${KNOWN-$ALL} TAIL=2 SHOW=4 timeout 3600 ./run1.sh $pkg $h -deadline $dl > .work/status/$h.txt 2>&1
  echo "== $h ($(( $(date +%s)-s ))s)"; grep -E '^status|^violation counts|^unsupported|^ENGINE|^budget|^reach|^  ' .work/status/$h.txt | cut -c1-400
done
